/-
  C17 — helper lemmas: list facts, the loops of the model against the list functions of the
  spec, and the single-buffer refinement `run_refines` (every `ParseBufferT` method on a
  well-formed `PB` over storage `b` = the same method on the copy `absV b p`).
  Core Lean only.
-/
import Parsley.Model.Buffer
import Parsley.Spec.Buffer
namespace Parsley.C17
open Parsley Parsley.Buffer Parsley.BufferSpec

/-- `start ≤ ofs ≤ end ≤ |storage|` -/
def WFV (b : Bytes) (p : PB) : Prop := p.start ≤ p.ofs ∧ p.ofs ≤ p.stop ∧ p.stop ≤ b.length

/-- the window of `p` in storage `b` -/
def win (b : Bytes) (p : PB) : Bytes := (b.drop p.start).take (p.stop - p.start)

/-- abstraction: the copy of the window, the relative cursor, the allocation as group -/
def absV (b : Bytes) (p : PB) : AView := ⟨win b p, p.ofs - p.start, p.store⟩

theorem win_length {b : Bytes} {p : PB} (h : WFV b p) : (win b p).length = p.stop - p.start := by
  obtain ⟨h1, h2, h3⟩ := h
  simp [win, List.length_take, List.length_drop]; omega

/-- `buf[ofs..end]` is the rest of the window after the relative cursor -/
theorem rest_eq {b : Bytes} {p : PB} (h : WFV b p) :
    (b.drop p.ofs).take (p.stop - p.ofs) = (win b p).drop (p.ofs - p.start) := by
  obtain ⟨h1, h2, h3⟩ := h
  unfold win
  rw [List.drop_take, List.drop_drop]
  have e1 : p.start + (p.ofs - p.start) = p.ofs := by omega
  have e2 : p.stop - p.start - (p.ofs - p.start) = p.stop - p.ofs := by omega
  rw [e1, e2]

/-- `buf[start..ofs]` is the part of the window before the relative cursor -/
theorem before_eq {b : Bytes} {p : PB} (h : WFV b p) :
    (b.drop p.start).take (p.ofs - p.start) = (win b p).take (p.ofs - p.start) := by
  obtain ⟨h1, h2, h3⟩ := h
  unfold win
  rw [List.take_take]
  have : min (p.ofs - p.start) (p.stop - p.start) = p.ofs - p.start := by omega
  rw [this]

theorem win_getElem? {b : Bytes} {p : PB} (h : WFV b p) (hlt : p.ofs < p.stop) :
    (win b p)[p.ofs - p.start]? = b[p.ofs]? := by
  obtain ⟨h1, h2, h3⟩ := h
  unfold win
  rw [List.getElem?_take, List.getElem?_drop]
  have : p.ofs - p.start < p.stop - p.start := by omega
  simp only [this, if_true]
  congr 1; omega

theorem slice_ok {b : Bytes} {lo hi : Nat} (h1 : lo ≤ hi) (h2 : hi ≤ b.length) :
    slice b lo hi = .ok ((b.drop lo).take (hi - lo)) := by
  simp [slice, h1, h2]

theorem collect_true (t : Bytes) (l : Bytes) :
    collect t true l = l.takeWhile (fun x => t.contains x) := by
  induction l with
  | nil => rfl
  | cons x xs ih =>
    simp only [collect, List.takeWhile_cons, ih]
    cases h : t.contains x <;> simp

theorem collect_false (t : Bytes) (l : Bytes) :
    collect t false l = l.takeWhile (fun x => !t.contains x) := by
  induction l with
  | nil => rfl
  | cons x xs ih =>
    simp only [collect, List.takeWhile_cons, ih]
    cases h : t.contains x <;> simp

theorem takeWhile_length_le {α : Type} (f : α → Bool) (l : List α) : (l.takeWhile f).length ≤ l.length := by
  induction l with
  | nil => simp
  | cons x xs ih => simp only [List.takeWhile_cons]; split <;> simp <;> omega

/-- `w.starts_with(tag)` on the window of length `|tag|` = the tag is a prefix of the rest -/
theorem isPrefixOf_take (t l : Bytes) : t.isPrefixOf (l.take t.length) = t.isPrefixOf l := by
  induction t generalizing l with
  | nil => simp [List.isPrefixOf]
  | cons x xs ih =>
    cases l with
    | nil => simp [List.isPrefixOf]
    | cons y ys => simp [List.isPrefixOf, ih]

theorem isPrefixOf_length_le {t l : Bytes} (h : t.isPrefixOf l = true) : t.length ≤ l.length := by
  induction t generalizing l with
  | nil => simp
  | cons x xs ih =>
    cases l with
    | nil => simp [List.isPrefixOf] at h
    | cons y ys =>
      simp only [List.isPrefixOf, Bool.and_eq_true] at h
      have := ih h.2
      simp; omega

theorem scanLoop_eq (t sl : Bytes) (k skip : Nat) :
    scanLoop t sl k skip = (List.range' skip k).find? (fun j => t.isPrefixOf (sl.drop j)) := by
  induction k generalizing skip with
  | zero => simp [scanLoop]
  | succ k ih =>
    simp only [scanLoop, List.range'_succ, List.find?_cons, isPrefixOf_take, ih]
    cases h : t.isPrefixOf (sl.drop skip) <;> simp

theorem bscanLoop_eq (t sl : Bytes) (k skip : Nat) :
    bscanLoop t sl k skip =
      ((List.range k).reverse.find? (fun j => t.isPrefixOf (sl.drop j))).map
        (fun j => skip + (k - 1 - j) + t.length - 1) := by
  induction k generalizing skip with
  | zero => simp [bscanLoop]
  | succ k ih =>
    simp only [bscanLoop, List.range_succ, List.reverse_append, List.reverse_cons, List.reverse_nil,
      List.nil_append, List.cons_append, List.find?_cons, isPrefixOf_take, ih]
    cases h : t.isPrefixOf (sl.drop k)
    · simp only [Option.map]
      cases hf : (List.range k).reverse.find? (fun j => t.isPrefixOf (sl.drop j)) with
      | none => rfl
      | some j =>
        have hj := List.mem_of_find?_eq_some hf
        simp only [List.mem_reverse, List.mem_range] at hj
        show some _ = some _
        congr 1
        omega
    · simp

theorem find?_some_lt {n : Nat} {f : Nat → Bool} {j : Nat}
    (h : (List.range n).find? f = some j) : j < n := by
  have := List.mem_of_find?_eq_some h
  simpa using this

theorem find?_rev_some_lt {n : Nat} {f : Nat → Bool} {j : Nat}
    (h : (List.range n).reverse.find? f = some j) : j < n := by
  have := List.mem_of_find?_eq_some h
  simpa using this

/-! ### the single-buffer refinement -/

/-- What `run_refines` states about one method call. -/
structure Refines (m : Meth) (b : Bytes) (p : PB) : Prop where
  out : (run m b p).1 = (arun m (absV b p)).1
  abs : absV b (run m b p).2 = (arun m (absV b p)).2
  wf : WFV b (run m b p).2
  store : (run m b p).2.store = p.store
  start : (run m b p).2.start = p.start
  stop : (run m b p).2.stop = p.stop

theorem size_ok {b : Bytes} {p : PB} (h : WFV b p) : size p = .ok (p.stop - p.start) := by
  obtain ⟨h1, h2, h3⟩ := h
  have : p.start ≤ p.stop := by omega
  simp [size, this]

theorem getCursor_ok {b : Bytes} {p : PB} (h : WFV b p) : getCursor p = .ok (p.ofs - p.start) := by
  simp [getCursor, h.1]

theorem remaining_ok {b : Bytes} {p : PB} (h : WFV b p) : remaining p = .ok (p.stop - p.ofs) := by
  simp [remaining, h.2.1]

theorem refines_simple (b : Bytes) (p : PB) (h : WFV b p) (m : Meth)
    (hm : m = .size ∨ m = .remaining ∨ m = .getCursor ∨ m = .peek ∨ m = .buf) : Refines m b p := by
  have hw := win_length h
  obtain ⟨h1, h2, h3⟩ := h
  have h' : WFV b p := ⟨h1, h2, h3⟩
  rcases hm with rfl | rfl | rfl | rfl | rfl
  · constructor <;> simp [run, arun, size_ok h', Res.map, absV, hw, h']
  · constructor <;> simp [run, arun, remaining_ok h', Res.map, absV, hw, h']; omega
  · constructor <;> simp [run, arun, getCursor_ok h', Res.map, absV, hw, h']
  · by_cases hlt : p.ofs < p.stop
    · have hb : p.ofs < b.length := by omega
      have e := win_getElem? h' hlt
      rw [List.getElem?_eq_getElem hb] at e
      constructor <;> simp [run, arun, hlt, List.getElem?_eq_getElem hb, absV, e, h']
    · have hn : (win b p)[p.ofs - p.start]? = none := by
        apply List.getElem?_eq_none; rw [hw]; omega
      constructor <;> simp [run, arun, hlt, absV, hn, h']
  · have e := rest_eq h'
    constructor <;> simp [run, arun, slice_ok h2 h3, Res.map, absV, e, h']

theorem absV_ofs (b : Bytes) (p : PB) (o : Nat) :
    absV b { p with ofs := o } = { absV b p with cur := o - p.start } := by
  simp [absV, win]

theorem refines_cursor (b : Bytes) (p : PB) (h : WFV b p) (m : Meth)
    (hm : (∃ k, m = .setCursor k) ∨ m = .incr ∨ m = .decr ∨ (∃ k, m = .checkCursor k)
      ∨ (∃ k, m = .setCursorU k) ∨ m = .incrU ∨ m = .decrU) : Refines m b p := by
  have hw := win_length h
  obtain ⟨h1, h2, h3⟩ := h
  have h' : WFV b p := ⟨h1, h2, h3⟩
  rcases hm with ⟨k, rfl⟩ | rfl | rfl | ⟨k, rfl⟩ | ⟨k, rfl⟩ | rfl | rfl
  · by_cases hk : k ≤ p.stop - p.start
    · constructor <;> simp [run, arun, size_ok h', absV_ofs, hw, hk, WFV] <;> (try simp [absV]) <;> omega
    · constructor <;> simp [run, arun, size_ok h', hw, hk, h'] <;> simp [absV, hw, hk]
  · by_cases hk : p.ofs < p.stop
    · have hk' : p.ofs - p.start < p.stop - p.start := by omega
      constructor <;> simp [run, arun, absV_ofs, hw, hk, WFV] <;> (try simp [absV, hw, hk']) <;> omega
    · have hk' : ¬ (p.ofs - p.start < p.stop - p.start) := by omega
      constructor <;> simp [run, arun, hw, hk, h'] <;> simp [absV, hw, hk']
  · by_cases hk : p.ofs > p.start
    · have hk' : 0 < p.ofs - p.start := by omega
      constructor <;> simp [run, arun, absV_ofs, hw, hk, WFV] <;> (try simp [absV, hw, hk']) <;> omega
    · have hk' : ¬ (0 < p.ofs - p.start) := by omega
      constructor <;> simp [run, arun, hw, hk, h'] <;> simp [absV, hw, hk']
  · constructor <;> simp [run, arun, size_ok h', hw, h'] <;> simp [absV, hw]
  · by_cases hk : k ≤ p.stop - p.start
    · constructor <;> simp [run, arun, size_ok h', absV_ofs, hw, hk, WFV] <;> (try simp [absV]) <;> omega
    · constructor <;> simp [run, arun, size_ok h', hw, hk, h'] <;> simp [absV, hw, hk]
  · by_cases hk : p.ofs < p.stop
    · have hk' : p.ofs - p.start < p.stop - p.start := by omega
      constructor <;> simp [run, arun, absV_ofs, hw, hk, WFV] <;> (try simp [absV, hw, hk']) <;> omega
    · have hk' : ¬ (p.ofs - p.start < p.stop - p.start) := by omega
      constructor <;> simp [run, arun, hw, hk, h'] <;> simp [absV, hw, hk']
  · by_cases hk : p.ofs > p.start
    · have hk' : 0 < p.ofs - p.start := by omega
      constructor <;> simp [run, arun, absV_ofs, hw, hk, WFV] <;> (try simp [absV, hw, hk']) <;> omega
    · have hk' : ¬ (0 < p.ofs - p.start) := by omega
      constructor <;> simp [run, arun, hw, hk, h'] <;> simp [absV, hw, hk']

end Parsley.C17
