/-
  C10: the date recogniser of the catalog rules (`CatalogRules.isDate`, an ASCII grammar on bytes) is
  extensionally the model of `DateStringPredicate` (`PdfDate.dateOK`: strict UTF-8 decoding followed by
  the regex as a deterministic descent), for every byte string.

  Plan: (1) `isDate s = dateMatch (s.map toNat)` for every `s` (`date_eq`; the digit-pair tests agree,
  `two_month` .. `two_sixty`); (2) `dateMatch cps = true` forces every code point below 0x80 (`match_lt`);
  (3) an all-ASCII byte string decodes to itself (`dec_ascii`), and a decoding whose code points are all
  below 0x80 is the byte string itself (`dec_all_ascii`, from `dec_head`: multi-byte forms yield >= 0x80).
-/
import Parsley.Spec.CatalogRules
namespace Parsley.C10
open Parsley Parsley.PdfDate CatalogRules

theorem chv : '0'.toNat = 48 ∧ '1'.toNat = 49 ∧ '2'.toNat = 50 ∧ '3'.toNat = 51 ∧ '5'.toNat = 53 ∧
    '9'.toNat = 57 ∧ 'D'.toNat = 68 ∧ ':'.toNat = 58 ∧ '+'.toNat = 43 ∧ '-'.toNat = 45 ∧
    'Z'.toNat = 90 ∧ '\''.toNat = 39 := by decide

theorem two_month (a b : UInt8) : twoIn 1 12 a b = month a.toNat b.toNat := by
  rw [Bool.eq_iff_iff]
  simp only [twoIn, month, isDigit, cIn, cIs, Bool.and_eq_true, Bool.or_eq_true, decide_eq_true_eq]
  have := chv
  omega

theorem two_day (a b : UInt8) : twoIn 1 31 a b = day a.toNat b.toNat := by
  rw [Bool.eq_iff_iff]
  simp only [twoIn, day, isDigit, cIn, cIs, Bool.and_eq_true, Bool.or_eq_true, decide_eq_true_eq]
  have := chv
  omega

theorem two_hour (a b : UInt8) : twoIn 0 23 a b = hour a.toNat b.toNat := by
  rw [Bool.eq_iff_iff]
  simp only [twoIn, hour, isDigit, cIn, cIs, Bool.and_eq_true, Bool.or_eq_true, decide_eq_true_eq]
  have := chv
  omega

theorem two_sixty (a b : UInt8) : twoIn 0 59 a b = sixty a.toNat b.toNat := by
  rw [Bool.eq_iff_iff]
  simp only [twoIn, sixty, isDigit, cIn, Bool.and_eq_true, decide_eq_true_eq]
  have := chv
  omega

theorem digit_eq (a : UInt8) : isDigit a = cIn '0' '9' a.toNat := by
  rw [Bool.eq_iff_iff]
  simp only [isDigit, cIn, decide_eq_true_eq]
  have := chv
  omega

theorem byte_is (q k : UInt8) (x : Char) (h : k.toNat = x.toNat) : decide (q = k) = cIs x q.toNat := by
  rw [Bool.eq_iff_iff]
  simp only [cIs, decide_eq_true_eq, ← h, UInt8.toNat_inj]

theorem offset_eq (t : Bytes) : isOffsetTail t = offsetTail (t.map UInt8.toNat) := by
  match t with
  | [] => rfl
  | [_] => rfl
  | [_, _] => rfl
  | [a, b, q] =>
    simp [isOffsetTail, offsetTail, two_hour, byte_is q 0x27 '\'' (by decide)]
  | [a, b, q, c] => 
    simp [isOffsetTail, offsetTail, two_hour, byte_is q 0x27 '\'' (by decide)]
  | [a, b, q, c, d] => 
    simp [isOffsetTail, offsetTail, two_hour, two_sixty, byte_is q 0x27 '\'' (by decide)]
  | [a, b, q, c, d, q'] => 
    simp [isOffsetTail, offsetTail, two_hour, two_sixty, byte_is q 0x27 '\'' (by decide), byte_is q' 0x27 '\'' (by decide)]
  | a :: b :: q :: c :: d :: q' :: x :: t' => 
    simp [isOffsetTail, offsetTail, two_hour, two_sixty, byte_is q 0x27 '\'' (by decide)]

theorem tail_eq (n : Nat) (t : Bytes) : isDateTail n t = dateTail n (t.map UInt8.toNat) := by
  fun_induction isDateTail n t with
  | case1 => simp [dateTail]
  | case2 a b t ih => simp [dateTail, two_month, ih]
  | case3 a b t ih => simp [dateTail, two_day, ih]
  | case4 a b t ih => simp [dateTail, two_hour, ih]
  | case5 a b t ih => simp [dateTail, two_sixty, ih]
  | case6 a b t ih => simp [dateTail, two_sixty, ih]
  | case7 o t =>
    simp [dateTail, offset_eq, ← byte_is o 0x2B '+' (by decide), ← byte_is o 0x2D '-' (by decide),
      ← byte_is o 0x5A 'Z' (by decide)]
  | case8 l n h1 h2 h3 h4 h5 h6 h7 =>
    match l, n with
    | [], _ => exact (h1 rfl).elim
    | [_], 0 | [_], 1 | [_], 2 | [_], 3 | [_], 4 => simp [dateTail]
    | [o], 5 => exact (h7 o [] rfl rfl).elim
    | a :: b :: t, 0 => exact (h2 a b t rfl rfl).elim
    | a :: b :: t, 1 => exact (h3 a b t rfl rfl).elim
    | a :: b :: t, 2 => exact (h4 a b t rfl rfl).elim
    | a :: b :: t, 3 => exact (h5 a b t rfl rfl).elim
    | a :: b :: t, 4 => exact (h6 a b t rfl rfl).elim
    | a :: b :: t, 5 => exact (h7 a (b :: t) rfl rfl).elim
    | _ :: _, n + 6 => simp [dateTail]


theorem date_eq (s : Bytes) : isDate s = dateMatch (s.map UInt8.toNat) := by
  match s with
  | [] | [_] | [_, _] | [_, _, _] | [_, _, _, _] | [_, _, _, _, _] => simp [isDate, dateMatch]
  | d :: c :: y1 :: y2 :: y3 :: y4 :: t =>
    by_cases hd : d = 0x44
    · by_cases hc : c = 0x3A
      · subst hd hc
        simp [isDate, dateMatch, digit_eq, tail_eq, cIs]
      · rw [isDate.eq_2]
        · have := byte_is c 0x3A ':' (by decide)
          simp [hc] at this
          simp [dateMatch, this]
        · intro _ _ _ _ _ h; simp at h; exact hc h.2.1
    · rw [isDate.eq_2]
      · have := byte_is d 0x44 'D' (by decide)
        simp [hd] at this
        simp [dateMatch, this]
      · intro _ _ _ _ _ h; simp at h; exact hd h.1

theorem month_lt {a b : Nat} (h : month a b = true) : a < 128 ∧ b < 128 := by
  simp only [month, cIn, cIs, Bool.and_eq_true, Bool.or_eq_true, decide_eq_true_eq] at h
  have := chv
  omega
theorem day_lt {a b : Nat} (h : day a b = true) : a < 128 ∧ b < 128 := by
  simp only [day, cIn, cIs, Bool.and_eq_true, Bool.or_eq_true, decide_eq_true_eq] at h
  have := chv
  omega
theorem hour_lt {a b : Nat} (h : hour a b = true) : a < 128 ∧ b < 128 := by
  simp only [hour, cIn, cIs, Bool.and_eq_true, Bool.or_eq_true, decide_eq_true_eq] at h
  have := chv
  omega
theorem sixty_lt {a b : Nat} (h : sixty a b = true) : a < 128 ∧ b < 128 := by
  simp only [sixty, cIn, Bool.and_eq_true, decide_eq_true_eq] at h
  have := chv
  omega
theorem cIs_lt {x : Char} {c : Nat} (hx : x.toNat < 128) (h : cIs x c = true) : c < 128 := by
  simp only [cIs, decide_eq_true_eq] at h
  omega
theorem digit_lt {c : Nat} (h : cIn '0' '9' c = true) : c < 128 := by
  simp only [cIn, decide_eq_true_eq] at h
  have := chv
  omega

theorem offset_lt (t : List Nat) (h : offsetTail t = true) : ∀ c ∈ t, c < 128 := by
  match t with
  | [] => simp
  | [_] => simp [offsetTail] at h
  | [_, _] => simp [offsetTail] at h
  | [a, b, q] =>
    simp [offsetTail] at h
    have := hour_lt h.1; have := cIs_lt (by decide) h.2
    simp; omega
  | [a, b, q, c] => simp [offsetTail] at h
  | [a, b, q, c, d] =>
    simp [offsetTail] at h
    have := hour_lt h.1.1; have := cIs_lt (by decide) h.1.2; have := sixty_lt h.2
    simp; omega
  | [a, b, q, c, d, q'] =>
    simp [offsetTail] at h
    have := hour_lt h.1.1; have := cIs_lt (by decide) h.1.2; have := sixty_lt h.2.1
    have := cIs_lt (by decide) h.2.2
    simp; omega
  | a :: b :: q :: c :: d :: q' :: x :: t' => simp [offsetTail] at h

theorem tail_lt (n : Nat) (t : List Nat) (h : dateTail n t = true) : ∀ c ∈ t, c < 128 := by
  fun_induction dateTail n t with
  | case1 => simp
  | case2 a b t ih =>
    simp at h; have h1 := month_lt h.1; have h2 := ih h.2; simp; exact ⟨h1.1, h1.2, h2⟩
  | case3 a b t ih =>
    simp at h; have h1 := day_lt h.1; have h2 := ih h.2; simp; exact ⟨h1.1, h1.2, h2⟩
  | case4 a b t ih =>
    simp at h; have h1 := hour_lt h.1; have h2 := ih h.2; simp; exact ⟨h1.1, h1.2, h2⟩
  | case5 a b t ih =>
    simp at h; have h1 := sixty_lt h.1; have h2 := ih h.2; simp; exact ⟨h1.1, h1.2, h2⟩
  | case6 a b t ih =>
    simp at h; have h1 := sixty_lt h.1; have h2 := ih h.2; simp; exact ⟨h1.1, h1.2, h2⟩
  | case7 o t =>
    simp at h
    have h2 := offset_lt t h.2
    have h1 : o < 128 := by
      rcases h.1 with (h | h) | h
      · exact cIs_lt (by decide) h
      · exact cIs_lt (by decide) h
      · exact cIs_lt (by decide) h
    simp; exact ⟨h1, h2⟩
  | case8 => simp at h

theorem match_lt (t : List Nat) (h : dateMatch t = true) : ∀ c ∈ t, c < 128 := by
  match t with
  | [] | [_] | [_, _] | [_, _, _] | [_, _, _, _] | [_, _, _, _, _] => simp [dateMatch] at h
  | d :: c :: y1 :: y2 :: y3 :: y4 :: t =>
    simp [dateMatch] at h
    obtain ⟨⟨⟨⟨⟨⟨h1, h2⟩, h3⟩, h4⟩, h5⟩, h6⟩, h7⟩ := h
    have := tail_lt 0 t h7
    simp
    exact ⟨cIs_lt (by decide) h1, cIs_lt (by decide) h2, digit_lt h3, digit_lt h4, digit_lt h5, digit_lt h6, this⟩

theorem dec_cons_ascii (b : UInt8) (t : Bytes) (h : b.toNat < 128) :
    utf8Decode (b :: t) = (utf8Decode t).map (b.toNat :: ·) := by
  rw [utf8Decode.eq_def]
  dsimp only
  rw [if_pos h]

theorem dec_ascii (s : Bytes) (h : ∀ b ∈ s, b.toNat < 128) : utf8Decode s = some (s.map UInt8.toNat) := by
  induction s with
  | nil => simp [utf8Decode]
  | cons b t ih =>
    simp at h
    rw [dec_cons_ascii b t h.1, ih h.2]
    simp

theorem map_cons_some {n : Nat} {o : Option (List Nat)} {cps : List Nat}
    (h : o.map (n :: ·) = some cps) : ∃ cs, o = some cs ∧ cps = n :: cs := by
  cases o with
  | none => simp at h
  | some cs => simp at h; exact ⟨cs, rfl, h.symm⟩

theorem ite_map_some {k : Bool} {n : Nat} {o : Option (List Nat)} {cps : List Nat}
    (h : (if k = true then o.map (n :: ·) else none) = some cps) :
    k = true ∧ ∃ cs, o = some cs ∧ cps = n :: cs := by
  cases k with
  | false => simp at h
  | true => exact ⟨rfl, map_cons_some (by simpa using h)⟩

theorem dec_head (b : UInt8) (t : Bytes) (cps : List Nat) (h : utf8Decode (b :: t) = some cps) :
    ∃ c cs, cps = c :: cs ∧ (c < 128 → b.toNat = c ∧ utf8Decode t = some cs) := by
  rw [utf8Decode.eq_def] at h
  dsimp only at h
  by_cases h0 : b.toNat < 128
  · rw [if_pos h0] at h
    obtain ⟨cs, h1, rfl⟩ := map_cons_some h
    exact ⟨_, cs, rfl, fun _ => ⟨rfl, h1⟩⟩
  rw [if_neg h0] at h
  by_cases h2 : inR 194 223 b = true
  · rw [if_pos h2] at h
    match t with
    | [] => simp at h
    | b1 :: t' =>
      dsimp only at h
      obtain ⟨hk, cs, h1, rfl⟩ := ite_map_some h
      refine ⟨_, cs, rfl, fun hc => ?_⟩
      exfalso
      simp only [inR, isCont, decide_eq_true_eq] at *
      omega
  rw [if_neg h2] at h
  by_cases h3 : inR 224 239 b = true
  · rw [if_pos h3] at h
    match t with
    | [] | [_] => simp at h
    | b1 :: b2 :: t' =>
      dsimp only at h
      obtain ⟨hk, cs, h1, rfl⟩ := ite_map_some h
      refine ⟨_, cs, rfl, fun hc => ?_⟩
      exfalso
      by_cases hb : b.toNat = 224
      · rw [if_pos hb] at hk
        simp only [inR, Bool.and_eq_true, decide_eq_true_eq] at *
        omega
      · clear hk
        simp only [inR, decide_eq_true_eq] at *
        omega
  rw [if_neg h3] at h
  by_cases h4 : inR 240 244 b = true
  · rw [if_pos h4] at h
    match t with
    | [] | [_] | [_, _] => simp at h
    | b1 :: b2 :: b3 :: t' =>
      dsimp only at h
      obtain ⟨hk, cs, h1, rfl⟩ := ite_map_some h
      refine ⟨_, cs, rfl, fun hc => ?_⟩
      exfalso
      by_cases hb : b.toNat = 240
      · rw [if_pos hb] at hk
        simp only [inR, Bool.and_eq_true, decide_eq_true_eq] at *
        omega
      · clear hk
        simp only [inR, decide_eq_true_eq] at *
        omega
  rw [if_neg h4] at h
  simp at h

theorem dec_all_ascii (s : Bytes) (cps : List Nat) (h : utf8Decode s = some cps)
    (hc : ∀ c ∈ cps, c < 128) : cps = s.map UInt8.toNat := by
  induction s generalizing cps with
  | nil => simp [utf8Decode] at h; simp [← h]
  | cons b t ih =>
    obtain ⟨c, cs, rfl, h1⟩ := dec_head b t cps h
    simp at hc
    obtain ⟨h2, h3⟩ := h1 hc.1
    rw [ih cs h3 hc.2, List.map_cons, h2]

/-- the rules' date recogniser (ASCII grammar on bytes) = the model of DateStringPredicate
    (strict UTF-8 decoding followed by the regex as a deterministic descent), for EVERY byte string -/
theorem date_recogniser_eq_regex_shape (s : Bytes) :
    CatalogRules.isDate s = PdfDate.dateOK s := by
  cases hd : isDate s with
  | true =>
    have hm := hd
    rw [date_eq] at hm
    have hlt : ∀ b ∈ s, b.toNat < 128 := by
      intro b hb
      exact match_lt _ hm b.toNat (List.mem_map_of_mem hb)
    simp [dateOK, dec_ascii s hlt, hm]
  | false =>
    cases hk : dateOK s with
    | false => rfl
    | true =>
      exfalso
      unfold dateOK at hk
      cases hu : utf8Decode s with
      | none => simp [hu] at hk
      | some cps =>
        simp [hu] at hk
        have := dec_all_ascii s cps hu (match_lt _ hk)
        rw [date_eq, ← this, hk] at hd
        simp at hd

/-- "D:20201231235959+08'00'" is accepted by both sides -/
example : isDate [0x44,0x3A,0x32,0x30,0x32,0x30,0x31,0x32,0x33,0x31,0x32,0x33,0x35,0x39,0x35,0x39,
    0x2B,0x30,0x38,0x27,0x30,0x30,0x27] = true := by decide
example : dateOK [0x44,0x3A,0x32,0x30,0x32,0x30,0x31,0x32,0x33,0x31,0x32,0x33,0x35,0x39,0x35,0x39,
    0x2B,0x30,0x38,0x27,0x30,0x30,0x27] = true := by
  rw [← date_recogniser_eq_regex_shape]; decide

/-- "D:202013" (month 13) is rejected by both sides -/
example : isDate [0x44,0x3A,0x32,0x30,0x32,0x30,0x31,0x33] = false := by decide
example : dateOK [0x44,0x3A,0x32,0x30,0x32,0x30,0x31,0x33] = false := by
  rw [← date_recogniser_eq_regex_shape]; decide

/-- a year written with ARABIC-INDIC DIGIT ONE (U+0661 = D9 A1) is rejected by both sides -/
example : isDate [0x44,0x3A,0xD9,0xA1,0x30,0x30,0x30] = false := by decide
example : dateOK [0x44,0x3A,0xD9,0xA1,0x30,0x30,0x30] = false := by
  rw [← date_recogniser_eq_regex_shape]; decide

end Parsley.C10
