/-
  C10, shared helper lemmas (used by Props/C10Full.lean -- acceptance with optional entries -- and by
  Props/C10Rules.lean -- the rejection half):

  1. rendered dictionaries as `dictOfList (optPairs rows)` with a fixed, duplicate-free list of keys (the rows are the
     definition of the renderer: `pageRows`, `catRows`, `namesRows`, `Resources.rows` of Spec/CatalogRules.lean, one
     row per entry of the shipped type); `get`, `set`, `erase` on such dictionaries;
  2. `kindMatches`: the shipped check found under a key of the rules' tables has the shape the rules' value kind
     asks for -- a closed fact about the REGENERATED term (`F_kind`, kernel evaluation);
  3. the rendered graph: every object number of the document denotes its rendered dictionary (with the optional
     catalog targets appended), every value of the graph is a dictionary or a stream.
-/
import Parsley.Props.C10
namespace Parsley.C10
open Parsley Parsley.TC Parsley.TC.Spec
open Parsley.CatalogRules (Doc Node Nodes PageOpts CatOpts Mutation Where kType kPages kCount kParent kMediaBox
  pageDict nodeDict catalogDict arrOf optEnt DictKind ValKind keyTable requiredKeys forbiddenKeys
  kCropBox kLastModified kRotate kTabs kUserUnit kID kAnnots kVersion kPageMode kPageLayout kLang kNeedsRendering
  kPageLabels kDests kEmbeddedFiles kOutlines kMetadata kOpenAction nCatalog nPage nTemplate pageModes pageLayouts
  tabOrders nameAt Rect Num Date Tree namesDict pageRows catRows namesRows rowsObjL)

/-! ### 1. dictionaries with optional rows -/

def optPairs : List (Bytes × Option Obj) → List (Bytes × Obj)
  | [] => []
  | (k, some v) :: t => (k, v) :: optPairs t
  | (_, none) :: t => optPairs t

theorem dictOfList_optPairs_cons (k : Bytes) (v : Option Obj) (t : List (Bytes × Option Obj)) :
    dictOfList (optPairs ((k, v) :: t)) = optEnt k v (dictOfList (optPairs t)) := by
  cases v <;> rfl

theorem mem_optPairs : ∀ (L : List (Bytes × Option Obj)) (k : Bytes) (v : Obj),
    (k, v) ∈ optPairs L ↔ (k, some v) ∈ L
  | [], k, v => by simp [optPairs]
  | (k', none) :: t, k, v => by simp [optPairs, mem_optPairs t k v]
  | (k', some v') :: t, k, v => by simp [optPairs, mem_optPairs t k v]

theorem get_none_of_notin : ∀ (l : List (Bytes × Obj)) (k : Bytes), k ∉ l.map (·.1) → (dictOfList l).get k = none
  | [], k, _ => by simp [dictOfList, ObjL.get]
  | (k', v') :: t, k, h => by
    simp only [List.map_cons, List.mem_cons, not_or] at h
    simp only [dictOfList, ObjL.get]
    have : ¬ k' = k := fun e => h.1 e.symm
    simp only [this, if_false]
    exact get_none_of_notin t k h.2

theorem get_of_mem : ∀ (l : List (Bytes × Obj)) (k : Bytes) (v : Obj), (l.map (·.1)).Nodup → (k, v) ∈ l →
    (dictOfList l).get k = some v
  | [], k, v, _, h => by simp at h
  | (k', v') :: t, k, v, hnd, h => by
    simp only [List.map_cons, List.nodup_cons] at hnd
    simp only [List.mem_cons, Prod.mk.injEq] at h
    simp only [dictOfList, ObjL.get]
    rcases h with ⟨rfl, rfl⟩ | h
    · simp
    · have : ¬ k' = k := by
        intro e; subst e; exact hnd.1 (List.mem_map_of_mem (f := (·.1)) h)
      simp only [this, if_false]
      exact get_of_mem t k v hnd.2 h

theorem optPairs_keys_sub : ∀ (L : List (Bytes × Option Obj)) (k : Bytes),
    k ∈ (optPairs L).map (·.1) → k ∈ L.map (·.1)
  | [], k, h => by simp [optPairs] at h
  | (k', none) :: t, k, h => by
    simp only [optPairs] at h
    simp only [List.map_cons, List.mem_cons]
    exact Or.inr (optPairs_keys_sub t k h)
  | (k', some v') :: t, k, h => by
    simp only [optPairs, List.map_cons, List.mem_cons] at h
    simp only [List.map_cons, List.mem_cons]
    rcases h with h | h
    · exact Or.inl h
    · exact Or.inr (optPairs_keys_sub t k h)

theorem optPairs_nodup : ∀ (L : List (Bytes × Option Obj)), (L.map (·.1)).Nodup → ((optPairs L).map (·.1)).Nodup
  | [], _ => by simp [optPairs]
  | (k', none) :: t, h => by
    simp only [List.map_cons, List.nodup_cons] at h
    simp only [optPairs]
    exact optPairs_nodup t h.2
  | (k', some v') :: t, h => by
    simp only [List.map_cons, List.nodup_cons] at h
    simp only [optPairs, List.map_cons, List.nodup_cons]
    exact ⟨fun e => h.1 (optPairs_keys_sub t k' e), optPairs_nodup t h.2⟩

/-- the value found under a key of a dictionary with optional rows is the row's value -/
theorem get_rows (L : List (Bytes × Option Obj)) (hnd : (L.map (·.1)).Nodup) (k : Bytes) (ov : Option Obj)
    (h : (k, ov) ∈ L) : (dictOfList (optPairs L)).get k = ov := by
  cases ov with
  | some v => exact get_of_mem _ k v (optPairs_nodup L hnd) ((mem_optPairs L k v).mpr h)
  | none =>
    apply get_none_of_notin
    intro hk
    rcases List.mem_map.mp hk with ⟨⟨k', v⟩, hm, rfl⟩
    have hm' := (mem_optPairs L k' v).mpr ((mem_optPairs L k' v).mp hm)
    have h2 : (k', some v) ∈ L := (mem_optPairs L k' v).mp hm'
    -- two rows with the same key
    clear hm hm' hk
    induction L with
    | nil => simp at h
    | cons x t ih =>
      simp only [List.map_cons, List.nodup_cons] at hnd
      simp only [List.mem_cons] at h h2
      rcases h with rfl | h
      · rcases h2 with h2 | h2
        · simp at h2
        · exact hnd.1 (List.mem_map_of_mem (f := (·.1)) h2)
      · rcases h2 with rfl | h2
        · exact hnd.1 (List.mem_map_of_mem (f := (·.1)) h)
        · exact ih hnd.2 h h2

theorem get_rows_absent (L : List (Bytes × Option Obj)) (k : Bytes) (h : k ∉ L.map (·.1)) :
    (dictOfList (optPairs L)).get k = none :=
  get_none_of_notin _ k (fun e => h (optPairs_keys_sub L k e))

theorem keys_dictOfList : ∀ l : List (Bytes × Obj), (dictOfList l).keys = l.map (·.1)
  | [] => rfl
  | (k, v) :: t => by
    have := keys_dictOfList t
    simp only [ObjL.keys, ObjL.toList, dictOfList, List.map_cons] at this ⊢
    rw [this]

/-! `set` / `erase` -/

theorem get_set_eq (k : Bytes) (v : Obj) : ∀ l : ObjL, (CatalogRules.ObjL.set k v l).get k = some v
  | .nil => by simp [CatalogRules.ObjL.set, ObjL.get]
  | .cons k' v' t => by
    unfold CatalogRules.ObjL.set
    by_cases h : k = k'
    · simp [h, ObjL.get]
    · simp only [h, if_false]
      cases h2 : CatalogRules.bytesLt k k' with
      | true => simp [ObjL.get]
      | false =>
        have h' : ¬ k' = k := fun e => h e.symm
        simp only [Bool.false_eq_true, if_false, ObjL.get, h']
        exact get_set_eq k v t

theorem get_set_ne (k : Bytes) (v : Obj) (k2 : Bytes) (hne : k2 ≠ k) :
    ∀ l : ObjL, (CatalogRules.ObjL.set k v l).get k2 = l.get k2
  | .nil => by
    have : ¬ k = k2 := fun e => hne e.symm
    simp [CatalogRules.ObjL.set, ObjL.get, this]
  | .cons k' v' t => by
    have hk : ¬ k = k2 := fun e => hne e.symm
    unfold CatalogRules.ObjL.set
    by_cases h : k = k'
    · subst h; simp [ObjL.get, hk]
    · simp only [h, if_false]
      cases h2 : CatalogRules.bytesLt k k' with
      | true => simp [ObjL.get, hk]
      | false =>
        simp only [Bool.false_eq_true, if_false, ObjL.get]
        by_cases h3 : k' = k2
        · simp [h3]
        · simp only [h3, if_false]
          exact get_set_ne k v k2 hne t

theorem get_erase_ne (k k2 : Bytes) (hne : k2 ≠ k) : ∀ l : ObjL, (CatalogRules.ObjL.erase k l).get k2 = l.get k2
  | .nil => by simp [CatalogRules.ObjL.erase]
  | .cons k' v' t => by
    unfold CatalogRules.ObjL.erase
    by_cases h : k = k'
    · subst h
      have : ¬ k = k2 := fun e => hne e.symm
      simp [ObjL.get, this]
    · simp only [h, if_false, ObjL.get]
      by_cases h3 : k' = k2
      · simp [h3]
      · simp only [h3, if_false]
        exact get_erase_ne k k2 hne t

theorem get_erase_eq (k : Bytes) : ∀ l : ObjL, l.keys.Nodup → (CatalogRules.ObjL.erase k l).get k = none
  | .nil, _ => by simp [CatalogRules.ObjL.erase, ObjL.get]
  | .cons k' v' t, hnd => by
    have hnd' : k' ∉ t.keys ∧ t.keys.Nodup := by
      simpa [ObjL.keys, ObjL.toList] using hnd
    unfold CatalogRules.ObjL.erase
    by_cases h : k = k'
    · subst h
      simp only [if_true]
      cases hg : t.get k with
      | none => rfl
      | some x =>
        exfalso; apply hnd'.1
        have := ObjL.get_isSome_keys t k
        rw [hg] at this
        simpa using this.symm
    · have h' : ¬ k' = k := fun e => h e.symm
      simp only [h, if_false, ObjL.get, h']
      exact get_erase_eq k t hnd'.2

/-! the rendered dictionaries as row lists -/

theorem rowsObjL_eq : ∀ L : List (Bytes × Option Obj), rowsObjL L = dictOfList (optPairs L)
  | [] => rfl
  | (k, v) :: t => by rw [dictOfList_optPairs_cons, ← rowsObjL_eq t]; rfl

def nodeRows (count : Int) (kids : Nodes) (parent : Option Obj) : List (Bytes × Option Obj) :=
  [(kCount, some (.int count)), (CatalogRules.kKids, some (.arr (arrOf kids.refs))), (kParent, parent),
   (kType, some (.name kPages))]

theorem pageDict_eq (o : PageOpts) (parent : Option Obj) (typ : Bytes) :
    pageDict o parent typ = .dict (dictOfList (optPairs (pageRows o parent typ))) := by
  rw [← rowsObjL_eq]; rfl

theorem nodeDict_eq (count : Int) (kids : Nodes) (parent : Option Obj) :
    nodeDict count kids parent = .dict (dictOfList (optPairs (nodeRows count kids parent))) := by
  simp only [nodeRows, dictOfList_optPairs_cons, optPairs, dictOfList]
  rfl

theorem catalogDict_eq (d : Doc) : catalogDict d = .dict (dictOfList (optPairs (catRows d))) := by
  rw [← rowsObjL_eq]; rfl

theorem pageRows_keys (o : PageOpts) (parent : Option Obj) (typ : Bytes) :
    (pageRows o parent typ).map (·.1) =
      CatalogRules.pageKeys := rfl
theorem nodeRows_keys (count : Int) (kids : Nodes) (parent : Option Obj) :
    (nodeRows count kids parent).map (·.1) = [kCount, CatalogRules.kKids, kParent, kType] := rfl
theorem catRows_keys (d : Doc) :
    (catRows d).map (·.1) = CatalogRules.catKeys := rfl
theorem namesRows_keys (c : CatOpts) : (namesRows c).map (·.1) = CatalogRules.nameTreeKeys := rfl
theorem resRows_keys (r : CatalogRules.Resources) : r.rows.map (·.1) = CatalogRules.resourceKeys := rfl

theorem pageRows_nodup (o : PageOpts) (parent : Option Obj) (typ : Bytes) :
    ((pageRows o parent typ).map (·.1)).Nodup := by rw [pageRows_keys]; decide
theorem nodeRows_nodup (count : Int) (kids : Nodes) (parent : Option Obj) :
    ((nodeRows count kids parent).map (·.1)).Nodup := by rw [nodeRows_keys]; decide
theorem catRows_nodup (d : Doc) : ((catRows d).map (·.1)).Nodup := by rw [catRows_keys]; decide
theorem namesRows_nodup (c : CatOpts) : ((namesRows c).map (·.1)).Nodup := by rw [namesRows_keys]; decide
theorem resRows_nodup (r : CatalogRules.Resources) : (r.rows.map (·.1)).Nodup := by rw [resRows_keys]; decide

/-! ### 2. the shipped entry of a key has the shape of the rules' value kind -/

def rawChks : DictKind → List Chk
  | .catalog => [shippedCat]
  | .root => [rootR]
  | .node => [nodeR]
  | .page => [pageC true, pageC false]
  | .tmpl => [tmplC true, tmplC false]

def arrayOrDictChk : Chk :=
  .disj Attr.dflt (.cons [] .required (.array Attr.dflt (.any Attr.dflt) none)
                  (.cons [] .required (.dict Attr.dflt .nil) .nil))

/-- /Names: a dictionary type without attributes, keys pairwise distinct, none required, and the two keys of
    the rules are optional entries checked by the name-tree predicate -/
def nameDictMatches (c : Chk) : Bool :=
  match res c with
  | .dict a ents =>
    decide (a = Attr.dflt) && decide ((ents.toList.map (·.1)).Nodup) &&
      ents.toList.all (fun e => e.2.1 != .required) &&
      CatalogRules.nameTreeKeys.all fun k =>
        match findEnt ents k with
        | some (opt, c'') => decide (opt = .optional) && isAny (res c'') .allowed (some .nameTree)
        | none => false
  | _ => false

/-- a stream | an array of streams -/
def contentsChk : Chk :=
  .disj Attr.dflt (.cons [] .required (.stream Attr.dflt .nil)
                  (.cons [] .required (.array Attr.dflt (.stream Attr.dflt .nil) none) .nil))

/-- /Resources: a dictionary type without attributes, keys pairwise distinct, none required, the seven dictionary
    entries of the rules are optional generic dictionaries and /ProcSet an optional generic array -/
def resourcesMatches (c : Chk) : Bool :=
  match res c with
  | .dict a ents =>
    decide (a = Attr.dflt) && decide ((ents.toList.map (·.1)).Nodup) &&
      ents.toList.all (fun e => e.2.1 != .required) &&
      (CatalogRules.resourceDictKeys.all fun k =>
        match findEnt ents k with
        | some (opt, c'') => decide (opt = .optional) && decide (res c'' = .dict Attr.dflt .nil)
        | none => false) &&
      (match findEnt ents CatalogRules.kProcSet with
        | some (opt, c'') => decide (opt = .optional) && decide (res c'' = .array Attr.dflt (.any Attr.dflt) none)
        | none => false)
  | _ => false

def kindMatches : ValKind → Chk → Bool
  | .nameIs n, c => isPrim (res c) .name .allowed (some (names [n]))
  | .nameIn l, c => isPrim (res c) .name .allowed (some (names l))
  | .name, c => decide (res c = .prim Attr.dflt .name)
  | .str, c => decide (res c = .prim Attr.dflt .string)
  | .bool, c => decide (res c = .prim Attr.dflt .bool)
  | .int, c => decide (res c = .prim Attr.dflt .integer)
  | .number, c => decide (res c = numberChk)
  | .rect, c => decide (res c = .array Attr.dflt numberChk (some 4))
  | .date, c => isPrim (res c) .string .allowed (some .date)
  | .array, c => decide (res c = .array Attr.dflt (.any Attr.dflt) none)
  | .dict, c => decide (res c = .dict Attr.dflt .nil)
  | .stream, c => decide (res c = .stream Attr.dflt .nil)
  | .arrayOfDict, c => decide (res c = .array Attr.dflt (.dict Attr.dflt .nil) none)
  | .contents, c => decide (res c = contentsChk)
  | .resources, c => resourcesMatches c
  | .arrayOrDict, c => decide (res c = arrayOrDictChk)
  | .numTree, c => isAny (res c) .allowed (some (.numTree TC.kNums))
  | .nameDict, c => nameDictMatches c
  | .refDict, c => decide (res c = .dict ⟨none, .required⟩ .nil)
  | .refStream, c => decide (res c = .stream ⟨none, .required⟩ .nil)
  | .parentRef, c => decide (res c = .any ⟨none, .required⟩)
  | .rootRef, _ => true
  | .kids, _ => true

/-- the entry of `key` in the dictionary type `c`: present, required exactly when the rules require the key,
    and of the shape of the value kind `vk` -/
def entryMatches (c : Chk) (key : Bytes) (vk : ValKind) (req : List Bytes) : Bool :=
  match findEnt (entsOf c) key with
  | some (opt, c') => decide (opt = if req.contains key then .required else .optional) && kindMatches vk c'
  | none => false

/-- closed fact about the regenerated term: every key of the rules' tables, in every shipped dictionary type of
    that kind (below the root and below inner nodes), has an entry of the expected shape -/
theorem F_kind :
    ∀ k ∈ [DictKind.catalog, .root, .node, .page, .tmpl], ∀ c ∈ rawChks k, ∀ e ∈ keyTable k,
      entryMatches c e.1 e.2 (requiredKeys k) = true := by
  decide +kernel

/-- the forbidden keys of the rules are forbidden entries of the shipped types -/
theorem F_forbidden :
    ∀ k ∈ [DictKind.catalog, .root, .node, .page, .tmpl], ∀ c ∈ rawChks k, ∀ key ∈ forbiddenKeys k,
      (findEnt (entsOf c) key).map (·.1) = some .forbidden := by
  decide +kernel

/-- a resolved check that is not a name was obtained by `resolve` -/
theorem resolve_of_res (c x : Chk) (h : res c = x) (hx : ∀ n, x ≠ .named n) : resolve shippedCtx c = some x := by
  unfold res at h
  cases hr : resolve shippedCtx c with
  | some r => rw [hr] at h; simpa using h
  | none =>
    rw [hr] at h
    simp only [Option.getD_none] at h
    cases c with
    | named n => exact absurd h.symm (hx n)
    | _ => simp [resolve] at hr

/-! ### 3. the rendered graph -/

/-- the page-tree part of the graph -/
def treeGraph (d : Doc) : Graph := ((d.rootId, 0), nodeDict d.count d.kids none) :: d.kids.defs d.rootId

theorem graph_split (d : Doc) :
    d.graph = (treeGraph d) ++ (CatalogRules.optDef d.cat.outlines (.dict .nil) ++
      (CatalogRules.optDef d.cat.metadata (.stream .nil 0 []) ++ CatalogRules.optDef d.cat.x.dests (.dict .nil))) := by
  simp [Doc.graph, treeGraph, List.append_assoc]

theorem tree_agree (d : Doc) (hnd : (d.rootId :: d.kids.ids).Nodup) :
    ∀ b p n, Sub d b p n →
      (∀ id ∈ n.ids, Graph.lookup (treeGraph d) (id, 0) = Graph.lookup (n.defs p) (id, 0)) ∧ n.ids.Nodup ∧
      (∀ id ∈ n.ids, id ∈ d.kids.ids) := by
  simp only [List.nodup_cons] at hnd
  intro b p n h
  induction h with
  | top n hn =>
    have ka := kids_agree d.kids d.rootId n hnd.2 hn
    refine ⟨?_, ka.2, ids_sub d.kids n hn⟩
    intro id hid
    have hin := ids_sub d.kids n hn id hid
    have hne : d.rootId ≠ id := fun e => hnd.1 (e ▸ hin)
    simp only [treeGraph, Graph.lookup, Prod.mk.injEq, hne, false_and, if_false]
    exact ka.1 id hid
  | deep b p i c kids n _ hn ih =>
    simp only [Node.ids, List.nodup_cons] at ih
    have ka := kids_agree kids i n ih.2.1.2 hn
    refine ⟨?_, ka.2, fun id hid => ih.2.2 id (by simp [Node.ids, ids_sub kids n hn id hid])⟩
    intro id hid
    have hin := ids_sub kids n hn id hid
    have hne : i ≠ id := fun e => ih.2.1.1 (e ▸ hin)
    rw [ih.1 id (by simp [Node.ids, hin])]
    simp only [Node.defs, Graph.lookup, Prod.mk.injEq, hne, false_and, if_false]
    exact ka.1 id hid

/-- consequences of `Doc.ok`: the tree's object numbers are pairwise distinct and differ from the two
    optional catalog targets, which differ from each other -/
theorem ok_facts (d : Doc) (hok : d.ok = true) :
    (d.rootId :: d.kids.ids).Nodup ∧
    (∀ i, d.cat.outlines = some i → i ∉ d.rootId :: d.kids.ids) ∧
    (∀ i, d.cat.metadata = some i → i ∉ d.rootId :: d.kids.ids) ∧
    (∀ i j, d.cat.outlines = some i → d.cat.metadata = some j → i ≠ j) ∧
    (∀ i, d.cat.x.dests = some i → i ∉ d.rootId :: d.kids.ids) ∧
    (∀ i j, d.cat.outlines = some i → d.cat.x.dests = some j → i ≠ j) ∧
    (∀ i j, d.cat.metadata = some i → d.cat.x.dests = some j → i ≠ j) := by
  have h := nodup_of_nodupB _ hok
  have h' : ((d.rootId :: d.kids.ids) ++ (CatalogRules.optId d.cat.outlines ++
      (CatalogRules.optId d.cat.metadata ++ CatalogRules.optId d.cat.x.dests))).Nodup := by
    simpa [Doc.ids, List.append_assoc] using h
  rw [List.nodup_append] at h'
  have hB := h'.2.1
  refine ⟨h'.1, ?_, ?_, ?_, ?_, ?_, ?_⟩
  · intro i hi hm
    exact h'.2.2 i hm i (by simp [hi, CatalogRules.optId]) rfl
  · intro i hi hm
    exact h'.2.2 i hm i (by simp [hi, CatalogRules.optId]) rfl
  · intro i j hi hj e
    rw [hi, hj] at hB
    cases hd : d.cat.x.dests <;> simp [CatalogRules.optId, hd] at hB <;> simp_all
  · intro i hi hm
    exact h'.2.2 i hm i (by simp [hi, CatalogRules.optId]) rfl
  · intro i j hi hj e
    rw [hi, hj] at hB
    cases hd : d.cat.metadata <;> simp [CatalogRules.optId, hd] at hB <;> simp_all
  · intro i j hi hj e
    rw [hi, hj] at hB
    cases hd : d.cat.outlines <;> simp [CatalogRules.optId, hd] at hB <;> simp_all

theorem graph_lookup_root (d : Doc) :
    Graph.lookup d.graph (d.rootId, 0) = some (nodeDict d.count d.kids none) := by
  rw [graph_split, lookup_append]
  simp [treeGraph, Graph.lookup]

/-- every node of the page tree is found under its object number -/
theorem graph_lookup_sub (d : Doc) (hok : d.ok = true) :
    ∀ b p n, Sub d b p n → Graph.lookup d.graph (n.id, 0) = some (n.dict p) := by
  intro b p n h
  have sa := tree_agree d (ok_facts d hok).1 b p n h
  rw [graph_split, lookup_append, sa.1 n.id (id_mem_ids n), defs_self n p]

theorem sub_id_mem (d : Doc) (hok : d.ok = true) : ∀ b p n, Sub d b p n → n.id ∈ d.kids.ids := by
  intro b p n h
  exact (tree_agree d (ok_facts d hok).1 b p n h).2.2 n.id (id_mem_ids n)

theorem sub_ids (d : Doc) (hok : d.ok = true) : ∀ b p n, Sub d b p n →
    n.ids.Nodup ∧ (∀ id ∈ n.ids, id ∈ d.kids.ids) := by
  intro b p n h
  exact (tree_agree d (ok_facts d hok).1 b p n h).2

theorem tree_lookup_none (d : Doc) (id : Nat) (h : id ∉ d.rootId :: d.kids.ids) :
    Graph.lookup (treeGraph d) (id, 0) = none := by
  simp only [List.mem_cons, not_or] at h
  have hne : d.rootId ≠ id := fun e => h.1 e.symm
  simp only [treeGraph, Graph.lookup, Prod.mk.injEq, hne, false_and, if_false]
  exact defss_notin d.kids d.rootId id h.2

theorem graph_lookup_outlines (d : Doc) (hok : d.ok = true) (i : Nat) (hi : d.cat.outlines = some i) :
    Graph.lookup d.graph (i, 0) = some (.dict .nil) := by
  have f := ok_facts d hok
  rw [graph_split, lookup_append, tree_lookup_none d i (f.2.1 i hi), hi]
  simp [CatalogRules.optDef, Graph.lookup]

theorem graph_lookup_metadata (d : Doc) (hok : d.ok = true) (i : Nat) (hi : d.cat.metadata = some i) :
    Graph.lookup d.graph (i, 0) = some (.stream .nil 0 []) := by
  have f := ok_facts d hok
  rw [graph_split, lookup_append, tree_lookup_none d i (f.2.2.1 i hi), hi]
  cases ho : d.cat.outlines with
  | none => simp [CatalogRules.optDef, Graph.lookup]
  | some j =>
    have : j ≠ i := f.2.2.2.1 j i ho hi
    simp [CatalogRules.optDef, Graph.lookup, this]

theorem graph_lookup_dests (d : Doc) (hok : d.ok = true) (i : Nat) (hi : d.cat.x.dests = some i) :
    Graph.lookup d.graph (i, 0) = some (.dict .nil) := by
  have f := ok_facts d hok
  rw [graph_split, lookup_append, tree_lookup_none d i (f.2.2.2.2.1 i hi), hi]
  cases ho : d.cat.outlines with
  | none =>
    cases hm : d.cat.metadata with
    | none => simp [CatalogRules.optDef, Graph.lookup]
    | some k =>
      have : k ≠ i := f.2.2.2.2.2.2 k i hm hi
      simp [CatalogRules.optDef, Graph.lookup, this]
  | some j =>
    have hj : j ≠ i := f.2.2.2.2.2.1 j i ho hi
    cases hm : d.cat.metadata with
    | none => simp [CatalogRules.optDef, Graph.lookup, hj]
    | some k =>
      have : k ≠ i := f.2.2.2.2.2.2 k i hm hi
      simp [CatalogRules.optDef, Graph.lookup, this, hj]

end Parsley.C10
