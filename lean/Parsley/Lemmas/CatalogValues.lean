/-
  Property C10, lemmas: every value of the menu rendered by `Parsley.CatalogRules` has the kind the rules
  give its key (`fitsKind`), every rendered date is in the date grammar (`isDate`), every rendered name /
  number tree node is a well-formed tree node (`isTreeNode`).
-/
import Parsley.Spec.CatalogRules
namespace Parsley.C10
open Parsley Parsley.TC
open Parsley.CatalogRules

set_option linter.unusedSimpArgs false

/-! ### arrays -/

theorem arrOf_toList (l : List Obj) : (arrOf l).toList = l.map fun x => (([] : Bytes), x) := by
  induction l with
  | nil => rfl
  | cons x t ih => simp [arrOf, ObjL.toList, ih]

theorem arrOf_vals (l : List Obj) : (arrOf l).vals = l := by
  induction l with
  | nil => rfl
  | cons x t ih =>
    have : (arrOf (x :: t)).vals = x :: (arrOf t).vals := rfl
    rw [this, ih]

theorem altKeyRef_pairObjs {κ : Type} (isKey : Obj → Bool) (f : κ → Obj) (hf : ∀ k, isKey (f k) = true)
    (pairs : List (κ × Nat)) : altKeyRef isKey (pairObjs f pairs) = true := by
  induction pairs with
  | nil => rfl
  | cons p t ih =>
    obtain ⟨k, r⟩ := p
    simp [pairObjs, altKeyRef, hf, Obj.isRef, ih]

theorem altKeyRef_arrOf_pairObjs {κ : Type} (isKey : Obj → Bool) (f : κ → Obj)
    (hf : ∀ k, isKey (f k) = true) (pairs : List (κ × Nat)) :
    altKeyRef isKey (arrOf (pairObjs f pairs)).vals = true := by
  rw [arrOf_vals]; exact altKeyRef_pairObjs isKey f hf pairs

theorem all_isRef_refs (kids : List Nat) :
    (kids.map fun r => Obj.ref r 0).all Obj.isRef = true := by
  induction kids with
  | nil => rfl
  | cons r t ih => simp [Obj.isRef]

theorem arrOf_refs_all_isRef (kids : List Nat) :
    (arrOf (kids.map fun r => Obj.ref r 0)).vals.all Obj.isRef = true := by
  rw [arrOf_vals]; exact all_isRef_refs kids

/-! ### dates -/

theorem isDigit_digit (n : Nat) : isDigit (digit n) = true := by
  have h : n % 10 < 10 := Nat.mod_lt _ (by decide)
  simp [isDigit, digit]
  omega

theorem twoIn_month : ∀ m : Fin 12, twoIn 1 12 (digit ((m.val + 1) / 10)) (digit (m.val + 1)) = true := by
  decide
theorem twoIn_day : ∀ m : Fin 31, twoIn 1 31 (digit ((m.val + 1) / 10)) (digit (m.val + 1)) = true := by
  decide
theorem twoIn_hour : ∀ m : Fin 24, twoIn 0 23 (digit (m.val / 10)) (digit m.val) = true := by
  decide
theorem twoIn_minute : ∀ m : Fin 60, twoIn 0 59 (digit (m.val / 10)) (digit m.val) = true := by
  decide

theorem offset_sign : ∀ s : Fin 3,
    ((if s.val = 0 then 0x2B else if s.val = 1 then 0x2D else 0x5A : UInt8) = 0x2B
      || (if s.val = 0 then 0x2B else if s.val = 1 then 0x2D else 0x5A : UInt8) = 0x2D
      || (if s.val = 0 then 0x2B else if s.val = 1 then 0x2D else 0x5A : UInt8) = 0x5A) = true := by
  decide

theorem offset_bytes_tail (o : Offset) : isDateTail 5 o.bytes = true := by
  obtain ⟨sign, hour, minute, ap⟩ := o
  have hs := offset_sign sign
  cases hour with
  | none => simpa [Offset.bytes, isDateTail, isOffsetTail] using hs
  | some h =>
    cases minute with
    | none => simpa [Offset.bytes, isDateTail, isOffsetTail, two, twoIn_hour] using hs
    | some m =>
      cases ap <;>
        simpa [Offset.bytes, isDateTail, isOffsetTail, two, twoIn_hour, twoIn_minute] using hs

/-- every rendered date is in the rules' date grammar -/
theorem date_bytes_isDate (d : Date) : isDate d.bytes = true := by
  obtain ⟨y, mo, da, h, mi, s, o⟩ := d
  cases mo with
  | none => simp [Date.bytes, isDate, isDateTail, four, isDigit_digit]
  | some mo =>
  cases da with
  | none => simp [Date.bytes, isDate, isDateTail, four, two, isDigit_digit, twoIn_month]
  | some da =>
  cases h with
  | none => simp [Date.bytes, isDate, isDateTail, four, two, isDigit_digit, twoIn_month, twoIn_day]
  | some h =>
  cases mi with
  | none =>
    simp [Date.bytes, isDate, isDateTail, four, two, isDigit_digit, twoIn_month, twoIn_day, twoIn_hour]
  | some mi =>
  cases s with
  | none =>
    simp [Date.bytes, isDate, isDateTail, four, two, isDigit_digit, twoIn_month, twoIn_day, twoIn_hour,
      twoIn_minute]
  | some s =>
  cases o with
  | none =>
    simp [Date.bytes, isDate, isDateTail, four, two, isDigit_digit, twoIn_month, twoIn_day, twoIn_hour,
      twoIn_minute]
  | some o =>
    simp [Date.bytes, isDate, isDateTail, four, two, isDigit_digit, twoIn_month, twoIn_day, twoIn_hour,
      twoIn_minute, offset_bytes_tail]

/-! ### trees -/

/-- generic: a rendered tree node is well-formed whenever the leaf key is neither /Kids nor /Limits -/
theorem tree_obj_node {κ : Type} (leafKey : Bytes) (isKey : Obj → Bool) (f : κ → Obj)
    (hf : ∀ k, isKey (f k) = true) (h1 : leafKey ≠ CatalogRules.kKids) (h2 : leafKey ≠ CatalogRules.kLimits) (t : Tree κ) :
    isTreeNode leafKey isKey (Tree.obj leafKey f t) = true := by
  have h3 : CatalogRules.kKids ≠ CatalogRules.kLimits := by decide
  have h1' : CatalogRules.kKids ≠ leafKey := fun h => h1 h.symm
  have h2' : CatalogRules.kLimits ≠ leafKey := fun h => h2 h.symm
  have h3' : CatalogRules.kLimits ≠ CatalogRules.kKids := by decide
  cases t with
  | leaf pairs limits =>
    cases limits with
    | none =>
      simp [Tree.obj, limitsEnt, isTreeNode, ObjL.get, h1, h2, altKeyRef_arrOf_pairObjs isKey f hf]
    | some p =>
      obtain ⟨lo, hi⟩ := p
      simp [Tree.obj, limitsEnt, isTreeNode, ObjL.get, h1, h2, h1', h2', h3, h3',
        altKeyRef_pairObjs isKey f hf, arrOf_vals, hf]
  | inner kids limits =>
    cases limits with
    | none =>
      simp [Tree.obj, limitsEnt, isTreeNode, ObjL.get, h1, h2, h1', h2', h3, h3',
        arrOf_vals, Obj.isRef]
    | some p =>
      obtain ⟨lo, hi⟩ := p
      simp [Tree.obj, limitsEnt, isTreeNode, ObjL.get, h1, h2, h1', h2', h3, h3',
        arrOf_vals, hf, Obj.isRef]

/-- every rendered number tree / name tree is a well-formed tree node by the rules -/
theorem tree_obj_int (t : Tree Int) : isTreeNode CatalogRules.kNums Obj.isInt (Tree.obj CatalogRules.kNums Obj.int t) = true :=
  tree_obj_node CatalogRules.kNums Obj.isInt Obj.int (fun _ => rfl) (by decide) (by decide) t

theorem tree_obj_str (t : Tree Bytes) :
    isTreeNode kNamesKey Obj.isStr (Tree.obj kNamesKey strObj t) = true :=
  tree_obj_node kNamesKey Obj.isStr strObj (fun _ => rfl) (by decide) (by decide) t

/-! ### the menu values -/

theorem num_isNum (n : Num) : isNum n.obj = true := by
  cases n <;> rfl

/-- every value of the menu has the kind the rules give its key -/
theorem rect_fits (r : Rect) : fitsKind .rect r.obj = true := by
  simp [Rect.obj, fitsKind, arrOf_vals, num_isNum]

theorem num_fits (n : Num) : fitsKind .number n.obj = true := by
  simp [fitsKind, num_isNum]

theorem date_fits (d : Date) : fitsKind .date d.obj = true := by
  simp [Date.obj, fitsKind, date_bytes_isDate]

theorem numtree_fits (t : Tree Int) : fitsKind .numTree (Tree.obj CatalogRules.kNums Obj.int t) = true := by
  simp [fitsKind, tree_obj_int]

theorem name_in_fits (l : List Bytes) (i : Nat) (h : i < l.length) :
    fitsKind (.nameIn l) (nameAt l i) = true := by
  simp [fitsKind, nameAt, List.getD, List.getElem?_eq_getElem h]

end Parsley.C10
