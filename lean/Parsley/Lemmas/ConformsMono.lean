/-
  C08 -- monotonicity of one unfolding of the declarative reading (`confStep` is monotone in the relation it is
  given) and the decreasing chain `conf (n+1) ≤ conf n`.  Kept in a file of its own (moved unchanged out of
  Props/C08.lean, same namespace and names) so that Lemmas/TypeCheckComplete.lean can use it without importing
  Props/C08.lean, which in turn states the completeness theorem.
-/
import Parsley.Model.TypeCheck
import Parsley.Spec.Conforms
namespace Parsley.C08
open Parsley Parsley.TC Parsley.TC.Spec

theorem pairsOK_mono (f f' : Obj → Chk → Bool) (hf : ∀ x c, f x c = true → f' x c = true) :
    ∀ xs cs, pairsOK f xs cs = true → pairsOK f' xs cs = true := by
  intro xs
  induction xs with
  | nil => intro cs h; cases cs <;> simp_all [pairsOK]
  | cons x xs ih =>
    intro cs h
    cases cs with
    | nil => simp [pairsOK] at h
    | cons c cs =>
      simp only [pairsOK, Bool.and_eq_true] at h ⊢
      exact ⟨hf _ _ h.1, ih cs h.2⟩

theorem entOK_mono (f f' : Obj → Chk → Bool) (hf : ∀ x c, f x c = true → f' x c = true)
    (kvs : ObjL) (e : Bytes × KeySpec × Chk) : entOK f kvs e = true → entOK f' kvs e = true := by
  unfold entOK
  cases kvs.get e.1 <;> cases e.2.1 <;> simp <;> exact hf _ _

theorem shapeOK_mono (f f' : Obj → Chk → Bool) (hf : ∀ x c, f x c = true → f' x c = true)
    (o v : Obj) (c : Chk) : shapeOK f o v c = true → shapeOK f' o v c = true := by
  cases c with
  | named n => simp [shapeOK]
  | any a => simp [shapeOK]
  | prim a p => simp [shapeOK]
  | array a e s =>
    cases v <;> simp [shapeOK]
    intro h1 h2
    exact ⟨h1, fun x hx => hf _ _ (h2 x hx)⟩
  | het a es =>
    cases v <;> simp [shapeOK]
    exact pairsOK_mono f f' hf _ _
  | dict a es =>
    cases v <;> simp [shapeOK]
    intro h k o' c' hm
    exact entOK_mono f f' hf _ _ (h k o' c' hm)
  | dictStar a es so sc =>
    cases v <;> simp [shapeOK]
    intro h1 h2
    refine ⟨fun k o' c' hm => entOK_mono f f' hf _ _ (h1 k o' c' hm), fun k x hm => ?_⟩
    rcases h2 k x hm with h | h
    · exact Or.inl h
    · exact Or.inr ⟨h.1, hf _ _ h.2⟩
  | stream a es =>
    cases v <;> simp [shapeOK]
    intro h k o' c' hm
    exact entOK_mono f f' hf _ _ (h k o' c' hm)
  | disj a os =>
    simp [shapeOK]
    intro x hx h
    exact ⟨x, hx, hf _ _ h⟩

theorem confStep_mono (g : Graph) (ctx : Ctx) (f f' : Obj → Chk → Bool)
    (hf : ∀ x c, f x c = true → f' x c = true) (o : Obj) (c : Chk) :
    confStep g ctx f o c = true → confStep g ctx f' o c = true := by
  unfold confStep
  cases resolve ctx c with
  | none => simp
  | some r =>
    simp only [Bool.and_eq_true]
    intro h
    exact ⟨h.1, shapeOK_mono f f' hf _ _ _ h.2⟩

theorem conforms_antitone (g : Graph) (ctx : Ctx) :
    ∀ n o c, conf g ctx (n + 1) o c = true → conf g ctx n o c = true := by
  intro n
  induction n with
  | zero => intro o c _; rfl
  | succ n ih =>
    intro o c h
    exact confStep_mono g ctx _ _ ih o c h

end Parsley.C08
