/-
  C08 -- `normalize_check` (`Chk.norm`) and the declarative reading.

  * `conforms_norm` : an object that conforms to `c` conforms to `c.norm fx`, for EVERY setting of the fix flags.
    Normalisation flattens nested disjunctions; a flattened disjunction loses its attributes, which only weakens
    the requirement.  Conformance is NOT preserved level by level: one level of the chain `conf n` is lost for every
    flattened nesting, so the statement proved by (mutual structural) recursion on the check shifts the level by a
    structural size `d c`:   n + d c ≤ N → conf N o c → conf n o (c.norm fx).
  * `wfChk_norm`    : normalisation preserves well-formedness (`wfChk`): names are untouched, a flattened nested
    disjunction is well formed hence non-empty, so splicing it in keeps the list of alternatives non-empty.
-/
import Parsley.Model.TypeCheck
import Parsley.Spec.Conforms
import Parsley.Spec.TypeCheckWF
import Parsley.Lemmas.ConformsMono
namespace Parsley.TC.Norm
open Parsley Parsley.TC Parsley.TC.Spec Parsley.TC.Frag

/-! ### lists of checks -/

theorem chks_nil : ChkL.nil.chks = [] := rfl

theorem chks_cons (key : Bytes) (opt : KeySpec) (c : Chk) (t : ChkL) :
    (ChkL.cons key opt c t).chks = c :: t.chks := by simp [ChkL.chks, ChkL.toList]

theorem chks_append : ∀ (l r : ChkL), (l.append r).chks = l.chks ++ r.chks
  | .nil, r => by simp [ChkL.append, chks_nil]
  | .cons k o c t, r => by simp [ChkL.append, chks_cons, chks_append t r]

/-- `ChkL.norm` keeps the keys -/
theorem norm_keys (fx : Fix) : ∀ l : ChkL, (l.norm fx).toList.map (·.1) = l.toList.map (·.1)
  | .nil => by simp [ChkL.norm, ChkL.toList]
  | .cons k o c t => by simp [ChkL.norm, ChkL.toList, norm_keys fx t]

/-- the alternatives of the tail survive in the flattened list -/
theorem normFlat_tail (fx : Fix) (k : Bytes) (op : KeySpec) (c : Chk) (t : ChkL) (x : Chk)
    (hx : x ∈ (t.normFlat fx).chks) : x ∈ ((ChkL.cons k op c t).normFlat fx).chks := by
  cases hc : c.norm fx with
  | disj a nested =>
    by_cases hk : (fx.disjAttrs && a != Attr.dflt) = true
    · simp only [ChkL.normFlat, hc, hk, ↓reduceIte, chks_cons]
      exact List.mem_cons_of_mem _ hx
    · simp only [ChkL.normFlat, hc, hk, Bool.false_eq_true, if_false, chks_append]
      exact List.mem_append_right _ hx
  | _ =>
    simp only [ChkL.normFlat, hc, chks_cons]
    exact List.mem_cons_of_mem _ hx

/-! ### the chain `conf n` -/

theorem conf_le (g : Graph) (ctx : Ctx) {m n : Nat} (h : m ≤ n) (o : Obj) (c : Chk) :
    conf g ctx n o c = true → conf g ctx m o c = true := by
  induction h with
  | refl => exact id
  | step _ ih => intro hc; exact ih (C08.conforms_antitone g ctx _ o c hc)

theorem conf_zero (g : Graph) (ctx : Ctx) (o : Obj) (c : Chk) : conf g ctx 0 o c = true := rfl

/-- one unfolding at a node that resolves to itself, whose attributes are kept -/
theorem node_step (g : Graph) (ctx : Ctx) (c c' : Chk) (hres : resolve ctx c = some c)
    (hres' : resolve ctx c' = some c') (hattr : c'.attr = c.attr) (N n : Nat) (o : Obj)
    (hshape : ∀ v, shapeOK (conf g ctx N) o v c = true → shapeOK (conf g ctx n) o v c' = true) :
    conf g ctx (N + 1) o c = true → conf g ctx (n + 1) o c' = true := by
  simp only [conf, confStep, hres, hres', hattr, Bool.and_eq_true]
  intro h
  exact ⟨h.1, hshape _ h.2⟩

theorem conf_succ_disj (g : Graph) (ctx : Ctx) (N : Nat) (o : Obj) (a : Attr) (os : ChkL) :
    conf g ctx (N + 1) o (.disj a os) = true → ∃ alt, alt ∈ os.chks ∧ conf g ctx N o alt = true := by
  have hres : resolve ctx (.disj a os) = some (.disj a os) := rfl
  simp only [conf, confStep, hres, shapeOK, Bool.and_eq_true, List.any_eq_true]
  intro h
  exact h.2

theorem entOK_map (f f' : Obj → Chk → Bool) (kvs : ObjL) (k : Bytes) (op : KeySpec) (c c' : Chk)
    (h : ∀ x, f x c = true → f' x c' = true) :
    entOK f kvs (k, op, c) = true → entOK f' kvs (k, op, c') = true := by
  simp only [entOK]
  cases kvs.get k <;> cases op <;> simp <;> exact h _

/-! ### the structural size that bounds the number of levels lost -/

mutual
def d : Chk → Nat
  | .named _ => 0
  | .any _ => 0
  | .prim _ _ => 0
  | .array _ e _ => d e + 1
  | .het _ es => dL es + 1
  | .dict _ es => dL es + 1
  | .dictStar _ es _ sc => dL es + d sc + 1
  | .stream _ es => dL es + 1
  | .disj _ os => dL os + 1
def dL : ChkL → Nat
  | .nil => 0
  | .cons _ _ c t => d c + 1 + dL t
end

/-! ### conformance survives normalisation (level shifted) -/

mutual
theorem norm_conf (fx : Fix) (g : Graph) (ctx : Ctx) :
    ∀ (c : Chk) (N n : Nat) (o : Obj), n + d c ≤ N → conf g ctx N o c = true →
      conf g ctx n o (c.norm fx) = true
  | .named s, N, n, o, _, h => by
    simp only [Chk.norm]
    exact conf_le g ctx (by omega) o _ h
  | .any a, N, n, o, _, h => by
    simp only [Chk.norm]
    exact conf_le g ctx (by omega) o _ h
  | .prim a p, N, n, o, _, h => by
    simp only [Chk.norm]
    exact conf_le g ctx (by omega) o _ h
  | .array a e s, N, n, o, hle, h => by
    cases n with
    | zero => exact conf_zero ..
    | succ n =>
      obtain ⟨N, rfl⟩ : ∃ N', N = N' + 1 := ⟨N - 1, by omega⟩
      simp only [d] at hle
      simp only [Chk.norm]
      refine node_step g ctx (.array a e s) (.array a (e.norm fx) s) rfl rfl rfl N n o (fun v hv => ?_) h
      cases v with
      | arr xs =>
        simp only [shapeOK, Bool.and_eq_true, List.all_eq_true] at hv ⊢
        exact ⟨hv.1, fun x hx => norm_conf fx g ctx e N n x (by omega) (hv.2 x hx)⟩
      | _ => simp [shapeOK] at hv
  | .het a es, N, n, o, hle, h => by
    cases n with
    | zero => exact conf_zero ..
    | succ n =>
      obtain ⟨N, rfl⟩ : ∃ N', N = N' + 1 := ⟨N - 1, by omega⟩
      simp only [d] at hle
      simp only [Chk.norm]
      refine node_step g ctx (.het a es) (.het a (es.norm fx)) rfl rfl rfl N n o (fun v hv => ?_) h
      cases v with
      | arr xs =>
        simp only [shapeOK] at hv ⊢
        exact norm_pairs fx g ctx es N n xs.vals (by omega) hv
      | _ => simp [shapeOK] at hv
  | .dict a es, N, n, o, hle, h => by
    cases n with
    | zero => exact conf_zero ..
    | succ n =>
      obtain ⟨N, rfl⟩ : ∃ N', N = N' + 1 := ⟨N - 1, by omega⟩
      simp only [d] at hle
      simp only [Chk.norm]
      refine node_step g ctx (.dict a es) (.dict a (es.norm fx)) rfl rfl rfl N n o (fun v hv => ?_) h
      cases v with
      | dict kvs =>
        simp only [shapeOK] at hv ⊢
        exact norm_ents fx g ctx es N n kvs (by omega) hv
      | _ => simp [shapeOK] at hv
  | .dictStar a es so sc, N, n, o, hle, h => by
    cases n with
    | zero => exact conf_zero ..
    | succ n =>
      obtain ⟨N, rfl⟩ : ∃ N', N = N' + 1 := ⟨N - 1, by omega⟩
      simp only [d] at hle
      simp only [Chk.norm]
      refine node_step g ctx (.dictStar a es so sc) (.dictStar a (es.norm fx) so (sc.norm fx)) rfl rfl rfl
        N n o (fun v hv => ?_) h
      cases v with
      | dict kvs =>
        simp only [shapeOK, norm_keys] at hv ⊢
        rw [Bool.and_eq_true] at hv ⊢
        refine ⟨norm_ents fx g ctx es N n kvs (by omega) hv.1, ?_⟩
        rw [List.all_eq_true]
        intro kv hkv
        have h2 := List.all_eq_true.mp hv.2 kv hkv
        simp only [Bool.or_eq_true, Bool.and_eq_true] at h2 ⊢
        rcases h2 with h2 | h2
        · exact Or.inl h2
        · exact Or.inr ⟨h2.1, norm_conf fx g ctx sc N n kv.2 (by omega) h2.2⟩
      | _ => simp [shapeOK] at hv
  | .stream a es, N, n, o, hle, h => by
    cases n with
    | zero => exact conf_zero ..
    | succ n =>
      obtain ⟨N, rfl⟩ : ∃ N', N = N' + 1 := ⟨N - 1, by omega⟩
      simp only [d] at hle
      simp only [Chk.norm]
      refine node_step g ctx (.stream a es) (.stream a (es.norm fx)) rfl rfl rfl N n o (fun v hv => ?_) h
      cases v with
      | stream kvs st ct =>
        simp only [shapeOK] at hv ⊢
        exact norm_ents fx g ctx es N n kvs (by omega) hv
      | _ => simp [shapeOK] at hv
  | .disj a os, N, n, o, hle, h => by
    cases n with
    | zero => exact conf_zero ..
    | succ n =>
      obtain ⟨N, rfl⟩ : ∃ N', N = N' + 1 := ⟨N - 1, by omega⟩
      simp only [d] at hle
      simp only [Chk.norm]
      refine node_step g ctx (.disj a os) (.disj a (os.normFlat fx)) rfl rfl rfl N n o (fun v hv => ?_) h
      simp only [shapeOK, List.any_eq_true] at hv ⊢
      obtain ⟨alt, hmem, halt⟩ := hv
      exact normFlat_conf fx g ctx os N n o alt (by omega) hmem halt
theorem norm_pairs (fx : Fix) (g : Graph) (ctx : Ctx) :
    ∀ (l : ChkL) (N n : Nat) (xs : List Obj), n + dL l ≤ N →
      pairsOK (conf g ctx N) xs l.chks = true → pairsOK (conf g ctx n) xs (l.norm fx).chks = true
  | .nil, N, n, xs, _, h => by
    simp only [ChkL.norm, chks_nil] at h ⊢
    cases xs with
    | nil => simp [pairsOK]
    | cons x xs => simp [pairsOK] at h
  | .cons k op c t, N, n, xs, hle, h => by
    simp only [ChkL.norm, chks_cons] at h ⊢
    cases xs with
    | nil => simp [pairsOK] at h
    | cons x xs =>
      simp only [dL] at hle
      simp only [pairsOK, Bool.and_eq_true] at h ⊢
      exact ⟨norm_conf fx g ctx c N n x (by omega) h.1, norm_pairs fx g ctx t N n xs (by omega) h.2⟩
theorem norm_ents (fx : Fix) (g : Graph) (ctx : Ctx) :
    ∀ (l : ChkL) (N n : Nat) (kvs : ObjL), n + dL l ≤ N →
      l.toList.all (entOK (conf g ctx N) kvs) = true →
      (l.norm fx).toList.all (entOK (conf g ctx n) kvs) = true
  | .nil, N, n, kvs, _, _ => by simp [ChkL.norm, ChkL.toList]
  | .cons k op c t, N, n, kvs, hle, h => by
    simp only [dL] at hle
    simp only [ChkL.norm, ChkL.toList, List.all_cons, Bool.and_eq_true] at h ⊢
    exact ⟨entOK_map _ _ kvs k op c (c.norm fx) (fun x => norm_conf fx g ctx c N n x (by omega)) h.1,
      norm_ents fx g ctx t N n kvs (by omega) h.2⟩
theorem normFlat_conf (fx : Fix) (g : Graph) (ctx : Ctx) :
    ∀ (l : ChkL) (N m : Nat) (o : Obj) (alt : Chk), m + dL l ≤ N → alt ∈ l.chks →
      conf g ctx N o alt = true → ∃ alt', alt' ∈ (l.normFlat fx).chks ∧ conf g ctx m o alt' = true
  | .nil, _, _, _, _, _, hmem, _ => by simp [chks_nil] at hmem
  | .cons k op c t, N, m, o, alt, hle, hmem, h => by
    simp only [dL] at hle
    simp only [chks_cons, List.mem_cons] at hmem
    rcases hmem with heq | hmem
    · rw [heq] at h
      cases hc : c.norm fx with
      | disj a nested =>
        by_cases hk : (fx.disjAttrs && a != Attr.dflt) = true
        · refine ⟨.disj a nested, ?_, ?_⟩
          · simp only [ChkL.normFlat, hc, hk, ↓reduceIte, chks_cons]
            exact List.mem_cons_self ..
          · rw [← hc]
            exact norm_conf fx g ctx c N m o (by omega) h
        · have h1 := norm_conf fx g ctx c N (m + 1) o (by omega) h
          rw [hc] at h1
          obtain ⟨alt', hm', h'⟩ := conf_succ_disj g ctx m o a nested h1
          refine ⟨alt', ?_, h'⟩
          simp only [ChkL.normFlat, hc, hk, Bool.false_eq_true, if_false, chks_append]
          exact List.mem_append_left _ hm'
      | _ =>
        refine ⟨c.norm fx, ?_, norm_conf fx g ctx c N m o (by omega) h⟩
        simp only [ChkL.normFlat, hc, chks_cons]
        exact List.mem_cons_self ..
    · obtain ⟨alt', hm', h'⟩ := normFlat_conf fx g ctx t N m o alt (by omega) hmem h
      exact ⟨alt', normFlat_tail fx k op c t alt' hm', h'⟩
end

/-- TARGET 1: normalisation only weakens the requirement -/
theorem conforms_norm (fx : Fix) (g : Graph) (ctx : Ctx) (o : Obj) (c : Chk) :
    Conforms g ctx o c → Conforms g ctx o (c.norm fx) := by
  intro h n
  exact norm_conf fx g ctx c (n + d c) n o (Nat.le_refl _) (h _)

/-! ### well-formedness survives normalisation -/

theorem wfChkL_append (ctx : Ctx) : ∀ (l r : ChkL), wfChkL ctx (l.append r) = (wfChkL ctx l && wfChkL ctx r)
  | .nil, r => by simp [ChkL.append, wfChkL]
  | .cons k o c t, r => by simp [ChkL.append, wfChkL, wfChkL_append ctx t r, Bool.and_assoc]

mutual
theorem wfChk_norm_aux (fx : Fix) (ctx : Ctx) : ∀ c : Chk, wfChk ctx c = true → wfChk ctx (c.norm fx) = true
  | .named s, h => by simp only [Chk.norm]; exact h
  | .any a, h => by simp only [Chk.norm]; exact h
  | .prim a p, h => by simp only [Chk.norm]; exact h
  | .array a e s, h => by
    simp only [Chk.norm, wfChk] at h ⊢
    exact wfChk_norm_aux fx ctx e h
  | .het a es, h => by
    simp only [Chk.norm, wfChk] at h ⊢
    exact wfChkL_norm fx ctx es h
  | .dict a es, h => by
    simp only [Chk.norm, wfChk] at h ⊢
    exact wfChkL_norm fx ctx es h
  | .dictStar a es so sc, h => by
    simp only [Chk.norm, wfChk, Bool.and_eq_true] at h ⊢
    exact ⟨wfChkL_norm fx ctx es h.1, wfChk_norm_aux fx ctx sc h.2⟩
  | .stream a es, h => by
    simp only [Chk.norm, wfChk] at h ⊢
    exact wfChkL_norm fx ctx es h
  | .disj a os, h => by
    simp only [Chk.norm, wfChk, Bool.and_eq_true] at h ⊢
    have hf := wfChkL_normFlat fx ctx os h.2
    have hne : os ≠ .nil := by
      intro e
      rw [e] at h
      simp at h
    refine ⟨?_, hf.1⟩
    cases hq : os.normFlat fx with
    | nil => exact absurd hq (hf.2 hne)
    | cons _ _ _ _ => rfl
theorem wfChkL_norm (fx : Fix) (ctx : Ctx) : ∀ l : ChkL, wfChkL ctx l = true → wfChkL ctx (l.norm fx) = true
  | .nil, _ => by simp [ChkL.norm, wfChkL]
  | .cons k op c t, h => by
    simp only [ChkL.norm, wfChkL, Bool.and_eq_true] at h ⊢
    exact ⟨wfChk_norm_aux fx ctx c h.1, wfChkL_norm fx ctx t h.2⟩
theorem wfChkL_normFlat (fx : Fix) (ctx : Ctx) :
    ∀ l : ChkL, wfChkL ctx l = true →
      wfChkL ctx (l.normFlat fx) = true ∧ (l ≠ .nil → l.normFlat fx ≠ .nil)
  | .nil, _ => by simp [ChkL.normFlat, wfChkL]
  | .cons k op c t, h => by
    simp only [wfChkL, Bool.and_eq_true] at h
    have hc' := wfChk_norm_aux fx ctx c h.1
    have ht := (wfChkL_normFlat fx ctx t h.2).1
    cases hc : c.norm fx with
    | disj a nested =>
      rw [hc] at hc'
      simp only [wfChk, Bool.and_eq_true] at hc'
      by_cases hk : (fx.disjAttrs && a != Attr.dflt) = true
      · simp only [ChkL.normFlat, hc, hk, ↓reduceIte]
        refine ⟨?_, fun _ => by simp⟩
        simp only [wfChkL, wfChk, Bool.and_eq_true]
        exact ⟨hc', ht⟩
      · simp only [ChkL.normFlat, hc, hk, Bool.false_eq_true, if_false]
        refine ⟨?_, fun _ => ?_⟩
        · rw [wfChkL_append, Bool.and_eq_true]
          exact ⟨hc'.2, ht⟩
        · cases nested with
          | nil => simp at hc'
          | cons _ _ _ _ => simp [ChkL.append]
    | _ =>
      rw [hc] at hc'
      simp only [ChkL.normFlat, hc]
      refine ⟨?_, fun _ => by simp⟩
      simp only [wfChkL, Bool.and_eq_true]
      exact ⟨hc', ht⟩
end

/-- TARGET 2: normalisation preserves well-formedness -/
theorem wfChk_norm (fx : Fix) (ctx : Ctx) (c : Chk) : wfChk ctx c = true → wfChk ctx (c.norm fx) = true :=
  wfChk_norm_aux fx ctx c

end Parsley.TC.Norm
