/-
  C08 -- the decreasing chain of unfoldings `conf g ctx n` reaches its limit, on the finite universe
  of a case (`pairUniverse g ctx o c` = objects of the graph x nodes of the specification), after at
  most |pairUniverse| steps; hence `Conforms` is decided by ONE finite unfolding, and the executable
  oracle `gfp` (the table iteration of Spec/Conforms.lean) computes exactly `Conforms`.

    conforms_stabilises     ∀ n ≥ |U|, conf n = conf |U| on U          (U = pairUniverse g ctx o c)
    Conforms_iff_conf_card  Conforms g ctx o c ↔ conf g ctx |U| o c = true
    gfp_eq_conf_card        gfp g ctx o c = conf g ctx |U| o c
    gfp_iff_Conforms        gfp g ctx o c = true ↔ Conforms g ctx o c
    machine_eq_oracle_F1    on fragment F1 the machine's verdict = gfp (from Props/C08 machine_eq_conforms_F1)

  Proof: (1) U is closed: `confStep g ctx f` at a pair of U reads `f` only at pairs of U
  (`confStep_congr_univ`); (2) the number of pairs of U on which `conf n` holds decreases strictly
  until two consecutive levels agree on U, and from then on all levels agree (`chain_stab`);
  (3) the table of `iter` after k rounds is the column `conf k` on U (`iter_tbl`).
-/
import Parsley.Props.C08
namespace Parsley.C08.Stab
open Parsley Parsley.TC Parsley.TC.Spec

/-! ### sub-terms: reflexive, transitive, contain the components -/

theorem objSubs_self (o : Obj) : o ∈ objSubs o := by
  cases o <;> simp [objSubs]

theorem chkSubs_self (c : Chk) : c ∈ chkSubs c := by
  cases c <;> simp [chkSubs]

mutual
theorem objSubs_trans : ∀ (o y z : Obj), y ∈ objSubs o → z ∈ objSubs y → z ∈ objSubs o
  | .arr xs, y, z, hy, hz => by
    simp only [objSubs, List.mem_cons] at hy
    rcases hy with rfl | hy
    · exact hz
    · simp only [objSubs, List.mem_cons]; exact Or.inr (objLSubs_trans xs y z hy hz)
  | .dict xs, y, z, hy, hz => by
    simp only [objSubs, List.mem_cons] at hy
    rcases hy with rfl | hy
    · exact hz
    · simp only [objSubs, List.mem_cons]; exact Or.inr (objLSubs_trans xs y z hy hz)
  | .stream xs a b, y, z, hy, hz => by
    simp only [objSubs, List.mem_cons] at hy
    rcases hy with rfl | hy
    · exact hz
    · simp only [objSubs, List.mem_cons]; exact Or.inr (objLSubs_trans xs y z hy hz)
  | .ref a b, y, z, hy, hz => by
    simp only [objSubs, List.mem_singleton] at hy; subst hy; exact hz
  | .bool b, y, z, hy, hz => by
    simp only [objSubs, List.mem_singleton] at hy; subst hy; exact hz
  | .str s, y, z, hy, hz => by
    simp only [objSubs, List.mem_singleton] at hy; subst hy; exact hz
  | .name s, y, z, hy, hz => by
    simp only [objSubs, List.mem_singleton] at hy; subst hy; exact hz
  | .null, y, z, hy, hz => by
    simp only [objSubs, List.mem_singleton] at hy; subst hy; exact hz
  | .comment s, y, z, hy, hz => by
    simp only [objSubs, List.mem_singleton] at hy; subst hy; exact hz
  | .int i, y, z, hy, hz => by
    simp only [objSubs, List.mem_singleton] at hy; subst hy; exact hz
  | .real n d, y, z, hy, hz => by
    simp only [objSubs, List.mem_singleton] at hy; subst hy; exact hz
theorem objLSubs_trans : ∀ (l : ObjL) (y z : Obj), y ∈ objLSubs l → z ∈ objSubs y → z ∈ objLSubs l
  | .nil, y, z, hy, hz => by simp [objLSubs] at hy
  | .cons k v t, y, z, hy, hz => by
    simp only [objLSubs, List.mem_append] at hy ⊢
    rcases hy with hy | hy
    · exact Or.inl (objSubs_trans v y z hy hz)
    · exact Or.inr (objLSubs_trans t y z hy hz)
end

mutual
theorem chkSubs_trans : ∀ (c y z : Chk), y ∈ chkSubs c → z ∈ chkSubs y → z ∈ chkSubs c
  | .named n, y, z, hy, hz => by
    simp only [chkSubs, List.mem_singleton] at hy; subst hy; exact hz
  | .any a, y, z, hy, hz => by
    simp only [chkSubs, List.mem_singleton] at hy; subst hy; exact hz
  | .prim a p, y, z, hy, hz => by
    simp only [chkSubs, List.mem_singleton] at hy; subst hy; exact hz
  | .array a e s, y, z, hy, hz => by
    simp only [chkSubs, List.mem_cons] at hy
    rcases hy with rfl | hy
    · exact hz
    · simp only [chkSubs, List.mem_cons]; exact Or.inr (chkSubs_trans e y z hy hz)
  | .het a es, y, z, hy, hz => by
    simp only [chkSubs, List.mem_cons] at hy
    rcases hy with rfl | hy
    · exact hz
    · simp only [chkSubs, List.mem_cons]; exact Or.inr (chkLSubs_trans es y z hy hz)
  | .dict a es, y, z, hy, hz => by
    simp only [chkSubs, List.mem_cons] at hy
    rcases hy with rfl | hy
    · exact hz
    · simp only [chkSubs, List.mem_cons]; exact Or.inr (chkLSubs_trans es y z hy hz)
  | .dictStar a es so sc, y, z, hy, hz => by
    simp only [chkSubs, List.mem_cons, List.mem_append] at hy
    rcases hy with rfl | hy | hy
    · exact hz
    · simp only [chkSubs, List.mem_cons, List.mem_append]
      exact Or.inr (Or.inl (chkLSubs_trans es y z hy hz))
    · simp only [chkSubs, List.mem_cons, List.mem_append]
      exact Or.inr (Or.inr (chkSubs_trans sc y z hy hz))
  | .stream a es, y, z, hy, hz => by
    simp only [chkSubs, List.mem_cons] at hy
    rcases hy with rfl | hy
    · exact hz
    · simp only [chkSubs, List.mem_cons]; exact Or.inr (chkLSubs_trans es y z hy hz)
  | .disj a es, y, z, hy, hz => by
    simp only [chkSubs, List.mem_cons] at hy
    rcases hy with rfl | hy
    · exact hz
    · simp only [chkSubs, List.mem_cons]; exact Or.inr (chkLSubs_trans es y z hy hz)
theorem chkLSubs_trans : ∀ (l : ChkL) (y z : Chk), y ∈ chkLSubs l → z ∈ chkSubs y → z ∈ chkLSubs l
  | .nil, y, z, hy, hz => by simp [chkLSubs] at hy
  | .cons k o c t, y, z, hy, hz => by
    simp only [chkLSubs, List.mem_append] at hy ⊢
    rcases hy with hy | hy
    · exact Or.inl (chkSubs_trans c y z hy hz)
    · exact Or.inr (chkLSubs_trans t y z hy hz)
end

theorem toList_sub : ∀ (l : ObjL) (k : Bytes) (x : Obj), (k, x) ∈ l.toList → x ∈ objLSubs l
  | .nil, k, x, h => by simp [ObjL.toList] at h
  | .cons k' v t, k, x, h => by
    simp only [ObjL.toList, List.mem_cons, Prod.mk.injEq] at h
    simp only [objLSubs, List.mem_append]
    rcases h with ⟨_, rfl⟩ | h
    · exact Or.inl (objSubs_self _)
    · exact Or.inr (toList_sub t k x h)

theorem vals_sub (l : ObjL) (x : Obj) (h : x ∈ l.vals) : x ∈ objLSubs l := by
  simp only [ObjL.vals, List.mem_map] at h
  obtain ⟨⟨k, y⟩, hm, rfl⟩ := h
  exact toList_sub l k y hm

theorem get_sub : ∀ (l : ObjL) (k : Bytes) (x : Obj), l.get k = some x → x ∈ objLSubs l
  | .nil, k, x, h => by simp [ObjL.get] at h
  | .cons k' v t, k, x, h => by
    simp only [ObjL.get] at h
    simp only [objLSubs, List.mem_append]
    split at h
    · cases h; exact Or.inl (objSubs_self _)
    · exact Or.inr (get_sub t k x h)

theorem ctoList_sub : ∀ (l : ChkL) (k : Bytes) (s : KeySpec) (c : Chk),
    (k, s, c) ∈ l.toList → c ∈ chkLSubs l
  | .nil, k, s, c, h => by simp [ChkL.toList] at h
  | .cons k' s' c' t, k, s, c, h => by
    simp only [ChkL.toList, List.mem_cons, Prod.mk.injEq] at h
    simp only [chkLSubs, List.mem_append]
    rcases h with ⟨_, _, rfl⟩ | h
    · exact Or.inl (chkSubs_self _)
    · exact Or.inr (ctoList_sub t k s c h)

theorem chks_sub (l : ChkL) (c : Chk) (h : c ∈ l.chks) : c ∈ chkLSubs l := by
  simp only [ChkL.chks, List.mem_map] at h
  obtain ⟨⟨k, s, y⟩, hm, rfl⟩ := h
  exact ctoList_sub l k s y hm

/-! ### `confStep` reads `f` only at sub-terms -/

theorem all_congr' {α : Type} (l : List α) (p q : α → Bool) (h : ∀ x ∈ l, p x = q x) :
    l.all p = l.all q := by
  induction l with
  | nil => rfl
  | cons a t ih =>
    simp only [List.all_cons]
    rw [h a (by simp), ih (fun x hx => h x (by simp [hx]))]

theorem any_congr' {α : Type} (l : List α) (p q : α → Bool) (h : ∀ x ∈ l, p x = q x) :
    l.any p = l.any q := by
  induction l with
  | nil => rfl
  | cons a t ih =>
    simp only [List.any_cons]
    rw [h a (by simp), ih (fun x hx => h x (by simp [hx]))]

theorem entOK_congr (f f' : Obj → Chk → Bool) (kvs : ObjL) (e : Bytes × KeySpec × Chk)
    (h : ∀ x, kvs.get e.1 = some x → f x e.2.2 = f' x e.2.2) :
    entOK f kvs e = entOK f' kvs e := by
  unfold entOK
  cases hg : kvs.get e.1 with
  | none => cases e.2.1 <;> rfl
  | some x => cases e.2.1 <;> simp [h x hg]

theorem pairsOK_congr (f f' : Obj → Chk → Bool) :
    ∀ (xs : List Obj) (cs : List Chk), (∀ x ∈ xs, ∀ c ∈ cs, f x c = f' x c) →
      pairsOK f xs cs = pairsOK f' xs cs := by
  intro xs
  induction xs with
  | nil => intro cs _; cases cs <;> rfl
  | cons x xs ih =>
    intro cs h
    cases cs with
    | nil => rfl
    | cons c cs =>
      simp only [pairsOK]
      rw [h x (by simp) c (by simp),
        ih cs (fun x' hx' c' hc' => h x' (by simp [hx']) c' (by simp [hc']))]

theorem ents_congr (f f' : Obj → Chk → Bool) (kvs : ObjL) (ents : ChkL)
    (h : ∀ x ∈ objLSubs kvs, ∀ d ∈ chkLSubs ents, f x d = f' x d) :
    ents.toList.all (entOK f kvs) = ents.toList.all (entOK f' kvs) := by
  apply all_congr'
  rintro ⟨k, s, c⟩ hm
  apply entOK_congr
  intro x hx
  exact h x (get_sub kvs k x hx) c (ctoList_sub ents k s c hm)

theorem shapeOK_congr (f f' : Obj → Chk → Bool) (o v : Obj) (r : Chk)
    (h1 : ∀ x ∈ objSubs v, ∀ d ∈ chkSubs r, f x d = f' x d)
    (h2 : ∀ d ∈ chkSubs r, f o d = f' o d) : shapeOK f o v r = shapeOK f' o v r := by
  cases r with
  | named n => rfl
  | any a => rfl
  | prim a p => rfl
  | array a e s =>
    cases v <;> simp only [shapeOK]
    rename_i xs
    congr 1
    apply all_congr'
    intro x hx
    exact h1 x (by simp [objSubs, vals_sub xs x hx]) e (by simp [chkSubs, chkSubs_self])
  | het a es =>
    cases v <;> simp only [shapeOK]
    rename_i xs
    apply pairsOK_congr
    intro x hx c hc
    exact h1 x (by simp [objSubs, vals_sub xs x hx]) c (by simp [chkSubs, chks_sub es c hc])
  | dict a es =>
    cases v <;> simp only [shapeOK]
    rename_i kvs
    apply ents_congr
    intro x hx d hd
    exact h1 x (by simp [objSubs, hx]) d (by simp [chkSubs, hd])
  | dictStar a es so sc =>
    cases v <;> simp only [shapeOK]
    rename_i kvs
    congr 1
    · apply ents_congr
      intro x hx d hd
      exact h1 x (by simp [objSubs, hx]) d (by simp [chkSubs, hd])
    · apply all_congr'
      rintro ⟨k, x⟩ hm
      rw [h1 x (by simp [objSubs, toList_sub kvs k x hm]) sc (by simp [chkSubs, chkSubs_self])]
  | stream a es =>
    cases v <;> simp only [shapeOK]
    rename_i kvs s b
    apply ents_congr
    intro x hx d hd
    exact h1 x (by simp [objSubs, hx]) d (by simp [chkSubs, hd])
  | disj a os =>
    simp only [shapeOK]
    apply any_congr'
    intro alt hm
    exact h2 alt (by simp [chkSubs, chks_sub os alt hm])

/-- the closure lemma in abstract form: `O` closed under sub-objects and `value`, `C` closed under
    sub-checks and `resolve` -/
theorem confStep_congr (g : Graph) (ctx : Ctx) (O : List Obj) (C : List Chk)
    (hOsub : ∀ x ∈ O, ∀ y ∈ objSubs x, y ∈ O) (hOval : ∀ x ∈ O, value g x ∈ O)
    (hCsub : ∀ d ∈ C, ∀ e ∈ chkSubs d, e ∈ C)
    (hCres : ∀ d ∈ C, ∀ r, resolve ctx d = some r → r ∈ C)
    (f f' : Obj → Chk → Bool) (h : ∀ x ∈ O, ∀ d ∈ C, f x d = f' x d) :
    ∀ x ∈ O, ∀ d ∈ C, confStep g ctx f x d = confStep g ctx f' x d := by
  intro x hx d hd
  unfold confStep
  cases hr : resolve ctx d with
  | none => rfl
  | some r =>
    have hrC := hCres d hd r hr
    simp only
    rw [shapeOK_congr f f' x (value g x) r
      (fun y hy e he => h y (hOsub _ (hOval x hx) y hy) e (hCsub r hrC e he))
      (fun e he => h x hx e (hCsub r hrC e he))]

/-! ### the universe of a case is closed -/

theorem glookup_mem : ∀ (g : Graph) (id : Nat × Nat) (t : Obj), g.lookup id = some t → ∃ k, (k, t) ∈ g
  | [], id, t, h => by simp [Graph.lookup] at h
  | (k, v) :: g, id, t, h => by
    simp only [Graph.lookup] at h
    split at h
    · cases h; exact ⟨k, by simp⟩
    · obtain ⟨k', hk'⟩ := glookup_mem g id t h
      exact ⟨k', by simp [hk']⟩

theorem clookup_mem : ∀ (ctx : Ctx) (n : String) (r : Chk), Ctx.lookup ctx n = some r → ∃ k, (k, r) ∈ ctx
  | [], n, r, h => by simp [Ctx.lookup] at h
  | (k, v) :: ctx, n, r, h => by
    simp only [Ctx.lookup] at h
    cases hl : Ctx.lookup ctx n with
    | some r' =>
      rw [hl] at h
      cases h
      obtain ⟨k', hk'⟩ := clookup_mem ctx n r hl
      exact ⟨k', by simp [hk']⟩
    | none =>
      rw [hl] at h
      simp only at h
      split at h
      · cases h; exact ⟨k, by simp⟩
      · cases h

theorem deref_cases (g : Graph) : ∀ (n : Nat) (x : Obj),
    deref g n x = .null ∨ deref g n x = x ∨ ∃ k, (k, deref g n x) ∈ g := by
  intro n
  induction n with
  | zero => intro x; exact Or.inl rfl
  | succ n ih =>
    intro x
    cases x with
    | ref a b =>
      simp only [deref]
      cases hl : g.lookup (a, b) with
      | none => exact Or.inl rfl
      | some t =>
        simp only
        rcases ih t with h | h | h
        · exact Or.inl h
        · obtain ⟨k, hk⟩ := glookup_mem g (a, b) t hl
          exact Or.inr (Or.inr ⟨k, by rw [h]; exact hk⟩)
        · exact Or.inr (Or.inr h)
    | _ => exact Or.inr (Or.inl rfl)

theorem mem_allObjs (g : Graph) (o x : Obj) :
    x ∈ allObjs g o ↔ x = .null ∨ x ∈ objSubs o ∨ ∃ d ∈ g, x ∈ objSubs d.2 := by
  simp only [allObjs, List.mem_eraseDups, List.cons_append, List.mem_cons, List.mem_append,
    List.mem_flatMap]

theorem mem_allChks (ctx : Ctx) (c d : Chk) :
    d ∈ allChks ctx c ↔ d ∈ chkSubs c ∨ ∃ e ∈ ctx, d ∈ chkSubs e.2 := by
  simp only [allChks, List.mem_eraseDups, List.mem_append, List.mem_flatMap]

theorem allObjs_sub (g : Graph) (o : Obj) : ∀ x ∈ allObjs g o, ∀ y ∈ objSubs x, y ∈ allObjs g o := by
  intro x hx y hy
  rw [mem_allObjs] at hx ⊢
  rcases hx with rfl | hx | ⟨d, hd, hx⟩
  · simp only [objSubs, List.mem_singleton] at hy; exact Or.inl hy
  · exact Or.inr (Or.inl (objSubs_trans o x y hx hy))
  · exact Or.inr (Or.inr ⟨d, hd, objSubs_trans d.2 x y hx hy⟩)

theorem allObjs_val (g : Graph) (o : Obj) : ∀ x ∈ allObjs g o, value g x ∈ allObjs g o := by
  intro x hx
  unfold value
  rcases deref_cases g (g.length + 1) x with h | h | ⟨k, h⟩
  · rw [h, mem_allObjs]; exact Or.inl rfl
  · rw [h]; exact hx
  · rw [mem_allObjs]; exact Or.inr (Or.inr ⟨_, h, objSubs_self _⟩)

theorem allChks_sub (ctx : Ctx) (c : Chk) : ∀ d ∈ allChks ctx c, ∀ e ∈ chkSubs d, e ∈ allChks ctx c := by
  intro d hd e he
  rw [mem_allChks] at hd ⊢
  rcases hd with hd | ⟨b, hb, hd⟩
  · exact Or.inl (chkSubs_trans c d e hd he)
  · exact Or.inr ⟨b, hb, chkSubs_trans b.2 d e hd he⟩

theorem allChks_res (ctx : Ctx) (c : Chk) :
    ∀ d ∈ allChks ctx c, ∀ r, resolve ctx d = some r → r ∈ allChks ctx c := by
  intro d hd r hr
  cases d with
  | named n =>
    simp only [resolve] at hr
    obtain ⟨k, hk⟩ := clookup_mem ctx n r hr
    rw [mem_allChks]
    exact Or.inr ⟨_, hk, chkSubs_self _⟩
  | _ => simp only [resolve, Option.some.injEq] at hr; subst hr; exact hd

theorem mem_pairUniverse (g : Graph) (ctx : Ctx) (o : Obj) (c : Chk) (x : Obj) (d : Chk) :
    (x, d) ∈ pairUniverse g ctx o c ↔ x ∈ allObjs g o ∧ d ∈ allChks ctx c := by
  simp only [pairUniverse, List.mem_flatMap, List.mem_map, Prod.mk.injEq]
  constructor
  · rintro ⟨x', hx', d', hd', rfl, rfl⟩; exact ⟨hx', hd'⟩
  · rintro ⟨hx, hd⟩; exact ⟨x, hx, d, hd, rfl, rfl⟩

theorem root_mem (g : Graph) (ctx : Ctx) (o : Obj) (c : Chk) : (o, c) ∈ pairUniverse g ctx o c := by
  rw [mem_pairUniverse, mem_allObjs, mem_allChks]
  exact ⟨Or.inr (Or.inl (objSubs_self o)), Or.inl (chkSubs_self c)⟩

/-- the closure lemma: on the universe of a case, `confStep g ctx f` depends only on `f` restricted
    to the universe -/
theorem confStep_congr_univ (g : Graph) (ctx : Ctx) (o : Obj) (c : Chk) (f f' : Obj → Chk → Bool)
    (h : ∀ p ∈ pairUniverse g ctx o c, f p.1 p.2 = f' p.1 p.2) :
    ∀ p ∈ pairUniverse g ctx o c, confStep g ctx f p.1 p.2 = confStep g ctx f' p.1 p.2 := by
  rintro ⟨x, d⟩ hp
  rw [mem_pairUniverse] at hp
  exact confStep_congr g ctx (allObjs g o) (allChks ctx c) (allObjs_sub g o) (allObjs_val g o)
    (allChks_sub ctx c) (allChks_res ctx c) f f'
    (fun x hx d hd => h (x, d) ((mem_pairUniverse g ctx o c x d).2 ⟨hx, hd⟩)) x hp.1 d hp.2

/-! ### counting: a decreasing chain of Boolean columns on a finite list stabilises -/

theorem countP_eq_of_imp {α : Type} (P Q : α → Bool) : ∀ (l : List α),
    (∀ p ∈ l, P p = true → Q p = true) → l.countP P = l.countP Q → ∀ p ∈ l, P p = Q p := by
  intro l
  induction l with
  | nil => intro _ _ p hp; cases hp
  | cons a t ih =>
    intro himp hcnt p hp
    have hle : t.countP P ≤ t.countP Q :=
      List.countP_mono_left (fun x hx => himp x (by simp [hx]))
    have ha := himp a (by simp)
    simp only [List.countP_cons] at hcnt
    have hpa : P a = Q a := by
      cases hP : P a <;> cases hQ : Q a <;> simp_all <;> omega
    have ht : t.countP P = t.countP Q := by
      rw [hpa] at hcnt; omega
    rcases List.mem_cons.1 hp with rfl | hp'
    · exact hpa
    · exact ih (fun x hx => himp x (by simp [hx])) ht p hp'

section chain
variable {α : Type} (U : List α) (F : Nat → α → Bool)

/-- levels `n` and `n+1` agree on `U` -/
def StableAt (n : Nat) : Prop := ∀ p ∈ U, F (n + 1) p = F n p

theorem stable_from (prop : ∀ n, StableAt U F n → StableAt U F (n + 1)) (m : Nat)
    (h : StableAt U F m) : ∀ k, StableAt U F (m + k) ∧ ∀ p ∈ U, F (m + k) p = F m p := by
  intro k
  induction k with
  | zero => exact ⟨h, fun _ _ => rfl⟩
  | succ k ih =>
    refine ⟨prop _ ih.1, fun p hp => ?_⟩
    have := ih.1 p hp
    rw [← ih.2 p hp, ← this]
    rfl

theorem chain_inv (anti : ∀ n, ∀ p ∈ U, F (n + 1) p = true → F n p = true)
    (prop : ∀ n, StableAt U F n → StableAt U F (n + 1)) :
    ∀ n, StableAt U F n ∨ U.countP (F n) + n ≤ U.length := by
  intro n
  induction n with
  | zero => exact Or.inr (by simpa using List.countP_le_length)
  | succ n ih =>
    rcases ih with h | h
    · exact Or.inl (prop n h)
    · by_cases hs : StableAt U F n
      · exact Or.inl (prop n hs)
      · right
        have hle : U.countP (F (n + 1)) ≤ U.countP (F n) := List.countP_mono_left (anti n)
        have hne : U.countP (F (n + 1)) ≠ U.countP (F n) :=
          fun he => hs (countP_eq_of_imp _ _ U (anti n) he)
        omega

theorem chain_stab (anti : ∀ n, ∀ p ∈ U, F (n + 1) p = true → F n p = true)
    (prop : ∀ n, StableAt U F n → StableAt U F (n + 1)) :
    StableAt U F U.length ∧ ∀ n, U.length ≤ n → ∀ p ∈ U, F n p = F U.length p := by
  have hst : StableAt U F U.length := by
    rcases chain_inv U F anti prop U.length with h | h
    · exact h
    · have h0 : U.countP (F U.length) = 0 := by omega
      rw [List.countP_eq_zero] at h0
      intro p hp
      have hf : F U.length p = false := by simpa using h0 p hp
      cases hq : F (U.length + 1) p with
      | false => exact hf.symm
      | true => rw [anti _ p hp hq] at hf; cases hf
  refine ⟨hst, fun n hn p hp => ?_⟩
  have := (stable_from U F prop U.length hst (n - U.length)).2 p hp
  rwa [show U.length + (n - U.length) = n by omega] at this

end chain

/-- the chain `conf` on the universe of a case satisfies the two hypotheses of `chain_stab` -/
theorem conf_prop (g : Graph) (ctx : Ctx) (o : Obj) (c : Chk) :
    ∀ n, StableAt (pairUniverse g ctx o c) (fun n p => conf g ctx n p.1 p.2) n →
      StableAt (pairUniverse g ctx o c) (fun n p => conf g ctx n p.1 p.2) (n + 1) := by
  intro n h p hp
  exact confStep_congr_univ g ctx o c (conf g ctx (n + 1)) (conf g ctx n) h p hp

theorem conf_anti (g : Graph) (ctx : Ctx) (U : List Pend) :
    ∀ n, ∀ p ∈ U, (fun n (p : Pend) => conf g ctx n p.1 p.2) (n + 1) p = true →
      (fun n (p : Pend) => conf g ctx n p.1 p.2) n p = true :=
  fun n p _ h => conforms_antitone g ctx n p.1 p.2 h

end Parsley.C08.Stab

namespace Parsley.C08
open Parsley Parsley.TC Parsley.TC.Spec

/-- the chain of unfoldings is constant, on the universe of the case, from level |universe| on -/
theorem conforms_stabilises (g : Graph) (ctx : Ctx) (o : Obj) (c : Chk) :
    ∀ n, (pairUniverse g ctx o c).length ≤ n →
      ∀ p ∈ pairUniverse g ctx o c,
        conf g ctx n p.1 p.2 = conf g ctx (pairUniverse g ctx o c).length p.1 p.2 :=
  (Stab.chain_stab (pairUniverse g ctx o c) (fun n p => conf g ctx n p.1 p.2)
    (Stab.conf_anti g ctx _) (Stab.conf_prop g ctx o c)).2

theorem conf_le (g : Graph) (ctx : Ctx) (o : Obj) (c : Chk) (m : Nat) :
    ∀ k, conf g ctx (m + k) o c = true → conf g ctx m o c = true := by
  intro k
  induction k with
  | zero => exact id
  | succ k ih => exact fun h => ih (conforms_antitone g ctx (m + k) o c h)

/-- conformance (the limit of the chain) is decided by the unfolding of depth |universe| -/
theorem Conforms_iff_conf_card (g : Graph) (ctx : Ctx) (o : Obj) (c : Chk) :
    Conforms g ctx o c ↔ conf g ctx (pairUniverse g ctx o c).length o c = true := by
  constructor
  · intro H; exact H _
  · intro H n
    by_cases hn : (pairUniverse g ctx o c).length ≤ n
    · rw [conforms_stabilises g ctx o c n hn (o, c) (Stab.root_mem g ctx o c)]; exact H
    · apply conf_le g ctx o c n ((pairUniverse g ctx o c).length - n)
      rw [show n + ((pairUniverse g ctx o c).length - n) = (pairUniverse g ctx o c).length by omega]
      exact H

-- non-vacuity: a cyclic graph (object 1 0 is a dictionary whose /N entry refers to itself) against
-- the recursive type node = dict{ N : optional node }; the universe has 6 pairs
example : (pairUniverse [((1, 0), .dict (.cons [0x4e] (.ref 1 0) .nil))]
      [("node", .dict Attr.dflt (.cons [0x4e] .optional (.named "node") .nil))]
      (.ref 1 0) (.named "node")).length = 6 := by decide

example : conf [((1, 0), .dict (.cons [0x4e] (.ref 1 0) .nil))]
    [("node", .dict Attr.dflt (.cons [0x4e] .optional (.named "node") .nil))]
    (pairUniverse [((1, 0), .dict (.cons [0x4e] (.ref 1 0) .nil))]
      [("node", .dict Attr.dflt (.cons [0x4e] .optional (.named "node") .nil))]
      (.ref 1 0) (.named "node")).length (.ref 1 0) (.named "node") = true := by decide

example : Conforms [((1, 0), .dict (.cons [0x4e] (.ref 1 0) .nil))]
    [("node", .dict Attr.dflt (.cons [0x4e] .optional (.named "node") .nil))]
    (.ref 1 0) (.named "node") := by
  rw [Conforms_iff_conf_card]; decide

-- ... and a refuted one: the same graph against node = dict{ N : required node, X : required Integer }
example : ¬ Conforms [((1, 0), .dict (.cons [0x4e] (.ref 1 0) .nil))]
    [("node", .dict Attr.dflt (.cons [0x4e] .required (.named "node")
        (.cons [0x58] .required (.prim Attr.dflt .integer) .nil)))]
    (.ref 1 0) (.named "node") := by
  rw [Conforms_iff_conf_card]; decide

end Parsley.C08

/-! ### the executable oracle -/

namespace Parsley.C08.Stab
open Parsley Parsley.TC Parsley.TC.Spec

/-- the table whose Boolean column is `h` -/
def tblOf (U : List Pend) (h : Pend → Bool) : Table := U.map fun p => (p, h p)

theorem get_tblOf (h : Pend → Bool) : ∀ (U : List Pend) (x : Obj) (d : Chk), (x, d) ∈ U →
    (tblOf U h).get x d = h (x, d) := by
  intro U
  induction U with
  | nil => intro x d hm; cases hm
  | cons a t ih =>
    intro x d hm
    by_cases ha : a = (x, d)
    · subst ha
      simp [tblOf, Table.get]
    · have hm' : (x, d) ∈ t := by
        rcases List.mem_cons.1 hm with h | h
        · exact absurd h.symm ha
        · exact h
      have := ih x d hm'
      simp only [tblOf, Table.get] at this ⊢
      simp only [List.map_cons, List.find?_cons, ha, decide_false]
      exact this

theorem next_tblOf (g : Graph) (ctx : Ctx) (o : Obj) (c : Chk) (n : Nat) :
    Table.next g ctx (tblOf (pairUniverse g ctx o c) (fun p => conf g ctx n p.1 p.2))
      = tblOf (pairUniverse g ctx o c) (fun p => conf g ctx (n + 1) p.1 p.2) := by
  simp only [Table.next]
  conv => lhs; arg 2; rw [tblOf]
  rw [List.map_map, tblOf]
  apply List.map_congr_left
  intro p hp
  simp only [Function.comp]
  congr 1
  exact confStep_congr_univ g ctx o c _ (conf g ctx n)
    (fun q hq => get_tblOf _ _ q.1 q.2 hq) p hp

theorem col_tblOf (U : List Pend) (h : Pend → Bool) : (tblOf U h).map (·.2) = U.map h := by
  simp [tblOf, List.map_map, Function.comp]

theorem iter_tbl (g : Graph) (ctx : Ctx) (o : Obj) (c : Chk) :
    ∀ k n, ∃ m, n ≤ m ∧
      iter g ctx k (tblOf (pairUniverse g ctx o c) (fun p => conf g ctx n p.1 p.2))
        = tblOf (pairUniverse g ctx o c) (fun p => conf g ctx m p.1 p.2) ∧
      (StableAt (pairUniverse g ctx o c) (fun n p => conf g ctx n p.1 p.2) m ∨ m = n + k) := by
  intro k
  induction k with
  | zero => intro n; exact ⟨n, Nat.le_refl _, rfl, Or.inr rfl⟩
  | succ k ih =>
    intro n
    simp only [iter, next_tblOf, col_tblOf]
    split
    · rename_i heq
      refine ⟨n, Nat.le_refl _, rfl, Or.inl ?_⟩
      exact List.map_inj_left.1 heq
    · obtain ⟨m, hm, he, hs⟩ := ih (n + 1)
      exact ⟨m, by omega, he, by rcases hs with h | h; exact Or.inl h; exact Or.inr (by omega)⟩

end Parsley.C08.Stab

namespace Parsley.C08
open Parsley Parsley.TC Parsley.TC.Spec

/-- the table iteration returns the column `conf |universe|` at the root pair -/
theorem gfp_eq_conf_card (g : Graph) (ctx : Ctx) (o : Obj) (c : Chk) :
    gfp g ctx o c = conf g ctx (pairUniverse g ctx o c).length o c := by
  obtain ⟨m, _, he, hs⟩ := Stab.iter_tbl g ctx o c ((pairUniverse g ctx o c).length + 1) 0
  have h0 : (pairUniverse g ctx o c).map (fun p => (p, true))
      = Stab.tblOf (pairUniverse g ctx o c) (fun p => conf g ctx 0 p.1 p.2) := rfl
  simp only [gfp]
  rw [h0, he, Stab.get_tblOf _ _ o c (Stab.root_mem g ctx o c)]
  show conf g ctx m o c = _
  by_cases hm : (pairUniverse g ctx o c).length ≤ m
  · exact conforms_stabilises g ctx o c m hm (o, c) (Stab.root_mem g ctx o c)
  · rcases hs with hs | hs
    · have := (Stab.stable_from (pairUniverse g ctx o c) (fun n p => conf g ctx n p.1 p.2)
        (Stab.conf_prop g ctx o c) m hs ((pairUniverse g ctx o c).length - m)).2 (o, c)
        (Stab.root_mem g ctx o c)
      rw [show m + ((pairUniverse g ctx o c).length - m) = (pairUniverse g ctx o c).length by omega]
        at this
      exact this.symm
    · omega

/-- the executable oracle decides the declarative notion -/
theorem gfp_iff_Conforms (g : Graph) (ctx : Ctx) (o : Obj) (c : Chk) :
    gfp g ctx o c = true ↔ Conforms g ctx o c := by
  rw [gfp_eq_conf_card, Conforms_iff_conf_card]

-- non-vacuity: the oracle on the cyclic case above, both verdicts
example : gfp [((1, 0), .dict (.cons [0x4e] (.ref 1 0) .nil))]
    [("node", .dict Attr.dflt (.cons [0x4e] .optional (.named "node") .nil))]
    (.ref 1 0) (.named "node") = true := by decide

example : gfp [((1, 0), .dict (.cons [0x4e] (.ref 1 0) .nil))]
    [("node", .dict Attr.dflt (.cons [0x4e] .required (.named "node")
        (.cons [0x58] .required (.prim Attr.dflt .integer) .nil)))]
    (.ref 1 0) (.named "node") = false := by decide

/-- on fragment F1 the machine (code as it is) computes exactly the judge's executable oracle -/
theorem machine_eq_oracle_F1 (g : Graph) (ctx : Ctx) (o : Obj) (c : Chk) (hF : Frag.inF1 ctx c = true) :
    verdict (checkTypeFuel Fix.tree g ctx (Term.workBound Fix.tree g ctx o c) o c) = gfp g ctx o c := by
  have h1 := machine_eq_conforms_F1 g ctx o c hF
  have h2 := gfp_iff_Conforms g ctx o c
  cases hv : verdict (checkTypeFuel Fix.tree g ctx (Term.workBound Fix.tree g ctx o c) o c) <;>
    cases hg : gfp g ctx o c <;> simp_all

-- non-vacuity: the recursive type / cyclic graph instance of Props/C08.lean
example : Frag.inF1 nodeCtx (.named "node") = true := by decide

/-- (C08e) completeness against the judge's executable oracle, ALL well-formed specifications: what the oracle
    accepts the machine (code as it is) accepts; a disagreement is a false accept -/
theorem machine_complete_oracle (g : Graph) (ctx : Ctx) (o : Obj) (c : Chk) (hwf : Frag.wfSpec ctx c = true) :
    gfp g ctx o c = true →
      verdict (checkTypeFuel Fix.tree g ctx (Term.workBound Fix.tree g ctx o c) o c) = true := by
  intro h
  exact (machine_eq_conforms g ctx o c).1 hwf ((gfp_iff_Conforms g ctx o c).mp h)

-- non-vacuity: the specification of the memo-leak finding with a conforming object (second alternative), and a
-- cyclic graph whose cycle passes through a disjunction-typed edge behind a name
example : Frag.wfSpec [] (.disj Attr.dflt (alts [alt1, alt2])) = true ∧
    gfp [] [] (.dict (.cons kA (.int 1) .nil)) (.disj Attr.dflt (alts [alt1, alt2])) = true := by decide
def loopCtx : Ctx :=
  [("n", .dict Attr.dflt (.cons [0x4b] .required (.named "k") .nil)),
   ("k", .disj ⟨none, .required⟩ (alts [.prim Attr.dflt .integer, .named "n"]))]
def loopG : Graph := [((1, 0), .dict (.cons [0x4b] (.ref 1 0) .nil))]
example : Frag.wfSpec loopCtx (.named "n") = true ∧ Frag.inF1 loopCtx (.named "n") = false ∧
    gfp loopG loopCtx (.ref 1 0) (.named "n") = true := by decide
example : verdict (checkTypeFuel Fix.tree loopG loopCtx
    (Term.workBound Fix.tree loopG loopCtx (.ref 1 0) (.named "n")) (.ref 1 0) (.named "n")) = true :=
  machine_complete_oracle _ _ _ _ (by decide) (by decide)

end Parsley.C08
