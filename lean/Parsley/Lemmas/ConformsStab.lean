/-
  C08 -- the decreasing chain of unfoldings `conf g ctx n` reaches its limit, on the finite universe
  of a case (`pairUniverse g ctx o c` = objects of the graph x nodes of the specification), after at
  most |pairUniverse| steps; hence `Conforms` is decided by ONE finite unfolding, and the executable
  oracle `gfp` (the table iteration of Spec/Conforms.lean) computes exactly `Conforms`.

    conforms_stabilises     ∀ n ≥ |U|, conf n = conf |U| on U          (U = pairUniverse g ctx o c)
    Conforms_iff_conf_card  Conforms g ctx o c ↔ conf g ctx |U| o c = true
    gfp_eq_conf_card        gfp g ctx o c = conf g ctx |U| o c
    gfp_iff_Conforms        gfp g ctx o c = true ↔ Conforms g ctx o c

  Proof: (1) U is closed: `confStep g ctx f` at a pair of U reads `f` only at pairs of U
  (`confStep_congr_univ`); (2) the number of pairs of U on which `conf n` holds decreases strictly
  until two consecutive levels agree on U, and from then on all levels agree (`chain_stab`);
  (3) the table of `iter` after k rounds is the column `conf k` on U (`iter_tbl`).
-/
import Parsley.Props.C08
namespace Parsley.C08.Stab
open Parsley Parsley.TC Parsley.TC.Spec

/-! ### sub-terms: reflexive, transitive, contain the components -/

theorem objSubs_self (o : Obj) : o ∈ objSubs o := by
  cases o <;> simp [objSubs]

theorem chkSubs_self (c : Chk) : c ∈ chkSubs c := by
  cases c <;> simp [chkSubs]

mutual
theorem objSubs_trans : ∀ (o y z : Obj), y ∈ objSubs o → z ∈ objSubs y → z ∈ objSubs o
  | .arr xs, y, z, hy, hz => by
    simp only [objSubs, List.mem_cons] at hy
    rcases hy with rfl | hy
    · exact hz
    · simp only [objSubs, List.mem_cons]; exact Or.inr (objLSubs_trans xs y z hy hz)
  | .dict xs, y, z, hy, hz => by
    simp only [objSubs, List.mem_cons] at hy
    rcases hy with rfl | hy
    · exact hz
    · simp only [objSubs, List.mem_cons]; exact Or.inr (objLSubs_trans xs y z hy hz)
  | .stream xs a b, y, z, hy, hz => by
    simp only [objSubs, List.mem_cons] at hy
    rcases hy with rfl | hy
    · exact hz
    · simp only [objSubs, List.mem_cons]; exact Or.inr (objLSubs_trans xs y z hy hz)
  | .ref a b, y, z, hy, hz => by
    simp only [objSubs, List.mem_singleton] at hy; subst hy; exact hz
  | .bool b, y, z, hy, hz => by
    simp only [objSubs, List.mem_singleton] at hy; subst hy; exact hz
  | .str s, y, z, hy, hz => by
    simp only [objSubs, List.mem_singleton] at hy; subst hy; exact hz
  | .name s, y, z, hy, hz => by
    simp only [objSubs, List.mem_singleton] at hy; subst hy; exact hz
  | .null, y, z, hy, hz => by
    simp only [objSubs, List.mem_singleton] at hy; subst hy; exact hz
  | .comment s, y, z, hy, hz => by
    simp only [objSubs, List.mem_singleton] at hy; subst hy; exact hz
  | .int i, y, z, hy, hz => by
    simp only [objSubs, List.mem_singleton] at hy; subst hy; exact hz
  | .real n d, y, z, hy, hz => by
    simp only [objSubs, List.mem_singleton] at hy; subst hy; exact hz
theorem objLSubs_trans : ∀ (l : ObjL) (y z : Obj), y ∈ objLSubs l → z ∈ objSubs y → z ∈ objLSubs l
  | .nil, y, z, hy, hz => by simp [objLSubs] at hy
  | .cons k v t, y, z, hy, hz => by
    simp only [objLSubs, List.mem_append] at hy ⊢
    rcases hy with hy | hy
    · exact Or.inl (objSubs_trans v y z hy hz)
    · exact Or.inr (objLSubs_trans t y z hy hz)
end

mutual
theorem chkSubs_trans : ∀ (c y z : Chk), y ∈ chkSubs c → z ∈ chkSubs y → z ∈ chkSubs c
  | .named n, y, z, hy, hz => by
    simp only [chkSubs, List.mem_singleton] at hy; subst hy; exact hz
  | .any a, y, z, hy, hz => by
    simp only [chkSubs, List.mem_singleton] at hy; subst hy; exact hz
  | .prim a p, y, z, hy, hz => by
    simp only [chkSubs, List.mem_singleton] at hy; subst hy; exact hz
  | .array a e s, y, z, hy, hz => by
    simp only [chkSubs, List.mem_cons] at hy
    rcases hy with rfl | hy
    · exact hz
    · simp only [chkSubs, List.mem_cons]; exact Or.inr (chkSubs_trans e y z hy hz)
  | .het a es, y, z, hy, hz => by
    simp only [chkSubs, List.mem_cons] at hy
    rcases hy with rfl | hy
    · exact hz
    · simp only [chkSubs, List.mem_cons]; exact Or.inr (chkLSubs_trans es y z hy hz)
  | .dict a es, y, z, hy, hz => by
    simp only [chkSubs, List.mem_cons] at hy
    rcases hy with rfl | hy
    · exact hz
    · simp only [chkSubs, List.mem_cons]; exact Or.inr (chkLSubs_trans es y z hy hz)
  | .dictStar a es so sc, y, z, hy, hz => by
    simp only [chkSubs, List.mem_cons, List.mem_append] at hy
    rcases hy with rfl | hy | hy
    · exact hz
    · simp only [chkSubs, List.mem_cons, List.mem_append]
      exact Or.inr (Or.inl (chkLSubs_trans es y z hy hz))
    · simp only [chkSubs, List.mem_cons, List.mem_append]
      exact Or.inr (Or.inr (chkSubs_trans sc y z hy hz))
  | .stream a es, y, z, hy, hz => by
    simp only [chkSubs, List.mem_cons] at hy
    rcases hy with rfl | hy
    · exact hz
    · simp only [chkSubs, List.mem_cons]; exact Or.inr (chkLSubs_trans es y z hy hz)
  | .disj a es, y, z, hy, hz => by
    simp only [chkSubs, List.mem_cons] at hy
    rcases hy with rfl | hy
    · exact hz
    · simp only [chkSubs, List.mem_cons]; exact Or.inr (chkLSubs_trans es y z hy hz)
theorem chkLSubs_trans : ∀ (l : ChkL) (y z : Chk), y ∈ chkLSubs l → z ∈ chkSubs y → z ∈ chkLSubs l
  | .nil, y, z, hy, hz => by simp [chkLSubs] at hy
  | .cons k o c t, y, z, hy, hz => by
    simp only [chkLSubs, List.mem_append] at hy ⊢
    rcases hy with hy | hy
    · exact Or.inl (chkSubs_trans c y z hy hz)
    · exact Or.inr (chkLSubs_trans t y z hy hz)
end

theorem toList_sub : ∀ (l : ObjL) (k : Bytes) (x : Obj), (k, x) ∈ l.toList → x ∈ objLSubs l
  | .nil, k, x, h => by simp [ObjL.toList] at h
  | .cons k' v t, k, x, h => by
    simp only [ObjL.toList, List.mem_cons, Prod.mk.injEq] at h
    simp only [objLSubs, List.mem_append]
    rcases h with ⟨_, rfl⟩ | h
    · exact Or.inl (objSubs_self _)
    · exact Or.inr (toList_sub t k x h)

theorem vals_sub (l : ObjL) (x : Obj) (h : x ∈ l.vals) : x ∈ objLSubs l := by
  simp only [ObjL.vals, List.mem_map] at h
  obtain ⟨⟨k, y⟩, hm, rfl⟩ := h
  exact toList_sub l k y hm

theorem get_sub : ∀ (l : ObjL) (k : Bytes) (x : Obj), l.get k = some x → x ∈ objLSubs l
  | .nil, k, x, h => by simp [ObjL.get] at h
  | .cons k' v t, k, x, h => by
    simp only [ObjL.get] at h
    simp only [objLSubs, List.mem_append]
    split at h
    · cases h; exact Or.inl (objSubs_self _)
    · exact Or.inr (get_sub t k x h)

theorem ctoList_sub : ∀ (l : ChkL) (k : Bytes) (s : KeySpec) (c : Chk),
    (k, s, c) ∈ l.toList → c ∈ chkLSubs l
  | .nil, k, s, c, h => by simp [ChkL.toList] at h
  | .cons k' s' c' t, k, s, c, h => by
    simp only [ChkL.toList, List.mem_cons, Prod.mk.injEq] at h
    simp only [chkLSubs, List.mem_append]
    rcases h with ⟨_, _, rfl⟩ | h
    · exact Or.inl (chkSubs_self _)
    · exact Or.inr (ctoList_sub t k s c h)

theorem chks_sub (l : ChkL) (c : Chk) (h : c ∈ l.chks) : c ∈ chkLSubs l := by
  simp only [ChkL.chks, List.mem_map] at h
  obtain ⟨⟨k, s, y⟩, hm, rfl⟩ := h
  exact ctoList_sub l k s y hm

/-! ### `confStep` reads `f` only at sub-terms -/

theorem all_congr' {α : Type} (l : List α) (p q : α → Bool) (h : ∀ x ∈ l, p x = q x) :
    l.all p = l.all q := by
  induction l with
  | nil => rfl
  | cons a t ih =>
    simp only [List.all_cons]
    rw [h a (by simp), ih (fun x hx => h x (by simp [hx]))]

theorem any_congr' {α : Type} (l : List α) (p q : α → Bool) (h : ∀ x ∈ l, p x = q x) :
    l.any p = l.any q := by
  induction l with
  | nil => rfl
  | cons a t ih =>
    simp only [List.any_cons]
    rw [h a (by simp), ih (fun x hx => h x (by simp [hx]))]

theorem entOK_congr (f f' : Obj → Chk → Bool) (kvs : ObjL) (e : Bytes × KeySpec × Chk)
    (h : ∀ x, kvs.get e.1 = some x → f x e.2.2 = f' x e.2.2) :
    entOK f kvs e = entOK f' kvs e := by
  unfold entOK
  cases hg : kvs.get e.1 with
  | none => rfl
  | some x => cases e.2.1 <;> simp [h x hg]

theorem pairsOK_congr (f f' : Obj → Chk → Bool) :
    ∀ (xs : List Obj) (cs : List Chk), (∀ x ∈ xs, ∀ c ∈ cs, f x c = f' x c) →
      pairsOK f xs cs = pairsOK f' xs cs := by
  intro xs
  induction xs with
  | nil => intro cs _; cases cs <;> rfl
  | cons x xs ih =>
    intro cs h
    cases cs with
    | nil => rfl
    | cons c cs =>
      simp only [pairsOK]
      rw [h x (by simp) c (by simp),
        ih cs (fun x' hx' c' hc' => h x' (by simp [hx']) c' (by simp [hc']))]

theorem ents_congr (f f' : Obj → Chk → Bool) (kvs : ObjL) (ents : ChkL)
    (h : ∀ x ∈ objLSubs kvs, ∀ d ∈ chkLSubs ents, f x d = f' x d) :
    ents.toList.all (entOK f kvs) = ents.toList.all (entOK f' kvs) := by
  apply all_congr'
  rintro ⟨k, s, c⟩ hm
  apply entOK_congr
  intro x hx
  exact h x (get_sub kvs k x hx) c (ctoList_sub ents k s c hm)

theorem shapeOK_congr (f f' : Obj → Chk → Bool) (o v : Obj) (r : Chk)
    (h1 : ∀ x ∈ objSubs v, ∀ d ∈ chkSubs r, f x d = f' x d)
    (h2 : ∀ d ∈ chkSubs r, f o d = f' o d) : shapeOK f o v r = shapeOK f' o v r := by
  cases r with
  | named n => rfl
  | any a => rfl
  | prim a p => rfl
  | array a e s =>
    cases v <;> simp only [shapeOK]
    rename_i xs
    congr 1
    apply all_congr'
    intro x hx
    exact h1 x (by simp [objSubs, vals_sub xs x hx]) e (by simp [chkSubs, chkSubs_self])
  | het a es =>
    cases v <;> simp only [shapeOK]
    rename_i xs
    apply pairsOK_congr
    intro x hx c hc
    exact h1 x (by simp [objSubs, vals_sub xs x hx]) c (by simp [chkSubs, chks_sub es c hc])
  | dict a es =>
    cases v <;> simp only [shapeOK]
    rename_i kvs
    apply ents_congr
    intro x hx d hd
    exact h1 x (by simp [objSubs, hx]) d (by simp [chkSubs, hd])
  | dictStar a es so sc =>
    cases v <;> simp only [shapeOK]
    rename_i kvs
    congr 1
    · apply ents_congr
      intro x hx d hd
      exact h1 x (by simp [objSubs, hx]) d (by simp [chkSubs, hd])
    · apply all_congr'
      rintro ⟨k, x⟩ hm
      rw [h1 x (by simp [objSubs, toList_sub kvs k x hm]) sc (by simp [chkSubs, chkSubs_self])]
  | stream a es =>
    cases v <;> simp only [shapeOK]
    rename_i kvs s b
    apply ents_congr
    intro x hx d hd
    exact h1 x (by simp [objSubs, hx]) d (by simp [chkSubs, hd])
  | disj a os =>
    simp only [shapeOK]
    apply any_congr'
    intro alt hm
    exact h2 alt (by simp [chkSubs, chks_sub os alt hm])

/-- the closure lemma in abstract form: `O` closed under sub-objects and `value`, `C` closed under
    sub-checks and `resolve` -/
theorem confStep_congr (g : Graph) (ctx : Ctx) (O : List Obj) (C : List Chk)
    (hOsub : ∀ x ∈ O, ∀ y ∈ objSubs x, y ∈ O) (hOval : ∀ x ∈ O, value g x ∈ O)
    (hCsub : ∀ d ∈ C, ∀ e ∈ chkSubs d, e ∈ C)
    (hCres : ∀ d ∈ C, ∀ r, resolve ctx d = some r → r ∈ C)
    (f f' : Obj → Chk → Bool) (h : ∀ x ∈ O, ∀ d ∈ C, f x d = f' x d) :
    ∀ x ∈ O, ∀ d ∈ C, confStep g ctx f x d = confStep g ctx f' x d := by
  intro x hx d hd
  unfold confStep
  cases hr : resolve ctx d with
  | none => rfl
  | some r =>
    have hrC := hCres d hd r hr
    simp only
    rw [shapeOK_congr f f' x (value g x) r
      (fun y hy e he => h y (hOsub _ (hOval x hx) y hy) e (hCsub r hrC e he))
      (fun e he => h x hx e (hCsub r hrC e he))]

end Parsley.C08.Stab
