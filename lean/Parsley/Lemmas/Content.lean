/-
  C12 helper lemmas, part 1: the extractor loop as a machine over the token sequence.
  `LexAll d x toks` says that the model's tokenizer (`csObjP`, as called by the loop) splits
  the input `x` into exactly the tokens `toks`.  `extractLoop_of_lex` then removes the byte
  level (fuel, white space, cursor) from the loop for ALL inputs.
-/
import Parsley.Model.Content
namespace Parsley.Content

/-- the loop of `parse_internal` over an already tokenized stream -/
def runToks : PState → Nat → List Obj → List CSObj → Res (List Tok)
  | _, _, args, [] => if args.isEmpty then .ok [] else .err .guard
  | st, c, args, .comment :: ts => runToks st c args ts
  | st, c, args, .val o :: ts => runToks st c (args ++ [o]) ts
  | st, c, args, .op name :: ts =>
    match opinfo name with
    | none => if c > 0 then runToks st c [] ts else .err .guard
    | some (ty, opArgs) =>
      match nextState st ty name with
      | none => .err .guard
      | some nx =>
        match handleOp ty name opArgs args c with
        | .err k => .err k | .panic p => .panic p
        | .ok (tk, c') =>
          match runToks nx c' [] ts with
          | .ok tk' => .ok (tk ++ tk') | .err k => .err k | .panic p => .panic p

/-- one call of the tokenizer as the loop makes it, consuming at least one byte -/
def LexStep (d : Nat) (x : Bytes) (t : CSObj) (r : Bytes) : Prop :=
  skipWs x ≠ [] ∧ r.length < (skipWs x).length ∧
    csObjP d (2 * (skipWs x).length + 2) (skipWs x) = .ok (t, r)

inductive LexAll (d : Nat) : Bytes → List CSObj → Prop where
  | nil {x} : skipWs x = [] → LexAll d x []
  | cons {x t r ts} : LexStep d x t r → LexAll d r ts → LexAll d x (t :: ts)

theorem skipWsAux_head : ∀ (c : Bool) (s : Bytes) (b : UInt8) (t : Bytes),
    skipWsAux c s = b :: t → isWs b = false ∧ (b == 37) = false := by
  intro c s
  induction s generalizing c with
  | nil => intro b t h; cases c <;> simp [skipWsAux] at h
  | cons a s ih =>
    intro b t h
    cases c with
    | true =>
      simp only [skipWsAux] at h
      split at h <;> exact ih _ b t h
    | false =>
      simp only [skipWsAux] at h
      split at h
      · exact ih _ b t h
      · split at h
        · exact ih _ b t h
        · rename_i h1 h2
          injection h with h3 h4
          subst h3
          exact ⟨by simpa using h1, by simpa using h2⟩

theorem skipWs_idem (s : Bytes) : skipWs (skipWs s) = skipWs s := by
  cases h : skipWs s with
  | nil => simp [skipWs, skipWsAux]
  | cons b t =>
    have := skipWsAux_head false s b t h
    simp [skipWs, skipWsAux, this.1, this.2]

theorem skipWsAux_length_le : ∀ (c : Bool) (s : Bytes), (skipWsAux c s).length ≤ s.length := by
  intro c s
  induction s generalizing c with
  | nil => cases c <;> simp [skipWsAux]
  | cons a s ih =>
    cases c with
    | true =>
      simp only [skipWsAux]
      split <;> (have := ih false; have := ih true; simp only [List.length_cons]; omega)
    | false =>
      simp only [skipWsAux]
      split
      · have := ih false; simp only [List.length_cons]; omega
      · split
        · have := ih true; simp only [List.length_cons]; omega
        · simp

theorem extractLoop_skipWs (d fuel : Nat) (st : PState) (c : Nat) (args : List Obj) (r : Bytes) :
    extractLoop d fuel st c args (skipWs r) = extractLoop d fuel st c args r := by
  cases fuel with
  | zero => simp [extractLoop]
  | succ f => simp only [extractLoop, skipWs_idem]

theorem extractLoop_of_lex (d : Nat) : ∀ (x : Bytes) (toks : List CSObj), LexAll d x toks →
    ∀ (fuel : Nat) (st : PState) (c : Nat) (args : List Obj), x.length + 1 ≤ fuel →
      extractLoop d fuel st c args x = runToks st c args toks := by
  intro x toks h
  induction h with
  | nil hx =>
    intro fuel st c args hf
    cases fuel with
    | zero => omega
    | succ f =>
      simp only [extractLoop, hx, runToks]
      cases args with
      | nil => simp
      | cons a as => simp [csObjP, skipWs, skipWsAux]
  | @cons x t r ts hs _ ih =>
    intro fuel st c args hf
    obtain ⟨hne, hlen', hcs⟩ := hs
    have hlen : r.length < x.length := by
      have := skipWsAux_length_le false x
      simp only [skipWs] at hlen'
      omega
    cases fuel with
    | zero => omega
    | succ f =>
      have hf' : r.length + 1 ≤ f := by omega
      have hemp : (skipWs x).isEmpty = false := by
        cases hsx : skipWs x with
        | nil => exact absurd hsx hne
        | cons _ _ => rfl
      simp only [extractLoop, hemp, Bool.false_and, hcs, Bool.false_eq_true, ↓reduceIte]
      cases t with
      | comment => simp only [runToks]; exact ih f st c args hf'
      | val o => simp only [runToks]; exact ih f st c (args ++ [o]) hf'
      | op name =>
        simp only [runToks]
        cases hop : opinfo name with
        | none =>
          simp only []
          rw [ih f st c [] hf']
        | some info =>
          obtain ⟨ty, opArgs⟩ := info
          simp only []
          cases hn : nextState st ty name with
          | none => rfl
          | some nx =>
            simp only []
            cases hh : handleOp ty name opArgs args c with
            | err k => rfl
            | panic p => rfl
            | ok v =>
              obtain ⟨tk, c'⟩ := v
              simp only []
              rw [extractLoop_skipWs, ih f nx c' [] hf']
              split
              · rename_i he
                -- the rest is only white space: no further tokens
                have he' : skipWs r = [] := List.isEmpty_iff.mp he
                have : ts = [] := by
                  cases ‹LexAll d r ts› with
                  | nil _ => rfl
                  | cons hs' _ => exact absurd he' hs'.1
                subst this
                simp [runToks]
              · rfl

theorem LexAll_skipWs {d : Nat} {x : Bytes} {toks : List CSObj} (h : LexAll d x toks) :
    LexAll d (skipWs x) toks := by
  cases h with
  | nil hx => exact .nil (by rw [skipWs_idem, hx])
  | cons hs ht =>
    refine .cons ?_ ht
    obtain ⟨h1, h2, h3⟩ := hs
    exact ⟨by rw [skipWs_idem]; exact h1, by rw [skipWs_idem]; exact h2, by rw [skipWs_idem]; exact h3⟩

/-- `extract` on any input that the tokenizer splits into `toks` -/
theorem extract_of_lex {d : Nat} {x : Bytes} {toks : List CSObj} (h : LexAll d x toks) :
    extract d x = runToks .content 0 [] toks := by
  unfold extract
  exact extractLoop_of_lex d _ _ (LexAll_skipWs h) _ _ _ _ (Nat.le_refl _)

end Parsley.Content
