/-
  C12 helper lemmas, part 2: the lexer round trip.  For every well-formed syntax tree of
  Spec/Fig9.lean the tokenizer model of Model/Content.lean (`csObjP` and the token parsers it
  calls, incl. the nested object parser with its fuel and depth budget) splits the rendered
  bytes into exactly the tokens of the tree.

  Part A: the token parsers one by one, on the list-based model: white space / comments,
  numbers (`RealP`, `IntegerP`), literal and hexadecimal strings, names, operators, keywords.
  Part B: objects (`parse_pdf_obj` incl. the `n g R` look-ahead, `CSObjP`), arrays and
  dictionaries of atoms with the fuel bound, operands, operator instances, whole programs:
  `lexAll_prog`.
  (The content-stream token model is a list-based copy of the parsers that Props/C02.lean treats
  on the offset-based model; the proofs here are direct and do not go through C02.)
-/
import Parsley.Model.Content
import Parsley.Spec.Fig9
import Parsley.Lemmas.Content
import Parsley.Lemmas.ContentRel
namespace Parsley.ContentLex
open Parsley Parsley.Content Parsley.Fig9
open Parsley.C12 (All2 AtomObj OperandObj InstsToks)

theorem forall_u8 {P : UInt8 → Prop} (h : ∀ n : Fin 256, P (UInt8.ofNat n.val)) (b : UInt8) : P b := by
  have := h ⟨b.toNat, b.toNat_lt⟩
  simpa using this

theorem isWs_eq : ∀ b : UInt8, Fig9.isWs b = Content.isWs b :=
  forall_u8 (by decide +kernel)
theorem isDigit_eq : ∀ b : UInt8, Fig9.isDigit b = Content.isDigit b :=
  forall_u8 (by decide +kernel)
theorem isHex_eq : ∀ b : UInt8, Fig9.isHex b = Content.isHexDigit b :=
  forall_u8 (by decide +kernel)
theorem isRegular_eq : ∀ b : UInt8, Fig9.isRegular b = !Content.isDelim b :=
  forall_u8 (by decide +kernel)

/-! ## white space -/

/-- the input continues with a white-space byte or a comment, or ends -/
def brk : Bytes → Bool
  | [] => true
  | b :: _ => Content.isWs b || b == 37

/-- the input continues with a byte that is neither white space nor `%` -/
def starts : Bytes → Bool
  | [] => false
  | b :: _ => !Content.isWs b && b != 37

theorem skipWs_starts {x : Bytes} (h : starts x = true) : skipWs x = x := by
  cases x with
  | nil => simp [starts] at h
  | cons b t =>
    simp only [starts, Bool.and_eq_true, Bool.not_eq_true', bne_iff_ne, ne_eq] at h
    simp [skipWs, skipWsAux, h.1, h.2]

theorem skipWsAux_sep : ∀ (s : Bytes) (c : Bool) (x : Bytes), sepOKAux c s = true →
    skipWsAux c (s ++ x) = skipWsAux false x := by
  intro s
  induction s with
  | nil => intro c x h; cases c <;> simp_all [sepOKAux]
  | cons b t ih =>
    intro c x h
    cases c with
    | true =>
      simp only [sepOKAux] at h
      simp only [List.cons_append, skipWsAux]
      by_cases hb : b = 10
      · simp only [hb, if_true] at h; simp only [hb, beq_self_eq_true, if_true]; exact ih _ _ h
      · simp only [hb, if_false] at h
        have : (b == 10) = false := by simpa using hb
        simp only [this, Bool.false_eq_true, if_false]; exact ih _ _ h
    | false =>
      simp only [sepOKAux, isWs_eq] at h
      simp only [List.cons_append, skipWsAux]
      by_cases hw : Content.isWs b = true
      · simp only [hw, if_true] at h ⊢; exact ih _ _ h
      · simp only [hw, Bool.false_eq_true, if_false] at h ⊢
        by_cases hp : b = 37
        · simp only [hp, if_true] at h; simp only [hp, beq_self_eq_true, if_true]; exact ih _ _ h
        · simp [hp] at h

theorem skipWs_sep {s : Bytes} (x : Bytes) (h : sepOK s = true) : skipWs (s ++ x) = skipWs x :=
  skipWsAux_sep s false x h

theorem skipWs_sep_starts {s x : Bytes} (h : sepOK s = true) (hx : starts x = true) :
    skipWs (s ++ x) = x := by rw [skipWs_sep x h, skipWs_starts hx]

theorem sepNE_ok {s : Bytes} (h : sepNE s = true) : sepOK s = true := by
  simp only [sepNE, Bool.and_eq_true] at h; exact h.2

theorem brk_sepNE {s : Bytes} (x : Bytes) (h : sepNE s = true) : brk (s ++ x) = true := by
  cases s with
  | nil => simp [sepNE] at h
  | cons b t =>
    simp only [sepNE, sepOK, sepOKAux, isWs_eq, List.isEmpty_cons, Bool.not_false, Bool.true_and] at h
    simp only [List.cons_append, brk]
    by_cases hw : Content.isWs b = true
    · simp [hw]
    · simp only [hw, Bool.false_eq_true, if_false] at h
      by_cases hp : b = 37
      · simp [hp]
      · simp [hp] at h

theorem sepNE_length {s : Bytes} (h : sepNE s = true) : 1 ≤ s.length := by
  cases s with
  | nil => simp [sepNE] at h
  | cons b t => simp

theorem brk_sep_or {s x : Bytes} (h : sepOK s = true) (hx : s ≠ [] ∨ x = []) : brk (s ++ x) = true := by
  cases s with
  | nil =>
    rcases hx with hx | hx
    · exact absurd rfl hx
    · subst hx; rfl
  | cons b t =>
    apply brk_sepNE
    simp [sepNE, h]

/-- spans: a run of `p`-bytes followed by a non-`p` byte or the end -/
theorem span_append (p : UInt8 → Bool) (w z : Bytes) (hw : ∀ b ∈ w, p b = true)
    (hz : ∀ b t, z = b :: t → p b = false) :
    (w ++ z).takeWhile p = w ∧ (w ++ z).dropWhile p = z := by
  induction w with
  | nil =>
    cases z with
    | nil => simp
    | cons b t => simp [hz b t rfl]
  | cons a w ih =>
    have ha := hw a (by simp)
    have := ih (fun b hb => hw b (by simp [hb]))
    simp [ha, this.1, this.2]


/-! ## numbers -/

theorem digit_le9 {c : UInt8} (h : Content.isDigit c = true) : c.toNat - 48 ≤ 9 := by
  simp only [Content.isDigit, Bool.and_eq_true, decide_eq_true_eq, UInt8.le_iff_toNat_le] at h
  have := h.2
  simp at this
  omega

theorem accDigits_ok (lim : Nat) : ∀ (ds : Bytes) (n : Nat), (∀ b ∈ ds, Content.isDigit b = true) →
    (n + 1) * 10 ^ ds.length ≤ lim + 1 →
    ∃ m, accDigits lim n ds = some m ∧ m + 1 ≤ (n + 1) * 10 ^ ds.length := by
  intro ds
  induction ds with
  | nil => intro n _ _; exact ⟨n, rfl, by simp⟩
  | cons c t ih =>
    intro n hd hl
    have hc := digit_le9 (hd c (by simp))
    have hK : 1 ≤ 10 ^ t.length := Nat.pow_pos (by omega)
    simp only [List.length_cons, Nat.pow_succ] at hl ⊢
    have e : (n + 1) * (10 ^ t.length * 10) = ((n + 1) * 10) * 10 ^ t.length := by
      rw [Nat.mul_comm (10 ^ t.length) 10, Nat.mul_assoc]
    rw [e] at hl ⊢
    have hstep : (n * 10 + (c.toNat - 48) + 1) * 10 ^ t.length ≤ ((n + 1) * 10) * 10 ^ t.length :=
      Nat.mul_le_mul_right _ (by omega)
    have hge : (n + 1) * 10 ≤ ((n + 1) * 10) * 10 ^ t.length := Nat.le_mul_of_pos_right _ hK
    obtain ⟨m, hm, hb⟩ := ih (n * 10 + (c.toNat - 48)) (fun b hb => hd b (by simp [hb])) (by omega)
    refine ⟨m, ?_, by omega⟩
    unfold accDigits
    have h1 : ¬ (n * 10 > lim) := by omega
    have h2 : ¬ (n * 10 + (c.toNat - 48) > lim) := by omega
    simp only [h1, h2, if_false]
    exact hm

theorem accFrac_ok (lim : Nat) : ∀ (fs : Bytes) (n d : Nat), (∀ b ∈ fs, Content.isDigit b = true) →
    (n + 1) * 10 ^ fs.length ≤ lim + 1 → d * 10 ^ fs.length ≤ lim →
    ∃ m, accFrac lim n d fs = some (m, d * 10 ^ fs.length) := by
  intro fs
  induction fs with
  | nil => intro n d _ _ _; exact ⟨n, by simp [accFrac]⟩
  | cons c t ih =>
    intro n d hd hl hdl
    have hc := digit_le9 (hd c (by simp))
    have hK : 1 ≤ 10 ^ t.length := Nat.pow_pos (by omega)
    simp only [List.length_cons, Nat.pow_succ] at hl hdl ⊢
    have e : ∀ x, x * (10 ^ t.length * 10) = (x * 10) * 10 ^ t.length := by
      intro x; rw [Nat.mul_comm (10 ^ t.length) 10, Nat.mul_assoc]
    rw [e] at hl hdl ⊢
    have hstep : (n * 10 + (c.toNat - 48) + 1) * 10 ^ t.length ≤ ((n + 1) * 10) * 10 ^ t.length :=
      Nat.mul_le_mul_right _ (by omega)
    have hge : (n + 1) * 10 ≤ ((n + 1) * 10) * 10 ^ t.length := Nat.le_mul_of_pos_right _ hK
    have hge2 : d * 10 ≤ (d * 10) * 10 ^ t.length := Nat.le_mul_of_pos_right _ hK
    obtain ⟨m, hm⟩ := ih (n * 10 + (c.toNat - 48)) (d * 10) (fun b hb => hd b (by simp [hb])) (by omega) hdl
    refine ⟨m, ?_⟩
    unfold accFrac
    have h1 : ¬ (n * 10 > lim) := by omega
    have h2 : ¬ (n * 10 + (c.toNat - 48) > lim) := by omega
    have h3 : ¬ (d * 10 > lim) := by omega
    simp only [h1, h2, h3, if_false]
    exact hm

theorem mem_takeWhile {p : UInt8 → Bool} {l : Bytes} {b : UInt8} (h : b ∈ l.takeWhile p) : p b = true := by
  induction l with
  | nil => simp at h
  | cons a t ih =>
    by_cases ha : p a = true
    · simp only [List.takeWhile_cons, ha, if_true, List.mem_cons] at h
      rcases h with h | h
      · rw [h]; exact ha
      · exact ih h
    · simp [ha] at h

/-- the shape of a well-formed number spelling -/
theorem numOK_shape {sp : Bytes} (h : numOK sp = true) :
    ∃ (sg ip tl : Bytes), sp = sg ++ (ip ++ tl) ∧ (sg = [] ∨ sg = [45]) ∧
      (∀ b ∈ ip, Content.isDigit b = true) ∧ ip.length ≤ 18 ∧
      ((tl = [] ∧ ip ≠ []) ∨ ∃ fp, tl = 46 :: fp ∧ (∀ b ∈ fp, Content.isDigit b = true) ∧ fp.length ≤ 18) ∧
      (sg = [] → ∀ b t, ip ++ tl = b :: t → b ≠ 45) := by
  have key : ∀ body : Bytes,
      ((body.takeWhile Fig9.isDigit).length ≤ 18 &&
        (match body.dropWhile Fig9.isDigit with
         | [] => !(body.takeWhile Fig9.isDigit).isEmpty
         | 46 :: fp => fp.all Fig9.isDigit && decide (fp.length ≤ 18)
         | _ => false)) = true →
      ∃ ip tl, body = ip ++ tl ∧ (∀ b ∈ ip, Content.isDigit b = true) ∧ ip.length ≤ 18 ∧
        ((tl = [] ∧ ip ≠ []) ∨ ∃ fp, tl = 46 :: fp ∧ (∀ b ∈ fp, Content.isDigit b = true) ∧ fp.length ≤ 18) := by
    intro body hb
    refine ⟨body.takeWhile Fig9.isDigit, body.dropWhile Fig9.isDigit, (List.takeWhile_append_dropWhile).symm, ?_, ?_, ?_⟩
    · intro b hb'
      have := mem_takeWhile hb'
      rw [← isDigit_eq]; exact this
    · simp only [Bool.and_eq_true, decide_eq_true_eq] at hb; exact hb.1
    · simp only [Bool.and_eq_true, decide_eq_true_eq] at hb
      have h2 := hb.2
      split at h2
      · rename_i he
        left; exact ⟨he, by simpa using h2⟩
      · rename_i fp he
        right
        simp only [Bool.and_eq_true, List.all_eq_true, decide_eq_true_eq] at h2
        exact ⟨fp, he, fun b hb' => by rw [← isDigit_eq]; exact h2.1 b hb', h2.2⟩
      · cases h2
  unfold numOK at h
  cases sp with
  | nil =>
    obtain ⟨ip, tl, e, h1, h2, h3⟩ := key [] h
    refine ⟨[], ip, tl, by simpa using e, Or.inl rfl, h1, h2, h3, ?_⟩
    intro _ b t hbt
    rw [← e] at hbt; cases hbt
  | cons a t =>
    by_cases ha : a = 45
    · subst ha
      obtain ⟨ip, tl, e, h1, h2, h3⟩ := key t h
      exact ⟨[45], ip, tl, by simp [e], Or.inr rfl, h1, h2, h3, by intro hh; cases hh⟩
    · split at h
      · rename_i t' heq
        injection heq with h1 _; exact absurd h1 ha
      · obtain ⟨ip, tl, e, h1, h2, h3⟩ := key (a :: t) h
        refine ⟨[], ip, tl, by simpa using e, Or.inl rfl, h1, h2, h3, ?_⟩
        intro _ b t' hbt
        rw [← e] at hbt; injection hbt with hb _; rw [← hb]; exact ha

theorem brk_not_digit {z : Bytes} (h : brk z = true) : ∀ b t, z = b :: t → Content.isDigit b = false := by
  intro b t e; subst e
  simp only [brk] at h
  revert h
  exact forall_u8 (P := fun b => (Content.isWs b || b == 37) = true → Content.isDigit b = false) (by decide +kernel) b

theorem brk_not_dot {z : Bytes} (h : brk z = true) : ∀ b t, z = b :: t → b ≠ 46 := by
  intro b t e; subst e
  simp only [brk] at h
  revert h
  exact forall_u8 (P := fun b => (Content.isWs b || b == 37) = true → b ≠ 46) (by decide +kernel) b

theorem digit_facts : ∀ b : UInt8, Content.isDigit b = true →
    b ≠ 45 ∧ b ≠ 43 ∧ b ≠ 46 ∧ Content.isWs b = false ∧ b ≠ 37 ∧ b ≠ 82 ∧ b ≠ 93 ∧ b ≠ 62 ∧ b ≠ 116 ∧ b ≠ 102
      ∧ b ≠ 110 ∧ b ≠ 40 ∧ b ≠ 47 ∧ b ≠ 91 ∧ b ≠ 60 :=
  forall_u8 (by decide +kernel)

/-- head of the unsigned part of a number -/
theorem num_body_head {ip tl : Bytes} (hip : ∀ b ∈ ip, Content.isDigit b = true)
    (htl : (tl = [] ∧ ip ≠ []) ∨ ∃ fp, tl = 46 :: fp ∧ (∀ b ∈ fp, Content.isDigit b = true) ∧ fp.length ≤ 18) :
    ∃ b t, ip ++ tl = b :: t ∧ (Content.isDigit b = true ∨ b = 46) := by
  cases ip with
  | nil =>
    rcases htl with ⟨_, h⟩ | ⟨fp, h, _⟩
    · exact absurd rfl h
    · exact ⟨46, fp, by simp [h], Or.inr rfl⟩
  | cons a t => exact ⟨a, t ++ tl, rfl, Or.inl (hip a (by simp))⟩

theorem signP_plain {x : Bytes} (h : ∀ b t, x = b :: t → b ≠ 45 ∧ b ≠ 43) : signP x = (false, x) := by
  unfold signP
  split
  · exact absurd rfl (h _ _ rfl).1
  · exact absurd rfl (h _ _ rfl).2
  · rfl

theorem signP_num {sg ip tl : Bytes} (z : Bytes) (hsg : sg = [] ∨ sg = [45])
    (hip : ∀ b ∈ ip, Content.isDigit b = true)
    (htl : (tl = [] ∧ ip ≠ []) ∨ ∃ fp, tl = 46 :: fp ∧ (∀ b ∈ fp, Content.isDigit b = true) ∧ fp.length ≤ 18)
    (h45 : sg = [] → ∀ b t, ip ++ tl = b :: t → b ≠ 45) :
    ∃ m, signP (sg ++ (ip ++ tl) ++ z) = (m, ip ++ (tl ++ z)) := by
  obtain ⟨b, t, e, hb⟩ := num_body_head hip htl
  rcases hsg with rfl | rfl
  · refine ⟨false, ?_⟩
    simp only [List.nil_append, List.append_assoc]
    apply signP_plain
    intro b' t' e'
    rw [← List.append_assoc, e] at e'
    injection e' with e1 _
    subst e1
    refine ⟨h45 rfl _ _ e, ?_⟩
    rcases hb with hb | hb
    · exact (digit_facts _ hb).2.1
    · rw [hb]; decide
  · exact ⟨true, by simp [signP]⟩

theorem i128_bound : (10 : Nat) ^ 18 * 10 ^ 18 ≤ i128Max + 1 := by decide +kernel

theorem pow_le18 {k : Nat} (h : k ≤ 18) : 10 ^ k ≤ 10 ^ 18 := Nat.pow_le_pow_right (by omega) h

/-- `RealP` re-reads every well-formed number spelling that is followed by a separator or the
    end of the input, and stops exactly behind it -/
theorem realP_num {sp : Bytes} (z : Bytes) (h : numOK sp = true) (hz : brk z = true) :
    ∃ v, realP (sp ++ z) = .ok (v, z) := by
  obtain ⟨sg, ip, tl, rfl, hsg, hip, hlen, htl, h45⟩ := numOK_shape h
  obtain ⟨m, hs⟩ := signP_num z hsg hip htl h45
  have hspan := span_append Content.isDigit ip (tl ++ z) hip (by
    intro b t e
    rcases htl with ⟨h1, _⟩ | ⟨fp, h1, _⟩
    · subst h1; exact brk_not_digit hz b t e
    · subst h1; injection e with e1 _; subst e1; decide)
  have hp18 := pow_le18 hlen
  obtain ⟨n, hn, hnb⟩ := accDigits_ok i128Max ip 0 hip (by
    have := i128_bound
    have h1 : 1 ≤ (10:Nat) ^ 18 := Nat.pow_pos (by omega)
    have : (10:Nat)^18 ≤ 10^18 * 10^18 := Nat.le_mul_of_pos_right _ h1
    omega)
  unfold realP
  simp only [hs, hspan.1, hspan.2, hn]
  rcases htl with ⟨h1, h2⟩ | ⟨fp, h1, hfp, hfl⟩
  · subst h1
    have hemp : ip.isEmpty = false := by cases ip with | nil => exact absurd rfl h2 | cons _ _ => rfl
    simp only [hemp, Bool.false_and, Bool.false_eq_true, if_false, List.nil_append]
    split
    · exact absurd hz (by simp [brk, Content.isWs])
    · exact ⟨_, rfl⟩
  · subst h1
    have hspan2 := span_append Content.isDigit fp z hfp (brk_not_digit hz)
    have hq18 := pow_le18 hfl
    obtain ⟨n', hn'⟩ := accFrac_ok i128Max fp n 1 hfp (by
      have := i128_bound
      have h1 : (n + 1) * 10 ^ fp.length ≤ 10 ^ 18 * 10 ^ 18 := Nat.mul_le_mul (by omega) hq18
      omega) (by
      have := i128_bound
      have h1 : 1 ≤ (10:Nat) ^ 18 := Nat.pow_pos (by omega)
      have : (10:Nat)^18 ≤ 10^18 * 10^18 := Nat.le_mul_of_pos_right _ h1
      simp only [i128Max] at *
      omega)
    simp only [List.cons_append, List.head?_cons, bne_self_eq_false, Bool.and_false, Bool.false_eq_true,
      if_false, hspan2.1, hspan2.2, hn']
    exact ⟨_, rfl⟩

/-- what `IntegerP` leaves behind when it is run over a well-formed number spelling (the
    look-ahead of the `n g R` test does this): everything behind the spelling, or a rest that
    starts with the decimal point -/
theorem integerP_num_tail {sp : Bytes} (z : Bytes) (h : numOK sp = true) (hz : brk z = true)
    (g : Int) (r3 : Bytes) (hi : integerP (sp ++ z) = .ok (g, r3)) : r3 = z ∨ r3.head? = some 46 := by
  obtain ⟨sg, ip, tl, rfl, hsg, hip, hlen, htl, h45⟩ := numOK_shape h
  obtain ⟨m, hs⟩ := signP_num z hsg hip htl h45
  have hspan := span_append Content.isDigit ip (tl ++ z) hip (by
    intro b t e
    rcases htl with ⟨h1, _⟩ | ⟨fp, h1, _⟩
    · subst h1; exact brk_not_digit hz b t e
    · subst h1; injection e with e1 _; subst e1; decide)
  unfold integerP at hi
  simp only [hs, hspan.1, hspan.2] at hi
  have hr : r3 = tl ++ z := by
    split at hi
    · cases hi
    · split at hi
      · cases hi
      · injection hi with hi; injection hi with _ hi; exact hi.symm
  rcases htl with ⟨h1, _⟩ | ⟨fp, h1, _⟩
  · left; rw [hr, h1]; rfl
  · right; rw [hr, h1]; rfl

theorem integerP_fail {x : Bytes}
    (h : ∀ b t, x = b :: t → Content.isDigit b = false ∧ b ≠ 45 ∧ b ≠ 43) : integerP x = .err .guard := by
  have hs : signP x = (false, x) := signP_plain (fun b t e => (h b t e).2)
  have ht : x.takeWhile Content.isDigit = [] := by
    cases x with
    | nil => rfl
    | cons b t => simp [(h b t rfl).1]
  unfold integerP
  simp [hs, ht]

/-! ## strings -/

theorem litLoop_esc (d : Nat) (x : UInt8) (t : Bytes) :
    litLoop d true (x :: t) =
      (match litLoop d false t with
       | .ok (v, r) => .ok (x :: v, r) | .err k => .err k | .panic p => .panic p) := by
  rw [litLoop]
  by_cases h40 : (x == 40) = true
  · simp only [h40, if_true]; cases litLoop d false t <;> rfl
  · simp only [h40, Bool.false_eq_true, if_false]
    by_cases h41 : (x == 41) = true
    · simp only [h41, if_true]; cases litLoop d false t <;> rfl
    · simp only [h41, Bool.false_eq_true, if_false]
      by_cases h92 : (x == 92) = true
      · simp only [h92, if_true, Bool.not_true]; cases litLoop d false t <;> rfl
      · simp only [h92, Bool.false_eq_true, if_false]; cases litLoop d false t <;> rfl

/-- the scanner of `RawLiteralString` returns exactly the bytes between the outer parentheses of a
    balanced body (backslash escapes the next byte), whatever follows -/
theorem litLoop_bal (z : Bytes) : ∀ (d : Nat) (c : Bytes), litBal d c = true →
    litLoop (d + 1) false (c ++ 41 :: z) = .ok (c, z) := by
  intro d c
  induction d, c using litBal.induct with
  | case1 d =>
    intro h
    have : d = 0 := by simpa [litBal] using h
    subst this
    simp [litLoop]
  | case2 d =>
    intro h; simp [litBal] at h
  | case3 d x t' ih =>
    intro h
    have := ih (by simpa [litBal] using h)
    simp only [List.cons_append]
    rw [litLoop]
    simp only [show ((92 : UInt8) == 40) = false by decide, show ((92 : UInt8) == 41) = false by decide,
      beq_self_eq_true, Bool.false_eq_true, if_false, if_true, Bool.not_false]
    rw [litLoop_esc, this]
  | case4 d t _ ih =>
    intro h
    unfold litBal at h
    simp only [show ¬ ((40 : UInt8) = 92) by decide, if_false, if_true] at h
    have := ih h
    simp only [List.cons_append]
    rw [litLoop]
    simp only [beq_self_eq_true, if_true, Bool.false_eq_true, if_false, this]
  | case5 t _ _ =>
    intro h; unfold litBal at h; simp at h
  | case6 t d' _ _ ih =>
    intro h
    unfold litBal at h
    simp only [show ¬ ((41 : UInt8) = 92) by decide, show ¬ ((41 : UInt8) = 40) by decide, if_false, if_true] at h
    have := ih h
    simp only [List.cons_append]
    rw [litLoop]
    simp only [show ((41 : UInt8) == 40) = false by decide, beq_self_eq_true, if_true,
      Bool.false_eq_true, if_false, Nat.add_sub_cancel, this]
    simp
  | case7 d b t hb1 hb2 hb3 ih =>
    intro h
    unfold litBal at h
    simp only [hb1, hb2, hb3, if_false] at h
    have := ih h
    have e1 : (b == 92) = false := by simpa using hb1
    have e2 : (b == 40) = false := by simpa using hb2
    have e3 : (b == 41) = false := by simpa using hb3
    simp only [List.cons_append]
    rw [litLoop]
    simp only [e1, e2, e3, Bool.false_eq_true, if_false, this]

theorem litStringP_ok (c z : Bytes) (h : litBal 0 c = true) :
    litStringP (40 :: (c ++ [41]) ++ z) = .ok (c, z) := by
  simp only [List.cons_append, List.append_assoc, litStringP]
  exact litLoop_bal z 0 c h

theorem hexVal_eq : ∀ b : UInt8, Content.isHexDigit b = true →
    Content.hexVal b = UInt8.ofNat (Fig9.hexDigitVal b) :=
  forall_u8 (by decide +kernel)

theorem hexPair_eq (a b : UInt8) (ha : Content.isHexDigit a = true) (hb : Content.isHexDigit b = true) :
    16 * Content.hexVal a + Content.hexVal b = UInt8.ofNat (16 * Fig9.hexDigitVal a + Fig9.hexDigitVal b) := by
  rw [hexVal_eq a ha, hexVal_eq b hb]
  apply UInt8.toNat_inj.mp
  simp [UInt8.toNat_add, UInt8.toNat_mul, UInt8.toNat_ofNat]

theorem hexPair_pad (a : UInt8) (ha : Content.isHexDigit a = true) :
    16 * Content.hexVal a + Content.hexVal 48 = UInt8.ofNat (16 * Fig9.hexDigitVal a) := by
  have := hexPair_eq a 48 ha (by decide)
  rw [this]; rfl

def padHex (hx : Bytes) : Bytes := if hx.length % 2 != 0 then hx ++ [48] else hx

theorem padHex_cons2 (a b : UInt8) (t : Bytes) : padHex (a :: b :: t) = a :: b :: padHex t := by
  unfold padHex
  have : (a :: b :: t).length % 2 = t.length % 2 := by simp only [List.length_cons]; omega
  rw [this]
  split <;> rfl

theorem hexPairs_pad : ∀ hx : Bytes, (∀ b ∈ hx, Content.isHexDigit b = true) →
    hexPairs (padHex hx) = hexBytes hx := by
  intro hx
  induction hx using hexBytes.induct with
  | case1 => intro _; rfl
  | case2 a =>
    intro h
    have e : padHex [a] = [a, 48] := rfl
    rw [e]
    simp only [hexPairs, hexBytes]
    rw [hexPair_pad a (h a (by simp))]
  | case3 a b t ih =>
    intro h
    rw [padHex_cons2]
    simp only [hexPairs, hexBytes]
    rw [hexPair_eq a b (h a (by simp)) (h b (by simp)), ih (fun x hx => h x (by simp [hx]))]

/-- `HexString` re-reads `<sp>` as the bytes ISO 32000-1 7.3.4.3 assigns to it -/
theorem hexStringP_ok (sp z : Bytes) (h : hexOK sp = true) :
    hexStringP (60 :: (sp ++ [62]) ++ z) =
      .ok (hexBytes (sp.filter (fun b => !Fig9.isWs b)), z) := by
  have hall : ∀ b ∈ sp, (Content.isHexDigit b || Content.isWs b) = true := by
    intro b hb
    have := List.all_eq_true.mp h b hb
    rw [isHex_eq, isWs_eq] at this; exact this
  have hspan := span_append (fun b => Content.isHexDigit b || Content.isWs b) sp (62 :: z) hall (by
    intro b t e; injection e with e1 _; subst e1; decide)
  have hf : (fun b => !Fig9.isWs b) = (fun b => !Content.isWs b) := by funext b; rw [isWs_eq]
  simp only [List.cons_append, List.append_assoc, List.nil_append, hexStringP,
    hspan.1, hspan.2, hf]
  have := hexPairs_pad (sp.filter (fun b => !Content.isWs b)) (by
    intro b hb
    simp only [List.mem_filter, Bool.not_eq_true'] at hb
    have := hall b hb.1
    simpa [hb.2] using this)
  simp only [padHex] at this
  rw [this]

/-! ## names and operators -/

theorem normHex_id : ∀ l : Bytes, (∀ b ∈ l, b ≠ 35) → normHex l = .ok l := by
  intro l
  induction l with
  | nil => intro _; simp [normHex]
  | cons a t ih =>
    intro h
    have ha : (a == 35) = false := by simpa using h a (by simp)
    have iht := ih (fun b hb => h b (by simp [hb]))
    unfold normHex
    split
    · rename_i a' t' b c rest heq
      injection heq with e1 e2
      subst e1 e2
      simp only [ha, Bool.false_and, Bool.false_eq_true, if_false, iht]
    · rfl

theorem validUtf8_ascii : ∀ l : Bytes, (∀ b ∈ l, b < 128) → validUtf8 l = true := by
  intro l
  induction l with
  | nil => intro _; rfl
  | cons a t ih =>
    intro h
    unfold validUtf8
    have : a < 0x80 := h a (by simp)
    simp only [this, if_true]
    exact ih (fun b hb => h b (by simp [hb]))

theorem brk_delim {z : Bytes} (h : brk z = true) : ∀ b t, z = b :: t → (!isDelim b) = false := by
  intro b t e; subst e
  simp only [brk] at h
  revert h
  exact forall_u8 (P := fun b => (Content.isWs b || b == 37) = true → (!isDelim b) = false) (by decide +kernel) b

/-- `NameP` re-reads `/b` for every name body made of regular characters without `#` -/
theorem nameP_ok (b z : Bytes) (h : nameOK b = true) (hz : brk z = true) :
    nameP (47 :: b ++ z) = .ok (b, z) := by
  have hall := List.all_eq_true.mp h
  have h1 : ∀ x ∈ b, (!isDelim x) = true := by
    intro x hx
    have := hall x hx
    simp only [Bool.and_eq_true, isRegular_eq] at this
    exact this.1
  have h2 : ∀ x ∈ b, x ≠ 35 := by
    intro x hx
    have := hall x hx
    simp only [Bool.and_eq_true, bne_iff_ne, ne_eq] at this
    exact this.2
  have hspan := span_append (fun x => !isDelim x) b z h1 (brk_delim hz)
  simp only [List.cons_append, nameP, hspan.1, hspan.2, normHex_id b h2]

/-- `OperatorP` re-reads every token of regular ASCII characters without `#` -/
theorem operatorP_ok (op z : Bytes) (hne : op ≠ [])
    (h : op.all (fun x => isRegular x && x != 35 && decide (x < 128)) = true) (hz : brk z = true) :
    operatorP (op ++ z) = .ok (op, z) := by
  have hall := List.all_eq_true.mp h
  have h1 : ∀ x ∈ op, (!isDelim x) = true := by
    intro x hx
    have := hall x hx
    simp only [Bool.and_eq_true, isRegular_eq] at this
    exact this.1.1
  have h2 : ∀ x ∈ op, x ≠ 35 := by
    intro x hx
    have := hall x hx
    simp only [Bool.and_eq_true, bne_iff_ne, ne_eq] at this
    exact this.1.2
  have h3 : ∀ x ∈ op, x < 128 := by
    intro x hx
    have := hall x hx
    simp only [Bool.and_eq_true, decide_eq_true_eq] at this
    exact this.2
  have hspan := span_append (fun x => !isDelim x) op z h1 (brk_delim hz)
  have hemp : op.isEmpty = false := by cases op with | nil => exact absurd rfl hne | cons _ _ => rfl
  simp only [operatorP, hspan.1, hspan.2, hemp, Bool.false_eq_true, if_false, normHex_id op h2,
    validUtf8_ascii op h3, if_true]

theorem exact_append : ∀ (tag z : Bytes), exact tag (tag ++ z) = some z := by
  intro tag z
  induction tag with
  | nil => cases z <;> rfl
  | cons a t ih => simp [exact, ih]


/-! # Part B: objects, operands, instructions -/

/-- first byte of a number spelling -/
def numHead (b : UInt8) : Bool := Content.isDigit b || b == 45 || b == 46

/-- first byte of an operand that is not a number -/
def plainHead (b : UInt8) : Bool :=
  !Content.isWs b && b != 37 && !Content.isDigit b && b != 45 && b != 43 && b != 82 && b != 93 && b != 62

/-- the input continues with a token that is not the keyword `R` -/
def tokStart : Bytes → Bool
  | [] => false
  | b :: _ => !Content.isWs b && b != 37 && b != 82

theorem numHead_facts : ∀ b : UInt8, numHead b = true →
    (b == 116 || b == 102) = false ∧ (b == 110) = false ∧ (b == 40) = false ∧ (b == 47) = false ∧
    (b == 91) = false ∧ (b == 60) = false ∧ (b == 37) = false ∧
    (Content.isDigit b || b == 45 || b == 46 || b == 43) = true ∧
    (Content.isDigit b || b == 45 || b == 46) = true ∧
    Content.isWs b = false ∧ b ≠ 82 ∧ b ≠ 93 ∧ b ≠ 62 :=
  forall_u8 (by decide +kernel)

theorem plainHead_facts : ∀ b : UInt8, plainHead b = true →
    Content.isWs b = false ∧ b ≠ 37 ∧ Content.isDigit b = false ∧ b ≠ 45 ∧ b ≠ 43 ∧ b ≠ 82 ∧ b ≠ 93 ∧ b ≠ 62 :=
  forall_u8 (by decide +kernel)

theorem num_head {sp : Bytes} (h : numOK sp = true) : ∃ b t, sp = b :: t ∧ numHead b = true := by
  obtain ⟨sg, ip, tl, rfl, hsg, hip, _, htl, _⟩ := numOK_shape h
  rcases hsg with rfl | rfl
  · obtain ⟨b, t, e, hb⟩ := num_body_head hip htl
    refine ⟨b, t, by simpa using e, ?_⟩
    rcases hb with hb | hb
    · simp [numHead, hb]
    · subst hb; decide
  · exact ⟨45, ip ++ tl, rfl, by decide⟩

theorem hex_head {sp : Bytes} (z : Bytes) (h : hexOK sp = true) : ((sp ++ [62]) ++ z).head? ≠ some 60 := by
  cases sp with
  | nil => simp
  | cons x t =>
    have := List.all_eq_true.mp h x (by simp)
    simp only [List.cons_append, List.head?_cons, ne_eq, Option.some.injEq]
    revert this
    exact forall_u8 (P := fun x => (Fig9.isHex x || Fig9.isWs x) = true → ¬ x = 60) (by decide +kernel) x

/-- every well-formed atom starts with a byte that no separator, `R`, `]` or `>` starts with -/
theorem atom_head {a : Atom} (h : a.ok = true) :
    ∃ b t, a.render = b :: t ∧ ((∃ sp, a = .num sp) ∧ numHead b = true ∨ (∀ sp, a ≠ .num sp) ∧ plainHead b = true) := by
  cases a with
  | num sp =>
    obtain ⟨b, t, e, hb⟩ := num_head (sp := sp) h
    exact ⟨b, t, e, Or.inl ⟨⟨sp, rfl⟩, hb⟩⟩
  | name b => exact ⟨47, b, rfl, Or.inr ⟨(fun _ h => by cases h), by decide⟩⟩
  | lit c => exact ⟨40, c ++ [41], rfl, Or.inr ⟨(fun _ h => by cases h), by decide⟩⟩
  | hex sp => exact ⟨60, sp ++ [62], rfl, Or.inr ⟨(fun _ h => by cases h), by decide⟩⟩
  | bool v =>
    cases v
    · exact ⟨102, _, rfl, Or.inr ⟨(fun _ h => by cases h), by decide⟩⟩
    · exact ⟨116, _, rfl, Or.inr ⟨(fun _ h => by cases h), by decide⟩⟩
  | null => exact ⟨110, _, rfl, Or.inr ⟨(fun _ h => by cases h), by decide⟩⟩

theorem atom_head_simple {a : Atom} (h : a.ok = true) :
    ∃ b t, a.render = b :: t ∧ Content.isWs b = false ∧ b ≠ 37 ∧ b ≠ 82 ∧ b ≠ 93 ∧ b ≠ 62 := by
  obtain ⟨b, t, e, hb⟩ := atom_head h
  refine ⟨b, t, e, ?_⟩
  rcases hb with ⟨_, hb⟩ | ⟨_, hb⟩
  · have := numHead_facts b hb
    exact ⟨this.2.2.2.2.2.2.2.2.2.1, by simpa using this.2.2.2.2.2.2.1, this.2.2.2.2.2.2.2.2.2.2.1,
      this.2.2.2.2.2.2.2.2.2.2.2.1, this.2.2.2.2.2.2.2.2.2.2.2.2⟩
  · have := plainHead_facts b hb
    exact ⟨this.1, this.2.1, this.2.2.2.2.2.1, this.2.2.2.2.2.2.1, this.2.2.2.2.2.2.2⟩

theorem starts_of {b : UInt8} {t : Bytes} (h1 : Content.isWs b = false) (h2 : b ≠ 37) : starts (b :: t) = true := by
  simp [starts, h1, h2]

theorem atom_starts {a : Atom} (z : Bytes) (h : a.ok = true) : starts (a.render ++ z) = true := by
  obtain ⟨b, t, e, h1, h2, _⟩ := atom_head_simple h
  rw [e]; exact starts_of h1 h2

/-! ## the `n g R` look-ahead never fires inside arrays and dictionaries of atoms -/

theorem wsNonEmpty_some {z r : Bytes} (h : wsNonEmpty z = some r) : r = skipWs z ∧ (skipWs z).length ≠ z.length := by
  unfold wsNonEmpty at h
  simp only [beq_iff_eq] at h
  split at h
  · cases h
  · rename_i hne; injection h with h; exact ⟨h.symm, hne⟩

/-- the condition under which the number arm of `PDFObjP` returns the number it has just read -/
def NoRef (z : Bytes) : Prop :=
  ∀ r2 g r3 r4, wsNonEmpty z = some r2 → integerP r2 = .ok (g, r3) → wsNonEmpty r3 = some r4 →
    r4.head? ≠ some 82

theorem noRef_plain {s y : Bytes} (hs : sepOK s = true)
    (hy : ∃ b t, y = b :: t ∧ Content.isWs b = false ∧ b ≠ 37 ∧ Content.isDigit b = false ∧ b ≠ 45 ∧ b ≠ 43) :
    NoRef (s ++ y) := by
  obtain ⟨b, t, rfl, h1, h2, h3, h4, h5⟩ := hy
  intro r2 g r3 r4 hw hi _
  have := (wsNonEmpty_some hw).1
  rw [skipWs_sep_starts hs (starts_of h1 h2)] at this
  subst this
  rw [integerP_fail (by intro b' t' e; injection e with e1 _; subst e1; exact ⟨h3, h4, h5⟩)] at hi
  cases hi

theorem noRef_num {s sp s' y' : Bytes} (hs : sepOK s = true) (hsp : numOK sp = true)
    (hs' : sepNE s' = true) (hy' : tokStart y' = true) : NoRef (s ++ (sp ++ (s' ++ y'))) := by
  intro r2 g r3 r4 hw hi hw'
  obtain ⟨b, t, e, hb⟩ := num_head hsp
  have hf := numHead_facts b hb
  have hst : starts (sp ++ (s' ++ y')) = true := by
    rw [e]; exact starts_of hf.2.2.2.2.2.2.2.2.2.1 (by simpa using hf.2.2.2.2.2.2.1)
  have := (wsNonEmpty_some hw).1
  rw [skipWs_sep_starts hs hst] at this
  subst this
  rcases integerP_num_tail (s' ++ y') hsp (brk_sepNE y' hs') g r3 hi with h | h
  · subst h
    have h4 := (wsNonEmpty_some hw').1
    cases y' with
    | nil => simp [tokStart] at hy'
    | cons c u =>
      simp only [tokStart, Bool.and_eq_true, Bool.not_eq_true', bne_iff_ne, ne_eq] at hy'
      rw [skipWs_sep_starts (sepNE_ok hs') (starts_of hy'.1.1 hy'.1.2)] at h4
      subst h4
      simp [hy'.2]
  · exfalso
    cases r3 with
    | nil => simp at h
    | cons c u =>
      simp only [List.head?_cons, Option.some.injEq] at h
      subst h
      have := (wsNonEmpty_some hw').2
      rw [skipWs_starts (by simp [starts, Content.isWs])] at this
      exact this rfl

theorem integerP_no_panic (s : Bytes) (p : String) : integerP s ≠ .panic p := by
  unfold integerP
  cases hs : signP s with
  | mk m s1 =>
    simp only []
    split
    · intro h; cases h
    · split <;> (intro h; cases h)

/-- the number arm of `PDFObjP::parse_internal` on a well-formed spelling -/
theorem numOrRefP_num {sp : Bytes} (z : Bytes) (h : numOK sp = true) (hz : brk z = true) (hn : NoRef z) :
    ∃ o, isNumObj o = true ∧ numOrRefP (sp ++ z) = .ok (o, z) := by
  obtain ⟨v, hv⟩ := realP_num z h hz
  unfold numOrRefP
  simp only [hv]
  by_cases hri : realIsInteger v = true
  · simp only [hri, Bool.not_true, Bool.false_eq_true, if_false]
    cases hw : wsNonEmpty z with
    | none => exact ⟨_, rfl, rfl⟩
    | some r2 =>
      simp only []
      cases hi : integerP r2 with
      | err k => exact ⟨_, rfl, rfl⟩
      | panic p => exact absurd hi (integerP_no_panic _ _)
      | ok v2 =>
        obtain ⟨g, r3⟩ := v2
        simp only []
        cases hw' : wsNonEmpty r3 with
        | none => exact ⟨_, rfl, rfl⟩
        | some r4 =>
          have := hn r2 g r3 r4 hw hi hw'
          simp only []
          split
          · simp at this
          · simp at this
          · exact ⟨_, rfl, rfl⟩
  · simp only [hri, Bool.not_false, if_true]
    exact ⟨_, rfl, rfl⟩


/-! ## one object -/

theorem pdfObjP_num_dispatch (fuel budget : Nat) (b : UInt8) (t : Bytes) (hb : numHead b = true) :
    pdfObjP (fuel + 1) (budget + 1) (b :: t) = numOrRefP (b :: t) := by
  have hf := numHead_facts b hb
  have hs : skipWs (b :: t) = b :: t := skipWs_starts (starts_of hf.2.2.2.2.2.2.2.2.2.1 (by simpa using hf.2.2.2.2.2.2.1))
  unfold pdfObjP
  simp only [hs, hf.1, hf.2.1, hf.2.2.1, hf.2.2.2.1, hf.2.2.2.2.1, hf.2.2.2.2.2.1, hf.2.2.2.2.2.2.2.1,
    Bool.false_eq_true, if_false, if_true]

theorem csObjP_num_dispatch (d fuel : Nat) (b : UInt8) (t : Bytes) (hb : numHead b = true) :
    csObjP d fuel (b :: t) =
      (match realP (b :: t) with
       | .err k => .err k | .panic p => .panic p
       | .ok (v, r) => if !realIsInteger v then .ok (.val (.real v.1 v.2), r) else .ok (.val (.int v.1), r)) := by
  have hf := numHead_facts b hb
  have hs : skipWs (b :: t) = b :: t := skipWs_starts (starts_of hf.2.2.2.2.2.2.2.2.2.1 (by simpa using hf.2.2.2.2.2.2.1))
  unfold csObjP
  simp only [hs, hf.2.2.1, hf.2.2.2.1, hf.2.2.2.2.1, hf.2.2.2.2.2.1, hf.2.2.2.2.2.2.1, hf.2.2.2.2.2.2.2.2.1,
    Bool.false_eq_true, if_false, if_true]
  cases realP (b :: t) <;> rfl

/-- `parse_pdf_obj` (inside an array or dictionary) re-reads every well-formed atom that is followed
    by a separator, provided the `n g R` look-ahead does not fire -/
theorem pdfObjP_atom {a : Atom} (z : Bytes) (fuel budget : Nat) (h : a.ok = true) (hz : brk z = true)
    (hn : NoRef z) :
    ∃ o, AtomObj a o ∧ pdfObjP (fuel + 1) (budget + 1) (a.render ++ z) = .ok (o, z) := by
  cases a with
  | num sp =>
    obtain ⟨b, t, e, hb⟩ := num_head (sp := sp) h
    obtain ⟨o, ho, hp⟩ := numOrRefP_num z h hz hn
    refine ⟨o, ho, ?_⟩
    simp only [Atom.render]
    rw [e, List.cons_append, pdfObjP_num_dispatch fuel budget b _ hb, ← List.cons_append, ← e]
    exact hp
  | name b =>
    refine ⟨.name b, rfl, ?_⟩
    have := nameP_ok b z h hz
    simp only [Atom.render]
    unfold pdfObjP
    rw [skipWs_starts (by simp [starts, Content.isWs])]
    simp only [List.cons_append] at this ⊢
    simp [this]
  | lit c =>
    refine ⟨.str c, rfl, ?_⟩
    have := litStringP_ok c z h
    simp only [Atom.render]
    unfold pdfObjP
    rw [skipWs_starts (by simp [starts, Content.isWs])]
    simp only [List.cons_append, List.append_assoc, List.nil_append] at this ⊢
    simp [this]
  | hex sp =>
    refine ⟨_, rfl, ?_⟩
    have := hexStringP_ok sp z h
    have hh := hex_head z h
    simp only [Atom.render]
    unfold pdfObjP
    rw [skipWs_starts (by simp [starts, Content.isWs])]
    simp only [List.cons_append, List.append_assoc, List.nil_append] at this hh ⊢
    generalize sp ++ 62 :: z = T at this hh ⊢
    have hh' : (T.head? == some 60) = false := by simpa using hh
    simp [this, hh']
  | bool v =>
    refine ⟨.bool v, rfl, ?_⟩
    cases v
    · simp only [Atom.render]
      unfold pdfObjP
      rw [skipWs_starts (by simp [starts, Content.isWs])]
      simp [exact]
    · simp only [Atom.render]
      unfold pdfObjP
      rw [skipWs_starts (by simp [starts, Content.isWs])]
      simp [exact]
  | null =>
    refine ⟨.null, rfl, ?_⟩
    simp only [Atom.render]
    unfold pdfObjP
    rw [skipWs_starts (by simp [starts, Content.isWs])]
    simp [exact]

theorem kw_all : trueB.all (fun x => isRegular x && x != 35 && decide (x < 128)) = true ∧
    falseB.all (fun x => isRegular x && x != 35 && decide (x < 128)) = true ∧
    nullB.all (fun x => isRegular x && x != 35 && decide (x < 128)) = true := by decide +kernel

/-- `CSObjP` (top level of a content stream) re-reads every well-formed atom -/
theorem csObjP_atom {a : Atom} (z : Bytes) (d fuel : Nat) (h : a.ok = true) (hz : brk z = true) :
    ∃ o, AtomObj a o ∧ csObjP d fuel (a.render ++ z) = .ok (.val o, z) := by
  cases a with
  | num sp =>
    obtain ⟨b, t, e, hb⟩ := num_head (sp := sp) h
    obtain ⟨v, hv⟩ := realP_num z h hz
    simp only [Atom.render]
    rw [e, List.cons_append, csObjP_num_dispatch d fuel b _ hb, ← List.cons_append, ← e, hv]
    simp only []
    by_cases hri : realIsInteger v = true
    · exact ⟨.int v.1, by simp [AtomObj, isNumObj], by simp [hri]⟩
    · exact ⟨.real v.1 v.2, by simp [AtomObj, isNumObj], by simp [hri]⟩
  | name b =>
    refine ⟨.name b, rfl, ?_⟩
    have := nameP_ok b z h hz
    simp only [Atom.render]
    unfold csObjP
    rw [skipWs_starts (by simp [starts, Content.isWs])]
    simp only [List.cons_append] at this ⊢
    simp [this]
  | lit c =>
    refine ⟨.str c, rfl, ?_⟩
    have := litStringP_ok c z h
    simp only [Atom.render]
    unfold csObjP
    rw [skipWs_starts (by simp [starts, Content.isWs])]
    simp only [List.cons_append, List.append_assoc, List.nil_append] at this ⊢
    simp [this]
  | hex sp =>
    refine ⟨_, rfl, ?_⟩
    have := hexStringP_ok sp z h
    have hh := hex_head z h
    simp only [Atom.render]
    unfold csObjP
    rw [skipWs_starts (by simp [starts, Content.isWs])]
    simp only [List.cons_append, List.append_assoc, List.nil_append] at this hh ⊢
    generalize sp ++ 62 :: z = T at this hh ⊢
    have hh' : (T.head? == some 60) = false := by simpa using hh
    simp [this, hh']
  | bool v =>
    refine ⟨.bool v, rfl, ?_⟩
    cases v
    · have := operatorP_ok falseB z (by decide) kw_all.2.1 hz
      simp only [Atom.render]
      unfold csObjP
      rw [skipWs_starts (by simp [starts, Content.isWs])]
      simp only [falseB, List.cons_append, List.nil_append] at this ⊢
      simp [this, Content.isDigit]
    · have := operatorP_ok trueB z (by decide) kw_all.1 hz
      simp only [Atom.render]
      unfold csObjP
      rw [skipWs_starts (by simp [starts, Content.isWs])]
      simp only [trueB, List.cons_append, List.nil_append] at this ⊢
      simp [this, Content.isDigit]
  | null =>
    refine ⟨.null, rfl, ?_⟩
    have := operatorP_ok nullB z (by decide) kw_all.2.2 hz
    simp only [Atom.render]
    unfold csObjP
    rw [skipWs_starts (by simp [starts, Content.isWs])]
    simp only [nullB, List.cons_append, List.nil_append] at this ⊢
    simp [this, Content.isDigit]

theorem opHead_facts : ∀ b : UInt8, (isRegular b && !(Fig9.isDigit b || decide (b = 45) || decide (b = 46))) = true →
    (b == 40) = false ∧ (b == 37) = false ∧ (b == 47) = false ∧ (b == 91) = false ∧ (b == 60) = false ∧
    (Content.isDigit b || b == 45 || b == 46) = false ∧ Content.isWs b = false ∧ b ≠ 37 :=
  forall_u8 (by decide +kernel)

/-- `CSObjP` re-reads every well-formed operator token -/
theorem csObjP_op (op z : Bytes) (d fuel : Nat) (h : opOK op = true) (hz : brk z = true) :
    csObjP d fuel (op ++ z) = .ok (.op op, z) ∧ starts (op ++ z) = true ∧ 1 ≤ op.length := by
  simp only [opOK, Bool.and_eq_true, Bool.not_eq_true', bne_iff_ne, ne_eq] at h
  obtain ⟨⟨⟨⟨⟨hne, hall⟩, hhead⟩, h1⟩, h2⟩, h3⟩ := h
  cases op with
  | nil => simp at hne
  | cons b t =>
    have hreg : isRegular b = true := by
      have := List.all_eq_true.mp hall b (by simp)
      simp only [Bool.and_eq_true] at this; exact this.1.1
    have hf := opHead_facts b (by simp only [hreg, Bool.true_and]; simpa using hhead)
    have hop := operatorP_ok (b :: t) z (by simp) hall hz
    have hst : starts (b :: t ++ z) = true := starts_of hf.2.2.2.2.2.2.1 hf.2.2.2.2.2.2.2
    refine ⟨?_, hst, by simp⟩
    unfold csObjP
    rw [skipWs_starts hst]
    simp only [List.cons_append] at hop ⊢
    simp only [hf.1, hf.2.1, hf.2.2.1, hf.2.2.2.1, hf.2.2.2.2.1, hf.2.2.2.2.2.1, Bool.false_eq_true, if_false, hop]
    have e1 : ((b :: t) == [116, 114, 117, 101]) = false := by simpa [trueB] using h1
    have e2 : ((b :: t) == [102, 97, 108, 115, 101]) = false := by simpa [falseB] using h2
    have e3 : ((b :: t) == [110, 117, 108, 108]) = false := by simpa [nullB] using h3
    simp only [e1, e2, e3, Bool.false_eq_true, if_false]


/-! ## arrays and dictionaries of atoms (incl. sufficiency of the object parser's fuel) -/

theorem tokStart_of {b : UInt8} {t : Bytes} (h1 : Content.isWs b = false) (h2 : b ≠ 37) (h3 : b ≠ 82) :
    tokStart (b :: t) = true := by simp [tokStart, h1, h2, h3]

theorem els_tail {els : List (Atom × Bytes)} (z : Bytes) (h : ∀ e ∈ els, e.1.ok = true ∧ sepNE e.2 = true) :
    tokStart (renderEls els ++ 93 :: z) = true ∧ starts (renderEls els ++ 93 :: z) = true := by
  cases els with
  | nil => exact ⟨by simp [renderEls, tokStart, Content.isWs], by simp [renderEls, starts, Content.isWs]⟩
  | cons e t =>
    obtain ⟨a, s⟩ := e
    obtain ⟨b, u, e1, h1, h2, h3, _⟩ := atom_head_simple (h (a, s) (by simp)).1
    simp only [renderEls, e1, List.cons_append]
    exact ⟨tokStart_of h1 h2 h3, starts_of h1 h2⟩

theorem renderEls_length {els : List (Atom × Bytes)} (h : ∀ e ∈ els, e.1.ok = true ∧ sepNE e.2 = true) :
    els.length ≤ (renderEls els).length := by
  induction els with
  | nil => simp
  | cons e t ih =>
    obtain ⟨a, s⟩ := e
    have := ih (fun e he => h e (by simp [he]))
    have h1 := sepNE_length (h (a, s) (by simp)).2
    simp only at h1
    simp only [renderEls, List.length_append, List.length_cons]
    omega

/-- the look-ahead condition holds behind every element of an array of atoms -/
theorem noRef_els {s : Bytes} {els : List (Atom × Bytes)} (z : Bytes) (hs : sepOK s = true)
    (h : ∀ e ∈ els, e.1.ok = true ∧ sepNE e.2 = true) : NoRef (s ++ (renderEls els ++ 93 :: z)) := by
  cases els with
  | nil =>
    exact noRef_plain hs ⟨93, z, rfl, by decide, by decide, by decide, by decide, by decide⟩
  | cons e t =>
    obtain ⟨a, s'⟩ := e
    have ha := h (a, s') (by simp)
    have ht : ∀ e ∈ t, e.1.ok = true ∧ sepNE e.2 = true := fun e he => h e (by simp [he])
    simp only [renderEls, List.append_assoc]
    obtain ⟨b, u, e1, hb⟩ := atom_head ha.1
    rcases hb with ⟨⟨sp, rfl⟩, _⟩ | ⟨_, hb⟩
    · exact noRef_num hs ha.1 ha.2 (els_tail z ht).1
    · have hf := plainHead_facts b hb
      rw [e1]
      exact noRef_plain hs ⟨b, _, rfl, hf.1, hf.2.1, hf.2.2.1, hf.2.2.2.1, hf.2.2.2.2.1⟩

/-- the `while !end` loop of `ArrayP` re-reads an array of atoms; `els.length + 1` units of fuel suffice -/
theorem arrLoopP_els (d : Nat) (z : Bytes) : ∀ (els : List (Atom × Bytes)) (s0 : Bytes) (fuel : Nat),
    sepOK s0 = true → (∀ e ∈ els, e.1.ok = true ∧ sepNE e.2 = true) → els.length + 1 ≤ fuel →
    ∃ l, All2 (fun (e : Atom × Bytes) x => AtomObj e.1 x) els l ∧
      arrLoopP fuel (d + 1) (s0 ++ (renderEls els ++ 93 :: z)) = .ok (l, z) := by
  intro els
  induction els with
  | nil =>
    intro s0 fuel hs _ hf
    obtain ⟨f, rfl⟩ : ∃ f, fuel = f + 1 := ⟨fuel - 1, by omega⟩
    refine ⟨[], .nil, ?_⟩
    unfold arrLoopP
    simp only [renderEls, List.nil_append]
    rw [skipWs_sep_starts hs (by simp [starts, Content.isWs])]
    simp [exact]
  | cons e t ih =>
    intro s0 fuel hs h hf
    obtain ⟨a, s⟩ := e
    have ha := h (a, s) (by simp)
    have ht : ∀ e ∈ t, e.1.ok = true ∧ sepNE e.2 = true := fun e he => h e (by simp [he])
    simp only [List.length_cons] at hf
    obtain ⟨f, rfl⟩ : ∃ f, fuel = f + 1 + 1 := ⟨fuel - 2, by omega⟩
    have hbrk : brk (s ++ (renderEls t ++ 93 :: z)) = true := brk_sepNE _ ha.2
    obtain ⟨o, ho, hp⟩ := pdfObjP_atom (s ++ (renderEls t ++ 93 :: z)) f d ha.1 hbrk (noRef_els z (sepNE_ok ha.2) ht)
    obtain ⟨l, hl, hloop⟩ := ih s (f + 1) (sepNE_ok ha.2) ht (by omega)
    refine ⟨o :: l, .cons ho hl, ?_⟩
    obtain ⟨b, u, e1, h1, h2, _, h93, _⟩ := atom_head_simple ha.1
    unfold arrLoopP
    simp only [renderEls, List.append_assoc]
    rw [skipWs_sep_starts hs (atom_starts _ ha.1)]
    have hex : exact [93] (a.render ++ (s ++ (renderEls t ++ 93 :: z))) = none := by
      rw [e1]
      have : ((93 : UInt8) == b) = false := by simpa using fun h => h93 h.symm
      simp [exact, this]
    simp only [hex, hp, hloop]

theorem ents_tail (ents : List (Bytes × Bytes × Atom × Bytes)) (z : Bytes) :
    ∃ b t, renderEnts ents ++ 62 :: 62 :: z = b :: t ∧ (b = 47 ∨ b = 62) := by
  cases ents with
  | nil => exact ⟨62, 62 :: z, rfl, Or.inr rfl⟩
  | cons e t =>
    obtain ⟨k, s, v, u⟩ := e
    exact ⟨47, k ++ (s ++ (v.render ++ (u ++ renderEnts t))) ++ 62 :: 62 :: z, by simp [renderEnts], Or.inl rfl⟩

theorem renderEnts_length {ents : List (Bytes × Bytes × Atom × Bytes)} :
    ents.length ≤ (renderEnts ents).length := by
  induction ents with
  | nil => simp
  | cons e t ih =>
    obtain ⟨k, s, v, u⟩ := e
    simp only [renderEnts, List.length_append, List.length_cons]
    omega

/-- the `while !end` loop of `DictP` re-reads a dictionary of atoms with distinct keys -/
theorem dictLoopP_ents (d : Nat) (z : Bytes) : ∀ (ents : List (Bytes × Bytes × Atom × Bytes)) (s0 : Bytes)
    (fuel : Nat) (keys : List Bytes), sepOK s0 = true →
    (∀ e ∈ ents, nameOK e.1 = true ∧ sepNE e.2.1 = true ∧ e.2.2.1.ok = true ∧ sepNE e.2.2.2 = true) →
    keysDistinct (ents.map (·.1)) = true → (∀ k ∈ ents.map (·.1), k ∉ keys) → ents.length + 1 ≤ fuel →
    ∃ l, dictLoopP fuel (d + 1) keys (s0 ++ (renderEnts ents ++ 62 :: 62 :: z)) = .ok (l, z) := by
  intro ents
  induction ents with
  | nil =>
    intro s0 fuel keys hs _ _ _ hf
    obtain ⟨f, rfl⟩ : ∃ f, fuel = f + 1 := ⟨fuel - 1, by omega⟩
    refine ⟨[], ?_⟩
    unfold dictLoopP
    simp only [renderEnts, List.nil_append]
    rw [skipWs_sep_starts hs (by simp [starts, Content.isWs])]
    simp [exact]
  | cons e t ih =>
    intro s0 fuel keys hs h hd hk hf
    obtain ⟨k, s, v, u⟩ := e
    obtain ⟨hk1, hs1, hv, hu⟩ := h (k, s, v, u) (by simp)
    simp only at hk1 hs1 hv hu
    have ht : ∀ e ∈ t, nameOK e.1 = true ∧ sepNE e.2.1 = true ∧ e.2.2.1.ok = true ∧ sepNE e.2.2.2 = true :=
      fun e he => h e (by simp [he])
    simp only [List.map_cons, keysDistinct, Bool.and_eq_true, Bool.not_eq_true'] at hd
    simp only [List.length_cons] at hf
    obtain ⟨f, rfl⟩ : ∃ f, fuel = f + 1 + 1 := ⟨fuel - 2, by omega⟩
    -- the rest behind this entry
    obtain ⟨b, w, eR, hb⟩ := ents_tail t z
    have hRs : Content.isWs b = false ∧ b ≠ 37 ∧ Content.isDigit b = false ∧ b ≠ 45 ∧ b ≠ 43 := by
      rcases hb with rfl | rfl <;> decide
    have hbrk : brk (u ++ (renderEnts t ++ 62 :: 62 :: z)) = true := brk_sepNE _ hu
    have hnr : NoRef (u ++ (renderEnts t ++ 62 :: 62 :: z)) := by
      rw [eR]; exact noRef_plain (sepNE_ok hu) ⟨b, w, rfl, hRs.1, hRs.2.1, hRs.2.2.1, hRs.2.2.2.1, hRs.2.2.2.2⟩
    obtain ⟨o, _, hp⟩ := pdfObjP_atom (u ++ (renderEnts t ++ 62 :: 62 :: z)) f d hv hbrk hnr
    have hname := nameP_ok k (s ++ (v.render ++ (u ++ (renderEnts t ++ 62 :: 62 :: z)))) hk1 (brk_sepNE _ hs1)
    have hkk : keys.contains k = false := by
      have := hk k (by simp)
      simpa using this
    have hlater : ∀ k' ∈ t.map (·.1), k' ∉ k :: keys := by
      intro k' hk' hmem
      rcases List.mem_cons.mp hmem with h1 | h1
      · subst h1
        have := hd.1
        simp at this
        simp at hk'
        obtain ⟨a1, a2, a3, hm⟩ := hk'
        exact this _ _ _ hm
      · exact hk k' (by simp only [List.map_cons, List.mem_cons]; exact Or.inr hk') h1
    have hlater' : ∀ k' ∈ t.map (·.1), k' ∉ keys :=
      fun k' hk' => hk k' (by simp only [List.map_cons, List.mem_cons]; exact Or.inr hk')
    obtain ⟨l1, hl1⟩ := ih u (f + 1) keys (sepNE_ok hu) ht hd.2 hlater' (by omega)
    obtain ⟨l2, hl2⟩ := ih u (f + 1) (k :: keys) (sepNE_ok hu) ht hd.2 hlater (by omega)
    unfold dictLoopP
    simp only [renderEnts, List.append_assoc, List.cons_append]
    rw [skipWs_sep_starts hs (by simp [starts, Content.isWs])]
    simp only [List.cons_append] at hname
    have hex : exact [62, 62] (47 :: (k ++ (s ++ (v.render ++ (u ++ (renderEnts t ++ 62 :: 62 :: z)))))) = none := by
      simp [exact]
    simp only [hex, hname, hkk, Bool.false_eq_true, if_false]
    rw [skipWs_sep_starts (sepNE_ok hs1) (atom_starts _ hv)]
    simp only [hp]
    by_cases hnull : o.isNull = true
    · simp only [hnull, if_true]; exact ⟨l1, hl1⟩
    · simp only [hnull, Bool.false_eq_true, if_false, hl2]; exact ⟨_, rfl⟩


/-! ## operands, instructions, programs -/

theorem operand_starts {o : Operand} (z : Bytes) (h : o.ok = true) : starts (o.render ++ z) = true := by
  cases o with
  | atom a => exact atom_starts z h
  | arr s0 els => simp [Operand.render, starts, Content.isWs]
  | dict s0 ents => simp [Operand.render, starts, Content.isWs]

theorem operand_length {o : Operand} (h : o.ok = true) : 1 ≤ o.render.length := by
  cases o with
  | atom a =>
    obtain ⟨b, t, e, _⟩ := atom_head_simple (a := a) h
    simp [Operand.render, e]
  | arr s0 els => simp [Operand.render]
  | dict s0 ents => simp [Operand.render]

/-- `CSObjP` re-reads every well-formed operand (atom, array of atoms, dictionary of atoms);
    a fuel of the length of the input suffices for the nested object parser -/
theorem csObjP_operand {o : Operand} (z : Bytes) (d fuel : Nat) (h : o.ok = true) (hz : brk z = true)
    (hf : (o.render ++ z).length ≤ fuel) :
    ∃ obj, OperandObj o obj ∧ csObjP (d + 1) fuel (o.render ++ z) = .ok (.val obj, z) := by
  cases o with
  | atom a => exact csObjP_atom z (d + 1) fuel h hz
  | arr s0 els =>
    simp only [Operand.ok, Bool.and_eq_true, List.all_eq_true] at h
    have hall : ∀ e ∈ els, e.1.ok = true ∧ sepNE e.2 = true := h.2
    have hlen := renderEls_length hall
    simp only [Operand.render, List.cons_append, List.append_assoc, List.nil_append, List.length_cons,
      List.length_append] at hf
    obtain ⟨l, hl, hloop⟩ := arrLoopP_els d z els s0 fuel h.1 hall (by omega)
    refine ⟨.arr l, ⟨l, rfl, hl⟩, ?_⟩
    simp only [Operand.render, List.cons_append, List.append_assoc, List.nil_append]
    unfold csObjP
    rw [skipWs_starts (by simp [starts, Content.isWs])]
    simp [hloop]
  | dict s0 ents =>
    simp only [Operand.ok, Bool.and_eq_true, List.all_eq_true] at h
    have hall : ∀ e ∈ ents, nameOK e.1 = true ∧ sepNE e.2.1 = true ∧ e.2.2.1.ok = true ∧ sepNE e.2.2.2 = true := by
      intro e he
      have := h.1.2 e he
      exact ⟨this.1.1.1, this.1.1.2, this.1.2, this.2⟩
    have hlen := renderEnts_length (ents := ents)
    simp only [Operand.render, List.cons_append, List.append_assoc, List.nil_append, List.length_cons,
      List.length_append] at hf
    obtain ⟨l, hloop⟩ := dictLoopP_ents d z ents s0 fuel [] h.1.1 hall h.2 (by simp) (by omega)
    refine ⟨.dict l, ⟨l, rfl⟩, ?_⟩
    simp only [Operand.render, List.cons_append, List.append_assoc, List.nil_append]
    unfold csObjP
    rw [skipWs_starts (by simp [starts, Content.isWs])]
    simp [hloop]

theorem lexAll_congr {d : Nat} {x y : Bytes} {toks : List CSObj} (e : skipWs x = skipWs y)
    (h : LexAll d y toks) : LexAll d x toks := by
  cases h with
  | nil hy => exact .nil (by rw [e, hy])
  | cons hs ht =>
    refine .cons ?_ ht
    unfold LexStep at hs ⊢
    rw [e]; exact hs

theorem lexStep_of {d : Nat} {x r : Bytes} {t : CSObj} (hs : starts x = true) (hlen : r.length < x.length)
    (h : csObjP d (2 * x.length + 2) x = .ok (t, r)) : LexStep d x t r := by
  unfold LexStep
  rw [skipWs_starts hs]
  refine ⟨?_, hlen, h⟩
  intro e; rw [e] at hs; simp [starts] at hs

/-- the operands of one operator instance -/
theorem lexAll_args (d : Nat) (y : Bytes) (toks : List CSObj) (hy : LexAll (d + 1) y toks) :
    ∀ (args : List (Operand × Bytes)), (∀ a ∈ args, a.1.ok = true ∧ sepNE a.2 = true) →
    ∃ objs, All2 (fun (a : Operand × Bytes) o => OperandObj a.1 o) args objs ∧
      LexAll (d + 1) (renderArgs args ++ y) (objs.map CSObj.val ++ toks) := by
  intro args
  induction args with
  | nil => intro _; exact ⟨[], .nil, by simpa [renderArgs] using hy⟩
  | cons a t ih =>
    intro h
    obtain ⟨o, s⟩ := a
    have ha := h (o, s) (by simp)
    simp only at ha
    obtain ⟨objs, hobjs, hlex⟩ := ih (fun a' ha' => h a' (by simp [ha']))
    have hbrk : brk (s ++ (renderArgs t ++ y)) = true := brk_sepNE _ ha.2
    obtain ⟨obj, hobj, hcs⟩ := csObjP_operand (s ++ (renderArgs t ++ y)) d
      (2 * (o.render ++ (s ++ (renderArgs t ++ y))).length + 2) ha.1 hbrk (by omega)
    refine ⟨obj :: objs, .cons hobj hobjs, ?_⟩
    simp only [renderArgs, List.append_assoc, List.map_cons, List.cons_append]
    refine .cons (r := s ++ (renderArgs t ++ y)) (lexStep_of (operand_starts _ ha.1) ?_ hcs) ?_
    · have := operand_length ha.1
      simp only [List.length_append]; omega
    · exact lexAll_congr (skipWs_sep _ (sepNE_ok ha.2)) hlex

theorem instsOK_cons {i : Inst} {rest : List Inst} (h : instsOK (i :: rest) = true) :
    i.ok = true ∧ (i.after ≠ [] ∨ rest = []) ∧ instsOK rest = true := by
  cases rest with
  | nil => exact ⟨by simpa [instsOK] using h, Or.inr rfl, rfl⟩
  | cons j t =>
    simp only [instsOK, Bool.and_eq_true, Bool.not_eq_true'] at h
    refine ⟨h.1.1, Or.inl ?_, h.2⟩
    intro e; rw [e] at h; simp at h

/-- all operator instances of a well-formed stream -/
theorem lexAll_insts (d : Nat) : ∀ (insts : List Inst), instsOK insts = true →
    ∃ toks, InstsToks insts toks ∧ LexAll (d + 1) (renderInsts insts) toks := by
  intro insts
  induction insts with
  | nil => intro _; exact ⟨[], .nil, .nil rfl⟩
  | cons i rest ih =>
    intro h
    obtain ⟨hi, hafter, hrest⟩ := instsOK_cons h
    obtain ⟨toks, htoks, hlex⟩ := ih hrest
    simp only [Inst.ok, Bool.and_eq_true, List.all_eq_true] at hi
    obtain ⟨⟨hargs, hop⟩, hsep⟩ := hi
    have hbrk : brk (i.after ++ renderInsts rest) = true := by
      apply brk_sep_or hsep
      rcases hafter with h1 | h1
      · exact Or.inl h1
      · right; rw [h1]; rfl
    obtain ⟨hcs, hst, hl⟩ := csObjP_op i.op (i.after ++ renderInsts rest) (d + 1)
      (2 * (i.op ++ (i.after ++ renderInsts rest)).length + 2) hop hbrk
    have hopLex : LexAll (d + 1) (i.op ++ (i.after ++ renderInsts rest)) (CSObj.op i.op :: toks) := by
      refine .cons (r := i.after ++ renderInsts rest) (lexStep_of hst ?_ hcs) ?_
      · simp only [List.length_append]; omega
      · exact lexAll_congr (skipWs_sep _ hsep) hlex
    obtain ⟨objs, hobjs, hall⟩ := lexAll_args d _ _ hopLex i.args (fun a ha => by
      have := hargs a ha; simpa using this)
    refine ⟨objs.map CSObj.val ++ CSObj.op i.op :: toks, .cons hobjs htoks, ?_⟩
    simpa [renderInsts, Inst.render, List.append_assoc] using hall

/-- **the lexer round trip**: the tokenizer model splits the rendering of every well-formed syntax
    tree into exactly the tokens of the tree (for every depth limit ≥ 1) -/
theorem lexAll_prog (d : Nat) (p : Prog) (h : p.ok = true) :
    ∃ toks, InstsToks p.insts toks ∧ LexAll (d + 1) p.render toks := by
  simp only [Prog.ok, Bool.and_eq_true] at h
  obtain ⟨toks, h1, h2⟩ := lexAll_insts d p.insts h.2
  exact ⟨toks, h1, lexAll_congr (skipWs_sep _ h.1) h2⟩


end Parsley.ContentLex
