/-
  C12: the relation between a syntax tree (Spec/Fig9.lean) and the token sequence the
  implementation's tokenizer produces for it.  (Definitions only; they were part of
  Props/C12.lean and are shared by Lemmas/ContentLex.lean and Props/C12.lean.)
-/
import Parsley.Model.Content
import Parsley.Spec.Fig9
namespace Parsley.C12
open Parsley Parsley.Content Parsley.Fig9

/-- pointwise relation of two lists (core has no `Forall₂`) -/
inductive All2 {α β : Type} (R : α → β → Prop) : List α → List β → Prop where
  | nil : All2 R [] []
  | cons {a b l₁ l₂} : R a b → All2 R l₁ l₂ → All2 R (a :: l₁) (b :: l₂)

/-- what the tokenizer yields for an atom (the numeric value of a number is irrelevant to
    the extractor: only its being a number is used) -/
def AtomObj : Atom → Obj → Prop
  | .num _, o => isNumObj o = true
  | .name b, o => o = .name b
  | .lit c, o => o = .str c
  | .hex sp, o => o = .str (hexBytes (sp.filter (fun b => !Fig9.isWs b)))
  | .bool v, o => o = .bool v
  | .null, o => o = .null

def OperandObj : Operand → Obj → Prop
  | .atom a, o => AtomObj a o
  | .arr _ els, o => ∃ l, o = .arr l ∧ All2 (fun e x => AtomObj e.1 x) els l
  | .dict _ _, o => ∃ l, o = .dict l

/-- token sequence of a list of operator instances -/
inductive InstsToks : List Inst → List CSObj → Prop where
  | nil : InstsToks [] []
  | cons {i : Inst} {rest : List Inst} {objs : List Obj} {ts : List CSObj} :
      All2 (fun a o => OperandObj a.1 o) i.args objs → InstsToks rest ts →
      InstsToks (i :: rest) (objs.map CSObj.val ++ CSObj.op i.op :: ts)

end Parsley.C12
