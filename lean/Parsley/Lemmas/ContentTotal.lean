/-
  The content-stream text extractor of Model/Content.lean is TOTAL: for every nesting bound and every input,
  `Content.extract` ends in a value or an error - neither a Rust partial operation nor one of the model's three
  fuels (extractor loop `len+1`, nested object parser / array and dictionary loops `2*len+2`) is reachable.

  Method: every token parser either fails or leaves strictly less input (`…_len`) and never produces `panic`
  (`…_np`); the mutually recursive object parser is handled by induction on its fuel with the budget
  `2*|s|+1` (object) / `2*|s|+2` (array and dictionary loops): each call passes its callee at least one unit
  less for input that is at least one byte shorter, or two units less for the same input (`objFuel`).
  Core Lean only.  Used by Props/C01.lean (`pipeline_never_panics_partial`).
-/
import Parsley.Model.Content
namespace Parsley.ContentTotal
open Parsley Parsley.Content

/-! consumption and no-panic facts of the token parsers -/

theorem skipWsAux_len : ∀ (s : Bytes) (c : Bool), (skipWsAux c s).length ≤ s.length := by
  intro s
  induction s with
  | nil => intro c; cases c <;> simp [skipWsAux]
  | cons b t ih =>
    intro c
    cases c with
    | true =>
      simp only [skipWsAux]
      split <;> (have := ih false; have := ih true; simp only [List.length_cons]; omega)
    | false =>
      simp only [skipWsAux]
      split
      · have := ih false; simp only [List.length_cons]; omega
      · split
        · have := ih true; simp only [List.length_cons]; omega
        · simp

theorem skipWs_len (s : Bytes) : (skipWs s).length ≤ s.length := skipWsAux_len s false

theorem exact_len : ∀ (tag s r : Bytes), exact tag s = some r → r.length + tag.length = s.length := by
  intro tag
  induction tag with
  | nil => intro s r h; simp [exact] at h; subst h; simp
  | cons t ts ih =>
    intro s r h
    cases s with
    | nil => simp [exact] at h
    | cons b s =>
      simp only [exact] at h
      split at h
      · have := ih s r h; simp only [List.length_cons]; omega
      · cases h

theorem span_len (p : UInt8 → Bool) (l : Bytes) : (l.takeWhile p).length + (l.dropWhile p).length = l.length := by
  rw [← List.length_append, List.takeWhile_append_dropWhile]

theorem signP_len (s : Bytes) : (signP s).2.length ≤ s.length := by
  unfold signP
  split <;> simp

theorem integerP_np (s : Bytes) (p : String) : integerP s ≠ .panic p := by
  unfold integerP
  simp only []
  split
  · simp
  · split <;> simp

theorem integerP_len (s : Bytes) (v : Int) (r : Bytes) (h : integerP s = .ok (v, r)) : r.length < s.length := by
  unfold integerP at h
  simp only [] at h
  split at h
  · cases h
  · rename_i hne
    split at h
    · cases h
    · injection h with h
      injection h with _ h
      subst h
      have h1 := span_len isDigit (signP s).2
      have h2 := signP_len s
      have h3 : 0 < ((signP s).2.takeWhile isDigit).length := by
        cases hd : (signP s).2.takeWhile isDigit with
        | nil => simp [hd] at hne
        | cons a b => simp
      omega

theorem realP_np (s : Bytes) (p : String) : realP s ≠ .panic p := by
  unfold realP
  simp only []
  split
  · simp
  · split
    · simp
    · split
      · split <;> simp
      · simp

theorem realP_len (s : Bytes) (v : Int × Nat) (r : Bytes) (h : realP s = .ok (v, r)) : r.length < s.length := by
  unfold realP at h
  simp only [] at h
  split at h
  · cases h
  · rename_i hne
    have h1 := span_len isDigit (signP s).2
    have h2 := signP_len s
    split at h
    · cases h
    · split at h
      · rename_i r1 hr
        split at h
        · cases h
        · injection h with h
          injection h with _ h
          subst h
          have h4 := span_len isDigit r1
          rw [hr] at h1
          simp only [List.length_cons] at h1
          omega
      · rename_i hnd
        injection h with h
        injection h with _ h
        subst h
        have h3 : 0 < ((signP s).2.takeWhile isDigit).length := by
          cases hd : (signP s).2.takeWhile isDigit with
          | nil =>
            exfalso
            simp only [hd, List.isEmpty_nil, Bool.true_and, bne_iff_ne, ne_eq, Decidable.not_not] at hne
            cases hr : (signP s).2.dropWhile isDigit with
            | nil => simp [hr] at hne
            | cons a b =>
              simp only [hr, List.head?_cons, Option.some.injEq] at hne
              subst hne
              exact hnd b hr
          | cons a b => simp
        omega

theorem litLoop_np : ∀ (t : Bytes) (d : Nat) (esc : Bool) (p : String), litLoop d esc t ≠ .panic p := by
  intro t
  induction t with
  | nil => intro d esc p; simp [litLoop]
  | cons b t ih =>
    intro d esc p
    simp only [litLoop]
    split
    · split
      · simp
      · simp
      · rename_i q hq; exact absurd hq (ih _ _ _)
    · split
      · split
        · split
          · simp
          · simp
          · rename_i q hq; exact absurd hq (ih _ _ _)
        · split
          · simp
          · split
            · simp
            · simp
            · rename_i q hq; exact absurd hq (ih _ _ _)
      · split
        · split
          · simp
          · simp
          · rename_i q hq; exact absurd hq (ih _ _ _)
        · split
          · simp
          · simp
          · rename_i q hq; exact absurd hq (ih _ _ _)

theorem litLoop_len : ∀ (t : Bytes) (d : Nat) (esc : Bool) (v r : Bytes), litLoop d esc t = .ok (v, r) →
    r.length < t.length := by
  intro t
  induction t with
  | nil => intro d esc v r h; simp [litLoop] at h
  | cons b t ih =>
    intro d esc v r h
    have key : ∀ (d' : Nat) (e' : Bool), (match litLoop d' e' t with
        | .ok (v, r) => Res.ok (b :: v, r) | .err k => .err k | .panic p => .panic p) = .ok (v, r) →
        r.length < (b :: t).length := by
      intro d' e' h
      split at h
      · rename_i v' r' hq
        injection h with h
        injection h with _ h
        subst h
        have := ih _ _ _ _ hq
        simp only [List.length_cons]; omega
      · cases h
      · cases h
    simp only [litLoop] at h
    split at h
    · exact key _ _ h
    · split at h
      · split at h
        · exact key _ _ h
        · split at h
          · injection h with h
            injection h with _ h
            subst h; simp
          · exact key _ _ h
      · split at h
        · exact key _ _ h
        · exact key _ _ h

theorem litStringP_np (s : Bytes) (p : String) : litStringP s ≠ .panic p := by
  unfold litStringP
  split
  · exact litLoop_np _ _ _ _
  · simp

theorem litStringP_len (s v r : Bytes) (h : litStringP s = .ok (v, r)) : r.length < s.length := by
  unfold litStringP at h
  split at h
  · have := litLoop_len _ _ _ _ _ h
    simp only [List.length_cons]; omega
  · cases h

theorem hexStringP_np (s : Bytes) (p : String) : hexStringP s ≠ .panic p := by
  unfold hexStringP
  split
  · simp only []
    split <;> simp
  · simp

theorem hexStringP_len (s v r : Bytes) (h : hexStringP s = .ok (v, r)) : r.length < s.length := by
  unfold hexStringP at h
  split at h
  · rename_i t
    simp only [] at h
    split at h
    · rename_i r' hr
      injection h with h
      injection h with _ h
      subst h
      have := span_len (fun b => isHexDigit b || isWs b) t
      rw [hr] at this
      simp only [List.length_cons] at this ⊢
      omega
    · cases h
  · cases h

theorem normHex_np : ∀ (n : Nat) (l : Bytes), l.length ≤ n → ∀ p, normHex l ≠ .panic p := by
  intro n
  induction n with
  | zero => intro l h p; cases l with | nil => simp [normHex] | cons a t => simp at h
  | succ n ih =>
    intro l h p
    match l with
    | [] => simp [normHex]
    | [_] => simp [normHex]
    | [_, _] => simp [normHex]
    | a :: b :: c :: rest =>
      simp only [normHex]
      simp only [List.length_cons] at h
      split
      · split
        · simp
        · split
          · simp
          · simp
          · rename_i q hq; exact absurd hq (ih rest (by omega) _)
      · split
        · simp
        · simp
        · rename_i q hq; exact absurd hq (ih (b :: c :: rest) (by simp only [List.length_cons]; omega) _)

theorem nameP_np (s : Bytes) (p : String) : nameP s ≠ .panic p := by
  unfold nameP
  split
  · split
    · simp
    · simp
    · rename_i q hq; exact absurd hq (normHex_np _ _ (Nat.le_refl _) _)
  · simp

theorem nameP_len (s v r : Bytes) (h : nameP s = .ok (v, r)) : r.length < s.length := by
  unfold nameP at h
  split at h
  · rename_i t
    split at h
    · injection h with h
      injection h with _ h
      subst h
      have := span_len (fun b => !isDelim b) t
      simp only [List.length_cons]; omega
    · cases h
    · cases h
  · cases h

theorem operatorP_np (s : Bytes) (p : String) : operatorP s ≠ .panic p := by
  unfold operatorP
  simp only []
  split
  · simp
  · split
    · split <;> simp
    · simp
    · rename_i q hq; exact absurd hq (normHex_np _ _ (Nat.le_refl _) _)

theorem operatorP_len (s v r : Bytes) (h : operatorP s = .ok (v, r)) : r.length < s.length := by
  unfold operatorP at h
  simp only [] at h
  split at h
  · cases h
  · rename_i hne
    split at h
    · split at h
      · injection h with h
        injection h with _ h
        subst h
        have := span_len (fun b => !isDelim b) s
        have h3 : 0 < (s.takeWhile (fun b => !isDelim b)).length := by
          cases hd : s.takeWhile (fun b => !isDelim b) with
          | nil => simp [hd] at hne
          | cons a b => simp
        omega
      · cases h
    · cases h
    · cases h

theorem referenceP_np (s : Bytes) (p : String) : referenceP s ≠ .panic p := by
  unfold referenceP
  split
  · simp
  · rename_i q hq; exact absurd hq (integerP_np _ _)
  · split
    · simp
    · split
      · simp
      · rename_i q hq; exact absurd hq (integerP_np _ _)
      · split
        · simp
        · split <;> simp

theorem referenceP_len (s : Bytes) (o : Obj) (r : Bytes) (h : referenceP s = .ok (o, r)) : r.length < s.length := by
  unfold referenceP at h
  split at h
  · cases h
  · cases h
  · rename_i num r1 h1
    have l1 := integerP_len _ _ _ h1
    split at h
    · cases h
    · split at h
      · cases h
      · cases h
      · rename_i gen r3 h3
        have l3 := integerP_len _ _ _ h3
        have l2 := skipWs_len r1
        split at h
        · cases h
        · split at h
          · cases h
          · rename_i r5 h5
            injection h with h
            injection h with _ h
            subst h
            have l5 := exact_len _ _ _ h5
            have l4 := skipWs_len r3
            omega

theorem ite_ref_np (b : Bool) (s : Bytes) (x : Obj) (r1 : Bytes) (p : String) :
    (if b = true then referenceP s else Res.ok (x, r1)) ≠ .panic p := by
  cases b
  · simp
  · simpa using referenceP_np s p

theorem ite_ref_len (b : Bool) (s : Bytes) (x : Obj) (r1 : Bytes) (o : Obj) (r : Bytes) (l1 : r1.length < s.length)
    (h : (if b = true then referenceP s else Res.ok (x, r1)) = .ok (o, r)) : r.length < s.length := by
  cases b
  · simp only [Bool.false_eq_true, if_false] at h
    injection h with h
    injection h with _ h
    subst h; exact l1
  · simp only [if_true] at h
    exact referenceP_len _ _ _ h

theorem numOrRefP_np (s : Bytes) (p : String) : numOrRefP s ≠ .panic p := by
  unfold numOrRefP
  split
  · simp
  · rename_i q hq; exact absurd hq (realP_np _ _)
  · split
    · simp
    · simp only []
      split
      · simp
      · split
        · simp
        · rename_i q hq; exact absurd hq (integerP_np _ _)
        · split
          · simp
          · exact ite_ref_np _ _ _ _ _

theorem numOrRefP_len (s : Bytes) (o : Obj) (r : Bytes) (h : numOrRefP s = .ok (o, r)) : r.length < s.length := by
  unfold numOrRefP at h
  split at h
  · cases h
  · cases h
  · rename_i v r1 h1
    have l1 := realP_len _ _ _ h1
    have fin : ∀ (x : Obj), Res.ok (x, r1) = Res.ok (o, r) → r.length < s.length := by
      intro x hx
      injection hx with hx
      injection hx with _ hx
      subst hx; exact l1
    split at h
    · exact fin _ h
    · simp only [] at h
      split at h
      · exact fin _ h
      · split at h
        · exact fin _ h
        · cases h
        · split at h
          · exact fin _ h
          · exact ite_ref_len _ _ _ _ _ _ l1 h

/-! the nested object parser: its fuel suffices and every successful parse consumes input -/

/-- what is shown of a parser result on input `s`: not a panic, and a success leaves strictly less input -/
def Good {α : Type} (s : Bytes) (x : Res (α × Bytes)) : Prop :=
  (∀ p, x ≠ .panic p) ∧ (∀ v r, x = .ok (v, r) → r.length < s.length)

theorem good_err {α : Type} (s : Bytes) (k : ErrK) : Good (α := α) s (.err k) := by
  constructor <;> intros <;> simp_all

theorem good_ok {α : Type} (s : Bytes) (v : α) (r : Bytes) (h : r.length < s.length) : Good s (.ok (v, r)) := by
  constructor
  · intro p; simp
  · intro v' r' e
    injection e with e
    injection e with _ e
    subst e; exact h

/-- re-wrapping the value of a successful parse -/
theorem good_map {α β : Type} (s s' : Bytes) (f : α → β) (x : Res (α × Bytes)) (hx : Good s' x) (hl : s'.length ≤ s.length) :
    Good s (match x with
      | .ok (v, r) => Res.ok (f v, r) | .err k => .err k | .panic p => .panic p) := by
  cases x with
  | ok vr =>
    obtain ⟨v, r⟩ := vr
    have := hx.2 v r rfl
    exact good_ok _ _ _ (by omega)
  | err k => exact good_err _ _
  | panic p => exact absurd rfl (hx.1 p)

theorem exact_good_lt (tag s r : Bytes) (h : exact tag s = some r) (ht : tag ≠ []) : r.length < s.length := by
  have := exact_len _ _ _ h
  cases tag with
  | nil => exact absurd rfl ht
  | cons a b => simp only [List.length_cons] at this; omega

/-- close `Good s (match X with | .ok (v, r) => .ok (f v, r) | .err k => .err k | .panic p => .panic p)` from `h : Good s' X` -/
macro "wrap " h:term : tactic =>
  `(tactic| (split
             · rename_i v r hq
               exact good_ok _ _ _ (by have := ($h).2 v r hq; (try simp only [List.length_cons] at *); omega)
             · exact good_err _ _
             · rename_i q hq
               exact absurd hq (($h).1 q)))

theorem objFuel : ∀ (fuel : Nat),
    (∀ (budget : Nat) (s : Bytes), 2 * s.length + 1 ≤ fuel → Good s (pdfObjP fuel budget s)) ∧
    (∀ (budget : Nat) (s : Bytes), 2 * s.length + 2 ≤ fuel → Good s (arrLoopP fuel budget s)) ∧
    (∀ (budget : Nat) (keys : List Bytes) (s : Bytes), 2 * s.length + 2 ≤ fuel → Good s (dictLoopP fuel budget keys s)) := by
  intro fuel
  induction fuel with
  | zero =>
    refine ⟨?_, ?_, ?_⟩
    · intro b s h; omega
    · intro b s h; omega
    · intro b k s h; omega
  | succ fuel ih =>
    obtain ⟨ihO, ihA, ihD⟩ := ih
    refine ⟨?_, ?_, ?_⟩
    · intro budget s0 hf
      cases budget with
      | zero => simp only [pdfObjP]; exact good_err _ _
      | succ budget =>
        simp only [pdfObjP]
        have hsk := skipWs_len s0
        split
        · exact good_err _ _
        · rename_i b t hbt
          rw [hbt] at hsk
          simp only [List.length_cons] at hsk
          split
          · split
            · rename_i r hr
              exact good_ok _ _ _ (by have := exact_good_lt _ _ _ hr (by simp); simp only [List.length_cons] at this; omega)
            · split
              · rename_i r hr
                exact good_ok _ _ _ (by have := exact_good_lt _ _ _ hr (by simp); simp only [List.length_cons] at this; omega)
              · exact good_err _ _
          · split
            · split
              · rename_i r hr
                exact good_ok _ _ _ (by have := exact_good_lt _ _ _ hr (by simp); simp only [List.length_cons] at this; omega)
              · exact good_err _ _
            · split
              · have hX : Good (b :: t) (litStringP (b :: t)) := ⟨litStringP_np _, litStringP_len _⟩
                wrap hX
              · split
                · have hX : Good (b :: t) (nameP (b :: t)) := ⟨nameP_np _, nameP_len _⟩
                  wrap hX
                · split
                  · have hX := ihA budget t (by omega)
                    wrap hX
                  · split
                    · split
                      · have hd : (t.drop 1).length ≤ t.length := by simp
                        have hX := ihD budget [] (t.drop 1) (by omega)
                        wrap hX
                      · have hX : Good (b :: t) (hexStringP (b :: t)) := ⟨hexStringP_np _, hexStringP_len _⟩
                        wrap hX
                    · split
                      · have hn : Good (b :: t) (numOrRefP (b :: t)) := ⟨numOrRefP_np _, numOrRefP_len _⟩
                        refine ⟨hn.1, ?_⟩
                        intro v r e
                        have := hn.2 v r e
                        simp only [List.length_cons] at this; omega
                      · exact good_err _ _
    · intro budget s0 hf
      simp only [arrLoopP]
      have hsk := skipWs_len s0
      split
      · rename_i r hr
        exact good_ok _ _ _ (by have := exact_good_lt _ _ _ hr (by simp); omega)
      · have hO := ihO budget (skipWs s0) (by omega)
        split
        · exact good_err _ _
        · rename_i q hq; exact absurd hq (hO.1 q)
        · rename_i o r ho
          have hr := hO.2 o r ho
          have hA := ihA budget r (by omega)
          wrap hA
    · intro budget keys s0 hf
      simp only [dictLoopP]
      have hsk := skipWs_len s0
      split
      · rename_i r hr
        exact good_ok _ _ _ (by have := exact_good_lt _ _ _ hr (by simp); omega)
      · split
        · exact good_err _ _
        · rename_i q hq; exact absurd hq (nameP_np _ _)
        · rename_i key r1 hk
          have l1 := nameP_len _ _ _ hk
          split
          · exact good_err _ _
          · have hsk1 := skipWs_len r1
            have hO := ihO budget (skipWs r1) (by omega)
            split
            · exact good_err _ _
            · rename_i q hq; exact absurd hq (hO.1 q)
            · rename_i o r2 ho
              have l2 := hO.2 o r2 ho
              split
              · have hD := ihD budget keys r2 (by omega)
                exact ⟨hD.1, fun v r e => by have := hD.2 v r e; omega⟩
              · have hD := ihD budget (key :: keys) r2 (by omega)
                wrap hD

/-! the content-stream token parser and the extractor loop -/

theorem commentRest_len (t : Bytes) : (commentRest t).length ≤ t.length := by
  unfold commentRest
  have h := span_len (fun b => b != 10) t
  split
  · rename_i x r hr
    rw [hr] at h
    simp only [List.length_cons] at h; omega
  · simp

theorem csObjP_good (d fuel : Nat) (s0 : Bytes) (hf : 2 * s0.length + 2 ≤ fuel) : Good s0 (csObjP d fuel s0) := by
  unfold csObjP
  have hsk := skipWs_len s0
  split
  · exact good_err _ _
  · rename_i b t hbt
    rw [hbt] at hsk
    simp only [List.length_cons] at hsk
    simp only []
    split
    · have hX : Good (b :: t) (litStringP (b :: t)) := ⟨litStringP_np _, litStringP_len _⟩
      wrap hX
    · split
      · exact good_ok _ _ _ (by have := commentRest_len t; omega)
      · split
        · have hX : Good (b :: t) (nameP (b :: t)) := ⟨nameP_np _, nameP_len _⟩
          wrap hX
        · split
          · have hX := (objFuel fuel).2.1 d t (by omega)
            wrap hX
          · split
            · split
              · have hd : (t.drop 1).length ≤ t.length := by simp
                have hX := (objFuel fuel).2.2 d [] (t.drop 1) (by omega)
                wrap hX
              · have hX : Good (b :: t) (hexStringP (b :: t)) := ⟨hexStringP_np _, hexStringP_len _⟩
                wrap hX
            · split
              · split
                · exact good_err _ _
                · rename_i q hq; exact absurd hq (realP_np _ _)
                · rename_i v r hr
                  have := realP_len _ _ _ hr
                  simp only [List.length_cons] at this
                  split <;> exact good_ok _ _ _ (by omega)
              · split
                · exact good_err _ _
                · rename_i q hq; exact absurd hq (operatorP_np _ _)
                · rename_i n r hr
                  have := operatorP_len _ _ _ hr
                  simp only [List.length_cons] at this
                  split
                  · exact good_ok _ _ _ (by omega)
                  · split
                    · exact good_ok _ _ _ (by omega)
                    · split <;> exact good_ok _ _ _ (by omega)

theorem showArgs_np (name : Bytes) : ∀ (args : List Obj) (ts : List ArgType) (p : String), showArgs name args ts ≠ .panic p := by
  intro args
  induction args with
  | nil => intro ts p; simp [showArgs]
  | cons a rest ih =>
    intro ts p
    cases ts with
    | nil => simp [showArgs]
    | cons t ts =>
      unfold showArgs
      split
      · split
        · simp
        · simp
        · rename_i q hq; exact absurd hq (ih _ _)
      · split
        · exact ih _ _
        · simp
      · simp

theorem showArray_np : ∀ (l : List Obj) (p : String), showArray l ≠ .panic p := by
  intro l
  induction l with
  | nil => intro p; simp [showArray]
  | cons o rest ih =>
    intro p
    cases o <;> simp only [showArray]
    case str v =>
      split
      · simp
      · simp
      · rename_i q hq; exact absurd hq (ih _)
    all_goals
      split
      · exact ih _
      · simp

theorem handleOp_np (ty : OpType) (name : Bytes) (opArgs : List ArgType) (args : List Obj) (compat : Nat) (p : String) :
    handleOp ty name opArgs args compat ≠ .panic p := by
  unfold handleOp
  split
  · split
    · simp
    · split
      · simp
      · simp
      · rename_i q hq; exact absurd hq (showArgs_np _ _ _ _)
  · split
    · split
      · simp
      · split
        · simp
        · split
          · simp
          · simp
          · rename_i q hq; exact absurd hq (showArray_np _ _)
        · simp
    · split
      · simp
      · split
        · simp
        · split
          · simp
          · split <;> simp

theorem extractLoop_np (d : Nat) : ∀ (fuel : Nat) (st : PState) (compat : Nat) (args : List Obj) (s0 : Bytes) (p : String),
    s0.length + 1 ≤ fuel → extractLoop d fuel st compat args s0 ≠ .panic p := by
  intro fuel
  induction fuel with
  | zero => intro st compat args s0 p h; omega
  | succ fuel ih =>
    intro st compat args s0 p hf
    simp only [extractLoop]
    have hsk := skipWs_len s0
    split
    · simp
    · have hG := csObjP_good d (2 * (skipWs s0).length + 2) (skipWs s0) (Nat.le_refl _)
      split
      · simp
      · rename_i q hq; exact absurd hq (hG.1 q)
      · rename_i r hr
        exact ih _ _ _ _ _ (by have := hG.2 _ _ hr; omega)
      · rename_i o r hr
        exact ih _ _ _ _ _ (by have := hG.2 _ _ hr; omega)
      · rename_i name r hr
        have hl := hG.2 _ _ hr
        split
        · split
          · exact ih _ _ _ _ _ (by omega)
          · simp
        · split
          · simp
          · split
            · simp
            · rename_i q hq; exact absurd hq (handleOp_np _ _ _ _ _ _)
            · have hsk2 := skipWs_len r
              split
              · simp
              · split
                · simp
                · simp
                · rename_i q hq
                  exact absurd hq (ih _ _ _ _ _ (by omega))

/-- **the text extractor never panics**: neither a Rust partial operation nor one of the three fuels of the model
    (extractor loop, nested object parser, array/dictionary loops) is reachable, for every depth bound and input -/
theorem extract_never_panics (d : Nat) (s : Bytes) (p : String) : extract d s ≠ .panic p := by
  unfold extract
  exact extractLoop_np d _ _ _ _ _ _ (Nat.le_refl _)

end Parsley.ContentTotal
