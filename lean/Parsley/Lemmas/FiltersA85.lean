/-
  C06, ASCII85 round trip: `a85Decode` returns the payload of every conformant encoding.
-/
import Parsley.Model.Filters
import Parsley.Spec.Filters
namespace Parsley.C06
open Parsley Parsley.Filters Parsley.FiltersSpec

/-! ### digit bytes -/

/-- a base-85 digit byte `!`..`u` -/
def IsDig (b : UInt8) : Prop := 33 ≤ b.toNat ∧ b.toNat ≤ 117

theorem dig_ne_z {b : UInt8} (h : IsDig b) : (b == 0x7A) = false := by
  obtain ⟨h1, h2⟩ := h; simp [← UInt8.toNat_inj]; omega
theorem dig_ne_tilde {b : UInt8} (h : IsDig b) : (b == 0x7E) = false := by
  obtain ⟨h1, h2⟩ := h; simp [← UInt8.toNat_inj]; omega
theorem dig_range {b : UInt8} (h : IsDig b) : (b < 33 || b > 117) = false := by
  obtain ⟨h1, h2⟩ := h; simp [UInt8.lt_iff_toNat_lt]; omega
theorem dig_not_ws {b : UInt8} (h : IsDig b) : Filters.isWs b = false := by
  obtain ⟨h1, h2⟩ := h; simp [Filters.isWs, ← UInt8.toNat_inj]; omega
theorem dig_not_uniws {b : UInt8} (h : IsDig b) : isUniWs b = false := by
  obtain ⟨h1, h2⟩ := h; simp [isUniWs, ← UInt8.toNat_inj, UInt8.le_iff_toNat_le]; omega
theorem dig_not_asciiws {b : UInt8} (h : IsDig b) : isAsciiWs b = false := by
  obtain ⟨h1, h2⟩ := h; simp [isAsciiWs, ← UInt8.toNat_inj]; omega

theorem ofNat_dig (k : Nat) (h : k < 85) : IsDig (UInt8.ofNat (k + 33)) := by
  simp [IsDig, UInt8.toNat_ofNat']; omega
theorem ofNat_dig_val (k : Nat) (h : k < 85) : (UInt8.ofNat (k + 33)).toNat - 33 = k := by
  simp [UInt8.toNat_ofNat']; omega

theorem isWs_eq : Filters.isWs = FiltersSpec.isWs := rfl

/-! ### the digit loop -/

theorem loop_dig {d : UInt8} (hd : IsDig d) (t : Bytes) (s : A85St) :
    a85Loop (d :: t) s =
      match decodeDigit d s with
      | .ok s => a85Loop t s
      | .err k => .err k
      | .panic m => .panic m := by
  rw [a85Loop]; simp [dig_ne_z hd, dig_range hd]

theorem decodeDigit_lt4 (d : UInt8) (k ch : Nat) (res : Bytes) (hk : k < 4)
    (h : ch + (d.toNat - 33) * a85Table k < 2 ^ 32) :
    decodeDigit d ⟨k, ch, res⟩ = .ok ⟨k + 1, ch + (d.toNat - 33) * a85Table k, res⟩ := by
  have h1 : ¬ ((d.toNat - 33) * a85Table k ≥ 2 ^ 32) := by omega
  have h2 : ¬ (ch + (d.toNat - 33) * a85Table k ≥ 2 ^ 32) := by omega
  have h3 : (k == 4) = false := by simp; omega
  simp only [decodeDigit, h1, h2, h3, if_false]; rfl

theorem decodeDigit_4 (d : UInt8) (ch : Nat) (res : Bytes)
    (h : ch + (d.toNat - 33) < 2 ^ 32) :
    decodeDigit d ⟨4, ch, res⟩ =
      .ok ⟨0, 0, UInt8.ofNat ((ch + (d.toNat - 33)) % 256) :: UInt8.ofNat ((ch + (d.toNat - 33)) / 256 % 256)
        :: UInt8.ofNat ((ch + (d.toNat - 33)) / 65536 % 256) :: UInt8.ofNat ((ch + (d.toNat - 33)) / 16777216) :: res⟩ := by
  have h1 : ¬ ((d.toNat - 33) * 1 ≥ 2 ^ 32) := by omega
  have h2 : ¬ (ch + (d.toNat - 33) * 1 ≥ 2 ^ 32) := by omega
  simp only [decodeDigit, a85Table, h1, h2, if_false]; simp

/-- value of a digit byte -/
def dv (d : UInt8) : Nat := d.toNat - 33

/-- five digits from a group boundary: one 32-bit word, no overflow branch -/
theorem loop_group (x0 x1 x2 x3 x4 : UInt8) (t res : Bytes)
    (h0 : IsDig x0) (h1 : IsDig x1) (h2 : IsDig x2) (h3 : IsDig x3) (h4 : IsDig x4) (c : Nat)
    (hc : c = dv x0 * 52200625 + dv x1 * 614125 + dv x2 * 7225 + dv x3 * 85 + dv x4)
    (hlt : c < 2 ^ 32) :
    a85Loop (x0 :: x1 :: x2 :: x3 :: x4 :: t) ⟨0, 0, res⟩ =
      a85Loop t ⟨0, 0, UInt8.ofNat (c % 256) :: UInt8.ofNat (c / 256 % 256) :: UInt8.ofNat (c / 65536 % 256)
        :: UInt8.ofNat (c / 16777216) :: res⟩ := by
  simp only [dv] at hc
  rw [loop_dig h0, decodeDigit_lt4 _ _ _ _ (by omega) (by simp only [a85Table]; omega)]
  simp only
  rw [loop_dig h1, decodeDigit_lt4 _ _ _ _ (by omega) (by simp only [a85Table]; omega)]
  simp only
  rw [loop_dig h2, decodeDigit_lt4 _ _ _ _ (by omega) (by simp only [a85Table]; omega)]
  simp only
  rw [loop_dig h3, decodeDigit_lt4 _ _ _ _ (by omega) (by simp only [a85Table]; omega)]
  simp only
  rw [loop_dig h4, decodeDigit_4 _ _ _ (by simp only [a85Table]; omega)]
  simp only [a85Table]
  have : 0 + (x0.toNat - 33) * (85 * 85 * 85 * 85) + (x1.toNat - 33) * (85 * 85 * 85) + (x2.toNat - 33) * (85 * 85)
      + (x3.toNat - 33) * 85 + (x4.toNat - 33) = c := by omega
  rw [this]

end Parsley.C06
