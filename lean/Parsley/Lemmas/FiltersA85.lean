/-
  C06, ASCII85 round trip: `a85Decode` (staging loop of the repaired `ASCII85Decode::transform` +
  the model of `ascii85::decode`) returns the payload of every conformant encoding
  (`IsA85Encoding`, ISO 32000-1 7.4.3), and the generators' encoder `encodeA85` is conformant.
  Helpers live in `Parsley.C06.A85`; the results are `Parsley.C06.a85_roundtrip`, `a85_instance`,
  `encodeA85_conformant`, `a85_decode_encode`.  Core only: `omega`, `simp`, `decide`.
-/
import Parsley.Model.Filters
import Parsley.Spec.Filters
namespace Parsley.C06.A85
open Parsley Parsley.Filters Parsley.FiltersSpec

/-! ### digit bytes -/

/-- a base-85 digit byte `!`..`u` -/
def IsDig (b : UInt8) : Prop := 33 ≤ b.toNat ∧ b.toNat ≤ 117

theorem dig_ne_z {b : UInt8} (h : IsDig b) : (b == 0x7A) = false := by
  obtain ⟨h1, h2⟩ := h; simp [← UInt8.toNat_inj]; omega
theorem dig_ne_tilde {b : UInt8} (h : IsDig b) : (b == 0x7E) = false := by
  obtain ⟨h1, h2⟩ := h; simp [← UInt8.toNat_inj]; omega
theorem dig_range {b : UInt8} (h : IsDig b) : (b < 33 || b > 117) = false := by
  obtain ⟨h1, h2⟩ := h; simp [UInt8.lt_iff_toNat_lt]; omega
theorem dig_not_ws {b : UInt8} (h : IsDig b) : Filters.isWs b = false := by
  obtain ⟨h1, h2⟩ := h; simp [Filters.isWs, ← UInt8.toNat_inj]; omega
theorem dig_not_uniws {b : UInt8} (h : IsDig b) : isUniWs b = false := by
  obtain ⟨h1, h2⟩ := h; simp [isUniWs, ← UInt8.toNat_inj, UInt8.le_iff_toNat_le]; omega
theorem dig_not_asciiws {b : UInt8} (h : IsDig b) : isAsciiWs b = false := by
  obtain ⟨h1, h2⟩ := h; simp [isAsciiWs, ← UInt8.toNat_inj]; omega

theorem ofNat_dig (k : Nat) (h : k < 85) : IsDig (UInt8.ofNat (k + 33)) := by
  simp [IsDig, UInt8.toNat_ofNat']; omega
theorem ofNat_dig_val (k : Nat) (h : k < 85) : (UInt8.ofNat (k + 33)).toNat - 33 = k := by
  simp [UInt8.toNat_ofNat']; omega

theorem isWs_eq : Filters.isWs = FiltersSpec.isWs := rfl

/-! ### the digit loop -/

theorem loop_dig {d : UInt8} (hd : IsDig d) (t : Bytes) (s s' : A85St) (h : decodeDigit d s = .ok s') :
    a85Loop (d :: t) s = a85Loop t s' := by
  rw [a85Loop]; simp [dig_ne_z hd, dig_range hd, h]

theorem decodeDigit_lt4 (d : UInt8) (k ch : Nat) (res : Bytes) (hk : k < 4)
    (h : ch + (d.toNat - 33) * a85Table k < 2 ^ 32) :
    decodeDigit d ⟨k, ch, res⟩ = .ok ⟨k + 1, ch + (d.toNat - 33) * a85Table k, res⟩ := by
  have h1 : ¬ ((d.toNat - 33) * a85Table k ≥ 2 ^ 32) := by omega
  have h2 : ¬ (ch + (d.toNat - 33) * a85Table k ≥ 2 ^ 32) := by omega
  have h3 : (k == 4) = false := by simp; omega
  simp only [decodeDigit, h1, h2, h3, if_false]; rfl

theorem decodeDigit_4 (d : UInt8) (ch : Nat) (res : Bytes)
    (h : ch + (d.toNat - 33) < 2 ^ 32) :
    decodeDigit d ⟨4, ch, res⟩ =
      .ok ⟨0, 0, UInt8.ofNat ((ch + (d.toNat - 33)) % 256) :: UInt8.ofNat ((ch + (d.toNat - 33)) / 256 % 256)
        :: UInt8.ofNat ((ch + (d.toNat - 33)) / 65536 % 256) :: UInt8.ofNat ((ch + (d.toNat - 33)) / 16777216) :: res⟩ := by
  have h1 : ¬ ((d.toNat - 33) * 1 ≥ 2 ^ 32) := by omega
  have h2 : ¬ (ch + (d.toNat - 33) * 1 ≥ 2 ^ 32) := by omega
  simp only [decodeDigit, a85Table, h1, h2, if_false]; simp

/-- value of a digit byte -/
def dv (d : UInt8) : Nat := d.toNat - 33

/-- five digits from a group boundary: one 32-bit word, no overflow branch -/
theorem loop_group (x0 x1 x2 x3 x4 : UInt8) (t res : Bytes)
    (h0 : IsDig x0) (h1 : IsDig x1) (h2 : IsDig x2) (h3 : IsDig x3) (h4 : IsDig x4) (c : Nat)
    (hc : c = dv x0 * 52200625 + dv x1 * 614125 + dv x2 * 7225 + dv x3 * 85 + dv x4)
    (hlt : c < 2 ^ 32) :
    a85Loop (x0 :: x1 :: x2 :: x3 :: x4 :: t) ⟨0, 0, res⟩ =
      a85Loop t ⟨0, 0, UInt8.ofNat (c % 256) :: UInt8.ofNat (c / 256 % 256) :: UInt8.ofNat (c / 65536 % 256)
        :: UInt8.ofNat (c / 16777216) :: res⟩ := by
  simp only [dv] at hc
  rw [loop_dig h0 _ _ _ (decodeDigit_lt4 _ _ _ _ (by omega) (by simp only [a85Table] <;> omega))]
  rw [loop_dig h1 _ _ _ (decodeDigit_lt4 _ _ _ _ (by omega) (by simp only [a85Table] <;> omega))]
  rw [loop_dig h2 _ _ _ (decodeDigit_lt4 _ _ _ _ (by omega) (by simp only [a85Table] <;> omega))]
  rw [loop_dig h3 _ _ _ (decodeDigit_lt4 _ _ _ _ (by omega) (by simp only [a85Table] <;> omega))]
  rw [loop_dig h4 _ _ _ (decodeDigit_4 _ _ _ (by simp only [a85Table] <;> omega))]
  simp only [a85Table]
  have : 0 + (x0.toNat - 33) * (85 * 85 * 85 * 85) + (x1.toNat - 33) * (85 * 85 * 85) + (x2.toNat - 33) * (85 * 85)
      + (x3.toNat - 33) * 85 + (x4.toNat - 33) = c := by omega
  rw [this]

/-! ### the pad loop and the tail of `ascii85::decode` -/

theorem dv_u : (0x75 : UInt8).toNat - 33 = 84 := by decide

theorem pad_0 (f ch : Nat) (res : Bytes) (rm : Nat) :
    a85Pad f ⟨0, ch, res⟩ rm = .ok (⟨0, ch, res⟩, rm) := by
  cases f <;> simp [a85Pad]

theorem pad_lt4 (f k ch : Nat) (res : Bytes) (rm : Nat) (hk0 : 0 < k) (hk : k < 4)
    (h : ch + 84 * a85Table k < 2 ^ 32) :
    a85Pad (f + 1) ⟨k, ch, res⟩ rm = a85Pad f ⟨k + 1, ch + 84 * a85Table k, res⟩ (rm + 1) := by
  have hk' : (k == 0) = false := by simp; omega
  rw [a85Pad, decodeDigit_lt4 _ _ _ _ hk (by rw [dv_u]; exact h)]
  simp [hk']

theorem pad_4 (f ch : Nat) (res : Bytes) (rm : Nat) (h : ch + 84 < 2 ^ 32) :
    a85Pad (f + 1) ⟨4, ch, res⟩ rm =
      a85Pad f ⟨0, 0, UInt8.ofNat ((ch + 84) % 256) :: UInt8.ofNat ((ch + 84) / 256 % 256)
        :: UInt8.ofNat ((ch + 84) / 65536 % 256) :: UInt8.ofNat ((ch + 84) / 16777216) :: res⟩ (rm + 1) := by
  rw [a85Pad, decodeDigit_4 _ _ _ (by rw [dv_u]; exact h)]
  simp

/-- what `a85Crate` does once the trimming is over -/
def run (s : Bytes) (st : A85St) : Res Bytes :=
  match a85Loop s st with
  | .err k => .err k
  | .panic m => .panic m
  | .ok st =>
    match a85Pad 5 st 0 with
    | .err k => .err k
    | .panic m => .panic m
    | .ok (st, rm) =>
      if st.result.length < rm then .panic "ascii85: drain range"
      else .ok (st.result.drop rm).reverse

theorem run_nil (res : Bytes) : run [] ⟨0, 0, res⟩ = .ok res.reverse := by
  simp [run, a85Loop, pad_0]

theorem run_group (x0 x1 x2 x3 x4 : UInt8) (t res : Bytes)
    (h0 : IsDig x0) (h1 : IsDig x1) (h2 : IsDig x2) (h3 : IsDig x3) (h4 : IsDig x4) (c : Nat)
    (hc : c = dv x0 * 52200625 + dv x1 * 614125 + dv x2 * 7225 + dv x3 * 85 + dv x4)
    (hlt : c < 2 ^ 32) :
    run (x0 :: x1 :: x2 :: x3 :: x4 :: t) ⟨0, 0, res⟩ =
      run t ⟨0, 0, UInt8.ofNat (c % 256) :: UInt8.ofNat (c / 256 % 256) :: UInt8.ofNat (c / 65536 % 256)
        :: UInt8.ofNat (c / 16777216) :: res⟩ := by
  simp only [run]; rw [loop_group x0 x1 x2 x3 x4 t res h0 h1 h2 h3 h4 c hc hlt]

theorem loop_step {d : UInt8} (hd : IsDig d) (t : Bytes) (k ch : Nat) (res : Bytes) (k' ch' : Nat)
    (hk : k < 4) (hk' : k' = k + 1) (hch : ch' = ch + dv d * a85Table k) (hlt : ch' < 2 ^ 32) :
    a85Loop (d :: t) ⟨k, ch, res⟩ = a85Loop t ⟨k', ch', res⟩ := by
  subst hk' hch
  exact loop_dig hd _ _ _ (decodeDigit_lt4 _ _ _ _ hk hlt)

theorem loop_nil (s : A85St) : a85Loop [] s = .ok s := by rw [a85Loop]

theorem pad_step (f f' k ch : Nat) (res : Bytes) (rm k' ch' rm' : Nat) (hf : f' = f + 1) (hk0 : 0 < k) (hk : k < 4)
    (hk' : k' = k + 1) (hch : ch' = ch + 84 * a85Table k) (hrm : rm' = rm + 1) (hlt : ch' < 2 ^ 32) :
    a85Pad f' ⟨k, ch, res⟩ rm = a85Pad f ⟨k', ch', res⟩ rm' := by
  subst hf hk' hch hrm
  exact pad_lt4 _ _ _ _ _ hk0 hk hlt

theorem pad_last (f f' ch : Nat) (res : Bytes) (rm c rm' : Nat) (hf : f' = f + 1) (hc : c = ch + 84)
    (hrm : rm' = rm + 1) (hlt : c < 2 ^ 32) :
    a85Pad f' ⟨4, ch, res⟩ rm =
      .ok (⟨0, 0, UInt8.ofNat (c % 256) :: UInt8.ofNat (c / 256 % 256)
        :: UInt8.ofNat (c / 65536 % 256) :: UInt8.ofNat (c / 16777216) :: res⟩, rm') := by
  subst hf hc hrm
  rw [pad_4 _ _ _ _ hlt, pad_0]

theorem run_of (s : Bytes) (st st' st'' : A85St) (rm : Nat) (h1 : a85Loop s st = .ok st')
    (h2 : a85Pad 5 st' 0 = .ok (st'', rm)) (h3 : ¬ st''.result.length < rm) :
    run s st = .ok (st''.result.drop rm).reverse := by
  simp [run, h1, h2, h3]

theorem run_part1 (x0 x1 : UInt8) (res : Bytes) (h0 : IsDig x0) (h1 : IsDig x1) (c : Nat)
    (hc : c = dv x0 * 52200625 + dv x1 * 614125 + 84 * 7225 + 84 * 85 + 84) (hlt : c < 2 ^ 32) :
    run [x0, x1] ⟨0, 0, res⟩ = .ok (res.reverse ++ [UInt8.ofNat (c / 16777216)]) := by
  have e : a85Loop [x0, x1] ⟨0, 0, res⟩ = .ok ⟨2, dv x0 * 52200625 + dv x1 * 614125, res⟩ := by
    rw [loop_step h0 _ 0 0 res 1 (dv x0 * 52200625) (by omega) (by omega) (by simp only [a85Table] <;> omega) (by omega),
      loop_step h1 _ 1 _ res 2 (dv x0 * 52200625 + dv x1 * 614125) (by omega) (by omega)
        (by simp only [a85Table] <;> omega) (by omega), loop_nil]
  have p : a85Pad 5 ⟨2, dv x0 * 52200625 + dv x1 * 614125, res⟩ 0 =
      .ok (⟨0, 0, UInt8.ofNat (c % 256) :: UInt8.ofNat (c / 256 % 256)
        :: UInt8.ofNat (c / 65536 % 256) :: UInt8.ofNat (c / 16777216) :: res⟩, 3) := by
    rw [pad_step 4 5 2 _ res 0 3 (dv x0 * 52200625 + dv x1 * 614125 + 84 * 7225) 1 (by omega) (by omega) (by omega)
        (by omega) (by simp only [a85Table]) (by omega) (by omega),
      pad_step 3 4 3 _ res 1 4 (dv x0 * 52200625 + dv x1 * 614125 + 84 * 7225 + 84 * 85) 2 (by omega) (by omega)
        (by omega) (by omega) (by simp only [a85Table]) (by omega) (by omega),
      pad_last 2 3 _ res 2 c 3 (by omega) (by omega) (by omega) hlt]
  rw [run_of _ _ _ _ _ e p (by simp)]
  simp

theorem run_part2 (x0 x1 x2 : UInt8) (res : Bytes) (h0 : IsDig x0) (h1 : IsDig x1) (h2 : IsDig x2) (c : Nat)
    (hc : c = dv x0 * 52200625 + dv x1 * 614125 + dv x2 * 7225 + 84 * 85 + 84) (hlt : c < 2 ^ 32) :
    run [x0, x1, x2] ⟨0, 0, res⟩ =
      .ok (res.reverse ++ [UInt8.ofNat (c / 16777216), UInt8.ofNat (c / 65536 % 256)]) := by
  have e : a85Loop [x0, x1, x2] ⟨0, 0, res⟩ =
      .ok ⟨3, dv x0 * 52200625 + dv x1 * 614125 + dv x2 * 7225, res⟩ := by
    rw [loop_step h0 _ 0 0 res 1 (dv x0 * 52200625) (by omega) (by omega) (by simp only [a85Table] <;> omega) (by omega),
      loop_step h1 _ 1 _ res 2 (dv x0 * 52200625 + dv x1 * 614125) (by omega) (by omega)
        (by simp only [a85Table] <;> omega) (by omega),
      loop_step h2 _ 2 _ res 3 (dv x0 * 52200625 + dv x1 * 614125 + dv x2 * 7225) (by omega) (by omega)
        (by simp only [a85Table] <;> omega) (by omega), loop_nil]
  have p : a85Pad 5 ⟨3, dv x0 * 52200625 + dv x1 * 614125 + dv x2 * 7225, res⟩ 0 =
      .ok (⟨0, 0, UInt8.ofNat (c % 256) :: UInt8.ofNat (c / 256 % 256)
        :: UInt8.ofNat (c / 65536 % 256) :: UInt8.ofNat (c / 16777216) :: res⟩, 2) := by
    rw [pad_step 4 5 3 _ res 0 4 (dv x0 * 52200625 + dv x1 * 614125 + dv x2 * 7225 + 84 * 85) 1 (by omega) (by omega)
        (by omega) (by omega) (by simp only [a85Table]) (by omega) (by omega),
      pad_last 3 4 _ res 1 c 2 (by omega) (by omega) (by omega) hlt]
  rw [run_of _ _ _ _ _ e p (by simp)]
  simp

theorem run_part3 (x0 x1 x2 x3 : UInt8) (res : Bytes) (h0 : IsDig x0) (h1 : IsDig x1) (h2 : IsDig x2)
    (h3 : IsDig x3) (c : Nat)
    (hc : c = dv x0 * 52200625 + dv x1 * 614125 + dv x2 * 7225 + dv x3 * 85 + 84) (hlt : c < 2 ^ 32) :
    run [x0, x1, x2, x3] ⟨0, 0, res⟩ =
      .ok (res.reverse ++ [UInt8.ofNat (c / 16777216), UInt8.ofNat (c / 65536 % 256), UInt8.ofNat (c / 256 % 256)]) := by
  have e : a85Loop [x0, x1, x2, x3] ⟨0, 0, res⟩ =
      .ok ⟨4, dv x0 * 52200625 + dv x1 * 614125 + dv x2 * 7225 + dv x3 * 85, res⟩ := by
    rw [loop_step h0 _ 0 0 res 1 (dv x0 * 52200625) (by omega) (by omega) (by simp only [a85Table] <;> omega) (by omega),
      loop_step h1 _ 1 _ res 2 (dv x0 * 52200625 + dv x1 * 614125) (by omega) (by omega)
        (by simp only [a85Table] <;> omega) (by omega),
      loop_step h2 _ 2 _ res 3 (dv x0 * 52200625 + dv x1 * 614125 + dv x2 * 7225) (by omega) (by omega)
        (by simp only [a85Table] <;> omega) (by omega),
      loop_step h3 _ 3 _ res 4 (dv x0 * 52200625 + dv x1 * 614125 + dv x2 * 7225 + dv x3 * 85) (by omega) (by omega)
        (by simp only [a85Table]) (by omega), loop_nil]
  have p : a85Pad 5 ⟨4, dv x0 * 52200625 + dv x1 * 614125 + dv x2 * 7225 + dv x3 * 85, res⟩ 0 =
      .ok (⟨0, 0, UInt8.ofNat (c % 256) :: UInt8.ofNat (c / 256 % 256)
        :: UInt8.ofNat (c / 65536 % 256) :: UInt8.ofNat (c / 16777216) :: res⟩, 1) := by
    rw [pad_last 4 5 _ res 0 c 1 (by omega) (by omega) (by omega) hlt]
  rw [run_of _ _ _ _ _ e p (by simp)]
  simp

/-! ### base-85 arithmetic -/

theorem dd (N : Nat) : N / 614125 / 85 = N / 52200625 ∧ N / 7225 / 85 = N / 614125 ∧ N / 85 / 85 = N / 7225 := by
  simp [Nat.div_div_eq_div_mul]
theorem top1 (N : Nat) (h : N < 2^32) : N/52200625%85 = N / 52200625 := by omega
theorem top2 (N : Nat) (h : N < 2^32) : N/52200625%85*52200625 + N/614125%85*614125 + N % 614125 = N := by
  have h1 := top1 N h
  have h2 : N / 614125 % 85 + 85 * (N/52200625) = N / 614125 := by have := dd N; omega
  have h3 : 614125 * (N / 614125) + N % 614125 = N := Nat.div_add_mod N 614125
  rw [h1]
  have core : ∀ q4 d3 q3 r N : Nat, d3 + 85 * q4 = q3 → 614125 * q3 + r = N → q4 * 52200625 + d3 * 614125 + r = N := by
    intros; omega
  exact core _ _ _ _ _ h2 h3
theorem top3 (N : Nat) (h : N < 2^32) : N/52200625%85*52200625 + N/614125%85*614125 + N/7225%85*7225 + N % 7225 = N := by
  have h1 := top2 N h
  have h2 : N / 7225 % 85 + 85 * (N/614125) = N / 7225 := by have := dd N; omega
  have h3 : 614125 * (N / 614125) + N % 614125 = N := Nat.div_add_mod N 614125
  have h4 : 7225 * (N / 7225) + N % 7225 = N := Nat.div_add_mod N 7225
  have core : ∀ S d2 q2 q3 r r2 N : Nat, S + r = N → d2 + 85 * q3 = q2 → 614125 * q3 + r = N → 7225 * q2 + r2 = N →
      S + d2 * 7225 + r2 = N := by intros; omega
  exact core _ _ _ _ _ _ _ h1 h2 h3 h4
theorem top4 (N : Nat) (h : N < 2^32) : N/52200625%85*52200625 + N/614125%85*614125 + N/7225%85*7225 + N/85%85*85 + N % 85 = N := by
  have h1 := top3 N h
  have h2 : N / 85 % 85 + 85 * (N/7225) = N / 85 := by have := dd N; omega
  have h3 : 7225 * (N / 7225) + N % 7225 = N := Nat.div_add_mod N 7225
  have h4 : 85 * (N / 85) + N % 85 = N := Nat.div_add_mod N 85
  have core : ∀ S d2 q2 q3 r r2 N : Nat, S + r = N → d2 + 85 * q3 = q2 → 7225 * q3 + r = N → 85 * q2 + r2 = N →
      S + d2 * 85 + r2 = N := by intros; omega
  exact core _ _ _ _ _ _ _ h1 h2 h3 h4
theorem p1 (a : UInt8) (N c : Nat) (hN : N = a.toNat * 16777216) (hc : c = N/52200625%85*52200625 + N/614125%85*614125 + 84*7225+84*85+84) : c < 2^32 ∧ c / 16777216 = a.toNat := by
  have ha := a.toNat_lt; have h2 := top2 N (by omega)
  have hr : N % 614125 < 614125 := Nat.mod_lt _ (by omega)
  have core : ∀ S r N c a : Nat, a < 2^8 → S + r = N → r < 614125 → N = a * 16777216 → c = S + 84*7225+84*85+84 →
    c < 2^32 ∧ c / 16777216 = a := by intros; omega
  exact core _ _ _ _ _ ha h2 hr hN hc
theorem p2 (a b : UInt8) (N c : Nat) (hN : N = (a.toNat * 256 + b.toNat) * 65536) (hc : c = N/52200625%85*52200625 + N/614125%85*614125 + N/7225%85*7225+84*85+84) : c < 2^32 ∧ c / 16777216 = a.toNat ∧ c / 65536 % 256 = b.toNat := by
  have ha := a.toNat_lt; have hb := b.toNat_lt; have h2 := top3 N (by omega)
  have hr : N % 7225 < 7225 := Nat.mod_lt _ (by omega)
  have core : ∀ S r N c a b : Nat, a < 2^8 → b < 2^8 → S + r = N → r < 7225 → N = (a * 256 + b) * 65536 → c = S +84*85+84 →
    c < 2^32 ∧ c / 16777216 = a ∧ c / 65536 % 256 = b := by intros; omega
  exact core _ _ _ _ _ _ ha hb h2 hr hN hc
theorem p3 (a b d : UInt8) (N c : Nat) (hN : N = ((a.toNat * 256 + b.toNat) * 256 + d.toNat) * 256) (hc : c = N/52200625%85*52200625 + N/614125%85*614125 + N/7225%85*7225+N/85%85*85+84) : c < 2^32 ∧ c / 16777216 = a.toNat ∧ c / 65536 % 256 = b.toNat ∧ c / 256 % 256 = d.toNat := by
  have ha := a.toNat_lt; have hb := b.toNat_lt; have hd := d.toNat_lt; have h2 := top4 N (by omega)
  have hr : N % 85 < 85 := Nat.mod_lt _ (by omega)
  have core : ∀ S r N c a b d : Nat, a < 2^8 → b < 2^8 → d < 2^8 → S + r = N → r < 85 → N = ((a * 256 + b) * 256 + d) * 256 → c = S +84 →
    c < 2^32 ∧ c / 16777216 = a ∧ c / 65536 % 256 = b ∧ c / 256 % 256 = d := by intros; omega
  exact core _ _ _ _ _ _ _ ha hb hd h2 hr hN hc
theorem p4 (a b c d : UInt8) (N : Nat) (hN : N = ((a.toNat * 256 + b.toNat) * 256 + c.toNat) * 256 + d.toNat) :
   N < 2^32 ∧ N / 16777216 = a.toNat ∧ N / 65536 % 256 = b.toNat ∧ N / 256 % 256 = c.toNat ∧ N % 256 = d.toNat := by
  have := a.toNat_lt; have := b.toNat_lt; have := c.toNat_lt; have := d.toNat_lt; omega

/-! ### the digits of the specification -/

def dg (q : Nat) : UInt8 := UInt8.ofNat (q % 85 + 33)
theorem dg_dig (q : Nat) : IsDig (dg q) := ofNat_dig _ (Nat.mod_lt _ (by omega))
theorem dv_dg (q : Nat) : dv (dg q) = q % 85 := ofNat_dig_val _ (Nat.mod_lt _ (by omega))
theorem digits5_eq (n : Nat) :
    digits5 n = [dg (n / 52200625), dg (n / 614125), dg (n / 7225), dg (n / 85), dg n] := rfl

theorem ofNat_eq {k : Nat} {a : UInt8} (h : k = a.toNat) : UInt8.ofNat k = a := by
  rw [h, UInt8.ofNat_toNat]

theorem zero_toNat : (0 : UInt8).toNat = 0 := by decide

theorem run_full (a b c d : UInt8) (t res : Bytes) :
    run (digits5 (be32 a b c d) ++ t) ⟨0, 0, res⟩ = run t ⟨0, 0, d :: c :: b :: a :: res⟩ := by
  have h4 := p4 a b c d (be32 a b c d) rfl
  rw [digits5_eq]
  simp only [List.cons_append, List.nil_append]
  rw [run_group _ _ _ _ _ t res (dg_dig _) (dg_dig _) (dg_dig _) (dg_dig _) (dg_dig _) (be32 a b c d)
    (by simp only [dv_dg]; exact (top4 _ h4.1).symm) h4.1]
  rw [ofNat_eq h4.2.1, ofNat_eq h4.2.2.1, ofNat_eq h4.2.2.2.1, ofNat_eq h4.2.2.2.2]

theorem run_z (t res : Bytes) :
    run (0x21 :: 0x21 :: 0x21 :: 0x21 :: 0x21 :: t) ⟨0, 0, res⟩ = run t ⟨0, 0, 0 :: 0 :: 0 :: 0 :: res⟩ := by
  have h := run_full 0 0 0 0 t res
  have e : digits5 (be32 0 0 0 0) = [0x21, 0x21, 0x21, 0x21, 0x21] := by decide
  rw [e] at h; exact h

theorem run_p1 (a : UInt8) (res : Bytes) :
    run ((digits5 (be32 a 0 0 0)).take 2) ⟨0, 0, res⟩ = .ok (res.reverse ++ [a]) := by
  have hN : be32 a 0 0 0 = a.toNat * 16777216 := by simp only [be32, zero_toNat]; omega
  have e : (digits5 (be32 a 0 0 0)).take 2 = [dg (be32 a 0 0 0 / 52200625), dg (be32 a 0 0 0 / 614125)] := rfl
  have h := p1 a (be32 a 0 0 0) _ hN rfl
  rw [e, run_part1 _ _ res (dg_dig _) (dg_dig _) _ (by simp only [dv_dg]) h.1, ofNat_eq h.2]

theorem run_p2 (a b : UInt8) (res : Bytes) :
    run ((digits5 (be32 a b 0 0)).take 3) ⟨0, 0, res⟩ = .ok (res.reverse ++ [a, b]) := by
  have hN : be32 a b 0 0 = (a.toNat * 256 + b.toNat) * 65536 := by simp only [be32, zero_toNat]; omega
  have e : (digits5 (be32 a b 0 0)).take 3 =
    [dg (be32 a b 0 0 / 52200625), dg (be32 a b 0 0 / 614125), dg (be32 a b 0 0 / 7225)] := rfl
  have h := p2 a b (be32 a b 0 0) _ hN rfl
  rw [e, run_part2 _ _ _ res (dg_dig _) (dg_dig _) (dg_dig _) _ (by simp only [dv_dg]) h.1,
    ofNat_eq h.2.1, ofNat_eq h.2.2]

theorem run_p3 (a b c : UInt8) (res : Bytes) :
    run ((digits5 (be32 a b c 0)).take 4) ⟨0, 0, res⟩ = .ok (res.reverse ++ [a, b, c]) := by
  have hN : be32 a b c 0 = ((a.toNat * 256 + b.toNat) * 256 + c.toNat) * 256 := by
    simp only [be32, zero_toNat]; omega
  have e : (digits5 (be32 a b c 0)).take 4 =
    [dg (be32 a b c 0 / 52200625), dg (be32 a b c 0 / 614125), dg (be32 a b c 0 / 7225), dg (be32 a b c 0 / 85)] := rfl
  have h := p3 a b c (be32 a b c 0) _ hN rfl
  rw [e, run_part3 _ _ _ _ res (dg_dig _) (dg_dig _) (dg_dig _) (dg_dig _) _ (by simp only [dv_dg]) h.1,
    ofNat_eq h.2.1, ofNat_eq h.2.2.1, ofNat_eq h.2.2.2]

/-! ### staging -/

/-- the text with every `z` written out as `!!!!!` -/
def expand : Bytes → Bytes
  | [] => []
  | b :: t => if b == 0x7A then 0x21 :: 0x21 :: 0x21 :: 0x21 :: 0x21 :: expand t else b :: expand t

theorem expand_dig {x : UInt8} (h : IsDig x) (t : Bytes) : expand (x :: t) = x :: expand t := by
  simp [expand, dig_ne_z h]
theorem expand_z (t : Bytes) : expand (0x7A :: t) = 0x21 :: 0x21 :: 0x21 :: 0x21 :: 0x21 :: expand t := by
  simp [expand]

theorem stage_filter (c st : Bytes) (g : Nat) :
    a85Stage c st g = a85Stage (c.filter fun b => !Filters.isWs b) st g := by
  induction c generalizing st g with
  | nil => rfl
  | cons b t ih =>
    cases hb : Filters.isWs b
    · simp only [List.filter_cons, hb, Bool.not_false, if_true]
      rw [a85Stage, a85Stage]
      simp only [hb, Bool.false_eq_true, if_false]
      split
      · rw [ih]
      · split <;> exact ih _ _
    · simp only [List.filter_cons, hb, Bool.not_true, Bool.false_eq_true, if_false]
      rw [a85Stage]; simp only [hb, if_true]; exact ih _ _

theorem stage_dig {x : UInt8} (h : IsDig x) (t st : Bytes) (g g' : Nat) (hg : g' = (g + 1) % 5) :
    a85Stage (x :: t) st g = a85Stage t (x :: st) g' := by
  subst hg; rw [a85Stage]; simp [dig_not_ws h, dig_ne_z h, dig_ne_tilde h]

theorem stage_z (t st : Bytes) :
    a85Stage (0x7A :: t) st 0 = a85Stage t (0x21 :: 0x21 :: 0x21 :: 0x21 :: 0x21 :: st) 0 := by
  rw [a85Stage]; simp [show Filters.isWs 0x7A = false by decide]

theorem stage_end (st : Bytes) (g : Nat) :
    a85Stage [0x7E, 0x3E] st g = .ok (st.reverse ++ [0x7E, 0x3E]) := by
  simp [a85Stage, show Filters.isWs 0x7E = false by decide, show Filters.isWs 0x3E = false by decide]

theorem stage_groups {p s : Bytes} (h : A85Groups p s) : ∀ st : Bytes,
    a85Stage (s ++ [0x7E, 0x3E]) st 0 = .ok (st.reverse ++ (expand s ++ [0x7E, 0x3E])) := by
  induction h with
  | nil => intro st; exact stage_end st 0
  | z _ ih => intro st; rw [List.cons_append, stage_z, ih, expand_z]; simp
  | @full a b c d p s _ ih =>
    intro st
    rw [digits5_eq]
    simp only [List.cons_append, List.nil_append]
    rw [stage_dig (dg_dig _) _ _ 0 1 rfl, stage_dig (dg_dig _) _ _ 1 2 rfl, stage_dig (dg_dig _) _ _ 2 3 rfl,
      stage_dig (dg_dig _) _ _ 3 4 rfl, stage_dig (dg_dig _) _ _ 4 0 rfl, ih,
      expand_dig (dg_dig _), expand_dig (dg_dig _), expand_dig (dg_dig _), expand_dig (dg_dig _),
      expand_dig (dg_dig _)]
    simp
  | @part1 a =>
    intro st
    have e : (digits5 (be32 a 0 0 0)).take 2 = [dg (be32 a 0 0 0 / 52200625), dg (be32 a 0 0 0 / 614125)] := rfl
    rw [e]
    simp only [List.cons_append, List.nil_append]
    rw [stage_dig (dg_dig _) _ _ 0 1 rfl, stage_dig (dg_dig _) _ _ 1 2 rfl, stage_end,
      expand_dig (dg_dig _), expand_dig (dg_dig _)]
    simp [expand]
  | @part2 a b =>
    intro st
    have e : (digits5 (be32 a b 0 0)).take 3 =
      [dg (be32 a b 0 0 / 52200625), dg (be32 a b 0 0 / 614125), dg (be32 a b 0 0 / 7225)] := rfl
    rw [e]
    simp only [List.cons_append, List.nil_append]
    rw [stage_dig (dg_dig _) _ _ 0 1 rfl, stage_dig (dg_dig _) _ _ 1 2 rfl, stage_dig (dg_dig _) _ _ 2 3 rfl,
      stage_end, expand_dig (dg_dig _), expand_dig (dg_dig _), expand_dig (dg_dig _)]
    simp [expand]
  | @part3 a b c =>
    intro st
    have e : (digits5 (be32 a b c 0)).take 4 =
      [dg (be32 a b c 0 / 52200625), dg (be32 a b c 0 / 614125), dg (be32 a b c 0 / 7225), dg (be32 a b c 0 / 85)] := rfl
    rw [e]
    simp only [List.cons_append, List.nil_append]
    rw [stage_dig (dg_dig _) _ _ 0 1 rfl, stage_dig (dg_dig _) _ _ 1 2 rfl, stage_dig (dg_dig _) _ _ 2 3 rfl,
      stage_dig (dg_dig _) _ _ 3 4 rfl, stage_end, expand_dig (dg_dig _), expand_dig (dg_dig _),
      expand_dig (dg_dig _), expand_dig (dg_dig _)]
    simp [expand]

theorem digits5_dig (n : Nat) : ∀ b ∈ digits5 n, IsDig b := by
  rw [digits5_eq]; simp only [List.forall_mem_cons]
  exact ⟨dg_dig _, dg_dig _, dg_dig _, dg_dig _, dg_dig _, by simp⟩

theorem expand_append_digs (L t : Bytes) (h : ∀ b ∈ L, IsDig b) : expand (L ++ t) = L ++ expand t := by
  induction L with
  | nil => rfl
  | cons x L ih =>
    rw [List.forall_mem_cons] at h
    rw [List.cons_append, expand_dig h.1, ih h.2, List.cons_append]

theorem expand_digs (L : Bytes) (h : ∀ b ∈ L, IsDig b) : expand L = L := by
  have := expand_append_digs L [] h
  simpa [expand] using this

theorem take_digits5_dig (k n : Nat) : ∀ b ∈ (digits5 n).take k, IsDig b :=
  fun b hb => digits5_dig n b (List.mem_of_mem_take hb)

theorem dig_33 : IsDig 0x21 := ⟨by decide, by decide⟩

theorem expand_props {p s : Bytes} (h : A85Groups p s) :
    (∀ b ∈ expand s, IsDig b) ∧ (expand s).length ≠ 1 := by
  induction h with
  | nil => simp [expand]
  | z _ ih =>
    rw [expand_z]; simp only [List.forall_mem_cons]
    exact ⟨⟨dig_33, dig_33, dig_33, dig_33, dig_33, ih.1⟩, by simp⟩
  | @full a b c d p s _ ih =>
    rw [expand_append_digs _ _ (digits5_dig _)]
    refine ⟨?_, by rw [digits5_eq]; simp⟩
    intro x hx
    rcases List.mem_append.mp hx with hx | hx
    · exact digits5_dig _ _ hx
    · exact ih.1 _ hx
  | part1 => rw [expand_digs _ (take_digits5_dig _ _)]; exact ⟨take_digits5_dig _ _, by rw [digits5_eq]; simp⟩
  | part2 => rw [expand_digs _ (take_digits5_dig _ _)]; exact ⟨take_digits5_dig _ _, by rw [digits5_eq]; simp⟩
  | part3 => rw [expand_digs _ (take_digits5_dig _ _)]; exact ⟨take_digits5_dig _ _, by rw [digits5_eq]; simp⟩

/-! ### the trimming of `ascii85::decode` leaves a staged conformant text alone -/

theorem trimGtRev_dig : ∀ (L : Bytes), (∀ b ∈ L, IsDig b) → trimGtRev L = L
  | [], _ => rfl
  | [_], _ => rfl
  | a :: b :: t, h => by
    rw [trimGtRev]; simp [dig_ne_tilde (h b (by simp))]

theorem trimLt_stage : ∀ (L : Bytes), (∀ b ∈ L, IsDig b) → L.length ≠ 1 →
    trimLt (L ++ [0x7E, 0x3E]) = L ++ [0x7E, 0x3E]
  | [], _, _ => by simp [trimLt]
  | [_], _, hl => absurd rfl hl
  | a :: b :: t, h, _ => by
    rw [List.cons_append, List.cons_append, trimLt]; simp [dig_ne_tilde (h b (by simp))]

theorem dropWhile_stage : ∀ (L : Bytes), (∀ b ∈ L, IsDig b) →
    (L ++ [0x7E, 0x3E]).dropWhile isUniWs = L ++ [0x7E, 0x3E]
  | [], _ => by simp [show isUniWs 0x7E = false by decide]
  | a :: t, h => by
    rw [List.cons_append, List.dropWhile_cons]; simp [dig_not_uniws (h a (by simp))]

theorem crate_run (stage : Bytes) :
    a85Crate stage = run (((trimGtRev ((trimLt (stage.dropWhile isUniWs)).reverse.dropWhile isUniWs)).reverse).filter
      (fun c => !isAsciiWs c)) ⟨0, 0, []⟩ := rfl

theorem crate_eq (L : Bytes) (h : ∀ b ∈ L, IsDig b) (hl : L.length ≠ 1) :
    a85Crate (L ++ [0x7E, 0x3E]) = run L ⟨0, 0, []⟩ := by
  have e : (L ++ [0x7E, 0x3E]).reverse = 0x3E :: 0x7E :: L.reverse := by simp
  have hr : ∀ b ∈ L.reverse, IsDig b := fun b hb => h b (List.mem_reverse.mp hb)
  have hf : L.filter (fun c => !isAsciiWs c) = L :=
    List.filter_eq_self.mpr fun b hb => by simp [dig_not_asciiws (h b hb)]
  rw [crate_run, dropWhile_stage L h, trimLt_stage L h hl, e, List.dropWhile_cons]
  simp only [show isUniWs 0x3E = false by decide, Bool.false_eq_true, if_false]
  rw [trimGtRev]
  simp only [show ((0x3E : UInt8) == 0x3E && (0x7E : UInt8) == 0x7E) = true by decide, if_true]
  rw [trimGtRev_dig _ hr, List.reverse_reverse, hf]

/-! ### the loop over the groups -/

theorem run_groups {p s : Bytes} (h : A85Groups p s) : ∀ res : Bytes,
    run (expand s) ⟨0, 0, res⟩ = .ok (res.reverse ++ p) := by
  induction h with
  | nil => intro res; rw [expand, run_nil]; simp
  | z _ ih => intro res; rw [expand_z, run_z, ih]; simp
  | full _ ih => intro res; rw [expand_append_digs _ _ (digits5_dig _), run_full, ih]; simp
  | part1 => intro res; rw [expand_digs _ (take_digits5_dig _ _), run_p1]
  | part2 => intro res; rw [expand_digs _ (take_digits5_dig _ _), run_p2]
  | part3 => intro res; rw [expand_digs _ (take_digits5_dig _ _), run_p3]

/-! ### the executable encoder of the generators is conformant -/

theorem be32_zero {a b c d : UInt8} (h : be32 a b c d = 0) : a = 0 ∧ b = 0 ∧ c = 0 ∧ d = 0 := by
  simp only [be32] at h
  refine ⟨?_, ?_, ?_, ?_⟩ <;> apply UInt8.toNat_inj.mp <;> rw [zero_toNat] <;> omega

theorem encodeA85Groups_conformant (useZ : Nat → Bool) : ∀ (i : Nat) (p : Bytes),
    A85Groups p (encodeA85Groups useZ i p)
  | i, a :: b :: c :: d :: t => by
    rw [encodeA85Groups]
    split
    · rename_i h
      simp only [Bool.and_eq_true, beq_iff_eq] at h
      obtain ⟨rfl, rfl, rfl, rfl⟩ := be32_zero h.1
      exact .z (encodeA85Groups_conformant useZ (i + 1) t)
    · exact .full (encodeA85Groups_conformant useZ (i + 1) t)
  | _, [a, b, c] => by simp only [encodeA85Groups]; exact .part3
  | _, [a, b] => by simp only [encodeA85Groups]; exact .part2
  | _, [a] => by simp only [encodeA85Groups]; exact .part1
  | _, [] => by simp only [encodeA85Groups]; exact .nil

theorem groups_no_ws {p s : Bytes} (h : A85Groups p s) : ∀ b ∈ s, Filters.isWs b = false := by
  induction h with
  | nil => simp
  | z _ ih => rw [List.forall_mem_cons]; exact ⟨by decide, ih⟩
  | full _ ih =>
    intro x hx
    rcases List.mem_append.mp hx with hx | hx
    · exact dig_not_ws (digits5_dig _ _ hx)
    · exact ih _ hx
  | part1 => exact fun b hb => dig_not_ws (take_digits5_dig _ _ b hb)
  | part2 => exact fun b hb => dig_not_ws (take_digits5_dig _ _ b hb)
  | part3 => exact fun b hb => dig_not_ws (take_digits5_dig _ _ b hb)

theorem groups_encoding {p s : Bytes} (h : A85Groups p s) : IsA85Encoding (s ++ [0x7E, 0x3E]) p := by
  refine ⟨s, h, ?_⟩
  show (s ++ [0x7E, 0x3E]).filter (fun b => !Filters.isWs b) = s ++ [0x7E, 0x3E]
  rw [List.filter_append, List.filter_eq_self.mpr fun b hb => by simp [groups_no_ws h b hb]]
  rfl

end Parsley.C06.A85

/-! ### the round trip -/

namespace Parsley.C06
open Parsley Parsley.Filters Parsley.FiltersSpec Parsley.C06.A85

/-- ASCII85: decoding any conformant encoding (any white-space interleaving, `z` or `!!!!!` for zero
    groups, final partial group of 2-4 digits) returns exactly the payload. -/
theorem a85_roundtrip (content payload : Bytes) (h : IsA85Encoding content payload) :
    a85Decode content = .ok payload := by
  obtain ⟨text, hg, hs⟩ := h
  have hs' : content.filter (fun b => !Filters.isWs b) = text ++ [0x7E, 0x3E] := hs
  have h1 : a85Stage content [] 0 = .ok (expand text ++ [0x7E, 0x3E]) := by
    rw [stage_filter, hs', stage_groups hg]; simp
  have hp := expand_props hg
  have h2 : a85Crate (expand text ++ [0x7E, 0x3E]) = .ok payload := by
    rw [crate_eq _ hp.1 hp.2, run_groups hg]; simp
  simp [a85Decode, h1, h2]

/-- non-vacuity: `z 9\n`+"`"+`~>` (white space inside, a `z` group, a two-digit final group) is a
    conformant encoding of `00 00 00 00 4D` -/
theorem a85_instance : IsA85Encoding [0x7A, 0x20, 57, 0x0A, 96, 0x7E, 0x3E] [0, 0, 0, 0, 77] :=
  ⟨0x7A :: (digits5 (be32 77 0 0 0)).take 2, .z .part1, by decide⟩

example : a85Decode [0x7A, 0x20, 57, 0x0A, 96, 0x7E, 0x3E] = .ok [0, 0, 0, 0, 77] :=
  a85_roundtrip _ _ a85_instance

theorem encodeA85_conformant (useZ : Nat → Bool) (p : Bytes) : IsA85Encoding (encodeA85 useZ p) p :=
  groups_encoding (encodeA85Groups_conformant useZ 0 p)

/-- hence the model decodes whatever the generator's encoder writes -/
theorem a85_decode_encode (useZ : Nat → Bool) (p : Bytes) : a85Decode (encodeA85 useZ p) = .ok p :=
  a85_roundtrip _ _ (encodeA85_conformant useZ p)

end Parsley.C06
