/-
  C06, ASCII85 round trip: `a85Decode` returns the payload of every conformant encoding.
-/
import Parsley.Model.Filters
import Parsley.Spec.Filters
namespace Parsley.C06
open Parsley Parsley.Filters Parsley.FiltersSpec

/-! ### digit bytes -/

/-- a base-85 digit byte `!`..`u` -/
def IsDig (b : UInt8) : Prop := 33 ≤ b.toNat ∧ b.toNat ≤ 117

theorem dig_ne_z {b : UInt8} (h : IsDig b) : (b == 0x7A) = false := by
  obtain ⟨h1, h2⟩ := h; simp [← UInt8.toNat_inj]; omega
theorem dig_ne_tilde {b : UInt8} (h : IsDig b) : (b == 0x7E) = false := by
  obtain ⟨h1, h2⟩ := h; simp [← UInt8.toNat_inj]; omega
theorem dig_range {b : UInt8} (h : IsDig b) : (b < 33 || b > 117) = false := by
  obtain ⟨h1, h2⟩ := h; simp [UInt8.lt_iff_toNat_lt]; omega
theorem dig_not_ws {b : UInt8} (h : IsDig b) : Filters.isWs b = false := by
  obtain ⟨h1, h2⟩ := h; simp [Filters.isWs, ← UInt8.toNat_inj]; omega
theorem dig_not_uniws {b : UInt8} (h : IsDig b) : isUniWs b = false := by
  obtain ⟨h1, h2⟩ := h; simp [isUniWs, ← UInt8.toNat_inj, UInt8.le_iff_toNat_le]; omega
theorem dig_not_asciiws {b : UInt8} (h : IsDig b) : isAsciiWs b = false := by
  obtain ⟨h1, h2⟩ := h; simp [isAsciiWs, ← UInt8.toNat_inj]; omega

theorem ofNat_dig (k : Nat) (h : k < 85) : IsDig (UInt8.ofNat (k + 33)) := by
  simp [IsDig, UInt8.toNat_ofNat']; omega
theorem ofNat_dig_val (k : Nat) (h : k < 85) : (UInt8.ofNat (k + 33)).toNat - 33 = k := by
  simp [UInt8.toNat_ofNat']; omega

theorem isWs_eq : Filters.isWs = FiltersSpec.isWs := rfl

/-! ### the digit loop -/

theorem loop_dig {d : UInt8} (hd : IsDig d) (t : Bytes) (s s' : A85St) (h : decodeDigit d s = .ok s') :
    a85Loop (d :: t) s = a85Loop t s' := by
  rw [a85Loop]; simp [dig_ne_z hd, dig_range hd, h]

theorem decodeDigit_lt4 (d : UInt8) (k ch : Nat) (res : Bytes) (hk : k < 4)
    (h : ch + (d.toNat - 33) * a85Table k < 2 ^ 32) :
    decodeDigit d ⟨k, ch, res⟩ = .ok ⟨k + 1, ch + (d.toNat - 33) * a85Table k, res⟩ := by
  have h1 : ¬ ((d.toNat - 33) * a85Table k ≥ 2 ^ 32) := by omega
  have h2 : ¬ (ch + (d.toNat - 33) * a85Table k ≥ 2 ^ 32) := by omega
  have h3 : (k == 4) = false := by simp; omega
  simp only [decodeDigit, h1, h2, h3, if_false]; rfl

theorem decodeDigit_4 (d : UInt8) (ch : Nat) (res : Bytes)
    (h : ch + (d.toNat - 33) < 2 ^ 32) :
    decodeDigit d ⟨4, ch, res⟩ =
      .ok ⟨0, 0, UInt8.ofNat ((ch + (d.toNat - 33)) % 256) :: UInt8.ofNat ((ch + (d.toNat - 33)) / 256 % 256)
        :: UInt8.ofNat ((ch + (d.toNat - 33)) / 65536 % 256) :: UInt8.ofNat ((ch + (d.toNat - 33)) / 16777216) :: res⟩ := by
  have h1 : ¬ ((d.toNat - 33) * 1 ≥ 2 ^ 32) := by omega
  have h2 : ¬ (ch + (d.toNat - 33) * 1 ≥ 2 ^ 32) := by omega
  simp only [decodeDigit, a85Table, h1, h2, if_false]; simp

/-- value of a digit byte -/
def dv (d : UInt8) : Nat := d.toNat - 33

/-- five digits from a group boundary: one 32-bit word, no overflow branch -/
theorem loop_group (x0 x1 x2 x3 x4 : UInt8) (t res : Bytes)
    (h0 : IsDig x0) (h1 : IsDig x1) (h2 : IsDig x2) (h3 : IsDig x3) (h4 : IsDig x4) (c : Nat)
    (hc : c = dv x0 * 52200625 + dv x1 * 614125 + dv x2 * 7225 + dv x3 * 85 + dv x4)
    (hlt : c < 2 ^ 32) :
    a85Loop (x0 :: x1 :: x2 :: x3 :: x4 :: t) ⟨0, 0, res⟩ =
      a85Loop t ⟨0, 0, UInt8.ofNat (c % 256) :: UInt8.ofNat (c / 256 % 256) :: UInt8.ofNat (c / 65536 % 256)
        :: UInt8.ofNat (c / 16777216) :: res⟩ := by
  simp only [dv] at hc
  rw [loop_dig h0 _ _ _ (decodeDigit_lt4 _ _ _ _ (by omega) (by simp only [a85Table]; omega))]
  rw [loop_dig h1 _ _ _ (decodeDigit_lt4 _ _ _ _ (by omega) (by simp only [a85Table]; omega))]
  rw [loop_dig h2 _ _ _ (decodeDigit_lt4 _ _ _ _ (by omega) (by simp only [a85Table]; omega))]
  rw [loop_dig h3 _ _ _ (decodeDigit_lt4 _ _ _ _ (by omega) (by simp only [a85Table]; omega))]
  rw [loop_dig h4 _ _ _ (decodeDigit_4 _ _ _ (by simp only [a85Table]; omega))]
  simp only [a85Table]
  have : 0 + (x0.toNat - 33) * (85 * 85 * 85 * 85) + (x1.toNat - 33) * (85 * 85 * 85) + (x2.toNat - 33) * (85 * 85)
      + (x3.toNat - 33) * 85 + (x4.toNat - 33) = c := by omega
  rw [this]

/-! ### the pad loop and the tail of `ascii85::decode` -/

theorem dv_u : (0x75 : UInt8).toNat - 33 = 84 := by decide

theorem pad_0 (f ch : Nat) (res : Bytes) (rm : Nat) :
    a85Pad f ⟨0, ch, res⟩ rm = .ok (⟨0, ch, res⟩, rm) := by
  cases f <;> simp [a85Pad]

theorem pad_lt4 (f k ch : Nat) (res : Bytes) (rm : Nat) (hk0 : 0 < k) (hk : k < 4)
    (h : ch + 84 * a85Table k < 2 ^ 32) :
    a85Pad (f + 1) ⟨k, ch, res⟩ rm = a85Pad f ⟨k + 1, ch + 84 * a85Table k, res⟩ (rm + 1) := by
  have hk' : (k == 0) = false := by simp; omega
  rw [a85Pad, decodeDigit_lt4 _ _ _ _ hk (by rw [dv_u]; exact h)]
  simp [hk', dv_u]

theorem pad_4 (f ch : Nat) (res : Bytes) (rm : Nat) (h : ch + 84 < 2 ^ 32) :
    a85Pad (f + 1) ⟨4, ch, res⟩ rm =
      a85Pad f ⟨0, 0, UInt8.ofNat ((ch + 84) % 256) :: UInt8.ofNat ((ch + 84) / 256 % 256)
        :: UInt8.ofNat ((ch + 84) / 65536 % 256) :: UInt8.ofNat ((ch + 84) / 16777216) :: res⟩ (rm + 1) := by
  rw [a85Pad, decodeDigit_4 _ _ _ (by rw [dv_u]; exact h)]
  simp [dv_u]

/-- what `a85Crate` does once the trimming is over -/
def run (s : Bytes) (st : A85St) : Res Bytes :=
  match a85Loop s st with
  | .err k => .err k
  | .panic m => .panic m
  | .ok st =>
    match a85Pad 5 st 0 with
    | .err k => .err k
    | .panic m => .panic m
    | .ok (st, rm) =>
      if st.result.length < rm then .panic "ascii85: drain range"
      else .ok (st.result.drop rm).reverse

theorem run_nil (res : Bytes) : run [] ⟨0, 0, res⟩ = .ok res.reverse := by
  simp [run, a85Loop, pad_0]

theorem run_group (x0 x1 x2 x3 x4 : UInt8) (t res : Bytes)
    (h0 : IsDig x0) (h1 : IsDig x1) (h2 : IsDig x2) (h3 : IsDig x3) (h4 : IsDig x4) (c : Nat)
    (hc : c = dv x0 * 52200625 + dv x1 * 614125 + dv x2 * 7225 + dv x3 * 85 + dv x4)
    (hlt : c < 2 ^ 32) :
    run (x0 :: x1 :: x2 :: x3 :: x4 :: t) ⟨0, 0, res⟩ =
      run t ⟨0, 0, UInt8.ofNat (c % 256) :: UInt8.ofNat (c / 256 % 256) :: UInt8.ofNat (c / 65536 % 256)
        :: UInt8.ofNat (c / 16777216) :: res⟩ := by
  simp only [run]; rw [loop_group x0 x1 x2 x3 x4 t res h0 h1 h2 h3 h4 c hc hlt]

theorem run_part1 (x0 x1 : UInt8) (res : Bytes) (h0 : IsDig x0) (h1 : IsDig x1) (c : Nat)
    (hc : c = dv x0 * 52200625 + dv x1 * 614125 + 84 * 7225 + 84 * 85 + 84) (hlt : c < 2 ^ 32) :
    run [x0, x1] ⟨0, 0, res⟩ = .ok (res.reverse ++ [UInt8.ofNat (c / 16777216)]) := by
  simp only [dv] at hc
  simp only [run]
  rw [loop_dig h0 _ _ _ (decodeDigit_lt4 _ _ _ _ (by omega) (by simp only [a85Table]; omega))]
  rw [loop_dig h1 _ _ _ (decodeDigit_lt4 _ _ _ _ (by omega) (by simp only [a85Table]; omega))]
  rw [a85Loop]
  simp only
  rw [pad_lt4 _ _ _ _ _ (by omega) (by omega) (by simp only [a85Table]; omega)]
  rw [pad_lt4 _ _ _ _ _ (by omega) (by omega) (by simp only [a85Table]; omega)]
  rw [pad_4 _ _ _ _ (by simp only [a85Table]; omega)]
  rw [pad_0]
  simp only [a85Table]
  have : 0 + (x0.toNat - 33) * (85 * 85 * 85 * 85) + (x1.toNat - 33) * (85 * 85 * 85) + 84 * (85 * 85)
      + 84 * 85 + 84 = c := by omega
  rw [this]; simp

theorem run_part2 (x0 x1 x2 : UInt8) (res : Bytes) (h0 : IsDig x0) (h1 : IsDig x1) (h2 : IsDig x2) (c : Nat)
    (hc : c = dv x0 * 52200625 + dv x1 * 614125 + dv x2 * 7225 + 84 * 85 + 84) (hlt : c < 2 ^ 32) :
    run [x0, x1, x2] ⟨0, 0, res⟩ =
      .ok (res.reverse ++ [UInt8.ofNat (c / 16777216), UInt8.ofNat (c / 65536 % 256)]) := by
  simp only [dv] at hc
  simp only [run]
  rw [loop_dig h0 _ _ _ (decodeDigit_lt4 _ _ _ _ (by omega) (by simp only [a85Table]; omega))]
  rw [loop_dig h1 _ _ _ (decodeDigit_lt4 _ _ _ _ (by omega) (by simp only [a85Table]; omega))]
  rw [loop_dig h2 _ _ _ (decodeDigit_lt4 _ _ _ _ (by omega) (by simp only [a85Table]; omega))]
  rw [a85Loop]
  simp only
  rw [pad_lt4 _ _ _ _ _ (by omega) (by omega) (by simp only [a85Table]; omega)]
  rw [pad_4 _ _ _ _ (by simp only [a85Table]; omega)]
  rw [pad_0]
  simp only [a85Table]
  have : 0 + (x0.toNat - 33) * (85 * 85 * 85 * 85) + (x1.toNat - 33) * (85 * 85 * 85) + (x2.toNat - 33) * (85 * 85)
      + 84 * 85 + 84 = c := by omega
  rw [this]; simp

theorem run_part3 (x0 x1 x2 x3 : UInt8) (res : Bytes) (h0 : IsDig x0) (h1 : IsDig x1) (h2 : IsDig x2)
    (h3 : IsDig x3) (c : Nat)
    (hc : c = dv x0 * 52200625 + dv x1 * 614125 + dv x2 * 7225 + dv x3 * 85 + 84) (hlt : c < 2 ^ 32) :
    run [x0, x1, x2, x3] ⟨0, 0, res⟩ =
      .ok (res.reverse ++ [UInt8.ofNat (c / 16777216), UInt8.ofNat (c / 65536 % 256), UInt8.ofNat (c / 256 % 256)]) := by
  simp only [dv] at hc
  simp only [run]
  rw [loop_dig h0 _ _ _ (decodeDigit_lt4 _ _ _ _ (by omega) (by simp only [a85Table]; omega))]
  rw [loop_dig h1 _ _ _ (decodeDigit_lt4 _ _ _ _ (by omega) (by simp only [a85Table]; omega))]
  rw [loop_dig h2 _ _ _ (decodeDigit_lt4 _ _ _ _ (by omega) (by simp only [a85Table]; omega))]
  rw [loop_dig h3 _ _ _ (decodeDigit_lt4 _ _ _ _ (by omega) (by simp only [a85Table]; omega))]
  rw [a85Loop]
  simp only
  rw [pad_4 _ _ _ _ (by simp only [a85Table]; omega)]
  rw [pad_0]
  simp only [a85Table]
  have : 0 + (x0.toNat - 33) * (85 * 85 * 85 * 85) + (x1.toNat - 33) * (85 * 85 * 85) + (x2.toNat - 33) * (85 * 85)
      + (x3.toNat - 33) * 85 + 84 = c := by omega
  rw [this]; simp

end Parsley.C06
