/-
  C06, FlateDecode: the executable inflate model decodes every zlib stream made of stored
  blocks back to its payload.
-/
import Parsley.Model.Inflate
import Parsley.Spec.Filters
namespace Parsley.C06
open Parsley Parsley.FiltersSpec

/-! ### Adler-32: model fold = spec recursion -/

theorem adler_fold_eq (data : Bytes) (p : Nat × Nat) :
    data.foldl (fun (p : Nat × Nat) x =>
      let a := (p.1 + x.toNat) % 65521
      (a, (p.2 + a) % 65521)) p = adlerAB data p := by
  induction data generalizing p with
  | nil => rfl
  | cons x t ih =>
    obtain ⟨a, b⟩ := p
    simp only [List.foldl_cons, adlerAB]
    exact ih _

theorem adler_model_eq_spec (data : Bytes) : Inflate.adler32 data = FiltersSpec.adler32 data := by
  unfold Inflate.adler32 FiltersSpec.adler32
  rw [adler_fold_eq]

theorem adlerAB_lt (data : Bytes) (p : Nat × Nat) (h1 : p.1 < 65521) (h2 : p.2 < 65521) :
    (adlerAB data p).1 < 65521 ∧ (adlerAB data p).2 < 65521 := by
  induction data generalizing p with
  | nil => exact ⟨h1, h2⟩
  | cons x t ih =>
    obtain ⟨a, b⟩ := p
    simp only [adlerAB]
    apply ih
    · exact Nat.mod_lt _ (by decide)
    · exact Nat.mod_lt _ (by decide)

theorem adler32_lt (data : Bytes) : FiltersSpec.adler32 data < 4294967296 := by
  unfold FiltersSpec.adler32
  have h := adlerAB_lt data (1, 0) (by decide) (by decide)
  generalize adlerAB data (1, 0) = q at h
  obtain ⟨a, b⟩ := q
  simp only at h ⊢
  omega

/-! ### takeBytes -/

theorem takeBytes_append (p rest : Bytes) (out : Array UInt8) :
    ∃ out', Inflate.takeBytes p.length (p ++ rest) out = some (out', rest) ∧
      out'.toList = out.toList ++ p := by
  induction p generalizing out with
  | nil => exact ⟨out, by simp [Inflate.takeBytes]⟩
  | cons b t ih =>
    obtain ⟨out', h1, h2⟩ := ih (out.push b)
    refine ⟨out', ?_, ?_⟩
    · simpa [Inflate.takeBytes] using h1
    · simp [h2]

/-! ### one stored block header -/

theorem blocks_stored_nonfinal (fuel : Nat) (out out' : Array UInt8) (l0 l1 n0 n1 : UInt8)
    (rest rest' : Bytes)
    (hlen : (l0.toNat + 256 * l1.toNat) + (n0.toNat + 256 * n1.toNat) = 65535)
    (htake : Inflate.takeBytes (l0.toNat + 256 * l1.toNat) rest out = some (out', rest')) :
    Inflate.blocks (fuel + 1) out ⟨0x00 :: l0 :: l1 :: n0 :: n1 :: rest, 0, 0⟩ =
      Inflate.blocks fuel out' ⟨rest', 0, 0⟩ := by
  rw [Inflate.blocks]
  simp [Inflate.BitRd.bits, Inflate.bitsAux, Inflate.BitRd.align, hlen, htake]

theorem blocks_stored_final (fuel : Nat) (out out' : Array UInt8) (l0 l1 n0 n1 : UInt8)
    (rest rest' : Bytes)
    (hlen : (l0.toNat + 256 * l1.toNat) + (n0.toNat + 256 * n1.toNat) = 65535)
    (htake : Inflate.takeBytes (l0.toNat + 256 * l1.toNat) rest out = some (out', rest')) :
    Inflate.blocks (fuel + 1) out ⟨0x01 :: l0 :: l1 :: n0 :: n1 :: rest, 0, 0⟩ =
      .done out' ⟨rest', 0, 0⟩ := by
  rw [Inflate.blocks]
  simp [Inflate.BitRd.bits, Inflate.bitsAux, Inflate.BitRd.align, hlen, htake]

/-! ### LEN / NLEN bytes -/

theorem len_bytes (n : Nat) (h : n ≤ 65535) :
    (UInt8.ofNat (n % 256)).toNat + 256 * (UInt8.ofNat (n / 256)).toNat = n := by
  simp only [UInt8.toNat_ofNat']
  omega

theorem nlen_bytes (n : Nat) (h : n ≤ 65535) :
    (UInt8.ofNat (255 - n % 256)).toNat + 256 * (UInt8.ofNat (255 - n / 256)).toNat = 65535 - n := by
  simp only [UInt8.toNat_ofNat']
  omega

theorem storedBlocks_length (parts : List Bytes) : 5 * (parts.length + 1) ≤ (storedBlocks parts).length := by
  induction parts with
  | nil => simp [storedBlocks]
  | cons p ps ih => simp [storedBlocks]; omega

/-! ### the block loop on a stored-block stream -/

theorem blocks_stored (parts : List Bytes) (h : ∀ p ∈ parts, p.length ≤ 65535) (tail : Bytes) :
    ∀ (fuel : Nat) (out : Array UInt8), parts.length + 1 ≤ fuel →
      ∃ out', Inflate.blocks fuel out ⟨storedBlocks parts ++ tail, 0, 0⟩ = .done out' ⟨tail, 0, 0⟩ ∧
        out'.toList = out.toList ++ parts.flatten := by
  induction parts with
  | nil =>
    intro fuel out hf
    obtain ⟨f, rfl⟩ : ∃ f, fuel = f + 1 := ⟨fuel - 1, by omega⟩
    refine ⟨out, ?_, by simp⟩
    simp only [storedBlocks, List.cons_append, List.nil_append]
    exact blocks_stored_final f out out 0x00 0x00 0xFF 0xFF tail tail (by decide) (by simp [Inflate.takeBytes])
  | cons p ps ih =>
    intro fuel out hf
    obtain ⟨f, rfl⟩ : ∃ f, fuel = f + 1 := ⟨fuel - 1, by omega⟩
    have hp : p.length ≤ 65535 := h p (by simp)
    obtain ⟨out1, ht1, ho1⟩ := takeBytes_append p (storedBlocks ps ++ tail) out
    obtain ⟨out2, hb2, ho2⟩ := ih (fun q hq => h q (by simp [hq])) f out1 (by simp at hf; omega)
    refine ⟨out2, ?_, by simp [ho2, ho1]⟩
    simp only [storedBlocks, List.cons_append, List.nil_append, List.append_assoc]
    rw [blocks_stored_nonfinal f out out1 _ _ _ _ _ (storedBlocks ps ++ tail)]
    · exact hb2
    · rw [len_bytes _ hp, nlen_bytes _ hp]; omega
    · rw [len_bytes _ hp]; exact ht1

/-! ### the Adler-32 trailer -/

theorem be32_roundtrip (n : Nat) (h : n < 4294967296) :
    (((UInt8.ofNat (n / 16777216 % 256)).toNat * 256 + (UInt8.ofNat (n / 65536 % 256)).toNat) * 256
      + (UInt8.ofNat (n / 256 % 256)).toNat) * 256 + (UInt8.ofNat (n % 256)).toNat = n := by
  simp only [UInt8.toNat_ofNat']
  omega

/-- the executable inflate decodes every zlib stream made of stored blocks (any partition of the
    payload into parts of at most 65535 bytes) to exactly the payload, whatever follows the stream -/
theorem inflate_stored_roundtrip (parts : List Bytes) (trailing : Bytes)
    (h : ∀ p ∈ parts, p.length ≤ 65535) :
    Inflate.inflate (zlibStored parts ++ trailing) = .ok parts.flatten := by
  have hlen := storedBlocks_length parts
  obtain ⟨out', hb, ho⟩ := blocks_stored parts h (be32Bytes (adler32 parts.flatten) ++ trailing)
    (8 * (storedBlocks parts ++ (be32Bytes (adler32 parts.flatten) ++ trailing)).length + 8)
    (Array.mkEmpty (4 * (storedBlocks parts ++ (be32Bytes (adler32 parts.flatten) ++ trailing)).length))
    (by simp only [List.length_append]; omega)
  have ho' : out'.toList = parts.flatten := by simpa using ho
  have hz : zlibStored parts ++ trailing =
      0x78 :: 0x01 :: (storedBlocks parts ++ (be32Bytes (adler32 parts.flatten) ++ trailing)) := by
    simp [zlibStored]
  rw [hz, Inflate.inflate]
  simp only [hb]
  have hlt := adler32_lt parts.flatten
  simp [Inflate.BitRd.align, be32Bytes, ho', adler_model_eq_spec]
  omega

example : Inflate.inflate (zlibStored [[1, 2, 3], [4]] ++ [0x0A]) = .ok [1, 2, 3, 4] :=
  inflate_stored_roundtrip [[1, 2, 3], [4]] [0x0A] (by decide)

end Parsley.C06
