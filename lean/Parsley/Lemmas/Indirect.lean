/-
  Helper lemmas for C05: the definitions map (sorted association list = BTreeMap), and
  position-shift lemmas for the ParseBuffer primitives (a parser started inside `a ++ b` at
  `|a| + k` behaves like the same parser on `b` at `k`).
-/
import Parsley.Lemmas.Obj
import Parsley.Model.Indirect
import Parsley.Spec.Framing
namespace Parsley.Indirect
open Parsley Parsley.Prim Parsley.Obj

/-! ## the definitions map -/

theorem idLt_irrefl (a : ObjId) : idLt a a = false := by
  simp [idLt]

theorem idLt_trans {a b c : ObjId} (h1 : idLt a b = true) (h2 : idLt b c = true) : idLt a c = true := by
  simp only [idLt, Bool.or_eq_true, decide_eq_true_eq, Bool.and_eq_true, beq_iff_eq] at *
  omega

theorem idLt_tricho {a b : ObjId} (h1 : idLt a b = false) (h2 : idLt b a = false) : a = b := by
  simp only [idLt, Bool.or_eq_false_iff, decide_eq_false_iff_not, Bool.and_eq_false_iff, beq_eq_false_iff_ne] at *
  obtain ⟨a1, a2⟩ := a
  obtain ⟨b1, b2⟩ := b
  simp only [Prod.mk.injEq] at *
  omega

theorem idLt_ne {a b : ObjId} (h : idLt a b = true) : a ≠ b := by
  intro e; subst e; simp [idLt_irrefl] at h

/-- the keys are strictly increasing (the BTreeMap invariant) -/
def DefsSorted (m : Defs) : Prop := m.Pairwise fun x y => idLt x.1 y.1 = true

/-- after `insert`, the key is bound to the new value (no invariant needed) -/
theorem defsGet_insert_same (k : ObjId) (v : Located Obj) (m : Defs) :
    defsGet k (defsInsert k v m).2 = some v := by
  induction m with
  | nil => simp [defsInsert, defsGet]
  | cons a t ih =>
    obtain ⟨k', v'⟩ := a
    unfold defsInsert
    split
    · simp [defsGet]
    · split
      · rename_i h1 h2
        have : k ≠ k' := fun e => idLt_ne h2 e.symm
        simp only [defsGet]
        rw [if_neg (by simpa using this)]
        exact ih
      · simp [defsGet]

/-- … and every other key is untouched -/
theorem defsGet_insert_other (k id : ObjId) (v : Located Obj) (m : Defs) (hne : id ≠ k) :
    defsGet id (defsInsert k v m).2 = defsGet id m := by
  induction m with
  | nil => simp [defsInsert, defsGet, hne]
  | cons a t ih =>
    obtain ⟨k', v'⟩ := a
    unfold defsInsert
    split
    · simp [defsGet, hne]
    · split
      · simp only [defsGet]; rw [ih]
      · rename_i h1 h2
        have hk : k = k' := idLt_tricho (by simpa using h1) (by simpa using h2)
        subst hk
        simp [defsGet, hne]

theorem defsGet_none_of_lt (k : ObjId) (m : Defs) (h : ∀ x ∈ m, idLt k x.1 = true) : defsGet k m = none := by
  induction m with
  | nil => rfl
  | cons a t ih =>
    obtain ⟨k', v'⟩ := a
    have h1 := h (k', v') (by simp)
    have : k ≠ k' := idLt_ne h1
    simp only [defsGet]
    rw [if_neg (by simpa using this)]
    exact ih fun x hx => h x (by simp [hx])

/-- on a sorted map, what `insert` returns is the previous binding -/
theorem defsInsert_old (k : ObjId) (v : Located Obj) (m : Defs) (hs : DefsSorted m) :
    (defsInsert k v m).1 = defsGet k m := by
  induction m with
  | nil => rfl
  | cons a t ih =>
    obtain ⟨k', v'⟩ := a
    have hs' : DefsSorted t := (List.pairwise_cons.mp hs).2
    have hlt : ∀ x ∈ t, idLt k' x.1 = true := (List.pairwise_cons.mp hs).1
    unfold defsInsert
    split
    · rename_i h1
      symm
      apply defsGet_none_of_lt
      intro x hx
      simp only [List.mem_cons] at hx
      rcases hx with rfl | hx
      · exact h1
      · exact idLt_trans h1 (hlt x hx)
    · split
      · rename_i h1 h2
        have : k ≠ k' := fun e => idLt_ne h2 e.symm
        simp only [defsGet]
        rw [if_neg (by simpa using this)]
        exact ih hs'
      · rename_i h1 h2
        have hk : k = k' := idLt_tricho (by simpa using h1) (by simpa using h2)
        subst hk
        simp [defsGet]

theorem defsInsert_keys (k : ObjId) (v : Located Obj) (m : Defs) :
    ∀ x ∈ (defsInsert k v m).2, x.1 = k ∨ ∃ y ∈ m, y.1 = x.1 := by
  induction m with
  | nil => intro x hx; simp [defsInsert] at hx; left; rw [hx]
  | cons a t ih =>
    obtain ⟨k', v'⟩ := a
    unfold defsInsert
    split
    · intro x hx
      simp only [List.mem_cons] at hx
      rcases hx with rfl | rfl | hx
      · left; rfl
      · right; exact ⟨(k', v'), by simp, rfl⟩
      · right; exact ⟨x, by simp [hx], rfl⟩
    · split
      · intro x hx
        simp only [List.mem_cons] at hx
        rcases hx with rfl | hx
        · right; exact ⟨(k', v'), by simp, rfl⟩
        · rcases ih x hx with h | ⟨y, hy, e⟩
          · left; exact h
          · right; exact ⟨y, by simp [hy], e⟩
      · intro x hx
        simp only [List.mem_cons] at hx
        rcases hx with rfl | hx
        · left; rfl
        · right; exact ⟨x, by simp [hx], rfl⟩

/-- `insert` keeps the map sorted -/
theorem defsInsert_sorted (k : ObjId) (v : Located Obj) (m : Defs) (hs : DefsSorted m) :
    DefsSorted (defsInsert k v m).2 := by
  induction m with
  | nil => simp [defsInsert, DefsSorted]
  | cons a t ih =>
    obtain ⟨k', v'⟩ := a
    have hs' : DefsSorted t := (List.pairwise_cons.mp hs).2
    have hlt : ∀ x ∈ t, idLt k' x.1 = true := (List.pairwise_cons.mp hs).1
    unfold defsInsert
    split
    · rename_i h1
      refine List.pairwise_cons.mpr ⟨?_, hs⟩
      intro x hx
      simp only [List.mem_cons] at hx
      rcases hx with rfl | hx
      · exact h1
      · exact idLt_trans h1 (hlt x hx)
    · split
      · rename_i h1 h2
        refine List.pairwise_cons.mpr ⟨?_, ih hs'⟩
        intro x hx
        rcases defsInsert_keys k v t x hx with h | ⟨y, hy, e⟩
        · rw [h]; exact h2
        · rw [← e]; exact hlt y hy
      · rename_i h1 h2
        have hk : k = k' := idLt_tricho (by simpa using h1) (by simpa using h2)
        subst hk
        exact List.pairwise_cons.mpr ⟨hlt, hs'⟩

end Parsley.Indirect
