/-
  Helper lemmas for C05: the definitions map (sorted association list = BTreeMap), and
  position-shift lemmas for the ParseBuffer primitives (a parser started inside `a ++ b` at
  `|a| + k` behaves like the same parser on `b` at `k`).
-/
import Parsley.Lemmas.Obj
import Parsley.Model.Indirect
import Parsley.Spec.Framing
namespace Parsley.Indirect
open Parsley Parsley.Prim Parsley.Obj

/-! ## the definitions map -/

theorem idLt_irrefl (a : ObjId) : idLt a a = false := by
  simp [idLt]

theorem idLt_trans {a b c : ObjId} (h1 : idLt a b = true) (h2 : idLt b c = true) : idLt a c = true := by
  simp only [idLt, Bool.or_eq_true, decide_eq_true_eq, Bool.and_eq_true, beq_iff_eq] at *
  omega

theorem idLt_tricho {a b : ObjId} (h1 : idLt a b = false) (h2 : idLt b a = false) : a = b := by
  simp only [idLt, Bool.or_eq_false_iff, decide_eq_false_iff_not, Bool.and_eq_false_iff, beq_eq_false_iff_ne] at *
  obtain ⟨a1, a2⟩ := a
  obtain ⟨b1, b2⟩ := b
  simp only [Prod.mk.injEq] at *
  omega

theorem idLt_ne {a b : ObjId} (h : idLt a b = true) : a ≠ b := by
  intro e; subst e; simp [idLt_irrefl] at h

/-- the keys are strictly increasing (the BTreeMap invariant) -/
def DefsSorted (m : Defs) : Prop := m.Pairwise fun x y => idLt x.1 y.1 = true

/-- after `insert`, the key is bound to the new value (no invariant needed) -/
theorem defsGet_insert_same (k : ObjId) (v : Located Obj) (m : Defs) :
    defsGet k (defsInsert k v m).2 = some v := by
  induction m with
  | nil => simp [defsInsert, defsGet]
  | cons a t ih =>
    obtain ⟨k', v'⟩ := a
    unfold defsInsert
    split
    · simp [defsGet]
    · split
      · rename_i h1 h2
        have : k ≠ k' := fun e => idLt_ne h2 e.symm
        simp only [defsGet]
        rw [if_neg (by simpa using this)]
        exact ih
      · simp [defsGet]

/-- … and every other key is untouched -/
theorem defsGet_insert_other (k id : ObjId) (v : Located Obj) (m : Defs) (hne : id ≠ k) :
    defsGet id (defsInsert k v m).2 = defsGet id m := by
  induction m with
  | nil => simp [defsInsert, defsGet, hne]
  | cons a t ih =>
    obtain ⟨k', v'⟩ := a
    unfold defsInsert
    split
    · simp [defsGet, hne]
    · split
      · simp only [defsGet]; rw [ih]
      · rename_i h1 h2
        have hk : k = k' := idLt_tricho (by simpa using h1) (by simpa using h2)
        subst hk
        simp [defsGet, hne]

theorem defsGet_none_of_lt (k : ObjId) (m : Defs) (h : ∀ x ∈ m, idLt k x.1 = true) : defsGet k m = none := by
  induction m with
  | nil => rfl
  | cons a t ih =>
    obtain ⟨k', v'⟩ := a
    have h1 := h (k', v') (by simp)
    have : k ≠ k' := idLt_ne h1
    simp only [defsGet]
    rw [if_neg (by simpa using this)]
    exact ih fun x hx => h x (by simp [hx])

/-- on a sorted map, what `insert` returns is the previous binding -/
theorem defsInsert_old (k : ObjId) (v : Located Obj) (m : Defs) (hs : DefsSorted m) :
    (defsInsert k v m).1 = defsGet k m := by
  induction m with
  | nil => rfl
  | cons a t ih =>
    obtain ⟨k', v'⟩ := a
    have hs' : DefsSorted t := (List.pairwise_cons.mp hs).2
    have hlt : ∀ x ∈ t, idLt k' x.1 = true := (List.pairwise_cons.mp hs).1
    unfold defsInsert
    split
    · rename_i h1
      symm
      apply defsGet_none_of_lt
      intro x hx
      simp only [List.mem_cons] at hx
      rcases hx with rfl | hx
      · exact h1
      · exact idLt_trans h1 (hlt x hx)
    · split
      · rename_i h1 h2
        have : k ≠ k' := fun e => idLt_ne h2 e.symm
        simp only [defsGet]
        rw [if_neg (by simpa using this)]
        exact ih hs'
      · rename_i h1 h2
        have hk : k = k' := idLt_tricho (by simpa using h1) (by simpa using h2)
        subst hk
        simp [defsGet]

theorem defsInsert_keys (k : ObjId) (v : Located Obj) (m : Defs) :
    ∀ x ∈ (defsInsert k v m).2, x.1 = k ∨ ∃ y ∈ m, y.1 = x.1 := by
  induction m with
  | nil => intro x hx; simp [defsInsert] at hx; left; rw [hx]
  | cons a t ih =>
    obtain ⟨k', v'⟩ := a
    unfold defsInsert
    split
    · intro x hx
      simp only [List.mem_cons] at hx
      rcases hx with rfl | rfl | hx
      · left; rfl
      · right; exact ⟨(k', v'), by simp, rfl⟩
      · right; exact ⟨x, by simp [hx], rfl⟩
    · split
      · intro x hx
        simp only [List.mem_cons] at hx
        rcases hx with rfl | hx
        · right; exact ⟨(k', v'), by simp, rfl⟩
        · rcases ih x hx with h | ⟨y, hy, e⟩
          · left; exact h
          · right; exact ⟨y, by simp [hy], e⟩
      · intro x hx
        simp only [List.mem_cons] at hx
        rcases hx with rfl | hx
        · left; rfl
        · right; exact ⟨x, by simp [hx], rfl⟩

/-- `insert` keeps the map sorted -/
theorem defsInsert_sorted (k : ObjId) (v : Located Obj) (m : Defs) (hs : DefsSorted m) :
    DefsSorted (defsInsert k v m).2 := by
  induction m with
  | nil => simp [defsInsert, DefsSorted]
  | cons a t ih =>
    obtain ⟨k', v'⟩ := a
    have hs' : DefsSorted t := (List.pairwise_cons.mp hs).2
    have hlt : ∀ x ∈ t, idLt k' x.1 = true := (List.pairwise_cons.mp hs).1
    unfold defsInsert
    split
    · rename_i h1
      refine List.pairwise_cons.mpr ⟨?_, hs⟩
      intro x hx
      simp only [List.mem_cons] at hx
      rcases hx with rfl | hx
      · exact h1
      · exact idLt_trans h1 (hlt x hx)
    · split
      · rename_i h1 h2
        refine List.pairwise_cons.mpr ⟨?_, ih hs'⟩
        intro x hx
        rcases defsInsert_keys k v t x hx with h | ⟨y, hy, e⟩
        · rw [h]; exact h2
        · rw [← e]; exact hlt y hy
      · rename_i h1 h2
        have hk : k = k' := idLt_tricho (by simpa using h1) (by simpa using h2)
        subst hk
        exact List.pairwise_cons.mpr ⟨hlt, hs'⟩

/-! ## shift lemmas -/

theorem peek_shift (a b : Bytes) (k : Nat) : peek (a ++ b) (a.length + k) = peek b k := by
  simp [peek, List.getElem?_append_right]

theorem drop_shift (a b : Bytes) (k : Nat) : (a ++ b).drop (a.length + k) = b.drop k := by
  rw [List.drop_append]
  simp

theorem startsWith_shift (t a b : Bytes) (k : Nat) : startsWith t (a ++ b) (a.length + k) = startsWith t b k := by
  simp [startsWith]

theorem exact_shift (t a b : Bytes) (k : Nat) :
    exact t (a ++ b) (a.length + k) = ((exact t b k).1, a.length + (exact t b k).2) := by
  unfold exact
  rw [startsWith_shift]
  split <;> simp <;> omega

theorem skipByte_shift (c : UInt8) (a b : Bytes) (k : Nat) :
    skipByte c (a ++ b) (a.length + k) = a.length + skipByte c b k := by
  unfold skipByte
  rw [peek_shift]
  split <;> omega

/-- move a stream-content result by `d` positions -/
def shiftSC (d : Nat) : Res (Located StreamContent) × Nat → Res (Located StreamContent) × Nat
  | (.ok v, c) => (.ok ⟨⟨d + v.val.start, v.val.size, v.val.content⟩, d + v.start, d + v.stop⟩, d + c)
  | (.err k, c) => (.err k, d + c)
  | (.panic m, c) => (.panic m, d + c)

theorem beq_add_left (a x y : Nat) : (a + x == a + y) = (x == y) := by
  by_cases h : x = y
  · subst h; rw [beq_self_eq_true, beq_self_eq_true]
  · have : a + x ≠ a + y := by omega
    rw [beq_eq_false_iff_ne.mpr h, beq_eq_false_iff_ne.mpr this]

theorem beq_self_add (x y : Nat) : (x == x + y) = (y == 0) := by
  by_cases h : y = 0
  · subst h; simp
  · have : x ≠ x + y := by omega
    rw [beq_eq_false_iff_ne.mpr h, beq_eq_false_iff_ne.mpr this]

theorem streamContentP_shift (n : Nat) (strict : Bool) (a b : Bytes) (k : Nat) :
    streamContentP n strict (a ++ b) (a.length + k) = shiftSC a.length (streamContentP n strict b k) := by
  unfold streamContentP
  rw [exact_shift]
  cases h0 : exact kwStream b k with
  | mk r j0 =>
    cases r with
    | false => simp [shiftSC]
    | true =>
      simp only
      rw [skipByte_shift, peek_shift]
      split
      · simp [shiftSC]
      · simp only [Nat.add_assoc, List.length_append, Nat.add_sub_add_left, drop_shift, skipByte_shift, exact_shift,
          beq_add_left]
        split
        · simp [shiftSC]
        · split
          · simp [shiftSC]
          · cases exact kwEndstream b (skipByte 10 b (skipByte 13 b (skipByte 13 b j0 + (1 + n)))) with
            | mk r e3 => cases r <;> simp [shiftSC]

theorem skipByte_at {c : UInt8} {a b : Bytes} {j : Nat} (h : j = a.length) :
    skipByte c (a ++ b) j = j + skipByte c b 0 := by
  subst h; simpa using skipByte_shift c a b 0

theorem skipByte_at' {c : UInt8} {a b : Bytes} {j k : Nat} (h : j = a.length + k) :
    skipByte c (a ++ b) j = a.length + skipByte c b k := by
  subst h; exact skipByte_shift c a b k

theorem exact_at' {t a b : Bytes} {j k : Nat} (h : j = a.length + k) :
    exact t (a ++ b) j = ((exact t b k).1, a.length + (exact t b k).2) := by
  subst h; exact exact_shift t a b k

/-- the model's closing steps on the bytes after the data: length of `[CR][LF] endstream` -/
def closeLen (strict : Bool) (post : Bytes) : Option Nat :=
  let e2 := skipByte 10 post (skipByte 13 post 0)
  if strict && e2 == 0 then none
  else if startsWith kwEndstream post e2 then some (e2 + 9) else none

theorem head_facts (e1 rest : Bytes) (he : e1 ∈ Framing.eolsAfterStream) :
    exact kwStream (kwStream ++ e1 ++ rest) 0 = (true, 6) ∧
    skipByte 13 (kwStream ++ e1 ++ rest) 6 + 1 = 6 + e1.length ∧
    peek (kwStream ++ e1 ++ rest) (skipByte 13 (kwStream ++ e1 ++ rest) 6) = some 10 := by
  simp only [Framing.eolsAfterStream, List.mem_cons, List.not_mem_nil, or_false] at he
  rcases he with rfl | rfl
  · simp [exact, startsWith, kwStream, skipByte, peek]
  · simp [exact, startsWith, kwStream, skipByte, peek]

theorem streamContentP_closed (n : Nat) (strict : Bool) (e1 w post : Bytes)
    (he : e1 ∈ Framing.eolsAfterStream) (hw : w.length = n) :
    streamContentP n strict (kwStream ++ e1 ++ w ++ post) 0 =
      match closeLen strict post with
      | some k => (.ok ⟨⟨6 + e1.length, n, w⟩, 0, 6 + e1.length + n + k⟩, 6 + e1.length + n + k)
      | none => (.err .guard, 0) := by
  have hh := head_facts e1 (w ++ post) he
  have hs : kwStream ++ e1 ++ (w ++ post) = kwStream ++ e1 ++ w ++ post := by simp
  rw [hs] at hh
  obtain ⟨h1, h2, h3⟩ := hh
  have hlen : (kwStream ++ e1 ++ w).length = 6 + e1.length + n := by simp [kwStream, hw]; omega
  unfold streamContentP
  rw [h1]
  simp only [h3, h2]
  have hd : (kwStream ++ e1 ++ w ++ post).drop (6 + e1.length) = w ++ post := by
    have : (kwStream ++ e1).length = 6 + e1.length := by simp [kwStream]; omega
    rw [← this, List.append_assoc (kwStream ++ e1), List.drop_left]
  have hL : (kwStream ++ e1 ++ w ++ post).length - (6 + e1.length) < n ↔ False := by
    simp [kwStream]; omega
  rw [hd, ← hw, List.take_left]
  simp only [bne_self_eq_false, Bool.false_eq_true, if_false]
  rw [if_neg (by have : kwStream.length = 6 := rfl
                 simp only [List.length_append]; omega)]
  have hl : 6 + e1.length + w.length = (kwStream ++ e1 ++ w).length + 0 := by omega
  rw [skipByte_at' (a := kwStream ++ e1 ++ w) (b := post) (k := 0) hl]
  rw [skipByte_at' (a := kwStream ++ e1 ++ w) (b := post) (k := skipByte 13 post 0) rfl]
  rw [exact_at' (a := kwStream ++ e1 ++ w) (b := post) (k := skipByte 10 post (skipByte 13 post 0)) rfl]
  rw [hlen, ← hw, beq_self_add]
  unfold closeLen
  simp only
  cases hc : (strict && skipByte 10 post (skipByte 13 post 0) == 0)
  · simp only [Bool.false_eq_true, if_false]
    unfold exact
    cases hsw : startsWith kwEndstream post (skipByte 10 post (skipByte 13 post 0))
    · simp
    · simp [kwEndstream]
  · simp

theorem take_skip (post : Bytes) :
    post.take (skipByte 10 post (skipByte 13 post 0)) ∈ Framing.eolsBeforeEndstream ∧
    (post.take (skipByte 10 post (skipByte 13 post 0))).length = skipByte 10 post (skipByte 13 post 0) := by
  rcases post with _ | ⟨x, _ | ⟨y, t⟩⟩
  · simp [skipByte, peek, Framing.eolsBeforeEndstream]
  · by_cases hx : x = 13
    · subst hx; simp [skipByte, peek, Framing.eolsBeforeEndstream]
    · by_cases hx2 : x = 10
      · subst hx2; simp [skipByte, peek, Framing.eolsBeforeEndstream]
      · simp [skipByte, peek, Framing.eolsBeforeEndstream, hx, hx2]
  · by_cases hx : x = 13
    · subst hx
      by_cases hy : y = 10
      · subst hy; simp [skipByte, peek, Framing.eolsBeforeEndstream]
      · simp [skipByte, peek, Framing.eolsBeforeEndstream, hy]
    · by_cases hx2 : x = 10
      · subst hx2; simp [skipByte, peek, Framing.eolsBeforeEndstream]
      · simp [skipByte, peek, Framing.eolsBeforeEndstream, hx, hx2]

theorem closeLen_iff (strict : Bool) (post : Bytes) (k : Nat) :
    closeLen strict post = some k ↔
      ∃ e2 ∈ Framing.eolsBeforeEndstream, ∃ tail : Bytes,
        post = e2 ++ kwEndstream ++ tail ∧ k = e2.length + 9 ∧ (strict = true → e2 ≠ []) := by
  constructor
  · intro h
    unfold closeLen at h
    simp only at h
    obtain ⟨hm, hl⟩ := take_skip post
    split at h
    · cases h
    · rename_i hc
      split at h
      · rename_i hsw
        cases h
        obtain ⟨tail, ht⟩ := List.isPrefixOf_iff_prefix.mp hsw
        refine ⟨_, hm, tail, ?_, by rw [hl], ?_⟩
        · rw [List.append_assoc, ht, List.take_append_drop]
        · intro hs he
          apply hc
          rw [hs, ← hl, he]; rfl
      · cases h
  · rintro ⟨e2, hm, tail, rfl, rfl, hs⟩
    simp only [Framing.eolsBeforeEndstream, List.mem_cons, List.not_mem_nil, or_false] at hm
    rcases hm with rfl | rfl | rfl | rfl
    · cases strict <;> simp_all [closeLen, skipByte, peek, startsWith, kwEndstream]
    · cases strict <;> simp [closeLen, skipByte, peek, startsWith, kwEndstream]
    · cases strict <;> simp [closeLen, skipByte, peek, startsWith, kwEndstream]
    · cases strict <;> simp [closeLen, skipByte, peek, startsWith, kwEndstream]

theorem streamContentP_nokw (n : Nat) (strict : Bool) (b : Bytes) (h : ¬ kwStream <+: b) :
    streamContentP n strict b 0 = (.err .guard, 0) := by
  have : exact kwStream b 0 = (false, 0) := by
    unfold exact startsWith
    rw [List.drop_zero]
    cases hh : kwStream.isPrefixOf b
    · rfl
    · exact absurd (List.isPrefixOf_iff_prefix.mp hh) h
  unfold streamContentP
  rw [this]

theorem streamContentP_badeol (n : Nat) (strict : Bool) (r : Bytes)
    (h : ∀ e1 ∈ Framing.eolsAfterStream, ¬ e1 <+: r) :
    streamContentP n strict (kwStream ++ r) 0 = (.err .guard, 0) := by
  have h10 := h [10] (by simp [Framing.eolsAfterStream])
  have h1310 := h [13, 10] (by simp [Framing.eolsAfterStream])
  rcases r with _ | ⟨x, _ | ⟨y, t⟩⟩
  · simp [streamContentP, exact, startsWith, kwStream, skipByte, peek]
  · have hx : x ≠ 10 := by intro e; subst e; exact h10 ⟨[], rfl⟩
    by_cases hx2 : x = 13
    · subst hx2; simp [streamContentP, exact, startsWith, kwStream, skipByte, peek]
    · simp [streamContentP, exact, startsWith, kwStream, skipByte, peek, hx, hx2]
  · have hx : x ≠ 10 := by intro e; subst e; exact h10 ⟨y :: t, rfl⟩
    by_cases hx2 : x = 13
    · subst hx2
      have hy : y ≠ 10 := by intro e; subst e; exact h1310 ⟨t, rfl⟩
      simp [streamContentP, exact, startsWith, kwStream, skipByte, peek, hy]
    · simp [streamContentP, exact, startsWith, kwStream, skipByte, peek, hx, hx2]

theorem streamContentP_short (n : Nat) (strict : Bool) (e1 r' : Bytes)
    (he : e1 ∈ Framing.eolsAfterStream) (hl : r'.length < n) :
    streamContentP n strict (kwStream ++ e1 ++ r') 0 = (.err .eob, 0) := by
  obtain ⟨h1, h2, h3⟩ := head_facts e1 r' he
  unfold streamContentP
  rw [h1]
  simp only [h3, h2]
  simp only [bne_self_eq_false, Bool.false_eq_true, if_false]
  rw [if_pos (by have : kwStream.length = 6 := rfl
                 simp only [List.length_append]; omega)]

/-! ## StreamContentP at an arbitrary position -/

theorem streamContentP_at (n : Nat) (strict : Bool) (s : Bytes) (p : Nat) (hp : p ≤ s.length) :
    streamContentP n strict s p = shiftSC p (streamContentP n strict (s.drop p) 0) := by
  have h := streamContentP_shift n strict (s.take p) (s.drop p) 0
  rw [List.take_append_drop, List.length_take, Nat.min_eq_left hp, Nat.add_zero] at h
  exact h

/-- replace the content of a successful result -/
def setContent (w : Bytes) : Res (Located StreamContent) × Nat → Res (Located StreamContent) × Nat
  | (.ok v, c) => (.ok ⟨⟨v.val.start, v.val.size, w⟩, v.start, v.stop⟩, c)
  | r => r

end Parsley.Indirect
