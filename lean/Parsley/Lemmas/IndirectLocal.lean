/-
  Locality of the indirect-object head (C05 follow-up).

  Lemmas/Trunc.lean and Lemmas/TruncObj.lean prove *suffix truncation*: a successful parse on a
  buffer is also a successful parse on the buffer cut after its end.  This file proves the converse
  direction, *extension*: a successful parse on a truncated buffer `s.take n` that ends strictly
  before the cut is the parse on the whole buffer `s` (`Ext p`), for every token parser of
  Model/Prim.lean and for the object parser of Model/Obj.lean (number / reference look-ahead,
  arrays, dictionaries, every nesting budget).  The only delicate point is the reference look-ahead
  after an integer: the extension of an integer needs the look-ahead to fail on the whole buffer;
  inside arrays and dictionaries this follows from the success of the rest of the loop
  (`arrayLoop_noLA`, `dictLoop_noLA`).

  Truncation + extension = **locality**: if two buffers agree on their first `n` bytes, a parse
  that succeeds on one of them and ends before `n` is the parse on the other (`tok_local`,
  `parseObjB_local`, `parseObj_local`, `indirectHead_local`; the cut must not fall immediately after
  an `R`, and an integer result needs the reference look-ahead to fail on the other buffer too —
  both void for the `<<dict>> stream EOL` heads of C05).  Also here: `parse_pdf_obj` never returns a
  stream object (`parseObjB_not_stream`, `indirectHead_not_stream`) and a parsed head consumes input
  (`indirectHead_progress`).  Props/C05Whole.lean lifts `stream_no_resync` and `stream_framing` to
  the whole indirect-object parser with these.
-/
import Parsley.Lemmas.TruncObj
import Parsley.Lemmas.Indirect
import Parsley.Props.C02Struct
namespace Parsley.IndirectLocal
open Parsley Parsley.Prim Parsley.Obj Parsley.C02 Parsley.C15 Parsley.Trunc Parsley.Indirect

/-! ## primitives -/

/-- a run of allowed bytes that ends strictly inside the truncated buffer is the run of the full buffer -/
theorem allowed_ext {f : UInt8 → Bool} {s : Bytes} {n i : Nat} (h : (allowed f (s.take n) i).2 < n) :
    allowed f (s.take n) i = allowed f s i := by
  rw [allowed_take] at h ⊢
  have hs := allowed_snd f s i
  simp only at h
  have hl : (allowed f s i).1.length ≤ n - i := by omega
  rw [List.take_of_length_le hl, Nat.min_eq_left hl, ← hs]

theorem untilB_ext {f : UInt8 → Bool} {s : Bytes} {n i : Nat} (h : (untilB f (s.take n) i).2 < n) :
    untilB f (s.take n) i = untilB f s i := allowed_ext h

theorem startsWith_ext {tag s : Bytes} {n i : Nat} (h : startsWith tag (s.take n) i = true) :
    startsWith tag s i = true := by
  rw [startsWith_take] at h
  simp only [Bool.and_eq_true] at h
  exact h.1

theorem exact_ext_ok {tag s : Bytes} {n i j : Nat} (h : exact tag (s.take n) i = (true, j)) :
    exact tag s i = (true, j) := by
  unfold exact at h ⊢
  split at h
  · rename_i hs
    cases h
    simp [startsWith_ext hs]
  · cases h

/-- a tag that does not match on the truncated buffer although it would fit does not match on the full one -/
theorem exact_ext_fail {tag s : Bytes} {n i j : Nat} (h : exact tag (s.take n) i = (false, j))
    (hfit : i + tag.length ≤ n) : exact tag s i = (false, i) := by
  unfold exact at h ⊢
  split at h
  · cases h
  · rename_i hs
    have : startsWith tag s i = false := by
      rw [startsWith_take] at hs
      have hd : decide (tag.length ≤ n - i) = true := by simp; omega
      rw [hd, Bool.and_true] at hs
      simpa using hs
    simp [this]

/-- `exact` of a one-byte tag fails on the full buffer when it fails strictly inside the truncated one -/
theorem exact1_ext_fail {b : UInt8} {s : Bytes} {n i j : Nat} (h : exact [b] (s.take n) i = (false, j))
    (hin : i < n) : exact [b] s i = (false, i) :=
  exact_ext_fail h (by simp; omega)

/-- what a parser guarantees under extension of a truncated buffer: a success that ends strictly
    before the cut is the result on the whole buffer -/
def Ext {α : Type} (p : P α) : Prop :=
  ∀ (s : Bytes) (i n : Nat) (v : Located α) (c : Nat), n ≤ s.length →
    p (s.take n) i = (.ok v, c) → c < n → p s i = (.ok v, c)

theorem take_len {s : Bytes} {n : Nat} (hn : n ≤ s.length) : (s.take n).length = n := by
  simp only [List.length_take]; omega

/-! ## token parsers -/

theorem wsEOL_Ext (e : Bool) : Ext (wsEOL e) := by
  intro s i n v c hn h hc
  have hin : i ≤ n := by
    by_cases hh : i ≤ n
    · exact hh
    · exfalso
      -- beyond the end of the truncated buffer the loop has no fuel
      have hl := take_len hn
      have hf : (s.take n).length + 1 - i = 0 := by omega
      unfold wsEOL at h
      rw [hf] at h
      simp [wsEOLLoop] at h
  exact wsEOL_ext e s i n v c (by omega) hin h hc

theorem integerP_Ext : Ext integerP := by
  intro s i n v c hn h hc
  exact integerP_ext s i n v c h hc

theorem comment_Ext : Ext comment := by
  intro s i n v c hn h hc
  unfold comment at h ⊢
  split at h
  · cases h
  · rename_i hp
    have hp37 : peek (s.take n) i = some 37 := by simpa using hp
    obtain ⟨hps, hin⟩ := peek_take_some hp37
    rw [if_neg (by simp [hps])]
    simp only at h ⊢
    split at h
    · rename_i h10
      cases h
      have hj : (untilB (fun x => x == 10) (s.take n) (i + 1)).2 < n := by omega
      have h10' : peek (s.take n) (untilB (fun x => x == 10) (s.take n) (i + 1)).2 = some 10 := by simpa using h10
      rw [untilB_ext hj] at h10' ⊢
      rw [if_pos (by simp [(peek_take_some h10').1])]
    · rename_i h10
      cases h
      have hj : (untilB (fun x => x == 10) (s.take n) (i + 1)).2 < n := hc
      rw [untilB_ext hj] at h10 hc ⊢
      rw [peek_take_lt hc] at h10
      rw [if_neg h10]

theorem boolean_Ext : Ext boolean := by
  intro s i n v c hn h hc
  unfold boolean at h ⊢
  split at h
  · rename_i j h1
    cases h
    rw [exact_ext_ok h1]
  · rename_i j h1
    split at h
    · rename_i j2 h2
      cases h
      have e2 := exact_ext_ok h2
      have hfit : i + 5 ≤ n := by
        unfold exact at h2; split at h2
        · rename_i hs
          have := startsWith_bound hs
          have hl := take_len hn
          simp only [kwFalse, List.length_cons, List.length_nil] at this
          omega
        · cases h2
      rw [exact_ext_fail h1 (by simp [kwTrue]; omega), e2]
    · cases h

theorem null_Ext : Ext null := by
  intro s i n v c hn h hc
  unfold null at h ⊢
  split at h
  · rename_i j h1
    cases h
    rw [exact_ext_ok h1]
  · cases h

theorem signPrefix_ext {s : Bytes} {n i : Nat} (h : i < n) : signPrefix (s.take n) i = signPrefix s i :=
  signPrefix_take_lt h

theorem realP_Ext : Ext realP := by
  intro s i n v c hn h hc
  have hl := take_len hn
  have hp := Parsley.Obj.realP_progress (s.take n) i (by
    by_cases hh : i ≤ (s.take n).length
    · exact hh
    · exfalso
      rw [hl] at hh
      have hpk : ∀ j, n ≤ j → peek (s.take n) j = none := fun j hj => peek_take_ge hj
      unfold realP signPrefix allowed at h
      have hd : ∀ j, n ≤ j → (s.take n).drop j = [] := fun j hj => List.drop_eq_nil_of_le (by omega)
      simp [hpk i (by omega), hd i (by omega)] at h)
  rw [h] at hp
  obtain ⟨-, -, hic, -⟩ := hp
  have hin : i < n := by omega
  unfold realP at h ⊢
  rw [signPrefix_ext hin] at h
  simp only at h ⊢
  have h1 := signPrefix_ge s i
  -- the integer digits end before the cut in every successful case
  have key : (allowed isDigit (s.take n) (signPrefix s i).2).2 < n := by
    have a3 := allowed_snd isDigit (s.take n) ((allowed isDigit (s.take n) (signPrefix s i).2).2 + 1)
    split at h
    · cases h
    · split at h
      · cases h
      · split at h
        · split at h
          · cases h
          · cases h; omega
        · cases h; exact hc
  rw [allowed_ext key] at h
  have hjn : (allowed isDigit s (signPrefix s i).2).2 < n := by rw [← allowed_ext key]; exact key
  rw [peek_take_lt hjn] at h
  split at h
  · cases h
  · rename_i hg
    rw [if_neg hg]
    split at h
    · cases h
    · rename_i m hacc
      split at h
      · rename_i hdot
        rw [if_pos hdot]
        have key2 : (allowed isDigit (s.take n) ((allowed isDigit s (signPrefix s i).2).2 + 1)).2 < n := by
          split at h
          · cases h
          · cases h; exact hc
        rw [allowed_ext key2] at h
        exact h
      · rename_i hdot
        rw [if_neg hdot]
        exact h

theorem hexString_Ext : Ext hexString := by
  intro s i n v c hn h hc
  unfold hexString at h ⊢
  split at h
  · cases h
  · rename_i hp
    have hp60 : peek (s.take n) i = some 60 := by simpa using hp
    obtain ⟨hps, hin⟩ := peek_take_some hp60
    rw [if_neg (by simp [hps])]
    simp only at h ⊢
    split at h
    · cases h
    · rename_i hp2
      cases h
      have hj : (allowed (fun b => isHexDigit b || isHexWs b) (s.take n) (i + 1)).2 < n := by omega
      have hp62 : peek (s.take n) (allowed (fun b => isHexDigit b || isHexWs b) (s.take n) (i + 1)).2 = some 62 := by
        simpa using hp2
      rw [allowed_ext hj] at hp62 ⊢
      rw [if_neg (by simp [(peek_take_some hp62).1])]

theorem litLoop_ext (l : Bytes) (m pos : Nat) (ls : Option Nat) (depth : Nat) (acc v : Bytes) (j : Nat)
    (h : litLoop (l.take m) pos ls depth acc = some (v, j)) :
    litLoop l pos ls depth acc = some (v, j) := by
  induction l generalizing m pos ls depth acc with
  | nil => simp [litLoop] at h
  | cons b t ih =>
    cases m with
    | zero => simp [litLoop] at h
    | succ m =>
      rw [List.take_succ_cons] at h
      cases ls with
      | none =>
        unfold litLoop at h ⊢
        simp only [Bool.false_eq_true, if_false] at h ⊢
        by_cases h40 : (b == 40) = true
        · rw [if_pos h40] at h ⊢; exact ih _ _ _ _ _ h
        · rw [if_neg h40] at h ⊢
          by_cases h41 : (b == 41) = true
          · rw [if_pos h41] at h ⊢
            by_cases hd : (depth - 1 == 0) = true
            · rw [if_pos hd] at h ⊢; exact h
            · rw [if_neg hd] at h ⊢; exact ih _ _ _ _ _ h
          · rw [if_neg h41] at h ⊢
            by_cases h92 : (b == 92) = true
            · rw [if_pos h92] at h ⊢; exact ih _ _ _ _ _ h
            · rw [if_neg h92] at h ⊢; exact ih _ _ _ _ _ h
      | some p =>
        unfold litLoop at h ⊢
        simp only at h ⊢
        by_cases hesc : (p + 1 == pos) = true
        · simp only [hesc, if_true] at h ⊢
          by_cases h40 : (b == 40) = true
          · rw [if_pos h40] at h ⊢; exact ih _ _ _ _ _ h
          · rw [if_neg h40] at h ⊢
            by_cases h41 : (b == 41) = true
            · rw [if_pos h41] at h ⊢; exact ih _ _ _ _ _ h
            · rw [if_neg h41] at h ⊢
              by_cases h92 : (b == 92) = true
              · rw [if_pos h92] at h ⊢; exact ih _ _ _ _ _ h
              · rw [if_neg h92] at h ⊢; exact ih _ _ _ _ _ h
        · simp only [hesc, Bool.false_eq_true, if_false] at h ⊢
          by_cases h40 : (b == 40) = true
          · rw [if_pos h40] at h ⊢; exact ih _ _ _ _ _ h
          · rw [if_neg h40] at h ⊢
            by_cases h41 : (b == 41) = true
            · rw [if_pos h41] at h ⊢
              by_cases hd : (depth - 1 == 0) = true
              · rw [if_pos hd] at h ⊢; exact h
              · rw [if_neg hd] at h ⊢; exact ih _ _ _ _ _ h
            · rw [if_neg h41] at h ⊢
              by_cases h92 : (b == 92) = true
              · rw [if_pos h92] at h ⊢; exact ih _ _ _ _ _ h
              · rw [if_neg h92] at h ⊢; exact ih _ _ _ _ _ h

theorem rawLitString_Ext : Ext rawLitString := by
  intro s i n v c hn h hc
  unfold rawLitString at h ⊢
  split at h
  · cases h
  · rename_i hp
    have hp40 : peek (s.take n) i = some 40 := by simpa using hp
    obtain ⟨hps, hin⟩ := peek_take_some hp40
    rw [if_neg (by simp [hps])]
    split at h
    · cases h
    · rename_i w j hl
      cases h
      rw [drop_take'] at hl
      rw [litLoop_ext _ _ _ _ _ _ _ _ hl]

theorem nameP_Ext : Ext nameP := by
  intro s i n v c hn h hc
  unfold nameP at h ⊢
  split at h
  · cases h
  · rename_i hp
    have hp47 : peek (s.take n) i = some 47 := by simpa using hp
    obtain ⟨hps, hin⟩ := peek_take_some hp47
    rw [if_neg (by simp [hps])]
    simp only at h ⊢
    split at h
    · cases h
    · rename_i r hd
      cases h
      have hj : (untilB isNameTerm (s.take n) (i + 1)).2 < n := hc
      rw [untilB_ext hj] at hd ⊢
      rw [hd]

/-! ## the number / reference branch -/

theorem realP_ok_in {s : Bytes} {i j : Nat} {r : Located (Int × Nat)} (h : realP s i = (.ok r, j)) :
    i ≤ s.length := by
  by_cases hh : i ≤ s.length
  · exact hh
  · exfalso
    have hpk : peek s i = none := by unfold peek; simp; omega
    have hd : s.drop i = [] := List.drop_eq_nil_of_le (by omega)
    unfold realP signPrefix allowed at h
    simp [hpk, hd] at h

/-- **extension of the number / reference branch**: a number parsed on the truncated buffer that ends
    strictly before the cut is the number parsed on the whole buffer, provided — for an integer — the
    reference look-ahead fails on the whole buffer (on the truncated buffer it failed). -/
theorem numberOrRef_ext (s : Bytes) (i n : Nat) (o : Obj) (c : Nat) (hn : n ≤ s.length)
    (h : numberOrRef (s.take n) i = (.ok o, c)) (hc : c < n)
    (hnl : (∃ z, o = .int z) → lookAhead s c = false) : numberOrRef s i = (.ok o, c) := by
  have hl := take_len hn
  cases hr : realP (s.take n) i with
  | mk rr j =>
    cases rr with
    | err k => unfold numberOrRef at h; rw [hr] at h; cases h
    | panic q => unfold numberOrRef at h; rw [hr] at h; cases h
    | ok r =>
      have hit : i ≤ (s.take n).length := realP_ok_in hr
      have pr := realP_progress (s.take n) i hit
      rw [hr] at pr
      obtain ⟨r1, r2, r3, r4⟩ := pr
      rw [hl] at r4 hit
      by_cases hint : (r.val.2 == 1 && decide (-(2 ^ 63 : Int) ≤ r.val.1) && decide (r.val.1 ≤ (2 ^ 63 - 1 : Int))) = true
      · have hd : r.val.2 = 1 := by simp only [Bool.and_eq_true, beq_iff_eq] at hint; exact hint.1.1
        have hrange : -(2 ^ 63 : Int) ≤ r.val.1 ∧ r.val.1 ≤ (2 ^ 63 - 1 : Int) := by
          simp only [Bool.and_eq_true, decide_eq_true_eq] at hint; exact ⟨hint.1.2, hint.2⟩
        have hr' : realP (s.take n) i = (.ok ⟨(r.val.1, 1), i, j⟩, j) := by
          rw [hr]; congr 2
          obtain ⟨⟨m, d⟩, st, sp⟩ := r
          simp only at hd r1 r2
          subst hd r1 r2; rfl
        have hst := numberOrRef_after_int (s.take n) i j r.val.1 (by omega) hr' hrange
        rw [hst] at h
        by_cases hla : lookAhead (s.take n) j = true
        · rw [if_pos hla] at h
          obtain ⟨g, j1, j2, j3, hLAt⟩ := (lookAhead_iff _ j).mp hla
          cases hrf : referenceP (s.take n) i with
          | mk rf c4 =>
            rw [hrf] at h
            cases rf with
            | err k => cases h
            | panic q => cases h
            | ok ag =>
              obtain ⟨a, g'⟩ := ag
              simp only [Prod.mk.injEq, Res.ok.injEq] at h
              obtain ⟨ho, hcc⟩ := h
              subst hcc
              obtain ⟨num, h0t⟩ := ref_first_int (s.take n) i (by omega) _ j hr a g' c4 hrf
              have hrf2 := referenceP_of_LA h0t hLAt
              rw [hrf] at hrf2
              have hc4 : c4 = j3 + 1 := by
                split at hrf2
                · cases hrf2
                · split at hrf2
                  · cases hrf2
                  · cases hrf2; rfl
              obtain ⟨e1, e2, e3, e4⟩ := LA_ext n (by omega) r4 hn hLAt
              have hLAs := e3 (by omega)
              have hjn : j < n := by omega
              have hrs : realP s i = (.ok ⟨(r.val.1, 1), i, j⟩, j) := realP_Ext s i n _ j hn hr' hjn
              have h0s := integerP_ext s i n num j h0t hjn
              have hss := numberOrRef_after_int s i j r.val.1 (by omega) hrs hrange
              have hlas : lookAhead s j = true := (lookAhead_iff s j).mpr ⟨g, j1, j2, j3, hLAs⟩
              rw [hss, if_pos hlas, referenceP_of_LA h0s hLAs, ← referenceP_of_LA h0t hLAt, hrf]
              simp only [ho]
        · rw [if_neg hla] at h
          simp only [Prod.mk.injEq, Res.ok.injEq] at h
          obtain ⟨ho, hcc⟩ := h
          subst hcc
          have hrs : realP s i = (.ok ⟨(r.val.1, 1), i, j⟩, j) := realP_Ext s i n _ j hn hr' hc
          have hss := numberOrRef_after_int s i j r.val.1 (by omega) hrs hrange
          have hlas : lookAhead s j = false := hnl ⟨_, ho.symm⟩
          rw [hss, hlas, ho]
          simp
      · unfold numberOrRef at h ⊢
        rw [hr] at h
        have hnot : (!(r.val.2 == 1 && decide (-(2 ^ 63 : Int) ≤ r.val.1) && decide (r.val.1 ≤ (2 ^ 63 - 1 : Int)))) = true := by
          rw [Bool.not_eq_true']; exact Bool.eq_false_iff.mpr hint
        simp only at h
        rw [if_pos hnot] at h
        simp only [Prod.mk.injEq, Res.ok.injEq] at h
        obtain ⟨ho, hcc⟩ := h
        subst hcc
        rw [realP_Ext s i n r j hn hr hc]
        simp only
        rw [if_pos hnot, ho]

/-! ## the look-ahead fails in front of the rest of a successful array / dictionary loop -/

theorem peek_head (s : Bytes) (j : Nat) : peek s j = (s.drop j).head? := by
  simp [peek, List.head?_drop]

theorem wsEOL_true_stay {s : Bytes} {j : Nat} {b : UInt8} (hj : j ≤ s.length) (hp : peek s j = some b)
    (h1 : isWsEol b = false) (h2 : b ≠ 37) : wsEOL true s j = (.ok ⟨(), j, j⟩, j) := by
  rw [wsEOL_eq true s j hj, drop_of_peek hp, skipWs]
  simp [h1, h2]

theorem integerP_at_nondigit {s : Bytes} {j : Nat} {b : UInt8} (hp : peek s j = some b)
    (hd : isDigit b = false) (h45 : b ≠ 45) (h43 : b ≠ 43) : integerP s j = (.err .guard, j) := by
  unfold integerP signPrefix allowed
  simp [hp, drop_of_peek hp, hd, h45, h43]

theorem lookAhead_false_at {s : Bytes} {i j : Nat} {u : Located Unit} {b : UInt8}
    (hw : wsEOL true s i = (.ok u, j)) (hp : peek s j = some b)
    (hd : isDigit b = false) (h45 : b ≠ 45) (h43 : b ≠ 43) : lookAhead s i = false := by
  cases hf : wsEOL false s i with
  | mk r j' =>
    cases r with
    | ok u' =>
      have := ws_false_true hf
      rw [hw] at this
      simp only [Prod.mk.injEq, Res.ok.injEq] at this
      obtain ⟨-, hjj⟩ := this
      subst hjj
      exact lookAhead_int_err s i j j u' .guard hf (integerP_at_nondigit hp hd h45 h43)
    | err k => exact lookAhead_ws_err s i k j' hf
    | panic q => unfold lookAhead; rw [hf]

/-- the rest of a successful dictionary loop starts (after white space) with `>>` or a name: the
    reference look-ahead fails there -/
theorem dictLoop_noLA (el : Elem) (f cur : Nat) (s : Bytes) (i : Nat) (names : List Bytes)
    (map kvs : List (Bytes × Obj)) (k cur' : Nat)
    (h : dictLoop el f cur s i names map = ((.ok kvs, k), cur')) : lookAhead s i = false := by
  cases f with
  | zero => simp [dictLoop] at h
  | succ f =>
    unfold dictLoop at h
    split at h
    · cases h
    · cases h
    · rename_i u j heq
      split at h
      · rename_i k' hex
        have hs : startsWith [62, 62] s j = true := by
          unfold exact at hex; split at hex
          · assumption
          · cases hex
        exact lookAhead_false_at heq (startsWith_peek hs) (by decide) (by decide) (by decide)
      · split at h
        · cases h
        · cases h
        · rename_i key kk heqn
          have hp : peek s j = some 47 := by
            unfold nameP at heqn
            split at heqn
            · cases heqn
            · rename_i hh; simpa using hh
          exact lookAhead_false_at heq hp (by decide) (by decide) (by decide)

/-- an element that starts with `R` is not a PDF object -/
theorem parseObjB_at_R (max b cur : Nat) (s : Bytes) (j : Nat) (hj : j ≤ s.length) (hp : peek s j = some 82)
    (o : Located Obj) (k c' : Nat) : parseObjB max b cur s j ≠ ((.ok o, k), c') := by
  intro h
  unfold parseObjB at h
  split at h
  · cases h
  · cases b with
    | zero => cases h
    | succ b =>
      simp only at h
      unfold objParse at h
      rw [wsEOL_true_stay hj hp (by decide) (by decide)] at h
      simp only at h
      have hpi : parseInternal (parseObjB max b) (cur + 1) s j = ((.err .guard, j), cur + 1) := by
        unfold parseInternal
        rw [hp]
        simp only
        rw [if_neg (by decide), if_neg (by decide), if_neg (by decide), if_neg (by decide), if_neg (by decide),
          if_neg (by decide), if_neg (by decide), if_pos (by decide)]
      rw [hpi] at h
      unfold leaveObj at h
      simp only at h
      split at h <;> cases h

/-- an integer token followed by white space after which the look-ahead fails: the element, if it
    parses, is that integer -/
theorem parseObjB_int_end (max b cur : Nat) (s : Bytes) (j1 j2 : Nat) (g : Located Int) (hj : j1 ≤ s.length)
    (h2 : integerP s j1 = (.ok g, j2)) (hreg : ∀ y, (s.drop j2).head? = some y → isRegular y = false)
    (hla : lookAhead s j2 = false) (o : Located Obj) (k c' : Nat)
    (h : parseObjB max b cur s j1 = ((.ok o, k), c')) : k = j2 := by
  obtain ⟨sg, ds, hdrop, hj2, hne, hds, hfit⟩ := integerP_ok_inv s j1 j2 g h2
  have pr := integerP_progress s j1 hj
  rw [h2] at pr
  obtain ⟨-, -, -, hj2l⟩ := pr
  obtain ⟨c0, hc0, hcls⟩ : ∃ c0, peek s j1 = some c0 ∧ (isDigit c0 = true ∨ c0 = 45 ∨ c0 = 43 ∨ c0 = 46) := by
    rw [peek_head, hdrop]
    cases sg with
    | none =>
      cases ds with
      | nil => exact absurd rfl hne
      | cons d t => exact ⟨d, rfl, Or.inl (hds d (List.mem_cons_self))⟩
    | plus => exact ⟨43, rfl, Or.inr (Or.inr (Or.inl rfl))⟩
    | minus => exact ⟨45, rfl, Or.inr (Or.inl rfl)⟩
  obtain ⟨-, -, -, -, -, -, -, -, f1, f2⟩ := number_first_byte c0 hcls
  unfold parseObjB at h
  split at h
  · cases h
  · cases b with
    | zero => cases h
    | succ b =>
      simp only at h
      unfold objParse at h
      rw [wsEOL_true_stay hj hc0 f1 f2] at h
      simp only at h
      have hlen : (s.take j1).length = j1 := by simp only [List.length_take]; omega
      have hpre := Parsley.Shift.parseInternal_pre (s.take j1) (s.drop j1) 0 (parseObjB max b)
        (Parsley.Shift.parseObjB_pre (s.take j1) max b) (cur + 1)
      rw [List.take_append_drop, hlen] at hpre
      simp only [Nat.add_zero] at hpre
      have hla0 : lookAhead (s.drop j2) 0 = false := by
        have hl2 : (s.take j2).length = j2 := by simp only [List.length_take]; omega
        have := lookAhead_pre (s.take j2) (s.drop j2) 0
        rw [List.take_append_drop, hl2, Nat.add_zero] at this
        rw [← this]; exact hla
      rw [hpre, hdrop, parseInternal_int_la (parseObjB max b) (cur + 1) sg ds (s.drop j2) hne hds hfit hreg hla0] at h
      simp only [Parsley.Shift.shiftL] at h
      unfold leaveObj at h
      simp only at h
      split at h
      · cases h
      · simp only [Prod.mk.injEq] at h
        omega

/-- the rest of a successful array loop is not `ws⁺ integer ws⁺ R`: that `R` is not an element -/
theorem arrayLoop_noLA (max b f cur : Nat) (s : Bytes) (i : Nat) (acc xs : List Obj) (k cur' : Nat)
    (hi : i ≤ s.length) (h : arrayLoop (parseObjB max b) f cur s i acc = ((.ok xs, k), cur')) :
    lookAhead s i = false := by
  cases hla : lookAhead s i with
  | false => rfl
  | true =>
    exfalso
    obtain ⟨g, j1, j2, j3, ⟨u1, h1⟩, h2, ⟨u3, h3⟩, h4, h5⟩ := (lookAhead_iff s i).mp hla
    have p1 := wsEOL_progress false s i hi
    rw [h1] at p1
    obtain ⟨a1, a2, -⟩ := p1
    have p2 := integerP_progress s j1 a2
    rw [h2] at p2
    obtain ⟨-, -, b3, b4⟩ := p2
    have p3 := wsEOL_progress false s j2 b4
    rw [h3] at p3
    obtain ⟨c1, c2, c3⟩ := p3
    have hR : peek s j3 = some 82 := startsWith_peek h4
    obtain ⟨sg, ds, hdrop, hj2, hne, hds, hfit⟩ := integerP_ok_inv s j1 j2 g h2
    have hc0 : ∃ c0, peek s j1 = some c0 ∧ c0 ≠ 93 := by
      rw [peek_head, hdrop]
      cases sg with
      | none =>
        cases ds with
        | nil => exact absurd rfl hne
        | cons d t =>
          refine ⟨d, rfl, ?_⟩
          have := (tokStart_facts d (digit_facts d (hds d (List.mem_cons_self))).1).2.2.2.1
          exact this
      | plus => exact ⟨43, rfl, by decide⟩
      | minus => exact ⟨45, rfl, by decide⟩
    obtain ⟨c0, hc0, hc93⟩ := hc0
    -- what follows the integer is white space (non-regular), and the look-ahead fails there (an `R`)
    have hreg : ∀ y, (s.drop j2).head? = some y → isRegular y = false := by
      intro y hy
      have hsk := (wsEOL_false_ok s j2 j3 u3 b4 h3).2
      cases hd : s.drop j2 with
      | nil => rw [hd] at hy; cases hy
      | cons y' t =>
        rw [hd] at hy hsk
        simp only [List.head?_cons, Option.some.injEq] at hy
        subst hy
        rw [skipWs] at hsk
        by_cases hw : isWsEol y' = true
        · exact ws_not_regular _ hw
        · by_cases h37 : y' = 37
          · subst h37; decide
          · simp [hw, h37] at hsk
    have hla2 : lookAhead s j2 = false :=
      lookAhead_int_err s j2 j3 j3 u3 .guard h3 (integerP_at_nondigit hR (by decide) (by decide) (by decide))
    cases f with
    | zero => simp [arrayLoop] at h
    | succ f =>
      unfold arrayLoop at h
      rw [ws_false_true h1] at h
      simp only at h
      rw [exact_head_ne 93 [] s j1 (by rw [hc0]; simpa using hc93)] at h
      simp only at h
      split at h
      · rename_i o k2 cur2 heq
        have hk2 := parseObjB_int_end max b cur s j1 j2 g a2 h2 hreg hla2 o k2 cur2 heq
        subst hk2
        cases f with
        | zero => simp [arrayLoop] at h
        | succ f =>
          unfold arrayLoop at h
          rw [ws_false_true h3] at h
          simp only at h
          rw [exact_head_ne 93 [] s j3 (by rw [hR]; decide)] at h
          simp only at h
          split at h
          · rename_i o2 k3 cur3 heq2
            exact parseObjB_at_R max b cur2 s j3 c2 hR o2 k3 cur3 heq2
          · cases h
          · cases h
      · cases h
      · cases h

/-! ## arrays, dictionaries, the dispatcher and the depth wrapper -/

/-- extension of an element parser (the object parser at a smaller budget) -/
def ElemExt (max b : Nat) (el : Elem) : Prop :=
  ∀ (cur : Nat) (s : Bytes) (i n : Nat) (v : Located Obj) (c cur' : Nat),
    i ≤ n → n ≤ s.length → cur ≤ max → max - cur ≤ b →
    el cur (s.take n) i = ((.ok v, c), cur') → c < n →
    ((∃ z, v.val = .int z) → lookAhead s c = false) → el cur s i = ((.ok v, c), cur')

theorem arrayLoop_ext (max b : Nat) (ihE : ElemExt max b (parseObjB max b))
    (n : Nat) (s : Bytes) (hn : n ≤ s.length)
    (f' f cur i : Nat) (acc xs : List Obj) (k cur' : Nat) (hi : i ≤ n) (hc : cur ≤ max)
    (hb : max - cur ≤ b) (hf' : n + 1 - i ≤ f') (hf : s.length + 1 - i ≤ f)
    (hacc : cur + depthList acc ≤ max)
    (h : arrayLoop (parseObjB max b) f' cur (s.take n) i acc = ((.ok xs, k), cur')) :
    arrayLoop (parseObjB max b) f cur s i acc = ((.ok xs, k), cur') := by
  have hl := take_len hn
  induction f' generalizing f i acc with
  | zero => omega
  | succ f' ih =>
    unfold arrayLoop at h
    have pw := wsEOL_progress true (s.take n) i (by omega)
    split at h
    · cases h
    · cases h
    · rename_i u j heq
      rw [heq] at pw
      obtain ⟨hj1, hj2, -⟩ := pw
      rw [hl] at hj2
      obtain ⟨f'', rfl⟩ : ∃ f'', f = f'' + 1 := ⟨f - 1, by omega⟩
      split at h
      · rename_i k' hex
        cases h
        have hk := exact_ok hex (by omega)
        rw [hl] at hk
        unfold arrayLoop
        rw [wsEOL_Ext true s i n u j hn heq (by simp at hk; omega)]
        simp only
        rw [exact_ext_ok hex]
      · rename_i k0 hex
        split at h
        · rename_i o k2 cur2 heq2
          have h2 := parseObjB_good max b cur (s.take n) j (by omega) hc hb
          rw [heq2] at h2
          obtain ⟨e1, e2, e3, e4, e5, e6⟩ := h2
          subst e1
          rw [hl] at e5
          have hacc' : cur2 + depthList (o.val :: acc) ≤ max := by
            simp only [depthList]
            have : Nat.max (depth o.val) (depthList acc) ≤ max - cur2 := Nat.max_le.mpr ⟨by omega, by omega⟩
            omega
          have hg := arrayLoop_good max b (parseObjB max b) (parseObjB_good max b) f' cur2 (s.take n) k2
            (o.val :: acc) (by omega) hc hb (by omega) hacc'
          rw [h] at hg
          obtain ⟨-, hk2k, hkn, -⟩ := hg
          rw [hl] at hkn
          -- the rest of the loop on the whole buffer, then the element
          have hrest := ih (f := f'') (i := k2) (acc := o.val :: acc) (by omega) (by omega) (by omega) hacc' h
          have hnoLA := arrayLoop_noLA max b f'' cur2 s k2 (o.val :: acc) xs k cur' (by omega) hrest
          have hel := ihE cur2 s j n o k2 cur2 (by omega) hn hc hb heq2 (by omega) (fun _ => hnoLA)
          unfold arrayLoop
          rw [wsEOL_Ext true s i n u j hn heq (by omega)]
          simp only
          rw [exact1_ext_fail hex (by omega)]
          simp only
          rw [hel]
          simp only
          exact hrest
        · cases h
        · cases h

theorem dictLoop_ext (max b : Nat) (ihE : ElemExt max b (parseObjB max b))
    (n : Nat) (s : Bytes) (hn : n ≤ s.length)
    (f' f cur i : Nat) (names : List Bytes) (map kvs : List (Bytes × Obj)) (k cur' : Nat) (hi : i ≤ n)
    (hc : cur ≤ max) (hb : max - cur ≤ b) (hf' : n + 1 - i ≤ f') (hf : s.length + 1 - i ≤ f)
    (hacc : cur + depthKvs map ≤ max)
    (h : dictLoop (parseObjB max b) f' cur (s.take n) i names map = ((.ok kvs, k), cur')) :
    dictLoop (parseObjB max b) f cur s i names map = ((.ok kvs, k), cur') := by
  have hl := take_len hn
  induction f' generalizing f i names map with
  | zero => omega
  | succ f' ih =>
    unfold dictLoop at h
    have pw := wsEOL_progress true (s.take n) i (by omega)
    split at h
    · cases h
    · cases h
    · rename_i u j heq
      rw [heq] at pw
      obtain ⟨hj1, hj2, -⟩ := pw
      rw [hl] at hj2
      obtain ⟨f'', rfl⟩ : ∃ f'', f = f'' + 1 := ⟨f - 1, by omega⟩
      split at h
      · rename_i k' hex
        cases h
        have hk := exact_ok hex (by omega)
        rw [hl] at hk
        unfold dictLoop
        rw [wsEOL_Ext true s i n u j hn heq (by simp at hk; omega)]
        simp only
        rw [exact_ext_ok hex]
      · rename_i k0 hex
        have pn := name_prog (s.take n) j (by omega)
        split at h
        · cases h
        · cases h
        · rename_i key kk heqn
          rw [heqn] at pn
          obtain ⟨n1, n2, n3, n4⟩ := pn
          rw [hl] at n4
          split at h
          · cases h
          · rename_i hdup
            have pw2 := wsEOL_progress true (s.take n) kk (by omega)
            split at h
            · cases h
            · cases h
            · rename_i u2 k1 heq3
              rw [heq3] at pw2
              obtain ⟨hk1, hk2, -⟩ := pw2
              rw [hl] at hk2
              have h2 := parseObjB_good max b cur (s.take n) k1 (by omega) hc hb
              split at h
              · cases h
              · cases h
              · rename_i o k2 cur2 heq2
                rw [heq2] at h2
                obtain ⟨e1, e2, e3, e4, e5, e6⟩ := h2
                subst e1
                rw [hl] at e5
                -- the rest of the loop, for either continuation
                have fin : ∀ nm mp, cur2 + depthKvs mp ≤ max →
                    dictLoop (parseObjB max b) f' cur2 (s.take n) k2 nm mp = ((.ok kvs, k), cur') →
                    k2 < k ∧ k ≤ n ∧ dictLoop (parseObjB max b) f'' cur2 s k2 nm mp = ((.ok kvs, k), cur') := by
                  intro nm mp hmp hh
                  have hg := dictLoop_good max b (parseObjB max b) (parseObjB_good max b) f' cur2 (s.take n) k2 nm mp
                    (by omega) hc hb (by omega) hmp
                  rw [hh] at hg
                  obtain ⟨-, hk2k, hkn, -⟩ := hg
                  rw [hl] at hkn
                  exact ⟨hk2k, hkn, ih (f := f'') (i := k2) (names := nm) (map := mp) (by omega) (by omega) (by omega) hmp hh⟩
                have hmp2 : cur2 + depthKvs (dictInsert key.val o.val map) ≤ max := by
                  have : depthKvs (dictInsert key.val o.val map) ≤ max - cur2 :=
                    depthKvs_insert_le _ _ _ _ (by omega) (by omega)
                  omega
                have hboth : k2 < k ∧ k ≤ n ∧ lookAhead s k2 = false := by
                  split at h
                  · obtain ⟨a, b', c'⟩ := fin _ _ hacc h
                    exact ⟨a, b', dictLoop_noLA _ _ _ _ _ _ _ _ _ _ c'⟩
                  · obtain ⟨a, b', c'⟩ := fin _ _ hmp2 h
                    exact ⟨a, b', dictLoop_noLA _ _ _ _ _ _ _ _ _ _ c'⟩
                obtain ⟨hk2k, hkn, hnoLA⟩ := hboth
                have hel := ihE cur2 s k1 n o k2 cur2 (by omega) hn hc hb heq2 (by omega) (fun _ => hnoLA)
                unfold dictLoop
                rw [wsEOL_Ext true s i n u j hn heq (by omega)]
                simp only
                rw [exact_ext_fail hex (by simp; omega)]
                simp only
                rw [nameP_Ext s j n key kk hn heqn (by omega)]
                simp only
                rw [if_neg hdup, wsEOL_Ext true s kk n u2 k1 hn heq3 (by omega)]
                simp only
                rw [hel]
                simp only
                split at h
                · exact (fin _ _ hacc h).2.2
                · exact (fin _ _ hmp2 h).2.2

theorem liftTok_ext {α : Type} (f : α → Obj) (cur : Nat) (p : P α) (hE : Ext p) (s : Bytes) (i n : Nat)
    (o : Obj) (c cur' : Nat) (hn : n ≤ s.length)
    (h : liftTok f cur (p (s.take n) i) = ((.ok o, c), cur')) (hcn : c < n) :
    liftTok f cur (p s i) = ((.ok o, c), cur') := by
  cases hq : p (s.take n) i with
  | mk r c1 =>
    rw [hq] at h
    cases r with
    | err k => cases h
    | panic q => cases h
    | ok v =>
      have hc : c1 = c := by simp only [liftTok, Prod.mk.injEq] at h; exact h.1.2
      rw [hE s i n v c1 hn hq (by omega)]
      exact h

theorem parseInternal_ext (max b : Nat) (ihE : ElemExt max b (parseObjB max b))
    (cur : Nat) (s : Bytes) (i n : Nat) (o : Obj) (c cur' : Nat) (hi : i ≤ n) (hn : n ≤ s.length)
    (hc : cur ≤ max) (hb : max - cur ≤ b)
    (h : parseInternal (parseObjB max b) cur (s.take n) i = ((.ok o, c), cur')) (hcn : c < n)
    (hnl : (∃ z, o = .int z) → lookAhead s c = false) :
    parseInternal (parseObjB max b) cur s i = ((.ok o, c), cur') := by
  have hl := take_len hn
  have hg := parseInternal_good max b (parseObjB max b) (parseObjB_good max b) cur (s.take n) i (by omega) hc hb
  rw [h] at hg
  obtain ⟨-, hic, -, -⟩ := hg
  unfold parseInternal at h ⊢
  cases hp : peek (s.take n) i with
  | none => rw [hp] at h; cases h
  | some c0 =>
    rw [hp] at h
    rw [(peek_take_some hp).1]
    simp only at h ⊢
    by_cases c1 : (c0 == 116 || c0 == 102) = true
    · rw [if_pos c1] at h ⊢; exact liftTok_ext _ cur boolean boolean_Ext s i n o c cur' hn h hcn
    rw [if_neg c1] at h ⊢
    by_cases c2 : (c0 == 110) = true
    · rw [if_pos c2] at h ⊢; exact liftTok_ext _ cur null null_Ext s i n o c cur' hn h hcn
    rw [if_neg c2] at h ⊢
    by_cases c3 : (c0 == 40) = true
    · rw [if_pos c3] at h ⊢; exact liftTok_ext _ cur rawLitString rawLitString_Ext s i n o c cur' hn h hcn
    rw [if_neg c3] at h ⊢
    by_cases c4 : (c0 == 37) = true
    · rw [if_pos c4] at h ⊢; exact liftTok_ext _ cur comment comment_Ext s i n o c cur' hn h hcn
    rw [if_neg c4] at h ⊢
    by_cases c5 : (c0 == 47) = true
    · rw [if_pos c5] at h ⊢; exact liftTok_ext _ cur nameP nameP_Ext s i n o c cur' hn h hcn
    rw [if_neg c5] at h ⊢
    by_cases c6 : (c0 == 91) = true
    · rw [if_pos c6] at h ⊢
      rw [hl] at h
      cases hA : arrayLoop (parseObjB max b) (n + 1 - i) cur (s.take n) (i + 1) [] with
      | mk rk cur2 =>
        obtain ⟨r, k⟩ := rk
        rw [hA] at h
        cases r with
        | err e => cases h
        | panic q => cases h
        | ok xs =>
          simp only [Prod.mk.injEq, Res.ok.injEq] at h
          obtain ⟨⟨ho, hk⟩, hcur⟩ := h
          subst hk hcur ho
          rw [arrayLoop_ext max b ihE n s hn (n + 1 - i) (s.length + 1 - i) cur (i + 1) [] xs k cur2
            (by omega) hc hb (by omega) (by omega) (by simp [depthList]; omega) hA]
    rw [if_neg c6] at h ⊢
    by_cases c7 : (c0 == 60) = true
    · rw [if_pos c7] at h ⊢
      by_cases c8 : (peek (s.take n) (i + 1) == some 60) = true
      · rw [if_pos c8] at h
        have hp1 : peek (s.take n) (i + 1) = some 60 := by simpa using c8
        rw [if_pos (by simp [(peek_take_some hp1).1])]
        rw [hl] at h
        cases hA : dictLoop (parseObjB max b) (n + 1 - i) cur (s.take n) (i + 2) [] [] with
        | mk rk cur2 =>
          obtain ⟨r, k⟩ := rk
          rw [hA] at h
          cases r with
          | err e => cases h
          | panic q => cases h
          | ok kvs =>
            simp only [Prod.mk.injEq, Res.ok.injEq] at h
            obtain ⟨⟨ho, hk⟩, hcur⟩ := h
            subst hk hcur ho
            have := (peek_take_some hp1).2
            rw [dictLoop_ext max b ihE n s hn (n + 1 - i) (s.length + 1 - i) cur (i + 2) [] [] kvs k cur2
              (by omega) hc hb (by omega) (by omega) (by simp [depthKvs]; omega) hA]
      · rw [if_neg c8] at h
        have c8' : ¬ (peek s (i + 1) == some 60) = true := by
          rw [← peek_take_lt (s := s) (n := n) (j := i + 1) (by omega)]; exact c8
        rw [if_neg c8']
        exact liftTok_ext _ cur hexString hexString_Ext s i n o c cur' hn h hcn
    rw [if_neg c7] at h ⊢
    by_cases c9 : (!(isDigit c0 || c0 == 45 || c0 == 43 || c0 == 46)) = true
    · rw [if_pos c9] at h; cases h
    rw [if_neg c9] at h ⊢
    simp only [Prod.mk.injEq] at h
    obtain ⟨h1, h2⟩ := h
    rw [numberOrRef_ext s i n o c hn h1 hcn hnl, h2]

theorem objParse_ext (max b : Nat) (ihE : ElemExt max b (parseObjB max b))
    (cur : Nat) (s : Bytes) (i n : Nat) (v : Located Obj) (c cur' : Nat) (hi : i ≤ n) (hn : n ≤ s.length)
    (hc : cur ≤ max) (hb : max - cur ≤ b)
    (h : objParse (parseObjB max b) cur (s.take n) i = ((.ok v, c), cur')) (hcn : c < n)
    (hnl : (∃ z, v.val = .int z) → lookAhead s c = false) :
    objParse (parseObjB max b) cur s i = ((.ok v, c), cur') := by
  have hl := take_len hn
  unfold objParse at h ⊢
  have pw := wsEOL_progress true (s.take n) i (by omega)
  split at h
  · cases h
  · cases h
  · rename_i u st heq
    rw [heq] at pw
    obtain ⟨w1, w2, -⟩ := pw
    rw [hl] at w2
    cases hI : parseInternal (parseObjB max b) cur (s.take n) st with
    | mk rk cur2 =>
      obtain ⟨r, k⟩ := rk
      rw [hI] at h
      cases r with
      | err e => cases h
      | panic q => cases h
      | ok o =>
        simp only [Prod.mk.injEq, Res.ok.injEq] at h
        obtain ⟨⟨hv, hk⟩, hcur⟩ := h
        subst hk hcur
        have hg := parseInternal_good max b (parseObjB max b) (parseObjB_good max b) cur (s.take n) st (by omega) hc hb
        rw [hI] at hg
        obtain ⟨-, hic, -, -⟩ := hg
        rw [wsEOL_Ext true s i n u st hn heq (by omega)]
        simp only
        rw [parseInternal_ext max b ihE cur s st n o k cur2 w2 hn hc hb hI hcn
          (by intro hz; apply hnl; rw [← hv]; exact hz)]
        simp only [hv]

/-- **Extension of `parse_pdf_obj`**, every nesting budget: a successful parse on a truncated buffer
    that ends strictly before the cut is the parse on the whole buffer — for an integer result,
    provided the reference look-ahead fails on the whole buffer. -/
theorem parseObjB_ext (max : Nat) : ∀ b, ElemExt max b (parseObjB max b) := by
  intro b
  induction b with
  | zero =>
    intro cur s i n v c cur' hi hn hc hb h hcn hnl
    unfold parseObjB at h
    split at h <;> cases h
  | succ b ih =>
    intro cur s i n v c cur' hi hn hc hb h hcn hnl
    unfold parseObjB at h ⊢
    split at h
    · cases h
    · rename_i hne
      rw [if_neg hne]
      have hne' : cur ≠ max := by simpa using hne
      simp only at h ⊢
      cases hO : objParse (parseObjB max b) (cur + 1) (s.take n) i with
      | mk rk cur2 =>
        obtain ⟨r, k⟩ := rk
        rw [hO] at h
        unfold leaveObj at h
        simp only at h
        split at h
        · cases h
        · rename_i hz
          simp only [Prod.mk.injEq] at h
          obtain ⟨⟨hr, hk⟩, hcur⟩ := h
          subst hr hk
          rw [objParse_ext max b ih (cur + 1) s i n v k cur2 hi hn (by omega) (by omega) hO hcn hnl]
          unfold leaveObj
          simp only
          rw [if_neg hz, hcur]

/-! ## locality = truncation + extension -/

/-- locality of a token parser that is stable under truncation and extension -/
theorem tok_local {α : Type} {p : P α} (hT : Trunc p) (hE : Ext p) (s t : Bytes) (i n : Nat)
    (v : Located α) (c : Nat) (ht : n ≤ t.length) (hst : s.take n = t.take n) (hi : i ≤ s.length)
    (h : p s i = (.ok v, c)) (hcn : c < n) : p t i = (.ok v, c) := by
  have h1 := hT s i n v c hi h (by omega)
  rw [hst] at h1
  exact hE t i n v c ht h1 hcn

theorem exact_local {tag s t : Bytes} {n i j : Nat} (hst : s.take n = t.take n)
    (h : exact tag s i = (true, j)) (hj : j ≤ n) : exact tag t i = (true, j) := by
  have h1 := exact_take_ok (n := n) h hj
  rw [hst] at h1
  exact exact_ext_ok h1

theorem startsWith_local {tag s t : Bytes} {n i : Nat} (hst : s.take n = t.take n)
    (h : startsWith tag s i = true) (hj : i + tag.length ≤ n) : startsWith tag t i = true := by
  have h1 : startsWith tag (s.take n) i = true := by
    rw [startsWith_take]; simp only [Bool.and_eq_true, decide_eq_true_eq]; exact ⟨h, by omega⟩
  rw [hst] at h1
  exact startsWith_ext h1

/-- **Locality of `parse_pdf_obj`**, every nesting budget: if two buffers agree on their first `n`
    bytes (and the cut does not fall immediately after an `R`), a parse that succeeds on one of them
    and ends strictly before `n` is the parse on the other — for an integer result, provided the
    reference look-ahead fails on the other buffer too. -/
theorem parseObjB_local (max b cur : Nat) (s t : Bytes) (i n : Nat) (v : Located Obj) (c cur' : Nat)
    (hs : n ≤ s.length) (ht : n ≤ t.length) (hst : s.take n = t.take n) (hi : i ≤ n)
    (hc : cur ≤ max) (hb : max - cur ≤ b)
    (h : parseObjB max b cur s i = ((.ok v, c), cur')) (hcn : c < n)
    (hR : peek s (n - 1) ≠ some 82)
    (hnl : (∃ z, v.val = .int z) → lookAhead t c = false) :
    parseObjB max b cur t i = ((.ok v, c), cur') := by
  have h1 := parseObjB_trunc max b cur s i n v c cur' (by omega) hs hc hb h ⟨by omega, Or.inr hR⟩
  rw [hst] at h1
  exact parseObjB_ext max b cur t i n v c cur' hi ht hc hb h1 hcn hnl

/-- `parseObjB_local` for the context-level entry point `parse_pdf_obj(ctxt, buf)` -/
theorem parseObj_local (d : Depth) (s t : Bytes) (i n : Nat) (v : Located Obj) (c : Nat) (d' : Depth)
    (hs : n ≤ s.length) (ht : n ≤ t.length) (hst : s.take n = t.take n) (hi : i ≤ n)
    (hd : d.cur ≤ d.max)
    (h : parseObj d s i = ((.ok v, c), d')) (hcn : c < n)
    (hR : peek s (n - 1) ≠ some 82)
    (hnl : (∃ z, v.val = .int z) → lookAhead t c = false) :
    parseObj d t i = ((.ok v, c), d') := by
  unfold parseObj at h ⊢
  cases hB : parseObjB d.max (d.max - d.cur) d.cur s i with
  | mk r cur' =>
    rw [hB] at h
    simp only [Prod.mk.injEq] at h
    obtain ⟨hr, hd'⟩ := h
    subst hr
    rw [parseObjB_local d.max (d.max - d.cur) d.cur s t i n v c cur' hs ht hst hi hd (Nat.le_refl _) hB hcn hR hnl]
    simp only [hd']

/-- **Locality of the head `n g obj <object>` of an indirect object.**  If two buffers agree on their
    first `n` bytes, a head that parses on one of them and ends strictly before `n` parses identically
    on the other (for an integer object: provided the reference look-ahead fails there too). -/
theorem indirectHead_local (c : Ctx) (s t : Bytes) (i n : Nat) (h : Head) (j : Nat) (c1 : Ctx)
    (hs : n ≤ s.length) (ht : n ≤ t.length) (hst : s.take n = t.take n) (hi : i ≤ s.length)
    (hc : c.cur ≤ c.max)
    (hh : indirectHead c s i = ((.ok h, j), c1)) (hjn : j < n) (hR : peek s (n - 1) ≠ some 82)
    (hnl : (∃ z, h.o.val = .int z) → lookAhead t j = false) :
    indirectHead c t i = ((.ok h, j), c1) := by
  unfold indirectHead at hh
  have h1 := integerP_progress s i hi
  split at hh
  · cases hh
  · cases hh
  · rename_i num j0 heq
    rw [heq] at h1; obtain ⟨-, -, hj1, hj2⟩ := h1
    split at hh
    · cases hh
    · rename_i hu1
      have h2 := wsEOL_progress true s j0 hj2
      split at hh
      · cases hh
      · cases hh
      · rename_i u j1 heq2
        rw [heq2] at h2; obtain ⟨hk1, hk2, -⟩ := h2
        have h3 := integerP_progress s j1 hk2
        split at hh
        · cases hh
        · cases hh
        · rename_i gen j2 heq3
          rw [heq3] at h3; obtain ⟨-, -, hl1, hl2⟩ := h3
          split at hh
          · cases hh
          · rename_i hu2
            have h4 := wsEOL_progress true s j2 hl2
            split at hh
            · cases hh
            · cases hh
            · rename_i u2 j3 heq4
              rw [heq4] at h4; obtain ⟨hm1, hm2, -⟩ := h4
              split at hh
              · cases hh
              · rename_i j4 heq5
                have g1 := exact_ok heq5 hm2
                have h5 := wsEOL_progress true s j4 g1.2
                split at hh
                · cases hh
                · cases hh
                · rename_i u3 j5 heq6
                  rw [heq6] at h5; obtain ⟨hn1, hn2, -⟩ := h5
                  cases hP : parseObj ⟨c.cur, c.max⟩ s j5 with
                  | mk r d =>
                    rw [hP] at hh
                    simp only at hh
                    obtain ⟨rr, j6⟩ := r
                    cases rr with
                    | err k => cases hh
                    | panic p => cases hh
                    | ok o =>
                      simp only [Prod.mk.injEq, Res.ok.injEq] at hh
                      obtain ⟨⟨hh1, hh2⟩, hh3⟩ := hh
                      subst hh2
                      have hg := Parsley.C16.parseObj_good ⟨c.cur, c.max⟩ s j5 hn2 hc
                      simp only at hg
                      have e4 : j5 < j6 := by
                        cases hB : parseObjB c.max (c.max - c.cur) c.cur s j5 with
                        | mk rr cur' =>
                          rw [hB] at hg
                          have hP' := hP
                          unfold parseObj at hP'
                          simp only [hB, Prod.mk.injEq] at hP'
                          rw [hP'.1] at hg
                          obtain ⟨-, e2, e3, e4, e5, -⟩ := hg
                          omega
                      have ho : h.o = o := by rw [← hh1]
                      have hPt := parseObj_local ⟨c.cur, c.max⟩ s t j5 n o j6 d hs ht hst (by omega) hc hP hjn hR
                        (by rw [← ho]; exact hnl)
                      unfold indirectHead
                      rw [tok_local integerP_trunc integerP_Ext s t i n num j0 ht hst hi heq (by omega)]
                      simp only
                      rw [if_neg hu1, tok_local (wsEOL_trunc true) (wsEOL_Ext true) s t j0 n u j1 ht hst hj2 heq2 (by omega)]
                      simp only
                      rw [tok_local integerP_trunc integerP_Ext s t j1 n gen j2 ht hst hk2 heq3 (by omega)]
                      simp only
                      rw [if_neg hu2, tok_local (wsEOL_trunc true) (wsEOL_Ext true) s t j2 n u2 j3 ht hst hl2 heq4 (by omega)]
                      simp only
                      rw [exact_local hst heq5 (by omega)]
                      simp only
                      rw [tok_local (wsEOL_trunc true) (wsEOL_Ext true) s t j4 n u3 j5 ht hst g1.2 heq6 (by omega)]
                      simp only
                      rw [hPt]
                      simp only [hh1, hh3]

/-! ## the object parser never builds a stream object (only `IndirectP` does) -/

theorem wsEOL_ok_in {e : Bool} {s : Bytes} {i c : Nat} {v : Located Unit} (h : wsEOL e s i = (.ok v, c)) :
    i ≤ s.length := by
  by_cases hh : i ≤ s.length
  · exact hh
  · exfalso
    have hf : s.length + 1 - i = 0 := by omega
    unfold wsEOL at h
    rw [hf] at h
    simp [wsEOLLoop] at h

theorem liftTok_not_stream {α : Type} (f : α → Obj) (hf : ∀ a kvs sc, f a ≠ .stream kvs sc) (cur : Nat)
    (r : Res (Located α) × Nat) (o : Obj) (c cur' : Nat) (h : liftTok f cur r = ((.ok o, c), cur')) :
    ∀ kvs sc, o ≠ .stream kvs sc := by
  obtain ⟨r, j⟩ := r
  cases r with
  | ok v =>
    simp only [liftTok, Prod.mk.injEq, Res.ok.injEq] at h
    rw [← h.1.1]; exact hf v.val
  | err k => simp [liftTok] at h
  | panic p => simp [liftTok] at h

theorem numberOrRef_not_stream (s : Bytes) (i : Nat) (o : Obj) (c : Nat) (h : numberOrRef s i = (.ok o, c)) :
    ∀ kvs sc, o ≠ .stream kvs sc := by
  have fin : ∀ {x : Obj} {j : Nat}, (∀ kvs sc, x ≠ .stream kvs sc) → ((Res.ok x, j) : Res Obj × Nat) = (.ok o, c) →
      ∀ kvs sc, o ≠ .stream kvs sc := by
    intro x j hx hh
    simp only [Prod.mk.injEq, Res.ok.injEq] at hh
    rw [← hh.1]; exact hx
  unfold numberOrRef at h
  split at h
  · cases h
  · cases h
  · simp only at h
    split at h
    · exact fin (by intro _ _ hh; cases hh) h
    · split at h
      · cases h
      · exact fin (by intro _ _ hh; cases hh) h
      · split at h
        · cases h
        · exact fin (by intro _ _ hh; cases hh) h
        · split at h
          · cases h
          · exact fin (by intro _ _ hh; cases hh) h
          · split at h
            · split at h
              · exact fin (by intro _ _ hh; cases hh) h
              · cases h
              · cases h
            · exact fin (by intro _ _ hh; cases hh) h

theorem parseInternal_not_stream (el : Elem) (cur : Nat) (s : Bytes) (i : Nat) (o : Obj) (c cur' : Nat)
    (h : parseInternal el cur s i = ((.ok o, c), cur')) : ∀ kvs sc, o ≠ .stream kvs sc := by
  unfold parseInternal at h
  split at h
  · cases h
  · split at h
    · exact liftTok_not_stream _ (by intro a kvs sc hh; cases hh) _ _ _ _ _ h
    split at h
    · exact liftTok_not_stream _ (by intro a kvs sc hh; cases hh) _ _ _ _ _ h
    split at h
    · exact liftTok_not_stream _ (by intro a kvs sc hh; cases hh) _ _ _ _ _ h
    split at h
    · exact liftTok_not_stream _ (by intro a kvs sc hh; cases hh) _ _ _ _ _ h
    split at h
    · exact liftTok_not_stream _ (by intro a kvs sc hh; cases hh) _ _ _ _ _ h
    split at h
    · split at h
      · simp only [Prod.mk.injEq, Res.ok.injEq] at h; rw [← h.1.1]; intro kvs sc hh; cases hh
      · cases h
      · cases h
    split at h
    · split at h
      · split at h
        · simp only [Prod.mk.injEq, Res.ok.injEq] at h; rw [← h.1.1]; intro kvs sc hh; cases hh
        · cases h
        · cases h
      · exact liftTok_not_stream _ (by intro a kvs sc hh; cases hh) _ _ _ _ _ h
    split at h
    · cases h
    · simp only [Prod.mk.injEq] at h
      exact numberOrRef_not_stream s i o c h.1

/-- `parse_pdf_obj` never returns a stream object -/
theorem parseObjB_not_stream (max b cur : Nat) (s : Bytes) (i : Nat) (v : Located Obj) (c cur' : Nat)
    (h : parseObjB max b cur s i = ((.ok v, c), cur')) : ∀ kvs sc, v.val ≠ .stream kvs sc := by
  unfold parseObjB at h
  split at h
  · cases h
  · cases b with
    | zero => cases h
    | succ b =>
      simp only at h
      cases hO : objParse (parseObjB max b) (cur + 1) s i with
      | mk rk cur2 =>
        obtain ⟨r, k⟩ := rk
        rw [hO] at h
        unfold leaveObj at h
        simp only at h
        split at h
        · cases h
        · simp only [Prod.mk.injEq] at h
          obtain ⟨⟨h1, h2⟩, h3⟩ := h
          subst h1
          unfold objParse at hO
          split at hO
          · cases hO
          · cases hO
          · split at hO
            · rename_i hI
              simp only [Prod.mk.injEq, Res.ok.injEq] at hO
              rw [← hO.1.1]
              exact parseInternal_not_stream _ _ _ _ _ _ _ hI
            · cases hO
            · cases hO

/-- … hence the object of a parsed head `n g obj <object>` is not a stream -/
theorem indirectHead_not_stream (c : Ctx) (s : Bytes) (i : Nat) (h : Head) (j : Nat) (c1 : Ctx)
    (hh : indirectHead c s i = ((.ok h, j), c1)) : ∀ kvs sc, h.o.val ≠ .stream kvs sc := by
  unfold indirectHead at hh
  split at hh
  · cases hh
  · cases hh
  · split at hh
    · cases hh
    · split at hh
      · cases hh
      · cases hh
      · split at hh
        · cases hh
        · cases hh
        · split at hh
          · cases hh
          · split at hh
            · cases hh
            · cases hh
            · split at hh
              · cases hh
              · split at hh
                · cases hh
                · cases hh
                · rename_i j5 _
                  cases hP : parseObj ⟨c.cur, c.max⟩ s j5 with
                  | mk r d =>
                    rw [hP] at hh
                    simp only at hh
                    obtain ⟨rr, j6⟩ := r
                    cases rr with
                    | err k => cases hh
                    | panic p => cases hh
                    | ok o =>
                      simp only [Prod.mk.injEq, Res.ok.injEq] at hh
                      rw [← hh.1.1]
                      simp only
                      unfold parseObj at hP
                      simp only [Prod.mk.injEq] at hP
                      cases hB : parseObjB c.max (c.max - c.cur) c.cur s j5 with
                      | mk r' cur' =>
                        rw [hB] at hP
                        simp only at hP
                        rw [hP.1] at hB
                        exact parseObjB_not_stream _ _ _ _ _ _ _ _ hB

/-- a parsed head `n g obj <object>` consumes input -/
theorem indirectHead_progress (c : Ctx) (s : Bytes) (i : Nat) (h : Head) (j : Nat) (c1 : Ctx)
    (hi : i ≤ s.length) (hc : c.cur ≤ c.max)
    (hh : indirectHead c s i = ((.ok h, j), c1)) : i < j ∧ j ≤ s.length := by
  unfold indirectHead at hh
  have h1 := integerP_progress s i hi
  split at hh
  · cases hh
  · cases hh
  · rename_i num j0 heq
    rw [heq] at h1; obtain ⟨-, -, hj1, hj2⟩ := h1
    split at hh
    · cases hh
    · have h2 := wsEOL_progress true s j0 hj2
      split at hh
      · cases hh
      · cases hh
      · rename_i u j1 heq2
        rw [heq2] at h2; obtain ⟨hk1, hk2, -⟩ := h2
        have h3 := integerP_progress s j1 hk2
        split at hh
        · cases hh
        · cases hh
        · rename_i gen j2 heq3
          rw [heq3] at h3; obtain ⟨-, -, hl1, hl2⟩ := h3
          split at hh
          · cases hh
          · have h4 := wsEOL_progress true s j2 hl2
            split at hh
            · cases hh
            · cases hh
            · rename_i u2 j3 heq4
              rw [heq4] at h4; obtain ⟨hm1, hm2, -⟩ := h4
              split at hh
              · cases hh
              · rename_i j4 heq5
                have g1 := exact_ok heq5 hm2
                have h5 := wsEOL_progress true s j4 g1.2
                split at hh
                · cases hh
                · cases hh
                · rename_i u3 j5 heq6
                  rw [heq6] at h5; obtain ⟨hn1, hn2, -⟩ := h5
                  cases hP : parseObj ⟨c.cur, c.max⟩ s j5 with
                  | mk r d =>
                    rw [hP] at hh
                    simp only at hh
                    obtain ⟨rr, j6⟩ := r
                    cases rr with
                    | err k => cases hh
                    | panic p => cases hh
                    | ok o =>
                      simp only [Prod.mk.injEq, Res.ok.injEq] at hh
                      obtain ⟨⟨hh1, hh2⟩, hh3⟩ := hh
                      subst hh2
                      have hg := Parsley.C16.parseObj_good ⟨c.cur, c.max⟩ s j5 hn2 hc
                      simp only at hg
                      cases hB : parseObjB c.max (c.max - c.cur) c.cur s j5 with
                      | mk rr cur' =>
                        rw [hB] at hg
                        have hP' := hP
                        unfold parseObj at hP'
                        simp only [hB, Prod.mk.injEq] at hP'
                        rw [hP'.1] at hg
                        obtain ⟨-, e2, e3, e4, e5, -⟩ := hg
                        omega

end Parsley.IndirectLocal
