import Parsley.Props.C02Struct
import Parsley.Lemmas.Trunc
import Parsley.Model.Indirect
/-!
# What `WhitespaceEOL` consumes, declaratively

`wsEOL` (the model of the parser's `WhitespaceEOL`) is characterised by a grammar on byte lists
(`Gap`): it consumes a maximal run of white-space bytes and LF-terminated comments, or - only at the
very end of the buffer - such a run followed by an unterminated comment.  `wsEOL true` never fails.
As a corollary, `endobj` is found after optional white space exactly when the bytes at the cursor
are a white-space run followed by the keyword.
-/
namespace Parsley.IndirectWs
open Parsley Parsley.Prim Parsley.Obj Parsley.C02

/-- `Gap w rest`: `w` is exactly what WhitespaceEOL consumes in front of `rest`: a run of white-space
    bytes and LF-terminated comments, maximal (the next byte is neither white space nor '%'), or - only
    at the very end of the buffer - such a run followed by an unterminated comment -/
def Gap (w rest : Bytes) : Prop :=
  (WsRun w ∧ ∀ b, rest.head? = some b → isWsEol b = false ∧ b ≠ 37) ∨
  (rest = [] ∧ ∃ w0 body, w = w0 ++ 37 :: body ∧ WsRun w0 ∧ ∀ y ∈ body, y ≠ 10)

/-! ## constructors of `Gap` -/

theorem Gap.stop (rest : Bytes) (h : ∀ b, rest.head? = some b → isWsEol b = false ∧ b ≠ 37) :
    Gap [] rest := Or.inl ⟨WsRun.nil, h⟩

theorem Gap.ws (b : UInt8) (w rest : Bytes) (hb : isWsEol b = true) (h : Gap w rest) :
    Gap (b :: w) rest := by
  rcases h with ⟨hw, hr⟩ | ⟨hr, w0, body, hw, hw0, hbody⟩
  · exact Or.inl ⟨WsRun.ws b w hb hw, hr⟩
  · exact Or.inr ⟨hr, b :: w0, body, by rw [hw]; rfl, WsRun.ws b w0 hb hw0, hbody⟩

theorem Gap.comment (body w rest : Bytes) (hbody : ∀ y ∈ body, y ≠ 10) (h : Gap w rest) :
    Gap (37 :: body ++ 10 :: w) rest := by
  rcases h with ⟨hw, hr⟩ | ⟨hr, w0, body', hw, hw0, hbody'⟩
  · exact Or.inl ⟨WsRun.comment body w hbody hw, hr⟩
  · refine Or.inr ⟨hr, 37 :: body ++ 10 :: w0, body', ?_, WsRun.comment body w0 hbody hw0, hbody'⟩
    rw [hw]; simp

theorem Gap.open_comment (body : Bytes) (hbody : ∀ y ∈ body, y ≠ 10) : Gap (37 :: body) [] :=
  Or.inr ⟨rfl, [], body, rfl, WsRun.nil, hbody⟩

/-! ## the byte-wise skipper -/

theorem skipWs_cons (b : UInt8) (t : Bytes) :
    skipWs (b :: t) = if isWsEol b then skipWs t + 1 else if b == 37 then skipComment t + 1 else 0 := by
  rw [skipWs]; simp only [Nat.add_comm]

theorem skipComment_cons (b : UInt8) (t : Bytes) :
    skipComment (b :: t) = if b == 10 then skipWs t + 1 else skipComment t + 1 := by
  rw [skipComment]; simp only [Nat.add_comm]

theorem skip_le (l : Bytes) : skipWs l ≤ l.length ∧ skipComment l ≤ l.length := by
  induction l with
  | nil => simp [skipWs, skipComment]
  | cons b t ih =>
    rw [skipWs_cons, skipComment_cons]
    constructor
    · split
      · simp only [List.length_cons]; omega
      · split
        · simp only [List.length_cons]; omega
        · omega
    · split <;> (simp only [List.length_cons]; omega)

theorem skipWs_le (l : Bytes) : skipWs l ≤ l.length := (skip_le l).1

/-- the split the skipper makes is a `Gap` split (for the comment skipper: what it skips completes a
    comment whose text so far is `pre`) -/
theorem skip_gap (l : Bytes) :
    Gap (l.take (skipWs l)) (l.drop (skipWs l)) ∧
    (∀ pre : Bytes, (∀ y ∈ pre, y ≠ 10) →
      Gap (37 :: pre ++ l.take (skipComment l)) (l.drop (skipComment l))) := by
  induction l with
  | nil =>
    refine ⟨?_, ?_⟩
    · simp only [skipWs, List.take_nil, List.drop_nil]
      exact Gap.stop [] (by simp)
    · intro pre hpre
      simp only [skipComment, List.take_nil, List.drop_nil, List.append_nil]
      exact Gap.open_comment pre hpre
  | cons b t ih =>
    constructor
    · rw [skipWs_cons]
      by_cases hb : isWsEol b = true
      · simp only [hb, if_true, List.drop_succ_cons, List.take_succ_cons]
        exact Gap.ws b _ _ hb ih.1
      · by_cases h37 : b = 37
        · subst h37
          simp only [show isWsEol 37 = false by decide, Bool.false_eq_true, if_false, beq_self_eq_true,
            if_true, List.drop_succ_cons, List.take_succ_cons]
          have := ih.2 [] (by simp)
          simpa using this
        · have h37' : (b == 37) = false := by simp [h37]
          simp only [hb, h37', Bool.false_eq_true, if_false, List.take_zero, List.drop_zero]
          apply Gap.stop
          intro y hy
          simp only [List.head?_cons, Option.some.injEq] at hy
          subst hy
          exact ⟨by simpa using hb, h37⟩
    · intro pre hpre
      rw [skipComment_cons]
      by_cases h10 : b = 10
      · subst h10
        simp only [beq_self_eq_true, if_true, List.drop_succ_cons, List.take_succ_cons]
        exact Gap.comment pre _ _ hpre ih.1
      · have h10' : (b == 10) = false := by simp [h10]
        simp only [h10', Bool.false_eq_true, if_false, List.drop_succ_cons, List.take_succ_cons]
        have := ih.2 (pre ++ [b]) (by
          intro y hy
          simp only [List.mem_append, List.mem_singleton] at hy
          rcases hy with hy | hy
          · exact hpre y hy
          · subst hy; exact h10)
        simpa using this

/-- the byte after what the skipper skips is neither white space nor '%' -/
theorem skipWs_stop (l : Bytes) (b : UInt8) (h : (l.drop (skipWs l)).head? = some b) :
    isWsEol b = false ∧ b ≠ 37 := by
  rcases (skip_gap l).1 with ⟨_, hr⟩ | ⟨hr, _⟩
  · exact hr b h
  · rw [hr] at h; simp at h

/-- a white-space run is skipped, whatever follows -/
theorem skipWs_run_add (lead rest : Bytes) (h : WsRun lead) :
    skipWs (lead ++ rest) = lead.length + skipWs rest := by
  induction h with
  | nil => simp
  | ws b t hb _ ih =>
    simp only [List.cons_append, skipWs_cons, hb, if_true, List.length_cons, ih]; omega
  | comment body t hbody _ ih =>
    have h37 : isWsEol 37 = false := by decide
    simp only [List.cons_append, List.append_assoc, skipWs_cons, h37, Bool.false_eq_true, if_false,
      beq_self_eq_true, if_true]
    rw [skipComment_body body (t ++ rest) hbody, ih]
    simp only [List.length_cons, List.length_append]; omega

/-- an unterminated comment is skipped to the end -/
theorem skipComment_open (body : Bytes) (h : ∀ y ∈ body, y ≠ 10) : skipComment body = body.length := by
  induction body with
  | nil => simp [skipComment]
  | cons a t ih =>
    have ha : (a == 10) = false := by simp [h a List.mem_cons_self]
    rw [skipComment_cons]
    simp only [ha, Bool.false_eq_true, if_false, List.length_cons]
    rw [ih (fun y hy => h y (List.mem_cons_of_mem _ hy))]

/-- the skipper consumes exactly the `Gap` -/
theorem skipWs_gap (w rest : Bytes) (h : Gap w rest) : skipWs (w ++ rest) = w.length := by
  rcases h with ⟨hw, hr⟩ | ⟨hr, w0, body, hw, hw0, hbody⟩
  · exact skipWs_run w rest hw hr
  · subst hr; subst hw
    rw [List.append_nil, skipWs_run_add w0 _ hw0, skipWs_cons]
    simp only [show isWsEol 37 = false by decide, Bool.false_eq_true, if_false, beq_self_eq_true, if_true,
      skipComment_open body hbody, List.length_append, List.length_cons]

/-! ## `WhitespaceEOL(true)` -/

/-- the located value and the cursor `WhitespaceEOL(true)` returns -/
theorem wsEOL_true_val (s : Bytes) (i : Nat) (hi : i ≤ s.length) :
    wsEOL true s i = (.ok ⟨(), i, i + skipWs (s.drop i)⟩, i + skipWs (s.drop i)) := by
  rw [wsEOL_eq true s i hi]; simp

/-- `WhitespaceEOL(true)` never fails -/
theorem wsEOL_true_total (s : Bytes) (i : Nat) (hi : i ≤ s.length) :
    ∃ u j, wsEOL true s i = (.ok u, j) :=
  ⟨_, _, wsEOL_true_val s i hi⟩

/-- **`wsEOL_accepts_exactly`**: `WhitespaceEOL(true)` moves the cursor from `i` to `j` iff the bytes
    between are a `Gap` in front of the bytes from `j` on -/
theorem wsEOL_accepts_exactly (s : Bytes) (i j : Nat) (hi : i ≤ s.length) :
    (∃ u, wsEOL true s i = (.ok u, j)) ↔
      ∃ w rest, s.drop i = w ++ rest ∧ j = i + w.length ∧ Gap w rest := by
  rw [wsEOL_true_val s i hi]
  constructor
  · rintro ⟨u, h⟩
    simp only [Prod.mk.injEq] at h
    refine ⟨(s.drop i).take (skipWs (s.drop i)), (s.drop i).drop (skipWs (s.drop i)),
      (List.take_append_drop _ _).symm, ?_, (skip_gap (s.drop i)).1⟩
    have := skipWs_le (s.drop i)
    rw [List.length_take, Nat.min_eq_left this]
    exact h.2.symm
  · rintro ⟨w, rest, hd, hj, hg⟩
    rw [hd, skipWs_gap w rest hg, ← hj]
    exact ⟨_, rfl⟩

/-- the located value of a successful `WhitespaceEOL(true)` spans exactly the gap -/
theorem wsEOL_true_loc (s : Bytes) (i j : Nat) (u : Located Unit) (hi : i ≤ s.length)
    (h : wsEOL true s i = (.ok u, j)) : u = ⟨(), i, j⟩ := by
  rw [wsEOL_true_val s i hi] at h
  simp only [Prod.mk.injEq, Res.ok.injEq] at h
  rw [← h.1, h.2]

/-! ## `endobj` after optional white space -/

theorem kwEndobj_head (tail : Bytes) :
    ∀ b, (Parsley.Indirect.kwEndobj ++ tail).head? = some b → isWsEol b = false ∧ b ≠ 37 := by
  intro b hb
  simp only [Parsley.Indirect.kwEndobj, List.cons_append, List.head?_cons, Option.some.injEq] at hb
  subst hb; decide

/-- **`endobj_follows_iff`**: `WhitespaceEOL(true)` followed by `exact "endobj"` succeeds at `j` and
    ends at `k` iff the bytes at `j` are a white-space run (white-space bytes and LF-terminated
    comments) followed by the keyword, and `k` is just behind the keyword -/
theorem endobj_follows_iff (s : Bytes) (j k : Nat) (hj : j ≤ s.length) :
    (∃ u q, wsEOL true s j = (.ok u, q) ∧ exact Parsley.Indirect.kwEndobj s q = (true, k)) ↔
      ∃ w tail, WsRun w ∧ s.drop j = w ++ Parsley.Indirect.kwEndobj ++ tail ∧ k = j + w.length + 6 := by
  constructor
  · rintro ⟨u, q, hws, hex⟩
    obtain ⟨w, rest, hd, hq, hg⟩ := (wsEOL_accepts_exactly s j q hj).1 ⟨u, hws⟩
    have hrest : s.drop q = rest := by
      rw [hq, ← List.drop_drop, hd, List.drop_left]
    unfold exact startsWith at hex
    rw [hrest] at hex
    split at hex
    · rename_i hp
      obtain ⟨tail, ht⟩ := List.isPrefixOf_iff_prefix.1 hp
      simp only [Prod.mk.injEq, true_and] at hex
      have hw : WsRun w := by
        rcases hg with ⟨hw, _⟩ | ⟨hr, _⟩
        · exact hw
        · rw [hr] at ht; simp [Parsley.Indirect.kwEndobj] at ht
      refine ⟨w, tail, hw, ?_, ?_⟩
      · rw [hd, ← ht, List.append_assoc]
      · rw [← hex, hq]; rfl
    · simp at hex
  · rintro ⟨w, tail, hw, hd, hk⟩
    have hs : s = s.take j ++ (w ++ (Parsley.Indirect.kwEndobj ++ tail)) := by
      rw [← List.append_assoc w, ← hd, List.take_append_drop]
    have hlen : (s.take j).length = j := by rw [List.length_take]; omega
    have h1 := ws_at' true s (s.take j) w (Parsley.Indirect.kwEndobj ++ tail) hs hw
      (kwEndobj_head tail) (Or.inr rfl)
    rw [hlen] at h1
    have hs2 : s = (s.take j ++ w) ++ (Parsley.Indirect.kwEndobj ++ tail) := by
      rw [List.append_assoc]; exact hs
    have h2 := exact_at Parsley.Indirect.kwEndobj s (s.take j ++ w) tail hs2
    rw [List.length_append, hlen] at h2
    refine ⟨_, _, h1, ?_⟩
    rw [h2, hk]; rfl

/-! ## non-vacuity -/

/-- space, a comment `%A` with its LF, CR - in front of `e` -/
example : Gap [32, 37, 65, 10, 13] [101] :=
  Or.inl ⟨WsRun.ws 32 _ (by decide) (WsRun.comment [65] [13] (by decide) (WsRun.ws 13 [] (by decide) WsRun.nil)),
    by intro b hb; simp at hb; subst hb; decide⟩

/-- an unterminated comment at the very end of the buffer: LF, then `%AB` without LF -/
example : Gap [10, 37, 65, 66] [] :=
  Or.inr ⟨rfl, [10], [65, 66], rfl, WsRun.ws 10 [] (by decide) WsRun.nil, by decide⟩

/-- an unterminated comment is not a `Gap` in front of more bytes -/
example : ¬ Gap [37, 65] [101] := by
  rintro (⟨hw, hr⟩ | ⟨hr, _⟩)
  · have := skipWs_run [37, 65] [101] hw hr
    revert this; decide
  · simp at hr

/-- both directions of `wsEOL_accepts_exactly` on a concrete buffer -/
example : ∃ u, wsEOL true [49, 32, 37, 65, 10, 13, 101] 1 = (.ok u, 6) :=
  (wsEOL_accepts_exactly _ 1 6 (by decide)).2 ⟨[32, 37, 65, 10, 13], [101], rfl, rfl,
    Or.inl ⟨WsRun.ws 32 _ (by decide)
      (WsRun.comment [65] [13] (by decide) (WsRun.ws 13 [] (by decide) WsRun.nil)),
      by intro b hb; simp at hb; subst hb; decide⟩⟩

/-- the white space in front of `endobj` may contain the bytes of `endobj` inside a comment:
    `>>\t%endobj\nendobj\n` at offset 2 -/
example : ∃ w tail, WsRun w ∧
    ([62, 62, 9, 37, 101, 110, 100, 111, 98, 106, 10, 101, 110, 100, 111, 98, 106, 10] : Bytes).drop 2 =
      w ++ Parsley.Indirect.kwEndobj ++ tail ∧ 17 = 2 + w.length + 6 :=
  ⟨[9, 37, 101, 110, 100, 111, 98, 106, 10], [10],
    WsRun.ws 9 _ (by decide) (WsRun.comment [101, 110, 100, 111, 98, 106] [] (by decide) WsRun.nil),
    rfl, rfl⟩

/-- ... and so the parser finds the keyword behind the comment, at 17, not the one inside it -/
example : ∃ u q, wsEOL true [62, 62, 9, 37, 101, 110, 100, 111, 98, 106, 10, 101, 110, 100, 111, 98, 106, 10] 2 = (.ok u, q) ∧
    exact Parsley.Indirect.kwEndobj [62, 62, 9, 37, 101, 110, 100, 111, 98, 106, 10, 101, 110, 100, 111, 98, 106, 10] q = (true, 17) :=
  (endobj_follows_iff _ 2 17 (by decide)).2
    ⟨[9, 37, 101, 110, 100, 111, 98, 106, 10], [10],
      WsRun.ws 9 _ (by decide) (WsRun.comment [101, 110, 100, 111, 98, 106] [] (by decide) WsRun.nil),
      rfl, rfl⟩

end Parsley.IndirectWs
