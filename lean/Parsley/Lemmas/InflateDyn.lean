/-
  C06, FlateDecode, the DYNAMIC-Huffman round trip and streams mixing the three block types: the
  executable inflate model decodes every zlib stream written by the spec-side encoder
  `DeflateDyn.zlibBlocks` — stored, fixed-Huffman and dynamic-Huffman blocks in any order; a
  dynamic block under ANY valid assignment of code lengths, any HLIT / HDIST / HCLEN, any
  run-length spelling of the lengths, holding the code symbols of ANY valid LZ77 factorisation —
  back to exactly the data the factorisation stands for, whatever follows the stream.
  The canonical-Huffman lemma (`canon_code`: the table `construct` builds decodes the RFC 1951
  3.2.2 code of every used symbol) is in Lemmas/InflateDynHuff.lean, the header parser round
  trip (`dynamicTables_hdr`) in Lemmas/InflateDynHdr.lean, the bit reader in InflateFixedBits.
-/
import Parsley.Model.Inflate
import Parsley.Spec.DeflateDyn
import Parsley.Lemmas.FiltersInflate
import Parsley.Lemmas.InflateReject
import Parsley.Lemmas.InflateFixedBits
import Parsley.Lemmas.InflateFixed
import Parsley.Lemmas.InflateDynHuff
import Parsley.Lemmas.InflateDynHdr
namespace Parsley.C06.Dyn
open Parsley Parsley.Inflate Parsley.DeflateFixed Parsley.DeflateDyn Parsley.C06.Fixed

/-! ### the symbol loop of a block under arbitrary tables -/

/-- the codes `lc` / `dc` of the symbols of a token are decoded by the tables `lit` / `dist` -/
def TokDec (lit dist : Huff) (lc dc : Nat → List Bool) : Tok → Prop
  | .lit b => goL lit.count lit.symbol 15 1 0 0 0 (lc b.toNat) = some (some b.toNat, [])
  | .copy ls _ ds _ =>
    goL lit.count lit.symbol 15 1 0 0 0 (lc (257 + ls)) = some (some (257 + ls), []) ∧
    goL dist.count dist.symbol 15 1 0 0 0 (dc ds) = some (some ds, [])

theorem codes_gen (lit dist : Huff) (lc dc : Nat → List Bool)
    (heob : goL lit.count lit.symbol 15 1 0 0 0 (lc 256) = some (some 256, [])) :
    ∀ (toks : List Tok) (fuel : Nat) (out : Array UInt8) (r : BitRd) (X : List Bool) (data : Bytes),
    WF r → bitsOf r = toksBitsG lc dc toks ++ (lc 256 ++ X) → toks.length + 1 ≤ fuel →
    (∀ t ∈ toks, TokDec lit dist lc dc t) → resolve toks out.toList = some data →
    ∃ out' r', codes lit dist fuel out r = .done out' r' ∧ out'.toList = data ∧ bitsOf r' = X ∧ WF r'
  | [], fuel, out, r, X, data, hw, hb, hf, _, hres => by
    obtain ⟨f, rfl⟩ : ∃ f, fuel = f + 1 := ⟨fuel - 1, by omega⟩
    simp only [toksBitsG, List.nil_append] at hb
    obtain ⟨r1, h1, h2, h3⟩ := decodeSym_code lit r (lc 256) X 256 hw heob hb
    simp only [resolve, Option.some.injEq] at hres
    refine ⟨out, r1, ?_, hres, h2, h3⟩
    rw [codes]
    simp [h1]
  | .lit b :: t, fuel, out, r, X, data, hw, hb, hf, hd, hres => by
    obtain ⟨f, rfl⟩ : ∃ f, fuel = f + 1 := ⟨fuel - 1, by omega⟩
    simp only [toksBitsG, tokBitsG, List.append_assoc] at hb
    have hd0 : TokDec lit dist lc dc (.lit b) := hd _ (by simp)
    obtain ⟨r1, h1, h2, h3⟩ := decodeSym_code lit r (lc b.toNat) _ b.toNat hw hd0 hb
    simp only [resolve] at hres
    have hres' : resolve t (out.push b).toList = some data := by simpa using hres
    obtain ⟨out', r', hc, ho, hbits, hw'⟩ := codes_gen lit dist lc dc heob t f (out.push b) r1 X data h3 h2
      (by simp only [List.length_cons] at hf; omega) (fun t' ht' => hd t' (by simp [ht'])) hres'
    refine ⟨out', r', ?_, ho, hbits, hw'⟩
    rw [codes]
    simp only [h1, b.toNat_lt, if_true, UInt8.ofNat_toNat]
    exact hc
  | .copy ls le ds de :: t, fuel, out, r, X, data, hw, hb, hf, hd, hres => by
    obtain ⟨f, rfl⟩ : ∃ f, fuel = f + 1 := ⟨fuel - 1, by omega⟩
    simp only [toksBitsG, tokBitsG, List.append_assoc] at hb
    simp only [resolve] at hres
    have hd0 : TokDec lit dist lc dc (.copy ls le ds de) := hd _ (by simp)
    obtain ⟨hdl, hdd⟩ := hd0
    split at hres
    · rename_i hok
      simp only [Bool.and_eq_true, decide_eq_true_eq] at hok
      obtain ⟨hcode, hdist⟩ := hok
      obtain ⟨hls, hle, hds, hde⟩ := (codeOk_iff ls le ds de).mp hcode
      obtain ⟨r1, h1, b1, w1⟩ := decodeSym_code lit r (lc (257 + ls)) _ (257 + ls) hw hdl hb
      have eLE := lenExtra_get ⟨ls, hls⟩
      have eLB := lenBase_get ⟨ls, hls⟩
      have eDE := distExtra_get ⟨ds, hds⟩
      have eDB := distBase_get ⟨ds, hds⟩
      simp only at eLE eLB eDE eDB
      obtain ⟨r2, h2, b2, w2⟩ := bits_lsb r1 _ le _ w1 hle b1
      obtain ⟨r3, h3, b3, w3⟩ := decodeSym_code dist r2 (dc ds) _ ds w2 hdd b2
      obtain ⟨r4, h4, b4, w4⟩ := bits_lsb r3 _ de _ w3 hde b3
      have hres' : resolve t (copyBack (copyDist ds de) (copyLen ls le) out).toList = some data := by
        rw [copyBack_toList]; exact hres
      obtain ⟨out', r', hc, ho, hbits, hw'⟩ := codes_gen lit dist lc dc heob t f _ r4 X data w4 b4
        (by simp only [List.length_cons] at hf; omega) (fun t' ht' => hd t' (by simp [ht'])) hres'
      refine ⟨out', r', ?_, ho, hbits, hw'⟩
      rw [codes]
      have e1 : ¬ (257 + ls < 256) := by omega
      have e2 : (257 + ls == 256) = false := by simp; omega
      have e3 : 257 + ls - 257 = ls := by omega
      have e4 : ¬ (ls ≥ 29) := by omega
      have e5 : ¬ (ds ≥ 30) := by omega
      have e6 : ¬ (copyDist ds de > out.size) := by
        have : out.toList.length = out.size := Array.length_toList
        omega
      simp only [h1, e1, e2, e3, e4, if_false, Bool.false_eq_true, eLE, h2, h3, e5, eDE, h4, eLB, eDB]
      simp only [copyDist, copyLen] at e6 hc
      simp only [e6, if_false]
      exact hc
    · cases hres

/-! ### the codes of a valid alphabet -/

theorem codeTable_fun (ls : List Nat) : (fun s => (codeTable ls)[s]?.getD []) = symBits ls := by
  funext s; exact codeTable_get ls s

theorem symBits_length (ls : List Nat) (s : Nat) : (symBits ls s).length = ls[s]?.getD 0 := by
  simp [symBits, msbBits_length]

theorem tokDec_of_usable (ll dl : List Nat) (hl : lensOk ll = true) (hd : lensOk dl = true) (t : Tok)
    (hu : tokUsable ll dl t = true) :
    TokDec (construct ll.toArray) (construct dl.toArray) (symBits ll) (symBits dl) t := by
  obtain ⟨hlb, hlk⟩ := lensOk_bounds ll hl
  obtain ⟨hdb, hdk⟩ := lensOk_bounds dl hd
  cases t with
  | lit b =>
    simp only [tokUsable, decide_eq_true_eq] at hu
    exact canon_code ll hlb hlk _ hu
  | copy ls le ds de =>
    simp only [tokUsable, Bool.and_eq_true, decide_eq_true_eq] at hu
    exact ⟨canon_code ll hlb hlk _ hu.1, canon_code dl hdb hdk _ hu.2⟩

theorem tokBitsG_pos (ll dl : List Nat) (t : Tok) (hu : tokUsable ll dl t = true) :
    1 ≤ (tokBitsG (symBits ll) (symBits dl) t).length := by
  cases t with
  | lit b =>
    simp only [tokUsable, decide_eq_true_eq] at hu
    simp only [tokBitsG, symBits_length]; omega
  | copy ls le ds de =>
    simp only [tokUsable, Bool.and_eq_true, decide_eq_true_eq] at hu
    simp only [tokBitsG, List.length_append, symBits_length]; omega

theorem toksBitsG_length (ll dl : List Nat) : ∀ (toks : List Tok), (∀ t ∈ toks, tokUsable ll dl t = true) →
    toks.length ≤ (toksBitsG (symBits ll) (symBits dl) toks).length
  | [], _ => by simp [toksBitsG]
  | t :: ts, h => by
    have h1 := tokBitsG_pos ll dl t (h t (by simp))
    have h2 := toksBitsG_length ll dl ts (fun t' ht' => h t' (by simp [ht']))
    simp only [toksBitsG, List.length_append, List.length_cons]; omega

/-! ### bytes inside a bit stream (stored blocks) -/

theorem bitsOfBytes_eq : ∀ (a : Bytes), bitsOfBytes a = bytesBits a
  | [] => rfl
  | b :: t => by simp only [bitsOfBytes, bytesBits, bitsOfBytes_eq t]

/-- a byte string whose bits begin with the bits of `A` begins with `A` -/
theorem bytesBits_split : ∀ (A R : Bytes) (Y : List Bool), bytesBits R = bytesBits A ++ Y →
    ∃ R', R = A ++ R' ∧ bytesBits R' = Y
  | [], R, Y, h => ⟨R, rfl, by simpa [bytesBits] using h⟩
  | a :: A, [], Y, h => by
    have := congrArg List.length h
    simp [bytesBits, lsbBits_length] at this
    omega
  | a :: A, b :: R, Y, h => by
    simp only [bytesBits, List.append_assoc] at h
    have hh := List.append_inj h (by simp [lsbBits_length])
    have h1 := congrArg natOfBits hh.1
    rw [natOfBits_lsbBits, natOfBits_lsbBits] at h1
    have hx := a.toNat_lt; have hy := b.toNat_lt
    have e : b = a := UInt8.toNat_inj.mp (by omega)
    obtain ⟨R', hR, hY⟩ := bytesBits_split A R Y hh.2
    exact ⟨R', by rw [e, hR]; rfl, hY⟩

/-! ### one block of each type -/

theorem lenBytes_length (n : Nat) : (lenBytes n).length = 4 := rfl

/-- a stored block met in mid-stream: header bits, skip to the byte boundary, LEN / NLEN, data -/
theorem block_stored (final : Bool) (d : Bytes) (pos fuel : Nat) (out : Array UInt8) (r : BitRd)
    (X : List Bool) (hw : WF r) (hb : bitsOf r = blockBitsAt pos final (.stored d) ++ X)
    (hal : (pos + (bitsOf r).length) % 8 = 0) (hd : d.length ≤ 65535) :
    ∃ out' r', out'.toList = out.toList ++ d ∧ bitsOf r' = X ∧ WF r' ∧
      Inflate.blocks (fuel + 1) out r = if final then .done out' r' else Inflate.blocks fuel out' r' := by
  simp only [blockBitsAt, List.cons_append, List.nil_append, List.append_assoc] at hb
  obtain ⟨r1, h1, b1, w1⟩ := bits_one r final _ hw hb
  have b1' : bitsOf r1 = lsbBits 2 0 ++ (List.replicate ((8 - (pos + 3) % 8) % 8) false ++
      (bitsOfBytes (lenBytes d.length ++ d) ++ X)) := by rw [b1]; rfl
  obtain ⟨r2, h2, b2, w2⟩ := bits_lsb r1 2 0 _ w1 (by decide) b1'
  -- the reader holds exactly the padding bits
  have hlen : (bitsOf r).length = 3 + (bitsOf r2).length := by
    rw [hb, b2]; simp only [List.length_cons, List.length_append, List.length_replicate]; omega
  have hl2 : (bitsOf r2).length = r2.cnt + 8 * r2.rest.length := by
    simp only [bitsOf, List.length_append, lsbBits_length, bytesBits_length]
  have hc := w2.2
  have hcnt : r2.cnt = (8 - (pos + 3) % 8) % 8 := by omega
  have hsplit := List.append_inj b2 (by rw [lsbBits_length, List.length_replicate]; exact hcnt)
  rw [bitsOfBytes_eq] at hsplit
  obtain ⟨R', hR, hY⟩ := bytesBits_split _ _ _ hsplit.2
  obtain ⟨out', ht, ho⟩ := takeBytes_append d R' out
  refine ⟨out', ⟨R', 0, 0⟩, ho, by simpa [bitsOf, lsbBits] using hY,
    ⟨by show 0 < 2 ^ 0; omega, by show 0 < 8; omega⟩, ?_⟩
  rw [Inflate.blocks]
  simp only [h1, h2, Inflate.BitRd.align, hR, lenBytes, List.cons_append, List.nil_append]
  have e1 := len_bytes d.length hd
  have e2 := nlen_bytes d.length hd
  have e3 : d.length + (65535 - d.length) = 65535 := by omega
  simp only [e1, e2, e3, ht]
  cases final <;> simp

/-- a dynamic-Huffman block: header bits, the code-length tables, the symbols, end-of-block -/
theorem block_dyn (final : Bool) (h : Hdr) (toks : List Tok) (fuel : Nat) (out : Array UInt8) (r : BitRd)
    (X : List Bool) (data : Bytes) (hw : WF r) (hb : bitsOf r = blockBitsAt 0 final (.dyn h toks) ++ X)
    (hok : (Block.dyn h toks).ok = true) (hf : toks.length + 1 ≤ fuel)
    (hres : resolve toks out.toList = some data) :
    ∃ out' r', out'.toList = data ∧ bitsOf r' = X ∧ WF r' ∧
      Inflate.blocks (fuel + 1) out r = if final then .done out' r' else Inflate.blocks fuel out' r' := by
  simp only [Block.ok, Bool.and_eq_true, List.all_eq_true] at hok
  obtain ⟨hh, hu⟩ := hok
  have hh' := hh
  simp only [Hdr.ok, Bool.and_eq_true, decide_eq_true_eq] at hh'
  have hlit : lensOk h.litLens = true := hh'.1.1.1.1.1.1.1.1.1.1.2
  have hdist : lensOk h.distLens = true := hh'.1.1.1.1.1.1.1.1.1.2
  have heobpos : 0 < h.litLens[256]?.getD 0 := hh'.1.1.1.1.1.1.1.1.2
  simp only [blockBitsAt, dynBits, codeTable_get, List.cons_append, List.nil_append,
    List.append_assoc] at hb
  obtain ⟨r1, h1, b1, w1⟩ := bits_one r final _ hw hb
  have b1' : bitsOf r1 = lsbBits 2 2 ++ (hdrBits h ++ (toksBitsG (symBits h.litLens) (symBits h.distLens) toks ++
      (symBits h.litLens 256 ++ X))) := by rw [b1]; rfl
  obtain ⟨r2, h2, b2, w2⟩ := bits_lsb r1 2 2 _ w1 (by decide) b1'
  obtain ⟨r3, h3, b3, w3⟩ := dynamicTables_hdr h hh r2 _ w2 b2
  obtain ⟨hlb, hlk⟩ := lensOk_bounds h.litLens hlit
  obtain ⟨out', r', hc, ho, hbits, hw'⟩ := codes_gen (construct h.litLens.toArray) (construct h.distLens.toArray)
    (symBits h.litLens) (symBits h.distLens) (canon_code h.litLens hlb hlk 256 heobpos) toks fuel out r3 X data
    w3 b3 hf (fun t ht => tokDec_of_usable _ _ hlit hdist t (hu t ht)) hres
  refine ⟨out', r', ho, hbits, hw', ?_⟩
  rw [Inflate.blocks]
  simp only [h1, h2, h3, hc]
  cases final <;> simp

/-- what a block contributes to the output -/
theorem resolve_stored : ∀ (d out : Bytes), resolve (d.map Tok.lit) out = some (out ++ d)
  | [], out => by simp [resolve]
  | b :: t, out => by simp [resolve, resolve_stored t]

theorem blockBitsAt_length (pos : Nat) (final : Bool) (b : Block) (hok : b.ok = true) :
    b.toks.length + 2 ≤ (blockBitsAt pos final b).length := by
  cases b with
  | stored d =>
    simp only [Block.toks, blockBitsAt, List.length_map, List.length_append, List.length_cons, List.length_nil,
      List.length_replicate, bitsOfBytes_eq, bytesBits_length, lenBytes_length]
    omega
  | fixed t =>
    have := toksBits_length t
    simp only [Block.toks, blockBitsAt, blockBits_length]; omega
  | dyn h t =>
    simp only [Block.ok, Bool.and_eq_true, List.all_eq_true] at hok
    have := toksBitsG_length h.litLens h.distLens t hok.2
    simp only [Block.toks, blockBitsAt, dynBits, codeTable_fun, List.length_append, List.length_cons, List.length_nil]
    omega

/-- one block of any type -/
theorem block_step (final : Bool) (b : Block) (pos fuel : Nat) (out : Array UInt8) (r : BitRd)
    (X : List Bool) (data : Bytes) (hw : WF r) (hb : bitsOf r = blockBitsAt pos final b ++ X)
    (hal : (pos + (bitsOf r).length) % 8 = 0) (hok : b.ok = true) (hf : b.toks.length + 1 ≤ fuel)
    (hres : resolve b.toks out.toList = some data) :
    ∃ out' r', out'.toList = data ∧ bitsOf r' = X ∧ WF r' ∧
      Inflate.blocks (fuel + 1) out r = if final then .done out' r' else Inflate.blocks fuel out' r' := by
  cases b with
  | stored d =>
    simp only [Block.toks, resolve_stored, Option.some.injEq] at hres
    simp only [Block.ok, decide_eq_true_eq] at hok
    obtain ⟨out', r', ho, hbits, hw', hbl⟩ := block_stored final d pos fuel out r X hw hb hal hok
    exact ⟨out', r', by rw [ho, hres], hbits, hw', hbl⟩
  | fixed t => exact block_fixed final t fuel out r X data hw hb hf hres
  | dyn h t => exact block_dyn final h t fuel out r X data hw hb hok hf hres

/-! ### the block loop -/

theorem blocks_mixed : ∀ (bs : List Block) (last : Block) (pos fuel : Nat) (out : Array UInt8) (r : BitRd)
    (X : List Bool) (data : Bytes), WF r → bitsOf r = streamBitsAt pos bs last ++ X →
    (pos + (bitsOf r).length) % 8 = 0 → (∀ b ∈ bs ++ [last], b.ok = true) →
    (streamBitsAt pos bs last).length ≤ fuel →
    resolveBlocks ((bs ++ [last]).map Block.toks) out.toList = some data →
    ∃ out' r', Inflate.blocks fuel out r = .done out' r' ∧ out'.toList = data ∧ bitsOf r' = X ∧ WF r'
  | [], last, pos, fuel, out, r, X, data, hw, hb, hal, hok, hf, hres => by
    simp only [streamBitsAt] at hb hf
    have hlok : last.ok = true := hok last (by simp)
    have hbl := blockBitsAt_length pos true last hlok
    obtain ⟨f, rfl⟩ : ∃ f, fuel = f + 1 := ⟨fuel - 1, by omega⟩
    simp only [List.nil_append, List.map_cons, List.map_nil, resolveBlocks] at hres
    cases hr : resolve last.toks out.toList with
    | none => rw [hr] at hres; cases hres
    | some mid =>
      rw [hr] at hres
      simp only [Option.some.injEq] at hres
      obtain ⟨out', r', ho, hbits, hw', hstep⟩ := block_step true last pos f out r X mid hw hb hal hlok (by omega) hr
      exact ⟨out', r', by rw [hstep]; rfl, by rw [ho, hres], hbits, hw'⟩
  | b :: bs, last, pos, fuel, out, r, X, data, hw, hb, hal, hok, hf, hres => by
    simp only [streamBitsAt, List.append_assoc] at hb
    simp only [streamBitsAt, List.length_append] at hf
    have hbok : b.ok = true := hok b (by simp)
    have hbl := blockBitsAt_length pos false b hbok
    obtain ⟨f, rfl⟩ : ∃ f, fuel = f + 1 := ⟨fuel - 1, by omega⟩
    simp only [List.cons_append, List.map_cons, resolveBlocks] at hres
    cases hr : resolve b.toks out.toList with
    | none => rw [hr] at hres; cases hres
    | some mid =>
      rw [hr] at hres
      simp only at hres
      obtain ⟨out1, r1, ho1, hb1, hw1, hstep⟩ := block_step false b pos f out r _ mid hw hb hal hbok (by omega) hr
      have hal1 : (pos + (blockBitsAt pos false b).length + (bitsOf r1).length) % 8 = 0 := by
        have := congrArg List.length hb
        simp only [List.length_append] at this
        rw [hb1, List.length_append]
        omega
      obtain ⟨out', r', hfin, ho, hbits, hw'⟩ := blocks_mixed bs last _ f out1 r1 X data hw1 hb1 hal1
        (fun b' hb' => hok b' (by simp only [List.cons_append, List.mem_cons]; exact Or.inr hb')) (by omega)
        (by rw [ho1]; exact hres)
      refine ⟨out', r', ?_, ho, hbits, hw'⟩
      rw [hstep]
      simpa using hfin

end Parsley.C06.Dyn

namespace Parsley.C06
open Parsley Parsley.FiltersSpec Parsley.DeflateFixed Parsley.DeflateDyn Parsley.C06.Fixed Parsley.C06.Dyn
  Parsley.C06.InflRej

/-- **the round trip for streams of stored, fixed-Huffman and dynamic-Huffman blocks.**  For every
    plan `bs ++ [last]` of blocks that is valid for `payload` (`planOk`: every stored block at most
    65535 bytes; every dynamic block with a header that is `Hdr.ok` — HLIT + 257 / HDIST + 1 code
    lengths forming complete codes or one of the two incomplete sets every decoder takes, a
    complete code-length code, any HCLEN that covers it, ANY run-length spelling — and tokens whose
    symbols have codes; and the tokens of all blocks together an LZ77 factorisation of `payload`,
    with copies reaching back over block boundaries of any type), the executable inflate decodes
    the zlib stream the specification's encoder writes to exactly `payload`, whatever bytes follow
    the Adler-32 trailer. -/
theorem inflate_blocks_roundtrip (bs : List Block) (last : Block) (payload trailing : Bytes)
    (h : planOk bs last payload) :
    Inflate.inflate (zlibBlocks bs last payload ++ trailing) = .ok payload := by
  obtain ⟨hok, hres⟩ := h
  obtain ⟨pad, hpad, hpack⟩ := bytesBits_pack (streamBitsAt 0 bs last)
  have hz : zlibBlocks bs last payload ++ trailing =
      0x78 :: 0x01 :: (pack (streamBitsAt 0 bs last) ++ (be32Bytes (adler32 payload) ++ trailing)) := by
    simp [zlibBlocks]
  rw [hz, inflate_hdr_ok _ _ _ (by decide)]
  have hbits : bitsOf ⟨pack (streamBitsAt 0 bs last) ++ (be32Bytes (adler32 payload) ++ trailing), 0, 0⟩ =
      streamBitsAt 0 bs last ++ (pad ++ bytesBits (be32Bytes (adler32 payload) ++ trailing)) := by
    simp only [bitsOf, lsbBits, List.nil_append, bytesBits_append, hpack, List.append_assoc]
  have hlen : (streamBitsAt 0 bs last).length ≤
      8 * (pack (streamBitsAt 0 bs last) ++ (be32Bytes (adler32 payload) ++ trailing)).length + 8 := by
    have := congrArg List.length hpack
    simp only [bytesBits_length, List.length_append] at this ⊢
    omega
  have hal : (0 + (bitsOf ⟨pack (streamBitsAt 0 bs last) ++ (be32Bytes (adler32 payload) ++ trailing), 0, 0⟩).length) % 8 = 0 := by
    simp only [bitsOf, lsbBits, List.nil_append, bytesBits_length]; omega
  obtain ⟨out', r', hb, ho, hrest, hw'⟩ := blocks_mixed bs last 0 _
    (Array.mkEmpty (4 * (pack (streamBitsAt 0 bs last) ++ (be32Bytes (adler32 payload) ++ trailing)).length))
    ⟨pack (streamBitsAt 0 bs last) ++ (be32Bytes (adler32 payload) ++ trailing), 0, 0⟩ _ payload
    ⟨by show 0 < 2 ^ 0; omega, by show 0 < 8; omega⟩ hbits hal hok hlen (by simpa using hres)
  have hr : r'.rest = be32Bytes (adler32 payload) ++ trailing := rest_of_pad r' pad _ hw' hpad hrest
  rw [hb]
  have hlt := adler32_lt payload
  simp only [finish, Inflate.BitRd.align, hr, be32Bytes, List.cons_append, List.nil_append, ho,
    adler_model_eq_spec]
  rw [be32_roundtrip _ hlt]
  simp

/-- what the judge evaluates is the hypothesis of `inflate_blocks_roundtrip` -/
theorem planOkB_sound (bs : List Block) (last : Block) (payload : Bytes)
    (h : planOkB bs last payload = true) : planOk bs last payload := by
  simp only [planOkB, Bool.and_eq_true, List.all_eq_true, beq_iff_eq] at h
  exact ⟨h.1, resolveBlocksA_sound _ _ h.2⟩

end Parsley.C06
