/-
  C06, FlateDecode, dynamic-Huffman block header (RFC 1951 3.2.7): the model's `dynamicTables`
  reads back the header written by the spec-side encoder `hdrBits` (HLIT / HDIST / HCLEN, the
  code lengths of the code-length alphabet, the run-length coded literal/length + distance code
  lengths) and yields the decoding tables of exactly these code lengths.
  Uses the bit-reader toolkit of Lemmas/InflateFixedBits.lean and the canonical-code facts
  (`canon_code`, `tableOk_*`).
-/
import Parsley.Model.Inflate
import Parsley.Spec.DeflateDyn
import Parsley.Lemmas.InflateFixedBits
import Parsley.Lemmas.InflateDynHuff
namespace Parsley.C06.Dyn
open Parsley Parsley.Inflate Parsley.DeflateFixed Parsley.DeflateDyn Parsley.C06.Fixed

/-! ### the code table -/

theorem codeTable_get (ls : List Nat) (s : Nat) : (codeTable ls)[s]?.getD [] = symBits ls s := by
  unfold codeTable
  by_cases hs : s < ls.length
  · simp [hs]
  · simp [symBits, msbBits, hs]

/-! ### the code lengths of the code-length alphabet -/

theorem clOrder_get (i : Nat) : Inflate.clOrder[i]?.getD 0 = DeflateDyn.clOrder[i]?.getD 0 := by
  have : Inflate.clOrder = DeflateDyn.clOrder.toArray := rfl
  rw [this, List.getElem?_toArray]

theorem clLens_loop (cl : List Nat) (hcl : ∀ s : Nat, cl[s]?.getD 0 ≤ 7) :
    ∀ (k i : Nat) (a : Array Nat) (r : BitRd) (Y : List Bool), WF r → i + k ≤ 19 →
    bitsOf r = clLensBits cl ((DeflateDyn.clOrder.drop i).take k) ++ Y →
    ∃ r', dynamicTables.clLens k i a r =
        some (((DeflateDyn.clOrder.drop i).take k).foldl (fun a s => a.set! s (cl[s]?.getD 0)) a, r') ∧
      bitsOf r' = Y ∧ WF r' := by
  intro k
  induction k with
  | zero =>
    intro i a r Y hw _ hb
    refine ⟨r, ?_, by simpa [clLensBits] using hb, hw⟩
    simp [dynamicTables.clLens]
  | succ k ih =>
    intro i a r Y hw hik hb
    have hi : i < DeflateDyn.clOrder.length := by
      have : DeflateDyn.clOrder.length = 19 := rfl
      omega
    rw [List.drop_eq_getElem_cons hi, List.take_succ_cons] at hb ⊢
    simp only [clLensBits, List.append_assoc] at hb
    obtain ⟨r1, h1, b1, w1⟩ := bits_lsb r 3 _ _ hw (by have := hcl (DeflateDyn.clOrder[i]); show _ < 8; omega) hb
    obtain ⟨r', h2, b2, w2⟩ := ih (i + 1) (a.set! (DeflateDyn.clOrder[i]) (cl[DeflateDyn.clOrder[i]]?.getD 0)) r1 Y w1 (by omega) b1
    refine ⟨r', ?_, b2, w2⟩
    rw [dynamicTables.clLens]
    simp only [h1, clOrder_get, List.getElem?_eq_getElem hi, Option.getD_some, List.foldl_cons]
    exact h2

theorem foldl_set_get (f : Nat → Nat) : ∀ (l : List Nat) (a : Array Nat) (t : Nat),
    (l.foldl (fun a s => a.set! s (f s)) a).size = a.size ∧
    (t < a.size → (l.foldl (fun a s => a.set! s (f s)) a)[t]?.getD 0 = if t ∈ l then f t else a[t]?.getD 0)
  | [], a, t => by simp
  | s :: l, a, t => by
    obtain ⟨h1, h2⟩ := foldl_set_get f l (a.set! s (f s)) t
    simp only [List.foldl_cons]
    refine ⟨by rw [h1]; simp, fun ht => ?_⟩
    rw [h2 (by simpa using ht)]
    by_cases hl : t ∈ l
    · simp [hl]
    · simp only [hl, if_false, List.mem_cons, or_false, Array.set!_eq_setIfInBounds, Array.getElem?_setIfInBounds]
      by_cases hst : s = t
      · subst hst; simp [ht]
      · have : ¬ t = s := fun h => hst h.symm
        simp [hst, this]

theorem clOrder_mem : ∀ t : Fin 19, t.val ∈ DeflateDyn.clOrder := by decide

theorem clArr_eq (cl : List Nat) (n : Nat) (hlen : cl.length = 19)
    (hz : ∀ s ∈ DeflateDyn.clOrder.drop n, cl[s]?.getD 0 = 0) :
    (DeflateDyn.clOrder.take n).foldl (fun a s => a.set! s (cl[s]?.getD 0)) (Array.replicate 19 0) = cl.toArray := by
  apply Array.ext_getElem?
  intro t
  obtain ⟨h1, h2⟩ := foldl_set_get (fun s => cl[s]?.getD 0) (DeflateDyn.clOrder.take n) (Array.replicate 19 0) t
  simp only [Array.size_replicate] at h1 h2
  by_cases ht : t < 19
  · have h3 := h2 ht
    have hm : t ∈ DeflateDyn.clOrder.take n ∨ t ∈ DeflateDyn.clOrder.drop n := by
      rw [← List.mem_append, List.take_append_drop]; exact clOrder_mem ⟨t, ht⟩
    have h4 : (List.foldl (fun a s => a.set! s (cl[s]?.getD 0)) (Array.replicate 19 0) (List.take n DeflateDyn.clOrder))[t]?.getD 0 = cl[t]?.getD 0 := by
      rw [h3]
      split
      · rfl
      · rename_i hnm
        have := hz t (hm.resolve_left hnm)
        rw [this]; simp [ht]
    rw [Array.getElem?_eq_getElem (by rw [h1]; exact ht)] at h4 ⊢
    rw [List.getElem?_toArray]
    rw [List.getElem?_eq_getElem (by omega)] at h4 ⊢
    simpa using h4
  · rw [Array.getElem?_eq_none (by rw [h1]; omega), List.getElem?_toArray, List.getElem?_eq_none (by omega)]

theorem extract_split (a : Array Nat) (x y : List Nat) (h : a.toList = x ++ y) :
    a.extract 0 x.length = x.toArray ∧ a.extract x.length (x.length + y.length) = y.toArray := by
  constructor
  · apply Array.toList_inj.mp
    rw [Array.toList_extract, h]
    simp [List.extract]
  · apply Array.toList_inj.mp
    rw [Array.toList_extract, h]
    simp [List.extract]

/-! ### the run-length coded code lengths -/

theorem expand_length : ∀ (items : List Rle) (acc full : List Nat), expand items acc = some full →
    acc.length + items.length ≤ full.length
  | [], acc, full, h => by
    simp only [expand, Option.some.injEq] at h
    subst h; simp
  | .len v :: t, acc, full, h => by
    simp only [expand] at h
    split at h
    · have := expand_length t _ full h
      simp only [List.length_append, List.length_cons, List.length_nil] at this ⊢
      omega
    · cases h
  | .prev e :: t, acc, full, h => by
    simp only [expand] at h
    split at h
    · split at h
      · have := expand_length t _ full h
        simp only [List.length_append, List.length_cons, List.length_replicate] at this ⊢
        omega
      · cases h
    · cases h
  | .zeros e :: t, acc, full, h => by
    simp only [expand] at h
    split at h
    · have := expand_length t _ full h
      simp only [List.length_append, List.length_cons, List.length_replicate] at this ⊢
      omega
    · cases h
  | .zerosL e :: t, acc, full, h => by
    simp only [expand] at h
    split at h
    · have := expand_length t _ full h
      simp only [List.length_append, List.length_cons, List.length_replicate] at this ⊢
      omega
    · cases h

theorem readLens_rle (cl : List Nat) (hb : ∀ l ∈ cl, l ≤ 15) (hk : kraft cl ≤ 2 ^ 15) (n : Nat) :
    ∀ (items : List Rle) (fuel : Nat) (lens : Array Nat) (r : BitRd) (Y : List Bool) (full : List Nat),
    WF r → bitsOf r = rlesBits (symBits cl) items ++ Y →
    expand items lens.toList = some full → full.length = n →
    (∀ it ∈ items, 0 < cl[it.sym]?.getD 0) → items.length + 1 ≤ fuel →
    ∃ lens' r', readLens (construct cl.toArray) n fuel lens r = some (some (lens', r')) ∧
      lens'.toList = full ∧ bitsOf r' = Y ∧ WF r'
  | [], fuel, lens, r, Y, full, hw, hbits, hex, hn, hpos, hf => by
    obtain ⟨f, rfl⟩ : ∃ f, fuel = f + 1 := ⟨fuel - 1, by omega⟩
    simp only [expand, Option.some.injEq] at hex
    simp only [rlesBits, List.nil_append] at hbits
    refine ⟨lens, r, ?_, hex, hbits, hw⟩
    have : lens.size ≥ n := by rw [← hn, ← hex]; simp
    rw [readLens]
    simp only [this, if_true]
  | .len v :: t, fuel, lens, r, Y, full, hw, hbits, hex, hn, hpos, hf => by
    obtain ⟨f, rfl⟩ : ∃ f, fuel = f + 1 := ⟨fuel - 1, by omega⟩
    simp only [rlesBits, rleBits, List.append_assoc] at hbits
    have hp := hpos (.len v) (by simp)
    simp only [Rle.sym] at hp
    obtain ⟨r1, h1, b1, w1⟩ := decodeSym_code (construct cl.toArray) r (symBits cl v) _ v hw
      (canon_code cl hb hk v hp) hbits
    simp only [expand] at hex
    split at hex
    · rename_i hv
      have hlen := expand_length t _ full hex
      have hex' : expand t (lens.push v).toList = some full := by simpa using hex
      obtain ⟨lens', r', hc, ho, hbits', hw'⟩ := readLens_rle cl hb hk n t f (lens.push v) r1 Y full w1 b1 hex' hn
        (fun it hit => hpos it (by simp [hit])) (by simp only [List.length_cons] at hf; omega)
      refine ⟨lens', r', ?_, ho, hbits', hw'⟩
      have e1 : ¬ (lens.size ≥ n) := by
        simp only [List.length_append, Array.length_toList, List.length_cons, List.length_nil] at hlen
        omega
      rw [readLens]
      simp only [e1, if_false, h1, hv, if_true]
      exact hc
    · cases hex
  | .prev e :: t, fuel, lens, r, Y, full, hw, hbits, hex, hn, hpos, hf => by
    obtain ⟨f, rfl⟩ : ∃ f, fuel = f + 1 := ⟨fuel - 1, by omega⟩
    simp only [rlesBits, rleBits, List.append_assoc] at hbits
    have hp := hpos (.prev e) (by simp)
    simp only [Rle.sym] at hp
    obtain ⟨r1, h1, b1, w1⟩ := decodeSym_code (construct cl.toArray) r (symBits cl 16) _ 16 hw
      (canon_code cl hb hk 16 hp) hbits
    simp only [expand] at hex
    split at hex
    · rename_i p hlast
      split at hex
      · rename_i he
        obtain ⟨r2, h2, b2, w2⟩ := bits_lsb r1 2 e _ w1 (by show e < 4; exact he) b1
        have hlen := expand_length t _ full hex
        have hex' : expand t (lens ++ Array.replicate (3 + e) p).toList = some full := by
          simpa using hex
        obtain ⟨lens', r', hc, ho, hbits', hw'⟩ := readLens_rle cl hb hk n t f _ r2 Y full w2 b2 hex' hn
          (fun it hit => hpos it (by simp [hit])) (by simp only [List.length_cons] at hf; omega)
        refine ⟨lens', r', ?_, ho, hbits', hw'⟩
        simp only [List.length_append, Array.length_toList, List.length_replicate] at hlen
        have e1 : ¬ (lens.size ≥ n) := by omega
        rw [List.getLast?_eq_getElem?, Array.length_toList, Array.getElem?_toList] at hlast
        have e2 : lens.size ≠ 0 := by
          intro h0
          have : lens[lens.size - 1]? = none := by simp [h0]
          rw [this] at hlast; cases hlast
        have e3 : ¬ (lens.size + (3 + e) > n) := by omega
        rw [readLens]
        simp [e1, h1, h2, e2, hlast, e3]
        exact hc
      · cases hex
    · cases hex
  | .zeros e :: t, fuel, lens, r, Y, full, hw, hbits, hex, hn, hpos, hf => by
    obtain ⟨f, rfl⟩ : ∃ f, fuel = f + 1 := ⟨fuel - 1, by omega⟩
    simp only [rlesBits, rleBits, List.append_assoc] at hbits
    have hp := hpos (.zeros e) (by simp)
    simp only [Rle.sym] at hp
    obtain ⟨r1, h1, b1, w1⟩ := decodeSym_code (construct cl.toArray) r (symBits cl 17) _ 17 hw
      (canon_code cl hb hk 17 hp) hbits
    simp only [expand] at hex
    split at hex
    · rename_i he
      obtain ⟨r2, h2, b2, w2⟩ := bits_lsb r1 3 e _ w1 (by show e < 8; exact he) b1
      have hlen := expand_length t _ full hex
      have hex' : expand t (lens ++ Array.replicate (3 + e) 0).toList = some full := by
        simpa using hex
      obtain ⟨lens', r', hc, ho, hbits', hw'⟩ := readLens_rle cl hb hk n t f _ r2 Y full w2 b2 hex' hn
        (fun it hit => hpos it (by simp [hit])) (by simp only [List.length_cons] at hf; omega)
      refine ⟨lens', r', ?_, ho, hbits', hw'⟩
      simp only [List.length_append, Array.length_toList, List.length_replicate] at hlen
      have e1 : ¬ (lens.size ≥ n) := by omega
      have e3 : ¬ (lens.size + (3 + e) > n) := by omega
      rw [readLens]
      simp [e1, h1, h2, e3]
      exact hc
    · cases hex
  | .zerosL e :: t, fuel, lens, r, Y, full, hw, hbits, hex, hn, hpos, hf => by
    obtain ⟨f, rfl⟩ : ∃ f, fuel = f + 1 := ⟨fuel - 1, by omega⟩
    simp only [rlesBits, rleBits, List.append_assoc] at hbits
    have hp := hpos (.zerosL e) (by simp)
    simp only [Rle.sym] at hp
    obtain ⟨r1, h1, b1, w1⟩ := decodeSym_code (construct cl.toArray) r (symBits cl 18) _ 18 hw
      (canon_code cl hb hk 18 hp) hbits
    simp only [expand] at hex
    split at hex
    · rename_i he
      obtain ⟨r2, h2, b2, w2⟩ := bits_lsb r1 7 e _ w1 (by show e < 128; exact he) b1
      have hlen := expand_length t _ full hex
      have hex' : expand t (lens ++ Array.replicate (11 + e) 0).toList = some full := by
        simpa using hex
      obtain ⟨lens', r', hc, ho, hbits', hw'⟩ := readLens_rle cl hb hk n t f _ r2 Y full w2 b2 hex' hn
        (fun it hit => hpos it (by simp [hit])) (by simp only [List.length_cons] at hf; omega)
      refine ⟨lens', r', ?_, ho, hbits', hw'⟩
      simp only [List.length_append, Array.length_toList, List.length_replicate] at hlen
      have e1 : ¬ (lens.size ≥ n) := by omega
      have e3 : ¬ (lens.size + (11 + e) > n) := by omega
      rw [readLens]
      simp [e1, h1, h2, e3]
      exact hc
    · cases hex

/-! ### the whole header -/

theorem getD_le_of_all (cl : List Nat) (b : Nat) (h : ∀ l ∈ cl, l ≤ b) (s : Nat) : cl[s]?.getD 0 ≤ b := by
  by_cases hs : s < cl.length
  · rw [List.getElem?_eq_getElem hs]
    exact h _ (List.getElem_mem hs)
  · rw [List.getElem?_eq_none (by omega)]; simp

theorem dynamicTables_hdr (h : Hdr) (hok : h.ok = true) (r : BitRd) (X : List Bool) (hw : WF r)
    (hb : bitsOf r = hdrBits h ++ X) :
    ∃ r', dynamicTables r = some (some (construct h.litLens.toArray, construct h.distLens.toArray, r')) ∧
      bitsOf r' = X ∧ WF r' := by
  simp only [Hdr.ok, Bool.and_eq_true, decide_eq_true_eq, beq_iff_eq, List.all_eq_true] at hok
  obtain ⟨⟨⟨⟨⟨⟨⟨⟨⟨⟨⟨⟨⟨⟨hl1, hl2⟩, hd1⟩, hd2⟩, hlok⟩, hdok⟩, heob⟩, hcl19⟩, hcl7⟩, hkr⟩, hn4⟩, hn19⟩, hzero⟩, hexp⟩, hpos⟩ := hok
  have hcl7' : ∀ s : Nat, h.clLens[s]?.getD 0 ≤ 7 := getD_le_of_all h.clLens 7 hcl7
  have hb15 : ∀ l ∈ h.clLens, l ≤ 15 := fun l hl => by have := hcl7 l hl; omega
  have etab : (fun s => (codeTable h.clLens)[s]?.getD []) = symBits h.clLens := funext (codeTable_get _)
  simp only [hdrBits, List.append_assoc] at hb
  rw [etab] at hb
  obtain ⟨r1, h1, b1, w1⟩ := bits_lsb r 5 _ _ hw (by show _ < 32; omega) hb
  obtain ⟨r2, h2, b2, w2⟩ := bits_lsb r1 5 _ _ w1 (by show _ < 32; omega) b1
  obtain ⟨r3, h3, b3, w3⟩ := bits_lsb r2 4 _ _ w2 (by show _ < 16; omega) b2
  obtain ⟨r4, h4, b4, w4⟩ := clLens_loop h.clLens hcl7' h.ncode 0 (Array.replicate 19 0) r3 _ w3 (by omega)
    (by rw [List.drop_zero]; exact b3)
  rw [List.drop_zero, clArr_eq h.clLens h.ncode hcl19 hzero] at h4
  have hlenE := expand_length h.rle [] _ hexp
  simp only [List.length_nil, List.length_append] at hlenE
  obtain ⟨lens, r5, h5, hl5, b5, w5⟩ := readLens_rle h.clLens hb15 (by omega)
    (h.litLens.length + h.distLens.length) h.rle (h.litLens.length + h.distLens.length + 1) #[] r4 X
    (h.litLens ++ h.distLens) w4 b4 hexp (by simp) hpos (by omega)
  obtain ⟨hx1, hx2⟩ := extract_split lens h.litLens h.distLens hl5
  refine ⟨r5, ?_, b5, w5⟩
  have e1 : h.litLens.length - 257 + 257 = h.litLens.length := by omega
  have e2 : h.distLens.length - 1 + 1 = h.distLens.length := by omega
  have e3 : h.ncode - 4 + 4 = h.ncode := by omega
  have e4 : (decide (h.litLens.length > 286) || decide (h.distLens.length > 30)) = false := by
    simp; omega
  have e5 : tableOk true (construct h.clLens.toArray) = true := tableOk_complete h.clLens hb15 hkr true
  have e6 : (lens[256]?.getD 0 == 0) = false := by
    rw [← Array.getElem?_toList, hl5, List.getElem?_append_left (by omega)]
    simp; omega
  have e7 : (Array.mkEmpty 320 : Array Nat) = #[] := rfl
  have e8 := tableOk_lensOk h.litLens hlok
  have e9 := tableOk_lensOk h.distLens hdok
  unfold dynamicTables
  simp only [h1, h2, h3, e1, e2, e3, e4, h4, e5, e7, h5, e6, hx1, hx2, e8, e9]
  simp

end Parsley.C06.Dyn
