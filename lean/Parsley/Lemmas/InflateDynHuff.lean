/-
  C06, dynamic-Huffman blocks: the canonical-Huffman core.  For a list of code lengths `ls`
  (0 = symbol unused, all at most 15, Kraft's sum at most one) the puff-style table
  `construct ls.toArray` decodes the RFC 1951 3.2.2 code of every used symbol back to that symbol
  (`canon_code`, on the list-level decoder `goL` of Lemmas/InflateFixedBits.lean), and zlib's
  acceptance rule `tableOk` holds for every valid set of lengths (`tableOk_lensOk`,
  `tableOk_complete`); `lensOk_bounds` extracts the two numeric bounds from `lensOk`.
  Helper facts: `construct_count` / `construct_symbol` (what the two folds of `construct`
  compute), `kU` (Kraft's sum of the codes of length at most `k`) with
  `nextCode ls (k+1) = 2 * kU k ls`, and `idx` (the number of symbols with a shorter code).
-/
import Parsley.Model.Inflate
import Parsley.Spec.DeflateDyn
import Parsley.Lemmas.InflateFixedBits
namespace Parsley.C06.Dyn
open Parsley Parsley.Inflate Parsley.DeflateFixed Parsley.DeflateDyn Parsley.C06.Fixed

theorem modFold_get (ls : List Nat) : ∀ (c : Array Nat) (l : Nat),
    (ls.foldl (fun (c : Array Nat) l => c.modify l (· + 1)) c)[l]?.getD 0 =
      c[l]?.getD 0 + (if l < c.size then ls.count l else 0) := by
  induction ls with
  | nil => intro c l; simp
  | cons x xs ih =>
    intro c l
    rw [List.foldl_cons, ih]
    simp only [Array.size_modify, Array.getElem?_modify, List.count_cons]
    by_cases hl : l < c.size
    · by_cases hx : x = l
      · subst hx; simp [hl]; omega
      · have : ¬ (x == l) = true := by simpa using hx
        simp [hl, hx]
    · simp [hl]

theorem construct_count (ls : List Nat) (l : Nat) (hl : l < 16) :
    (construct ls.toArray).count[l]?.getD 0 = ls.count l := by
  unfold construct
  simp only [List.foldl_toArray', List.size_toArray]
  rw [modFold_get]
  simp [hl]

theorem pushFold_toList (p : Nat → Bool) (xs : List Nat) : ∀ s0 : Array Nat,
    (xs.foldl (fun (s : Array Nat) i => if p i then s.push i else s) s0).toList =
      s0.toList ++ xs.filter p := by
  induction xs with
  | nil => intro s0; simp
  | cons x xs ih =>
    intro s0
    rw [List.foldl_cons, ih]
    by_cases hp : p x <;> simp [hp]

theorem pushFold2_toList (q : Nat → Nat → Bool) (xs ks : List Nat) : ∀ s0 : Array Nat,
    (ks.foldl (fun (s : Array Nat) li =>
        xs.foldl (fun (s : Array Nat) i => if q li i then s.push i else s) s) s0).toList =
      s0.toList ++ ks.flatMap (fun li => xs.filter (q li)) := by
  induction ks with
  | nil => intro s0; simp
  | cons k ks ih =>
    intro s0
    rw [List.foldl_cons, ih, pushFold_toList]
    simp

theorem construct_symbol (ls : List Nat) :
    (construct ls.toArray).symbol.toList =
      (List.range 15).flatMap (fun li => (List.range ls.length).filter (fun i => ls[i]?.getD 0 == li + 1)) := by
  unfold construct
  simp only [List.size_toArray, List.getElem?_toArray]
  rw [pushFold2_toList (fun li i => ls[i]?.getD 0 == li + 1)]
  simp
/-- the number of symbols with a code shorter than `k` -/
def idx (ls : List Nat) : Nat → Nat
  | 0 => 0
  | k + 1 => idx ls k + (if k == 0 then 0 else ls.count k)

theorem filter_len (ls : List Nat) (v : Nat) (hv : 0 < v) : ∀ k,
    ((List.range k).filter (fun i => ls[i]?.getD 0 == v)).length = (ls.take k).count v := by
  intro k
  induction k with
  | zero => simp
  | succ k ih =>
    rw [List.range_succ, List.filter_append, List.length_append, ih, List.take_add_one,
      List.count_append]
    cases h : ls[k]? with
    | none =>
      have : (0 == v) = false := by simp; omega
      simp [h, this]
    | some x =>
      by_cases hx : x = v
      · subst hx; simp [h]
      · have : (x == v) = false := by simpa using hx
        simp [h, this, List.count_cons]

theorem group_len (ls : List Nat) (v : Nat) (hv : 0 < v) :
    ((List.range ls.length).filter (fun i => ls[i]?.getD 0 == v)).length = ls.count v := by
  rw [filter_len ls v hv, List.take_length]

theorem range_split (s : Nat) : ∀ n, s < n → ∃ tl, List.range n = List.range s ++ s :: tl := by
  intro n
  induction n with
  | zero => intro h; omega
  | succ n ih =>
    intro h
    by_cases hs : s = n
    · subst hs; exact ⟨[], List.range_succ⟩
    · obtain ⟨tl, ht⟩ := ih (by omega)
      refine ⟨tl ++ [n], ?_⟩
      rw [List.range_succ, ht]; simp

theorem group_get (ls : List Nat) (v s : Nat) (hv : 0 < v) (hs : ls[s]?.getD 0 = v) :
    ((List.range ls.length).filter (fun i => ls[i]?.getD 0 == v))[(ls.take s).count v]? = some s := by
  have hlt : s < ls.length := by
    apply Classical.byContradiction
    intro hn
    have : ls[s]? = none := List.getElem?_eq_none (by omega)
    rw [this] at hs; simp at hs; omega
  obtain ⟨tl, ht⟩ := range_split s ls.length hlt
  have hp : (ls[s]?.getD 0 == v) = true := by simp [hs]
  rw [ht, List.filter_append, List.filter_cons, if_pos hp,
    List.getElem?_append_right (by rw [filter_len ls v hv]; exact Nat.le_refl _), filter_len ls v hv]
  simp

theorem flat_len (ls : List Nat) (G : Nat → List Nat) (hG : ∀ li, (G li).length = ls.count (li + 1)) :
    ∀ k, ((List.range k).flatMap G).length = idx ls (k + 1) := by
  intro k
  induction k with
  | zero => simp [idx]
  | succ k ih =>
    rw [List.range_succ, List.flatMap_append, List.length_append, ih]
    simp [idx, hG]

theorem flat_get (ls : List Nat) (G : Nat → List Nat) (hG : ∀ li, (G li).length = ls.count (li + 1))
    (L' rank s : Nat) (hr : (G L')[rank]? = some s) :
    ∀ k, L' + 1 ≤ k → ((List.range k).flatMap G)[idx ls (L' + 1) + rank]? = some s := by
  intro k
  induction k with
  | zero => intro h; omega
  | succ k ih =>
    intro h
    rw [List.range_succ, List.flatMap_append]
    by_cases hk : L' = k
    · subst hk
      rw [List.getElem?_append_right (by rw [flat_len ls G hG]; omega), flat_len ls G hG]
      simpa using hr
    · have h1 := ih (by omega)
      obtain ⟨hlt, _⟩ := List.getElem?_eq_some_iff.1 h1
      rw [List.getElem?_append_left hlt]
      exact h1

theorem symbol_get (ls : List Nat) (s L' : Nat) (hL : L' + 1 ≤ 15) (hs : ls[s]?.getD 0 = L' + 1) :
    (construct ls.toArray).symbol[idx ls (L' + 1) + (ls.take s).count (L' + 1)]? = some s := by
  rw [← Array.getElem?_toList, construct_symbol]
  have hv : 0 < L' + 1 := by omega
  apply flat_get ls _ (fun li => group_len ls (li + 1) (by omega)) L' _ s _ 15 hL
  exact group_get ls (L' + 1) s hv hs
/-- Kraft's sum of the codes of length `≤ k`, scaled by `2^k` -/
def kU (k : Nat) (ls : List Nat) : Nat := (ls.map fun x => if 1 ≤ x ∧ x ≤ k then 2 ^ (k - x) else 0).sum

theorem kU_nil (k : Nat) : kU k [] = 0 := rfl
theorem kU_cons (k x : Nat) (xs : List Nat) :
    kU k (x :: xs) = (if 1 ≤ x ∧ x ≤ k then 2 ^ (k - x) else 0) + kU k xs := by
  simp [kU]

theorem kU_zero (ls : List Nat) : kU 0 ls = 0 := by
  induction ls with
  | nil => rfl
  | cons x xs ih =>
    rw [kU_cons, ih]
    have : ¬ (1 ≤ x ∧ x ≤ 0) := by omega
    rw [if_neg this]

theorem kU_succ (k : Nat) (ls : List Nat) : kU (k + 1) ls = 2 * kU k ls + ls.count (k + 1) := by
  induction ls with
  | nil => rfl
  | cons x xs ih =>
    rw [kU_cons, kU_cons, ih, List.count_cons]
    by_cases h1 : 1 ≤ x ∧ x ≤ k
    · have h2 : 1 ≤ x ∧ x ≤ k + 1 := by omega
      have h3 : (x == k + 1) = false := by simp; omega
      have h4 : k + 1 - x = (k - x) + 1 := by omega
      rw [if_pos h1, if_pos h2, h3, h4, Nat.pow_succ]
      simp only [Bool.false_eq_true, if_false]
      omega
    · by_cases h5 : x = k + 1
      · subst h5
        have h2 : 1 ≤ k + 1 ∧ k + 1 ≤ k + 1 := by omega
        rw [if_neg h1, if_pos h2]
        simp only [Nat.sub_self, Nat.pow_zero, beq_self_eq_true, if_true]
        omega
      · have h2 : ¬ (1 ≤ x ∧ x ≤ k + 1) := by omega
        have h3 : (x == k + 1) = false := by simp; omega
        rw [if_neg h1, if_neg h2, h3]
        simp only [Bool.false_eq_true, if_false]
        omega

theorem kU_15 (ls : List Nat) (hb : ∀ l ∈ ls, l ≤ 15) : kU 15 ls = kraft ls := by
  induction ls with
  | nil => rfl
  | cons x xs ih =>
    have hx : x ≤ 15 := hb x (by simp)
    have ih' := ih (fun l hl => hb l (by simp [hl]))
    rw [kU_cons, ih']
    unfold kraft
    simp only [List.map_cons, List.sum_cons]
    by_cases h0 : x = 0
    · subst h0; simp
    · have h1 : 1 ≤ x ∧ x ≤ 15 := by omega
      have h2 : ¬ (x == 0) = true := by simpa using h0
      simp [h1, h2]

theorem nextCode_succ (ls : List Nat) (k : Nat) : nextCode ls (k + 1) = 2 * kU k ls := by
  induction k with
  | zero => simp [nextCode, kU_zero]
  | succ k ih =>
    rw [nextCode, ih, kU_succ]
    simp
    omega

theorem nextCode_add_count (ls : List Nat) (k : Nat) :
    nextCode ls (k + 1) + ls.count (k + 1) = kU (k + 1) ls := by
  rw [nextCode_succ, kU_succ]

theorem kU_mono (ls : List Nat) (k d : Nat) : kU k ls * 2 ^ d ≤ kU (k + d) ls := by
  induction d with
  | zero => simp
  | succ d ih =>
    rw [← Nat.add_assoc, kU_succ, Nat.pow_succ]
    have : kU k ls * (2 ^ d * 2) = 2 * (kU k ls * 2 ^ d) := by
      rw [← Nat.mul_assoc, Nat.mul_comm]
    omega

theorem kU_le_pow (ls : List Nat) (hb : ∀ l ∈ ls, l ≤ 15) (hk : kraft ls ≤ 2 ^ 15) (k : Nat) (h : k ≤ 15) :
    kU k ls ≤ 2 ^ k := by
  have h1 := kU_mono ls k (15 - k)
  have h2 : k + (15 - k) = 15 := by omega
  rw [h2, kU_15 ls hb] at h1
  have h3 : (2:Nat) ^ 15 = 2 ^ k * 2 ^ (15 - k) := by rw [← Nat.pow_add, h2]
  rw [h3] at hk
  exact Nat.le_of_mul_le_mul_right (Nat.le_trans h1 hk) (Nat.two_pow_pos _)

theorem goL_step (count symbol : Array Nat) (f len code first index : Nat) (b : Bool) (t : List Bool) :
    goL count symbol (f + 1) len code first index (b :: t) =
      if code + b.toNat < first + count[len]?.getD 0 then
        some (symbol[index + (code + b.toNat - first)]?, t)
      else goL count symbol f (len + 1) ((code + b.toNat) * 2) ((first + count[len]?.getD 0) * 2)
        (index + count[len]?.getD 0) t := by
  simp [goL]

theorem code_step (c m : Nat) : 2 * (c / 2 ^ (m + 1)) + (c / 2 ^ m % 2 == 1).toNat = c / 2 ^ m := by
  rw [bool_toNat_mod, Nat.pow_succ, ← Nat.div_div_eq_div_mul]
  exact Nat.div_add_mod _ 2

theorem rank_lt (ls : List Nat) (v s : Nat) (hv : 0 < v) (hs : ls[s]?.getD 0 = v) :
    (ls.take s).count v < ls.count v := by
  have h := group_get ls v s hv hs
  obtain ⟨hlt, _⟩ := List.getElem?_eq_some_iff.1 h
  rw [group_len ls v hv] at hlt
  exact hlt

theorem goL_canon (ls : List Nat) (s L' : Nat) (hL : L' + 1 ≤ 15)
    (hs : ls[s]?.getD 0 = L' + 1) :
    ∀ (m j fuel : Nat), j + m = L' → m + 1 ≤ fuel →
      goL (construct ls.toArray).count (construct ls.toArray).symbol fuel (j + 1)
        (2 * (codeOf ls s / 2 ^ (m + 1))) (nextCode ls (j + 1)) (idx ls (j + 1))
        (msbBits (m + 1) (codeOf ls s)) = some (some s, []) := by
  have hrank := rank_lt ls (L' + 1) s (by omega) hs
  have hc : codeOf ls s = nextCode ls (L' + 1) + (ls.take s).count (L' + 1) := by
    unfold codeOf; rw [hs]
  generalize codeOf ls s = c at hc
  intro m
  induction m with
  | zero =>
    intro j fuel hj hf
    obtain ⟨f, rfl⟩ : ∃ f, fuel = f + 1 := ⟨fuel - 1, by omega⟩
    have hj' : j = L' := by omega
    subst hj'
    rw [msbBits, goL_step, code_step, construct_count ls (j + 1) (by omega)]
    have h1 : c / 2 ^ 0 = c := by simp
    rw [h1, if_pos (by omega)]
    have h2 : c - nextCode ls (j + 1) = (ls.take s).count (j + 1) := by omega
    rw [h2, symbol_get ls s j hL hs]
    rfl
  | succ m ih =>
    intro j fuel hj hf
    obtain ⟨f, rfl⟩ : ∃ f, fuel = f + 1 := ⟨fuel - 1, by omega⟩
    rw [msbBits, goL_step, code_step, construct_count ls (j + 1) (by omega)]
    have hge : nextCode ls (j + 1) + ls.count (j + 1) ≤ c / 2 ^ (m + 1) := by
      rw [nextCode_add_count, Nat.le_div_iff_mul_le (Nat.two_pow_pos _)]
      have h3 := kU_mono ls (j + 1) m
      have h4 : j + 1 + m = L' := by omega
      rw [h4] at h3
      have h5 := nextCode_succ ls L'
      rw [Nat.pow_succ, ← Nat.mul_assoc]
      omega
    rw [if_neg (by omega)]
    have h6 := ih (j + 1) f (by omega) (by omega)
    have h7 : nextCode ls (j + 1 + 1) = (nextCode ls (j + 1) + ls.count (j + 1)) * 2 := by
      simp [nextCode]
    have h8 : idx ls (j + 1 + 1) = idx ls (j + 1) + ls.count (j + 1) := by
      simp [idx]
    rw [h7, h8, Nat.mul_comm 2] at h6
    exact h6

theorem canon_code (ls : List Nat) (hb : ∀ l ∈ ls, l ≤ 15) (hk : kraft ls ≤ 2 ^ 15) (s : Nat)
    (hs : 0 < ls[s]?.getD 0) :
    goL (construct ls.toArray).count (construct ls.toArray).symbol 15 1 0 0 0 (symBits ls s) =
      some (some s, []) := by
  obtain ⟨L', hL'⟩ : ∃ L', ls[s]?.getD 0 = L' + 1 := ⟨ls[s]?.getD 0 - 1, by omega⟩
  have hlt : s < ls.length := by
    apply Classical.byContradiction
    intro hn
    have : ls[s]? = none := List.getElem?_eq_none (by omega)
    rw [this] at hs; simp at hs
  have hmem : ls[s]?.getD 0 ∈ ls := by
    rw [List.getElem?_eq_getElem hlt]; simp
  have hL : L' + 1 ≤ 15 := by rw [← hL']; exact hb _ hmem
  have h := goL_canon ls s L' hL hL' L' 0 15 (by omega) (by omega)
  have hrank := rank_lt ls (L' + 1) s (by omega) hL'
  have hc : codeOf ls s < 2 ^ (L' + 1) := by
    have h1 : codeOf ls s = nextCode ls (L' + 1) + (ls.take s).count (L' + 1) := by
      unfold codeOf; rw [hL']
    have h2 := nextCode_add_count ls L'
    have h3 := kU_le_pow ls hb hk (L' + 1) hL
    omega
  rw [Nat.div_eq_of_lt hc] at h
  have h9 : nextCode ls (0 + 1) = 0 := by simp [nextCode]
  have h10 : idx ls (0 + 1) = 0 := by simp [idx]
  rw [h9, h10] at h
  unfold symBits
  rw [hL']
  exact h

theorem kraft_cons (x : Nat) (xs : List Nat) :
    kraft (x :: xs) = (if x == 0 then 0 else 2 ^ (15 - x)) + kraft xs := by
  simp [kraft]

theorem kraft_all_zero (ls : List Nat) (h : ∀ l ∈ ls, l = 0) : kraft ls = 0 := by
  induction ls with
  | nil => rfl
  | cons x xs ih =>
    have hx : x = 0 := h x (by simp)
    rw [kraft_cons, ih (fun l hl => h l (by simp [hl]))]
    subst hx; simp

theorem kraft_le_one (ls : List Nat) (h : ∀ l ∈ ls, l ≤ 1) : kraft ls = ls.count 1 * 2 ^ 14 := by
  induction ls with
  | nil => rfl
  | cons x xs ih =>
    have hx : x ≤ 1 := h x (by simp)
    rw [kraft_cons, ih (fun l hl => h l (by simp [hl])), List.count_cons]
    by_cases h0 : x = 0
    · subst h0; simp
    · have h1 : x = 1 := by omega
      subst h1
      simp only [Nat.reduceBEq, Bool.false_eq_true, if_false, beq_self_eq_true, if_true]
      omega

theorem lensOk_cases (ls : List Nat) (h : lensOk ls = true) :
    (∀ l ∈ ls, l ≤ 15) ∧
      (kraft ls = 2 ^ 15 ∨ (∀ l ∈ ls, l = 0) ∨ ((∀ l ∈ ls, l ≤ 1) ∧ ls.count 1 = 1)) := by
  unfold lensOk at h
  simp only [Bool.and_eq_true, Bool.or_eq_true, List.all_eq_true, decide_eq_true_eq, beq_iff_eq] at h
  obtain ⟨hb, hc⟩ := h
  refine ⟨hb, ?_⟩
  rcases hc with (hc | hc) | hc
  · exact Or.inl hc
  · exact Or.inr (Or.inl hc)
  · exact Or.inr (Or.inr hc)

theorem lensOk_bounds (ls : List Nat) (h : lensOk ls = true) : (∀ l ∈ ls, l ≤ 15) ∧ kraft ls ≤ 2 ^ 15 := by
  obtain ⟨hb, hc⟩ := lensOk_cases ls h
  refine ⟨hb, ?_⟩
  rcases hc with hc | hc | ⟨hc, h1⟩
  · omega
  · rw [kraft_all_zero ls hc]; omega
  · rw [kraft_le_one ls hc, h1]; omega

theorem leftOver_fold (ls : List Nat) (count : Array Nat) (step : Option Nat → Nat → Option Nat)
    (hstep : ∀ left i, step (some left) i =
      if count[i + 1]?.getD 0 ≤ 2 * left then some (2 * left - count[i + 1]?.getD 0) else none)
    (hcnt : ∀ l, 1 ≤ l → l ≤ 15 → count[l]?.getD 0 = ls.count l) :
    ∀ k, k ≤ 15 → (∀ k', k' ≤ k → kU k' ls ≤ 2 ^ k') →
      (List.range k).foldl step (some 1) = some (2 ^ k - kU k ls) := by
  intro k
  induction k with
  | zero => intro _ _; simp [kU_zero]
  | succ k ih =>
    intro hk hle
    rw [List.range_succ, List.foldl_append, ih (by omega) (fun k' hk' => hle k' (by omega))]
    have h1 := hle k (by omega)
    have h2 := hle (k + 1) (by omega)
    rw [kU_succ] at h2
    simp only [List.foldl_cons, List.foldl_nil, hstep, hcnt (k + 1) (by omega) hk]
    rw [Nat.pow_succ] at h2
    rw [if_pos (by omega), kU_succ, Nat.pow_succ]
    congr 1
    omega

theorem leftOver_construct (ls : List Nat) (hb : ∀ l ∈ ls, l ≤ 15) (hk : kraft ls ≤ 2 ^ 15) :
    leftOver (construct ls.toArray).count = some (2 ^ 15 - kraft ls) := by
  unfold leftOver
  rw [leftOver_fold ls _ _ (fun _ _ => rfl) (fun l _ h15 => construct_count ls l (by omega)) 15
    (by omega) (fun k' hk' => kU_le_pow ls hb hk k' hk'), kU_15 ls hb]

theorem tableOk_complete (ls : List Nat) (hb : ∀ l ∈ ls, l ≤ 15) (h : kraft ls = 2 ^ 15) (c : Bool) :
    tableOk c (construct ls.toArray) = true := by
  unfold tableOk
  rw [leftOver_construct ls hb (by omega), h]
  simp

theorem maxLen_zero (cnt : Nat → Nat) : ∀ k, (∀ i, i < k → cnt (i + 1) = 0) →
    (List.range k).foldl (fun m i => if cnt (i + 1) != 0 then i + 1 else m) 0 = 0 := by
  intro k
  induction k with
  | zero => intro _; rfl
  | succ k ih =>
    intro h
    rw [List.range_succ, List.foldl_append, ih (fun i hi => h i (by omega))]
    simp [h k (by omega)]

theorem maxLen_one (cnt : Nat → Nat) (h1 : cnt 1 ≠ 0) : ∀ k, (∀ i, 1 ≤ i → i < k + 1 → cnt (i + 1) = 0) →
    (List.range (k + 1)).foldl (fun m i => if cnt (i + 1) != 0 then i + 1 else m) 0 = 1 := by
  intro k
  induction k with
  | zero => intro _; simp [List.range_succ, h1]
  | succ k ih =>
    intro h
    rw [List.range_succ, List.foldl_append, ih (fun i hi hi' => h i hi (by omega))]
    simp [h (k + 1) (by omega) (by omega)]

theorem tableOk_lensOk (ls : List Nat) (h : lensOk ls = true) :
    tableOk false (construct ls.toArray) = true := by
  obtain ⟨hb, hc⟩ := lensOk_cases ls h
  rcases hc with hc | hc | ⟨hc, h1⟩
  · exact tableOk_complete ls hb hc false
  · unfold tableOk
    have hz : ∀ i, i < 15 → (construct ls.toArray).count[i + 1]?.getD 0 = 0 := by
      intro i hi
      rw [construct_count ls (i + 1) (by omega), List.count_eq_zero]
      intro hm
      have := hc _ hm
      omega
    rw [maxLen_zero (fun l => (construct ls.toArray).count[l]?.getD 0) 15 hz]
    rfl
  · unfold tableOk
    have hz : ∀ i, 1 ≤ i → i < 14 + 1 → (construct ls.toArray).count[i + 1]?.getD 0 = 0 := by
      intro i hi1 hi
      rw [construct_count ls (i + 1) (by omega), List.count_eq_zero]
      intro hm
      have := hc _ hm
      omega
    have ho : (construct ls.toArray).count[1]?.getD 0 ≠ 0 := by
      rw [construct_count ls 1 (by omega), h1]; omega
    have hm := maxLen_one (fun l => (construct ls.toArray).count[l]?.getD 0) ho 14 hz
    have hk : kraft ls = 2 ^ 14 := by rw [kraft_le_one ls hc, h1, Nat.one_mul]
    rw [show (15 : Nat) = 14 + 1 from rfl, hm, leftOver_construct ls hb (by omega), hk]
    simp

end Parsley.C06.Dyn
