/-
  C06, FlateDecode, the fixed-Huffman round trip: the executable inflate model decodes every zlib
  stream written by the spec-side encoder `DeflateFixed.zlibFixed` — blocks of type 01 holding the
  code symbols of an ARBITRARY valid LZ77 factorisation (literals and <length, distance> pairs,
  any legal choice of length symbol / extra bits, any cutting into blocks), closed by an empty
  final block — back to exactly the data the factorisation stands for, whatever follows the stream.
  Bit-level facts (LSB-first fields, MSB-first Huffman codes, the 7/8/9- and 5-bit code tables)
  come from Lemmas/InflateFixedBits.lean.
-/
import Parsley.Model.Inflate
import Parsley.Spec.DeflateFixed
import Parsley.Lemmas.FiltersInflate
import Parsley.Lemmas.InflateReject
import Parsley.Lemmas.InflateFixedBits
namespace Parsley.C06.Fixed
open Parsley Parsley.Inflate Parsley.DeflateFixed

/-! ### packing bits into bytes -/

theorem natOfBits_lt : ∀ (l : List Bool), natOfBits l < 2 ^ l.length
  | [] => by simp [natOfBits]
  | b :: t => by
    have := natOfBits_lt t
    simp only [natOfBits, List.length_cons, Nat.pow_succ]
    cases b <;> simp <;> omega

theorem lsbBits_zero : ∀ n : Nat, lsbBits n 0 = List.replicate n false
  | 0 => rfl
  | n + 1 => by simp [lsbBits, lsbBits_zero n, List.replicate_succ]

theorem lsbBits_natOfBits : ∀ (l : List Bool) (n : Nat), l.length ≤ n →
    lsbBits n (natOfBits l) = l ++ List.replicate (n - l.length) false
  | [], n, _ => by simp [natOfBits, lsbBits_zero]
  | b :: t, 0, h => by simp at h
  | b :: t, n + 1, h => by
    have ih := lsbBits_natOfBits t n (by simpa using h)
    have h1 : (b.toNat + 2 * natOfBits t) % 2 = b.toNat := by cases b <;> simp <;> omega
    have h2 : (b.toNat + 2 * natOfBits t) / 2 = natOfBits t := by cases b <;> simp <;> omega
    simp only [natOfBits, lsbBits, h1, h2, ih, List.length_cons, List.cons_append]
    have h3 : n + 1 - (t.length + 1) = n - t.length := by omega
    rw [h3]
    cases b <;> simp

theorem byteOfBits_toNat (l : List Bool) (h : l.length ≤ 8) : (byteOfBits l).toNat = natOfBits l := by
  have h1 := natOfBits_lt l
  have h2 : 2 ^ l.length ≤ 2 ^ 8 := Nat.pow_le_pow_right (by omega) h
  rw [byteOfBits, UInt8.toNat_ofNat', Nat.mod_eq_of_lt (by omega)]

theorem bytesBits_byte (l : List Bool) (h : l.length ≤ 8) :
    bytesBits [byteOfBits l] = l ++ List.replicate (8 - l.length) false := by
  simp only [bytesBits, List.append_nil]
  rw [byteOfBits_toNat l h, lsbBits_natOfBits l 8 h]

/-- the bits of the packed bytes are the bit string, padded with fewer than eight zeros -/
theorem bytesBits_pack : ∀ (l : List Bool), ∃ pad : List Bool, pad.length < 8 ∧ bytesBits (pack l) = l ++ pad
  | b0 :: b1 :: b2 :: b3 :: b4 :: b5 :: b6 :: b7 :: t => by
    obtain ⟨pad, h1, h2⟩ := bytesBits_pack t
    refine ⟨pad, h1, ?_⟩
    rw [pack]
    have := bytesBits_byte [b0, b1, b2, b3, b4, b5, b6, b7] (by simp)
    simp only [bytesBits, List.append_nil] at this
    simp only [bytesBits, this, h2]
    simp
  | [] => ⟨[], by simp, rfl⟩
  | [a] => ⟨_, by simp, bytesBits_byte [a] (by simp)⟩
  | [a, b] => ⟨_, by simp, bytesBits_byte [a, b] (by simp)⟩
  | [a, b, c] => ⟨_, by simp, bytesBits_byte [a, b, c] (by simp)⟩
  | [a, b, c, d] => ⟨_, by simp, bytesBits_byte [a, b, c, d] (by simp)⟩
  | [a, b, c, d, e] => ⟨_, by simp, bytesBits_byte [a, b, c, d, e] (by simp)⟩
  | [a, b, c, d, e, f] => ⟨_, by simp, bytesBits_byte [a, b, c, d, e, f] (by simp)⟩
  | [a, b, c, d, e, f, g] => ⟨_, by simp, bytesBits_byte [a, b, c, d, e, f, g] (by simp)⟩

/-- a reader that has only padding left before the bytes `T` is at `T` once aligned -/
theorem rest_of_pad (r : BitRd) (pad : List Bool) (T : Bytes) (hw : WF r) (hp : pad.length < 8)
    (h : bitsOf r = pad ++ bytesBits T) : r.rest = T := by
  have hl := congrArg List.length h
  simp only [bitsOf, List.length_append, lsbBits_length, bytesBits_length] at hl
  have hc := hw.2
  have h1 : r.cnt = pad.length := by omega
  have h2 := List.append_inj h (by rw [lsbBits_length]; exact h1)
  exact bytesBits_inj _ _ h2.2

/-! ### the tables of the model are those of the specification -/

theorem lenExtra_get : ∀ ls : Fin 29, Inflate.lenExtra[ls.val]?.getD 0 = DeflateFixed.lenExtra[ls.val]?.getD 0 := by decide
theorem lenBase_get : ∀ ls : Fin 29, Inflate.lenBase[ls.val]?.getD 0 = DeflateFixed.lenBase[ls.val]?.getD 0 := by decide
theorem distExtra_get : ∀ ds : Fin 30, Inflate.distExtra[ds.val]?.getD 0 = DeflateFixed.distExtra[ds.val]?.getD 0 := by decide
theorem distBase_get : ∀ ds : Fin 30, Inflate.distBase[ds.val]?.getD 0 = DeflateFixed.distBase[ds.val]?.getD 0 := by decide

/-- the byte-by-byte copy of the model is the LZ77 copy of the specification -/
theorem copyBack_toList (d : Nat) : ∀ (n : Nat) (out : Array UInt8),
    (copyBack d n out).toList = lzCopy d n out.toList
  | 0, _ => rfl
  | n + 1, out => by
    rw [copyBack, lzCopy, copyBack_toList d n]
    simp

/-! ### the symbol loop of one fixed-Huffman block -/

theorem codeOk_iff (ls le ds de : Nat) : codeOk ls le ds de = true ↔
    ls < 29 ∧ le < 2 ^ (DeflateFixed.lenExtra[ls]?.getD 0) ∧ ds < 30 ∧ de < 2 ^ (DeflateFixed.distExtra[ds]?.getD 0) := by
  simp [codeOk, and_assoc]

theorem codes_fixed : ∀ (toks : List Tok) (fuel : Nat) (out : Array UInt8) (r : BitRd) (X : List Bool)
    (data : Bytes), WF r → bitsOf r = toksBits toks ++ (eobBits ++ X) → toks.length + 1 ≤ fuel →
    resolve toks out.toList = some data →
    ∃ out' r', codes fixedLit fixedDist fuel out r = .done out' r' ∧ out'.toList = data ∧
      bitsOf r' = X ∧ WF r'
  | [], fuel, out, r, X, data, hw, hb, hf, hres => by
    obtain ⟨f, rfl⟩ : ∃ f, fuel = f + 1 := ⟨fuel - 1, by omega⟩
    simp only [toksBits, List.nil_append] at hb
    obtain ⟨r1, h1, h2, h3⟩ := decodeSym_code fixedLit r eobBits X 256 hw eob_code hb
    simp only [resolve, Option.some.injEq] at hres
    refine ⟨out, r1, ?_, hres, h2, h3⟩
    rw [codes]
    simp [h1]
  | .lit b :: t, fuel, out, r, X, data, hw, hb, hf, hres => by
    obtain ⟨f, rfl⟩ : ∃ f, fuel = f + 1 := ⟨fuel - 1, by omega⟩
    simp only [toksBits, tokBits, List.append_assoc] at hb
    obtain ⟨r1, h1, h2, h3⟩ := decodeSym_code fixedLit r (litBits b) _ b.toNat hw (lit_code b) hb
    simp only [resolve] at hres
    have hres' : resolve t (out.push b).toList = some data := by simpa using hres
    obtain ⟨out', r', hc, ho, hbits, hw'⟩ := codes_fixed t f (out.push b) r1 X data h3 h2
      (by simp only [List.length_cons] at hf; omega) hres'
    refine ⟨out', r', ?_, ho, hbits, hw'⟩
    rw [codes]
    simp only [h1, b.toNat_lt, if_true, UInt8.ofNat_toNat]
    exact hc
  | .copy ls le ds de :: t, fuel, out, r, X, data, hw, hb, hf, hres => by
    obtain ⟨f, rfl⟩ : ∃ f, fuel = f + 1 := ⟨fuel - 1, by omega⟩
    simp only [toksBits, tokBits, List.append_assoc] at hb
    simp only [resolve] at hres
    split at hres
    · rename_i hok
      simp only [Bool.and_eq_true, decide_eq_true_eq] at hok
      obtain ⟨hcode, hdist⟩ := hok
      obtain ⟨hls, hle, hds, hde⟩ := (codeOk_iff ls le ds de).mp hcode
      obtain ⟨r1, h1, b1, w1⟩ := decodeSym_code fixedLit r (lenSymBits ls) _ (257 + ls) hw (len_code ls hls) hb
      have eLE := lenExtra_get ⟨ls, hls⟩
      have eLB := lenBase_get ⟨ls, hls⟩
      have eDE := distExtra_get ⟨ds, hds⟩
      have eDB := distBase_get ⟨ds, hds⟩
      simp only at eLE eLB eDE eDB
      obtain ⟨r2, h2, b2, w2⟩ := bits_lsb r1 _ le _ w1 hle b1
      obtain ⟨r3, h3, b3, w3⟩ := decodeSym_code fixedDist r2 (msbBits 5 ds) _ ds w2 (dist_code ds hds) b2
      obtain ⟨r4, h4, b4, w4⟩ := bits_lsb r3 _ de _ w3 hde b3
      have hres' : resolve t (copyBack (copyDist ds de) (copyLen ls le) out).toList = some data := by
        rw [copyBack_toList]; exact hres
      obtain ⟨out', r', hc, ho, hbits, hw'⟩ := codes_fixed t f _ r4 X data w4 b4
        (by simp only [List.length_cons] at hf; omega) hres'
      refine ⟨out', r', ?_, ho, hbits, hw'⟩
      rw [codes]
      have e1 : ¬ (257 + ls < 256) := by omega
      have e2 : (257 + ls == 256) = false := by simp; omega
      have e3 : 257 + ls - 257 = ls := by omega
      have e4 : ¬ (ls ≥ 29) := by omega
      have e5 : ¬ (ds ≥ 30) := by omega
      have e6 : ¬ (copyDist ds de > out.size) := by
        have : out.toList.length = out.size := Array.length_toList
        omega
      simp only [h1, e1, e2, e3, e4, if_false, Bool.false_eq_true, eLE, h2, h3, e5, eDE, h4, eLB, eDB]
      simp only [copyDist, copyLen] at e6 hc
      simp only [e6, if_false]
      exact hc
    · cases hres

/-! ### the block loop -/

theorem tokBits_pos (t : Tok) : 1 ≤ (tokBits t).length := by
  cases t with
  | lit b => simp only [tokBits, litBits]; split <;> simp [msbBits_length]
  | copy ls le ds de => simp only [tokBits, lenSymBits, List.length_append, msbBits_length]; omega

theorem toksBits_length (toks : List Tok) : toks.length ≤ (toksBits toks).length := by
  induction toks with
  | nil => simp [toksBits]
  | cons t ts ih => have := tokBits_pos t; simp only [toksBits, List.length_append, List.length_cons]; omega

theorem blockBits_length (final : Bool) (toks : List Tok) :
    (blockBits final toks).length = 3 + (toksBits toks).length + 7 := by
  simp [blockBits, eobBits, msbBits_length]; omega

/-- one block of type 01: header, symbols, end-of-block -/
theorem block_fixed (final : Bool) (toks : List Tok) (fuel : Nat) (out : Array UInt8) (r : BitRd)
    (X : List Bool) (data : Bytes) (hw : WF r) (hb : bitsOf r = blockBits final toks ++ X)
    (hf : toks.length + 1 ≤ fuel) (hres : resolve toks out.toList = some data) :
    ∃ out' r', out'.toList = data ∧ bitsOf r' = X ∧ WF r' ∧
      Inflate.blocks (fuel + 1) out r = if final then .done out' r' else Inflate.blocks fuel out' r' := by
  simp only [blockBits, List.cons_append, List.nil_append, List.append_assoc] at hb
  obtain ⟨r1, h1, b1, w1⟩ := bits_one r final _ hw hb
  have b1' : bitsOf r1 = lsbBits 2 1 ++ (toksBits toks ++ (eobBits ++ X)) := by rw [b1]; rfl
  obtain ⟨r2, h2, b2, w2⟩ := bits_lsb r1 2 1 _ w1 (by decide) b1'
  obtain ⟨out', r', hc, ho, hbits, hw'⟩ := codes_fixed toks fuel out r2 X data w2 b2 hf hres
  refine ⟨out', r', ho, hbits, hw', ?_⟩
  rw [Inflate.blocks]
  simp only [h1, h2, hc]
  cases final <;> simp

/-- a whole stream: the non-final blocks, then the final block -/
theorem blocks_fixed : ∀ (bs : List (List Tok)) (last : List Tok) (fuel : Nat) (out : Array UInt8) (r : BitRd)
    (X : List Bool) (data : Bytes), WF r → bitsOf r = streamBitsF bs last ++ X →
    (streamBitsF bs last).length ≤ fuel → resolveBlocks (bs ++ [last]) out.toList = some data →
    ∃ out' r', Inflate.blocks fuel out r = .done out' r' ∧ out'.toList = data ∧ bitsOf r' = X ∧ WF r'
  | [], last, fuel, out, r, X, data, hw, hb, hf, hres => by
    simp only [streamBitsF] at hb hf
    rw [blockBits_length] at hf
    have htl := toksBits_length last
    obtain ⟨f, rfl⟩ : ∃ f, fuel = f + 1 := ⟨fuel - 1, by omega⟩
    simp only [List.nil_append, resolveBlocks] at hres
    cases hr : resolve last out.toList with
    | none => rw [hr] at hres; cases hres
    | some mid =>
      rw [hr] at hres
      simp only [Option.some.injEq] at hres
      obtain ⟨out', r', ho, hbits, hw', hbl⟩ := block_fixed true last f out r X mid hw hb (by omega) hr
      exact ⟨out', r', by rw [hbl]; rfl, by rw [ho, hres], hbits, hw'⟩
  | b :: bs, last, fuel, out, r, X, data, hw, hb, hf, hres => by
    simp only [streamBitsF, List.append_assoc] at hb
    simp only [streamBitsF, List.length_append] at hf
    have hbl := blockBits_length false b
    have htl := toksBits_length b
    obtain ⟨f, rfl⟩ : ∃ f, fuel = f + 1 := ⟨fuel - 1, by omega⟩
    simp only [List.cons_append, resolveBlocks] at hres
    cases hr : resolve b out.toList with
    | none => rw [hr] at hres; cases hres
    | some mid =>
      rw [hr] at hres
      simp only at hres
      obtain ⟨out1, r1, ho1, hb1, hw1, hstep⟩ := block_fixed false b f out r _ mid hw hb (by omega) hr
      obtain ⟨out', r', hfin, ho, hbits, hw'⟩ := blocks_fixed bs last f out1 r1 X data hw1 hb1 (by omega)
        (by rw [ho1]; exact hres)
      refine ⟨out', r', ?_, ho, hbits, hw'⟩
      rw [hstep]
      simpa using hfin

theorem streamBits_eq : ∀ bs : List (List Tok), streamBits bs = streamBitsF bs []
  | [] => rfl
  | b :: bs => by simp only [streamBits, streamBitsF, streamBits_eq bs]

theorem resolveBlocks_snoc_nil : ∀ (bs : List (List Tok)) (out : Bytes),
    resolveBlocks (bs ++ [[]]) out = resolveBlocks bs out
  | [], out => by simp [resolveBlocks, resolve]
  | b :: bs, out => by
    simp only [List.cons_append, resolveBlocks]
    cases resolve b out with
    | none => rfl
    | some mid => exact resolveBlocks_snoc_nil bs mid

end Parsley.C06.Fixed

namespace Parsley.C06
open Parsley Parsley.FiltersSpec Parsley.DeflateFixed Parsley.C06.Fixed Parsley.C06.InflRej

/-- **the fixed-Huffman round trip.**  For every list of blocks of code symbols that is a valid
    LZ77 factorisation of `payload` (`resolveBlocks … [] = some payload`: literals and
    <length, distance> pairs with any legal length symbol / extra-bit choice, distances reaching
    back over block boundaries, overlapping copies, any cutting into blocks, empty blocks), the
    executable inflate decodes the zlib stream the specification's encoder writes for it (non-final
    blocks `blocks`, final block `last`) to exactly `payload`, whatever bytes follow the Adler-32
    trailer. -/
theorem inflate_fixed_roundtrip_final (blocks : List (List Tok)) (last : List Tok) (payload trailing : Bytes)
    (h : resolveBlocks (blocks ++ [last]) [] = some payload) :
    Inflate.inflate (zlibFixedF blocks last payload ++ trailing) = .ok payload := by
  obtain ⟨pad, hpad, hpack⟩ := bytesBits_pack (streamBitsF blocks last)
  have hz : zlibFixedF blocks last payload ++ trailing =
      0x78 :: 0x01 :: (pack (streamBitsF blocks last) ++ (be32Bytes (adler32 payload) ++ trailing)) := by
    simp [zlibFixedF]
  rw [hz, inflate_hdr_ok _ _ _ (by decide)]
  have hbits : bitsOf ⟨pack (streamBitsF blocks last) ++ (be32Bytes (adler32 payload) ++ trailing), 0, 0⟩ =
      streamBitsF blocks last ++ (pad ++ bytesBits (be32Bytes (adler32 payload) ++ trailing)) := by
    simp only [bitsOf, lsbBits, List.nil_append, bytesBits_append, hpack, List.append_assoc]
  have hlen : (streamBitsF blocks last).length ≤
      8 * (pack (streamBitsF blocks last) ++ (be32Bytes (adler32 payload) ++ trailing)).length + 8 := by
    have := congrArg List.length hpack
    simp only [bytesBits_length, List.length_append] at this ⊢
    omega
  obtain ⟨out', r', hb, ho, hrest, hw'⟩ := blocks_fixed blocks last _
    (Array.mkEmpty (4 * (pack (streamBitsF blocks last) ++ (be32Bytes (adler32 payload) ++ trailing)).length))
    ⟨pack (streamBitsF blocks last) ++ (be32Bytes (adler32 payload) ++ trailing), 0, 0⟩ _ payload
    ⟨by show 0 < 2 ^ 0; omega, by show 0 < 8; omega⟩ hbits hlen (by simpa using h)
  have hr : r'.rest = be32Bytes (adler32 payload) ++ trailing := rest_of_pad r' pad _ hw' hpad hrest
  rw [hb]
  have hlt := adler32_lt payload
  simp only [finish, Inflate.BitRd.align, hr, be32Bytes, List.cons_append, List.nil_append, ho,
    adler_model_eq_spec]
  rw [be32_roundtrip _ hlt]
  simp

/-- the same for the stream shape closed by an empty final block -/
theorem inflate_fixed_roundtrip (blocks : List (List Tok)) (payload trailing : Bytes)
    (h : resolveBlocks blocks [] = some payload) :
    Inflate.inflate (zlibFixed blocks payload ++ trailing) = .ok payload := by
  have e : zlibFixed blocks payload = zlibFixedF blocks [] payload := by
    simp only [zlibFixed, zlibFixedF, streamBits_eq]
  rw [e]
  exact inflate_fixed_roundtrip_final blocks [] payload trailing (by rw [resolveBlocks_snoc_nil]; exact h)

theorem resolve_lits : ∀ (p out : Bytes), resolve (p.map Tok.lit) out = some (out ++ p)
  | [], out => by simp [resolve]
  | b :: t, out => by simp [resolve, resolve_lits t]

theorem resolveBlocks_lits : ∀ (ps : List Bytes) (out : Bytes),
    resolveBlocks (ps.map fun p => p.map Tok.lit) out = some (out ++ ps.flatten)
  | [], out => by simp [resolveBlocks]
  | p :: ps, out => by simp [resolveBlocks, resolve_lits, resolveBlocks_lits ps]

/-- literals only: any cutting of the payload into blocks of literals -/
theorem inflate_fixed_literals_roundtrip (parts : List Bytes) (trailing : Bytes) :
    Inflate.inflate (zlibFixed (parts.map fun p => p.map Tok.lit) parts.flatten ++ trailing) = .ok parts.flatten := by
  apply inflate_fixed_roundtrip
  simpa using resolveBlocks_lits parts []

/-- literals only, one final block: the stream shape of `FiltersSpec.zlibFixedLiterals` -/
theorem inflate_fixed_literals_final_roundtrip (data trailing : Bytes) :
    Inflate.inflate (zlibFixedF [] (data.map Tok.lit) data ++ trailing) = .ok data := by
  apply inflate_fixed_roundtrip_final
  have := resolve_lits data []
  simp only [List.nil_append] at this
  simp [resolveBlocks, this]

/-! ### the array transcription of `resolveBlocks` used by the judge -/

theorem lzCopyA_toList (d : Nat) : ∀ (n : Nat) (out : Array UInt8),
    (lzCopyA d n out).toList = lzCopy d n out.toList
  | 0, _ => rfl
  | n + 1, out => by
    rw [lzCopyA, lzCopy, lzCopyA_toList d n]
    simp

theorem resolveA_eq : ∀ (toks : List Tok) (out : Array UInt8),
    (resolveA toks out).map Array.toList = resolve toks out.toList
  | [], out => rfl
  | .lit b :: t, out => by simp only [resolveA, resolve, resolveA_eq t]; simp
  | .copy ls le ds de :: t, out => by
    simp only [resolveA, resolve, Array.length_toList]
    split
    · rw [resolveA_eq t, lzCopyA_toList]
    · rfl

theorem resolveBlocksA_eq : ∀ (bs : List (List Tok)) (out : Array UInt8),
    (resolveBlocksA bs out).map Array.toList = resolveBlocks bs out.toList
  | [], out => rfl
  | b :: bs, out => by
    simp only [resolveBlocksA, resolveBlocks]
    have := resolveA_eq b out
    cases h : resolveA b out with
    | none => rw [h] at this; simp only [Option.map_none] at this; rw [← this]; rfl
    | some mid =>
      rw [h] at this; simp only [Option.map_some] at this
      rw [← this]
      exact resolveBlocksA_eq bs mid

/-- what the judge evaluates is the hypothesis of `inflate_fixed_roundtrip_final` -/
theorem resolveBlocksA_sound (bs : List (List Tok)) (payload : Bytes)
    (h : (resolveBlocksA bs #[]).map Array.toList = some payload) : resolveBlocks bs [] = some payload := by
  rw [← h]; exact (resolveBlocksA_eq bs #[]).symm

/-! ### the older literal-only generator encoder `FiltersSpec.zlibFixedLiterals` is an instance -/

theorem codeBits_eq (v : Nat) : ∀ n : Nat, codeBits v n = msbBits n v
  | 0 => rfl
  | n + 1 => by
    have ih := codeBits_eq v n
    simp only [codeBits] at ih ⊢
    rw [List.range_succ_eq_map, List.map_cons, List.map_map, msbBits, ← ih]
    congr 1
    apply List.map_congr_left
    intro i _
    simp only [Function.comp]
    have : n + 1 - 1 - (i + 1) = n - 1 - i := by omega
    rw [this]

theorem natOfBits_snoc : ∀ (cur : List Bool) (b : Bool),
    natOfBits (cur ++ [b]) = natOfBits cur + (if b then 2 ^ cur.length else 0)
  | [], b => by cases b <;> simp [natOfBits]
  | c :: cur, b => by
    simp only [List.cons_append, natOfBits, natOfBits_snoc cur b, List.length_cons, Nat.pow_succ]
    split <;> omega

theorem pack_short : ∀ (l : List Bool), 0 < l.length → l.length < 8 → pack l = [byteOfBits l]
  | [], h0, _ => by simp at h0
  | [_], _, _ => rfl
  | [_, _], _, _ => rfl
  | [_, _, _], _, _ => rfl
  | [_, _, _, _], _, _ => rfl
  | [_, _, _, _, _], _, _ => rfl
  | [_, _, _, _, _, _], _, _ => rfl
  | [_, _, _, _, _, _, _], _, _ => rfl
  | _ :: _ :: _ :: _ :: _ :: _ :: _ :: _ :: _, _, h => by simp at h; omega

theorem pack_8 (c : List Bool) (t : List Bool) (h : c.length = 8) : pack (c ++ t) = byteOfBits c :: pack t := by
  rcases c with _ | ⟨b0, _ | ⟨b1, _ | ⟨b2, _ | ⟨b3, _ | ⟨b4, _ | ⟨b5, _ | ⟨b6, _ | ⟨b7, _ | ⟨x, u⟩⟩⟩⟩⟩⟩⟩⟩⟩ <;>
    simp at h
  simp only [List.cons_append, List.nil_append]
  rw [pack]

theorem packBitsAux_eq : ∀ (l cur : List Bool) (out : Bytes), cur.length < 8 →
    packBitsAux l (natOfBits cur) cur.length out = out.reverse ++ pack (cur ++ l)
  | [], cur, out, h => by
    rw [packBitsAux]
    by_cases hk : cur.length = 0
    · have : cur = [] := List.eq_nil_of_length_eq_zero hk
      subst this
      simp [pack]
    · have hk' : (cur.length == 0) = false := by simpa using hk
      simp only [hk', Bool.false_eq_true, if_false, List.append_nil, List.reverse_cons]
      rw [pack_short cur (by omega) h]
      rfl
  | b :: t, cur, out, h => by
    rw [packBitsAux]
    rw [← natOfBits_snoc cur b]
    by_cases hk : cur.length = 7
    · have hk' : (cur.length == 7) = true := by simpa using hk
      simp only [hk', if_true]
      have := packBitsAux_eq t [] (UInt8.ofNat (natOfBits (cur ++ [b])) :: out) (by simp)
      simp only [natOfBits, List.length_nil, List.nil_append] at this
      rw [this]
      have e : cur ++ b :: t = (cur ++ [b]) ++ t := by simp
      rw [e, pack_8 (cur ++ [b]) t (by simp [hk])]
      simp [byteOfBits]
    · have hk' : (cur.length == 7) = false := by simpa using hk
      simp only [hk', Bool.false_eq_true, if_false]
      have := packBitsAux_eq t (cur ++ [b]) out (by simp; omega)
      simp only [List.length_append, List.length_singleton] at this
      rw [this]
      simp

theorem packBits_eq (l : List Bool) : packBits l = pack l := by
  have := packBitsAux_eq l [] [] (by simp)
  simpa [packBits, natOfBits] using this

theorem toksBits_lits : ∀ data : Bytes, toksBits (data.map Tok.lit) = data.flatMap litBits
  | [] => rfl
  | b :: t => by simp [toksBits, tokBits, toksBits_lits t]

theorem zlibFixedLiterals_eq (data : Bytes) :
    zlibFixedLiterals data = zlibFixedF [] (data.map Tok.lit) data := by
  simp only [zlibFixedLiterals, zlibFixedF, streamBitsF, blockBits, packBits_eq, toksBits_lits, eobBits,
    codeBits_eq]
  rfl

/-- the single-final-block literal stream of the older generator decodes to its data -/
theorem inflate_zlibFixedLiterals_roundtrip (data trailing : Bytes) :
    Inflate.inflate (zlibFixedLiterals data ++ trailing) = .ok data := by
  rw [zlibFixedLiterals_eq]; exact inflate_fixed_literals_final_roundtrip data trailing

example : Inflate.inflate (zlibFixedLiterals [0, 143, 144, 255] ++ [0x0A]) = .ok [0, 143, 144, 255] :=
  inflate_zlibFixedLiterals_roundtrip _ _

-- non-vacuity: "abcabcabcabc" as literal a b c + <length 9, distance 3> (an overlapping copy), cut into
-- two blocks; then the same data as a factorisation whose second block reaches back into the first
example : resolveBlocks [[.lit 97, .lit 98, .lit 99], [.copy 6 0 2 0]] [] =
    some [97, 98, 99, 97, 98, 99, 97, 98, 99, 97, 98, 99] := by decide
example : Inflate.inflate (zlibFixed [[.lit 97, .lit 98, .lit 99], [.copy 6 0 2 0]]
      [97, 98, 99, 97, 98, 99, 97, 98, 99, 97, 98, 99] ++ [0x0A]) =
    .ok [97, 98, 99, 97, 98, 99, 97, 98, 99, 97, 98, 99] :=
  inflate_fixed_roundtrip _ _ _ (by decide)
-- a length symbol with extra bits (symbol 265 = index 8, 1 extra bit: length 12) and a distance
-- symbol with extra bits (symbol 4, 1 extra bit: distance 6)
example : Inflate.inflate (zlibFixed [[.lit 1, .lit 2, .lit 3, .lit 4, .lit 5, .lit 6, .copy 8 1 4 1]]
      [1, 2, 3, 4, 5, 6, 1, 2, 3, 4, 5, 6, 1, 2, 3, 4, 5, 6] ++ []) =
    .ok [1, 2, 3, 4, 5, 6, 1, 2, 3, 4, 5, 6, 1, 2, 3, 4, 5, 6] :=
  inflate_fixed_roundtrip _ _ _ (by decide)
-- a distance reaching before the start of the data is not a factorisation
example : resolveBlocks [[.lit 1, .copy 0 0 1 0]] [] = none := by decide
-- the final block carries data
example : Inflate.inflate (zlibFixedF [[.lit 97, .lit 98, .lit 99]] [.copy 6 0 2 0, .lit 33]
      [97, 98, 99, 97, 98, 99, 97, 98, 99, 97, 98, 99, 33] ++ [0x0D, 0x0A]) =
    .ok [97, 98, 99, 97, 98, 99, 97, 98, 99, 97, 98, 99, 33] :=
  inflate_fixed_roundtrip_final _ _ _ _ (by decide)

end Parsley.C06
