/-
  C06, FlateDecode, bit level (used by Lemmas/InflateFixed.lean): the bit reader `BitRd` is related to the list of bits still to come
  (`bitsOf`, least significant bit of each byte first); Huffman codes are consumed most
  significant bit first by `decodeSym.go`, which is simulated on bit lists by `goL`; the code
  tables (lengths 7/8/9 for literal/length symbols, 5 for distances) are checked symbol by symbol
  by kernel evaluation.
-/
import Parsley.Model.Inflate
import Parsley.Spec.DeflateFixed
import Parsley.Lemmas.FiltersInflate
namespace Parsley.C06.Fixed
open Parsley Parsley.Inflate Parsley.DeflateFixed

/-! ### bit strings -/

theorem lsbBits_length (n v : Nat) : (lsbBits n v).length = n := by
  induction n generalizing v with
  | zero => rfl
  | succ n ih => simp [lsbBits, ih]

theorem msbBits_length (n v : Nat) : (msbBits n v).length = n := by
  induction n with
  | zero => rfl
  | succ n ih => simp [msbBits, ih]

theorem bool_toNat_mod (v : Nat) : (v % 2 == 1).toNat = v % 2 := by
  rcases Nat.mod_two_eq_zero_or_one v with h | h <;> simp [h]

theorem natOfBits_lsbBits (n v : Nat) : natOfBits (lsbBits n v) = v % 2 ^ n := by
  induction n generalizing v with
  | zero => simp [lsbBits, natOfBits, Nat.mod_one]
  | succ n ih =>
    simp only [lsbBits, natOfBits, ih, bool_toNat_mod]
    rw [Nat.pow_succ', Nat.mod_mul]

theorem lsbBits_add (a b v : Nat) : lsbBits (a + b) v = lsbBits a v ++ lsbBits b (v / 2 ^ a) := by
  induction a generalizing v with
  | zero => simp [lsbBits]
  | succ a ih =>
    have : a + 1 + b = (a + b) + 1 := by omega
    rw [this]
    simp only [lsbBits, ih, List.cons_append]
    rw [Nat.div_div_eq_div_mul, ← Nat.pow_succ']

theorem lsbBits_add_mul (n x y : Nat) : lsbBits n (x + y * 2 ^ n) = lsbBits n x := by
  induction n generalizing x y with
  | zero => rfl
  | succ n ih =>
    have h : y * 2 ^ (n + 1) = 2 * (y * 2 ^ n) := by rw [Nat.pow_succ]; ac_rfl
    simp only [lsbBits, h]
    have h1 : (x + 2 * (y * 2 ^ n)) % 2 = x % 2 := by omega
    have h2 : (x + 2 * (y * 2 ^ n)) / 2 = x / 2 + y * 2 ^ n := by omega
    rw [h1, h2, ih]

/-- fetching a byte into the accumulator appends its eight bits -/
theorem lsbBits_fetch (cnt acc b : Nat) (h : acc < 2 ^ cnt) :
    lsbBits (cnt + 8) (acc + b * 2 ^ cnt) = lsbBits cnt acc ++ lsbBits 8 b := by
  rw [lsbBits_add, lsbBits_add_mul]
  have : (acc + b * 2 ^ cnt) / 2 ^ cnt = b := by
    rw [Nat.add_mul_div_right _ _ (Nat.two_pow_pos cnt), Nat.div_eq_of_lt h, Nat.zero_add]
  rw [this]

theorem lsbBits_take (n cnt acc : Nat) (h : n ≤ cnt) (X : List Bool) :
    (lsbBits cnt acc ++ X).take n = lsbBits n acc ∧
    (lsbBits cnt acc ++ X).drop n = lsbBits (cnt - n) (acc / 2 ^ n) ++ X := by
  have e : cnt = n + (cnt - n) := by omega
  rw [e, lsbBits_add, List.append_assoc]
  have hl := lsbBits_length n acc
  constructor
  · rw [List.take_left' hl]
  · rw [List.drop_left' hl]; simp

def bytesBits : Bytes → List Bool
  | [] => []
  | b :: t => lsbBits 8 b.toNat ++ bytesBits t

theorem bytesBits_append (a b : Bytes) : bytesBits (a ++ b) = bytesBits a ++ bytesBits b := by
  induction a with
  | nil => rfl
  | cons x t ih => simp [bytesBits, ih]

theorem bytesBits_length (a : Bytes) : (bytesBits a).length = 8 * a.length := by
  induction a with
  | nil => rfl
  | cons x t ih => simp [bytesBits, lsbBits_length, ih]; omega

theorem bytesBits_inj : ∀ (a b : Bytes), bytesBits a = bytesBits b → a = b
  | [], [], _ => rfl
  | [], y :: u, h => by have := congrArg List.length h; simp [bytesBits, lsbBits_length] at this; omega
  | x :: t, [], h => by have := congrArg List.length h; simp [bytesBits, lsbBits_length] at this
  | x :: t, y :: u, h => by
    simp only [bytesBits] at h
    have hh := List.append_inj h (by simp [lsbBits_length])
    have h1 := congrArg natOfBits hh.1
    rw [natOfBits_lsbBits, natOfBits_lsbBits] at h1
    have hx := x.toNat_lt; have hy := y.toNat_lt
    have : x = y := UInt8.toNat_inj.mp (by omega)
    rw [this, bytesBits_inj t u hh.2]

/-- the bits still to come: the unconsumed bits of the fetched bytes, then the bytes not yet fetched -/
def bitsOf (r : BitRd) : List Bool := lsbBits r.cnt r.acc ++ bytesBits r.rest

/-- the accumulator holds exactly `cnt` bits, and never a whole byte -/
def WF (r : BitRd) : Prop := r.acc < 2 ^ r.cnt ∧ r.cnt < 8

theorem bitsAux_have (n : Nat) (rest : Bytes) (acc cnt : Nat) (hacc : acc < 2 ^ cnt) (hcnt : cnt < n + 8)
    (hn : n ≤ cnt) :
    ∃ r', bitsAux n rest acc cnt = some (natOfBits ((lsbBits cnt acc ++ bytesBits rest).take n), r') ∧
      bitsOf r' = (lsbBits cnt acc ++ bytesBits rest).drop n ∧ WF r' := by
  obtain ⟨ht, hd⟩ := lsbBits_take n cnt acc hn (bytesBits rest)
  refine ⟨⟨rest, acc / 2 ^ n, cnt - n⟩, ?_, ?_, ?_⟩
  · rw [bitsAux.eq_def]
    simp only [hn, if_true]
    rw [ht, natOfBits_lsbBits]
  · rw [hd]; rfl
  · constructor
    · show acc / 2 ^ n < 2 ^ (cnt - n)
      apply Nat.div_lt_of_lt_mul
      rw [← Nat.pow_add]
      have : n + (cnt - n) = cnt := by omega
      rw [this]; exact hacc
    · show cnt - n < 8
      omega

theorem bitsAux_spec (n : Nat) : ∀ (rest : Bytes) (acc cnt : Nat), acc < 2 ^ cnt → cnt < n + 8 →
    n ≤ (lsbBits cnt acc ++ bytesBits rest).length →
    ∃ r', bitsAux n rest acc cnt = some (natOfBits ((lsbBits cnt acc ++ bytesBits rest).take n), r') ∧
      bitsOf r' = (lsbBits cnt acc ++ bytesBits rest).drop n ∧ WF r' := by
  intro rest
  induction rest with
  | nil =>
    intro acc cnt hacc hcnt hlen
    have hn : n ≤ cnt := by simpa [bytesBits, lsbBits_length] using hlen
    exact bitsAux_have n [] acc cnt hacc hcnt hn
  | cons b t ih =>
    intro acc cnt hacc hcnt hlen
    by_cases hn : n ≤ cnt
    · exact bitsAux_have n (b :: t) acc cnt hacc hcnt hn
    · rw [bitsAux.eq_def]
      simp only [hn, if_false]
      have hb := b.toNat_lt
      have hacc' : acc + b.toNat * 2 ^ cnt < 2 ^ (cnt + 8) := by
        have h1 : b.toNat * 2 ^ cnt ≤ 255 * 2 ^ cnt := Nat.mul_le_mul_right _ (by omega)
        have h2 : 2 ^ (cnt + 8) = 256 * 2 ^ cnt := by rw [Nat.pow_add]; omega
        omega
      have e : lsbBits (cnt + 8) (acc + b.toNat * 2 ^ cnt) ++ bytesBits t =
          lsbBits cnt acc ++ bytesBits (b :: t) := by
        rw [lsbBits_fetch _ _ _ hacc, bytesBits, List.append_assoc]
      have := ih (acc + b.toNat * 2 ^ cnt) (cnt + 8) hacc' (by omega) (by rw [e]; exact hlen)
      rw [e] at this
      exact this

theorem bits_spec (r : BitRd) (n : Nat) (hw : WF r) (hlen : n ≤ (bitsOf r).length) :
    ∃ r', r.bits n = some (natOfBits ((bitsOf r).take n), r') ∧ bitsOf r' = (bitsOf r).drop n ∧ WF r' :=
  bitsAux_spec n r.rest r.acc r.cnt hw.1 (by have := hw.2; omega) hlen

/-- reading a field written least significant bit first -/
theorem bits_lsb (r : BitRd) (n v : Nat) (rest : List Bool) (hw : WF r) (hv : v < 2 ^ n)
    (hb : bitsOf r = lsbBits n v ++ rest) :
    ∃ r', r.bits n = some (v, r') ∧ bitsOf r' = rest ∧ WF r' := by
  obtain ⟨r', h1, h2, h3⟩ := bits_spec r n hw (by rw [hb]; simp [lsbBits_length])
  refine ⟨r', ?_, ?_, h3⟩
  · rw [h1, hb, List.take_left' (lsbBits_length n v), natOfBits_lsbBits, Nat.mod_eq_of_lt hv]
  · rw [h2, hb, List.drop_left' (lsbBits_length n v)]

/-- reading one bit -/
theorem bits_one (r : BitRd) (b : Bool) (rest : List Bool) (hw : WF r) (hb : bitsOf r = b :: rest) :
    ∃ r', r.bits 1 = some (b.toNat, r') ∧ bitsOf r' = rest ∧ WF r' := by
  obtain ⟨r', h1, h2, h3⟩ := bits_spec r 1 hw (by rw [hb]; simp)
  refine ⟨r', ?_, ?_, h3⟩
  · rw [h1, hb]; simp [natOfBits]
  · rw [h2, hb]; rfl

/-! ### Huffman decoding on bit lists -/

/-- `decodeSym.go` on a bit list: the code is read most significant bit first and compared, length
    by length, with the range of codes of that length -/
def goL (count symbol : Array Nat) : (fuel len code first index : Nat) → List Bool → Option (Option Nat × List Bool)
  | 0, _, _, _, _, l => some (none, l)
  | _ + 1, _, _, _, _, [] => none
  | fuel + 1, len, code, first, index, b :: t =>
    let code := code + b.toNat
    let cnt := count[len]?.getD 0
    if code < first + cnt then some (symbol[index + (code - first)]?, t)
    else goL count symbol fuel (len + 1) (code * 2) ((first + cnt) * 2) (index + cnt) t

theorem go_sim (h : Huff) : ∀ (fuel len code first index : Nat) (r : BitRd) (s : Option Nat) (rest : List Bool),
    WF r → goL h.count h.symbol fuel len code first index (bitsOf r) = some (s, rest) →
    ∃ r', decodeSym.go h fuel len code first index r = some (s, r') ∧ bitsOf r' = rest ∧ WF r' := by
  intro fuel
  induction fuel with
  | zero =>
    intro len code first index r s rest hw hg
    simp only [goL, Option.some.injEq, Prod.mk.injEq] at hg
    exact ⟨r, by rw [decodeSym.go, hg.1], hg.2, hw⟩
  | succ fuel ih =>
    intro len code first index r s rest hw hg
    cases hb : bitsOf r with
    | nil => rw [hb] at hg; simp [goL] at hg
    | cons b t =>
      rw [hb] at hg
      obtain ⟨r1, h1, h2, h3⟩ := bits_one r b t hw hb
      simp only [goL] at hg
      rw [decodeSym.go]
      simp only [h1]
      split at hg
      · rename_i hc
        simp only [Option.some.injEq, Prod.mk.injEq] at hg
        refine ⟨r1, ?_, by rw [h2]; exact hg.2, h3⟩
        simp only [hc, if_true]
        rw [hg.1]
      · rename_i hc
        simp only [hc, if_false]
        rw [← h2] at hg
        exact ih _ _ _ _ r1 s rest h3 hg

theorem goL_append (count symbol : Array Nat) (rest : List Bool) :
    ∀ (fuel len code first index : Nat) (pre : List Bool) (s : Option Nat),
    goL count symbol fuel len code first index pre = some (s, []) →
    goL count symbol fuel len code first index (pre ++ rest) = some (s, rest) := by
  intro fuel
  induction fuel with
  | zero =>
    intro len code first index pre s h
    simp only [goL, Option.some.injEq, Prod.mk.injEq] at h
    rw [h.2, ← h.1]; rfl
  | succ fuel ih =>
    intro len code first index pre s h
    cases pre with
    | nil => simp [goL] at h
    | cons b t =>
      simp only [goL, List.cons_append] at h ⊢
      split at h
      · rename_i hc
        simp only [Option.some.injEq, Prod.mk.injEq] at h
        simp only [hc, if_true]
        rw [h.1, h.2]; rfl
      · rename_i hc
        simp only [hc, if_false]
        exact ih _ _ _ _ t s h

/-- decoding a symbol whose code is the next thing in the bit stream -/
theorem decodeSym_code (h : Huff) (r : BitRd) (codeb rest : List Bool) (sym : Nat) (hw : WF r)
    (hc : goL h.count h.symbol 15 1 0 0 0 codeb = some (some sym, []))
    (hb : bitsOf r = codeb ++ rest) :
    ∃ r', decodeSym h r = some (some sym, r') ∧ bitsOf r' = rest ∧ WF r' := by
  have := goL_append h.count h.symbol rest 15 1 0 0 0 codeb (some sym) hc
  rw [← hb] at this
  exact go_sim h 15 1 0 0 0 r (some sym) rest hw this

/-! ### the fixed code tables (RFC 1951 3.2.6), checked by kernel evaluation -/

def litCount : Array Nat := #[0,0,0,0,0,0,0,24,152,112,0,0,0,0,0,0]
def litSymbol : Array Nat :=
  ((List.range 24).map (· + 256) ++ List.range 144 ++ (List.range 8).map (· + 280) ++ (List.range 112).map (· + 144)).toArray
def distCount : Array Nat := #[0,0,0,0,0,30,0,0,0,0,0,0,0,0,0,0]
def distSymbol : Array Nat := (List.range 30).toArray

theorem fixedLit_count : fixedLit.count = litCount := by decide +kernel
theorem fixedLit_symbol : fixedLit.symbol = litSymbol := by decide +kernel
theorem fixedDist_count : fixedDist.count = distCount := by decide +kernel
theorem fixedDist_symbol : fixedDist.symbol = distSymbol := by decide +kernel

theorem lit_code_tab : ∀ n : Fin 256,
    goL litCount litSymbol 15 1 0 0 0 (litBits (UInt8.ofNat n.val)) = some (some n.val, []) := by decide +kernel
theorem len_code_tab : ∀ n : Fin 29,
    goL litCount litSymbol 15 1 0 0 0 (lenSymBits n.val) = some (some (257 + n.val), []) := by decide +kernel
theorem eob_code_tab : goL litCount litSymbol 15 1 0 0 0 eobBits = some (some 256, []) := by decide +kernel
theorem dist_code_tab : ∀ n : Fin 30,
    goL distCount distSymbol 15 1 0 0 0 (msbBits 5 n.val) = some (some n.val, []) := by decide +kernel

theorem lit_code (b : UInt8) :
    goL fixedLit.count fixedLit.symbol 15 1 0 0 0 (litBits b) = some (some b.toNat, []) := by
  have := lit_code_tab ⟨b.toNat, b.toNat_lt⟩
  rw [fixedLit_count, fixedLit_symbol]
  simpa using this
theorem len_code (ls : Nat) (h : ls < 29) :
    goL fixedLit.count fixedLit.symbol 15 1 0 0 0 (lenSymBits ls) = some (some (257 + ls), []) := by
  rw [fixedLit_count, fixedLit_symbol]; exact len_code_tab ⟨ls, h⟩
theorem eob_code : goL fixedLit.count fixedLit.symbol 15 1 0 0 0 eobBits = some (some 256, []) := by
  rw [fixedLit_count, fixedLit_symbol]; exact eob_code_tab
theorem dist_code (ds : Nat) (h : ds < 30) :
    goL fixedDist.count fixedDist.symbol 15 1 0 0 0 (msbBits 5 ds) = some (some ds, []) := by
  rw [fixedDist_count, fixedDist_symbol]; exact dist_code_tab ⟨ds, h⟩

/-- the tables of the model and of the specification are the same -/
theorem lenBase_eq : Inflate.lenBase.toList = DeflateFixed.lenBase := by decide
theorem lenExtra_eq : Inflate.lenExtra.toList = DeflateFixed.lenExtra := by decide
theorem distBase_eq : Inflate.distBase.toList = DeflateFixed.distBase := by decide
theorem distExtra_eq : Inflate.distExtra.toList = DeflateFixed.distExtra := by decide

end Parsley.C06.Fixed
