/-
  C06, FlateDecode, the rejection side for EVERY accepted stream (no spec encoder involved):
  locality of the executable inflate.

  Every reading function of Model/Inflate.lean (`BitRd.bits`, `decodeSym`, `codes`, `readLens`,
  `dynamicTables`, `takeBytes`, `blocks`) is *local*: when it succeeds on a reader whose unread
  bytes are `rest`, it has consumed a prefix `p` of `rest` (`rest = p ++ rest'`, `rest'` the unread
  bytes afterwards), and on EVERY other reader that starts with the same pending bits and the same
  `p` - whatever bytes `s` follow - it returns the same value and leaves exactly `s` unread, with
  the same pending bits.  (Determinism + prefix monotonicity of the bit reader, lifted through the
  Huffman decoder, the block loops and the dynamic header parser.)  For the two fuelled loops the
  statement also changes the fuel: any fuel above the number of unread bits will do
  (`LoaderDecoders.bl`, the measure of the existing fuel-sufficiency lemma `blocks_fuel`).

  Consequences are drawn in Props/C06Reject.lean: `inflate_ignores_trailing`,
  `inflate_truncation_rejected`, `inflate_trailer_altered_rejected`.
-/
import Parsley.Lemmas.LoaderDecoders
namespace Parsley.C06.Prefix
open Parsley Parsley.Inflate Parsley.LoaderDecoders

/-! ### the bit reader -/

theorem bitsAux_loc (n : Nat) : ∀ (rest : Bytes) (acc cnt v : Nat) (r' : BitRd),
    bitsAux n rest acc cnt = some (v, r') →
    ∃ p, rest = p ++ r'.rest ∧ ∀ s, bitsAux n (p ++ s) acc cnt = some (v, ⟨s, r'.acc, r'.cnt⟩) := by
  intro rest
  induction rest with
  | nil =>
    intro acc cnt v r' h
    unfold bitsAux at h
    split at h
    · rename_i hle
      cases h
      refine ⟨[], rfl, fun s => ?_⟩
      rw [List.nil_append]; unfold bitsAux; rw [if_pos hle]
    · cases h
  | cons b t ih =>
    intro acc cnt v r' h
    unfold bitsAux at h
    split at h
    · rename_i hle
      cases h
      refine ⟨[], rfl, fun s => ?_⟩
      rw [List.nil_append]; unfold bitsAux; rw [if_pos hle]
    · rename_i hle
      obtain ⟨p, hp, hs⟩ := ih _ _ _ _ h
      refine ⟨b :: p, by rw [hp]; rfl, fun s => ?_⟩
      rw [List.cons_append]; unfold bitsAux; rw [if_neg hle]; exact hs s

theorem bits_loc {r : BitRd} {n v : Nat} {r' : BitRd} (h : r.bits n = some (v, r')) :
    ∃ p, r.rest = p ++ r'.rest ∧
      ∀ s, (⟨p ++ s, r.acc, r.cnt⟩ : BitRd).bits n = some (v, ⟨s, r'.acc, r'.cnt⟩) :=
  bitsAux_loc n _ _ _ _ _ h

/-! ### one Huffman symbol -/

theorem go_loc (h : Huff) : ∀ (fuel len code first index : Nat) (r : BitRd) (x : Option Nat) (r' : BitRd),
    decodeSym.go h fuel len code first index r = some (x, r') →
    ∃ p, r.rest = p ++ r'.rest ∧
      ∀ s, decodeSym.go h fuel len code first index ⟨p ++ s, r.acc, r.cnt⟩ = some (x, ⟨s, r'.acc, r'.cnt⟩) := by
  intro fuel
  induction fuel with
  | zero =>
    intro len code first index r x r' hg
    unfold decodeSym.go at hg
    cases hg
    exact ⟨[], rfl, fun s => by unfold decodeSym.go; rfl⟩
  | succ f ih =>
    intro len code first index r x r' hg
    unfold decodeSym.go at hg
    cases hb : r.bits 1 with
    | none => rw [hb] at hg; cases hg
    | some q =>
      obtain ⟨b, r1⟩ := q
      rw [hb] at hg
      obtain ⟨p1, hp1, hs1⟩ := bits_loc hb
      dsimp only at hg
      split at hg
      · rename_i hlt
        cases hg
        refine ⟨p1, hp1, fun s => ?_⟩
        unfold decodeSym.go
        rw [hs1 s]; dsimp only; rw [if_pos hlt]
      · rename_i hlt
        obtain ⟨p2, hp2, hs2⟩ := ih _ _ _ _ _ _ _ hg
        refine ⟨p1 ++ p2, by rw [hp1, hp2, List.append_assoc], fun s => ?_⟩
        unfold decodeSym.go
        rw [List.append_assoc, hs1]; dsimp only; rw [if_neg hlt]; exact hs2 s

theorem decodeSym_loc {h : Huff} {r : BitRd} {x : Option Nat} {r' : BitRd}
    (hd : decodeSym h r = some (x, r')) :
    ∃ p, r.rest = p ++ r'.rest ∧
      ∀ s, decodeSym h ⟨p ++ s, r.acc, r.cnt⟩ = some (x, ⟨s, r'.acc, r'.cnt⟩) :=
  go_loc h 15 1 0 0 0 r x r' hd

/-! ### stored data -/

theorem takeBytes_loc : ∀ (n : Nat) (rest : Bytes) (out out' : Array UInt8) (rest' : Bytes),
    takeBytes n rest out = some (out', rest') →
    ∃ d, rest = d ++ rest' ∧ ∀ s, takeBytes n (d ++ s) out = some (out', s) := by
  intro n
  induction n with
  | zero =>
    intro rest out out' rest' h
    unfold takeBytes at h
    cases h
    exact ⟨[], rfl, fun s => by simp [takeBytes]⟩
  | succ n ih =>
    intro rest out out' rest' h
    cases rest with
    | nil => unfold takeBytes at h; cases h
    | cons b t =>
      unfold takeBytes at h
      obtain ⟨d, hd, hs⟩ := ih _ _ _ _ h
      exact ⟨b :: d, by rw [hd]; rfl, fun s => by rw [List.cons_append]; unfold takeBytes; exact hs s⟩

/-! ### the symbol loop of a Huffman-coded block -/

theorem bl_mk (b : Bytes) (acc cnt : Nat) : bl ⟨b, acc, cnt⟩ = 8 * b.length + cnt := rfl

theorem codes_loc (lit dist : Huff) : ∀ (fuel : Nat) (out : Array UInt8) (r : BitRd) (out' : Array UInt8) (r' : BitRd),
    codes lit dist fuel out r = .done out' r' →
    ∃ p, r.rest = p ++ r'.rest ∧ ∀ s fuel', bl ⟨p ++ s, r.acc, r.cnt⟩ < fuel' →
      codes lit dist fuel' out ⟨p ++ s, r.acc, r.cnt⟩ = .done out' ⟨s, r'.acc, r'.cnt⟩ := by
  intro fuel
  induction fuel with
  | zero => intro out r out' r' h; unfold codes at h; cases h
  | succ f ih =>
    intro out r out' r' h
    unfold codes at h
    cases hd : decodeSym lit r with
    | none => rw [hd] at h; cases h
    | some q =>
      obtain ⟨x, r1⟩ := q
      rw [hd] at h
      obtain ⟨p1, hp1, hs1⟩ := decodeSym_loc hd
      cases x with
      | none => cases h
      | some sym =>
        dsimp only at h
        split at h
        · -- literal
          rename_i hlit
          obtain ⟨p2, hp2, hs2⟩ := ih _ _ _ _ h
          refine ⟨p1 ++ p2, by rw [hp1, hp2, List.append_assoc], fun s fuel' hf => ?_⟩
          rw [List.append_assoc] at hf ⊢
          have h1 := decodeSym_bl (hs1 (p2 ++ s))
          obtain ⟨f', rfl⟩ : ∃ f', fuel' = f' + 1 := ⟨fuel' - 1, by omega⟩
          unfold codes
          rw [hs1]; dsimp only; rw [if_pos hlit]
          exact hs2 s f' (by omega)
        · split at h
          · -- end of block
            rename_i hlit heob
            cases h
            refine ⟨p1, hp1, fun s fuel' hf => ?_⟩
            obtain ⟨f', rfl⟩ : ∃ f', fuel' = f' + 1 := ⟨fuel' - 1, by omega⟩
            unfold codes
            rw [hs1]; dsimp only; rw [if_neg hlit, if_pos heob]
          · split at h
            · cases h
            · rename_i hlit heob hs29
              cases hb : r1.bits (lenExtra[sym - 257]?.getD 0) with
              | none => rw [hb] at h; cases h
              | some q2 =>
                obtain ⟨e, r2⟩ := q2
                rw [hb] at h
                obtain ⟨p2, hp2, hs2⟩ := bits_loc hb
                dsimp only at h
                cases hd2 : decodeSym dist r2 with
                | none => rw [hd2] at h; cases h
                | some q3 =>
                  obtain ⟨y, r3⟩ := q3
                  rw [hd2] at h
                  obtain ⟨p3, hp3, hs3⟩ := decodeSym_loc hd2
                  cases y with
                  | none => cases h
                  | some ds =>
                    dsimp only at h
                    split at h
                    · cases h
                    · rename_i hds30
                      cases hb4 : r3.bits (distExtra[ds]?.getD 0) with
                      | none => rw [hb4] at h; cases h
                      | some q4 =>
                        obtain ⟨e4, r4⟩ := q4
                        rw [hb4] at h
                        obtain ⟨p4, hp4, hs4⟩ := bits_loc hb4
                        dsimp only at h
                        split at h
                        · cases h
                        · rename_i hfar
                          obtain ⟨p5, hp5, hs5⟩ := ih _ _ _ _ h
                          refine ⟨p1 ++ (p2 ++ (p3 ++ (p4 ++ p5))),
                            by rw [hp1, hp2, hp3, hp4, hp5]; simp only [List.append_assoc],
                            fun s fuel' hf => ?_⟩
                          simp only [List.append_assoc] at hf ⊢
                          have h1 := decodeSym_bl (hs1 (p2 ++ (p3 ++ (p4 ++ (p5 ++ s)))))
                          have h2 := bits_bl (hs2 (p3 ++ (p4 ++ (p5 ++ s))))
                          have h3 := decodeSym_bl (hs3 (p4 ++ (p5 ++ s)))
                          have h4 := bits_bl (hs4 (p5 ++ s))
                          obtain ⟨f', rfl⟩ : ∃ f', fuel' = f' + 1 := ⟨fuel' - 1, by omega⟩
                          unfold codes
                          rw [hs1]; dsimp only; rw [if_neg hlit, if_neg heob, if_neg hs29]
                          rw [hs2]; dsimp only
                          rw [hs3]; dsimp only; rw [if_neg hds30]
                          rw [hs4]; dsimp only; rw [if_neg hfar]
                          exact hs5 s f' (by omega)

/-! ### the dynamic block header -/

theorem readLens_loc (cl : Huff) (n : Nat) : ∀ (fuel : Nat) (lens : Array Nat) (r : BitRd) (lens' : Array Nat) (r' : BitRd),
    readLens cl n fuel lens r = some (some (lens', r')) →
    ∃ p, r.rest = p ++ r'.rest ∧
      ∀ s, readLens cl n fuel lens ⟨p ++ s, r.acc, r.cnt⟩ = some (some (lens', ⟨s, r'.acc, r'.cnt⟩)) := by
  intro fuel
  induction fuel with
  | zero => intro lens r lens' r' h; unfold readLens at h; cases h
  | succ f ih =>
    intro lens r lens' r' h
    unfold readLens at h
    split at h
    · rename_i hsz
      cases h
      exact ⟨[], rfl, fun s => by unfold readLens; rw [if_pos hsz]; rfl⟩
    · rename_i hsz
      cases hd : decodeSym cl r with
      | none => rw [hd] at h; cases h
      | some q =>
        obtain ⟨x, r1⟩ := q
        rw [hd] at h
        obtain ⟨p1, hp1, hs1⟩ := decodeSym_loc hd
        cases x with
        | none => cases h
        | some sym =>
          dsimp only at h
          split at h
          · rename_i hlt
            obtain ⟨p2, hp2, hs2⟩ := ih _ _ _ _ h
            refine ⟨p1 ++ p2, by rw [hp1, hp2, List.append_assoc], fun s => ?_⟩
            rw [List.append_assoc]
            unfold readLens
            rw [if_neg hsz, hs1]; dsimp only; rw [if_pos hlt]
            exact hs2 s
          · rename_i hlt
            generalize htr : (if (sym == 16) = true then (true, 2, 3) else if (sym == 17) = true then (false, 3, 3) else (false, 7, 11) : Bool × Nat × Nat) = tr at h
            split at h
            · cases h
            · rename_i hprev
              cases hb : r1.bits tr.2.fst with
              | none => rw [hb] at h; cases h
              | some q2 =>
                obtain ⟨e, r2⟩ := q2
                rw [hb] at h
                obtain ⟨p2, hp2, hs2⟩ := bits_loc hb
                dsimp only at h
                split at h
                · cases h
                · rename_i hover
                  obtain ⟨p3, hp3, hs3⟩ := ih _ _ _ _ h
                  refine ⟨p1 ++ (p2 ++ p3), by rw [hp1, hp2, hp3]; simp only [List.append_assoc], fun s => ?_⟩
                  simp only [List.append_assoc]
                  unfold readLens
                  rw [if_neg hsz, hs1]; dsimp only; rw [if_neg hlt, htr]
                  rw [if_neg hprev, hs2]; dsimp only; rw [if_neg hover]
                  exact hs3 s

theorem clLens_loc : ∀ (k i : Nat) (a : Array Nat) (r : BitRd) (a' : Array Nat) (r' : BitRd),
    dynamicTables.clLens k i a r = some (a', r') →
    ∃ p, r.rest = p ++ r'.rest ∧
      ∀ s, dynamicTables.clLens k i a ⟨p ++ s, r.acc, r.cnt⟩ = some (a', ⟨s, r'.acc, r'.cnt⟩) := by
  intro k
  induction k with
  | zero =>
    intro i a r a' r' h
    unfold dynamicTables.clLens at h
    cases h
    exact ⟨[], rfl, fun s => by unfold dynamicTables.clLens; rfl⟩
  | succ k ih =>
    intro i a r a' r' h
    unfold dynamicTables.clLens at h
    cases hb : r.bits 3 with
    | none => rw [hb] at h; cases h
    | some q =>
      obtain ⟨v, r1⟩ := q
      rw [hb] at h
      obtain ⟨p1, hp1, hs1⟩ := bits_loc hb
      obtain ⟨p2, hp2, hs2⟩ := ih _ _ _ _ _ h
      refine ⟨p1 ++ p2, by rw [hp1, hp2, List.append_assoc], fun s => ?_⟩
      rw [List.append_assoc]
      unfold dynamicTables.clLens
      rw [hs1]
      exact hs2 s

set_option maxRecDepth 4000 in
theorem dynamicTables_loc {r : BitRd} {lit dist : Huff} {r' : BitRd}
    (h : dynamicTables r = some (some (lit, dist, r'))) :
    ∃ p, r.rest = p ++ r'.rest ∧
      ∀ s, dynamicTables ⟨p ++ s, r.acc, r.cnt⟩ = some (some (lit, dist, ⟨s, r'.acc, r'.cnt⟩)) := by
  unfold dynamicTables at h
  cases hb1 : r.bits 5 with
  | none => rw [hb1] at h; cases h
  | some q1 =>
    obtain ⟨hl, r1⟩ := q1
    obtain ⟨p1, hp1, hs1⟩ := bits_loc hb1
    rw [hb1] at h; dsimp only at h
    cases hb2 : r1.bits 5 with
    | none => rw [hb2] at h; cases h
    | some q2 =>
      obtain ⟨hd, r2⟩ := q2
      obtain ⟨p2, hp2, hs2⟩ := bits_loc hb2
      rw [hb2] at h; dsimp only at h
      cases hb3 : r2.bits 4 with
      | none => rw [hb3] at h; cases h
      | some q3 =>
        obtain ⟨hc, r3⟩ := q3
        obtain ⟨p3, hp3, hs3⟩ := bits_loc hb3
        rw [hb3] at h; dsimp only at h
        split at h
        · cases h
        · rename_i hlim
          cases hcl : dynamicTables.clLens (hc + 4) 0 (Array.replicate 19 0) r3 with
          | none => rw [hcl] at h; cases h
          | some q4 =>
            obtain ⟨cll, r4⟩ := q4
            obtain ⟨p4, hp4, hs4⟩ := clLens_loc _ _ _ _ _ _ hcl
            rw [hcl] at h; dsimp only at h
            split at h
            · cases h
            · rename_i hcok
              split at h
              · cases h
              · cases h
              · rename_i lens r5 hrl
                obtain ⟨p5, hp5, hs5⟩ := readLens_loc _ _ _ _ _ _ _ hrl
                split at h
                · cases h
                · rename_i heob
                  split at h
                  · cases h
                  · rename_i htok
                    cases h
                    refine ⟨p1 ++ (p2 ++ (p3 ++ (p4 ++ p5))),
                      by rw [hp1, hp2, hp3, hp4, hp5]; simp only [List.append_assoc], fun s => ?_⟩
                    simp only [List.append_assoc]
                    unfold dynamicTables
                    rw [hs1]; dsimp only
                    rw [hs2]; dsimp only
                    rw [hs3]; dsimp only
                    rw [if_neg hlim, hs4]; dsimp only
                    rw [if_neg hcok, hs5]; dsimp only
                    rw [if_neg heob, if_neg htok]

/-! ### the block loop -/

theorem blocks_loc : ∀ (fuel : Nat) (out : Array UInt8) (r : BitRd) (out' : Array UInt8) (r' : BitRd),
    blocks fuel out r = .done out' r' →
    ∃ p, r.rest = p ++ r'.rest ∧ ∀ s fuel', bl ⟨p ++ s, r.acc, r.cnt⟩ < fuel' →
      blocks fuel' out ⟨p ++ s, r.acc, r.cnt⟩ = .done out' ⟨s, r'.acc, r'.cnt⟩ := by
  intro fuel
  induction fuel with
  | zero => intro out r out' r' h; unfold blocks at h; cases h
  | succ f ih =>
    intro out r out' r' h
    unfold blocks at h
    cases hb1 : r.bits 1 with
    | none => rw [hb1] at h; cases h
    | some q1 =>
      obtain ⟨final, r1⟩ := q1
      obtain ⟨p1, hp1, hs1⟩ := bits_loc hb1
      rw [hb1] at h; dsimp only at h
      cases hb2 : r1.bits 2 with
      | none => rw [hb2] at h; cases h
      | some q2 =>
        obtain ⟨typ, r2⟩ := q2
        obtain ⟨p2, hp2, hs2⟩ := bits_loc hb2
        rw [hb2] at h; dsimp only at h
        have hnext : ∀ (o : Array UInt8) (ra : BitRd),
            (if (final == 1) = true then RawEnd.done o ra else blocks f o ra) = .done out' r' →
            ∃ p, ra.rest = p ++ r'.rest ∧ ∀ s f', bl ⟨p ++ s, ra.acc, ra.cnt⟩ < f' →
              (if (final == 1) = true then RawEnd.done o ⟨p ++ s, ra.acc, ra.cnt⟩
                else blocks f' o ⟨p ++ s, ra.acc, ra.cnt⟩) = .done out' ⟨s, r'.acc, r'.cnt⟩ := by
          intro o ra hn
          split at hn
          · rename_i hfin
            cases hn
            exact ⟨[], rfl, fun s f' _ => by rw [if_pos hfin]; rfl⟩
          · rename_i hfin
            obtain ⟨p, hp, hs⟩ := ih _ _ _ _ hn
            exact ⟨p, hp, fun s f' hf => by rw [if_neg hfin]; exact hs s f' hf⟩
        split at h
        · -- stored
          rename_i htyp0
          split at h
          · rename_i l0 l1 n0 n1 rest hrest
            split at h
            · cases h
            · rename_i hlen
              split at h
              · cases h
              · rename_i o1 rest1 htb
                obtain ⟨d, hd, hsd⟩ := takeBytes_loc _ _ _ _ _ htb
                obtain ⟨p3, hp3, hs3⟩ := hnext _ _ h
                have hrest' : r2.rest = l0 :: l1 :: n0 :: n1 :: rest := hrest
                have hp3' : rest1 = p3 ++ r'.rest := hp3
                refine ⟨p1 ++ (p2 ++ (l0 :: l1 :: n0 :: n1 :: (d ++ p3))),
                  by rw [hp1, hp2, hrest', hd, hp3']; simp only [List.append_assoc, List.cons_append],
                  fun s fuel' hf => ?_⟩
                simp only [List.append_assoc, List.cons_append] at hf ⊢
                have h1 := bits_bl (hs1 (p2 ++ (l0 :: l1 :: n0 :: n1 :: (d ++ (p3 ++ s)))))
                have h2 := bits_bl (hs2 (l0 :: l1 :: n0 :: n1 :: (d ++ (p3 ++ s))))
                obtain ⟨f', rfl⟩ : ∃ f', fuel' = f' + 1 := ⟨fuel' - 1, by omega⟩
                unfold blocks
                rw [hs1]; dsimp only
                rw [hs2]; dsimp only [BitRd.align]
                rw [if_pos htyp0, if_neg hlen, hsd]; dsimp only
                refine hs3 s f' ?_
                simp only [bl_mk, List.length_cons, List.length_append] at h1 h2 hf ⊢
                omega
          · cases h
        · rename_i htyp0
          split at h
          · -- fixed
            rename_i htyp1
            split at h
            · rename_i o1 ra hcd
              obtain ⟨p3, hp3, hs3⟩ := codes_loc _ _ _ _ _ _ _ hcd
              obtain ⟨p4, hp4, hs4⟩ := hnext _ _ h
              refine ⟨p1 ++ (p2 ++ (p3 ++ p4)), by rw [hp1, hp2, hp3, hp4]; simp only [List.append_assoc],
                fun s fuel' hf => ?_⟩
              simp only [List.append_assoc] at hf ⊢
              have h1 := bits_bl (hs1 (p2 ++ (p3 ++ (p4 ++ s))))
              have h2 := bits_bl (hs2 (p3 ++ (p4 ++ s)))
              obtain ⟨f', rfl⟩ : ∃ f', fuel' = f' + 1 := ⟨fuel' - 1, by omega⟩
              have h3 := hs3 (p4 ++ s) f' (by omega)
              have h3b := (codes_bl fixedLit fixedDist f' out _).2 _ _ h3
              unfold blocks
              rw [hs1]; dsimp only
              rw [hs2]; dsimp only
              rw [if_neg htyp0, if_pos htyp1, h3]; dsimp only
              exact hs4 s f' (by omega)
            · cases h
            · cases h
            · cases h
          · rename_i htyp1
            split at h
            · -- dynamic
              rename_i htyp2
              split at h
              · cases h
              · cases h
              · rename_i lit dist r3 hdt
                obtain ⟨p3, hp3, hs3⟩ := dynamicTables_loc hdt
                split at h
                · rename_i o1 ra hcd
                  obtain ⟨p4, hp4, hs4⟩ := codes_loc _ _ _ _ _ _ _ hcd
                  obtain ⟨p5, hp5, hs5⟩ := hnext _ _ h
                  refine ⟨p1 ++ (p2 ++ (p3 ++ (p4 ++ p5))),
                    by rw [hp1, hp2, hp3, hp4, hp5]; simp only [List.append_assoc], fun s fuel' hf => ?_⟩
                  simp only [List.append_assoc] at hf ⊢
                  have h1 := bits_bl (hs1 (p2 ++ (p3 ++ (p4 ++ (p5 ++ s)))))
                  have h2 := bits_bl (hs2 (p3 ++ (p4 ++ (p5 ++ s))))
                  have h3 := dynamicTables_bl (hs3 (p4 ++ (p5 ++ s)))
                  obtain ⟨f', rfl⟩ : ∃ f', fuel' = f' + 1 := ⟨fuel' - 1, by omega⟩
                  have h4 := hs4 (p5 ++ s) f' (by omega)
                  have h4b := (codes_bl lit dist f' out _).2 _ _ h4
                  unfold blocks
                  rw [hs1]; dsimp only
                  rw [hs2]; dsimp only
                  rw [if_neg htyp0, if_neg htyp1, if_pos htyp2, hs3]; dsimp only
                  rw [h4]; dsimp only
                  exact hs5 s f' (by omega)
                · cases h
                · cases h
                · cases h
            · cases h

end Parsley.C06.Prefix
