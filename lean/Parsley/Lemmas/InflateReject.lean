/-
  C06, FlateDecode, the rejection side: the executable inflate model turns every damaged
  stored-block zlib stream of the kinds below into `err transform` (never `ok`, never the
  out-of-fuel panic), for all payloads and all partitions into parts of at most 65535 bytes:
   R1  every proper prefix (truncation anywhere);
   R2  every alteration of the Adler-32 trailer;
   R3  every LEN / NLEN field that is not a pair of complements, in any block, and hence every
       alteration of a single LEN / NLEN byte;
   R4  every alteration of CMF, of the FCHECK bits, and of FLG as a whole (three FLG values keep
       the stream valid: only the informational FLEVEL differs; they are accepted).
  All statements are about `Inflate.inflate`; the glue (`flateDecode_err`) lifts them.
-/
import Parsley.Model.Inflate
import Parsley.Spec.Filters
import Parsley.Lemmas.FiltersInflate
namespace Parsley.C06
open Parsley Parsley.FiltersSpec

namespace InflRej

theorem forall_u8 (P : UInt8 → Prop) (h : ∀ n : Fin 256, P (UInt8.ofNat n.val)) : ∀ b, P b := by
  intro b
  have := h ⟨b.toNat, b.toNat_lt⟩
  simpa using this

/-- the four header tests of `Inflate.inflate`, as one Boolean -/
def hdrOk (cmf flg : UInt8) : Bool :=
  (cmf.toNat * 256 + flg.toNat) % 31 == 0 && cmf.toNat % 16 == 8 && !(cmf.toNat / 16 > 7)
    && !(flg.toNat / 32 % 2 == 1)

/-- what `Inflate.inflate` does with the outcome of the block loop -/
def finish : Inflate.RawEnd → Res Bytes
  | .done out r =>
    match r.align.rest with
    | a :: b :: c :: d :: _ =>
      if ((a.toNat * 256 + b.toNat) * 256 + c.toNat) * 256 + d.toNat == Inflate.adler32 out.toList
      then .ok out.toList else .err .transform
    | _ => .err .transform
  | .bad => .err .transform
  | .short => .err .transform
  | .fuel => .panic "inflate: out of fuel"

theorem inflate_hdr_bad (cmf flg : UInt8) (rest : Bytes) (h : hdrOk cmf flg = false) :
    Inflate.inflate (cmf :: flg :: rest) = .err .transform := by
  rw [Inflate.inflate]
  simp only [hdrOk] at h
  split
  · rfl
  · split
    · rfl
    · split
      · rfl
      · split
        · rfl
        · simp_all

theorem inflate_hdr_ok (cmf flg : UInt8) (rest : Bytes) (h : hdrOk cmf flg = true) :
    Inflate.inflate (cmf :: flg :: rest) =
      finish (Inflate.blocks (8 * rest.length + 8) (Array.mkEmpty (4 * rest.length)) ⟨rest, 0, 0⟩) := by
  rw [Inflate.inflate]
  simp only [hdrOk, Bool.and_eq_true, Bool.not_eq_true', beq_iff_eq, decide_eq_false_iff_not] at h
  obtain ⟨⟨⟨h1, h2⟩, h3⟩, h4⟩ := h
  simp only [h1, h2, h3, h4, bne_self_eq_false, Bool.false_eq_true, if_false]
  generalize Inflate.blocks _ _ _ = e
  cases e with
  | done out r =>
    simp only [finish]
    split <;> rename_i hr <;> simp [hr]
  | bad => rfl
  | short => rfl
  | fuel => rfl


/-! ### `finish` on the outcomes that occur below -/

theorem finish_done_short (out : Array UInt8) (tl : Bytes) (h : tl.length < 4) :
    finish (.done out ⟨tl, 0, 0⟩) = .err .transform := by
  rcases tl with _ | ⟨a, _ | ⟨b, _ | ⟨c, _ | ⟨d, t⟩⟩⟩⟩
  · rfl
  · rfl
  · rfl
  · rfl
  · simp at h; omega

theorem finish_done_adler (out : Array UInt8) (a b c d : UInt8) (tl : Bytes) :
    finish (.done out ⟨a :: b :: c :: d :: tl, 0, 0⟩) =
      if ((a.toNat * 256 + b.toNat) * 256 + c.toNat) * 256 + d.toNat = FiltersSpec.adler32 out.toList
      then .ok out.toList else .err .transform := by
  simp [finish, Inflate.BitRd.align, adler_model_eq_spec]

/-! ### `takeBytes` on too short an input -/

theorem takeBytes_none (n : Nat) (l : Bytes) (out : Array UInt8) (h : l.length < n) :
    Inflate.takeBytes n l out = none := by
  induction n generalizing l out with
  | zero => omega
  | succ k ih =>
    cases l with
    | nil => simp [Inflate.takeBytes]
    | cons x t =>
      simp only [Inflate.takeBytes]
      exact ih t _ (by simpa using h)

/-! ### one stored-block header, all the ways it can go wrong -/

theorem blocks_nil (fuel : Nat) (out : Array UInt8) :
    Inflate.blocks (fuel + 1) out ⟨[], 0, 0⟩ = .short := by
  rw [Inflate.blocks]
  simp [Inflate.BitRd.bits, Inflate.bitsAux]

theorem blocks_hdr_short (fuel : Nat) (out : Array UInt8) (b : UInt8) (hb : b = 0 ∨ b = 1)
    (tl : Bytes) (h : tl.length < 4) :
    Inflate.blocks (fuel + 1) out ⟨b :: tl, 0, 0⟩ = .short := by
  rcases tl with _ | ⟨x, _ | ⟨y, _ | ⟨z, _ | ⟨w, t⟩⟩⟩⟩
  · rcases hb with rfl | rfl <;> rw [Inflate.blocks] <;>
      simp [Inflate.BitRd.bits, Inflate.bitsAux, Inflate.BitRd.align]
  · rcases hb with rfl | rfl <;> rw [Inflate.blocks] <;>
      simp [Inflate.BitRd.bits, Inflate.bitsAux, Inflate.BitRd.align]
  · rcases hb with rfl | rfl <;> rw [Inflate.blocks] <;>
      simp [Inflate.BitRd.bits, Inflate.bitsAux, Inflate.BitRd.align]
  · rcases hb with rfl | rfl <;> rw [Inflate.blocks] <;>
      simp [Inflate.BitRd.bits, Inflate.bitsAux, Inflate.BitRd.align]
  · simp at h; omega

theorem blocks_data_short (fuel : Nat) (out : Array UInt8) (b : UInt8) (hb : b = 0 ∨ b = 1)
    (l0 l1 n0 n1 : UInt8) (rest : Bytes)
    (hlen : (l0.toNat + 256 * l1.toNat) + (n0.toNat + 256 * n1.toNat) = 65535)
    (htake : Inflate.takeBytes (l0.toNat + 256 * l1.toNat) rest out = none) :
    Inflate.blocks (fuel + 1) out ⟨b :: l0 :: l1 :: n0 :: n1 :: rest, 0, 0⟩ = .short := by
  rcases hb with rfl | rfl <;> rw [Inflate.blocks] <;>
    simp [Inflate.BitRd.bits, Inflate.bitsAux, Inflate.BitRd.align, hlen, htake]

theorem blocks_len_bad (fuel : Nat) (out : Array UInt8) (b : UInt8) (hb : b = 0 ∨ b = 1)
    (l0 l1 n0 n1 : UInt8) (rest : Bytes)
    (hlen : (l0.toNat + 256 * l1.toNat) + (n0.toNat + 256 * n1.toNat) ≠ 65535) :
    Inflate.blocks (fuel + 1) out ⟨b :: l0 :: l1 :: n0 :: n1 :: rest, 0, 0⟩ = .bad := by
  rcases hb with rfl | rfl <;> rw [Inflate.blocks] <;>
    simp [Inflate.BitRd.bits, Inflate.bitsAux, Inflate.BitRd.align, hlen]


/-! ### the block loop on a truncated stored-block stream -/

/-- every proper prefix of a stored-block stream makes the block loop run out of input; the
    fuel needed is bounded by the length of the prefix (each block takes at least five bytes) -/
theorem blocks_stored_short (parts : List Bytes) (h : ∀ p ∈ parts, p.length ≤ 65535) :
    ∀ (m : Nat), m < (storedBlocks parts).length → ∀ (fuel : Nat) (out : Array UInt8),
      m + 1 ≤ fuel → Inflate.blocks fuel out ⟨(storedBlocks parts).take m, 0, 0⟩ = .short := by
  induction parts with
  | nil =>
    intro m hm fuel out hf
    obtain ⟨f, rfl⟩ : ∃ f, fuel = f + 1 := ⟨fuel - 1, by omega⟩
    simp only [storedBlocks, List.length_cons, List.length_nil] at hm
    match m, hm with
    | 0, _ => exact blocks_nil f out
    | k + 1, hk =>
      simp only [storedBlocks, List.take_succ_cons]
      exact blocks_hdr_short f out 1 (Or.inr rfl) _ (by simp; omega)
  | cons p ps ih =>
    intro m hm fuel out hf
    obtain ⟨f, rfl⟩ : ∃ f, fuel = f + 1 := ⟨fuel - 1, by omega⟩
    have hp : p.length ≤ 65535 := h p (by simp)
    have ih' := ih (fun q hq => h q (by simp [hq]))
    simp only [storedBlocks, List.cons_append, List.nil_append, List.length_cons,
      List.length_append] at hm
    simp only [storedBlocks, List.cons_append, List.nil_append]
    match m, hm, hf with
    | 0, _, _ => exact blocks_nil f out
    | 1, _, _ => exact blocks_hdr_short f out 0 (Or.inl rfl) _ (by simp)
    | 2, _, _ => exact blocks_hdr_short f out 0 (Or.inl rfl) _ (by simp)
    | 3, _, _ => exact blocks_hdr_short f out 0 (Or.inl rfl) _ (by simp)
    | 4, _, _ => exact blocks_hdr_short f out 0 (Or.inl rfl) _ (by simp)
    | k + 5, hk, hf =>
      simp only [List.take_succ_cons]
      by_cases hkp : k < p.length
      · apply blocks_data_short f out 0 (Or.inl rfl)
        · rw [len_bytes _ hp, nlen_bytes _ hp]; omega
        · rw [len_bytes _ hp]
          apply takeBytes_none
          simp only [List.length_take, List.length_append]
          omega
      · have hk' : p.length ≤ k := by omega
        rw [List.take_append, List.take_of_length_le hk']
        obtain ⟨out1, ht1, _⟩ := takeBytes_append p ((storedBlocks ps).take (k - p.length)) out
        rw [blocks_stored_nonfinal f out out1 _ _ _ _ _ ((storedBlocks ps).take (k - p.length))]
        · exact ih' (k - p.length) (by omega) f out1 (by omega)
        · rw [len_bytes _ hp, nlen_bytes _ hp]; omega
        · rw [len_bytes _ hp]; exact ht1


/-! ### the big-endian trailer value determines its four bytes -/

theorem be32Bytes_of_val (a b c d : UInt8) :
    be32Bytes (((a.toNat * 256 + b.toNat) * 256 + c.toNat) * 256 + d.toNat) = [a, b, c, d] := by
  have ha := a.toNat_lt; have hb := b.toNat_lt; have hc := c.toNat_lt; have hd := d.toNat_lt
  simp only [be32Bytes, List.cons.injEq, and_true]
  refine ⟨?_, ?_, ?_, ?_⟩ <;> rw [← UInt8.toNat_inj, UInt8.toNat_ofNat'] <;> omega

theorem length_four (t : Bytes) (h : t.length = 4) : ∃ a b c d, t = [a, b, c, d] := by
  rcases t with _ | ⟨a, _ | ⟨b, _ | ⟨c, _ | ⟨d, _ | ⟨e, t⟩⟩⟩⟩⟩ <;> simp at h
  exact ⟨a, b, c, d, rfl⟩


/-! ### the non-final blocks of a stored-block stream -/

/-- the four LEN / NLEN bytes of a stored block of `n` data bytes -/
def lenHdr (n : Nat) : Bytes :=
  [UInt8.ofNat (n % 256), UInt8.ofNat (n / 256), UInt8.ofNat (255 - n % 256), UInt8.ofNat (255 - n / 256)]

/-- one non-final stored block per part, nothing else -/
def storedNonfinal : List Bytes → Bytes
  | [] => []
  | p :: ps => 0x00 :: lenHdr p.length ++ p ++ storedNonfinal ps

theorem storedBlocks_append (ps qs : List Bytes) :
    storedBlocks (ps ++ qs) = storedNonfinal ps ++ storedBlocks qs := by
  induction ps with
  | nil => rfl
  | cons p ps ih => simp [storedBlocks, storedNonfinal, lenHdr, ih]

theorem storedBlocks_eq_nonfinal (parts : List Bytes) :
    storedBlocks parts = storedNonfinal parts ++ 0x01 :: lenHdr 0 := by
  have := storedBlocks_append parts []
  simpa [storedBlocks, lenHdr] using this

theorem storedNonfinal_length (ps : List Bytes) : 5 * ps.length ≤ (storedNonfinal ps).length := by
  induction ps with
  | nil => simp [storedNonfinal]
  | cons p ps ih => simp [storedNonfinal, lenHdr]; omega

/-- the block loop consumes the non-final blocks, one unit of fuel each -/
theorem blocks_nonfinal (ps : List Bytes) (h : ∀ p ∈ ps, p.length ≤ 65535) (tail : Bytes) :
    ∀ (fuel : Nat) (out : Array UInt8),
      ∃ out', Inflate.blocks (ps.length + fuel) out ⟨storedNonfinal ps ++ tail, 0, 0⟩ =
          Inflate.blocks fuel out' ⟨tail, 0, 0⟩ ∧
        out'.toList = out.toList ++ ps.flatten := by
  induction ps with
  | nil => intro fuel out; exact ⟨out, by simp [storedNonfinal], by simp⟩
  | cons p ps ih =>
    intro fuel out
    have hp : p.length ≤ 65535 := h p (by simp)
    obtain ⟨out1, ht1, ho1⟩ := takeBytes_append p (storedNonfinal ps ++ tail) out
    obtain ⟨out2, hb2, ho2⟩ := ih (fun q hq => h q (by simp [hq])) fuel out1
    refine ⟨out2, ?_, by simp [ho2, ho1]⟩
    have hf : (p :: ps).length + fuel = (ps.length + fuel) + 1 := by simp; omega
    simp only [storedNonfinal, lenHdr, List.cons_append, List.nil_append, List.append_assoc]
    rw [hf, blocks_stored_nonfinal (ps.length + fuel) out out1 _ _ _ _ _ (storedNonfinal ps ++ tail)]
    · exact hb2
    · rw [len_bytes _ hp, nlen_bytes _ hp]; omega
    · rw [len_bytes _ hp]; exact ht1

/-! ### one altered byte breaks `LEN + NLEN = 65535` -/

theorem len_sum_set (l0 l1 n0 n1 : UInt8)
    (h : l0.toNat + 256 * l1.toNat + (n0.toNat + 256 * n1.toNat) = 65535)
    (i : Nat) (hi : i < 4) (v : UInt8) (hv : v ≠ [l0, l1, n0, n1][i]) :
    ∃ l0' l1' n0' n1', [l0, l1, n0, n1].set i v = [l0', l1', n0', n1'] ∧
      l0'.toNat + 256 * l1'.toNat + (n0'.toNat + 256 * n1'.toNat) ≠ 65535 := by
  have hv' : v.toNat ≠ ([l0, l1, n0, n1][i]).toNat := fun e => hv (UInt8.toNat_inj.mp e)
  match i, hi with
  | 0, _ => exact ⟨v, l1, n0, n1, rfl, by simp at hv'; omega⟩
  | 1, _ => exact ⟨l0, v, n0, n1, rfl, by simp at hv'; omega⟩
  | 2, _ => exact ⟨l0, l1, v, n1, rfl, by simp at hv'; omega⟩
  | 3, _ => exact ⟨l0, l1, n0, v, rfl, by simp at hv'; omega⟩


theorem set_mid (A H R : Bytes) (i : Nat) (v : UInt8) (hi : i < H.length) :
    (A ++ H ++ R).set (A.length + i) v = A ++ H.set i v ++ R := by
  rw [List.append_assoc, List.set_append, if_neg (by omega), List.set_append, if_pos (by omega),
    List.append_assoc]
  congr 3
  omega

theorem lenHdr_sum (n : Nat) (h : n ≤ 65535) : ∃ l0 l1 n0 n1, lenHdr n = [l0, l1, n0, n1] ∧
    l0.toNat + 256 * l1.toNat + (n0.toNat + 256 * n1.toNat) = 65535 := by
  refine ⟨_, _, _, _, rfl, ?_⟩
  rw [len_bytes _ h, nlen_bytes _ h]; omega

end InflRej
open InflRej

/-! ## R1: truncation -/

/-- **every proper prefix of a stored-block zlib stream is rejected** (never accepted, never a
    fuel panic): cut in the header, inside a block header, inside block data, between blocks or
    inside the Adler-32 trailer -/
theorem inflate_stored_truncated (parts : List Bytes) (h : ∀ p ∈ parts, p.length ≤ 65535)
    (n : Nat) (hn : n < (zlibStored parts).length) :
    Inflate.inflate ((zlibStored parts).take n) = .err .transform := by
  have hz : zlibStored parts =
      0x78 :: 0x01 :: (storedBlocks parts ++ be32Bytes (adler32 parts.flatten)) := by
    simp [zlibStored]
  rw [hz] at hn ⊢
  match n, hn with
  | 0, _ => rfl
  | 1, _ => rfl
  | k + 2, hk =>
    simp only [List.take_succ_cons]
    rw [inflate_hdr_ok _ _ _ (by decide)]
    simp only [List.length_cons, List.length_append] at hk
    have hT : (be32Bytes (adler32 parts.flatten)).length = 4 := rfl
    by_cases hks : k < (storedBlocks parts).length
    · rw [List.take_append_of_le_length (Nat.le_of_lt hks)]
      rw [blocks_stored_short parts h k hks _ _ (by simp only [List.length_take]; omega)]
      rfl
    · have hks' : (storedBlocks parts).length ≤ k := by omega
      rw [List.take_append, List.take_of_length_le hks']
      have hlen := storedBlocks_length parts
      obtain ⟨out', hb, _⟩ := blocks_stored parts h
        ((be32Bytes (adler32 parts.flatten)).take (k - (storedBlocks parts).length))
        (8 * (storedBlocks parts ++
          (be32Bytes (adler32 parts.flatten)).take (k - (storedBlocks parts).length)).length + 8)
        (Array.mkEmpty (4 * (storedBlocks parts ++
          (be32Bytes (adler32 parts.flatten)).take (k - (storedBlocks parts).length)).length))
        (by simp only [List.length_append]; omega)
      rw [hb]
      exact finish_done_short _ _ (by simp only [List.length_take]; omega)

example : Inflate.inflate ((zlibStored [[1, 2, 3], [4]]).take 24) = .err .transform :=
  inflate_stored_truncated [[1, 2, 3], [4]] (by decide) 24 (by decide)

example : ∀ n : Fin 25, Inflate.inflate ((zlibStored [[1, 2, 3], [4]]).take n.val) = .err .transform := by
  decide

example : Inflate.inflate ((zlibStored [[1, 2, 3], [4]]).take 25) = .ok [1, 2, 3, 4] := by decide


/-! ## R2: the Adler-32 trailer -/

/-- **every alteration of the four trailer bytes is rejected**, whatever follows them -/
theorem inflate_stored_adler_altered (parts : List Bytes) (h : ∀ p ∈ parts, p.length ≤ 65535)
    (t : Bytes) (ht : t.length = 4) (hne : t ≠ be32Bytes (adler32 parts.flatten))
    (trailing : Bytes) :
    Inflate.inflate ([0x78, 0x01] ++ storedBlocks parts ++ t ++ trailing) = .err .transform := by
  obtain ⟨a, b, c, d, rfl⟩ := length_four t ht
  have hz : [0x78, 0x01] ++ storedBlocks parts ++ [a, b, c, d] ++ trailing =
      0x78 :: 0x01 :: (storedBlocks parts ++ (a :: b :: c :: d :: trailing)) := by simp
  rw [hz, inflate_hdr_ok _ _ _ (by decide)]
  have hlen := storedBlocks_length parts
  obtain ⟨out', hb, ho⟩ := blocks_stored parts h (a :: b :: c :: d :: trailing)
    (8 * (storedBlocks parts ++ (a :: b :: c :: d :: trailing)).length + 8)
    (Array.mkEmpty (4 * (storedBlocks parts ++ (a :: b :: c :: d :: trailing)).length))
    (by simp only [List.length_append]; omega)
  have ho' : out'.toList = parts.flatten := by simpa using ho
  rw [hb, finish_done_adler, ho']
  split
  · rename_i heq
    exact absurd (by rw [← heq, be32Bytes_of_val]) hne
  · rfl

example : Inflate.inflate ([0x78, 0x01] ++ storedBlocks [[1, 2, 3], [4]] ++ [0, 24, 0, 12] ++ [7])
    = .err .transform :=
  inflate_stored_adler_altered [[1, 2, 3], [4]] (by decide) [0, 24, 0, 12] rfl (by decide) [7]

/-- every alteration of a single trailer byte is rejected -/
theorem inflate_stored_adler_byte (parts : List Bytes) (h : ∀ p ∈ parts, p.length ≤ 65535)
    (i : Nat) (hi : i < 4) (v : UInt8)
    (hv : v ≠ (be32Bytes (adler32 parts.flatten))[i]'(by simpa [be32Bytes] using hi))
    (trailing : Bytes) :
    Inflate.inflate ([0x78, 0x01] ++ storedBlocks parts ++
      (be32Bytes (adler32 parts.flatten)).set i v ++ trailing) = .err .transform := by
  apply inflate_stored_adler_altered parts h _ (by simp [be32Bytes])
  intro heq
  apply hv
  have := congrArg (fun l => l[i]?) heq
  simp only [be32Bytes] at this ⊢
  match i, hi with
  | 0, _ => simpa using this
  | 1, _ => simpa using this
  | 2, _ => simpa using this
  | 3, _ => simpa using this

example : Inflate.inflate ([0x78, 0x01] ++ storedBlocks [[1, 2, 3], [4]] ++
    (be32Bytes (adler32 [[1, 2, 3], [4]].flatten)).set 3 12 ++ [7]) = .err .transform :=
  inflate_stored_adler_byte [[1, 2, 3], [4]] (by decide) 3 (by decide) 12 (by decide) [7]


/-- the same as a statement about the stream itself: overwrite one trailer byte -/
theorem inflate_stored_adler_byte_set (parts : List Bytes) (h : ∀ p ∈ parts, p.length ≤ 65535)
    (i : Nat) (hi : i < 4) (v : UInt8)
    (hv : v ≠ (be32Bytes (adler32 parts.flatten))[i]'(by simpa [be32Bytes] using hi))
    (trailing : Bytes) :
    Inflate.inflate ((zlibStored parts).set (2 + (storedBlocks parts).length + i) v ++ trailing)
      = .err .transform := by
  have hpos : 2 + (storedBlocks parts).length + i =
      ([0x78, 0x01] ++ storedBlocks parts).length + i := by simp; omega
  have hz : zlibStored parts =
      [0x78, 0x01] ++ storedBlocks parts ++ be32Bytes (adler32 parts.flatten) ++ [] := by
    simp [zlibStored]
  rw [hz, hpos, set_mid _ _ _ _ _ (by simpa [be32Bytes] using hi), List.append_nil]
  exact inflate_stored_adler_byte parts h i hi v hv trailing

example : Inflate.inflate ((zlibStored [[1, 2, 3], [4]]).set 21 1 ++ [7]) = .err .transform :=
  inflate_stored_adler_byte_set [[1, 2, 3], [4]] (by decide) 0 (by decide) 1 (by decide) [7]

/-! ## R3: the LEN / NLEN field of any block -/

/-- **a block header whose LEN and NLEN are not complements is rejected**, in whichever block
    (after any number of good non-final blocks) and whatever follows -/
theorem inflate_stored_len_altered (ps : List Bytes) (h : ∀ p ∈ ps, p.length ≤ 65535)
    (b l0 l1 n0 n1 : UInt8) (rest : Bytes) (hb : b = 0 ∨ b = 1)
    (hlen : l0.toNat + 256 * l1.toNat + (n0.toNat + 256 * n1.toNat) ≠ 65535) :
    Inflate.inflate ([0x78, 0x01] ++ storedNonfinal ps ++ b :: l0 :: l1 :: n0 :: n1 :: rest)
      = .err .transform := by
  have hz : [0x78, 0x01] ++ storedNonfinal ps ++ b :: l0 :: l1 :: n0 :: n1 :: rest =
      0x78 :: 0x01 :: (storedNonfinal ps ++ b :: l0 :: l1 :: n0 :: n1 :: rest) := by simp
  rw [hz, inflate_hdr_ok _ _ _ (by decide)]
  have hl := storedNonfinal_length ps
  obtain ⟨f, hf⟩ : ∃ f, 8 * (storedNonfinal ps ++ b :: l0 :: l1 :: n0 :: n1 :: rest).length + 8 =
      ps.length + (f + 1) :=
    ⟨8 * (storedNonfinal ps ++ b :: l0 :: l1 :: n0 :: n1 :: rest).length + 8 - ps.length - 1, by
      simp only [List.length_append, List.length_cons]; omega⟩
  rw [hf]
  obtain ⟨out', hb', _⟩ := blocks_nonfinal ps h (b :: l0 :: l1 :: n0 :: n1 :: rest) (f + 1)
    (Array.mkEmpty (4 * (storedNonfinal ps ++ b :: l0 :: l1 :: n0 :: n1 :: rest).length))
  rw [hb', blocks_len_bad f out' b hb l0 l1 n0 n1 rest hlen]
  rfl

example : Inflate.inflate ([0x78, 0x01] ++ storedNonfinal [[1, 2, 3]] ++
    0 :: 2 :: 0 :: 0xFE :: 0xFF :: [4, 1, 0, 0, 0xFF, 0xFF, 0, 24, 0, 11]) = .err .transform :=
  inflate_stored_len_altered [[1, 2, 3]] (by decide) 0 2 0 0xFE 0xFF _ (Or.inl rfl) (by decide)

/-- **every alteration of one of the four LEN / NLEN bytes of a block is rejected**: `b = 0`
    for a non-final block of `n` data bytes, `b = 1`, `n = 0` for the closing block -/
theorem inflate_stored_len_byte (ps : List Bytes) (h : ∀ p ∈ ps, p.length ≤ 65535)
    (b : UInt8) (hb : b = 0 ∨ b = 1) (n : Nat) (hn : n ≤ 65535)
    (i : Nat) (hi : i < 4) (v : UInt8) (hv : v ≠ (lenHdr n)[i]'(by simpa [lenHdr] using hi))
    (rest : Bytes) :
    Inflate.inflate ([0x78, 0x01] ++ storedNonfinal ps ++ b :: (lenHdr n).set i v ++ rest)
      = .err .transform := by
  obtain ⟨l0, l1, n0, n1, hH, hsum⟩ := lenHdr_sum n hn
  simp only [hH] at hv ⊢
  obtain ⟨l0', l1', n0', n1', hset, hne⟩ := len_sum_set l0 l1 n0 n1 hsum i hi v hv
  rw [hset]
  have := inflate_stored_len_altered ps h b l0' l1' n0' n1' rest hb hne
  simpa using this

example : Inflate.inflate ([0x78, 0x01] ++ storedNonfinal [[1, 2, 3]] ++
    0 :: (lenHdr 1).set 1 7 ++ [4, 1, 0, 0, 0xFF, 0xFF, 0, 24, 0, 11]) = .err .transform :=
  inflate_stored_len_byte [[1, 2, 3]] (by decide) 0 (Or.inl rfl) 1 (by decide) 1 (by decide) 7
    (by decide) _

/-- where the LEN / NLEN bytes of the block of part `p` sit in the stream -/
theorem zlibStored_split (ps qs : List Bytes) (p : Bytes) :
    zlibStored (ps ++ p :: qs) =
      ([0x78, 0x01] ++ storedNonfinal ps ++ [0x00]) ++ lenHdr p.length ++
        (p ++ storedBlocks qs ++ be32Bytes (adler32 (ps ++ p :: qs).flatten)) := by
  simp [zlibStored, storedBlocks_append, storedBlocks, lenHdr]

/-- where the LEN / NLEN bytes of the closing block sit in the stream -/
theorem zlibStored_split_final (parts : List Bytes) :
    zlibStored parts =
      ([0x78, 0x01] ++ storedNonfinal parts ++ [0x01]) ++ lenHdr 0 ++
        be32Bytes (adler32 parts.flatten) := by
  simp [zlibStored, storedBlocks_eq_nonfinal]

/-- the same as a statement about the stream itself: overwrite one LEN / NLEN byte of the block
    that carries part `p` with any other value -/
theorem inflate_stored_len_byte_set (ps qs : List Bytes) (p : Bytes)
    (h : ∀ q ∈ ps ++ p :: qs, q.length ≤ 65535)
    (i : Nat) (hi : i < 4) (v : UInt8)
    (hv : v ≠ (lenHdr p.length)[i]'(by simpa [lenHdr] using hi)) (trailing : Bytes) :
    Inflate.inflate ((zlibStored (ps ++ p :: qs)).set (2 + (storedNonfinal ps).length + 1 + i) v
      ++ trailing) = .err .transform := by
  have hpos : 2 + (storedNonfinal ps).length + 1 + i =
      ([0x78, 0x01] ++ storedNonfinal ps ++ [0x00]).length + i := by simp; omega
  rw [zlibStored_split, hpos, set_mid _ _ _ _ _ (by simpa [lenHdr] using hi)]
  have := inflate_stored_len_byte ps (fun q hq => h q (by simp [hq])) 0 (Or.inl rfl) p.length
    (h p (by simp)) i hi v hv
    (p ++ storedBlocks qs ++ be32Bytes (adler32 (ps ++ p :: qs).flatten) ++ trailing)
  simpa using this

example : Inflate.inflate ((zlibStored [[1, 2, 3], [4]]).set 13 0xFF ++ [9]) = .err .transform :=
  inflate_stored_len_byte_set [[1, 2, 3]] [] [4] (by decide) 2 (by decide) 0xFF (by decide) [9]

/-- ... and of the closing block -/
theorem inflate_stored_len_byte_set_final (parts : List Bytes) (h : ∀ p ∈ parts, p.length ≤ 65535)
    (i : Nat) (hi : i < 4) (v : UInt8)
    (hv : v ≠ (lenHdr 0)[i]'(by simpa [lenHdr] using hi)) (trailing : Bytes) :
    Inflate.inflate ((zlibStored parts).set (2 + (storedNonfinal parts).length + 1 + i) v
      ++ trailing) = .err .transform := by
  have hpos : 2 + (storedNonfinal parts).length + 1 + i =
      ([0x78, 0x01] ++ storedNonfinal parts ++ [0x01]).length + i := by simp; omega
  rw [zlibStored_split_final, hpos, set_mid _ _ _ _ _ (by simpa [lenHdr] using hi)]
  have := inflate_stored_len_byte parts h 1 (Or.inr rfl) 0 (by decide) i hi v hv
    (be32Bytes (adler32 parts.flatten) ++ trailing)
  simpa using this

example : Inflate.inflate ((zlibStored [[1, 2, 3], [4]]).set 19 0xFE ++ []) = .err .transform :=
  inflate_stored_len_byte_set_final [[1, 2, 3], [4]] (by decide) 2 (by decide) 0xFE (by decide) []


/-! ## R4: the two zlib header bytes -/

/-- the round trip for any header that passes the four tests (`inflate_stored_roundtrip` is the
    instance `0x78 0x01`) -/
theorem inflate_stored_roundtrip_hdr (cmf flg : UInt8) (hh : hdrOk cmf flg = true)
    (parts : List Bytes) (h : ∀ p ∈ parts, p.length ≤ 65535) (trailing : Bytes) :
    Inflate.inflate (cmf :: flg :: storedBlocks parts ++ be32Bytes (adler32 parts.flatten) ++ trailing)
      = .ok parts.flatten := by
  have hz : cmf :: flg :: storedBlocks parts ++ be32Bytes (adler32 parts.flatten) ++ trailing =
      cmf :: flg :: (storedBlocks parts ++ (be32Bytes (adler32 parts.flatten) ++ trailing)) := by
    simp
  rw [hz, inflate_hdr_ok _ _ _ hh]
  have hlen := storedBlocks_length parts
  obtain ⟨out', hb, ho⟩ := blocks_stored parts h (be32Bytes (adler32 parts.flatten) ++ trailing)
    (8 * (storedBlocks parts ++ (be32Bytes (adler32 parts.flatten) ++ trailing)).length + 8)
    (Array.mkEmpty (4 * (storedBlocks parts ++ (be32Bytes (adler32 parts.flatten) ++ trailing)).length))
    (by simp only [List.length_append]; omega)
  have ho' : out'.toList = parts.flatten := by simpa using ho
  have hlt := adler32_lt parts.flatten
  rw [hb]
  simp only [be32Bytes, List.cons_append, List.nil_append, finish_done_adler, ho']
  rw [if_pos (be32_roundtrip _ hlt)]

example : Inflate.inflate (0x48 :: 0x0D :: storedBlocks [[1, 2, 3], [4]] ++
    be32Bytes (adler32 [[1, 2, 3], [4]].flatten) ++ [7]) = .ok [1, 2, 3, 4] :=
  inflate_stored_roundtrip_hdr 0x48 0x0D (by decide) [[1, 2, 3], [4]] (by decide) [7]

/-- (a) **every alteration of the five FCHECK bits is rejected** -/
theorem inflate_header_fcheck_altered (v : UInt8) (hlt : v.toNat < 32) (hne : v ≠ 0x01)
    (rest : Bytes) : Inflate.inflate (0x78 :: v :: rest) = .err .transform := by
  apply inflate_hdr_bad
  revert v
  apply forall_u8
  decide +kernel

example : Inflate.inflate (0x78 :: 0x02 :: (storedBlocks [[1, 2, 3], [4]] ++ [0, 24, 0, 11]))
    = .err .transform := inflate_header_fcheck_altered 0x02 (by decide) (by decide) _

/-- (b) **every alteration of CMF is rejected** (failed check, method not 8, or window too large) -/
theorem inflate_header_cmf_altered (c : UInt8) (hne : c ≠ 0x78) (rest : Bytes) :
    Inflate.inflate (c :: 0x01 :: rest) = .err .transform := by
  apply inflate_hdr_bad
  revert c
  apply forall_u8
  decide +kernel

example : Inflate.inflate (0x58 :: 0x01 :: (storedBlocks [[1, 2, 3], [4]] ++ [0, 24, 0, 11]))
    = .err .transform := inflate_header_cmf_altered 0x58 (by decide) _

theorem hdrOk_flg (v : UInt8) :
    hdrOk 0x78 v = (v == 0x01 || v == 0x5E || v == 0x9C || v == 0xDA) := by
  revert v
  apply forall_u8
  decide +kernel

/-- (c) **every alteration of FLG**: the three values that keep the check valid with FDICT clear
    (`0x5E`, `0x9C`, `0xDA`: only the informational FLEVEL differs) are accepted with the same
    payload; every other value is rejected (failed check, or FDICT set: `0x20`, `0x3F`, `0x7D`,
    `0xBB`, `0xF9`) -/
theorem inflate_header_flg_altered (v : UInt8) (hne : v ≠ 0x01) :
    ((v = 0x5E ∨ v = 0x9C ∨ v = 0xDA) →
      ∀ (parts : List Bytes), (∀ p ∈ parts, p.length ≤ 65535) → ∀ (trailing : Bytes),
        Inflate.inflate (0x78 :: v :: storedBlocks parts ++ be32Bytes (adler32 parts.flatten)
          ++ trailing) = .ok parts.flatten) ∧
    (¬(v = 0x5E ∨ v = 0x9C ∨ v = 0xDA) →
      ∀ (rest : Bytes), Inflate.inflate (0x78 :: v :: rest) = .err .transform) := by
  have hk := hdrOk_flg v
  constructor
  · intro hv parts h trailing
    apply inflate_stored_roundtrip_hdr _ _ _ parts h
    rw [hk]
    rcases hv with rfl | rfl | rfl <;> rfl
  · intro hv rest
    apply inflate_hdr_bad
    rw [hk]
    simp only [not_or] at hv
    simp [hne, hv.1, hv.2.1, hv.2.2]

example : Inflate.inflate (0x78 :: 0x9C :: storedBlocks [[1, 2, 3], [4]] ++
    be32Bytes (adler32 [[1, 2, 3], [4]].flatten) ++ [7]) = .ok [1, 2, 3, 4] :=
  (inflate_header_flg_altered 0x9C (by decide)).1 (Or.inr (Or.inl rfl)) [[1, 2, 3], [4]] (by decide) [7]

example : Inflate.inflate (0x78 :: 0x20 :: storedBlocks [[1, 2, 3], [4]] ++ [0, 24, 0, 11])
    = .err .transform :=
  (inflate_header_flg_altered 0x20 (by decide)).2 (by decide) _

/-- R4 in one statement: what happens to `0x78 0x01 …` when one of the two header bytes is
    replaced by any other value -/
theorem inflate_header_altered :
    (∀ v : UInt8, v.toNat < 32 → v ≠ 0x01 → ∀ rest : Bytes,
      Inflate.inflate (0x78 :: v :: rest) = .err .transform) ∧
    (∀ c : UInt8, c ≠ 0x78 → ∀ rest : Bytes,
      Inflate.inflate (c :: 0x01 :: rest) = .err .transform) ∧
    (∀ v : UInt8, v ≠ 0x01 →
      ((v = 0x5E ∨ v = 0x9C ∨ v = 0xDA) →
        ∀ (parts : List Bytes), (∀ p ∈ parts, p.length ≤ 65535) → ∀ (trailing : Bytes),
          Inflate.inflate (0x78 :: v :: storedBlocks parts ++ be32Bytes (adler32 parts.flatten)
            ++ trailing) = .ok parts.flatten) ∧
      (¬(v = 0x5E ∨ v = 0x9C ∨ v = 0xDA) →
        ∀ (rest : Bytes), Inflate.inflate (0x78 :: v :: rest) = .err .transform)) :=
  ⟨inflate_header_fcheck_altered, inflate_header_cmf_altered, inflate_header_flg_altered⟩

example : Inflate.inflate (0x78 :: 0xDA :: storedBlocks [[1, 2, 3], [4]] ++
    be32Bytes (adler32 [[1, 2, 3], [4]].flatten) ++ []) = .ok [1, 2, 3, 4] :=
  (inflate_header_altered.2.2 0xDA (by decide)).1 (Or.inr (Or.inr rfl)) [[1, 2, 3], [4]]
    (by decide) []

example : ∀ v : Fin 256, v.val ≠ 1 → v.val ≠ 0x5E → v.val ≠ 0x9C → v.val ≠ 0xDA →
    Inflate.inflate (0x78 :: UInt8.ofNat v.val :: (zlibStored [[1, 2, 3], [4]]).drop 2)
      = .err .transform := by
  decide +kernel

end Parsley.C06
