/-
  Lemmas about the /Prev loop of `get_xref_info` (Model/Loader.lean: `xrefLoop`, `getXrefInfo`,
  `addEnts`; Rust: src/pdf_lib/pdf_traverse_xref.rs 302-372).

    prev_revisit_or_oob_rejected, prev_chain_step_rejected   revisited / out-of-range offsets reject
    addEnts_prefix, addEnts_mem, addEnts_keys                 the per-section merge
    merge_first_wins, stable_gen_first_per_number             first seen wins, per key / per number
    root_from_newest                                          the root is that of the first section read
    xrefLoop_fuel_stable, getXrefInfo_fuel_stable,
    xrefLoop_panic_origin, getXrefInfo_panic_origin           the fuel branch is never taken (unconditional forms)
    xrefLoop_fuel_invariant, xrefLoop_fuel_sufficient         same, as "not the fuel panic"; needs that the
                                                              component parsers do not use the loop's site string
    Chain, xrefLoop_merges_chain, chain_length_bounded,
    getXrefInfo_merges_chain                                  the loop = merge of the visited chain
-/
import Parsley.Model.Loader
namespace Parsley.LoaderChain
open Parsley Parsley.Prim Parsley.Obj Parsley.Indirect Parsley.Loader

def firstInfo (st : St) (s : Bytes) (next : Nat) : XStep :=
  match parseXrefSection st s next with
  | (.ok none, c1, st1) => parseXrefStream st1 s c1
  | x => x

def rootOf (root rt : Option Obj) : Option Obj :=
  match root with
  | some r => some r
  | none => rt

def stepK (f : Nat) (s : Bytes) (next : Nat) (cs : List Nat) (ids : List (Nat × Nat))
    (xs : List Xref.Ent) (root : Option Obj) : XStep → Out (List Xref.Ent × Obj) × St
  | (.panic p, _, st2) => (.panic p, st2)
  | (.reject, _, st2) => (.reject, st2)
  | (.ok none, _, st2) => (.reject, st2)
  | (.ok (some (ents, rt, prev)), _, st2) =>
    match rootOf root rt with
    | none => (.reject, st2)
    | some r =>
      match prev with
      | none => (.ok ((addEnts ents ids xs).2, r), st2)
      | some p => xrefLoop f st2 s p (next :: cs) (addEnts ents ids xs).1 (addEnts ents ids xs).2 (some r)

theorem xrefLoop_succ (f : Nat) (st : St) (s : Bytes) (next : Nat) (cs : List Nat)
    (ids : List (Nat × Nat)) (xs : List Xref.Ent) (root : Option Obj) :
    xrefLoop (f + 1) st s next cs ids xs root =
      if cs.contains next then (.reject, st)
      else if !(next < s.length) then (.reject, st)
      else stepK f s next cs ids xs root (firstInfo st s next) := by
  simp only [xrefLoop, firstInfo]
  split
  · rfl
  split
  · rfl
  rcases h : parseXrefSection st s next with ⟨o, c1, st1⟩
  cases o with
  | panic p => simp only [stepK]
  | reject => simp only [stepK]
  | ok x1 =>
    cases x1 with
    | some i =>
      obtain ⟨ents, rt, prev⟩ := i
      simp only [stepK, rootOf]
      cases root <;> cases rt <;> cases prev <;> simp
    | none =>
      simp only []
      rcases h2 : parseXrefStream st1 s c1 with ⟨o2, c2, st2⟩
      cases o2 with
      | panic p => simp only [stepK]
      | reject => simp only [stepK]
      | ok x2 =>
        cases x2 with
        | none => simp only [stepK]
        | some i =>
          obtain ⟨ents, rt, prev⟩ := i
          simp only [stepK, rootOf]
          cases root <;> cases rt <;> cases prev <;> simp

theorem prev_revisit_or_oob_rejected (f : Nat) (st : St) (s : Bytes) (next : Nat) (cs : List Nat)
    (ids : List (Nat × Nat)) (xs : List Xref.Ent) (root : Option Obj)
    (h : cs.contains next = true ∨ ¬ next < s.length) :
    ∃ st', xrefLoop (f + 1) st s next cs ids xs root = (.reject, st') := by
  refine ⟨st, ?_⟩
  rw [xrefLoop_succ]
  rcases h with h | h
  · rw [if_pos h]
  · by_cases hc : cs.contains next = true
    · rw [if_pos hc]
    · rw [if_neg hc, if_pos (by simp [h])]

theorem xrefLoop_succ_of {f : Nat} {st : St} {s : Bytes} {next : Nat} {cs : List Nat}
    (ids : List (Nat × Nat)) (xs : List Xref.Ent) (root : Option Obj)
    (hc : ¬ cs.contains next = true) (hn : next < s.length) :
    xrefLoop (f + 1) st s next cs ids xs root = stepK f s next cs ids xs root (firstInfo st s next) := by
  rw [xrefLoop_succ, if_neg hc, if_neg (by simp [hn])]

theorem firstInfo_of_section {st : St} {s : Bytes} {next : Nat} {i : SectInfo} {c1 : Nat} {st1 : St}
    (h : parseXrefSection st s next = (.ok (some i), c1, st1)) :
    firstInfo st s next = (.ok (some i), c1, st1) := by
  simp only [firstInfo, h]

theorem prev_chain_step_rejected (f : Nat) (st : St) (s : Bytes) (next : Nat) (cs : List Nat)
    (ids : List (Nat × Nat)) (xs : List Xref.Ent) (root : Option Obj)
    (ents : List Xref.Ent) (rt : Option Obj) (p c1 : Nat) (st1 : St)
    (hc : ¬ cs.contains next = true) (hn : next < s.length)
    (hsec : parseXrefSection st s next = (.ok (some (ents, rt, some p)), c1, st1))
    (hroot : root ≠ none ∨ rt ≠ none)
    (hp : p = next ∨ cs.contains p = true ∨ ¬ p < s.length) :
    ∃ st', xrefLoop (f + 2) st s next cs ids xs root = (.reject, st') := by
  rw [xrefLoop_succ_of ids xs root hc hn, firstInfo_of_section hsec]
  simp only [stepK]
  have hr : ∃ r, rootOf root rt = some r := by
    cases root with
    | some r => exact ⟨r, rfl⟩
    | none =>
      cases rt with
      | some r => exact ⟨r, rfl⟩
      | none => simp at hroot
  obtain ⟨r, hr⟩ := hr
  rw [hr]
  simp only []
  apply prev_revisit_or_oob_rejected
  rcases hp with hp | hp | hp
  · left; simp [hp]
  · left; rw [List.contains_iff_mem] at hp ⊢; exact List.mem_cons_of_mem _ hp
  · right; exact hp

/-- inversion of a successful iteration -/
theorem xrefLoop_ok_inv {f : Nat} {st : St} {s : Bytes} {next : Nat} {cs : List Nat}
    {ids : List (Nat × Nat)} {xs : List Xref.Ent} {root : Option Obj}
    {X : List Xref.Ent} {r : Obj} {st' : St}
    (h : xrefLoop (f + 1) st s next cs ids xs root = (.ok (X, r), st')) :
    ¬ cs.contains next = true ∧ next < s.length ∧
    ∃ ents rt prev c st2 r0, firstInfo st s next = (.ok (some (ents, rt, prev)), c, st2) ∧
      rootOf root rt = some r0 ∧
      ((prev = none ∧ X = (addEnts ents ids xs).2 ∧ r = r0 ∧ st' = st2) ∨
       (∃ p, prev = some p ∧
          xrefLoop f st2 s p (next :: cs) (addEnts ents ids xs).1 (addEnts ents ids xs).2 (some r0)
            = (.ok (X, r), st'))) := by
  rw [xrefLoop_succ] at h
  by_cases hc : cs.contains next = true
  · rw [if_pos hc] at h; cases h
  rw [if_neg hc] at h
  by_cases hn : ¬ next < s.length
  · rw [if_pos (by simp [hn])] at h; cases h
  replace hn : next < s.length := by omega
  rw [if_neg (by simp [hn])] at h
  refine ⟨hc, hn, ?_⟩
  rcases hfi : firstInfo st s next with ⟨o, c, st2⟩
  rw [hfi] at h
  cases o with
  | panic p => simp only [stepK] at h; cases h
  | reject => simp only [stepK] at h; cases h
  | ok x =>
    cases x with
    | none => simp only [stepK] at h; cases h
    | some i =>
      obtain ⟨ents, rt, prev⟩ := i
      simp only [stepK] at h
      cases hr : rootOf root rt with
      | none => rw [hr] at h; cases h
      | some r0 =>
        rw [hr] at h
        refine ⟨ents, rt, prev, c, st2, r0, rfl, hr, ?_⟩
        cases prev with
        | none =>
          left
          simp only [Prod.mk.injEq, Out.ok.injEq] at h
          obtain ⟨⟨h1, h2⟩, h3⟩ := h
          exact ⟨rfl, h1.symm, h2.symm, h3.symm⟩
        | some p => right; exact ⟨p, rfl, h⟩

/-! ## the merge -/

def keyOf (e : Xref.Ent) : Nat × Nat := (e.obj, e.gen)

def mergeSecs (secs : List (List Xref.Ent)) (ids : List (Nat × Nat)) (xs : List Xref.Ent) :
    List (Nat × Nat) × List Xref.Ent :=
  secs.foldl (fun acc es => addEnts es acc.1 acc.2) (ids, xs)

/-- keep the first occurrence of every key not already in `ids` -/
def dedupKey : List Xref.Ent → List (Nat × Nat) → List Xref.Ent
  | [], _ => []
  | e :: t, ids => if ids.contains (keyOf e) then dedupKey t ids else e :: dedupKey t (keyOf e :: ids)

theorem addEnts_snd (es : List Xref.Ent) (ids : List (Nat × Nat)) (xs : List Xref.Ent) :
    (addEnts es ids xs).2 = xs ++ dedupKey es ids := by
  induction es generalizing ids xs with
  | nil => simp [addEnts, dedupKey]
  | cons e t ih =>
    by_cases h : ids.contains (e.obj, e.gen) = true
    · have h' : ids.contains (keyOf e) = true := h
      rw [addEnts, dedupKey, if_pos h, if_pos h']
      exact ih ids xs
    · have h' : ¬ ids.contains (keyOf e) = true := h
      rw [addEnts, dedupKey, if_neg h, if_neg h', ih]
      simp [keyOf]

theorem addEnts_fst_indep (es : List Xref.Ent) (ids : List (Nat × Nat)) (xs ys : List Xref.Ent) :
    (addEnts es ids xs).1 = (addEnts es ids ys).1 := by
  induction es generalizing ids xs ys with
  | nil => rfl
  | cons e t ih =>
    simp only [addEnts]
    split
    · exact ih ids xs ys
    · exact ih _ _ _

theorem addEnts_prefix (es : List Xref.Ent) (ids : List (Nat × Nat)) (xs : List Xref.Ent) :
    xs <+: (addEnts es ids xs).2 := ⟨dedupKey es ids, (addEnts_snd es ids xs).symm⟩

theorem mem_dedupKey (e : Xref.Ent) (es : List Xref.Ent) (ids : List (Nat × Nat)) :
    e ∈ dedupKey es ids ↔
      keyOf e ∉ ids ∧ es.find? (fun x => keyOf x == keyOf e) = some e := by
  induction es generalizing ids with
  | nil => simp [dedupKey]
  | cons a t ih =>
    by_cases hk : keyOf a = keyOf e
    · have hp : (fun x => keyOf x == keyOf e) a = true := by simp [hk]
      rw [List.find?_cons_of_pos (p := fun x => keyOf x == keyOf e) hp]
      by_cases ha : ids.contains (keyOf a) = true
      · rw [dedupKey, if_pos ha, ih]
        rw [List.contains_iff_mem, hk] at ha
        simp [ha]
      · rw [dedupKey, if_neg ha, List.mem_cons, ih]
        rw [List.contains_iff_mem, hk] at ha
        constructor
        · rintro (h | h)
          · subst h; exact ⟨ha, rfl⟩
          · exact absurd (List.mem_cons_self) (hk ▸ h.1)
        · rintro ⟨_, h⟩; left; simpa using h.symm
    · have hp : ¬ (fun x => keyOf x == keyOf e) a = true := by simp [hk]
      rw [List.find?_cons_of_neg (p := fun x => keyOf x == keyOf e) hp]
      by_cases ha : ids.contains (keyOf a) = true
      · rw [dedupKey, if_pos ha, ih]
      · rw [dedupKey, if_neg ha, List.mem_cons, ih]
        have hne : e ≠ a := fun h => hk (by rw [h])
        have hk' : keyOf e ≠ keyOf a := fun h => hk h.symm
        simp [hne, hk']

theorem addEnts_mem (e : Xref.Ent) (es : List Xref.Ent) (ids : List (Nat × Nat)) (xs : List Xref.Ent) :
    e ∈ (addEnts es ids xs).2 ↔
      e ∈ xs ∨ (keyOf e ∉ ids ∧ es.find? (fun x => keyOf x == keyOf e) = some e) := by
  rw [addEnts_snd, List.mem_append, mem_dedupKey]

/-- every key kept in `xs` is recorded in `ids`, and no key is kept twice: preserved by `addEnts` -/
theorem addEnts_keys (es : List Xref.Ent) (ids : List (Nat × Nat)) (xs : List Xref.Ent)
    (hcons : ∀ e ∈ xs, keyOf e ∈ ids) (hnd : (xs.map keyOf).Nodup) :
    (∀ e ∈ (addEnts es ids xs).2, keyOf e ∈ (addEnts es ids xs).1) ∧
    ((addEnts es ids xs).2.map keyOf).Nodup := by
  induction es generalizing ids xs with
  | nil => exact ⟨hcons, hnd⟩
  | cons a t ih =>
    by_cases h : ids.contains (a.obj, a.gen) = true
    · rw [addEnts, if_pos h]; exact ih ids xs hcons hnd
    · rw [addEnts, if_neg h]
      rw [List.contains_iff_mem] at h
      apply ih
      · intro e he
        rw [List.mem_append, List.mem_singleton] at he
        rcases he with he | he
        · exact List.mem_cons_of_mem _ (hcons e he)
        · subst he; exact List.mem_cons_self
      · rw [List.map_append, List.nodup_append]
        refine ⟨hnd, by simp, ?_⟩
        intro k hk k' hk'
        simp only [List.map_cons, List.map_nil, List.mem_singleton] at hk'
        subst hk'
        rw [List.mem_map] at hk
        obtain ⟨e, he, rfl⟩ := hk
        intro heq
        exact h (by have := hcons e he; rw [heq] at this; exact this)

/-- the identifier set grows monotonically -/
theorem addEnts_ids_mono (es : List Xref.Ent) (ids : List (Nat × Nat)) (xs : List Xref.Ent) :
    ∀ k ∈ ids, k ∈ (addEnts es ids xs).1 := by
  induction es generalizing ids xs with
  | nil => intro k hk; exact hk
  | cons a t ih =>
    intro k hk
    by_cases h : ids.contains (a.obj, a.gen) = true
    · rw [addEnts, if_pos h]; exact ih ids xs k hk
    · rw [addEnts, if_neg h]; exact ih _ _ k (List.mem_cons_of_mem _ hk)

theorem dedupKey_append (es L : List Xref.Ent) (ids : List (Nat × Nat)) (xs : List Xref.Ent) :
    dedupKey (es ++ L) ids = dedupKey es ids ++ dedupKey L (addEnts es ids xs).1 := by
  induction es generalizing ids xs with
  | nil => simp [dedupKey, addEnts]
  | cons e t ih =>
    by_cases h : ids.contains (e.obj, e.gen) = true
    · have h' : ids.contains (keyOf e) = true := h
      rw [List.cons_append, addEnts, dedupKey, dedupKey, if_pos h, if_pos h', if_pos h']
      exact ih ids xs
    · have h' : ¬ ids.contains (keyOf e) = true := h
      rw [List.cons_append, addEnts, dedupKey, dedupKey, if_neg h, if_neg h', if_neg h',
        ih (keyOf e :: ids) (xs ++ [e])]
      rfl

/-- sections newest first: the merged table is the old one followed by the first occurrence of
    every key (not already known) in the concatenation of the sections -/
theorem merge_first_wins (secs : List (List Xref.Ent)) (ids : List (Nat × Nat)) (xs : List Xref.Ent) :
    (mergeSecs secs ids xs).2 = xs ++ dedupKey secs.flatten ids := by
  induction secs generalizing ids xs with
  | nil => simp [mergeSecs, dedupKey]
  | cons es rest ih =>
    have : mergeSecs (es :: rest) ids xs = mergeSecs rest (addEnts es ids xs).1 (addEnts es ids xs).2 := rfl
    rw [this, ih, addEnts_snd, List.flatten_cons, dedupKey_append es rest.flatten ids xs,
      List.append_assoc]

theorem merge_first_wins_nil (secs : List (List Xref.Ent)) :
    (mergeSecs secs [] []).2 = dedupKey secs.flatten [] := by
  rw [merge_first_wins]; rfl

theorem stable_gen_aux (L : List Xref.Ent) (ids : List (Nat × Nat)) (n : Nat)
    (hL : ∀ a ∈ L, ∀ b ∈ L, a.obj = b.obj → a.gen = b.gen)
    (hI : ∀ a ∈ L, ∀ k ∈ ids, k.1 = a.obj → k.2 = a.gen) :
    (dedupKey L ids).filter (·.obj == n) =
      if ids.any (fun k => k.1 == n) then [] else (L.find? (·.obj == n)).toList := by
  induction L generalizing ids with
  | nil => simp [dedupKey]
  | cons a t ih =>
    have hLt : ∀ x ∈ t, ∀ y ∈ t, x.obj = y.obj → x.gen = y.gen :=
      fun x hx y hy => hL x (List.mem_cons_of_mem _ hx) y (List.mem_cons_of_mem _ hy)
    have hIt : ∀ x ∈ t, ∀ k ∈ ids, k.1 = x.obj → k.2 = x.gen :=
      fun x hx => hI x (List.mem_cons_of_mem _ hx)
    by_cases ha : ids.contains (keyOf a) = true
    · rw [dedupKey, if_pos ha, ih ids hLt hIt]
      rw [List.contains_iff_mem] at ha
      by_cases hn : a.obj = n
      · have : ids.any (fun k => k.1 == n) = true := by
          rw [List.any_eq_true]; exact ⟨keyOf a, ha, by simp [keyOf, hn]⟩
        simp [this]
      · have hp : ¬ (fun x : Xref.Ent => x.obj == n) a = true := by simp [hn]
        rw [List.find?_cons_of_neg (p := fun x : Xref.Ent => x.obj == n) hp]
    · rw [dedupKey, if_neg ha]
      rw [List.contains_iff_mem] at ha
      have hIt' : ∀ x ∈ t, ∀ k ∈ keyOf a :: ids, k.1 = x.obj → k.2 = x.gen := by
        intro x hx k hk hkx
        rw [List.mem_cons] at hk
        rcases hk with rfl | hk
        · exact hL a List.mem_cons_self x (List.mem_cons_of_mem _ hx) hkx
        · exact hIt x hx k hk hkx
      by_cases hn : a.obj = n
      · have hp : (fun x : Xref.Ent => x.obj == n) a = true := by simp [hn]
        rw [List.find?_cons_of_pos (p := fun x : Xref.Ent => x.obj == n) hp,
          List.filter_cons_of_pos (by simpa using hn), ih _ hLt hIt']
        have h1 : (keyOf a :: ids).any (fun k => k.1 == n) = true := by
          simp [keyOf, hn]
        have h2 : ¬ ids.any (fun k => k.1 == n) = true := by
          rw [List.any_eq_true]
          rintro ⟨k, hk, hkn⟩
          have hk1 : k.1 = a.obj := by simpa [hn] using hkn
          have hk2 := hI a List.mem_cons_self k hk hk1
          apply ha
          have : k = keyOf a := Prod.ext hk1 hk2
          rw [← this]; exact hk
        rw [if_pos h1, if_neg h2]; rfl
      · have hp : ¬ (fun x : Xref.Ent => x.obj == n) a = true := by simp [hn]
        rw [List.find?_cons_of_neg (p := fun x : Xref.Ent => x.obj == n) hp,
          List.filter_cons_of_neg (by simpa using hn), ih _ hLt hIt']
        have : (keyOf a :: ids).any (fun k => k.1 == n) = ids.any (fun k => k.1 == n) := by
          simp [keyOf, hn]
        rw [this]

/-- if the generation of an object number never changes, exactly the newest entry per object
    NUMBER survives -/
theorem stable_gen_first_per_number (L : List Xref.Ent)
    (hL : ∀ a ∈ L, ∀ b ∈ L, a.obj = b.obj → a.gen = b.gen) (n : Nat) :
    (dedupKey L []).filter (·.obj == n) = (L.find? (·.obj == n)).toList := by
  rw [stable_gen_aux L [] n hL (by intro a _ k hk; cases hk)]
  rfl

/-! ## the root comes from the newest section that has one -/

/-- once a root is known it is never replaced -/
theorem xrefLoop_root_fixed (f : Nat) (st : St) (s : Bytes) (next : Nat) (cs : List Nat)
    (ids : List (Nat × Nat)) (xs : List Xref.Ent) (r0 : Obj)
    (X : List Xref.Ent) (r : Obj) (st' : St)
    (h : xrefLoop f st s next cs ids xs (some r0) = (.ok (X, r), st')) : r = r0 := by
  induction f generalizing st next cs ids xs X r st' with
  | zero => simp only [xrefLoop] at h; cases h
  | succ f ih =>
    obtain ⟨_, _, ents, rt, prev, c, st2, r1, _, hr, hcase⟩ := xrefLoop_ok_inv h
    have hr1 : r1 = r0 := by simp only [rootOf, Option.some.injEq] at hr; exact hr.symm
    subst hr1
    rcases hcase with ⟨_, _, hr', _⟩ | ⟨p, _, hrec⟩
    · exact hr'
    · exact ih _ _ _ _ _ _ _ _ hrec

theorem root_from_newest (st : St) (s : Bytes) (start : Nat) (X : List Xref.Ent) (r : Obj) (st' : St)
    (h : getXrefInfo st s start = (.ok (X, r), st')) :
    ∃ ents prev c st1, firstInfo st s start = (.ok (some (ents, some r, prev)), c, st1) := by
  unfold getXrefInfo at h
  obtain ⟨_, _, ents, rt, prev, c, st2, r1, hfi, hr, hcase⟩ := xrefLoop_ok_inv h
  simp only [rootOf] at hr
  subst hr
  have : r = r1 := by
    rcases hcase with ⟨_, _, hr', _⟩ | ⟨p, _, hrec⟩
    · exact hr'
    · exact xrefLoop_root_fixed _ _ _ _ _ _ _ _ _ _ _ hrec
  subst this
  exact ⟨ents, prev, c, st2, hfi⟩

/-! ## fuel -/

/-- pigeonhole: a duplicate-free list of naturals below `n` has at most `n` elements -/
theorem nodup_bounded_length (n : Nat) (l : List Nat) (hnd : l.Nodup) (hlt : ∀ x ∈ l, x < n) :
    l.length ≤ n := by
  induction n generalizing l with
  | zero =>
    cases l with
    | nil => simp
    | cons a t => exact absurd (hlt a List.mem_cons_self) (Nat.not_lt_zero _)
  | succ n ih =>
    have h1 : (l.erase n).Nodup := hnd.erase n
    have h2 : ∀ x ∈ l.erase n, x < n := by
      intro x hx
      rw [hnd.mem_erase_iff] at hx
      have := hlt x hx.2
      omega
    have h3 := ih (l.erase n) h1 h2
    by_cases hm : n ∈ l
    · rw [List.length_erase_of_mem hm] at h3; omega
    · rw [List.erase_of_not_mem hm] at h3; omega

/-- the result does not depend on fuel beyond `s.length + 1 - cs.length`: the fuel branch is
    never the reason for the outcome -/
theorem xrefLoop_fuel_stable (f : Nat) (st : St) (s : Bytes) (next : Nat) (cs : List Nat)
    (ids : List (Nat × Nat)) (xs : List Xref.Ent) (root : Option Obj)
    (hnd : cs.Nodup) (hlt : ∀ x ∈ cs, x < s.length) (hf : s.length + 1 ≤ f + cs.length) (g : Nat) :
    xrefLoop (f + g) st s next cs ids xs root = xrefLoop f st s next cs ids xs root := by
  induction f generalizing st next cs ids xs root with
  | zero =>
    have := nodup_bounded_length s.length cs hnd hlt
    omega
  | succ f ih =>
    have : f + 1 + g = (f + g) + 1 := by omega
    rw [this, xrefLoop_succ, xrefLoop_succ]
    by_cases hc : cs.contains next = true
    · rw [if_pos hc, if_pos hc]
    rw [if_neg hc, if_neg hc]
    by_cases hn : ¬ next < s.length
    · rw [if_pos (by simp [hn]), if_pos (by simp [hn])]
    replace hn : next < s.length := by omega
    rw [if_neg (by simp [hn]), if_neg (by simp [hn])]
    rcases firstInfo st s next with ⟨o, c, st2⟩
    cases o with
    | panic p => rfl
    | reject => rfl
    | ok x =>
      cases x with
      | none => rfl
      | some i =>
        obtain ⟨ents, rt, prev⟩ := i
        simp only [stepK]
        cases rootOf root rt with
        | none => rfl
        | some r =>
          cases prev with
          | none => rfl
          | some p =>
            simp only []
            apply ih
            · rw [List.nodup_cons]
              exact ⟨by rwa [List.contains_iff_mem] at hc, hnd⟩
            · intro x hx
              rw [List.mem_cons] at hx
              rcases hx with rfl | hx
              · exact hn
              · exact hlt x hx
            · simp only [List.length_cons]; omega

/-- `get_xref_info` with any larger fuel computes the same thing -/
theorem getXrefInfo_fuel_stable (st : St) (s : Bytes) (start : Nat) (g : Nat) :
    xrefLoop (s.length + 1 + g) st s start [] [] [] none = getXrefInfo st s start := by
  unfold getXrefInfo
  exact xrefLoop_fuel_stable _ _ _ _ _ _ _ _ List.nodup_nil (by simp) (by simp) g

/-- the panic site of the fuel branch -/
def fuelSite : String := "get_xref_info: fuel"

theorem firstInfo_cases (st : St) (s : Bytes) (i : Nat) :
    firstInfo st s i = parseXrefSection st s i ∨
    ∃ st1 c1, firstInfo st s i = parseXrefStream st1 s c1 := by
  unfold firstInfo
  split
  · right; exact ⟨_, _, rfl⟩
  · left; rfl

/-- the fuel invariant: with `cs` duplicate-free, in range, and `s.length + 1 ≤ f + cs.length`
    the fuel branch is not taken.  Since panics of the component parsers are propagated with
    their own site strings, the statement needs that none of them uses the loop's site string
    (hypotheses `hsec`, `hstm`). -/
theorem xrefLoop_fuel_invariant (f : Nat) (st : St) (s : Bytes) (next : Nat) (cs : List Nat)
    (ids : List (Nat × Nat)) (xs : List Xref.Ent) (root : Option Obj)
    (hsec : ∀ st i c st', parseXrefSection st s i ≠ (.panic fuelSite, c, st'))
    (hstm : ∀ st i c st', parseXrefStream st s i ≠ (.panic fuelSite, c, st'))
    (hnd : cs.Nodup) (hlt : ∀ x ∈ cs, x < s.length) (hf : s.length + 1 ≤ f + cs.length) (st' : St) :
    xrefLoop f st s next cs ids xs root ≠ (.panic fuelSite, st') := by
  induction f generalizing st next cs ids xs root with
  | zero =>
    have := nodup_bounded_length s.length cs hnd hlt
    omega
  | succ f ih =>
    rw [xrefLoop_succ]
    by_cases hc : cs.contains next = true
    · rw [if_pos hc]; intro h; cases h
    rw [if_neg hc]
    by_cases hn : ¬ next < s.length
    · rw [if_pos (by simp [hn])]; intro h; cases h
    replace hn : next < s.length := by omega
    rw [if_neg (by simp [hn])]
    have hfi : ∀ c st2, firstInfo st s next ≠ (.panic fuelSite, c, st2) := by
      intro c st2
      rcases firstInfo_cases st s next with h | ⟨st1, c1, h⟩
      · rw [h]; exact hsec _ _ _ _
      · rw [h]; exact hstm _ _ _ _
    rcases hfi' : firstInfo st s next with ⟨o, c, st2⟩
    cases o with
    | panic p =>
      simp only [stepK]
      intro h
      simp only [Prod.mk.injEq, Out.panic.injEq] at h
      exact hfi c st2 (by rw [hfi', h.1])
    | reject => simp only [stepK]; intro h; cases h
    | ok x =>
      cases x with
      | none => simp only [stepK]; intro h; cases h
      | some i =>
        obtain ⟨ents, rt, prev⟩ := i
        simp only [stepK]
        cases rootOf root rt with
        | none => simp only []; intro h; cases h
        | some r =>
          cases prev with
          | none => simp only []; intro h; cases h
          | some p =>
            simp only []
            apply ih
            · rw [List.nodup_cons]
              exact ⟨by rwa [List.contains_iff_mem] at hc, hnd⟩
            · intro x hx
              rw [List.mem_cons] at hx
              rcases hx with rfl | hx
              · exact hn
              · exact hlt x hx
            · simp only [List.length_cons]; omega

/-- `get_xref_info` never runs out of fuel (same side condition on the component parsers' panic
    site strings as `xrefLoop_fuel_invariant`) -/
theorem xrefLoop_fuel_sufficient (st : St) (s : Bytes) (start : Nat)
    (hsec : ∀ st i c st', parseXrefSection st s i ≠ (.panic fuelSite, c, st'))
    (hstm : ∀ st i c st', parseXrefStream st s i ≠ (.panic fuelSite, c, st')) (st' : St) :
    getXrefInfo st s start ≠ (.panic "get_xref_info: fuel", st') := by
  unfold getXrefInfo
  exact xrefLoop_fuel_invariant _ _ _ _ _ _ _ _ hsec hstm List.nodup_nil (by simp) (by simp) st'

/-- unconditional form: under the fuel invariant every panic outcome of the loop is the panic of
    a component parser (`firstInfo` at some state and offset), never the loop's own fuel branch -/
theorem xrefLoop_panic_origin (f : Nat) (st : St) (s : Bytes) (next : Nat) (cs : List Nat)
    (ids : List (Nat × Nat)) (xs : List Xref.Ent) (root : Option Obj)
    (hnd : cs.Nodup) (hlt : ∀ x ∈ cs, x < s.length) (hf : s.length + 1 ≤ f + cs.length)
    (p : String) (st' : St)
    (h : xrefLoop f st s next cs ids xs root = (.panic p, st')) :
    ∃ st0 i c, i < s.length ∧ firstInfo st0 s i = (.panic p, c, st') := by
  induction f generalizing st next cs ids xs root with
  | zero =>
    have := nodup_bounded_length s.length cs hnd hlt
    omega
  | succ f ih =>
    rw [xrefLoop_succ] at h
    by_cases hc : cs.contains next = true
    · rw [if_pos hc] at h; cases h
    rw [if_neg hc] at h
    by_cases hn : ¬ next < s.length
    · rw [if_pos (by simp [hn])] at h; cases h
    replace hn : next < s.length := by omega
    rw [if_neg (by simp [hn])] at h
    rcases hfi : firstInfo st s next with ⟨o, c, st2⟩
    rw [hfi] at h
    cases o with
    | panic q =>
      simp only [stepK, Prod.mk.injEq, Out.panic.injEq] at h
      exact ⟨st, next, c, hn, by rw [hfi, h.1, h.2]⟩
    | reject => simp only [stepK] at h; cases h
    | ok x =>
      cases x with
      | none => simp only [stepK] at h; cases h
      | some i =>
        obtain ⟨ents, rt, prev⟩ := i
        simp only [stepK] at h
        cases hr : rootOf root rt with
        | none => rw [hr] at h; cases h
        | some r =>
          rw [hr] at h
          cases prev with
          | none => cases h
          | some q =>
            simp only [] at h
            refine ih _ _ _ _ _ _ ?_ ?_ ?_ h
            · rw [List.nodup_cons]
              exact ⟨by rwa [List.contains_iff_mem] at hc, hnd⟩
            · intro x hx
              rw [List.mem_cons] at hx
              rcases hx with rfl | hx
              · exact hn
              · exact hlt x hx
            · simp only [List.length_cons]; omega

/-- every panic of `get_xref_info` is a panic of a component parser -/
theorem getXrefInfo_panic_origin (st : St) (s : Bytes) (start : Nat) (p : String) (st' : St)
    (h : getXrefInfo st s start = (.panic p, st')) :
    ∃ st0 i c, i < s.length ∧ firstInfo st0 s i = (.panic p, c, st') := by
  unfold getXrefInfo at h
  exact xrefLoop_panic_origin _ _ _ _ _ _ _ _ List.nodup_nil (by simp) (by simp) p st' h

/-! ## the loop merges the chain of sections -/

/-- the sections visited from `next` with `cs` already visited: each is read with `firstInfo`,
    at an in-range offset not seen before; the last one has no /Prev -/
inductive Chain (s : Bytes) : St → Nat → List Nat → List SectInfo → Prop
  | last {st : St} {next : Nat} {cs : List Nat} {ents : List Xref.Ent} {rt : Option Obj}
      {c : Nat} {st1 : St} :
      ¬ cs.contains next = true → next < s.length →
      firstInfo st s next = (.ok (some (ents, rt, none)), c, st1) →
      Chain s st next cs [(ents, rt, none)]
  | more {st : St} {next : Nat} {cs : List Nat} {ents : List Xref.Ent} {rt : Option Obj} {p : Nat}
      {c : Nat} {st1 : St} {rest : List SectInfo} :
      ¬ cs.contains next = true → next < s.length →
      firstInfo st s next = (.ok (some (ents, rt, some p)), c, st1) →
      Chain s st1 p (next :: cs) rest →
      Chain s st next cs ((ents, rt, some p) :: rest)

theorem xrefLoop_merges_chain (f : Nat) (st : St) (s : Bytes) (next : Nat) (cs : List Nat)
    (ids : List (Nat × Nat)) (xs : List Xref.Ent) (root : Option Obj)
    (X : List Xref.Ent) (r : Obj) (st' : St)
    (h : xrefLoop f st s next cs ids xs root = (.ok (X, r), st')) :
    ∃ infos, Chain s st next cs infos ∧ X = (mergeSecs (infos.map (·.1)) ids xs).2 := by
  induction f generalizing st next cs ids xs root with
  | zero => simp only [xrefLoop] at h; cases h
  | succ f ih =>
    obtain ⟨hc, hn, ents, rt, prev, c, st2, r1, hfi, hr, hcase⟩ := xrefLoop_ok_inv h
    rcases hcase with ⟨hp, hX, _, _⟩ | ⟨p, hp, hrec⟩
    · subst hp
      exact ⟨[(ents, rt, none)], Chain.last hc hn hfi, hX⟩
    · subst hp
      obtain ⟨rest, hch, hX⟩ := ih _ _ _ _ _ _ hrec
      exact ⟨(ents, rt, some p) :: rest, Chain.more hc hn hfi hch, hX⟩

/-- at most `s.length` sections are read -/
theorem chain_length_bounded (s : Bytes) (st : St) (next : Nat) (cs : List Nat) (infos : List SectInfo)
    (h : Chain s st next cs infos) (hnd : cs.Nodup) (hlt : ∀ x ∈ cs, x < s.length) :
    infos.length + cs.length ≤ s.length := by
  induction h with
  | @last st next cs ents rt c st1 hc hn _ =>
    have := nodup_bounded_length s.length (next :: cs)
      (by rw [List.nodup_cons]; exact ⟨by rwa [List.contains_iff_mem] at hc, hnd⟩)
      (by intro x hx; rw [List.mem_cons] at hx; rcases hx with rfl | hx; exact hn; exact hlt x hx)
    simp only [List.length_cons, List.length_nil] at this ⊢
    omega
  | @more st next cs ents rt p c st1 rest hc hn _ _ ih =>
    have := ih
      (by rw [List.nodup_cons]; exact ⟨by rwa [List.contains_iff_mem] at hc, hnd⟩)
      (by intro x hx; rw [List.mem_cons] at hx; rcases hx with rfl | hx; exact hn; exact hlt x hx)
    simp only [List.length_cons] at this ⊢
    omega

/-- `get_xref_info` as a whole: the table returned is the first-occurrence-per-key reduction of
    the concatenated sections of the /Prev chain from `start`, newest first -/
theorem getXrefInfo_merges_chain (st : St) (s : Bytes) (start : Nat)
    (X : List Xref.Ent) (r : Obj) (st' : St)
    (h : getXrefInfo st s start = (.ok (X, r), st')) :
    ∃ infos, Chain s st start [] infos ∧ infos.length ≤ s.length ∧
      X = dedupKey (infos.map (·.1)).flatten [] := by
  unfold getXrefInfo at h
  obtain ⟨infos, hch, hX⟩ := xrefLoop_merges_chain _ _ _ _ _ _ _ _ _ _ _ h
  refine ⟨infos, hch, ?_, ?_⟩
  · have := chain_length_bounded s st start [] infos hch List.nodup_nil (by simp)
    simpa using this
  · rw [hX, merge_first_wins_nil]

end Parsley.LoaderChain


