/-
  Discharge of `LoaderNoPanic.DecodersTotal` as far as it is true of the models.
-/
import Parsley.Lemmas.LoaderNoPanic
import Parsley.Props.C06
import Parsley.Props.C07
namespace Parsley.LoaderDecoders
open Parsley Parsley.Inflate Parsley.Filters

def bl (r : BitRd) : Nat := 8 * r.rest.length + r.cnt

theorem bitsAux_bl (n : Nat) : ∀ (rest : Bytes) (acc cnt v : Nat) (r' : BitRd),
    bitsAux n rest acc cnt = some (v, r') → bl r' + n = 8 * rest.length + cnt := by
  intro rest
  induction rest with
  | nil =>
    intro acc cnt v r' h
    unfold bitsAux at h
    split at h
    · cases h; simp [bl]; omega
    · cases h
  | cons b t ih =>
    intro acc cnt v r' h
    unfold bitsAux at h
    split at h
    · cases h; simp [bl]; omega
    · have := ih _ _ _ _ h
      simp only [List.length_cons]; omega

theorem bits_bl {r : BitRd} {n v : Nat} {r' : BitRd} (h : r.bits n = some (v, r')) : bl r' + n = bl r :=
  bitsAux_bl n _ _ _ _ _ h

theorem go_bl (h : Huff) : ∀ (fuel len code first index : Nat) (r : BitRd) (x : Option Nat) (r' : BitRd),
    decodeSym.go h fuel len code first index r = some (x, r') → bl r' ≤ bl r ∧ (0 < fuel → bl r' + 1 ≤ bl r) := by
  intro fuel
  induction fuel with
  | zero =>
    intro len code first index r x r' hg
    unfold decodeSym.go at hg
    cases hg
    exact ⟨Nat.le_refl _, fun h => absurd h (by omega)⟩
  | succ f ih =>
    intro len code first index r x r' hg
    unfold decodeSym.go at hg
    cases hb : r.bits 1 with
    | none => rw [hb] at hg; cases hg
    | some p =>
      obtain ⟨b, r1⟩ := p
      rw [hb] at hg
      have h1 := bits_bl hb
      dsimp only at hg
      split at hg
      · cases hg; exact ⟨by omega, fun _ => by omega⟩
      · have := (ih _ _ _ _ _ _ _ hg).1
        exact ⟨by omega, fun _ => by omega⟩

theorem decodeSym_bl {h : Huff} {r : BitRd} {x : Option Nat} {r' : BitRd}
    (hd : decodeSym h r = some (x, r')) : bl r' + 1 ≤ bl r :=
  (go_bl h 15 1 0 0 0 r x r' hd).2 (by omega)

local macro "triv" : tactic => `(tactic| exact ⟨fun _ h => (by cases h), fun _ _ h => (by cases h)⟩)

theorem codes_bl (lit dist : Huff) : ∀ (fuel : Nat) (out : Array UInt8) (r : BitRd),
    (bl r < fuel → codes lit dist fuel out r ≠ .fuel) ∧
    (∀ out' r', codes lit dist fuel out r = .done out' r' → bl r' ≤ bl r) := by
  intro fuel
  induction fuel with
  | zero =>
    intro out r
    exact ⟨fun h => absurd h (by omega), fun out' r' h => by unfold codes at h; cases h⟩
  | succ f ih =>
    intro out r
    unfold codes
    cases hd : decodeSym lit r with
    | none => triv
    | some p =>
      obtain ⟨x, r1⟩ := p
      have h1 := decodeSym_bl hd
      cases x with
      | none => triv
      | some sym =>
        dsimp only
        split
        · have := ih (out.push (UInt8.ofNat sym)) r1
          exact ⟨fun hf => this.1 (by omega), fun o' r' h => by have := this.2 o' r' h; omega⟩
        · split
          · exact ⟨fun _ h => (by cases h), fun _ _ h => (by cases h; omega)⟩
          · split
            · triv
            · cases hb : r1.bits (lenExtra[sym - 257]?.getD 0) with
              | none => triv
              | some p2 =>
                obtain ⟨e, r2⟩ := p2
                have h2 := bits_bl hb
                dsimp only
                cases hd2 : decodeSym dist r2 with
                | none => triv
                | some p3 =>
                  obtain ⟨y, r3⟩ := p3
                  have h3 := decodeSym_bl hd2
                  cases y with
                  | none => triv
                  | some ds =>
                    dsimp only
                    split
                    · triv
                    · cases hb4 : r3.bits (distExtra[ds]?.getD 0) with
                      | none => triv
                      | some p4 =>
                        obtain ⟨e4, r4⟩ := p4
                        have h4 := bits_bl hb4
                        dsimp only
                        split
                        · triv
                        · have := ih (copyBack (distBase[ds]?.getD 0 + e4) (lenBase[sym - 257]?.getD 0 + e) out) r4
                          exact ⟨fun hf => this.1 (by omega), fun o' r' h => by have := this.2 o' r' h; omega⟩

theorem readLens_bl (cl : Huff) (n : Nat) : ∀ (fuel : Nat) (lens : Array Nat) (r : BitRd) (lens' : Array Nat) (r' : BitRd),
    readLens cl n fuel lens r = some (some (lens', r')) → bl r' ≤ bl r := by
  intro fuel
  induction fuel with
  | zero => intro lens r lens' r' h; unfold readLens at h; cases h
  | succ f ih =>
    intro lens r lens' r' h
    unfold readLens at h
    split at h
    · cases h; exact Nat.le_refl _
    · cases hd : decodeSym cl r with
      | none => rw [hd] at h; cases h
      | some p =>
        obtain ⟨x, r1⟩ := p
        have h1 := decodeSym_bl hd
        rw [hd] at h
        cases x with
        | none => cases h
        | some sym =>
          dsimp only at h
          split at h
          · have := ih _ _ _ _ h; omega
          · generalize (if (sym == 16) = true then (true, 2, 3) else if (sym == 17) = true then (false, 3, 3) else (false, 7, 11) : Bool × Nat × Nat) = tr at h
            split at h
            · cases h
            · cases hb : r1.bits tr.2.fst with
              | none => rw [hb] at h; cases h
              | some p2 =>
                obtain ⟨e, r2⟩ := p2
                have h2 := bits_bl hb
                rw [hb] at h
                dsimp only at h
                split at h
                · cases h
                · have := ih _ _ _ _ h; omega

theorem clLens_bl : ∀ (k i : Nat) (a : Array Nat) (r : BitRd) (a' : Array Nat) (r' : BitRd),
    dynamicTables.clLens k i a r = some (a', r') → bl r' ≤ bl r := by
  intro k
  induction k with
  | zero => intro i a r a' r' h; unfold dynamicTables.clLens at h; cases h; exact Nat.le_refl _
  | succ k ih =>
    intro i a r a' r' h
    unfold dynamicTables.clLens at h
    cases hb : r.bits 3 with
    | none => rw [hb] at h; cases h
    | some p =>
      obtain ⟨v, r1⟩ := p
      have h1 := bits_bl hb
      rw [hb] at h
      have := ih _ _ _ _ _ h
      omega

set_option maxRecDepth 4000 in
theorem dynamicTables_bl {r : BitRd} {lit dist : Huff} {r' : BitRd}
    (h : dynamicTables r = some (some (lit, dist, r'))) : bl r' ≤ bl r := by
  unfold dynamicTables at h
  cases hb1 : r.bits 5 with
  | none => rw [hb1] at h; cases h
  | some p1 =>
    obtain ⟨hl, r1⟩ := p1
    have h1 := bits_bl hb1
    rw [hb1] at h; dsimp only at h
    cases hb2 : r1.bits 5 with
    | none => rw [hb2] at h; cases h
    | some p2 =>
      obtain ⟨hd, r2⟩ := p2
      have h2 := bits_bl hb2
      rw [hb2] at h; dsimp only at h
      cases hb3 : r2.bits 4 with
      | none => rw [hb3] at h; cases h
      | some p3 =>
        obtain ⟨hc, r3⟩ := p3
        have h3 := bits_bl hb3
        rw [hb3] at h; dsimp only at h
        split at h
        · cases h
        · cases hcl : dynamicTables.clLens (hc + 4) 0 (Array.replicate 19 0) r3 with
          | none => rw [hcl] at h; cases h
          | some p4 =>
            obtain ⟨cll, r4⟩ := p4
            have h4 := clLens_bl _ _ _ _ _ _ hcl
            rw [hcl] at h; dsimp only at h
            split at h
            · cases h
            · split at h
              · cases h
              · cases h
              · rename_i lens r5 hrl
                have h5 := readLens_bl _ _ _ _ _ _ _ hrl
                split at h
                · cases h
                · split at h
                  · cases h
                  · cases h; omega

theorem takeBytes_len : ∀ (n : Nat) (rest : Bytes) (out out' : Array UInt8) (rest' : Bytes),
    takeBytes n rest out = some (out', rest') → rest'.length ≤ rest.length := by
  intro n
  induction n with
  | zero => intro rest out out' rest' h; unfold takeBytes at h; cases h; exact Nat.le_refl _
  | succ n ih =>
    intro rest out out' rest' h
    cases rest with
    | nil => unfold takeBytes at h; cases h
    | cons b t =>
      unfold takeBytes at h
      have := ih _ _ _ _ h
      simp only [List.length_cons]; omega

theorem blocks_fuel : ∀ (fuel : Nat) (out : Array UInt8) (r : BitRd), bl r < fuel → blocks fuel out r ≠ .fuel := by
  intro fuel
  induction fuel with
  | zero => intro out r h; omega
  | succ f ih =>
    intro out r hf
    unfold blocks
    cases hb1 : r.bits 1 with
    | none => exact fun h => by cases h
    | some p1 =>
      obtain ⟨final, r1⟩ := p1
      have h1 := bits_bl hb1
      dsimp only
      cases hb2 : r1.bits 2 with
      | none => exact fun h => by cases h
      | some p2 =>
        obtain ⟨typ, r2⟩ := p2
        have h2 := bits_bl hb2
        dsimp only
        have hnext : ∀ (o : Array UInt8) (r' : BitRd), bl r' ≤ bl r2 →
            (if (final == 1) = true then RawEnd.done o r' else blocks f o r') ≠ .fuel := by
          intro o r' hr'
          split
          · exact fun h => by cases h
          · exact ih o r' (by omega)
        split
        · -- stored
          split
          · rename_i l0 l1 n0 n1 rest hrest
            split
            · exact fun h => by cases h
            · split
              · exact fun h => by cases h
              · rename_i o' rest' htb
                have := takeBytes_len _ _ _ _ _ htb
                refine hnext _ _ ?_
                simp only [bl, BitRd.align] at hrest ⊢
                rw [hrest] at *
                simp only [List.length_cons]; omega
          · exact fun h => by cases h
        · split
          · have hc := codes_bl fixedLit fixedDist f out r2
            split
            · rename_i o' r' hcd
              exact hnext _ _ (hc.2 _ _ hcd)
            · exact fun h => by cases h
            · exact fun h => by cases h
            · rename_i hcd
              exact absurd hcd (hc.1 (by omega))
          · split
            · split
              · exact fun h => by cases h
              · exact fun h => by cases h
              · rename_i lit dist r3 hdt
                have h3 := dynamicTables_bl hdt
                have hc := codes_bl lit dist f out r3
                split
                · rename_i o' r' hcd
                  exact hnext _ _ (by have := hc.2 _ _ hcd; omega)
                · exact fun h => by cases h
                · exact fun h => by cases h
                · rename_i hcd
                  exact absurd hcd (hc.1 (by omega))
            · exact fun h => by cases h

theorem inflate_no_panic (input : Bytes) (p : String) : inflate input ≠ .panic p := by
  unfold inflate
  split
  · rename_i cmf flg rest
    split
    · exact fun h => by cases h
    · split
      · exact fun h => by cases h
      · split
        · exact fun h => by cases h
        · split
          · exact fun h => by cases h
          · split
            · split
              · dsimp only; split <;> exact fun h => by cases h
              · exact fun h => by cases h
            · exact fun h => by cases h
            · exact fun h => by cases h
            · rename_i hb
              exact absurd hb (blocks_fuel _ _ _ (by simp [bl]))
  · exact fun h => by cases h


/-! hex -/
theorem hex2binLoop_no_panic : ∀ (n : Nat) (inp acc : Bytes), inp.length = 2 * n → ∀ p, hex2binLoop inp acc ≠ .panic p := by
  intro n
  induction n with
  | zero =>
    intro inp acc hl p
    have : inp = [] := List.eq_nil_of_length_eq_zero (by omega)
    subst this
    unfold hex2binLoop
    exact fun h => by cases h
  | succ n ih =>
    intro inp acc hl p
    match inp, hl with
    | a :: b :: t, hl =>
      unfold hex2binLoop
      split
      · exact ih _ _ (by simp only [List.length_cons] at hl; omega) p
      · exact fun h => by cases h

theorem hex2binLoop_len : ∀ (n : Nat) (inp acc out : Bytes), inp.length ≤ n → hex2binLoop inp acc = .ok out →
    out.length = acc.length + inp.length / 2 := by
  intro n
  induction n using Nat.strongRecOn with
  | _ n ih =>
    intro inp acc out hl h
    match inp, hl with
    | [], _ => unfold hex2binLoop at h; cases h; simp
    | [_], _ => unfold hex2binLoop at h; cases h
    | a :: b :: t, hl =>
      unfold hex2binLoop at h
      split at h
      · have := ih t.length (by simp only [List.length_cons] at hl; omega) _ _ _ (Nat.le_refl _) h
        simp only [List.length_cons] at this ⊢; omega
      · cases h

theorem hexStage_no_panic : ∀ (inp st : Bytes) (p : String), hexStage inp st ≠ .panic p := by
  intro inp
  induction inp with
  | nil => intro st p; unfold hexStage; exact fun h => by cases h
  | cons b t ih =>
    intro st p
    unfold hexStage
    split
    · exact ih _ p
    · split
      · exact fun h => by cases h
      · split
        · exact ih _ p
        · exact fun h => by cases h

theorem hexStage_len : ∀ (inp st out : Bytes), hexStage inp st = .ok out → out.length ≤ st.length + inp.length := by
  intro inp
  induction inp with
  | nil => intro st out h; unfold hexStage at h; cases h
  | cons b t ih =>
    intro st out h
    unfold hexStage at h
    split at h
    · have := ih _ _ h; simp only [List.length_cons]; omega
    · split at h
      · cases h
        split <;> simp <;> omega
      · split at h
        · have := ih _ _ h; simp only [List.length_cons] at this ⊢; omega
        · cases h

theorem hexDecode_no_panic (inp : Bytes) (p : String) : hexDecode inp ≠ .panic p := by
  unfold hexDecode
  split
  · rename_i stage hs
    unfold hex2bin
    split
    · exact fun h => by cases h
    · split
      · exact fun h => by cases h
      · rename_i hpar _
        exact hex2binLoop_no_panic (stage.length / 2) _ _ (by simp at hpar; omega) p
  · exact fun h => by cases h
  · rename_i s hs; exact absurd hs (hexStage_no_panic _ _ _)

theorem hexDecode_len (inp out : Bytes) (h : hexDecode inp = .ok out) : out.length ≤ inp.length := by
  unfold hexDecode at h
  split at h
  · rename_i stage hs
    have h1 := hexStage_len _ _ _ hs
    unfold hex2bin at h
    split at h
    · cases h
    · split at h
      · cases h
      · have := hex2binLoop_len _ _ _ _ (Nat.le_refl _) h
        simp only [List.length_nil] at this h1; omega
  · cases h
  · cases h

/-! a85 -/
theorem a85Stage_no_panic : ∀ (inp st : Bytes) (g : Nat) (p : String), a85Stage inp st g ≠ .panic p := by
  intro inp
  induction inp with
  | nil => intro st g p; unfold a85Stage; exact fun h => by cases h
  | cons b t ih =>
    intro st g p
    unfold a85Stage
    split
    · exact ih _ _ p
    · split
      · split
        · exact fun h => by cases h
        · exact ih _ _ p
      · split
        · exact ih _ _ p
        · exact ih _ _ p

theorem a85Decode_no_panic (inp : Bytes) (p : String) : a85Decode inp ≠ .panic p := by
  unfold a85Decode
  split
  · split <;> exact fun h => by cases h
  · exact fun h => by cases h
  · rename_i s hs; exact absurd hs (a85Stage_no_panic _ _ _ _)

/-! flate -/
theorem flateDecode_eq (ext : Ext) (o : Option Dict) (input : Bytes) :
    (∃ k, flateDecode ext o input = .err k) ∨
    (∃ d, Inflate.inflate input = .ok d ∧
      flateDecode ext o input = if predictorOf o = 1 then .ok d else ext.post (o.getD []) d) := by
  cases hi : Inflate.inflate input with
  | ok d =>
    right
    refine ⟨d, rfl, ?_⟩
    unfold flateDecode zlibInit
    rw [hi]
    dsimp only
    unfold flateGlue
    rw [C06.readToEnd_complete _ (C06.zlibDec_yields _ _ _ (Nat.le_refl _)) []]
    simp
  | err k => left; exact C06.flateDecode_err ext o input k hi
  | panic p => exact absurd hi (inflate_no_panic _ _)

theorem post_no_panic (d : Dict) (dec : Bytes) (p : String) : Loader.ext.post d dec ≠ .panic p := by
  intro h
  have := C07.predictor_never_panics (Loader.fInt d Loader.kPredictor) (Loader.fInt d Loader.kColors)
    (Loader.fInt d Loader.kColumns) (Loader.fInt d Loader.kBpc) dec
  have h' : Pred.transformTail (Loader.fInt d Loader.kPredictor) (Loader.fInt d Loader.kColors)
    (Loader.fInt d Loader.kColumns) (Loader.fInt d Loader.kBpc) dec = .panic p := h
  rw [h'] at this
  cases this

theorem flateDecode_no_panic (o : Option Dict) (input : Bytes) (p : String) :
    flateDecode Loader.ext o input ≠ .panic p := by
  rcases flateDecode_eq Loader.ext o input with ⟨k, hk⟩ | ⟨d, _, hd⟩
  · rw [hk]; exact fun h => by cases h
  · rw [hd]
    split
    · exact fun h => by cases h
    · exact post_no_panic _ _ _

theorem applyFilter_no_panic (f : Filter) (d : Bytes) (p : String) : applyFilter Loader.ext f d ≠ .panic p := by
  unfold applyFilter
  split
  · exact flateDecode_no_panic _ _ _
  · split
    · exact a85Decode_no_panic _ _
    · split
      · exact hexDecode_no_panic _ _
      · split
        · exact fun h => by cases h
        · exact fun h => by cases h

end Parsley.LoaderDecoders
