/-
  Discharge of `LoaderNoPanic.DecodersTotal` as far as it is true of the models.

  Clause 1 (no decoder reaches a panic site) is a theorem, `applyFilter_no_panic`:
    * Inflate.inflate "out of fuel": unreachable - `blocks_fuel` (every block costs >= 3 input bits,
      every Huffman symbol >= 1, and the fuel is one unit per input bit plus 8);
    * hex2binLoop "slice index": unreachable - `hex2bin` checks the parity first;
    * ascii85 decode_digit overflow / pad loop / drain range: caught by `a85Decode` (catch_unwind);
    * predictor index sites: Props/C07 `predictor_never_panics`;  DCT stub: an error.
  Clause 2 (outputs are at most 2^63 bytes) is FALSE of the list model as stated
  (`size_clause_false`: 2^64+2 hex zeros decode to 2^63+1 bytes).  What is true: every decoder's
  output is bounded by its input (`applyFilter_len`: x2064 Flate, x4 ASCII85, x1/2 ASCIIHex; the
  predictor never grows its input), so the clause is only needed for inputs of more than
  2^63/2064 bytes: `DecodedSizes`, the one hypothesis of `load_never_panics`.
-/
import Parsley.Lemmas.LoaderNoPanic
import Parsley.Props.C06
import Parsley.Props.C07
namespace Parsley.LoaderDecoders
open Parsley Parsley.Inflate Parsley.Filters

def bl (r : BitRd) : Nat := 8 * r.rest.length + r.cnt

theorem bitsAux_bl (n : Nat) : ∀ (rest : Bytes) (acc cnt v : Nat) (r' : BitRd),
    bitsAux n rest acc cnt = some (v, r') → bl r' + n = 8 * rest.length + cnt := by
  intro rest
  induction rest with
  | nil =>
    intro acc cnt v r' h
    unfold bitsAux at h
    split at h
    · cases h; simp [bl]; omega
    · cases h
  | cons b t ih =>
    intro acc cnt v r' h
    unfold bitsAux at h
    split at h
    · cases h; simp [bl]; omega
    · have := ih _ _ _ _ h
      simp only [List.length_cons]; omega

theorem bits_bl {r : BitRd} {n v : Nat} {r' : BitRd} (h : r.bits n = some (v, r')) : bl r' + n = bl r :=
  bitsAux_bl n _ _ _ _ _ h

theorem go_bl (h : Huff) : ∀ (fuel len code first index : Nat) (r : BitRd) (x : Option Nat) (r' : BitRd),
    decodeSym.go h fuel len code first index r = some (x, r') → bl r' ≤ bl r ∧ (0 < fuel → bl r' + 1 ≤ bl r) := by
  intro fuel
  induction fuel with
  | zero =>
    intro len code first index r x r' hg
    unfold decodeSym.go at hg
    cases hg
    exact ⟨Nat.le_refl _, fun h => absurd h (by omega)⟩
  | succ f ih =>
    intro len code first index r x r' hg
    unfold decodeSym.go at hg
    cases hb : r.bits 1 with
    | none => rw [hb] at hg; cases hg
    | some p =>
      obtain ⟨b, r1⟩ := p
      rw [hb] at hg
      have h1 := bits_bl hb
      dsimp only at hg
      split at hg
      · cases hg; exact ⟨by omega, fun _ => by omega⟩
      · have := (ih _ _ _ _ _ _ _ hg).1
        exact ⟨by omega, fun _ => by omega⟩

theorem decodeSym_bl {h : Huff} {r : BitRd} {x : Option Nat} {r' : BitRd}
    (hd : decodeSym h r = some (x, r')) : bl r' + 1 ≤ bl r :=
  (go_bl h 15 1 0 0 0 r x r' hd).2 (by omega)

local macro "triv" : tactic => `(tactic| exact ⟨fun _ h => (by cases h), fun _ _ h => (by cases h)⟩)

theorem codes_bl (lit dist : Huff) : ∀ (fuel : Nat) (out : Array UInt8) (r : BitRd),
    (bl r < fuel → codes lit dist fuel out r ≠ .fuel) ∧
    (∀ out' r', codes lit dist fuel out r = .done out' r' → bl r' ≤ bl r) := by
  intro fuel
  induction fuel with
  | zero =>
    intro out r
    exact ⟨fun h => absurd h (by omega), fun out' r' h => by unfold codes at h; cases h⟩
  | succ f ih =>
    intro out r
    unfold codes
    cases hd : decodeSym lit r with
    | none => triv
    | some p =>
      obtain ⟨x, r1⟩ := p
      have h1 := decodeSym_bl hd
      cases x with
      | none => triv
      | some sym =>
        dsimp only
        split
        · have := ih (out.push (UInt8.ofNat sym)) r1
          exact ⟨fun hf => this.1 (by omega), fun o' r' h => by have := this.2 o' r' h; omega⟩
        · split
          · exact ⟨fun _ h => (by cases h), fun _ _ h => (by cases h; omega)⟩
          · split
            · triv
            · cases hb : r1.bits (lenExtra[sym - 257]?.getD 0) with
              | none => triv
              | some p2 =>
                obtain ⟨e, r2⟩ := p2
                have h2 := bits_bl hb
                dsimp only
                cases hd2 : decodeSym dist r2 with
                | none => triv
                | some p3 =>
                  obtain ⟨y, r3⟩ := p3
                  have h3 := decodeSym_bl hd2
                  cases y with
                  | none => triv
                  | some ds =>
                    dsimp only
                    split
                    · triv
                    · cases hb4 : r3.bits (distExtra[ds]?.getD 0) with
                      | none => triv
                      | some p4 =>
                        obtain ⟨e4, r4⟩ := p4
                        have h4 := bits_bl hb4
                        dsimp only
                        split
                        · triv
                        · have := ih (copyBack (distBase[ds]?.getD 0 + e4) (lenBase[sym - 257]?.getD 0 + e) out) r4
                          exact ⟨fun hf => this.1 (by omega), fun o' r' h => by have := this.2 o' r' h; omega⟩

theorem readLens_bl (cl : Huff) (n : Nat) : ∀ (fuel : Nat) (lens : Array Nat) (r : BitRd) (lens' : Array Nat) (r' : BitRd),
    readLens cl n fuel lens r = some (some (lens', r')) → bl r' ≤ bl r := by
  intro fuel
  induction fuel with
  | zero => intro lens r lens' r' h; unfold readLens at h; cases h
  | succ f ih =>
    intro lens r lens' r' h
    unfold readLens at h
    split at h
    · cases h; exact Nat.le_refl _
    · cases hd : decodeSym cl r with
      | none => rw [hd] at h; cases h
      | some p =>
        obtain ⟨x, r1⟩ := p
        have h1 := decodeSym_bl hd
        rw [hd] at h
        cases x with
        | none => cases h
        | some sym =>
          dsimp only at h
          split at h
          · have := ih _ _ _ _ h; omega
          · generalize (if (sym == 16) = true then (true, 2, 3) else if (sym == 17) = true then (false, 3, 3) else (false, 7, 11) : Bool × Nat × Nat) = tr at h
            split at h
            · cases h
            · cases hb : r1.bits tr.2.fst with
              | none => rw [hb] at h; cases h
              | some p2 =>
                obtain ⟨e, r2⟩ := p2
                have h2 := bits_bl hb
                rw [hb] at h
                dsimp only at h
                split at h
                · cases h
                · have := ih _ _ _ _ h; omega

theorem clLens_bl : ∀ (k i : Nat) (a : Array Nat) (r : BitRd) (a' : Array Nat) (r' : BitRd),
    dynamicTables.clLens k i a r = some (a', r') → bl r' ≤ bl r := by
  intro k
  induction k with
  | zero => intro i a r a' r' h; unfold dynamicTables.clLens at h; cases h; exact Nat.le_refl _
  | succ k ih =>
    intro i a r a' r' h
    unfold dynamicTables.clLens at h
    cases hb : r.bits 3 with
    | none => rw [hb] at h; cases h
    | some p =>
      obtain ⟨v, r1⟩ := p
      have h1 := bits_bl hb
      rw [hb] at h
      have := ih _ _ _ _ _ h
      omega

set_option maxRecDepth 4000 in
theorem dynamicTables_bl {r : BitRd} {lit dist : Huff} {r' : BitRd}
    (h : dynamicTables r = some (some (lit, dist, r'))) : bl r' ≤ bl r := by
  unfold dynamicTables at h
  cases hb1 : r.bits 5 with
  | none => rw [hb1] at h; cases h
  | some p1 =>
    obtain ⟨hl, r1⟩ := p1
    have h1 := bits_bl hb1
    rw [hb1] at h; dsimp only at h
    cases hb2 : r1.bits 5 with
    | none => rw [hb2] at h; cases h
    | some p2 =>
      obtain ⟨hd, r2⟩ := p2
      have h2 := bits_bl hb2
      rw [hb2] at h; dsimp only at h
      cases hb3 : r2.bits 4 with
      | none => rw [hb3] at h; cases h
      | some p3 =>
        obtain ⟨hc, r3⟩ := p3
        have h3 := bits_bl hb3
        rw [hb3] at h; dsimp only at h
        split at h
        · cases h
        · cases hcl : dynamicTables.clLens (hc + 4) 0 (Array.replicate 19 0) r3 with
          | none => rw [hcl] at h; cases h
          | some p4 =>
            obtain ⟨cll, r4⟩ := p4
            have h4 := clLens_bl _ _ _ _ _ _ hcl
            rw [hcl] at h; dsimp only at h
            split at h
            · cases h
            · split at h
              · cases h
              · cases h
              · rename_i lens r5 hrl
                have h5 := readLens_bl _ _ _ _ _ _ _ hrl
                split at h
                · cases h
                · split at h
                  · cases h
                  · cases h; omega

theorem takeBytes_len : ∀ (n : Nat) (rest : Bytes) (out out' : Array UInt8) (rest' : Bytes),
    takeBytes n rest out = some (out', rest') → rest'.length ≤ rest.length := by
  intro n
  induction n with
  | zero => intro rest out out' rest' h; unfold takeBytes at h; cases h; exact Nat.le_refl _
  | succ n ih =>
    intro rest out out' rest' h
    cases rest with
    | nil => unfold takeBytes at h; cases h
    | cons b t =>
      unfold takeBytes at h
      have := ih _ _ _ _ h
      simp only [List.length_cons]; omega

theorem blocks_fuel : ∀ (fuel : Nat) (out : Array UInt8) (r : BitRd), bl r < fuel → blocks fuel out r ≠ .fuel := by
  intro fuel
  induction fuel with
  | zero => intro out r h; omega
  | succ f ih =>
    intro out r hf
    unfold blocks
    cases hb1 : r.bits 1 with
    | none => exact fun h => by cases h
    | some p1 =>
      obtain ⟨final, r1⟩ := p1
      have h1 := bits_bl hb1
      dsimp only
      cases hb2 : r1.bits 2 with
      | none => exact fun h => by cases h
      | some p2 =>
        obtain ⟨typ, r2⟩ := p2
        have h2 := bits_bl hb2
        dsimp only
        have hnext : ∀ (o : Array UInt8) (r' : BitRd), bl r' ≤ bl r2 →
            (if (final == 1) = true then RawEnd.done o r' else blocks f o r') ≠ .fuel := by
          intro o r' hr'
          split
          · exact fun h => by cases h
          · exact ih o r' (by omega)
        split
        · -- stored
          split
          · rename_i l0 l1 n0 n1 rest hrest
            split
            · exact fun h => by cases h
            · split
              · exact fun h => by cases h
              · rename_i o' rest' htb
                have := takeBytes_len _ _ _ _ _ htb
                refine hnext _ _ ?_
                simp only [bl, BitRd.align] at hrest ⊢
                rw [hrest] at *
                simp only [List.length_cons]; omega
          · exact fun h => by cases h
        · split
          · have hc := codes_bl fixedLit fixedDist f out r2
            split
            · rename_i o' r' hcd
              exact hnext _ _ (hc.2 _ _ hcd)
            · exact fun h => by cases h
            · exact fun h => by cases h
            · rename_i hcd
              exact absurd hcd (hc.1 (by omega))
          · split
            · split
              · exact fun h => by cases h
              · exact fun h => by cases h
              · rename_i lit dist r3 hdt
                have h3 := dynamicTables_bl hdt
                have hc := codes_bl lit dist f out r3
                split
                · rename_i o' r' hcd
                  exact hnext _ _ (by have := hc.2 _ _ hcd; omega)
                · exact fun h => by cases h
                · exact fun h => by cases h
                · rename_i hcd
                  exact absurd hcd (hc.1 (by omega))
            · exact fun h => by cases h

theorem inflate_no_panic (input : Bytes) (p : String) : inflate input ≠ .panic p := by
  unfold inflate
  split
  · rename_i cmf flg rest
    split
    · exact fun h => by cases h
    · split
      · exact fun h => by cases h
      · split
        · exact fun h => by cases h
        · split
          · exact fun h => by cases h
          · split
            · split
              · dsimp only; split <;> exact fun h => by cases h
              · exact fun h => by cases h
            · exact fun h => by cases h
            · exact fun h => by cases h
            · rename_i hb
              exact absurd hb (blocks_fuel _ _ _ (by simp [bl]))
  · exact fun h => by cases h


/-! hex -/
theorem hex2binLoop_no_panic : ∀ (n : Nat) (inp acc : Bytes), inp.length = 2 * n → ∀ p, hex2binLoop inp acc ≠ .panic p := by
  intro n
  induction n with
  | zero =>
    intro inp acc hl p
    have : inp = [] := List.eq_nil_of_length_eq_zero (by omega)
    subst this
    unfold hex2binLoop
    exact fun h => by cases h
  | succ n ih =>
    intro inp acc hl p
    match inp, hl with
    | a :: b :: t, hl =>
      unfold hex2binLoop
      split
      · exact ih _ _ (by simp only [List.length_cons] at hl; omega) p
      · exact fun h => by cases h

theorem hex2binLoop_len : ∀ (n : Nat) (inp acc out : Bytes), inp.length ≤ n → hex2binLoop inp acc = .ok out →
    out.length = acc.length + inp.length / 2 := by
  intro n
  induction n using Nat.strongRecOn with
  | _ n ih =>
    intro inp acc out hl h
    match inp, hl with
    | [], _ => unfold hex2binLoop at h; cases h; simp
    | [_], _ => unfold hex2binLoop at h; cases h
    | a :: b :: t, hl =>
      unfold hex2binLoop at h
      split at h
      · have := ih t.length (by simp only [List.length_cons] at hl; omega) _ _ _ (Nat.le_refl _) h
        simp only [List.length_cons] at this ⊢; omega
      · cases h

theorem hexStage_no_panic : ∀ (inp st : Bytes) (p : String), hexStage inp st ≠ .panic p := by
  intro inp
  induction inp with
  | nil => intro st p; unfold hexStage; exact fun h => by cases h
  | cons b t ih =>
    intro st p
    unfold hexStage
    split
    · exact ih _ p
    · split
      · exact fun h => by cases h
      · split
        · exact ih _ p
        · exact fun h => by cases h

theorem hexStage_len : ∀ (inp st out : Bytes), hexStage inp st = .ok out → out.length ≤ st.length + inp.length := by
  intro inp
  induction inp with
  | nil => intro st out h; unfold hexStage at h; cases h
  | cons b t ih =>
    intro st out h
    unfold hexStage at h
    split at h
    · have := ih _ _ h; simp only [List.length_cons]; omega
    · split at h
      · cases h
        split <;> simp <;> omega
      · split at h
        · have := ih _ _ h; simp only [List.length_cons] at this ⊢; omega
        · cases h

theorem hexDecode_no_panic (inp : Bytes) (p : String) : hexDecode inp ≠ .panic p := by
  unfold hexDecode
  split
  · rename_i stage hs
    unfold hex2bin
    split
    · exact fun h => by cases h
    · split
      · exact fun h => by cases h
      · rename_i hpar _
        exact hex2binLoop_no_panic (stage.length / 2) _ _ (by simp at hpar; omega) p
  · exact fun h => by cases h
  · rename_i s hs; exact absurd hs (hexStage_no_panic _ _ _)

theorem hexDecode_len (inp out : Bytes) (h : hexDecode inp = .ok out) : 2 * out.length ≤ inp.length := by
  unfold hexDecode at h
  split at h
  · rename_i stage hs
    have h1 := hexStage_len _ _ _ hs
    unfold hex2bin at h
    split at h
    · cases h
    · split at h
      · cases h
      · have := hex2binLoop_len _ _ _ _ (Nat.le_refl _) h
        simp only [List.length_nil] at this h1; omega
  · cases h
  · cases h

/-! a85 -/
theorem a85Stage_no_panic : ∀ (inp st : Bytes) (g : Nat) (p : String), a85Stage inp st g ≠ .panic p := by
  intro inp
  induction inp with
  | nil => intro st g p; unfold a85Stage; exact fun h => by cases h
  | cons b t ih =>
    intro st g p
    unfold a85Stage
    split
    · exact ih _ _ p
    · split
      · split
        · exact fun h => by cases h
        · exact ih _ _ p
      · split
        · exact ih _ _ p
        · exact ih _ _ p

theorem a85Decode_no_panic (inp : Bytes) (p : String) : a85Decode inp ≠ .panic p := by
  unfold a85Decode
  split
  · split <;> exact fun h => by cases h
  · exact fun h => by cases h
  · rename_i s hs; exact absurd hs (a85Stage_no_panic _ _ _ _)

/-! flate -/
theorem flateDecode_eq (ext : Ext) (o : Option Dict) (input : Bytes) :
    (∃ k, flateDecode ext o input = .err k) ∨
    (∃ d, Inflate.inflate input = .ok d ∧
      flateDecode ext o input = if predictorOf o = 1 then .ok d else ext.post (o.getD []) d) := by
  cases hi : Inflate.inflate input with
  | ok d =>
    right
    refine ⟨d, rfl, ?_⟩
    unfold flateDecode zlibInit
    rw [hi]
    dsimp only
    unfold flateGlue
    rw [C06.readToEnd_complete _ (C06.zlibDec_yields _ _ _ (Nat.le_refl _)) []]
    simp
  | err k => left; exact C06.flateDecode_err ext o input k hi
  | panic p => exact absurd hi (inflate_no_panic _ _)

theorem post_no_panic (d : Dict) (dec : Bytes) (p : String) : Loader.ext.post d dec ≠ .panic p := by
  intro h
  have := C07.predictor_never_panics (Loader.fInt d Loader.kPredictor) (Loader.fInt d Loader.kColors)
    (Loader.fInt d Loader.kColumns) (Loader.fInt d Loader.kBpc) dec
  have h' : Pred.transformTail (Loader.fInt d Loader.kPredictor) (Loader.fInt d Loader.kColors)
    (Loader.fInt d Loader.kColumns) (Loader.fInt d Loader.kBpc) dec = .panic p := h
  rw [h'] at this
  cases this

theorem flateDecode_no_panic (o : Option Dict) (input : Bytes) (p : String) :
    flateDecode Loader.ext o input ≠ .panic p := by
  rcases flateDecode_eq Loader.ext o input with ⟨k, hk⟩ | ⟨d, _, hd⟩
  · rw [hk]; exact fun h => by cases h
  · rw [hd]
    split
    · exact fun h => by cases h
    · exact post_no_panic _ _ _

theorem applyFilter_no_panic (f : Filter) (d : Bytes) (p : String) : applyFilter Loader.ext f d ≠ .panic p := by
  unfold applyFilter
  split
  · exact flateDecode_no_panic _ _ _
  · split
    · exact a85Decode_no_panic _ _
    · split
      · exact hexDecode_no_panic _ _
      · split
        · exact fun h => by cases h
        · exact fun h => by cases h

/-! predictor sizes -/
theorem sumLeftLoop_len {α : Type} (add : α → α → α) (d : Nat) :
    ∀ (rest : List α) (k : Nat) (acc r : List α), Pred.sumLeftLoop add d rest k acc = .ok r →
      r.length = acc.length + rest.length := by
  intro rest
  induction rest with
  | nil => intro k acc r h; unfold Pred.sumLeftLoop at h; cases h; simp
  | cons x t ih =>
    intro k acc r h
    unfold Pred.sumLeftLoop at h
    split at h
    · have := ih _ _ _ h; simp at this ⊢; omega
    · split at h
      · have := ih _ _ _ h; simp at this ⊢; omega
      · split at h
        · have := ih _ _ _ h; simp at this ⊢; omega
        · cases h

theorem tiffRow_len (bpc colors : Nat) (row r : Bytes) (h : Pred.tiffRow bpc colors row = .ok r) :
    r.length ≤ row.length := by
  unfold Pred.tiffRow at h
  split at h
  · have := sumLeftLoop_len _ _ _ _ _ _ h; simp at this; omega
  · split at h
    · rename_i ss hs
      cases h
      have := sumLeftLoop_len _ _ _ _ _ _ hs
      rw [C07.unbe16_eq, C07.bytes16_length, this, C07.be16_eq, C07.samples16_length]
      simp; omega
    · cases h
    · cases h

theorem tiffRows_len (bpc colors rl : Nat) : ∀ (n : Nat) (data out r : Bytes),
    Pred.tiffRows bpc colors rl n data out = .ok r → r.length ≤ out.length + data.length := by
  intro n
  induction n with
  | zero => intro data out r h; unfold Pred.tiffRows at h; cases h; omega
  | succ n ih =>
    intro data out r h
    unfold Pred.tiffRows at h
    split at h
    · rename_i row hrow
      have h1 := tiffRow_len _ _ _ _ hrow
      have h2 := ih _ _ _ h
      simp only [List.length_append, List.length_drop, List.length_take] at h1 h2
      omega
    · cases h
    · cases h

theorem pngRowLoop_len (predictor bpp : Nat) (prev : Bytes) : ∀ (rest : Bytes) (k : Nat) (acc r : Bytes),
    Pred.pngRowLoop predictor bpp prev rest k acc = .ok r → r.length = acc.length + rest.length := by
  intro rest
  induction rest with
  | nil => intro k acc r h; unfold Pred.pngRowLoop at h; cases h; simp
  | cons x t ih =>
    intro k acc r h
    unfold Pred.pngRowLoop at h
    dsimp only at h
    split at h
    · cases h
    · split at h
      · cases h
      · have := ih _ _ _ h; simp at this ⊢; omega

theorem pngRows_len (predictor bpp rl : Nat) : ∀ (n : Nat) (data prev out r : Bytes),
    Pred.pngRows predictor bpp rl n data prev out = .ok r → r.length ≤ out.length + data.length := by
  intro n
  induction n with
  | zero => intro data prev out r h; unfold Pred.pngRows at h; cases h; omega
  | succ n ih =>
    intro data prev out r h
    unfold Pred.pngRows at h
    split at h
    · cases h
    · rename_i tag enc htake
      have hl : (data.take rl).length = enc.length + 1 := by rw [htake]; simp
      split at h
      · cases h
      · split at h
        · cases h
        · split at h
          · rename_i row hrow
            have h1 := pngRowLoop_len _ _ _ _ _ _ _ hrow
            have h2 := ih _ _ _ _ h
            simp only [List.length_append, List.length_drop, List.length_take, List.length_nil] at h1 h2 hl
            omega
          · cases h
          · cases h

theorem filter_len (decoded : Bytes) (predictor colors columns bpc : Nat) (r : Bytes)
    (h : Pred.filter decoded predictor colors columns bpc = .ok r) : r.length ≤ decoded.length := by
  unfold Pred.filter at h
  split at h
  · cases h; exact Nat.le_refl _
  · split at h
    · cases h
    · split at h
      · cases h
      · split at h
        · split at h
          · cases h
          · split at h
            · cases h; simp
            · split at h
              · cases h
              · have := tiffRows_len _ _ _ _ _ _ _ h; simpa using this
        · split at h
          · cases h
          · split at h
            · cases h
            · split at h
              · cases h
              · have := pngRows_len _ _ _ _ _ _ _ _ h; simpa using this

theorem post_len (d : Dict) (dec r : Bytes) (h : Loader.ext.post d dec = .ok r) : r.length ≤ dec.length :=
  filter_len _ _ _ _ _ _ h

/-! a85 sizes -/
theorem a85Stage_len : ∀ (inp st : Bytes) (g : Nat) (out : Bytes), a85Stage inp st g = .ok out →
    out.length ≤ st.length + 5 * inp.length := by
  intro inp
  induction inp with
  | nil => intro st g out h; unfold a85Stage at h; cases h; simp
  | cons b t ih =>
    intro st g out h
    unfold a85Stage at h
    split at h
    · have := ih _ _ _ h; simp only [List.length_cons] at this ⊢; omega
    · split at h
      · split at h
        · cases h
        · have := ih _ _ _ h; simp only [List.length_cons] at this ⊢; omega
      · split at h
        · have := ih _ _ _ h; simp only [List.length_cons] at this ⊢; omega
        · have := ih _ _ _ h; simp only [List.length_cons] at this ⊢; omega

theorem decodeDigit_pot (d : UInt8) (s s' : A85St) (h : decodeDigit d s = .ok s') :
    5 * s'.result.length + 4 * s'.counter = 5 * s.result.length + 4 * s.counter + 4 := by
  unfold decodeDigit at h
  dsimp only at h
  split at h
  · cases h
  · split at h
    · cases h
    · split at h
      · rename_i hc
        cases h
        have : s.counter = 4 := by simpa using hc
        simp only [List.length_cons]; omega
      · cases h; simp only; omega

theorem a85Loop_pot : ∀ (l : Bytes) (s s' : A85St), a85Loop l s = .ok s' →
    5 * s'.result.length + 4 * s'.counter = 5 * s.result.length + 4 * s.counter + 4 * l.length := by
  intro l
  induction l with
  | nil => intro s s' h; unfold a85Loop at h; cases h; simp
  | cons d t ih =>
    intro s s' h
    unfold a85Loop at h
    split at h
    · cases h
    · split at h
      · cases h
      · split at h
        · rename_i s1 hd
          have h1 := decodeDigit_pot _ _ _ hd
          have h2 := ih _ _ h
          simp only [List.length_cons]; omega
        · cases h
        · cases h

theorem a85Pad_pot : ∀ (fuel : Nat) (s : A85St) (rm : Nat) (s' : A85St) (rm' : Nat),
    a85Pad fuel s rm = .ok (s', rm') →
    5 * s'.result.length + 4 * s'.counter + 5 * rm ≤ 5 * s.result.length + 4 * s.counter + 5 * rm' := by
  intro fuel
  induction fuel with
  | zero =>
    intro s rm s' rm' h
    unfold a85Pad at h
    split at h
    · cases h; omega
    · cases h
  | succ f ih =>
    intro s rm s' rm' h
    unfold a85Pad at h
    split at h
    · cases h; omega
    · split at h
      · rename_i s1 hd
        have h1 := decodeDigit_pot _ _ _ hd
        have h2 := ih _ _ _ _ h
        omega
      · cases h
      · cases h

theorem trimLt_len : ∀ (n : Nat) (l : Bytes), l.length ≤ n → (trimLt l).length ≤ l.length := by
  intro n
  induction n using Nat.strongRecOn with
  | _ n ih =>
    intro l hl
    match l, hl with
    | [], _ => simp [trimLt]
    | [_], _ => simp [trimLt]
    | a :: b :: t, hl =>
      unfold trimLt
      split
      · have := ih t.length (by simp only [List.length_cons] at hl; omega) t (Nat.le_refl _)
        simp only [List.length_cons]; omega
      · exact Nat.le_refl _

theorem trimGtRev_len : ∀ (n : Nat) (l : Bytes), l.length ≤ n → (trimGtRev l).length ≤ l.length := by
  intro n
  induction n using Nat.strongRecOn with
  | _ n ih =>
    intro l hl
    match l, hl with
    | [], _ => simp [trimGtRev]
    | [_], _ => simp [trimGtRev]
    | a :: b :: t, hl =>
      unfold trimGtRev
      split
      · have := ih t.length (by simp only [List.length_cons] at hl; omega) t (Nat.le_refl _)
        simp only [List.length_cons]; omega
      · exact Nat.le_refl _

theorem dropWhile_len {α : Type} (p : α → Bool) (l : List α) : (l.dropWhile p).length ≤ l.length :=
  (List.dropWhile_sublist p).length_le

theorem a85Crate_len (stage out : Bytes) (h : a85Crate stage = .ok out) : 5 * out.length ≤ 4 * stage.length := by
  unfold a85Crate at h
  dsimp only at h
  generalize hs : List.filter (fun c => !isAsciiWs c)
    (trimGtRev (List.dropWhile isUniWs (trimLt (List.dropWhile isUniWs stage)).reverse)).reverse = s at h
  have hsl : s.length ≤ stage.length := by
    subst hs
    refine Nat.le_trans (List.length_filter_le _ _) ?_
    rw [List.length_reverse]
    refine Nat.le_trans (trimGtRev_len _ _ (Nat.le_refl _)) ?_
    refine Nat.le_trans (dropWhile_len _ _) ?_
    rw [List.length_reverse]
    exact Nat.le_trans (trimLt_len _ _ (Nat.le_refl _)) (dropWhile_len _ _)
  split at h
  · cases h
  · cases h
  · rename_i st hl
    have h1 := a85Loop_pot _ _ _ hl
    split at h
    · cases h
    · cases h
    · rename_i st' rm hp
      have h2 := a85Pad_pot _ _ _ _ _ hp
      split at h
      · cases h
      · cases h
        simp only [List.length_reverse, List.length_drop, List.length_nil] at h1 h2 ⊢
        omega

theorem a85Decode_len (inp out : Bytes) (h : a85Decode inp = .ok out) : out.length ≤ 4 * inp.length := by
  unfold a85Decode at h
  split at h
  · rename_i stage hs
    have h1 := a85Stage_len _ _ _ _ hs
    split at h
    · rename_i o hc
      cases h
      have h2 := a85Crate_len _ _ hc
      simp only [List.length_nil] at h1; omega
    · cases h
    · cases h
  · cases h
  · cases h

/-- the factor 4 is attained: one `z` decodes to four bytes -/
theorem a85_expands_witness : a85Decode [0x7A, 0x7E, 0x3E] = .ok [0, 0, 0, 0] := by decide

/-! inflate sizes -/
theorem bitsAux_lt (n : Nat) : ∀ (rest : Bytes) (acc cnt v : Nat) (r' : BitRd),
    bitsAux n rest acc cnt = some (v, r') → v < 2 ^ n := by
  intro rest
  induction rest with
  | nil =>
    intro acc cnt v r' h
    unfold bitsAux at h
    split at h
    · cases h; exact Nat.mod_lt _ (Nat.two_pow_pos n)
    · cases h
  | cons b t ih =>
    intro acc cnt v r' h
    unfold bitsAux at h
    split at h
    · cases h; exact Nat.mod_lt _ (Nat.two_pow_pos n)
    · exact ih _ _ _ _ h

theorem bits_lt {r : BitRd} {n v : Nat} {r' : BitRd} (h : r.bits n = some (v, r')) : v < 2 ^ n :=
  bitsAux_lt n _ _ _ _ _ h

theorem len_le : ∀ s, s < 29 → lenBase[s]?.getD 0 + 2 ^ (lenExtra[s]?.getD 0) ≤ 259 := by decide

theorem copyBack_size (d : Nat) : ∀ (n : Nat) (out : Array UInt8), (copyBack d n out).size = out.size + n := by
  intro n
  induction n with
  | zero => intro out; simp [copyBack]
  | succ n ih => intro out; unfold copyBack; rw [ih]; simp; omega

theorem codes_size (lit dist : Huff) : ∀ (fuel : Nat) (out : Array UInt8) (r : BitRd) (out' : Array UInt8) (r' : BitRd),
    codes lit dist fuel out r = .done out' r' → out'.size + 258 * bl r' ≤ out.size + 258 * bl r := by
  intro fuel
  induction fuel with
  | zero => intro out r out' r' h; unfold codes at h; cases h
  | succ f ih =>
    intro out r out' r' h
    unfold codes at h
    cases hd : decodeSym lit r with
    | none => rw [hd] at h; cases h
    | some p =>
      obtain ⟨x, r1⟩ := p
      have h1 := decodeSym_bl hd
      rw [hd] at h
      cases x with
      | none => cases h
      | some sym =>
        dsimp only at h
        split at h
        · have := ih _ _ _ _ h
          simp only [Array.size_push] at this; omega
        · split at h
          · cases h; omega
          · split at h
            · cases h
            · rename_i hs29
              cases hb : r1.bits (lenExtra[sym - 257]?.getD 0) with
              | none => rw [hb] at h; cases h
              | some p2 =>
                obtain ⟨e, r2⟩ := p2
                have h2 := bits_bl hb
                have he := bits_lt hb
                have hle := len_le (sym - 257) (by omega)
                rw [hb] at h
                dsimp only at h
                cases hd2 : decodeSym dist r2 with
                | none => rw [hd2] at h; cases h
                | some p3 =>
                  obtain ⟨y, r3⟩ := p3
                  have h3 := decodeSym_bl hd2
                  rw [hd2] at h
                  cases y with
                  | none => cases h
                  | some ds =>
                    dsimp only at h
                    split at h
                    · cases h
                    · cases hb4 : r3.bits (distExtra[ds]?.getD 0) with
                      | none => rw [hb4] at h; cases h
                      | some p4 =>
                        obtain ⟨e4, r4⟩ := p4
                        have h4 := bits_bl hb4
                        rw [hb4] at h
                        dsimp only at h
                        split at h
                        · cases h
                        · have := ih _ _ _ _ h
                          rw [copyBack_size] at this
                          omega

theorem takeBytes_size : ∀ (n : Nat) (rest : Bytes) (out out' : Array UInt8) (rest' : Bytes),
    takeBytes n rest out = some (out', rest') → out'.size + rest'.length = out.size + rest.length := by
  intro n
  induction n with
  | zero => intro rest out out' rest' h; unfold takeBytes at h; cases h; rfl
  | succ n ih =>
    intro rest out out' rest' h
    cases rest with
    | nil => unfold takeBytes at h; cases h
    | cons b t =>
      unfold takeBytes at h
      have := ih _ _ _ _ h
      simp only [List.length_cons, Array.size_push] at this ⊢; omega

theorem blocks_size : ∀ (fuel : Nat) (out : Array UInt8) (r : BitRd) (out' : Array UInt8) (r' : BitRd),
    blocks fuel out r = .done out' r' → out'.size + 258 * bl r' ≤ out.size + 258 * bl r := by
  intro fuel
  induction fuel with
  | zero => intro out r out' r' h; unfold blocks at h; cases h
  | succ f ih =>
    intro out r out' r' h
    unfold blocks at h
    cases hb1 : r.bits 1 with
    | none => rw [hb1] at h; cases h
    | some p1 =>
      obtain ⟨final, r1⟩ := p1
      have h1 := bits_bl hb1
      rw [hb1] at h
      dsimp only at h
      cases hb2 : r1.bits 2 with
      | none => rw [hb2] at h; cases h
      | some p2 =>
        obtain ⟨typ, r2⟩ := p2
        have h2 := bits_bl hb2
        rw [hb2] at h
        dsimp only at h
        have hnext : ∀ (o : Array UInt8) (rr : BitRd), o.size + 258 * bl rr ≤ out.size + 258 * bl r2 →
            (if (final == 1) = true then RawEnd.done o rr else blocks f o rr) = .done out' r' →
            out'.size + 258 * bl r' ≤ out.size + 258 * bl r := by
          intro o rr hrr hh
          split at hh
          · cases hh; omega
          · have := ih _ _ _ _ hh; omega
        split at h
        · split at h
          · rename_i l0 l1 n0 n1 rest hrest
            split at h
            · cases h
            · split at h
              · cases h
              · rename_i o' rest' htb
                have := takeBytes_size _ _ _ _ _ htb
                have hle' := takeBytes_len _ _ _ _ _ htb
                refine hnext _ _ ?_ h
                simp only [bl, BitRd.align] at hrest ⊢
                rw [hrest]
                simp only [List.length_cons]; omega
          · cases h
        · split at h
          · split at h
            · rename_i o' rr hcd
              exact hnext _ _ (codes_size _ _ _ _ _ _ _ hcd) h
            · cases h
            · cases h
            · cases h
          · split at h
            · split at h
              · cases h
              · cases h
              · rename_i lit dist r3 hdt
                have h3 := dynamicTables_bl hdt
                split at h
                · rename_i o' rr hcd
                  exact hnext _ _ (by have := codes_size _ _ _ _ _ _ _ hcd; omega) h
                · cases h
                · cases h
                · cases h
            · cases h

theorem inflate_len (input out : Bytes) (h : inflate input = .ok out) : out.length ≤ 2064 * input.length := by
  unfold inflate at h
  split at h
  · rename_i cmf flg rest
    split at h
    · cases h
    · split at h
      · cases h
      · split at h
        · cases h
        · split at h
          · cases h
          · split at h
            · rename_i o rr hb
              have := blocks_size _ _ _ _ _ hb
              split at h
              · dsimp only at h
                split at h
                · cases h
                  simp only [bl, Array.length_toList, List.length_cons] at this ⊢
                  simp at this
                  omega
                · cases h
              · cases h
            · cases h
            · cases h
            · cases h
  · cases h

/-! ## The size clause: bounds relative to the input, and what remains -/

/-- FlateDecode's output is never longer than what zlib inflated (the predictor only drops
    bytes), which is at most 2064 bytes per input byte (258 bytes per input bit). -/
theorem flateDecode_len (o : Option Dict) (d d' : Bytes) (h : flateDecode Loader.ext o d = .ok d') :
    ∃ z, Inflate.inflate d = .ok z ∧ d'.length ≤ z.length := by
  rcases flateDecode_eq Loader.ext o d with ⟨k, hk⟩ | ⟨z, hz, hd⟩
  · rw [hk] at h; cases h
  · refine ⟨z, hz, ?_⟩
    rw [hd] at h
    split at h
    · cases h; exact Nat.le_refl _
    · exact post_len _ _ _ h

/-- every decoder's output is bounded by its input: ×2064 (Flate), ×4 (ASCII85), ×1/2 (ASCIIHex) -/
theorem applyFilter_len (f : Filter) (d d' : Bytes) (h : applyFilter Loader.ext f d = .ok d') :
    d'.length ≤ 2064 * d.length := by
  unfold applyFilter at h
  split at h
  · obtain ⟨z, hz, hl⟩ := flateDecode_len _ _ _ h
    have := inflate_len _ _ hz; omega
  · split at h
    · have := a85Decode_len _ _ h; omega
    · split at h
      · have := hexDecode_len _ _ h; omega
      · split at h
        · cases h
        · cases h

/-- What is left of the size clause of `DecodersTotal`: only inputs far beyond any Rust buffer
    the loader can hold (`> 2^63 / 2064` bytes for zlib, `> 2^61` for ASCII85, `> 2^64` for hex). -/
structure DecodedSizes : Prop where
  inflate : ∀ d z : Bytes, 2 ^ 63 < 2064 * d.length → Inflate.inflate d = .ok z → z.length ≤ 2 ^ 63
  a85 : ∀ d d' : Bytes, 2 ^ 63 < 4 * d.length → a85Decode d = .ok d' → d'.length ≤ 2 ^ 63
  hex : ∀ d d' : Bytes, 2 ^ 64 < d.length → hexDecode d = .ok d' → d'.length ≤ 2 ^ 63

theorem applyFilter_buffer (hs : DecodedSizes) (f : Filter) (d d' : Bytes)
    (h : applyFilter Loader.ext f d = .ok d') : d'.length ≤ 2 ^ 63 := by
  unfold applyFilter at h
  split at h
  · obtain ⟨z, hz, hl⟩ := flateDecode_len _ _ _ h
    by_cases hb : 2 ^ 63 < 2064 * d.length
    · have := hs.inflate d z hb hz; omega
    · have := inflate_len _ _ hz; omega
  · split at h
    · by_cases hb : 2 ^ 63 < 4 * d.length
      · exact hs.a85 d d' hb h
      · have := a85Decode_len _ _ h; omega
    · split at h
      · by_cases hb : 2 ^ 64 < d.length
        · exact hs.hex d d' hb h
        · have := hexDecode_len _ _ h; omega
      · split at h
        · cases h
        · cases h

/-- `DecodersTotal` from the size hypothesis alone: the no-panic clause is a theorem. -/
theorem decodersTotal (hs : DecodedSizes) : LoaderNoPanic.DecodersTotal :=
  ⟨applyFilter_no_panic, applyFilter_buffer hs⟩

/-- `DecodedSizes` is no stronger than the size clause of `DecodersTotal` … -/
theorem decodedSizes_of_clause
    (h : ∀ (f : Filter) (d d' : Bytes), applyFilter Loader.ext f d = .ok d' → d'.length ≤ 2 ^ 63) :
    DecodedSizes where
  inflate d z _ hz := h ⟨nFlate, none⟩ d z (by
    unfold applyFilter; rw [if_pos rfl]; exact C06.flateDecode_ok _ _ _ _ rfl hz)
  a85 d d' _ hd := h ⟨nA85, none⟩ d d' (by
    unfold applyFilter; rw [if_neg (by decide), if_pos rfl]; exact hd)
  hex d d' _ hd := h ⟨nHex, none⟩ d d' (by
    unfold applyFilter; rw [if_neg (by decide), if_neg (by decide), if_pos rfl]; exact hd)

/-- … and follows from that clause restricted to inputs of more than `2^63 / 2064` bytes. -/
theorem decodedSizes_of_big
    (h : ∀ (f : Filter) (d d' : Bytes), 2 ^ 63 < 2064 * d.length →
      applyFilter Loader.ext f d = .ok d' → d'.length ≤ 2 ^ 63) : DecodedSizes where
  inflate d z hb hz := h ⟨nFlate, none⟩ d z hb (by
    unfold applyFilter; rw [if_pos rfl]; exact C06.flateDecode_ok _ _ _ _ rfl hz)
  a85 d d' hb hd := h ⟨nA85, none⟩ d d' (by omega) (by
    unfold applyFilter; rw [if_neg (by decide), if_pos rfl]; exact hd)
  hex d d' hb hd := h ⟨nHex, none⟩ d d' (by omega) (by
    unfold applyFilter; rw [if_neg (by decide), if_neg (by decide), if_pos rfl]; exact hd)

/-- **C03/C04 robustness, decoders discharged.**  `parse_data` reaches no panic site on any input
    of less than `2^62` bytes; the only hypothesis left is that decoding a stream of more than
    `2^63 / 2064` bytes (which cannot occur inside such a file, but which the list model cannot
    rule out for intermediate results of a filter chain) yields a Rust buffer. -/
theorem load_never_panics (data : Bytes) (hlen : data.length < 2 ^ 62) (hsize : DecodedSizes) :
    (Loader.parseData data).isPanic = false :=
  LoaderNoPanic.load_never_panics_partial data hlen (decodersTotal hsize)

/-- the same with the hypothesis in the shape of the size clause of `DecodersTotal`, restricted to
    over-long inputs -/
theorem load_never_panics' (data : Bytes) (hlen : data.length < 2 ^ 62)
    (hsize : ∀ (f : Filter) (d d' : Bytes), 2 ^ 63 < 2064 * d.length →
      applyFilter Loader.ext f d = .ok d' → d'.length ≤ 2 ^ 63) :
    (Loader.parseData data).isPanic = false :=
  load_never_panics data hlen (decodedSizes_of_big hsize)

/-! ## The size clause itself is false of the list model -/
theorem hexStage_zeros : ∀ (m k : Nat),
    hexStage (List.replicate m 0x30 ++ [0x3E]) (List.replicate k 0x30) =
      .ok (if (m + k) % 2 == 1 then List.replicate (m + k + 1) 0x30 else List.replicate (m + k) 0x30) := by
  intro m
  induction m with
  | zero =>
    intro k
    simp only [List.replicate_zero, List.nil_append, Nat.zero_add]
    unfold hexStage
    rw [if_neg (by decide), if_pos (by decide)]
    simp only [List.length_replicate, ← List.replicate_succ, List.reverse_replicate]
  | succ m ih =>
    intro k
    rw [List.replicate_succ, List.cons_append]
    unfold hexStage
    rw [if_neg (by decide), if_neg (by decide), if_pos (by decide), ← List.replicate_succ, ih]
    have : m + (k + 1) = m + 1 + k := by omega
    rw [this]

theorem hex2binLoop_zeros : ∀ (n j : Nat),
    hex2binLoop (List.replicate (2 * n) 0x30) (List.replicate j 0) = .ok (List.replicate (j + n) 0) := by
  intro n
  induction n with
  | zero => intro j; simp [hex2binLoop]
  | succ n ih =>
    intro j
    have : 2 * (n + 1) = 2 * n + 1 + 1 := by omega
    rw [this, List.replicate_succ, List.replicate_succ]
    unfold hex2binLoop
    have hn : nibble 0x30 = some 0 := by decide
    simp only [hn]
    have hz : (((0 : UInt8) <<< 4 ||| 0) <<< 4 ||| 0) = 0 := by decide
    rw [hz, ← List.replicate_succ, ih]
    have : j + 1 + n = j + (n + 1) := by omega
    rw [this]

/-- `2n` hex zeros decode to `n` zero bytes, for every `n` -/
theorem hexDecode_zeros (n : Nat) :
    hexDecode (List.replicate (2 * n) 0x30 ++ [0x3E]) = .ok (List.replicate n 0) := by
  unfold hexDecode
  have := hexStage_zeros (2 * n) 0
  simp only [List.replicate_zero, Nat.add_zero] at this
  rw [this]
  rw [if_neg (by simp)]
  dsimp only
  unfold hex2bin
  simp only [List.length_replicate]
  rw [if_neg (by simp), if_neg (by simp)]
  have := hex2binLoop_zeros n 0
  simpa using this

/-- The size clause of `DecodersTotal` does not hold of the list model without a bound on the
    decoder's input (lists, unlike Rust buffers, can be longer than `isize::MAX`): some size
    hypothesis is unavoidable as long as `DecodersTotal` quantifies over all inputs. -/
theorem size_clause_false :
    ¬ ∀ (f : Filter) (d d' : Bytes), applyFilter Loader.ext f d = .ok d' → d'.length ≤ 2 ^ 63 := by
  intro h
  have := h ⟨nHex, none⟩ _ _ (by
    unfold applyFilter; rw [if_neg (by decide), if_neg (by decide), if_pos rfl]
    exact hexDecode_zeros (2 ^ 63 + 1))
  simp only [List.length_replicate] at this
  omega

end Parsley.LoaderDecoders
