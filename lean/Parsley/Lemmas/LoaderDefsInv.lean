/-
  A generic invariant-preservation family for the document-loader model (Model/Loader.lean).

  The only function that changes the definitions map `Ctx.defs` is `Indirect.parseIndirect`
  (through `defsInsert`).  Hence any predicate on `Defs` that every call of `parseIndirect` on the
  buffer `s` keeps is kept by `getXrefInfo`, `firstPass` and `secondPass`.

  Part 1  the family: `Preserved`, `getXrefInfo_inv`, `firstPass_inv`, `secondPass_inv`
  Part 2  what one call of `parseIndirect` does to the definitions: `defsGet_insert_cases`,
          `parseIndirect_defs`
-/
import Parsley.Model.Loader
import Parsley.Lemmas.Indirect
namespace Parsley.LoaderDefsInv
open Parsley Parsley.Prim Parsley.Obj Parsley.Indirect Parsley.Loader

/-! ## Part 1: invariants of the definitions map through the loader -/

/-- `I` is kept by every call of the indirect-object parser on the buffer `s` -/
def Preserved (s : Bytes) (I : Defs → Prop) : Prop :=
  ∀ (c : Ctx) (i : Nat), I c.defs → I (parseIndirect c s i).2.defs

/-- `TrailerP::parse` only moves `cur_depth` -/
theorem trailerP_defs (c : Ctx) (s : Bytes) (i : Nat) : (trailerP c s i).2.defs = c.defs := by
  unfold trailerP
  split
  · rfl
  · split
    · rfl
    · rfl
    · split <;> rfl

/-- the context `parse_xref_stream` leaves is the one its `parse_pdf_indirect_obj` call left -/
theorem parseXrefStream_ctx (st : St) (s : Bytes) (i : Nat) :
    (parseXrefStream st s i).2.2.ctx = (parseIndirect st.ctx s i).2 := by
  unfold parseXrefStream
  split
  · rename_i heq; rw [heq]
  · rename_i heq; rw [heq]
  · rename_i ind j c heq
    rw [heq]
    simp only
    split
    · split
      · rfl
      · split <;> rfl
    · rfl

theorem parseXrefStream_inv (s : Bytes) (I : Defs → Prop) (hp : Preserved s I) (st : St) (i : Nat)
    (h : I st.ctx.defs) : I (parseXrefStream st s i).2.2.ctx.defs := by
  rw [parseXrefStream_ctx]
  exact hp st.ctx i h

theorem parseXrefSection_inv (s : Bytes) (I : Defs → Prop) (hp : Preserved s I) (st : St) (i : Nat)
    (h : I st.ctx.defs) : I (parseXrefSection st s i).2.2.ctx.defs := by
  unfold parseXrefSection
  split
  · exact h
  · exact parseXrefStream_inv s I hp st i h
  · rename_i xrs c heq
    simp only
    split
    · exact h
    · rename_i k hk
      have ht := trailerP_defs st.ctx s (c + k)
      split
      · rename_i q c1 ctx1 heq2; rw [heq2] at ht
        have h1 : I ctx1.defs := by rw [← ht] at h; exact h
        exact h1
      · rename_i q c1 ctx1 heq2; rw [heq2] at ht
        have h1 : I ctx1.defs := by rw [← ht] at h; exact h
        exact h1
      · rename_i d c1 ctx1 heq2
        rw [heq2] at ht
        have h1 : I ctx1.defs := by rw [← ht] at h; exact h
        split
        · exact h1
        · rename_i x hx
          split
          · exact h1
          · have hx2 := parseXrefStream_inv s I hp ⟨ctx1, st.enc || (dictGet kEncrypt d).isSome⟩ x h1
            revert hx2
            generalize parseXrefStream ⟨ctx1, st.enc || (dictGet kEncrypt d).isSome⟩ s x = r
            obtain ⟨o, c2, st2⟩ := r
            intro hx2
            cases o with
            | panic q => exact hx2
            | reject => exact hx2
            | ok v =>
              cases v with
              | none => exact hx2
              | some t => obtain ⟨ents, a, b⟩ := t; exact hx2

theorem xrefLoop_inv (s : Bytes) (I : Defs → Prop) (hp : Preserved s I) : ∀ (f : Nat) (st : St) (next : Nat)
    (cs : List Nat) (ids : List (Nat × Nat)) (xs : List Xref.Ent) (root : Option Obj),
    I st.ctx.defs → I (xrefLoop f st s next cs ids xs root).2.ctx.defs := by
  intro f
  induction f with
  | zero =>
    intro st next cs ids xs root h
    unfold xrefLoop
    exact h
  | succ f ih =>
    intro st next cs ids xs root h
    unfold xrefLoop
    split
    · exact h
    · split
      · exact h
      · have h1 := parseXrefSection_inv s I hp st next h
        split
        · rename_i heq; rw [heq] at h1; exact h1
        · rename_i heq; rw [heq] at h1; exact h1
        · rename_i x1 c1 st1 heq
          rw [heq] at h1
          have hwf1 : I st1.ctx.defs := h1
          cases x1 with
          | some info =>
            obtain ⟨ents, rt, prev⟩ := info
            simp only
            split
            · exact hwf1
            · rename_i root'' hr
              split
              · split
                · exact hwf1
                · exact hwf1
              · rename_i p
                exact ih st1 p _ _ _ root'' hwf1
          | none =>
            have h2 := parseXrefStream_inv s I hp st1 c1 hwf1
            simp only
            revert h2
            generalize parseXrefStream st1 s c1 = r
            obtain ⟨o, c2, st2⟩ := r
            intro h2
            have hwf2 : I st2.ctx.defs := h2
            cases o with
            | panic q => exact hwf2
            | reject => exact hwf2
            | ok v =>
              cases v with
              | none => exact hwf2
              | some info =>
                obtain ⟨ents, rt, prev⟩ := info
                simp only
                split
                · exact hwf2
                · rename_i root'' hr
                  split
                  · split
                    · exact hwf2
                    · exact hwf2
                  · rename_i p
                    exact ih st2 p _ _ _ root'' hwf2

theorem getXrefInfo_inv (s : Bytes) (I : Defs → Prop) (hp : Preserved s I) (st : St) (start : Nat)
    (h : I st.ctx.defs) : I (getXrefInfo st s start).2.ctx.defs := by
  unfold getXrefInfo
  exact xrefLoop_inv s I hp _ st start [] [] [] none h

theorem firstPass_inv (s : Bytes) (I : Defs → Prop) (hp : Preserved s I) :
    ∀ (infos : List ObjInfo) (c : Ctx) (os : List ObjId) (sp : List (Nat × Nat × Nat)),
      I c.defs → I (firstPass infos c s os sp).2.defs := by
  intro infos
  induction infos with
  | nil => intro c os sp h; rw [firstPass]; exact h
  | cons x t ih =>
    intro c os sp h
    cases x with
    | inStm id gen => rw [firstPass]; exact ih _ _ _ h
    | inFile id gen ofs =>
      rw [firstPass]
      split
      · exact ih _ _ _ h
      · split
        · exact h
        · have hI := hp c ofs h
          split
          · rename_i heq; rw [heq] at hI
            split
            · exact hI
            · exact ih _ _ _ hI
          · rename_i heq; rw [heq] at hI; exact ih _ _ _ hI
          · rename_i heq; rw [heq] at hI; exact hI
          · rename_i heq; rw [heq] at hI; exact hI

theorem secondPass_inv (s : Bytes) (I : Defs → Prop) (hp : Preserved s I) :
    ∀ (l : List (Nat × Nat × Nat)) (c : Ctx), I c.defs → I (secondPass l c s).2.defs := by
  intro l
  induction l with
  | nil => intro c h; rw [secondPass]; exact h
  | cons x t ih =>
    intro c h
    obtain ⟨id, gen, ofs⟩ := x
    rw [secondPass]
    split
    · exact ih _ h
    · split
      · exact h
      · have hI := hp c ofs h
        split
        · rename_i heq; rw [heq] at hI
          split
          · exact hI
          · exact ih _ hI
        · rename_i heq; rw [heq] at hI; exact hI
        · rename_i heq; rw [heq] at hI; exact hI

/-! ## Part 2: what one call of `parseIndirect` does to the definitions -/

/-- what `defsInsert` can make `defsGet` return: the new value or an old binding (no sortedness needed) -/
theorem defsGet_insert_cases (k : ObjId) (v : Located Obj) (defs : Defs) (id : ObjId) (x : Located Obj)
    (h : defsGet id (defsInsert k v defs).2 = some x) : x = v ∨ defsGet id defs = some x := by
  by_cases hk : id = k
  · subst hk
    rw [defsGet_insert_same] at h
    left
    cases h
    rfl
  · rw [defsGet_insert_other k id v defs hk] at h
    exact Or.inr h

/-- `indirectHead` does not touch the definitions (nor `max`, `eol`); the object of an accepted head
    is what `parseObj` read at some offset, and the cursor is the one `parseObj` left -/
theorem indirectHead_spec (c : Ctx) (s : Bytes) (i : Nat) :
    (indirectHead c s i).2.defs = c.defs ∧
    ∀ h e, (indirectHead c s i).1 = (.ok h, e) →
      ∃ (j : Nat) (d' : Obj.Depth), parseObj ⟨c.cur, c.max⟩ s j = ((.ok h.o, e), d') := by
  unfold indirectHead
  split
  · exact ⟨rfl, fun h e he => by cases he⟩
  · exact ⟨rfl, fun h e he => by cases he⟩
  · split
    · exact ⟨rfl, fun h e he => by cases he⟩
    · split
      · exact ⟨rfl, fun h e he => by cases he⟩
      · exact ⟨rfl, fun h e he => by cases he⟩
      · split
        · exact ⟨rfl, fun h e he => by cases he⟩
        · exact ⟨rfl, fun h e he => by cases he⟩
        · split
          · exact ⟨rfl, fun h e he => by cases he⟩
          · split
            · exact ⟨rfl, fun h e he => by cases he⟩
            · exact ⟨rfl, fun h e he => by cases he⟩
            · split
              · exact ⟨rfl, fun h e he => by cases he⟩
              · split
                · exact ⟨rfl, fun h e he => by cases he⟩
                · exact ⟨rfl, fun h e he => by cases he⟩
                · rename_i u3 j5 heq6
                  cases hpo : parseObj ⟨c.cur, c.max⟩ s j5 with
                  | mk r d =>
                    obtain ⟨r, j6⟩ := r
                    cases r with
                    | err k => exact ⟨rfl, fun h e he => by cases he⟩
                    | panic p => exact ⟨rfl, fun h e he => by cases he⟩
                    | ok o =>
                      refine ⟨rfl, fun h e he => ?_⟩
                      cases he
                      exact ⟨j5, d, hpo⟩

/-- the content of an accepted stream is a slice of the buffer -/
theorem streamContentP_content (n : Nat) (eol : Bool) (s : Bytes) (p : Nat) (sc : Located StreamContent) (e : Nat)
    (h : streamContentP n eol s p = (.ok sc, e)) : sc.val.content.length ≤ s.length := by
  unfold streamContentP at h
  split at h
  · cases h
  · simp only at h
    split at h
    · cases h
    · split at h
      · cases h
      · split at h
        · cases h
        · split at h
          · cases h
          · cases h
            simp only [List.length_take, List.length_drop]
            omega

/-- what `indirectBody` returns: the object itself, or a stream built from its dictionary -/
theorem indirectBody_spec (c : Ctx) (s : Bytes) (o : Located Obj) (j : Nat) (obj : Located Obj) (j' : Nat)
    (h : indirectBody c s o j = (.ok obj, j')) :
    obj = o ∨ ∃ kvs sc a b, o.val = .dict kvs ∧ obj = ⟨.stream kvs sc, a, b⟩ ∧ sc.content.length ≤ s.length := by
  unfold indirectBody at h
  split at h
  · rename_i kvs hd
    split at h
    · cases h
    · cases h
    · split at h
      · split at h
        · cases h
        · cases h
        · split at h
          · cases h
          · cases h
          · rename_i sc e heq
            cases h
            exact Or.inr ⟨kvs, sc.val, o.start, sc.stop, hd, rfl, streamContentP_content _ _ _ _ _ _ heq⟩
      · cases h; exact Or.inl rfl
  · cases h; exact Or.inl rfl

/-- `indirectFinish` leaves the definitions alone or inserts the object under `(num, gen)` -/
theorem indirectFinish_defs (c : Ctx) (s : Bytes) (start num gen : Nat) (obj : Located Obj) (j : Nat) :
    (indirectFinish c s start num gen obj j).2.defs = c.defs ∨
    (indirectFinish c s start num gen obj j).2.defs = (defsInsert (num, gen) obj c.defs).2 := by
  unfold indirectFinish
  split
  · exact Or.inl rfl
  · exact Or.inl rfl
  · split
    · exact Or.inl rfl
    · simp only
      cases hins : defsInsert (num, gen) obj c.defs with
      | mk old d =>
        cases old with
        | none => exact Or.inr rfl
        | some _ => exact Or.inr rfl

theorem indirectInternal_defs (c : Ctx) (s : Bytes) (i : Nat) :
    (indirectInternal c s i).2.defs = c.defs ∨
    ∃ (num gen j e : Nat) (d' : Obj.Depth) (o : Located Obj) (v : Located Obj),
      parseObj ⟨c.cur, c.max⟩ s j = ((.ok o, e), d') ∧
      (indirectInternal c s i).2.defs = (defsInsert (num, gen) v c.defs).2 ∧
      (v = o ∨ ∃ kvs sc a b, o.val = .dict kvs ∧ v = ⟨.stream kvs sc, a, b⟩ ∧ sc.content.length ≤ s.length) := by
  unfold indirectInternal
  have hh := indirectHead_spec c s i
  split
  · rename_i heq; rw [heq] at hh; exact Or.inl hh.1
  · rename_i heq; rw [heq] at hh; exact Or.inl hh.1
  · rename_i h j c1 heq
    rw [heq] at hh
    obtain ⟨hd, hpo⟩ := hh
    have hd : c1.defs = c.defs := hd
    obtain ⟨j5, d', hpo⟩ := hpo h j rfl
    split
    · exact Or.inl hd
    · exact Or.inl hd
    · rename_i obj j' heq2
      have hb := indirectBody_spec c1 s h.o j obj j' heq2
      rcases indirectFinish_defs c1 s i h.num h.gen obj j' with hf | hf
      · left; rw [hf]; exact hd
      · right
        refine ⟨h.num, h.gen, j5, j, d', h.o, obj, hpo, ?_, hb⟩
        rw [hf, hd]

/-- how `parseIndirect` changes the definitions: not at all, or by inserting one located object whose value is
    either the object `parseObj` read after the `n g obj` head (at some offset `j` of `s`), or a stream built from
    the dictionary `parseObj` read there with a content taken from `s` -/
theorem parseIndirect_defs (c : Ctx) (s : Bytes) (i : Nat) :
    (parseIndirect c s i).2.defs = c.defs ∨
    ∃ (num gen j e : Nat) (d' : Obj.Depth) (o : Located Obj) (v : Located Obj),
      parseObj ⟨c.cur, c.max⟩ s j = ((.ok o, e), d') ∧
      (parseIndirect c s i).2.defs = (defsInsert (num, gen) v c.defs).2 ∧
      (v = o ∨ ∃ kvs sc a b, o.val = .dict kvs ∧ v = ⟨.stream kvs sc, a, b⟩ ∧ sc.content.length ≤ s.length) := by
  unfold parseIndirect
  split
  · exact Or.inl rfl
  · exact Or.inl rfl
  · exact indirectInternal_defs c s _

end Parsley.LoaderDefsInv
