/-
  C03 end-to-end: `parseData` on a whole single-revision file with a classic cross-reference table.

  `ClassicFile` is the declarative layout (every freedom is a field): leading garbage, the header line,
  a body of written objects separated by arbitrary bytes, the table (any subsection partition the C13
  encoder can write), the trailer dictionary in ANY legal spelling (`Spells`), anything between the
  trailer and `startxref`, white space / comments, the offset in any digit string, `%%EOF`, a tail.
  `ClassicFile.WF` is its well-formedness: the table lists exactly the body's objects at their
  offsets, distinct identifiers, /Root is a reference, no /Prev, no /XRefStm, `startxref` points at
  the table, the garbage does not contain the magic.
  `load_classic`: loading defines EXACTLY the objects of the body, each bound to the value written,
  and reports the trailer's root.
-/
import Parsley.Lemmas.LoaderE2EClassic
import Parsley.Lemmas.LoaderE2EScan
namespace Parsley.LoaderE2E
open Parsley Parsley.Prim Parsley.Obj Parsley.Indirect Parsley.Loader Parsley.C02 Parsley.Spelling
open Parsley.XrefSpec Parsley.C13 Parsley.LoaderChain

/-- a single-revision file with a classic table, as written -/
structure ClassicFile where
  garbage : Bytes            -- anything before the header
  hdrRest : Bytes            -- the header after `%PDF-`: version, end of line, optional binary comment, anything
  body : List Placed         -- the objects, each followed by arbitrary bytes
  subs : List TSub           -- the table's subsections
  wt : Bytes                 -- after the keyword `trailer`
  ttok : Bytes               -- the trailer dictionary as spelled
  gap : Bytes                -- anything between the trailer dictionary and `startxref`
  wsx : Bytes                -- after `startxref`
  ds : Bytes                 -- the digits of the table's offset
  e : Bytes                  -- white space before `%%EOF`
  trail : Bytes              -- after `%%EOF`

namespace ClassicFile

def hdr (f : ClassicFile) : Bytes := kwPdf ++ f.hdrRest

def mid (f : ClassicFile) : Bytes :=
  bodyBytes f.body ++ (encTable f.subs ++ (kwTrailer ++ (f.wt ++ (f.ttok ++ f.gap))))

/-- the document view: everything from the header on -/
def view (f : ClassicFile) : Bytes :=
  f.hdr ++ (f.mid ++ (kwStartxref ++ (f.wsx ++ (f.ds ++ (f.e ++ (kwEOF ++ f.trail))))))

def bytes (f : ClassicFile) : Bytes := f.garbage ++ f.view

/-- the objects of the body with their offsets (relative to the header) -/
def objs (f : ClassicFile) : List (Piece × Nat) := place f.body f.hdr.length

/-- well-formedness of the file for trailer dictionary value `D` and root identifier `root` -/
structure WF (f : ClassicFile) (D : List (Bytes × Obj)) (root : ObjId) : Prop where
  /-- the magic `%PDF-` does not occur before the header -/
  noMagic : ∀ k, k < f.garbage.length → kwPdf.isPrefixOf (f.bytes.drop k) = false
  /-- every object of the body is legally written -/
  reads : ∀ q ∈ f.body, q.p.Reads
  /-- identifiers are pairwise distinct -/
  idsNodup : (f.objs.map fun q => (q.1.num, q.1.gen)).Nodup
  subsNe : f.subs ≠ []
  subsOk : ∀ t ∈ f.subs, subOk t
  /-- the table mentions every object number at most once -/
  numsNodup : ((tableEnts f.subs).map (·.obj)).Nodup
  /-- the in-use entries of the table, in table order, are the objects of the body in some order,
      each with its number, generation and offset -/
  tableObjs : ∃ perm : List (Piece × Nat), perm.Perm f.objs ∧
    infoOf (tableEnts f.subs) = perm.map fun q => ObjInfo.inFile q.1.num q.1.gen q.2
  wt : WsRun f.wt
  trailer : ∃ d, Spells d (.dict D) f.ttok ∧ d ≤ 51
  root : dictGet kRoot D = some (.ref root.1 root.2)
  noPrev : ObjStm.getUsize D kPrev = none
  noXRefStm : ObjStm.getUsize D kXRefStm = none
  wsx : WsRun f.wsx
  wsxNe : f.wsx ≠ []
  /-- no `s` in the white space / comments between `startxref` and the number (a comment there
      containing the word `startxref` would be found by the backward scan) -/
  wsxNoS : (115 : UInt8) ∉ f.wsx
  dsNe : f.ds ≠ []
  dsDig : ∀ y ∈ f.ds, isDigit y = true
  /-- `startxref` gives the offset of the table -/
  startxref : digitsVal f.ds 0 = f.hdr.length + (bodyBytes f.body).length
  ofsFits : digitsVal f.ds 0 ≤ i64Max
  e : ∀ y ∈ f.e, isWsEol y = true
  /-- no further `%%EOF` after the last one -/
  trail : ∀ k, 0 < k → kwEOF.isPrefixOf ((kwEOF ++ f.trail).drop k) = false

end ClassicFile

theorem drop_two (a b x : Bytes) : (a ++ (b ++ x)).drop (a.length + b.length) = x := by
  rw [← List.append_assoc, ← List.length_append]
  exact List.drop_left' rfl

/-- **`load_classic` (C03, end to end, classic table + direct objects)**: for every well-formed
    `ClassicFile`, `parse_data` accepts, reports the trailer's root, binds every object of the
    body to the value that was written, and defines nothing else. -/
theorem load_classic (f : ClassicFile) (D : List (Bytes × Obj)) (root : ObjId) (h : f.WF D root) :
    ∃ L : Loaded, parseData f.bytes = .ok L ∧ L.root = root ∧
      (∀ q ∈ f.objs, ObjStm.defsGet (q.1.num, q.1.gen) L.defs = some (q.1.val q.2).val) ∧
      (∀ k, (∀ q ∈ f.objs, (q.1.num, q.1.gen) ≠ k) → ObjStm.defsGet k L.defs = none) := by
  obtain ⟨perm, hperm, htab⟩ := h.tableObjs
  obtain ⟨dT, hsp, hdT⟩ := h.trailer
  have hpdf : kwPdf.isPrefixOf f.hdr = true := by
    rw [List.isPrefixOf_iff_prefix]; exact List.prefix_append _ _
  have hscan := parseData_scan f.garbage f.hdr f.mid f.wsx f.ds f.e f.trail h.noMagic hpdf h.wsx h.wsxNe h.wsxNoS
    h.dsNe h.dsDig h.ofsFits h.e h.trail
  -- the view and the cursor of the table
  have hview : f.view = f.hdr ++ (bodyBytes f.body ++ (encTable f.subs ++ (kwTrailer ++ (f.wt ++ (f.ttok ++
      (f.gap ++ (kwStartxref ++ (f.wsx ++ (f.ds ++ (f.e ++ (kwEOF ++ f.trail))))))))))) := by
    simp [ClassicFile.view, ClassicFile.mid]
  have hdropT : f.view.drop (digitsVal f.ds 0) = encTable f.subs ++ (kwTrailer ++ (f.wt ++ (f.ttok ++
      (f.gap ++ (kwStartxref ++ (f.wsx ++ (f.ds ++ (f.e ++ (kwEOF ++ f.trail))))))))) := by
    rw [h.startxref, hview]; exact drop_two _ _ _
  have hlt : digitsVal f.ds 0 < f.view.length := by
    apply Nat.lt_of_not_le
    intro hge
    rw [List.drop_eq_nil_of_le hge] at hdropT
    have := congrArg List.length hdropT
    simp [encTable, kwXref] at this
  have hx := xrefinfo_classic f.view (digitsVal f.ds 0) f.subs f.wt f.ttok _ dT D (.ref root.1 root.2) hdropT
    h.subsNe h.subsOk h.wt hsp hdT h.noXRefStm h.noPrev h.root h.numsNodup
  -- the loading stage
  have hdropB : f.view.drop f.hdr.length = bodyBytes f.body ++ (encTable f.subs ++ (kwTrailer ++ (f.wt ++ (f.ttok ++
      (f.gap ++ (kwStartxref ++ (f.wsx ++ (f.ds ++ (f.e ++ (kwEOF ++ f.trail)))))))))) := by
    rw [hview]; exact List.drop_left' rfl
  have hhl : f.hdr.length ≤ f.view.length := by
    rw [hview]; simp
  have hrb := reads_body f.body f.view f.hdr.length _ hhl hdropB h.reads
  have hmem : ∀ q, q ∈ perm ↔ q ∈ f.objs := fun q => hperm.mem_iff
  have hinfo : infoOf (tableEnts f.subs) = (perm.map itemOf).map C03.Item.info := by
    rw [htab, List.map_map]; rfl
  have hnd : ((perm.map itemOf).map C03.Item.key).Nodup := by
    have : (perm.map itemOf).map C03.Item.key = perm.map fun q => (q.1.num, q.1.gen) := by
      rw [List.map_map]; rfl
    rw [this]
    exact (hperm.map _).nodup_iff.mpr h.idsNodup
  have hread : ∀ it ∈ perm.map itemOf, it.ofs < f.view.length ∧ C03.ReadsAt 0 50 false f.view it := by
    intro it hit
    obtain ⟨q, hq, rfl⟩ := List.mem_map.mp hit
    exact hrb q ((hmem q).mp hq)
  obtain ⟨defs, hpo, hdef, hundef⟩ := C03.load_defines_exactly_partial f.garbage.length (dictGet kEncrypt D).isSome
    f.view (perm.map itemOf) hnd hread
  rw [← hinfo] at hpo
  refine ⟨⟨defs, root⟩, ?_, rfl, ?_, ?_⟩
  · show parseData (f.garbage ++ f.view) = _
    unfold ClassicFile.view
    rw [hscan]
    unfold loadRest
    have hlt' : digitsVal f.ds 0 < (f.hdr ++ (f.mid ++ (kwStartxref ++ (f.wsx ++ (f.ds ++ (f.e ++ (kwEOF ++ f.trail))))))).length := hlt
    have hx' : getXrefInfo ⟨Ctx.new 50, false⟩ (f.hdr ++ (f.mid ++ (kwStartxref ++ (f.wsx ++ (f.ds ++ (f.e ++ (kwEOF ++ f.trail))))))) (digitsVal f.ds 0) = _ := hx
    have hpo' : parseObjects f.garbage.length ⟨Ctx.new 50, (dictGet kEncrypt D).isSome⟩ (infoOf (tableEnts f.subs))
      (f.hdr ++ (f.mid ++ (kwStartxref ++ (f.wsx ++ (f.ds ++ (f.e ++ (kwEOF ++ f.trail))))))) = _ := hpo
    simp only [hlt', decide_true, Bool.not_true, Bool.false_eq_true, if_false, hx', hpo']
  · intro q hq
    have := hdef (itemOf q) (List.mem_map_of_mem ((hmem q).mpr hq))
    exact this
  · intro k hk
    apply hundef k
    intro it hit
    obtain ⟨q, hq, rfl⟩ := List.mem_map.mp hit
    exact hk q ((hmem q).mp hq)

end Parsley.LoaderE2E
