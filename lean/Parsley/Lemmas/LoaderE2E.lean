/-
  C03 end-to-end: `parseData` on a whole single-revision file with a classic cross-reference table.

  `ClassicFile` is the declarative layout (every freedom is a field): leading garbage, the header line,
  a body of written objects separated by arbitrary bytes, the table (any subsection partition the C13
  encoder can write), the trailer dictionary in ANY legal spelling (`Spells`), anything between the
  trailer and `startxref`, white space / comments, the offset in any digit string, `%%EOF`, a tail.
  `ClassicFile.WF` is its well-formedness: the table lists exactly the body's objects at their
  offsets, distinct identifiers, /Root is a reference, no /Prev, no /XRefStm, `startxref` points at
  the table, the garbage does not contain the magic.
  `load_classic`: loading defines EXACTLY the objects of the body, each bound to the value written,
  and reports the trailer's root.
-/
import Parsley.Lemmas.LoaderE2EClassic
import Parsley.Lemmas.LoaderE2EScan
import Parsley.Lemmas.LoaderE2EStm
import Parsley.Lemmas.LoaderTwoPass
namespace Parsley.LoaderE2E
open Parsley Parsley.Prim Parsley.Obj Parsley.Indirect Parsley.Loader Parsley.C02 Parsley.Spelling
open Parsley.XrefSpec Parsley.C13 Parsley.LoaderChain

/-- a stream object with a direct /Length as a piece -/
def WStm.piece (o : WStm) : Piece := ⟨o.bytes, o.num, o.gen, o.val⟩

theorem WStm.piece_reads (o : WStm) (hok : o.OK) (hlen : dictGet keyLength o.kvs = some (.int o.data.length)) :
    o.piece.Reads := by
  refine ⟨?_, fun s i post hi hd => reads_stream_direct s i o post hi hd hok hlen⟩
  simp [WStm.piece, WStm.bytes, WObj.headBytes, kwObj]; omega

/-- a single-revision file with a classic table, as written -/
structure ClassicFile where
  garbage : Bytes            -- anything before the header
  hdrRest : Bytes            -- the header after `%PDF-`: version, end of line, optional binary comment, anything
  body : List Placed         -- the objects, each followed by arbitrary bytes
  subs : List TSub           -- the table's subsections
  wt : Bytes                 -- after the keyword `trailer`
  ttok : Bytes               -- the trailer dictionary as spelled
  gap : Bytes                -- anything between the trailer dictionary and `startxref`
  wsx : Bytes                -- after `startxref`
  ds : Bytes                 -- the digits of the table's offset
  e : Bytes                  -- white space before `%%EOF`
  trail : Bytes              -- after `%%EOF`

namespace ClassicFile

def hdr (f : ClassicFile) : Bytes := kwPdf ++ f.hdrRest

def mid (f : ClassicFile) : Bytes :=
  bodyBytes f.body ++ (encTable f.subs ++ (kwTrailer ++ (f.wt ++ (f.ttok ++ f.gap))))

/-- the document view: everything from the header on -/
def view (f : ClassicFile) : Bytes :=
  f.hdr ++ (f.mid ++ (kwStartxref ++ (f.wsx ++ (f.ds ++ (f.e ++ (kwEOF ++ f.trail))))))

def bytes (f : ClassicFile) : Bytes := f.garbage ++ f.view

/-- the objects of the body with their offsets (relative to the header) -/
def objs (f : ClassicFile) : List (Piece × Nat) := place f.body f.hdr.length

/-- the part of well-formedness that does not concern the objects: garbage, table syntax, trailer, tail -/
structure WF0 (f : ClassicFile) (D : List (Bytes × Obj)) (root : ObjId) : Prop where
  /-- the magic `%PDF-` does not occur before the header -/
  noMagic : ∀ k, k < f.garbage.length → kwPdf.isPrefixOf (f.bytes.drop k) = false
  subsNe : f.subs ≠ []
  subsOk : ∀ t ∈ f.subs, subOk t
  /-- the table mentions every object number at most once -/
  numsNodup : ((tableEnts f.subs).map (·.obj)).Nodup
  wt : WsRun f.wt
  trailer : ∃ d, Spells d (.dict D) f.ttok ∧ d ≤ 51
  root : dictGet kRoot D = some (.ref root.1 root.2)
  noPrev : ObjStm.getUsize D kPrev = none
  noXRefStm : ObjStm.getUsize D kXRefStm = none
  wsx : WsRun f.wsx
  wsxNe : f.wsx ≠ []
  /-- no `s` in the white space / comments between `startxref` and the number (a comment there
      containing the word `startxref` would be found by the backward scan) -/
  wsxNoS : (115 : UInt8) ∉ f.wsx
  dsNe : f.ds ≠ []
  dsDig : ∀ y ∈ f.ds, isDigit y = true
  /-- `startxref` gives the offset of the table -/
  startxref : digitsVal f.ds 0 = f.hdr.length + (bodyBytes f.body).length
  ofsFits : digitsVal f.ds 0 ≤ i64Max
  e : ∀ y ∈ f.e, isWsEol y = true
  /-- no further `%%EOF` after the last one -/
  trail : ∀ k, 0 < k → kwEOF.isPrefixOf ((kwEOF ++ f.trail).drop k) = false

/-- well-formedness of the file for trailer dictionary value `D` and root identifier `root`, every
    object readable in every context (plain objects, streams with a direct /Length) -/
structure WF (f : ClassicFile) (D : List (Bytes × Obj)) (root : ObjId) : Prop extends WF0 f D root where
  /-- every object of the body is legally written -/
  reads : ∀ q ∈ f.body, q.p.Reads
  /-- identifiers are pairwise distinct -/
  idsNodup : (f.objs.map fun q => (q.1.num, q.1.gen)).Nodup
  /-- the in-use entries of the table, in table order, are the objects of the body in some order,
      each with its number, generation and offset -/
  tableObjs : ∃ perm : List (Piece × Nat), perm.Perm f.objs ∧
    infoOf (tableEnts f.subs) = perm.map fun q => ObjInfo.inFile q.1.num q.1.gen q.2

/-- a piece whose reading depends on a length holder: wherever it is written it reads in contexts
    binding the holder to `len` and fails with InsufficientContext where the holder is undefined -/
def _root_.Parsley.LoaderE2E.Piece.ReadsDep (p : Piece) (h : ObjId) (len : Int) : Prop :=
  0 < p.bytes.length ∧
  ∀ (s : Bytes) (i : Nat) (post : Bytes), i ≤ s.length → s.drop i = p.bytes ++ post →
    LoaderTwoPass.ReadsDep s (p.item i) h len

/-- well-formedness with streams whose /Length is a reference: `dep p = some (holder, len)` marks them;
    the holder is a plain object of the same body (written before OR after the stream) whose value is the
    integer `len` -/
structure WFfwd (f : ClassicFile) (D : List (Bytes × Obj)) (root : ObjId) (dep : Piece → Option (ObjId × Int)) : Prop
    extends WF0 f D root where
  reads : ∀ q ∈ f.body, match dep q.p with
    | none => q.p.Reads
    | some (h, len) => q.p.ReadsDep h len
  holders : ∀ q ∈ f.objs, ∀ h len, dep q.1 = some (h, len) →
    ∃ q' ∈ f.objs, dep q'.1 = none ∧ (q'.1.num, q'.1.gen) = h ∧ (q'.1.val q'.2).val = .int len
  idsNodup : (f.objs.map fun q => (q.1.num, q.1.gen)).Nodup
  tableObjs : ∃ perm : List (Piece × Nat), perm.Perm f.objs ∧
    infoOf (tableEnts f.subs) = perm.map fun q => ObjInfo.inFile q.1.num q.1.gen q.2

end ClassicFile

theorem drop_two (a b x : Bytes) : (a ++ (b ++ x)).drop (a.length + b.length) = x := by
  rw [← List.append_assoc, ← List.length_append]
  exact List.drop_left' rfl

/-- the composition up to the loading stage: whatever the stage establishes about the definitions
    (for the entries of the table, on the view, from the empty context) holds of the loaded file -/
theorem load_classic_core (f : ClassicFile) (D : List (Bytes × Obj)) (root : ObjId) (h : f.WF0 D root)
    (P : ObjStm.Defs → Prop)
    (hstage : ∀ enc, ∃ defs, parseObjects f.garbage.length ⟨Ctx.new 50, enc⟩ (infoOf (tableEnts f.subs)) f.view = .ok defs ∧ P defs) :
    ∃ L : Loaded, parseData f.bytes = .ok L ∧ L.root = root ∧ P L.defs := by
  obtain ⟨dT, hsp, hdT⟩ := h.trailer
  have hpdf : kwPdf.isPrefixOf f.hdr = true := by
    rw [List.isPrefixOf_iff_prefix]; exact List.prefix_append _ _
  have hscan := parseData_scan f.garbage f.hdr f.mid f.wsx f.ds f.e f.trail h.noMagic hpdf h.wsx h.wsxNe h.wsxNoS
    h.dsNe h.dsDig h.ofsFits h.e h.trail
  have hview : f.view = f.hdr ++ (bodyBytes f.body ++ (encTable f.subs ++ (kwTrailer ++ (f.wt ++ (f.ttok ++
      (f.gap ++ (kwStartxref ++ (f.wsx ++ (f.ds ++ (f.e ++ (kwEOF ++ f.trail))))))))))) := by
    simp [ClassicFile.view, ClassicFile.mid]
  have hdropT : f.view.drop (digitsVal f.ds 0) = encTable f.subs ++ (kwTrailer ++ (f.wt ++ (f.ttok ++
      (f.gap ++ (kwStartxref ++ (f.wsx ++ (f.ds ++ (f.e ++ (kwEOF ++ f.trail))))))))) := by
    rw [h.startxref, hview]; exact drop_two _ _ _
  have hlt : digitsVal f.ds 0 < f.view.length := by
    apply Nat.lt_of_not_le
    intro hge
    rw [List.drop_eq_nil_of_le hge] at hdropT
    have := congrArg List.length hdropT
    simp [encTable, kwXref] at this
  have hx := xrefinfo_classic f.view (digitsVal f.ds 0) f.subs f.wt f.ttok _ dT D (.ref root.1 root.2) hdropT
    h.subsNe h.subsOk h.wt hsp hdT h.noXRefStm h.noPrev h.root h.numsNodup
  obtain ⟨defs, hpo, hP⟩ := hstage (dictGet kEncrypt D).isSome
  refine ⟨⟨defs, root⟩, ?_, rfl, hP⟩
  show parseData (f.garbage ++ f.view) = _
  unfold ClassicFile.view
  rw [hscan]
  unfold loadRest
  have hlt' : digitsVal f.ds 0 < (f.hdr ++ (f.mid ++ (kwStartxref ++ (f.wsx ++ (f.ds ++ (f.e ++ (kwEOF ++ f.trail))))))).length := hlt
  have hx' : getXrefInfo ⟨Ctx.new 50, false⟩ (f.hdr ++ (f.mid ++ (kwStartxref ++ (f.wsx ++ (f.ds ++ (f.e ++ (kwEOF ++ f.trail))))))) (digitsVal f.ds 0) = _ := hx
  have hpo' : parseObjects f.garbage.length ⟨Ctx.new 50, (dictGet kEncrypt D).isSome⟩ (infoOf (tableEnts f.subs))
    (f.hdr ++ (f.mid ++ (kwStartxref ++ (f.wsx ++ (f.ds ++ (f.e ++ (kwEOF ++ f.trail))))))) = _ := hpo
  simp only [hlt', decide_true, Bool.not_true, Bool.false_eq_true, if_false, hx', hpo']

theorem view_body (f : ClassicFile) : f.hdr.length ≤ f.view.length ∧ ∃ rest, f.view.drop f.hdr.length = bodyBytes f.body ++ rest := by
  have hview : f.view = f.hdr ++ (bodyBytes f.body ++ (encTable f.subs ++ (kwTrailer ++ (f.wt ++ (f.ttok ++
      (f.gap ++ (kwStartxref ++ (f.wsx ++ (f.ds ++ (f.e ++ (kwEOF ++ f.trail))))))))))) := by
    simp [ClassicFile.view, ClassicFile.mid]
  refine ⟨by rw [hview]; simp, (encTable f.subs ++ (kwTrailer ++ (f.wt ++ (f.ttok ++
      (f.gap ++ (kwStartxref ++ (f.wsx ++ (f.ds ++ (f.e ++ (kwEOF ++ f.trail)))))))))), ?_⟩
  rw [hview]; exact List.drop_left' rfl

/-- **`load_classic` (C03, end to end, classic table + direct objects)**: for every well-formed
    `ClassicFile`, `parse_data` accepts, reports the trailer's root, binds every object of the
    body to the value that was written, and defines nothing else. -/
theorem load_classic (f : ClassicFile) (D : List (Bytes × Obj)) (root : ObjId) (h : f.WF D root) :
    ∃ L : Loaded, parseData f.bytes = .ok L ∧ L.root = root ∧
      (∀ q ∈ f.objs, ObjStm.defsGet (q.1.num, q.1.gen) L.defs = some (q.1.val q.2).val) ∧
      (∀ k, (∀ q ∈ f.objs, (q.1.num, q.1.gen) ≠ k) → ObjStm.defsGet k L.defs = none) := by
  refine load_classic_core f D root h.toWF0 (fun defs =>
    (∀ q ∈ f.objs, ObjStm.defsGet (q.1.num, q.1.gen) defs = some (q.1.val q.2).val) ∧
    (∀ k, (∀ q ∈ f.objs, (q.1.num, q.1.gen) ≠ k) → ObjStm.defsGet k defs = none)) ?_
  intro enc
  obtain ⟨perm, hperm, htab⟩ := h.tableObjs
  obtain ⟨hhl, rest, hdropB⟩ := view_body f
  have hrb := reads_body f.body f.view f.hdr.length _ hhl hdropB h.reads
  have hmem : ∀ q, q ∈ perm ↔ q ∈ f.objs := fun q => hperm.mem_iff
  have hinfo : infoOf (tableEnts f.subs) = (perm.map itemOf).map C03.Item.info := by
    rw [htab, List.map_map]; rfl
  have hnd : ((perm.map itemOf).map C03.Item.key).Nodup := by
    have : (perm.map itemOf).map C03.Item.key = perm.map fun q => (q.1.num, q.1.gen) := by
      rw [List.map_map]; rfl
    rw [this]
    exact (hperm.map _).nodup_iff.mpr h.idsNodup
  have hread : ∀ it ∈ perm.map itemOf, it.ofs < f.view.length ∧ C03.ReadsAt 0 50 false f.view it := by
    intro it hit
    obtain ⟨q, hq, rfl⟩ := List.mem_map.mp hit
    exact hrb q ((hmem q).mp hq)
  obtain ⟨defs, hpo, hdef, hundef⟩ := C03.load_defines_exactly_partial f.garbage.length enc
    f.view (perm.map itemOf) hnd hread
  rw [← hinfo] at hpo
  refine ⟨defs, hpo, ?_, ?_⟩
  · intro q hq
    exact hdef (itemOf q) (List.mem_map_of_mem ((hmem q).mpr hq))
  · intro k hk
    apply hundef k
    intro it hit
    obtain ⟨q, hq, rfl⟩ := List.mem_map.mp hit
    exact hk q ((hmem q).mp hq)

/-- the entry of the two-pass stage for an object at an offset -/
def entryOf (dep : Piece → Option (ObjId × Int)) (q : Piece × Nat) : LoaderTwoPass.Entry :=
  match dep q.1 with
  | none => .plain (itemOf q)
  | some (h, _) => .dep (itemOf q) h

theorem entryOf_item (dep : Piece → Option (ObjId × Int)) (q : Piece × Nat) : (entryOf dep q).item = itemOf q := by
  unfold entryOf
  split <;> rfl

/-- **`load_classic_fwd` (C03, end to end, classic table, incl. streams with a referenced /Length whose
    holder is written before or AFTER the stream - the second pass of `parse_objects`)** -/
theorem load_classic_fwd (f : ClassicFile) (D : List (Bytes × Obj)) (root : ObjId) (dep : Piece → Option (ObjId × Int))
    (h : f.WFfwd D root dep) :
    ∃ L : Loaded, parseData f.bytes = .ok L ∧ L.root = root ∧
      (∀ q ∈ f.objs, ObjStm.defsGet (q.1.num, q.1.gen) L.defs = some (q.1.val q.2).val) ∧
      (∀ k, (∀ q ∈ f.objs, (q.1.num, q.1.gen) ≠ k) → ObjStm.defsGet k L.defs = none) := by
  refine load_classic_core f D root h.toWF0 (fun defs =>
    (∀ q ∈ f.objs, ObjStm.defsGet (q.1.num, q.1.gen) defs = some (q.1.val q.2).val) ∧
    (∀ k, (∀ q ∈ f.objs, (q.1.num, q.1.gen) ≠ k) → ObjStm.defsGet k defs = none)) ?_
  intro enc
  obtain ⟨perm, hperm, htab⟩ := h.tableObjs
  obtain ⟨hhl, rest, hdropB⟩ := view_body f
  have hmem : ∀ q, q ∈ perm ↔ q ∈ f.objs := fun q => hperm.mem_iff
  -- what every piece satisfies wherever it is written
  have hrb := body_all (fun p s i => match dep p with
      | none => C03.ReadsAt 0 50 false s (p.item i)
      | some (hh, len) => LoaderTwoPass.ReadsDep s (p.item i) hh len) f.body f.view f.hdr.length _ hhl hdropB (by
    intro q hq
    have hr := h.reads q hq
    cases hdq : dep q.p with
    | none => rw [hdq] at hr; exact ⟨hr.1, by simpa [hdq] using hr.2⟩
    | some x =>
      obtain ⟨hh, len⟩ := x
      rw [hdq] at hr
      exact ⟨hr.1, by simpa [hdq] using hr.2⟩)
  have hinfo : infoOf (tableEnts f.subs) = (perm.map (entryOf dep)).map fun e => e.item.info := by
    rw [htab, List.map_map]
    apply List.map_congr_left
    intro q _
    simp only [Function.comp, entryOf_item]
    rfl
  have hnd : ((perm.map (entryOf dep)).map fun e => e.item.key).Nodup := by
    have : ((perm.map (entryOf dep)).map fun e => e.item.key) = perm.map fun q => (q.1.num, q.1.gen) := by
      rw [List.map_map]
      apply List.map_congr_left
      intro q _
      simp only [Function.comp, entryOf_item]
      rfl
    rw [this]
    exact (hperm.map _).nodup_iff.mpr h.idsNodup
  have hplain : ∀ it, LoaderTwoPass.Entry.plain it ∈ perm.map (entryOf dep) →
      it.ofs < f.view.length ∧ C03.ReadsAt 0 50 false f.view it := by
    intro it hit
    obtain ⟨q, hq, heq⟩ := List.mem_map.mp hit
    have hb := hrb q ((hmem q).mp hq)
    unfold entryOf at heq
    cases hdq : dep q.1 with
    | none =>
      rw [hdq] at heq hb
      injection heq with heq
      subst heq
      exact hb
    | some x => obtain ⟨hh, len⟩ := x; rw [hdq] at heq; cases heq
  have hdep : ∀ it hh, LoaderTwoPass.Entry.dep it hh ∈ perm.map (entryOf dep) → it.ofs < f.view.length ∧
      ∃ len : Int, LoaderTwoPass.ReadsDep f.view it hh len ∧
        ∃ ht, LoaderTwoPass.Entry.plain ht ∈ perm.map (entryOf dep) ∧ ht.key = hh ∧ ht.v.val = .int len := by
    intro it hh hit
    obtain ⟨q, hq, heq⟩ := List.mem_map.mp hit
    have hb := hrb q ((hmem q).mp hq)
    unfold entryOf at heq
    cases hdq : dep q.1 with
    | none => rw [hdq] at heq; cases heq
    | some x =>
      obtain ⟨h', len⟩ := x
      rw [hdq] at heq hb
      injection heq with heq1 heq2
      subst heq1 heq2
      obtain ⟨q', hq', hd', hk', hv'⟩ := h.holders q ((hmem q).mp hq) h' len hdq
      refine ⟨hb.1, len, hb.2, itemOf q', ?_, hk', hv'⟩
      have : entryOf dep q' = .plain (itemOf q') := by unfold entryOf; rw [hd']
      rw [← this]
      exact List.mem_map_of_mem ((hmem q').mpr hq')
  obtain ⟨defs, hpo, hdef, hundef⟩ := LoaderTwoPass.load_two_pass f.garbage.length enc f.view
    (perm.map (entryOf dep)) hnd hplain hdep
  rw [← hinfo] at hpo
  refine ⟨defs, hpo, ?_, ?_⟩
  · intro q hq
    have := hdef (entryOf dep q) (List.mem_map_of_mem ((hmem q).mpr hq))
    rw [entryOf_item] at this
    exact this
  · intro k hk
    apply hundef k
    intro e he
    obtain ⟨q, hq, rfl⟩ := List.mem_map.mp he
    rw [entryOf_item]
    exact hk q ((hmem q).mp hq)

/-- a stream object whose /Length is the reference `h`, as a dependent piece -/
theorem WStm.piece_readsDep (o : WStm) (hok : o.OK) (h : ObjId)
    (hlen : dictGet keyLength o.kvs = some (.ref h.1 h.2)) : o.piece.ReadsDep h o.data.length :=
  ⟨by simp [WStm.piece, WStm.bytes, WObj.headBytes, kwObj]; omega,
   fun s i post hi hd => reads_stream_ref s i o post hi hd hok h hlen⟩

end Parsley.LoaderE2E
