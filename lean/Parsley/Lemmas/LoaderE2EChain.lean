/-
  C04 end-to-end: `parseData` on a whole TWO-REVISION file (base revision + one incremental update), both
  cross-reference sections classic tables.

  `TwoRevFile` is the declarative layout (every freedom is a field): leading garbage, the header line, the
  objects of the base revision separated by arbitrary bytes, its table (any subsection partition), its
  trailer dictionary in any legal spelling, ARBITRARY bytes (the base revision's `startxref ... %%EOF` and
  whatever else), the objects of the update, its table, its trailer, arbitrary bytes, `startxref`, white
  space / comments, the offset in any digit string, `%%EOF`, a tail.
  `TwoRevFile.WF` is its well-formedness; all offsets (`ofs1`, `pos2`, `ofs2`, the objects' offsets) are
  COMPUTED from the layout, none is a hypothesis.
  `load_two_rev`: loading succeeds, reports the update's root, and for every object number the NEWEST
  table that mentions it decides (`Decides`): in use => bound to the value written in that revision, no
  other generation defined; free => undefined under every generation; mentioned by neither => undefined.

  Pieces: `xrefinfo_two` (the /Prev loop of `get_xref_info` unfolded for two classic sections at two
  cursors: result = first-occurrence merge of the two tables, root of the newest, context untouched),
  `stage_merged` (the loading stage on a merged table with stable generations, stated against the
  concatenated sections; proof after `LoaderStage.newest_wins_in_context_partial` without the walk).
-/
import Parsley.Lemmas.LoaderE2E
import Parsley.Lemmas.LoaderStage
namespace Parsley.LoaderE2E
open Parsley Parsley.Prim Parsley.Obj Parsley.Indirect Parsley.Loader Parsley.C02 Parsley.Spelling
open Parsley.XrefSpec Parsley.C13 Parsley.LoaderChain Parsley.LoaderStage
open Parsley.C03 (Item ReadsAt)
open Parsley.C04 (StableGen)

/-! ## two classic sections linked by /Prev -/

theorem table_cursor_lt {s : Bytes} {c : Nat} {subs : List TSub} {rest : Bytes}
    (hs : s.drop c = encTable subs ++ rest) : c < s.length := by
  apply Nat.lt_of_not_le
  intro hge
  rw [List.drop_eq_nil_of_le hge] at hs
  have := congrArg List.length hs
  simp [encTable, kwXref] at this

theorem encTable_pos (subs : List TSub) : 0 < (encTable subs).length := by
  simp [encTable, kwXref]

/-- the loop of `get_xref_info`, two iterations: a classic section at `c2` whose trailer has /Root and
    /Prev = `c1`, a classic section at `c1 ≠ c2` without /Prev -/
theorem xrefLoop_two (f : Nat) (s : Bytes) (c2 c1 : Nat) (subs2 subs1 : List TSub)
    (w2 tok2 rest2 w1 tok1 rest1 : Bytes) (d2 d1 : Nat) (D2 D1 : List (Bytes × Obj)) (r : Obj)
    (hs2 : s.drop c2 = encTable subs2 ++ (kwTrailer ++ (w2 ++ (tok2 ++ rest2))))
    (hs1 : s.drop c1 = encTable subs1 ++ (kwTrailer ++ (w1 ++ (tok1 ++ rest1))))
    (hne : c1 ≠ c2)
    (hne2 : subs2 ≠ []) (hok2 : ∀ t ∈ subs2, subOk t)
    (hne1 : subs1 ≠ []) (hok1 : ∀ t ∈ subs1, subOk t)
    (hw2 : WsRun w2) (hsp2 : Spells d2 (.dict D2) tok2) (hdep2 : d2 ≤ 51)
    (hw1 : WsRun w1) (hsp1 : Spells d1 (.dict D1) tok1) (hdep1 : d1 ≤ 51)
    (hxs2 : ObjStm.getUsize D2 kXRefStm = none) (hxs1 : ObjStm.getUsize D1 kXRefStm = none)
    (hprev2 : ObjStm.getUsize D2 kPrev = some c1) (hprev1 : ObjStm.getUsize D1 kPrev = none)
    (hroot : dictGet kRoot D2 = some r) :
    xrefLoop (f + 2) ⟨Ctx.new 50, false⟩ s c2 [] [] [] none =
      (.ok (dedupKey (tableEnts subs2 ++ tableEnts subs1) [], r),
        ⟨Ctx.new 50, (false || (dictGet kEncrypt D2).isSome) || (dictGet kEncrypt D1).isSome⟩) := by
  obtain ⟨e2, hsec2⟩ := section_classic [] false false s c2 subs2 w2 tok2 rest2 d2 D2 hs2 hne2 hok2 hw2 hsp2 hdep2 hxs2
  obtain ⟨e1, hsec1⟩ := section_classic [] false (false || (dictGet kEncrypt D2).isSome) s c1 subs1 w1 tok1 rest1 d1 D1
    hs1 hne1 hok1 hw1 hsp1 hdep1 hxs1
  rw [hroot, hprev2] at hsec2
  rw [hprev1] at hsec1
  have hsec2' : parseXrefSection ⟨Ctx.new 50, false⟩ s c2 = _ := hsec2
  have hsec1' : parseXrefSection ⟨Ctx.new 50, false || (dictGet kEncrypt D2).isSome⟩ s c1 = _ := hsec1
  have hc2 : c2 < s.length := table_cursor_lt hs2
  have hc1 : c1 < s.length := table_cursor_lt hs1
  have hf : f + 2 = (f + 1) + 1 := rfl
  rw [hf, xrefLoop_succ_of [] [] none (by simp) hc2, firstInfo_of_section hsec2']
  simp only [stepK, rootOf]
  have hnc : ¬ [c2].contains c1 = true := by simp [hne]
  have hsec1'' : parseXrefSection ⟨⟨[], 0, 50, false⟩, false || (dictGet kEncrypt D2).isSome⟩ s c1 = _ := hsec1
  rw [xrefLoop_succ_of _ _ _ hnc hc1, firstInfo_of_section hsec1'']
  simp only [stepK, rootOf]
  rw [addEnts_snd, addEnts_snd, dedupKey_append (tableEnts subs2) (tableEnts subs1) [] []]
  simp [Ctx.new]

/-- **`get_xref_info` on two classic sections linked by /Prev**: the first-occurrence merge of the two
    tables (newest first), the root of the newest trailer, the context as it was -/
theorem xrefinfo_two (s : Bytes) (c2 c1 : Nat) (subs2 subs1 : List TSub)
    (w2 tok2 rest2 w1 tok1 rest1 : Bytes) (d2 d1 : Nat) (D2 D1 : List (Bytes × Obj)) (r : Obj)
    (hs2 : s.drop c2 = encTable subs2 ++ (kwTrailer ++ (w2 ++ (tok2 ++ rest2))))
    (hs1 : s.drop c1 = encTable subs1 ++ (kwTrailer ++ (w1 ++ (tok1 ++ rest1))))
    (hne : c1 ≠ c2)
    (hne2 : subs2 ≠ []) (hok2 : ∀ t ∈ subs2, subOk t)
    (hne1 : subs1 ≠ []) (hok1 : ∀ t ∈ subs1, subOk t)
    (hw2 : WsRun w2) (hsp2 : Spells d2 (.dict D2) tok2) (hdep2 : d2 ≤ 51)
    (hw1 : WsRun w1) (hsp1 : Spells d1 (.dict D1) tok1) (hdep1 : d1 ≤ 51)
    (hxs2 : ObjStm.getUsize D2 kXRefStm = none) (hxs1 : ObjStm.getUsize D1 kXRefStm = none)
    (hprev2 : ObjStm.getUsize D2 kPrev = some c1) (hprev1 : ObjStm.getUsize D1 kPrev = none)
    (hroot : dictGet kRoot D2 = some r) :
    getXrefInfo ⟨Ctx.new 50, false⟩ s c2 =
      (.ok (dedupKey (tableEnts subs2 ++ tableEnts subs1) [], r),
        ⟨Ctx.new 50, (false || (dictGet kEncrypt D2).isSome) || (dictGet kEncrypt D1).isSome⟩) := by
  have hc2 : c2 < s.length := table_cursor_lt hs2
  have hlen : s.length + 1 = (s.length - 1) + 2 := by omega
  unfold getXrefInfo
  rw [hlen]
  exact xrefLoop_two _ s c2 c1 subs2 subs1 w2 tok2 rest2 w1 tok1 rest1 d2 d1 D2 D1 r hs2 hs1 hne hne2 hok2 hne1 hok1
    hw2 hsp2 hdep2 hw1 hsp1 hdep1 hxs2 hxs1 hprev2 hprev1 hroot

/-! ## the loading stage on a merged table -/

theorem number_noStm : ∀ (l : List TEnt) (start : Nat), ∀ e ∈ number start l, ∀ a b, e.st ≠ .inStream a b
  | [], _ => by intro e he; cases he
  | x :: t, start => by
    intro e he a b
    simp only [number, List.mem_cons] at he
    rcases he with rfl | he
    · simp only
      split <;> simp
    · exact number_noStm t (start + 1) e he a b

/-- a classic table has no in-stream entry -/
theorem tableEnts_noStm (subs : List TSub) : ∀ e ∈ tableEnts subs, ∀ a b, e.st ≠ .inStream a b := by
  intro e he
  simp only [tableEnts, List.mem_flatMap] at he
  obtain ⟨t, _, he⟩ := he
  exact number_noStm t.ents t.start e he

/-- **the stage on a merged table.**  `L` = the sections' entries, newest first, without in-stream entries and with one
    generation per number; every in-use entry lies in the file and reads as `(obj, gen) -> val obj gen ofs`.  Then
    `parse_objects` on the merged table (from the empty context) succeeds, and per object number the first = NEWEST
    entry in `L` decides. -/
theorem stage_merged (hofs : Nat) (enc : Bool) (s : Bytes) (L : List Xref.Ent) (val : Nat → Nat → Nat → Located Obj)
    (hnostm : ∀ e ∈ L, ∀ a b, e.st ≠ .inStream a b)
    (hstable : StableGen L)
    (hread : ∀ e ∈ L, ∀ o, e.st = .inUse o →
      o < s.length ∧ ReadsAt 0 50 false s ⟨e.obj, e.gen, o, val e.obj e.gen o⟩) :
    ∃ defs, parseObjects hofs ⟨Ctx.new 50, enc⟩ (infoOf (dedupKey L [])) s = .ok defs ∧
      (∀ n e nx, L.find? (·.obj == n) = some e → e.st = .free nx → ∀ g, ObjStm.defsGet (n, g) defs = none) ∧
      (∀ n e o, L.find? (·.obj == n) = some e → e.st = .inUse o →
          ObjStm.defsGet (n, e.gen) defs = some (val n e.gen o).val ∧
          ∀ g, g ≠ e.gen → ObjStm.defsGet (n, g) defs = none) ∧
      (∀ n, L.find? (·.obj == n) = none → ∀ g, ObjStm.defsGet (n, g) defs = none) := by
  have hfil : ∀ n, (dedupKey L []).filter (·.obj == n) = (L.find? (·.obj == n)).toList :=
    stable_gen_first_per_number L hstable
  have hsub : ∀ e ∈ dedupKey L [], e ∈ L := fun e he => mem_dedupKey_sub L e he
  have hnd : ((itemsOf val (dedupKey L [])).map Item.key).Nodup := itemsOf_nodup val L
  generalize dedupKey L [] = X at hfil hsub hnd
  obtain ⟨defs, hpo, hA, hB⟩ := C03.load_defines_exactly_partial hofs enc s (itemsOf val X) hnd (by
    intro it hit
    obtain ⟨e, heX, hst, hitq⟩ := (mem_itemsOf val it X).mp hit
    have := hread e (hsub e heX) it.ofs hst
    rw [hitq]; exact this)
  rw [← infoOf_eq_items val X (fun e he => hnostm e (hsub e he))] at hpo
  refine ⟨defs, hpo, ?_, ?_, ?_⟩
  · intro n e nx hf hfree g
    apply hB (n, g)
    intro it hit hk
    have hid : it.id = n := congrArg Prod.fst hk
    obtain ⟨e', hf', hst', _⟩ := items_of_number val X L n (hfil n) it hit hid
    rw [hf] at hf'; cases hf'
    rw [hfree] at hst'; cases hst'
  · intro n e o hf huse
    have hm : e ∈ X.filter (·.obj == n) := by rw [hfil n, hf]; simp
    obtain ⟨heX, hen⟩ := List.mem_filter.mp hm
    have hen : e.obj = n := by simpa using hen
    constructor
    · have hit : (⟨e.obj, e.gen, o, val e.obj e.gen o⟩ : Item) ∈ itemsOf val X :=
        (mem_itemsOf val _ X).mpr ⟨e, heX, huse, rfl⟩
      have := hA _ hit
      rw [hen] at this
      exact this
    · intro g hne
      apply hB (n, g)
      intro it hit hk
      have hid : it.id = n := congrArg Prod.fst hk
      obtain ⟨e', hf', _, hgen⟩ := items_of_number val X L n (hfil n) it hit hid
      rw [hf] at hf'; cases hf'
      exact hne (by rw [← hgen]; exact (congrArg Prod.snd hk).symm)
  · intro n hf g
    apply hB (n, g)
    intro it hit hk
    have hid : it.id = n := congrArg Prod.fst hk
    obtain ⟨e', hf', _, _⟩ := items_of_number val X L n (hfil n) it hit hid
    rw [hf] at hf'; cases hf'

/-- what reads at an offset is determined by the bytes -/
theorem readsAt_val_unique {s : Bytes} {a b : Item} (ha : ReadsAt 0 50 false s a) (hb : ReadsAt 0 50 false s b)
    (ho : a.ofs = b.ofs) : a.v = b.v := by
  obtain ⟨x1, y1, h1⟩ := ha [] List.Pairwise.nil rfl
  obtain ⟨x2, y2, h2⟩ := hb [] List.Pairwise.nil rfl
  rw [ho, h2] at h1
  simp only [Prod.mk.injEq, Res.ok.injEq, Located.mk.injEq, Parsley.Indirect.Indirect.mk.injEq] at h1
  exact h1.1.1.1.2.2.symm

/-! ## tables with distinct object numbers -/

theorem find_of_mem_nodup : ∀ (E : List Xref.Ent), (E.map (·.obj)).Nodup → ∀ e ∈ E, E.find? (·.obj == e.obj) = some e
  | [], _, _, he => by cases he
  | a :: t, hnd, e, he => by
    simp only [List.map_cons, List.nodup_cons] at hnd
    rcases List.mem_cons.mp he with rfl | he
    · simp
    · have hne : a.obj ≠ e.obj := fun h => hnd.1 (by rw [h]; exact List.mem_map_of_mem he)
      rw [List.find?_cons_of_neg (by simpa using hne)]
      exact find_of_mem_nodup t hnd.2 e he

theorem find_none_of (E : List Xref.Ent) (n : Nat) (h : ∀ e ∈ E, e.obj ≠ n) : E.find? (·.obj == n) = none := by
  rw [List.find?_eq_none]
  intro e he
  simpa using h e he

theorem eq_of_obj_nodup (E : List Xref.Ent) (hnd : (E.map (·.obj)).Nodup) (a b : Xref.Ent) (ha : a ∈ E) (hb : b ∈ E)
    (hab : a.obj = b.obj) : a = b := by
  have h1 := find_of_mem_nodup E hnd a ha
  have h2 := find_of_mem_nodup E hnd b hb
  rw [hab, h2] at h1
  injection h1 with h1
  exact h1.symm

/-- two tables, each mentioning a number at most once, that agree on the generation of common numbers -/
theorem stable_two (E2 E1 : List Xref.Ent) (h2 : (E2.map (·.obj)).Nodup) (h1 : (E1.map (·.obj)).Nodup)
    (hx : ∀ a ∈ E2, ∀ b ∈ E1, a.obj = b.obj → a.gen = b.gen) : StableGen (E2 ++ E1) := by
  intro a ha b hb hab
  rcases List.mem_append.mp ha with ha | ha <;> rcases List.mem_append.mp hb with hb | hb
  · rw [eq_of_obj_nodup E2 h2 a b ha hb hab]
  · exact hx a ha b hb hab
  · exact (hx b hb a ha hab.symm).symm
  · rw [eq_of_obj_nodup E1 h1 a b ha hb hab]

/-! ## entries and written objects -/

/-- the value of the object written as `(n, g)` at offset `o` among `all`, if there is one -/
def lookupVal (all : List (Piece × Nat)) (n g o : Nat) : Located Obj :=
  match all.find? (fun q => q.1.num == n && q.1.gen == g && q.2 == o) with
  | some q => q.1.val q.2
  | none => ⟨.null, 0, 0⟩

theorem lookupVal_spec (all : List (Piece × Nat)) (n g o : Nat)
    (h : ∃ q ∈ all, q.1.num = n ∧ q.1.gen = g ∧ q.2 = o) :
    ∃ q ∈ all, q.1.num = n ∧ q.1.gen = g ∧ q.2 = o ∧ lookupVal all n g o = q.1.val q.2 := by
  unfold lookupVal
  cases hf : all.find? (fun q => q.1.num == n && q.1.gen == g && q.2 == o) with
  | none =>
    obtain ⟨q, hq, h1, h2, h3⟩ := h
    have := List.find?_eq_none.mp hf q hq
    simp [h1, h2, h3] at this
  | some q =>
    have hp := List.find?_some hf
    simp only [Bool.and_eq_true, beq_iff_eq] at hp
    exact ⟨q, List.mem_of_find?_eq_some hf, hp.1.1, hp.1.2, hp.2, rfl⟩

/-- the table's in-use entries are the objects `objs` at their offsets (in some order) -/
def TableOf (E : List Xref.Ent) (objs : List (Piece × Nat)) : Prop :=
  ∃ perm : List (Piece × Nat), perm.Perm objs ∧
    infoOf E = perm.map fun q => ObjInfo.inFile q.1.num q.1.gen q.2

theorem TableOf.obj_of_ent {E : List Xref.Ent} {objs : List (Piece × Nat)} (h : TableOf E objs)
    (e : Xref.Ent) (he : e ∈ E) (o : Nat) (hst : e.st = .inUse o) :
    ∃ q ∈ objs, q.1.num = e.obj ∧ q.1.gen = e.gen ∧ q.2 = o := by
  obtain ⟨perm, hperm, htab⟩ := h
  have hm : ObjInfo.inFile e.obj e.gen o ∈ infoOf E := (C04.infoOf_inFile E e.obj e.gen o).mpr ⟨e, he, rfl, rfl, hst⟩
  rw [htab] at hm
  obtain ⟨q, hq, heq⟩ := List.mem_map.mp hm
  injection heq with h1 h2 h3
  exact ⟨q, hperm.mem_iff.mp hq, h1, h2, h3⟩

theorem TableOf.ent_of_obj {E : List Xref.Ent} {objs : List (Piece × Nat)} (h : TableOf E objs)
    (q : Piece × Nat) (hq : q ∈ objs) : ∃ e ∈ E, e.obj = q.1.num ∧ e.gen = q.1.gen ∧ e.st = .inUse q.2 := by
  obtain ⟨perm, hperm, htab⟩ := h
  have hm : ObjInfo.inFile q.1.num q.1.gen q.2 ∈ infoOf E := by
    rw [htab]
    exact List.mem_map.mpr ⟨q, hperm.mem_iff.mpr hq, rfl⟩
  exact (C04.infoOf_inFile E _ _ _).mp hm

/-! ## the file -/

/-- a file with two revisions (base + one incremental update), both with a classic table, as written -/
structure TwoRevFile where
  garbage : Bytes            -- anything before the header
  hdrRest : Bytes            -- the header after `%PDF-`
  body1 : List Placed        -- base revision: the objects, each followed by arbitrary bytes
  subs1 : List TSub          -- base revision: the table's subsections
  wt1 : Bytes                -- after the keyword `trailer`
  ttok1 : Bytes              -- the base revision's trailer dictionary as spelled
  gap1 : Bytes               -- ANYTHING up to the first object of the update (the first `startxref … %%EOF`, …)
  body2 : List Placed        -- update: the objects
  subs2 : List TSub          -- update: the table's subsections
  wt2 : Bytes
  ttok2 : Bytes              -- the update's trailer dictionary as spelled
  gap2 : Bytes               -- anything between the trailer dictionary and the last `startxref`
  wsx : Bytes                -- after `startxref`
  ds : Bytes                 -- the digits of the offset of the update's table
  e : Bytes                  -- white space before `%%EOF`
  trail : Bytes              -- after `%%EOF`

namespace TwoRevFile

def hdr (f : TwoRevFile) : Bytes := kwPdf ++ f.hdrRest

/-- the update: objects, table, trailer, gap -/
def rev2 (f : TwoRevFile) : Bytes :=
  bodyBytes f.body2 ++ (encTable f.subs2 ++ (kwTrailer ++ (f.wt2 ++ (f.ttok2 ++ f.gap2))))

/-- both revisions -/
def mid (f : TwoRevFile) : Bytes :=
  bodyBytes f.body1 ++ (encTable f.subs1 ++ (kwTrailer ++ (f.wt1 ++ (f.ttok1 ++ (f.gap1 ++ f.rev2)))))

/-- the document view: everything from the header on -/
def view (f : TwoRevFile) : Bytes :=
  f.hdr ++ (f.mid ++ (kwStartxref ++ (f.wsx ++ (f.ds ++ (f.e ++ (kwEOF ++ f.trail))))))

def bytes (f : TwoRevFile) : Bytes := f.garbage ++ f.view

/-- offset of the base revision's table (relative to the header) -/
def ofs1 (f : TwoRevFile) : Nat := f.hdr.length + (bodyBytes f.body1).length

/-- offset of the first object of the update -/
def pos2 (f : TwoRevFile) : Nat :=
  f.ofs1 + (encTable f.subs1).length + kwTrailer.length + f.wt1.length + f.ttok1.length + f.gap1.length

/-- offset of the update's table -/
def ofs2 (f : TwoRevFile) : Nat := f.pos2 + (bodyBytes f.body2).length

/-- the objects of the base revision with their offsets -/
def objs1 (f : TwoRevFile) : List (Piece × Nat) := place f.body1 f.hdr.length

/-- the objects of the update with their offsets -/
def objs2 (f : TwoRevFile) : List (Piece × Nat) := place f.body2 f.pos2

/-- the part of well-formedness that does not concern the objects -/
structure WF0 (f : TwoRevFile) (D1 D2 : List (Bytes × Obj)) (root : ObjId) : Prop where
  /-- the magic `%PDF-` does not occur before the header -/
  noMagic : ∀ k, k < f.garbage.length → kwPdf.isPrefixOf (f.bytes.drop k) = false
  subs1Ne : f.subs1 ≠ []
  subs1Ok : ∀ t ∈ f.subs1, subOk t
  subs2Ne : f.subs2 ≠ []
  subs2Ok : ∀ t ∈ f.subs2, subOk t
  /-- each table mentions every object number at most once -/
  nums1Nodup : ((tableEnts f.subs1).map (·.obj)).Nodup
  nums2Nodup : ((tableEnts f.subs2).map (·.obj)).Nodup
  /-- STABLE GENERATIONS: a number both tables mention has the same generation in both (the opposite case is
      the code's known defect #29, `C04.free_with_bumped_generation_witness`) -/
  stableGen : ∀ a ∈ tableEnts f.subs2, ∀ b ∈ tableEnts f.subs1, a.obj = b.obj → a.gen = b.gen
  wt1 : WsRun f.wt1
  wt2 : WsRun f.wt2
  trailer1 : ∃ d, Spells d (.dict D1) f.ttok1 ∧ d ≤ 51
  trailer2 : ∃ d, Spells d (.dict D2) f.ttok2 ∧ d ≤ 51
  /-- the update's trailer names the root (the base revision's /Root, if any, is irrelevant) -/
  root : dictGet kRoot D2 = some (.ref root.1 root.2)
  /-- the update's /Prev is the offset of the base revision's table; the base revision has none -/
  prev2 : ObjStm.getUsize D2 kPrev = some f.ofs1
  prev1 : ObjStm.getUsize D1 kPrev = none
  noXRefStm1 : ObjStm.getUsize D1 kXRefStm = none
  noXRefStm2 : ObjStm.getUsize D2 kXRefStm = none
  wsx : WsRun f.wsx
  wsxNe : f.wsx ≠ []
  wsxNoS : (115 : UInt8) ∉ f.wsx
  dsNe : f.ds ≠ []
  dsDig : ∀ y ∈ f.ds, isDigit y = true
  /-- the last `startxref` gives the offset of the update's table -/
  startxref : digitsVal f.ds 0 = f.ofs2
  ofsFits : digitsVal f.ds 0 ≤ i64Max
  e : ∀ y ∈ f.e, isWsEol y = true
  /-- no further `%%EOF` after the last one -/
  trail : ∀ k, 0 < k → kwEOF.isPrefixOf ((kwEOF ++ f.trail).drop k) = false

/-- well-formedness of the two-revision file for trailer dictionary values `D1` (base) and `D2` (update) and root
    identifier `root`; every object readable in every context (plain objects, streams with a direct /Length) -/
structure WF (f : TwoRevFile) (D1 D2 : List (Bytes × Obj)) (root : ObjId) : Prop extends WF0 f D1 D2 root where
  /-- every object of either revision is legally written -/
  reads1 : ∀ q ∈ f.body1, q.p.Reads
  reads2 : ∀ q ∈ f.body2, q.p.Reads
  /-- the in-use entries of each table, in table order, are the objects of that revision in some order, each with
      its number, generation and offset -/
  tableObjs1 : TableOf (tableEnts f.subs1) f.objs1
  tableObjs2 : TableOf (tableEnts f.subs2) f.objs2

theorem view_eq (f : TwoRevFile) : f.view = f.hdr ++ (bodyBytes f.body1 ++ (encTable f.subs1 ++ (kwTrailer ++ (f.wt1 ++
    (f.ttok1 ++ (f.gap1 ++ (bodyBytes f.body2 ++ (encTable f.subs2 ++ (kwTrailer ++ (f.wt2 ++ (f.ttok2 ++ (f.gap2 ++
    (kwStartxref ++ (f.wsx ++ (f.ds ++ (f.e ++ (kwEOF ++ f.trail))))))))))))))))) := by
  simp [view, mid, rev2]

/-- the cursors of the layout: where the two bodies and the two tables start -/
theorem cursors (f : TwoRevFile) :
    f.hdr.length ≤ f.view.length ∧
    (∃ r, f.view.drop f.hdr.length = bodyBytes f.body1 ++ r) ∧
    (∃ r, f.view.drop f.ofs1 = encTable f.subs1 ++ (kwTrailer ++ (f.wt1 ++ (f.ttok1 ++ r)))) ∧
    f.pos2 ≤ f.view.length ∧
    (∃ r, f.view.drop f.pos2 = bodyBytes f.body2 ++ r) ∧
    (∃ r, f.view.drop f.ofs2 = encTable f.subs2 ++ (kwTrailer ++ (f.wt2 ++ (f.ttok2 ++ r)))) := by
  have hv := view_eq f
  have h0 : f.hdr.length ≤ f.view.length := by rw [hv]; simp
  have hd0 := congrArg (List.drop f.hdr.length) hv
  rw [List.drop_left] at hd0
  have hd1 := drop_next hd0
  have hi1 := drop_le hd0 h0
  have hd2 := drop_next hd1
  have hi2 := drop_le hd1 hi1
  have hd3 := drop_next hd2
  have hi3 := drop_le hd2 hi2
  have hd4 := drop_next hd3
  have hi4 := drop_le hd3 hi3
  have hd5 := drop_next hd4
  have hi5 := drop_le hd4 hi4
  have hd6 := drop_next hd5
  have hi6 := drop_le hd5 hi5
  have hd7 := drop_next hd6
  exact ⟨h0, ⟨_, hd0⟩, ⟨_, hd1⟩, hi6, ⟨_, hd6⟩, ⟨_, hd7⟩⟩

end TwoRevFile

/-! ## the composition -/

/-- the composition up to the loading stage: whatever the stage establishes about the definitions (for the MERGED
    table, on the view, from the empty context) holds of the loaded file -/
theorem load_two_core (f : TwoRevFile) (D1 D2 : List (Bytes × Obj)) (root : ObjId) (h : f.WF0 D1 D2 root)
    (P : ObjStm.Defs → Prop)
    (hstage : ∀ enc, ∃ defs, parseObjects f.garbage.length ⟨Ctx.new 50, enc⟩
      (infoOf (dedupKey (tableEnts f.subs2 ++ tableEnts f.subs1) [])) f.view = .ok defs ∧ P defs) :
    ∃ L : Loaded, parseData f.bytes = .ok L ∧ L.root = root ∧ P L.defs := by
  obtain ⟨d1, hsp1, hd1⟩ := h.trailer1
  obtain ⟨d2, hsp2, hd2⟩ := h.trailer2
  have hpdf : kwPdf.isPrefixOf f.hdr = true := by
    rw [List.isPrefixOf_iff_prefix]; exact List.prefix_append _ _
  have hscan := parseData_scan f.garbage f.hdr f.mid f.wsx f.ds f.e f.trail h.noMagic hpdf h.wsx h.wsxNe h.wsxNoS
    h.dsNe h.dsDig h.ofsFits h.e h.trail
  obtain ⟨_, _, ⟨r1, hdrop1⟩, _, _, ⟨r2, hdrop2⟩⟩ := f.cursors
  have hne : f.ofs1 ≠ f.ofs2 := by
    have := encTable_pos f.subs1
    unfold TwoRevFile.ofs2 TwoRevFile.pos2
    omega
  rw [← h.startxref] at hdrop2 hne
  have hlt : digitsVal f.ds 0 < f.view.length := table_cursor_lt hdrop2
  have hx := xrefinfo_two f.view (digitsVal f.ds 0) f.ofs1 f.subs2 f.subs1 f.wt2 f.ttok2 r2 f.wt1 f.ttok1 r1 d2 d1 D2 D1
    (.ref root.1 root.2) hdrop2 hdrop1 hne h.subs2Ne h.subs2Ok h.subs1Ne h.subs1Ok h.wt2 hsp2 hd2 h.wt1 hsp1 hd1
    h.noXRefStm2 h.noXRefStm1 h.prev2 h.prev1 h.root
  obtain ⟨defs, hpo, hP⟩ := hstage ((false || (dictGet kEncrypt D2).isSome) || (dictGet kEncrypt D1).isSome)
  refine ⟨⟨defs, root⟩, ?_, rfl, hP⟩
  show parseData (f.garbage ++ f.view) = _
  unfold TwoRevFile.view
  rw [hscan]
  unfold loadRest
  have hlt' : digitsVal f.ds 0 < (f.hdr ++ (f.mid ++ (kwStartxref ++ (f.wsx ++ (f.ds ++ (f.e ++ (kwEOF ++ f.trail))))))).length := hlt
  have hx' : getXrefInfo ⟨Ctx.new 50, false⟩ (f.hdr ++ (f.mid ++ (kwStartxref ++ (f.wsx ++ (f.ds ++ (f.e ++ (kwEOF ++ f.trail))))))) (digitsVal f.ds 0) = _ := hx
  have hpo' : parseObjects f.garbage.length ⟨Ctx.new 50, (false || (dictGet kEncrypt D2).isSome) || (dictGet kEncrypt D1).isSome⟩
    (infoOf (dedupKey (tableEnts f.subs2 ++ tableEnts f.subs1) []))
    (f.hdr ++ (f.mid ++ (kwStartxref ++ (f.wsx ++ (f.ds ++ (f.e ++ (kwEOF ++ f.trail))))))) = _ := hpo
  simp only [hlt', decide_true, Bool.not_true, Bool.false_eq_true, if_false, hx', hpo']

/-- what the final definitions say about the object number of `e`, the entry that decides it, in the revision that
    wrote `objs`: in use => some object of the revision carries the entry's number, generation and offset, the
    identifier is bound to the value of (every) such object, and no other generation of the number is defined;
    free => the number is defined under no generation -/
def Decides (objs : List (Piece × Nat)) (defs : ObjStm.Defs) (e : Xref.Ent) : Prop :=
  (∀ o, e.st = .inUse o →
    (∃ q ∈ objs, q.1.num = e.obj ∧ q.1.gen = e.gen ∧ q.2 = o) ∧
    (∀ q ∈ objs, q.1.num = e.obj → q.1.gen = e.gen → q.2 = o →
      ObjStm.defsGet (e.obj, e.gen) defs = some (q.1.val q.2).val) ∧
    (∀ g, g ≠ e.gen → ObjStm.defsGet (e.obj, g) defs = none)) ∧
  (∀ nx, e.st = .free nx → ∀ g, ObjStm.defsGet (e.obj, g) defs = none)

/-- **`load_two_rev` (C04, end to end, two revisions with classic tables)** -/
theorem load_two_rev (f : TwoRevFile) (D1 D2 : List (Bytes × Obj)) (root : ObjId) (h : f.WF D1 D2 root) :
    ∃ L : Loaded, parseData f.bytes = .ok L ∧ L.root = root ∧
      (∀ e ∈ tableEnts f.subs2, Decides f.objs2 L.defs e) ∧
      (∀ e ∈ tableEnts f.subs1, (∀ e2 ∈ tableEnts f.subs2, e2.obj ≠ e.obj) → Decides f.objs1 L.defs e) ∧
      (∀ n, (∀ e ∈ tableEnts f.subs2, e.obj ≠ n) → (∀ e ∈ tableEnts f.subs1, e.obj ≠ n) →
        ∀ g, ObjStm.defsGet (n, g) L.defs = none) := by
  refine load_two_core f D1 D2 root h.toWF0 (fun defs =>
    (∀ e ∈ tableEnts f.subs2, Decides f.objs2 defs e) ∧
    (∀ e ∈ tableEnts f.subs1, (∀ e2 ∈ tableEnts f.subs2, e2.obj ≠ e.obj) → Decides f.objs1 defs e) ∧
    (∀ n, (∀ e ∈ tableEnts f.subs2, e.obj ≠ n) → (∀ e ∈ tableEnts f.subs1, e.obj ≠ n) →
      ∀ g, ObjStm.defsGet (n, g) defs = none)) ?_
  intro enc
  obtain ⟨hh0, ⟨rb1, hb1⟩, _, hp2, ⟨rb2, hb2⟩, _⟩ := f.cursors
  have hr1 : ∀ q ∈ f.objs1, q.2 < f.view.length ∧ ReadsAt 0 50 false f.view (itemOf q) :=
    reads_body f.body1 f.view f.hdr.length _ hh0 hb1 h.reads1
  have hr2 : ∀ q ∈ f.objs2, q.2 < f.view.length ∧ ReadsAt 0 50 false f.view (itemOf q) :=
    reads_body f.body2 f.view f.pos2 _ hp2 hb2 h.reads2
  have hrall : ∀ q ∈ f.objs2 ++ f.objs1, q.2 < f.view.length ∧ ReadsAt 0 50 false f.view (itemOf q) := by
    intro q hq
    rcases List.mem_append.mp hq with hq | hq
    · exact hr2 q hq
    · exact hr1 q hq
  -- every in-use entry of either table points at an object of its revision
  have hobj : ∀ e ∈ tableEnts f.subs2 ++ tableEnts f.subs1, ∀ o, e.st = .inUse o →
      ∃ q ∈ f.objs2 ++ f.objs1, q.1.num = e.obj ∧ q.1.gen = e.gen ∧ q.2 = o := by
    intro e he o hst
    rcases List.mem_append.mp he with he | he
    · obtain ⟨q, hq, hq'⟩ := h.tableObjs2.obj_of_ent e he o hst
      exact ⟨q, List.mem_append_left _ hq, hq'⟩
    · obtain ⟨q, hq, hq'⟩ := h.tableObjs1.obj_of_ent e he o hst
      exact ⟨q, List.mem_append_right _ hq, hq'⟩
  have hstable : StableGen (tableEnts f.subs2 ++ tableEnts f.subs1) :=
    stable_two _ _ h.nums2Nodup h.nums1Nodup h.stableGen
  have hnostm : ∀ e ∈ tableEnts f.subs2 ++ tableEnts f.subs1, ∀ a b, e.st ≠ .inStream a b := by
    intro e he
    rcases List.mem_append.mp he with he | he
    · exact tableEnts_noStm _ e he
    · exact tableEnts_noStm _ e he
  obtain ⟨defs, hpo, hF, hU, hN⟩ := stage_merged f.garbage.length enc f.view (tableEnts f.subs2 ++ tableEnts f.subs1)
    (lookupVal (f.objs2 ++ f.objs1)) hnostm hstable (by
      intro e he o hst
      obtain ⟨q, hq, h1, h2, h3, hv⟩ := lookupVal_spec _ e.obj e.gen o (hobj e he o hst)
      have := hrall q hq
      rw [hv, ← h1, ← h2, ← h3]
      exact this)
  -- the value bound for an in-use deciding entry is the value of every matching object
  have hval : ∀ e ∈ tableEnts f.subs2 ++ tableEnts f.subs1, ∀ o, e.st = .inUse o →
      ∀ q ∈ f.objs2 ++ f.objs1, q.1.num = e.obj → q.1.gen = e.gen → q.2 = o →
        lookupVal (f.objs2 ++ f.objs1) e.obj e.gen o = q.1.val q.2 := by
    intro e he o hst q hq _ _ h3
    obtain ⟨q', hq', _, _, h3', hv⟩ := lookupVal_spec _ e.obj e.gen o (hobj e he o hst)
    rw [hv]
    exact readsAt_val_unique (hrall q' hq').2 (hrall q hq).2 (by show q'.2 = q.2; rw [h3, h3'])
  -- an entry that is the first of its number in the concatenation decides
  have hdec : ∀ (objs : List (Piece × Nat)) (e : Xref.Ent), (∀ q ∈ objs, q ∈ f.objs2 ++ f.objs1) →
      (∀ o, e.st = .inUse o → ∃ q ∈ objs, q.1.num = e.obj ∧ q.1.gen = e.gen ∧ q.2 = o) →
      e ∈ tableEnts f.subs2 ++ tableEnts f.subs1 →
      (tableEnts f.subs2 ++ tableEnts f.subs1).find? (·.obj == e.obj) = some e → Decides objs defs e := by
    intro objs e hsub hex he hfind
    refine ⟨fun o hst => ⟨hex o hst, ?_, (hU e.obj e o hfind hst).2⟩, fun nx hfree => hF e.obj e nx hfind hfree⟩
    intro q hq h1 h2 h3
    rw [(hU e.obj e o hfind hst).1, hval e he o hst q (hsub q hq) h1 h2 h3]
  refine ⟨defs, hpo, ?_, ?_, ?_⟩
  · intro e he
    apply hdec f.objs2 e (fun q hq => List.mem_append_left _ hq) (fun o hst => h.tableObjs2.obj_of_ent e he o hst)
      (List.mem_append_left _ he)
    rw [List.find?_append, find_of_mem_nodup _ h.nums2Nodup e he]
    rfl
  · intro e he hno
    apply hdec f.objs1 e (fun q hq => List.mem_append_right _ hq) (fun o hst => h.tableObjs1.obj_of_ent e he o hst)
      (List.mem_append_right _ he)
    rw [List.find?_append, find_none_of _ e.obj hno, find_of_mem_nodup _ h.nums1Nodup e he]
    rfl
  · intro n hn2 hn1 g
    apply hN n _ g
    rw [List.find?_append, find_none_of _ n hn2, find_none_of _ n hn1]
    rfl

/-- the same in terms of the objects written: every object of the update is defined with its value; an object of
    the base revision whose number the update's table does not mention is defined with its value -/
theorem load_two_rev_objs (f : TwoRevFile) (D1 D2 : List (Bytes × Obj)) (root : ObjId) (h : f.WF D1 D2 root) :
    ∃ L : Loaded, parseData f.bytes = .ok L ∧ L.root = root ∧
      (∀ q ∈ f.objs2, ObjStm.defsGet (q.1.num, q.1.gen) L.defs = some (q.1.val q.2).val) ∧
      (∀ q ∈ f.objs1, (∀ e2 ∈ tableEnts f.subs2, e2.obj ≠ q.1.num) →
        ObjStm.defsGet (q.1.num, q.1.gen) L.defs = some (q.1.val q.2).val) := by
  obtain ⟨L, hL, hroot, h2, h1, _⟩ := load_two_rev f D1 D2 root h
  refine ⟨L, hL, hroot, ?_, ?_⟩
  · intro q hq
    obtain ⟨e, he, ho, hg, hst⟩ := h.tableObjs2.ent_of_obj q hq
    have := ((h2 e he).1 q.2 hst).2.1 q hq ho.symm hg.symm rfl
    rw [ho, hg] at this
    exact this
  · intro q hq hno
    obtain ⟨e, he, ho, hg, hst⟩ := h.tableObjs1.ent_of_obj q hq
    have := ((h1 e he (by rw [ho]; exact hno)).1 q.2 hst).2.1 q hq ho.symm hg.symm rfl
    rw [ho, hg] at this
    exact this

end Parsley.LoaderE2E
