/-
  C04 end-to-end, spec side: the outcome of `load_two_rev` in the vocabulary of Spec/Doc.lean.

  `saidOf objs E root` is what a revision SAID (`DocSpec.Said`): it wrote the objects `objs` (identifier and value),
  freed the numbers of the free entries of its table `E`, and named `root`.  `load_two_rev_spec`: for a well-formed
  `TwoRevFile` the loader's final definitions are exactly the bindings of `DocSpec.resolve [said1, said2]`
  ("the newest revision that mentions a number wins") and the root is the one `resolve` reports.
  The bindings are compared as a relation (`(k, v) ∈ resolve … ↔ defsGet k defs = some v`): `resolve` returns a list
  sorted by identifier, the context is a map.
-/
import Parsley.Lemmas.LoaderE2EChain
import Parsley.Spec.Doc
namespace Parsley.LoaderE2E
open Parsley Parsley.Prim Parsley.Obj Parsley.Indirect Parsley.Loader
open Parsley.XrefSpec Parsley.C13 Parsley.LoaderChain Parsley.LoaderStage
open Parsley.DocSpec (forget applyRev insertSorted sortDefs resolve Said)

/-! ## membership in `resolve` -/

theorem mem_forget (n : Nat) (m : List (DocSpec.ObjId × Obj)) (x : DocSpec.ObjId × Obj) :
    x ∈ forget n m ↔ x ∈ m ∧ x.1.1 ≠ n := by
  simp [forget, List.mem_filter]

theorem mem_foldl_forget (freed : List Nat) : ∀ (m : List (DocSpec.ObjId × Obj)) (x : DocSpec.ObjId × Obj),
    x ∈ freed.foldl (fun m n => forget n m) m ↔ x ∈ m ∧ x.1.1 ∉ freed := by
  induction freed with
  | nil => intro m x; simp
  | cons n t ih =>
    intro m x
    rw [List.foldl_cons, ih, mem_forget, List.mem_cons]
    constructor
    · rintro ⟨⟨h1, h2⟩, h3⟩
      exact ⟨h1, fun h => h.elim h2 h3⟩
    · rintro ⟨h1, h2⟩
      exact ⟨⟨h1, fun h => h2 (Or.inl h)⟩, fun h => h2 (Or.inr h)⟩

theorem mem_foldl_written (w : List (DocSpec.ObjId × Obj)) (hnd : (w.map (·.1.1)).Nodup) :
    ∀ (m : List (DocSpec.ObjId × Obj)) (x : DocSpec.ObjId × Obj),
    x ∈ w.foldl (fun m e => forget e.1.1 m ++ [e]) m ↔ (x ∈ m ∧ x.1.1 ∉ w.map (·.1.1)) ∨ x ∈ w := by
  induction w with
  | nil => intro m x; simp
  | cons e t ih =>
    intro m x
    simp only [List.map_cons, List.nodup_cons] at hnd
    rw [List.foldl_cons, ih hnd.2, List.mem_append, mem_forget, List.mem_singleton, List.map_cons, List.mem_cons,
      List.mem_cons]
    constructor
    · rintro (⟨(⟨h1, h2⟩ | h1), h3⟩ | h)
      · exact Or.inl ⟨h1, fun h => h.elim h2 h3⟩
      · exact Or.inr (Or.inl h1)
      · exact Or.inr (Or.inr h)
    · rintro (⟨h1, h2⟩ | h | h)
      · exact Or.inl ⟨Or.inl ⟨h1, fun h => h2 (Or.inl h)⟩, fun h => h2 (Or.inr h)⟩
      · subst h
        exact Or.inl ⟨Or.inr rfl, hnd.1⟩
      · exact Or.inr h

/-- what is known after a revision whose written objects have pairwise distinct numbers: what it wrote, and what was
    known before about the numbers it neither freed nor wrote -/
theorem mem_applyRev (m : List (DocSpec.ObjId × Obj)) (r : Said) (hnd : (r.written.map (·.1.1)).Nodup)
    (x : DocSpec.ObjId × Obj) :
    x ∈ applyRev m r ↔ (x ∈ m ∧ x.1.1 ∉ r.freed ∧ x.1.1 ∉ r.written.map (·.1.1)) ∨ x ∈ r.written := by
  unfold applyRev
  simp only
  rw [mem_foldl_written r.written hnd, mem_foldl_forget]
  constructor
  · rintro (⟨⟨h1, h2⟩, h3⟩ | h)
    · exact Or.inl ⟨h1, h2, h3⟩
    · exact Or.inr h
  · rintro (⟨h1, h2, h3⟩ | h)
    · exact Or.inl ⟨⟨h1, h2⟩, h3⟩
    · exact Or.inr h

theorem mem_insertSorted (e : DocSpec.ObjId × Obj) : ∀ (l : List (DocSpec.ObjId × Obj)) (x : DocSpec.ObjId × Obj),
    x ∈ insertSorted e l ↔ x = e ∨ x ∈ l
  | [], x => by simp [insertSorted]
  | y :: t, x => by
    unfold insertSorted
    split
    · simp
    · rw [List.mem_cons, mem_insertSorted e t x, List.mem_cons]
      constructor
      · rintro (h | h | h)
        · exact Or.inr (Or.inl h)
        · exact Or.inl h
        · exact Or.inr (Or.inr h)
      · rintro (h | h | h)
        · exact Or.inr (Or.inl h)
        · exact Or.inl h
        · exact Or.inr (Or.inr h)

theorem mem_foldl_insertSorted (m : List (DocSpec.ObjId × Obj)) : ∀ (acc : List (DocSpec.ObjId × Obj))
    (x : DocSpec.ObjId × Obj), x ∈ m.foldl (fun acc e => insertSorted e acc) acc ↔ x ∈ acc ∨ x ∈ m := by
  induction m with
  | nil => intro acc x; simp
  | cons e t ih =>
    intro acc x
    rw [List.foldl_cons, ih, mem_insertSorted, List.mem_cons]
    constructor
    · rintro ((h | h) | h)
      · exact Or.inr (Or.inl h)
      · exact Or.inl h
      · exact Or.inr (Or.inr h)
    · rintro (h | h | h)
      · exact Or.inl (Or.inr h)
      · exact Or.inl (Or.inl h)
      · exact Or.inr h

theorem mem_sortDefs (m : List (DocSpec.ObjId × Obj)) (x : DocSpec.ObjId × Obj) : x ∈ sortDefs m ↔ x ∈ m := by
  unfold sortDefs
  rw [mem_foldl_insertSorted]
  simp

/-! ## what a revision said -/

def isFreeEnt (e : Xref.Ent) : Bool :=
  match e.st with
  | .free _ => true
  | _ => false

/-- what the revision with objects `objs` and table `E` said -/
def saidOf (objs : List (Piece × Nat)) (E : List Xref.Ent) (root : DocSpec.ObjId) : Said where
  written := objs.map fun q => ((q.1.num, q.1.gen), (q.1.val q.2).val)
  freed := (E.filter isFreeEnt).map (·.obj)
  root := root

theorem mem_written (objs : List (Piece × Nat)) (E : List Xref.Ent) (root : DocSpec.ObjId) (k : DocSpec.ObjId) (v : Obj) :
    (k, v) ∈ (saidOf objs E root).written ↔ ∃ q ∈ objs, (q.1.num, q.1.gen) = k ∧ (q.1.val q.2).val = v := by
  simp only [saidOf, List.mem_map, Prod.mk.injEq]

theorem written_nums (objs : List (Piece × Nat)) (E : List Xref.Ent) (root : DocSpec.ObjId) :
    (saidOf objs E root).written.map (·.1.1) = objs.map (·.1.num) := by
  simp only [saidOf, List.map_map]
  rfl

def infoNum : ObjInfo → Nat
  | .inFile n _ _ => n
  | .inStm n _ => n

theorem infoOf_nums_sublist : ∀ E : List Xref.Ent, (∀ e ∈ E, ∀ a b, e.st ≠ .inStream a b) →
    ((infoOf E).map infoNum).Sublist (E.map (·.obj))
  | [], _ => List.Sublist.slnil
  | e :: t, h => by
    have ih := infoOf_nums_sublist t (fun x hx => h x (List.mem_cons_of_mem _ hx))
    unfold infoOf
    cases hst : e.st with
    | free n => exact List.Sublist.cons _ ih
    | inUse o => exact List.Sublist.cons_cons _ ih
    | inStream a b => exact absurd hst (h e List.mem_cons_self a b)

/-- the objects of a revision whose table mentions every number once have pairwise distinct numbers -/
theorem TableOf.nums_nodup {E : List Xref.Ent} {objs : List (Piece × Nat)} (h : TableOf E objs)
    (hno : ∀ e ∈ E, ∀ a b, e.st ≠ .inStream a b) (hnd : (E.map (·.obj)).Nodup) : (objs.map (·.1.num)).Nodup := by
  obtain ⟨perm, hperm, htab⟩ := h
  have h1 : perm.map (·.1.num) = (infoOf E).map infoNum := by
    rw [htab, List.map_map]; rfl
  have h2 : (perm.map (·.1.num)).Nodup := by
    rw [h1]; exact List.Nodup.sublist (infoOf_nums_sublist E hno) hnd
  exact (hperm.map _).nodup_iff.mp h2

/-- a number is neither freed nor written by a revision iff its table does not mention it -/
theorem not_mentioned_iff {E : List Xref.Ent} {objs : List (Piece × Nat)} (h : TableOf E objs)
    (hno : ∀ e ∈ E, ∀ a b, e.st ≠ .inStream a b) (root : DocSpec.ObjId) (n : Nat) :
    (n ∉ (saidOf objs E root).freed ∧ n ∉ (saidOf objs E root).written.map (·.1.1)) ↔ ∀ e ∈ E, e.obj ≠ n := by
  rw [written_nums]
  constructor
  · rintro ⟨hf, hw⟩ e he hen
    cases hst : e.st with
    | free nx =>
      apply hf
      simp only [saidOf, List.mem_map, List.mem_filter]
      exact ⟨e, ⟨he, by simp [isFreeEnt, hst]⟩, hen⟩
    | inUse o =>
      obtain ⟨q, hq, hq1, _, _⟩ := h.obj_of_ent e he o hst
      exact hw (List.mem_map.mpr ⟨q, hq, hq1.trans hen⟩)
    | inStream a b => exact hno e he a b hst
  · intro hall
    constructor
    · intro hf
      simp only [saidOf, List.mem_map, List.mem_filter] at hf
      obtain ⟨e, ⟨he, _⟩, hen⟩ := hf
      exact hall e he hen
    · intro hw
      obtain ⟨q, hq, hqn⟩ := List.mem_map.mp hw
      obtain ⟨e, he, heo, _, _⟩ := h.ent_of_obj q hq
      exact hall e he (heo.trans hqn)

/-! ## what `Decides` says about single bindings -/

theorem Decides.obj_bound {objs : List (Piece × Nat)} {defs : ObjStm.Defs} {e : Xref.Ent} (D : Decides objs defs e)
    (q : Piece × Nat) (hq : q ∈ objs) (h1 : q.1.num = e.obj) (h2 : q.1.gen = e.gen) (hst : e.st = .inUse q.2) :
    ObjStm.defsGet (q.1.num, q.1.gen) defs = some (q.1.val q.2).val := by
  have := (D.1 q.2 hst).2.1 q hq h1 h2 rfl
  rw [h1, h2]
  exact this

theorem Decides.bound_inv {objs : List (Piece × Nat)} {defs : ObjStm.Defs} {e : Xref.Ent} (D : Decides objs defs e)
    (hno : ∀ a b, e.st ≠ .inStream a b) (g : Nat) (v : Obj) (hg : ObjStm.defsGet (e.obj, g) defs = some v) :
    ∃ q ∈ objs, (q.1.num, q.1.gen) = (e.obj, g) ∧ (q.1.val q.2).val = v := by
  cases hst : e.st with
  | free nx =>
    rw [D.2 nx hst g] at hg
    cases hg
  | inStream a b => exact absurd hst (hno a b)
  | inUse o =>
    obtain ⟨⟨q, hq, hq1, hq2, hq3⟩, hval, hoth⟩ := D.1 o hst
    by_cases hge : g = e.gen
    · subst hge
      rw [hval q hq hq1 hq2 hq3] at hg
      injection hg with hg
      exact ⟨q, hq, by rw [hq1, hq2], hg⟩
    · rw [hoth g hge] at hg
      cases hg

/-! ## the corollary -/

namespace TwoRevFile

/-- what the base revision said (its root is overridden by the update's; any identifier may stand here) -/
def said1 (f : TwoRevFile) (root1 : DocSpec.ObjId) : Said := saidOf f.objs1 (tableEnts f.subs1) root1

/-- what the update said -/
def said2 (f : TwoRevFile) (root : DocSpec.ObjId) : Said := saidOf f.objs2 (tableEnts f.subs2) root

end TwoRevFile

/-- **`load_two_rev_spec`**: the loaded document is `DocSpec.resolve` of what the two revisions said -/
theorem load_two_rev_spec (f : TwoRevFile) (D1 D2 : List (Bytes × Obj)) (root root1 : ObjId) (h : f.WF D1 D2 root) :
    ∃ L : Loaded, parseData f.bytes = .ok L ∧
      (resolve [f.said1 root1, f.said2 root]).2 = some L.root ∧
      ∀ (k : ObjId) (v : Obj), (k, v) ∈ (resolve [f.said1 root1, f.said2 root]).1 ↔ ObjStm.defsGet k L.defs = some v := by
  obtain ⟨L, hL, hroot, h2, h1, h0⟩ := load_two_rev f D1 D2 root h
  refine ⟨L, hL, by rw [hroot]; rfl, ?_⟩
  have hno2 := tableEnts_noStm f.subs2
  have hno1 := tableEnts_noStm f.subs1
  have hnd2 : ((f.said2 root).written.map (·.1.1)).Nodup := by
    unfold TwoRevFile.said2
    rw [written_nums]
    exact h.tableObjs2.nums_nodup hno2 h.nums2Nodup
  have hnd1 : ((f.said1 root1).written.map (·.1.1)).Nodup := by
    unfold TwoRevFile.said1
    rw [written_nums]
    exact h.tableObjs1.nums_nodup hno1 h.nums1Nodup
  intro k v
  have hres : (resolve [f.said1 root1, f.said2 root]).1 = sortDefs (applyRev (applyRev [] (f.said1 root1)) (f.said2 root)) := rfl
  rw [hres, mem_sortDefs, mem_applyRev _ _ hnd2, mem_applyRev _ _ hnd1]
  have hnm := not_mentioned_iff h.tableObjs2 hno2 root k.1
  have hw2 := mem_written f.objs2 (tableEnts f.subs2) root k v
  have hw1 := mem_written f.objs1 (tableEnts f.subs1) root1 k v
  constructor
  · rintro (⟨(⟨hnil, _⟩ | hin1), hnf, hnw⟩ | hin2)
    · cases hnil
    · -- written by the base revision, not mentioned by the update
      obtain ⟨q, hq, hk, hv⟩ := hw1.mp hin1
      have hnot : ∀ e ∈ tableEnts f.subs2, e.obj ≠ k.1 := hnm.mp ⟨hnf, hnw⟩
      obtain ⟨e, he, heo, heg, hst⟩ := h.tableObjs1.ent_of_obj q hq
      have hk1 : q.1.num = k.1 := congrArg Prod.fst hk
      have D := h1 e he (by rw [heo, hk1]; exact hnot)
      rw [← hk, ← hv]
      exact D.obj_bound q hq heo.symm heg.symm hst
    · -- written by the update
      obtain ⟨q, hq, hk, hv⟩ := hw2.mp hin2
      obtain ⟨e, he, heo, heg, hst⟩ := h.tableObjs2.ent_of_obj q hq
      rw [← hk, ← hv]
      exact (h2 e he).obj_bound q hq heo.symm heg.symm hst
  · intro hg
    obtain ⟨n, g⟩ := k
    by_cases hE2 : ∃ e ∈ tableEnts f.subs2, e.obj = n
    · obtain ⟨e, he, hen⟩ := hE2
      subst hen
      obtain ⟨q, hq, hk, hv⟩ := (h2 e he).bound_inv (hno2 e he) g v hg
      exact Or.inr (hw2.mpr ⟨q, hq, hk, hv⟩)
    · have hnot : ∀ e ∈ tableEnts f.subs2, e.obj ≠ n := fun e he hen => hE2 ⟨e, he, hen⟩
      by_cases hE1 : ∃ e ∈ tableEnts f.subs1, e.obj = n
      · obtain ⟨e, he, hen⟩ := hE1
        subst hen
        obtain ⟨q, hq, hk, hv⟩ := (h1 e he hnot).bound_inv (hno1 e he) g v hg
        have := hnm.mpr hnot
        exact Or.inl ⟨Or.inr (hw1.mpr ⟨q, hq, hk, hv⟩), this.1, this.2⟩
      · have hnot1 : ∀ e ∈ tableEnts f.subs1, e.obj ≠ n := fun e he hen => hE1 ⟨e, he, hen⟩
        rw [h0 n hnot hnot1 g] at hg
        cases hg

end Parsley.LoaderE2E
