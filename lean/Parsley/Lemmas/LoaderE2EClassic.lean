/-
  C03 end-to-end, middle part: a classic cross-reference table followed by a spelled trailer is read by
  `parse_xref_section` / `get_xref_info` as exactly its entries and its /Root, and a body of written
  objects satisfies the premise of the loading stage at every object's offset.
-/
import Parsley.Lemmas.LoaderE2EObj
import Parsley.Lemmas.LoaderE2ETable
import Parsley.Lemmas.LoaderChain
namespace Parsley.LoaderE2E
open Parsley Parsley.Prim Parsley.Obj Parsley.Indirect Parsley.Loader Parsley.C02 Parsley.Spelling
open Parsley.XrefSpec Parsley.C13 Parsley.LoaderChain

/-! ## the section -/

theorem scanFwd_head (tag l : Bytes) (hne : l ≠ []) (h : tag.isPrefixOf l = true) : scanFwd tag l = some 0 := by
  cases l with
  | nil => exact absurd rfl hne
  | cons b t => simp [scanFwd, h]

theorem stops_trailer (r : Bytes) : StopsTable (kwTrailer ++ r) :=
  ⟨116, [114, 97, 105, 108, 101, 114] ++ r, rfl, by decide, by decide, by decide, by decide⟩

/-- **`parse_xref_section` on a classic table + trailer** (no /XRefStm): the table's entries, the
    trailer's /Root and /Prev; the context is left as it was. -/
theorem section_classic (defs : Defs) (eol enc : Bool) (s : Bytes) (c : Nat) (subs : List TSub)
    (w tok rest : Bytes) (d : Nat) (D : List (Bytes × Obj))
    (hs : s.drop c = encTable subs ++ (kwTrailer ++ (w ++ (tok ++ rest))))
    (hne : subs ≠ []) (hok : ∀ t ∈ subs, subOk t)
    (hw : WsRun w) (hsp : Spells d (.dict D) tok) (hdep : d ≤ 51)
    (hxs : ObjStm.getUsize D kXRefStm = none) :
    ∃ c1, parseXrefSection ⟨⟨defs, 0, 50, eol⟩, enc⟩ s c =
      (.ok (some (tableEnts subs, dictGet kRoot D, ObjStm.getUsize D kPrev)), c1,
        ⟨⟨defs, 0, 50, eol⟩, enc || (dictGet kEncrypt D).isSome⟩) := by
  obtain ⟨l, hx, hents, -⟩ := table_roundtrip_at s c subs _ hs hne hok (stops_trailer _)
  have hc : c ≤ s.length := by
    apply Nat.le_of_lt
    apply Nat.lt_of_not_le
    intro hge
    rw [List.drop_eq_nil_of_le hge] at hs
    have := congrArg List.length hs
    simp [encTable, kwXref] at this
  have hd1 := drop_next hs
  have hi1 := drop_le hs hc
  have hscan : scanFwd kwTrailer (s.drop (c + (encTable subs).length)) = some 0 := by
    rw [hd1]
    apply scanFwd_head
    · simp [kwTrailer]
    · rw [List.isPrefixOf_iff_prefix]; exact List.prefix_append _ _
  have htr := trailer_spelled defs eol s _ w tok rest d D hi1 hd1 hw hsp hdep
  refine ⟨c + (encTable subs).length + kwTrailer.length + w.length + tok.length, ?_⟩
  unfold parseXrefSection
  rw [hx]
  simp only [hscan, Nat.add_zero, htr, hxs, hents]

theorem dedupKey_nodup : ∀ (es : List Xref.Ent) (ids : List (Nat × Nat)),
    (es.map keyOf).Nodup → (∀ e ∈ es, keyOf e ∉ ids) → dedupKey es ids = es
  | [], _, _, _ => rfl
  | e :: t, ids, hnd, hids => by
    simp only [List.map_cons, List.nodup_cons] at hnd
    have h1 : ids.contains (keyOf e) = false := by
      have := hids e List.mem_cons_self
      simpa using this
    rw [dedupKey, h1]
    simp only [Bool.false_eq_true, if_false]
    rw [dedupKey_nodup t _ hnd.2]
    intro x hx hmem
    simp only [List.mem_cons] at hmem
    rcases hmem with h | h
    · exact hnd.1 (by rw [← h]; exact List.mem_map_of_mem hx)
    · exact hids x (List.mem_cons_of_mem _ hx) h

theorem keys_nodup_of_obj (es : List Xref.Ent) (h : (es.map (·.obj)).Nodup) : (es.map keyOf).Nodup := by
  induction es with
  | nil => simp
  | cons e t ih =>
    simp only [List.map_cons, List.nodup_cons] at h ⊢
    refine ⟨?_, ih h.2⟩
    intro hm
    obtain ⟨x, hx, hk⟩ := List.mem_map.mp hm
    apply h.1
    have : x.obj = e.obj := by
      have := congrArg Prod.fst hk
      simpa [keyOf] using this
    rw [← this]
    exact List.mem_map_of_mem hx

/-- **`get_xref_info` on a single classic section** (no /Prev, no /XRefStm, distinct object numbers) -/
theorem xrefinfo_classic (s : Bytes) (c : Nat) (subs : List TSub)
    (w tok rest : Bytes) (d : Nat) (D : List (Bytes × Obj)) (r : Obj)
    (hs : s.drop c = encTable subs ++ (kwTrailer ++ (w ++ (tok ++ rest))))
    (hne : subs ≠ []) (hok : ∀ t ∈ subs, subOk t)
    (hw : WsRun w) (hsp : Spells d (.dict D) tok) (hdep : d ≤ 51)
    (hxs : ObjStm.getUsize D kXRefStm = none) (hprev : ObjStm.getUsize D kPrev = none)
    (hroot : dictGet kRoot D = some r)
    (hnd : ((tableEnts subs).map (·.obj)).Nodup) :
    getXrefInfo ⟨Ctx.new 50, false⟩ s c =
      (.ok (tableEnts subs, r), ⟨Ctx.new 50, (dictGet kEncrypt D).isSome⟩) := by
  obtain ⟨c1, hsec⟩ := section_classic [] false false s c subs w tok rest d D hs hne hok hw hsp hdep hxs
  have hc : c < s.length := by
    apply Nat.lt_of_not_le
    intro hge
    rw [List.drop_eq_nil_of_le hge] at hs
    have := congrArg List.length hs
    simp [encTable, kwXref] at this
  have hadd : addEnts (tableEnts subs) [] [] = ((addEnts (tableEnts subs) [] []).1, tableEnts subs) := by
    have h2 := addEnts_snd (tableEnts subs) [] []
    rw [dedupKey_nodup _ [] (keys_nodup_of_obj _ hnd) (by simp)] at h2
    simp only [List.nil_append] at h2
    exact Prod.ext rfl h2
  unfold getXrefInfo xrefLoop
  have hsec' : parseXrefSection ⟨Ctx.new 50, false⟩ s c = _ := hsec
  simp only [List.contains_nil, Bool.false_eq_true, if_false, hc, decide_true, Bool.not_true, hsec', hprev, hroot]
  rw [hadd]
  simp [Ctx.new]

/-! ## a body of written objects -/

/-- a written file-level object, abstractly: its bytes, its identifier, and the located value it
    denotes when written at a given offset -/
structure Piece where
  bytes : Bytes
  num : Nat
  gen : Nat
  val : Nat → Located Obj

def Piece.item (p : Piece) (ofs : Nat) : C03.Item := ⟨p.num, p.gen, ofs, p.val ofs⟩

/-- wherever the piece is written (followed by anything), it reads as `(num, gen) ↦ val` in every
    context that does not define its identifier yet -/
def Piece.Reads (p : Piece) : Prop :=
  0 < p.bytes.length ∧
  ∀ (s : Bytes) (i : Nat) (post : Bytes), i ≤ s.length → s.drop i = p.bytes ++ post →
    C03.ReadsAt 0 50 false s (p.item i)

/-- a plain (non-stream) object as a piece -/
def WObj.piece (o : WObj) : Piece :=
  ⟨o.bytes, o.num, o.gen, fun i => ⟨o.v, i + o.valOfs, i + o.valOfs + o.tok.length⟩⟩

theorem bytes_pos (o : WObj) : 0 < o.bytes.length := by
  simp [WObj.bytes, kwObj]; omega

theorem WObj.piece_reads (o : WObj) (hok : o.OK) : o.piece.Reads :=
  ⟨bytes_pos o, fun s i post hi hd => reads_spelled s i o post hi hd hok⟩

/-- a piece and whatever follows it (up to the next piece) -/
structure Placed where
  p : Piece
  post : Bytes

def bodyBytes : List Placed → Bytes
  | [] => []
  | q :: t => q.p.bytes ++ (q.post ++ bodyBytes t)

/-- the pieces with their offsets, the first one written at `pos` -/
def place : List Placed → Nat → List (Piece × Nat)
  | [], _ => []
  | q :: t, pos => (q.p, pos) :: place t (pos + (q.p.bytes.length + q.post.length))

def itemOf (q : Piece × Nat) : C03.Item := q.1.item q.2

/-- a property that holds of a piece wherever it is written holds at every offset of a written body -/
theorem body_all (R : Piece → Bytes → Nat → Prop) : ∀ (ps : List Placed) (s : Bytes) (pos : Nat) (rest : Bytes),
    pos ≤ s.length → s.drop pos = bodyBytes ps ++ rest →
    (∀ q ∈ ps, 0 < q.p.bytes.length ∧
      ∀ (s : Bytes) (i : Nat) (post : Bytes), i ≤ s.length → s.drop i = q.p.bytes ++ post → R q.p s i) →
    ∀ q ∈ place ps pos, q.2 < s.length ∧ R q.1 s q.2
  | [], _, _, _, _, _, _ => by intro q hq; cases hq
  | p :: t, s, pos, rest, hpos, hd, hok => by
    intro q hq
    have hd0 : s.drop pos = p.p.bytes ++ (p.post ++ (bodyBytes t ++ rest)) := by
      rw [hd]; simp [bodyBytes]
    simp only [place, List.mem_cons] at hq
    rcases hq with rfl | hq
    · obtain ⟨hb, hr⟩ := hok p List.mem_cons_self
      refine ⟨?_, hr s pos _ hpos hd0⟩
      have := drop_le hd0 hpos
      show pos < s.length
      omega
    · have hd1 := drop_next hd0
      have hi1 := drop_le hd0 hpos
      have hd2 := drop_next hd1
      have hi2 := drop_le hd1 hi1
      rw [Nat.add_assoc] at hd2 hi2
      exact body_all R t s _ rest hi2 hd2 (fun x hx => hok x (List.mem_cons_of_mem _ hx)) q hq

/-- every object of a written body reads as itself at its offset -/
theorem reads_body (ps : List Placed) (s : Bytes) (pos : Nat) (rest : Bytes)
    (hpos : pos ≤ s.length) (hd : s.drop pos = bodyBytes ps ++ rest) (hok : ∀ q ∈ ps, q.p.Reads) :
    ∀ q ∈ place ps pos, q.2 < s.length ∧ C03.ReadsAt 0 50 false s (itemOf q) :=
  body_all (fun p s i => C03.ReadsAt 0 50 false s (p.item i)) ps s pos rest hpos hd hok

end Parsley.LoaderE2E
