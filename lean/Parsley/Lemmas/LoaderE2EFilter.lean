/-
  C03 end-to-end, cross-reference streams: what the loader's filter step (`Xref.streamFilters` on the
  translated dictionary `toXDict kvs`, then `Xref.applyFilters (xrefXf kvs)`) does on the data the
  SPEC-side encoders write, stated through `dictGet` on the stream dictionary `kvs`:

    1. no /Filter                               -> no filters, data untouched
    2. /Filter /FlateDecode, no /DecodeParms    -> `FiltersSpec.zlibStored parts` decodes to `parts.flatten`
    3. /FlateDecode + /DecodeParms dictionary with /Predictor (every predictor of `C07.predictor_roundtrip`)
                                                -> zlibStored of `PredSpec.predict p rows` decodes to `rows.flatten`
       and the layout `DocSpec.xrefStreamParts` writes (PNG Up, /Columns rowW, one stored block).
  Proof-only; uses C06 (`inflate_stored_roundtrip`, `layer_roundtrip`, `readToEnd_complete`) and
  C07 (`predictor_roundtrip`).
-/
import Parsley.Lemmas.LoaderE2EXrefDict
import Parsley.Props.C06
import Parsley.Props.C07
import Parsley.Spec.Spelling
namespace Parsley.LoaderE2E
open Parsley Parsley.Obj Parsley.Loader

/-! ### names -/

theorem nFlate_known : Xref.knownFilter Filters.nFlate = true := by decide +kernel
theorem kDecodeParms_eq : Loader.kDecodeParms = Xref.kDecodeParms := rfl
theorem kPredictor_eq : Loader.kPredictor = Filters.kPredictor := rfl

/-! ### 1. no /Filter -/

theorem streamFilters_unfiltered (kvs : List (Bytes × Obj)) (h : dictGet Xref.kFilter kvs = none) :
    Xref.streamFilters (toXDict kvs) = some [] := by
  unfold Xref.streamFilters
  rw [getName_toXDict_none kvs _ h, getArray_toXDict_none kvs _ h]

theorem applyFilters_nil (xf : Xref.Filter → Bytes → Res Bytes) (s : Bytes) (i : Nat) :
    Xref.applyFilters xf [] s i = .ok (s, i) := rfl

/-! ### 2. FlateDecode, no parameters -/

theorem streamFilters_flate (kvs : List (Bytes × Obj)) (n : Bytes)
    (hf : dictGet Xref.kFilter kvs = some (.name n))
    (hp : dictGet Xref.kDecodeParms kvs = none) :
    Xref.streamFilters (toXDict kvs) = some [⟨n, none⟩] := by
  unfold Xref.streamFilters
  rw [getName_toXDict kvs _ n hf]
  simp only [getDictTag_toXDict_none kvs _ hp, getArray_toXDict_none kvs _ hp]
  rfl

theorem applyFilters_flate_stored (kvs : List (Bytes × Obj)) (parts : List Bytes) (trailing : Bytes)
    (hparts : ∀ p ∈ parts, p.length ≤ 65535) :
    Xref.applyFilters (xrefXf kvs) [⟨Filters.nFlate, none⟩] (FiltersSpec.zlibStored parts ++ trailing) 0
      = .ok (parts.flatten, 0) := by
  have hx : xrefXf kvs ⟨Filters.nFlate, none⟩ (FiltersSpec.zlibStored parts ++ trailing) = .ok parts.flatten := by
    unfold xrefXf
    exact C06.layer_roundtrip ext ⟨Filters.nFlate, none⟩ _ _ (C06.LayerEnc.flateStored hparts) rfl
  simp only [Xref.applyFilters, nFlate_known, List.drop_zero, hx]
  rfl

/-! ### 3. FlateDecode with a predictor -/

theorem lookup_toFKvs (k : Bytes) : ∀ P : List (Bytes × Obj),
    Filters.lookup k (toFKvs P) = (dictGet k P).map toFObj
  | [] => by simp [toFKvs, Filters.lookup, dictGet]
  | (k', v) :: t => by
    simp only [toFKvs, Filters.lookup, dictGet]
    by_cases h : k = k'
    · subst h; simp
    · have h1 : ¬ k' = k := fun hh => h hh.symm
      have h2 : (k == k') = false := by simpa using h
      simp only [h1, h2, Bool.false_eq_true, if_false]
      exact lookup_toFKvs k t

theorem fInt_toFKvs_some (P : List (Bytes × Obj)) (k : Bytes) (v : Int)
    (h : dictGet k P = some (.int v)) : fInt (toFKvs P) k = some v := by
  simp [fInt, lookup_toFKvs, h, toFObj]

theorem fInt_toFKvs_none (P : List (Bytes × Obj)) (k : Bytes)
    (h : dictGet k P = none) : fInt (toFKvs P) k = none := by
  simp [fInt, lookup_toFKvs, h]

theorem predictorOf_toFKvs (P : List (Bytes × Obj)) (v : Int)
    (h : dictGet kPredictor P = some (.int v)) : Filters.predictorOf (some (toFKvs P)) = v := by
  have : Filters.lookup Filters.kPredictor (toFKvs P) = some (.int v) := by
    rw [← kPredictor_eq, lookup_toFKvs, h]; rfl
  simp [Filters.predictorOf, this]

theorem parmsAt_dict (kvs P : List (Bytes × Obj)) (t : Nat)
    (h : dictGet Xref.kDecodeParms kvs = some (.dict P)) : parmsAt kvs t = some (toFKvs P) := by
  unfold parmsAt
  rw [kDecodeParms_eq, h]

theorem streamFilters_flate_parms (kvs P : List (Bytes × Obj)) (n : Bytes)
    (hf : dictGet Xref.kFilter kvs = some (.name n))
    (hp : dictGet Xref.kDecodeParms kvs = some (.dict P)) :
    Xref.streamFilters (toXDict kvs) = some [⟨n, some 0⟩] := by
  unfold Xref.streamFilters
  rw [getName_toXDict kvs _ n hf]
  simp only [getDictTag_toXDict kvs _ P hp]

/-- the FlateDecode glue with a predictor other than 1: the inflated data goes through the
    predictor tail (analogue of `C06.flateDecode_ok`) -/
theorem flateDecode_post (ext : Filters.Ext) (o : Option Filters.Dict) (input payload : Bytes)
    (hpred : Filters.predictorOf o ≠ 1) (h : Inflate.inflate input = .ok payload) :
    Filters.flateDecode ext o input = ext.post (o.getD []) payload := by
  unfold Filters.flateDecode Filters.zlibInit
  rw [h]
  simp only
  unfold Filters.flateGlue
  rw [C06.readToEnd_complete _ (C06.zlibDec_yields _ _ _ (Nat.le_refl _)) []]
  simp [hpred]


/-- what `ext.post` computes on a translated /DecodeParms dictionary whose four integers are the
    ones of `p` (`/Colors`, `/BitsPerComponent` possibly absent, meaning 1 and 8) -/
theorem ext_post_toFKvs (P : List (Bytes × Obj)) (p : PredSpec.Params) (data : Bytes)
    (hpred : dictGet kPredictor P = some (.int (p.predictor : Int)))
    (hcols : dictGet kColumns P = some (.int (p.columns : Int)))
    (hcolors : dictGet kColors P = some (.int (p.colors : Int)) ∨ (dictGet kColors P = none ∧ p.colors = 1))
    (hbpc : dictGet kBpc P = some (.int (p.bpc : Int)) ∨ (dictGet kBpc P = none ∧ p.bpc = 8)) :
    ext.post (toFKvs P) data =
      Pred.transformTail (some (p.predictor : Int)) (some (p.colors : Int)) (some (p.columns : Int))
        (some (p.bpc : Int)) data := by
  show Pred.transformTail _ _ _ _ _ = _
  rw [fInt_toFKvs_some P _ _ hpred, fInt_toFKvs_some P _ _ hcols]
  rcases hcolors with hc | ⟨hc, h1⟩ <;> rcases hbpc with hb | ⟨hb, h8⟩
  · rw [fInt_toFKvs_some P _ _ hc, fInt_toFKvs_some P _ _ hb]
  · rw [fInt_toFKvs_some P _ _ hc, fInt_toFKvs_none P _ hb, h8]; rfl
  · rw [fInt_toFKvs_none P _ hc, fInt_toFKvs_some P _ _ hb, h1]; rfl
  · rw [fInt_toFKvs_none P _ hc, fInt_toFKvs_none P _ hb, h1, h8]; rfl

/-- **Flate + predictor**: stored-block zlib stream of the forward-filtered rows, decoded through
    the loader's transform for `/Filter /FlateDecode /DecodeParms << /Predictor .. /Columns .. >>` -/
theorem applyFilters_flate_pred (kvs P : List (Bytes × Obj)) (p : PredSpec.Params)
    (rows parts : List Bytes) (trailing : Bytes)
    (hd : dictGet Xref.kDecodeParms kvs = some (.dict P))
    (hpred : dictGet kPredictor P = some (.int (p.predictor : Int)))
    (hcols : dictGet kColumns P = some (.int (p.columns : Int)))
    (hcolors : dictGet kColors P = some (.int (p.colors : Int)) ∨ (dictGet kColors P = none ∧ p.colors = 1))
    (hbpc : dictGet kBpc P = some (.int (p.bpc : Int)) ∨ (dictGet kBpc P = none ∧ p.bpc = 8))
    (hacc : p.accepted)
    (hcolsLt : p.columns < 18446744073709551616)
    (hfit1 : p.colors * p.bpc < 18446744073709551616)
    (hfit2 : p.columns * p.colors * p.bpc < 18446744073709551616)
    (hrows : ∀ r ∈ rows, r.length = PredSpec.rowBytes p.columns p.colors p.bpc)
    (hne : p.predictor = 2 ∨ rows ≠ [])
    (hflat : parts.flatten = PredSpec.predict p rows)
    (hparts : ∀ q ∈ parts, q.length ≤ 65535) :
    Xref.applyFilters (xrefXf kvs) [⟨Filters.nFlate, some 0⟩] (FiltersSpec.zlibStored parts ++ trailing) 0
      = .ok (rows.flatten, 0) := by
  have hp1 : Filters.predictorOf (some (toFKvs P)) ≠ 1 := by
    rw [predictorOf_toFKvs P _ hpred]
    rcases hacc with ⟨h, _⟩ | ⟨h, _⟩ <;> omega
  have hx : xrefXf kvs ⟨Filters.nFlate, some 0⟩ (FiltersSpec.zlibStored parts ++ trailing) = .ok rows.flatten := by
    unfold xrefXf
    simp only [parmsAt_dict kvs P 0 hd]
    unfold Filters.applyFilter
    simp only [if_true]
    rw [flateDecode_post ext _ _ _ hp1 (C06.inflate_stored_roundtrip parts trailing hparts)]
    simp only [Option.getD_some]
    rw [ext_post_toFKvs P p _ hpred hcols hcolors hbpc, hflat]
    exact C07.predictor_roundtrip p rows hacc hcolsLt hfit1 hfit2 hrows hne
  simp only [Xref.applyFilters, nFlate_known, List.drop_zero, hx]
  rfl


/-! ### the shape the spec-side encoder writes (`DocSpec.xrefStreamParts`, PNG Up, one part) -/

theorem spec_keys :
    Spelling.bs "Filter" = Xref.kFilter ∧ Spelling.bs "DecodeParms" = Xref.kDecodeParms ∧
    Spelling.bs "FlateDecode" = Filters.nFlate ∧ Spelling.bs "Columns" = kColumns ∧
    Spelling.bs "Predictor" = kPredictor := by decide +kernel

theorem splitRows_length (w : Nat) : ∀ (n : Nat) (d : Bytes), (PredSpec.splitRows w n d).length = n
  | 0, _ => rfl
  | n + 1, d => by simp [PredSpec.splitRows, splitRows_length w n]

theorem splitRows_row_length (w : Nat) : ∀ (n : Nat) (d : Bytes), d.length = n * w →
    ∀ r ∈ PredSpec.splitRows w n d, r.length = w
  | 0, _, _ => by simp [PredSpec.splitRows]
  | n + 1, d, h => by
    intro r hr
    simp only [PredSpec.splitRows, List.mem_cons] at hr
    rcases hr with rfl | hr
    · rw [List.length_take, h, Nat.succ_mul]; omega
    · exact splitRows_row_length w n (d.drop w) (by rw [List.length_drop, h, Nat.succ_mul]; omega) r hr

theorem splitRows_flatten (w : Nat) : ∀ (n : Nat) (d : Bytes), d.length = n * w →
    (PredSpec.splitRows w n d).flatten = d
  | 0, d, h => by
    have : d = [] := List.eq_nil_of_length_eq_zero (by omega)
    subst this; rfl
  | n + 1, d, h => by
    simp only [PredSpec.splitRows, List.flatten_cons]
    rw [splitRows_flatten w n (d.drop w) (by rw [List.length_drop, h, Nat.succ_mul]; omega),
      List.take_append_drop]

theorem predict_up (w : Nat) (rows : List Bytes) :
    PredSpec.predict ⟨12, 1, w, 8⟩ rows = PredSpec.pngRows 2 1 [] rows := by
  have hb : PredSpec.bytesPerPixel 1 8 = 1 := by decide
  unfold PredSpec.predict
  dsimp only
  rw [if_neg (by decide), hb]

/-- **the encoder's PNG-Up layout**: `/DecodeParms << /Columns rowW /Predictor 12 >>`, the `n` rows
    of `rowW` bytes filtered with Up and written as ONE stored block -/
theorem applyFilters_flate_up (kvs : List (Bytes × Obj)) (rowW n : Nat) (rows trailing : Bytes)
    (hd : dictGet Xref.kDecodeParms kvs =
      some (.dict [(kColumns, .int (rowW : Int)), (kPredictor, .int 12)]))
    (hlen : rows.length = n * rowW) (hn : 1 ≤ n) (hsize : n * (rowW + 1) ≤ 65535) :
    Xref.applyFilters (xrefXf kvs) [⟨Filters.nFlate, some 0⟩]
      (FiltersSpec.zlibStored [PredSpec.pngRows 2 1 [] (PredSpec.splitRows rowW n rows)] ++ trailing) 0
      = .ok (rows, 0) := by
  have hrb : PredSpec.rowBytes rowW 1 8 = rowW := by unfold PredSpec.rowBytes; omega
  have hrl := splitRows_row_length rowW n rows hlen
  have hw : rowW < 65535 := by
    have : 1 * (rowW + 1) ≤ n * (rowW + 1) := Nat.mul_le_mul_right _ hn
    omega
  have hmain := applyFilters_flate_pred kvs [(kColumns, .int (rowW : Int)), (kPredictor, .int 12)]
    ⟨12, 1, rowW, 8⟩ (PredSpec.splitRows rowW n rows)
    [PredSpec.pngRows 2 1 [] (PredSpec.splitRows rowW n rows)] trailing hd rfl rfl
    (Or.inr ⟨rfl, rfl⟩) (Or.inr ⟨rfl, rfl⟩)
    (Or.inr ⟨⟨by show 10 ≤ 12; decide, by show 12 ≤ 14; decide⟩, Or.inr (Or.inr (Or.inr (Or.inl rfl)))⟩)
    (by show rowW < _; omega) (by show 1 * 8 < _; omega)
    (by show rowW * 1 * 8 < _; omega) (by intro r hr; rw [hrb]; exact hrl r hr)
    (Or.inr (by
      intro h
      have := splitRows_length rowW n rows
      rw [h] at this; simp at this; omega))
    (by simp [predict_up])
    (by
      intro q hq
      simp only [List.mem_singleton] at hq
      subst hq
      rw [C07.png_encoded_length 2 1 rowW _ [] hrl, splitRows_length]
      exact hsize)
  rw [splitRows_flatten rowW n rows hlen] at hmain
  exact hmain


/-- the same, with the keys spelled as `DocSpec.xrefStreamParts` spells them -/
theorem applyFilters_flate_up_spec (kvs : List (Bytes × Obj)) (rowW n : Nat) (rows trailing : Bytes)
    (hd : dictGet (Spelling.bs "DecodeParms") kvs =
      some (.dict [(Spelling.bs "Columns", .int (rowW : Int)), (Spelling.bs "Predictor", .int 12)]))
    (hlen : rows.length = n * rowW) (hn : 1 ≤ n) (hsize : n * (rowW + 1) ≤ 65535) :
    Xref.applyFilters (xrefXf kvs) [⟨Spelling.bs "FlateDecode", some 0⟩]
      (FiltersSpec.zlibStored [PredSpec.pngRows 2 1 [] (PredSpec.splitRows rowW n rows)] ++ trailing) 0
      = .ok (rows, 0) := by
  rw [spec_keys.2.1, spec_keys.2.2.2.1, spec_keys.2.2.2.2] at hd
  rw [spec_keys.2.2.1]
  exact applyFilters_flate_up kvs rowW n rows trailing hd hlen hn hsize

/-! ### non-vacuity -/

-- 2: `<< /Filter /FlateDecode >>`, payload in two stored blocks, a stray LF after the stream
example :
    let kvs : List (Bytes × Obj) := [(Xref.kFilter, .name Filters.nFlate), (Xref.kW, .arr [.int 1, .int 1, .int 0])]
    Xref.streamFilters (toXDict kvs) = some [⟨Filters.nFlate, none⟩] ∧
    Xref.applyFilters (xrefXf kvs) [⟨Filters.nFlate, none⟩] (FiltersSpec.zlibStored [[1, 2, 3], [4]] ++ [0x0A]) 0
      = .ok ([1, 2, 3, 4], 0) :=
  ⟨streamFilters_flate _ _ rfl rfl, applyFilters_flate_stored _ [[1, 2, 3], [4]] [0x0A] (by decide)⟩

-- 3 (encoder layout): two rows of three bytes under PNG Up; the filtered data differs from the rows
example :
    let kvs : List (Bytes × Obj) :=
      [(Xref.kDecodeParms, .dict [(kColumns, .int 3), (kPredictor, .int 12)]), (Xref.kFilter, .name Filters.nFlate)]
    Xref.streamFilters (toXDict kvs) = some [⟨Filters.nFlate, some 0⟩] ∧
    PredSpec.pngRows 2 1 [] (PredSpec.splitRows 3 2 [1, 2, 3, 4, 6, 8]) = [2, 1, 2, 3, 2, 3, 4, 5] ∧
    Xref.applyFilters (xrefXf kvs) [⟨Filters.nFlate, some 0⟩]
      (FiltersSpec.zlibStored [PredSpec.pngRows 2 1 [] (PredSpec.splitRows 3 2 [1, 2, 3, 4, 6, 8])] ++ [0x0A]) 0
      = .ok ([1, 2, 3, 4, 6, 8], 0) :=
  ⟨streamFilters_flate_parms _ [(kColumns, .int 3), (kPredictor, .int 12)] _ rfl rfl, by decide,
   applyFilters_flate_up _ 3 2 [1, 2, 3, 4, 6, 8] [0x0A] rfl (by decide) (by decide) (by decide)⟩

-- 3 (general): Paeth, three colour components given explicitly, /BitsPerComponent absent, data in two blocks
example :
    let P : List (Bytes × Obj) := [(kColors, .int 3), (kColumns, .int 2), (kPredictor, .int 14)]
    let kvs : List (Bytes × Obj) := [(Xref.kDecodeParms, .dict P), (Xref.kFilter, .name Filters.nFlate)]
    let rows : List Bytes := [[10, 20, 30, 15, 25, 35], [200, 1, 255, 7, 90, 3]]
    let enc := PredSpec.predict ⟨14, 3, 2, 8⟩ rows
    Xref.applyFilters (xrefXf kvs) [⟨Filters.nFlate, some 0⟩]
      (FiltersSpec.zlibStored [enc.take 5, enc.drop 5] ++ []) 0 = .ok (rows.flatten, 0) := by
  intro P kvs rows enc
  exact applyFilters_flate_pred kvs P ⟨14, 3, 2, 8⟩ rows [enc.take 5, enc.drop 5] [] rfl rfl rfl
    (Or.inl rfl) (Or.inr ⟨rfl, rfl⟩) (by decide) (by decide) (by decide) (by decide) (by decide)
    (by decide) (by decide) (by decide)

end Parsley.LoaderE2E
