/-
  C03 end-to-end: the loader's filter chain on a FlateDecode stream, from the SINGLE fact that the modelled
  inflate decodes the stream content (`Inflate.inflate z = .ok payload`), without any assumption on how the zlib
  stream was produced.  Instances: zlib streams of stored blocks (`C06.inflate_stored_roundtrip`), of fixed-Huffman
  blocks written by the specification's encoder from any LZ77 factorisation (`C06.inflate_fixed_roundtrip_final`),
  and of any mixture of stored / fixed-Huffman / dynamic-Huffman blocks (`C06.inflate_dynamic_roundtrip`).

    applyFilters_flate_any        /Filter /FlateDecode, no /DecodeParms: the chain yields the inflated payload
    applyFilters_flate_pred_any   /Filter /FlateDecode with a PNG / TIFF predictor in /DecodeParms: the chain yields the
                                  rows whose forward-filtered image (C07's `PredSpec.predict`) is the inflated payload
  Generalises `applyFilters_flate_stored` / `applyFilters_flate_pred` of Lemmas/LoaderE2EFilter.lean (same proofs, the
  inflate verdict abstracted).
-/
import Parsley.Lemmas.LoaderE2EFilter
namespace Parsley.LoaderE2E
open Parsley Parsley.Obj Parsley.Loader

/-- every Flate layer encoding of C06 comes with the inflate verdict -/
theorem inflate_of_layerEnc {n x z : Bytes} (h : C06.LayerEnc n x z) (hn : n = Filters.nFlate) : Inflate.inflate z = .ok x := by
  cases h with
  | hex _ => exact absurd hn (by decide)
  | a85 _ => exact absurd hn (by decide)
  | flateStored h => exact C06.inflate_stored_roundtrip _ _ h
  | flateFixed h => exact C06.inflate_fixed_roundtrip_final _ _ _ _ h
  | flateDyn h => exact C06.inflate_dynamic_roundtrip _ _ _ _ h
  | flateAny h => exact h

theorem applyFilters_flate_any (kvs : List (Bytes × Obj)) (z payload : Bytes) (h : Inflate.inflate z = .ok payload) :
    Xref.applyFilters (xrefXf kvs) [⟨Filters.nFlate, none⟩] z 0 = .ok (payload, 0) := by
  have hx : xrefXf kvs ⟨Filters.nFlate, none⟩ z = .ok payload := by
    unfold xrefXf
    exact C06.layer_roundtrip ext ⟨Filters.nFlate, none⟩ _ _ (C06.LayerEnc.flateAny h) rfl
  simp only [Xref.applyFilters, nFlate_known, List.drop_zero, hx]
  rfl

theorem applyFilters_flate_pred_any (kvs P : List (Bytes × Obj)) (p : PredSpec.Params)
    (rows : List Bytes) (z : Bytes)
    (hd : dictGet Xref.kDecodeParms kvs = some (.dict P))
    (hpred : dictGet kPredictor P = some (.int (p.predictor : Int)))
    (hcols : dictGet kColumns P = some (.int (p.columns : Int)))
    (hcolors : dictGet kColors P = some (.int (p.colors : Int)) ∨ (dictGet kColors P = none ∧ p.colors = 1))
    (hbpc : dictGet kBpc P = some (.int (p.bpc : Int)) ∨ (dictGet kBpc P = none ∧ p.bpc = 8))
    (hacc : p.accepted)
    (hcolsLt : p.columns < 18446744073709551616)
    (hfit1 : p.colors * p.bpc < 18446744073709551616)
    (hfit2 : p.columns * p.colors * p.bpc < 18446744073709551616)
    (hrows : ∀ r ∈ rows, r.length = PredSpec.rowBytes p.columns p.colors p.bpc)
    (hne : p.predictor = 2 ∨ rows ≠ [])
    (hz : Inflate.inflate z = .ok (PredSpec.predict p rows)) :
    Xref.applyFilters (xrefXf kvs) [⟨Filters.nFlate, some 0⟩] z 0 = .ok (rows.flatten, 0) := by
  have hp1 : Filters.predictorOf (some (toFKvs P)) ≠ 1 := by
    rw [predictorOf_toFKvs P _ hpred]
    rcases hacc with ⟨h, _⟩ | ⟨h, _⟩ <;> omega
  have hx : xrefXf kvs ⟨Filters.nFlate, some 0⟩ z = .ok rows.flatten := by
    unfold xrefXf
    simp only [parmsAt_dict kvs P 0 hd]
    unfold Filters.applyFilter
    simp only [if_true]
    rw [flateDecode_post ext _ _ _ hp1 hz]
    simp only [Option.getD_some]
    rw [ext_post_toFKvs P p _ hpred hcols hcolors hbpc]
    exact C07.predictor_roundtrip p rows hacc hcolsLt hfit1 hfit2 hrows hne
  simp only [Xref.applyFilters, nFlate_known, List.drop_zero, hx]
  rfl

end Parsley.LoaderE2E
