/-
  C03 end-to-end, the MOST GENERAL single-revision theorems (follow-up C03c): cross-reference stream files and hybrid
  files whose bodies may contain, besides plain objects and direct-Length streams, streams whose /Length is a
  reference to an integer object written before OR AFTER them (second pass of `parse_objects`), and object streams.

    stage_with_xs_all     the loading stage (both passes + object-stream pass) from the context that binds the
                          cross-reference stream object
    load_xrefstream_all   end to end for `XrefStreamFile`
    load_hybrid_all       end to end for `HybridFile`
-/
import Parsley.Lemmas.LoaderE2EObjStmFile
import Parsley.Lemmas.LoaderE2ETwoPassStm
namespace Parsley.LoaderE2E
open Parsley Parsley.Prim Parsley.Obj Parsley.Indirect Parsley.Loader Parsley.C02 Parsley.Spelling
open Parsley.XrefSpec Parsley.C13 Parsley.LoaderChain Parsley.LoaderObjStm

/-- what a piece written at `i` of `s` satisfies, by its kind (`dep` marks the streams with a referenced /Length) -/
def ReadsK (dep : Piece → Option (ObjId × Int)) (p : Piece) (s : Bytes) (i : Nat) : Prop :=
  match dep p with
  | none => C03.ReadsAt 0 50 false s (p.item i)
  | some (h, len) => LoaderTwoPass.ReadsDep s (p.item i) h len

/-- the piece reads by its kind wherever it is written -/
def PieceOK (dep : Piece → Option (ObjId × Int)) (p : Piece) : Prop :=
  match dep p with
  | none => p.Reads
  | some (h, len) => p.ReadsDep h len

theorem PieceOK.at {dep : Piece → Option (ObjId × Int)} {p : Piece} (h : PieceOK dep p) :
    0 < p.bytes.length ∧ ∀ (s : Bytes) (i : Nat) (post : Bytes), i ≤ s.length → s.drop i = p.bytes ++ post →
      ReadsK dep p s i := by
  unfold PieceOK at h
  unfold ReadsK
  cases hd : dep p with
  | none => rw [hd] at h; exact ⟨h.1, fun s i post hi hdr => h.2 s i post hi hdr⟩
  | some x =>
    obtain ⟨hh, len⟩ := x
    rw [hd] at h
    exact ⟨h.1, fun s i post hi hdr => h.2 s i post hi hdr⟩

/-- every stream with a referenced /Length has its holder among the plain objects, and the holder is not `x` -/
def HoldersOK (dep : Piece → Option (ObjId × Int)) (objs : List (Piece × Nat)) (x : Piece × Nat) : Prop :=
  ∀ q ∈ objs, ∀ h len, dep q.1 = some (h, len) →
    ∃ q' ∈ objs, dep q'.1 = none ∧ (q'.1.num, q'.1.gen) = h ∧ (q'.1.val q'.2).val = .int len ∧
      (q'.1.num, q'.1.gen) ≠ (x.1.num, x.1.gen)

theorem stage_with_xs_all (hofs : Nat) (view : Bytes) (objs : List (Piece × Nat)) (x : Piece × Nat) (hx : x ∈ objs)
    (X : List Xref.Ent) (ws : List WCont) (dep : Piece → Option (ObjId × Int))
    (hsize : hofs + view.length ≤ 2 ^ 63)
    (hrb : ∀ q ∈ objs, (q.2 ≤ view.length ∧ ∃ post, view.drop q.2 = q.1.bytes ++ post) ∧ q.2 < view.length ∧
      ((q.1.num, q.1.gen) = (x.1.num, x.1.gen) ∨ ReadsK dep q.1 view q.2))
    (hold : HoldersOK dep objs x)
    (idsNodup : (objs.map fun q => (q.1.num, q.1.gen)).Nodup)
    (tableObjs : ∃ perm : List (Piece × Nat), perm.Perm objs ∧
      filesOf (infoOf X) = perm.map fun q => ObjInfo.inFile q.1.num q.1.gen q.2)
    (hws : ContsOK objs x X ws) :
    ∃ defs, parseObjects hofs ⟨⟨[((x.1.num, x.1.gen), x.1.val x.2)], 0, 50, false⟩, false⟩ (infoOf X) view = .ok defs ∧
      (∀ q ∈ objs, ObjStm.defsGet (q.1.num, q.1.gen) defs = some (q.1.val q.2).val) ∧
      (∀ w ∈ ws, ∀ m ∈ w.mems, ObjStm.defsGet (m.num, 0) defs = some m.v) ∧
      (∀ k, (∀ q ∈ objs, (q.1.num, q.1.gen) ≠ k) → (∀ w ∈ ws, ∀ m ∈ w.mems, (m.num, 0) ≠ k) →
        ObjStm.defsGet k defs = none) := by
  obtain ⟨perm, hperm, htab⟩ := tableObjs
  have hmem : ∀ q, q ∈ perm ↔ q ∈ objs := fun q => hperm.mem_iff
  have hinfo : filesOf (infoOf X) = (perm.map (entryOf dep)).map fun e => e.item.info := by
    rw [htab, List.map_map]
    apply List.map_congr_left
    intro q _
    simp only [Function.comp, entryOf_item]
    rfl
  have hnd : ((perm.map (entryOf dep)).map fun e => e.item.key).Nodup := by
    have : ((perm.map (entryOf dep)).map fun e => e.item.key) = perm.map fun q => (q.1.num, q.1.gen) := by
      rw [List.map_map]
      apply List.map_congr_left
      intro q _
      simp only [Function.comp, entryOf_item]
      rfl
    rw [this]
    exact (hperm.map _).nodup_iff.mpr idsNodup
  have hget0 : ∀ k, defsGet k [((x.1.num, x.1.gen), x.1.val x.2)] =
      if k = (x.1.num, x.1.gen) then some (x.1.val x.2) else none := by
    intro k
    simp only [defsGet]
    by_cases hk : k = (x.1.num, x.1.gen)
    · simp [hk]
    · simp [hk]
  have hs0 : DefsSorted [((x.1.num, x.1.gen), x.1.val x.2)] := by simp [DefsSorted]
  have hunb : ∀ q : Piece × Nat, defsGet (itemOf q).key [((x.1.num, x.1.gen), x.1.val x.2)] = none →
      (q.1.num, q.1.gen) ≠ (x.1.num, x.1.gen) := by
    intro q hn hk
    rw [hget0] at hn
    have : (itemOf q).key = (x.1.num, x.1.gen) := hk
    simp [this] at hn
  obtain ⟨defs, hpo, hA, hM, hB, hC⟩ := stage_two_pass_objstm_written hofs view _ hs0 (infoOf X)
    (perm.map (entryOf dep)) ws hsize hinfo hws.stms hnd
    (by
      intro it hit hn
      obtain ⟨q, hq, heq⟩ := List.mem_map.mp hit
      obtain ⟨-, hlt, hor⟩ := hrb q ((hmem q).mp hq)
      unfold entryOf at heq
      cases hdq : dep q.1 with
      | none =>
        rw [hdq] at heq
        injection heq with heq
        subst heq
        refine ⟨hlt, ?_⟩
        rcases hor with hk | hr
        · exact absurd hk (hunb q hn)
        · unfold ReadsK at hr; rw [hdq] at hr; exact hr
      | some y => obtain ⟨hh, len⟩ := y; rw [hdq] at heq; cases heq)
    (by
      intro it hh hit hn
      obtain ⟨q, hq, heq⟩ := List.mem_map.mp hit
      obtain ⟨-, hlt, hor⟩ := hrb q ((hmem q).mp hq)
      unfold entryOf at heq
      cases hdq : dep q.1 with
      | none => rw [hdq] at heq; cases heq
      | some y =>
        obtain ⟨h', len⟩ := y
        rw [hdq] at heq
        injection heq with heq1 heq2
        subst heq1 heq2
        refine ⟨hlt, len, ?_, Or.inl ?_⟩
        · rcases hor with hk | hr
          · exact absurd hk (hunb q hn)
          · unfold ReadsK at hr; rw [hdq] at hr; exact hr
        · obtain ⟨q', hq', hd', hk', hv', hne'⟩ := hold q ((hmem q).mp hq) h' len hdq
          refine ⟨itemOf q', ?_, hk', ?_, hv'⟩
          · have : entryOf dep q' = .plain (itemOf q') := by unfold entryOf; rw [hd']
            rw [← this]
            exact List.mem_map_of_mem ((hmem q').mpr hq')
          · rw [hget0]
            have : (itemOf q').key = (q'.1.num, q'.1.gen) := rfl
            simp [this, hne'])
    hws.numsNodup
    (by
      intro w hw
      obtain ⟨hne, q, hq, o, hqo, hnum, hgen, hkvs, hsc, hdata⟩ := hws.placed w hw
      obtain ⟨⟨hle, post, hdrop⟩, -, -⟩ := hrb q hq
      have hkey : (itemOf q).key = (w.num, 0) := by
        show (q.1.num, q.1.gen) = _
        rw [hqo]; simp [WStm.piece, hnum, hgen]
      refine ⟨Or.inl ⟨entryOf dep q, List.mem_map_of_mem ((hmem q).mpr hq), ?_, ?_, ?_⟩, ?_⟩
      · rw [entryOf_item]; exact hkey
      · rw [entryOf_item, hkey, hget0]; simp [hne]
      · rw [entryOf_item]
        show (q.1.val q.2).val = _
        rw [hqo]
        exact WCont.wstm_val q.2 o w hkvs hsc
      · rw [hqo] at hdrop
        exact WCont.ok_of_wstm view q.2 o post w hle hdrop hsc hdata)
    hws.memsNodup
    (by
      intro w hw m hm
      refine ⟨?_, ?_⟩
      · intro e he
        obtain ⟨q, hq, rfl⟩ := List.mem_map.mp he
        rw [entryOf_item]
        exact hws.memsFresh w hw m hm q ((hmem q).mp hq)
      · rw [hget0]
        have := hws.memsFresh w hw m hm x hx
        simp [Ne.symm this])
  have hxs_unique : ∀ q ∈ objs, (q.1.num, q.1.gen) = (x.1.num, x.1.gen) → q = x := by
    intro q hq hk
    exact LoaderTwoPass.key_inj (fun q : Piece × Nat => (q.1.num, q.1.gen)) objs idsNodup q hq _ hx hk
  refine ⟨defs, hpo, ?_, hM, ?_⟩
  · intro q hq
    by_cases hk : (q.1.num, q.1.gen) = (x.1.num, x.1.gen)
    · have hq' := hxs_unique q hq hk
      have := hC (x.1.num, x.1.gen) (x.1.val x.2) (by rw [hget0]; simp)
      rw [hk, this, hq']
    · have := hA (entryOf dep q) (List.mem_map_of_mem ((hmem q).mpr hq)) (by
        rw [entryOf_item, hget0]
        have : (itemOf q).key = (q.1.num, q.1.gen) := rfl
        simp [this, hk])
      rw [entryOf_item] at this
      exact this
  · intro k hk hkm
    rw [hB k (by
      intro e he
      obtain ⟨q, hq, rfl⟩ := List.mem_map.mp he
      rw [entryOf_item]
      exact hk q ((hmem q).mp hq)) hkm]
    rw [hget0]
    have : k ≠ (x.1.num, x.1.gen) := fun hh => hk _ hx hh.symm
    simp [this]

/-- what holds at every offset of a written body, by kind -/
theorem body_reads_k (dep : Piece → Option (ObjId × Int)) (body : List Placed) (view : Bytes) (pos : Nat) (rest : Bytes)
    (xkey : ObjId) (hpos : pos ≤ view.length) (hd : view.drop pos = bodyBytes body ++ rest)
    (hr : ∀ q ∈ body, 0 < q.p.bytes.length ∧ ((q.p.num, q.p.gen) = xkey ∨ PieceOK dep q.p)) :
    ∀ q ∈ place body pos, (q.2 ≤ view.length ∧ ∃ post, view.drop q.2 = q.1.bytes ++ post) ∧ q.2 < view.length ∧
      ((q.1.num, q.1.gen) = xkey ∨ ReadsK dep q.1 view q.2) := by
  have h := body_all (fun p s i => (i ≤ s.length ∧ ∃ post, s.drop i = p.bytes ++ post) ∧
      ((p.num, p.gen) = xkey ∨ ReadsK dep p s i)) body view pos rest hpos hd (by
    intro q hq
    obtain ⟨hb, hor⟩ := hr q hq
    refine ⟨hb, fun s i post hi hd => ⟨⟨hi, post, hd⟩, ?_⟩⟩
    rcases hor with h | h
    · exact Or.inl h
    · exact Or.inr (h.at.2 s i post hi hd))
  intro q hq
  obtain ⟨h1, h2, h3⟩ := h q hq
  exact ⟨h2, h1, h3⟩

namespace XrefStreamFile

/-- well-formedness in full generality: objects of all kinds (`dep` marks streams with a referenced /Length; their
    holders are plain integer objects of the same body, before or after them), object streams `ws` (possibly none) -/
structure WFall (f : XrefStreamFile) (subs : List (Nat × List SEnt)) (w0 w1 w2 : Nat) (root : ObjId)
    (ws : List WCont) (dep : Piece → Option (ObjId × Int)) : Prop extends WF0 f subs w0 w1 w2 root where
  stored : Stored f.xs.kvs (rowBytes subs w0 w1 w2) f.xs.data
  size : f.garbage.length + f.view.length ≤ 2 ^ 63
  reads1 : ∀ q ∈ f.body1, PieceOK dep q.p
  reads2 : ∀ q ∈ f.body2, PieceOK dep q.p
  holders : HoldersOK dep f.objs (f.xs.piece, f.xofs)
  idsNodup : (f.objs.map fun q => (q.1.num, q.1.gen)).Nodup
  tableObjs : ∃ perm : List (Piece × Nat), perm.Perm f.objs ∧
    filesOf (infoOf (streamEnts subs)) = perm.map fun q => ObjInfo.inFile q.1.num q.1.gen q.2
  conts : ContsOK f.objs (f.xs.piece, f.xofs) (streamEnts subs) ws

end XrefStreamFile

/-- **`load_xrefstream_all`**: cross-reference stream file, objects of all kinds, object streams -/
theorem load_xrefstream_all (f : XrefStreamFile) (subs : List (Nat × List SEnt)) (w0 w1 w2 : Nat) (root : ObjId)
    (ws : List WCont) (dep : Piece → Option (ObjId × Int)) (h : f.WFall subs w0 w1 w2 root ws dep) :
    ∃ L : Loaded, parseData f.bytes = .ok L ∧ L.root = root ∧
      (∀ q ∈ f.objs, ObjStm.defsGet (q.1.num, q.1.gen) L.defs = some (q.1.val q.2).val) ∧
      (∀ w ∈ ws, ∀ m ∈ w.mems, ObjStm.defsGet (m.num, 0) L.defs = some m.v) ∧
      (∀ k, (∀ q ∈ f.objs, (q.1.num, q.1.gen) ≠ k) → (∀ w ∈ ws, ∀ m ∈ w.mems, (m.num, 0) ≠ k) →
        ObjStm.defsGet k L.defs = none) := by
  refine load_xrefstream_core f subs w0 w1 w2 root h.toWF0 (f.decodes_of_stored subs w0 w1 w2 h.stored) (fun defs =>
    (∀ q ∈ f.objs, ObjStm.defsGet (q.1.num, q.1.gen) defs = some (q.1.val q.2).val) ∧
    (∀ w ∈ ws, ∀ m ∈ w.mems, ObjStm.defsGet (m.num, 0) defs = some m.v) ∧
    (∀ k, (∀ q ∈ f.objs, (q.1.num, q.1.gen) ≠ k) → (∀ w ∈ ws, ∀ m ∈ w.mems, (m.num, 0) ≠ k) →
      ObjStm.defsGet k defs = none))
    (stage_with_xs_all f.garbage.length f.view f.objs (f.xs.piece, f.xofs) f.xs_mem (streamEnts subs) ws dep h.size
      ?_ h.holders h.idsNodup h.tableObjs h.conts)
  obtain ⟨hhl, rest, hdropB⟩ := f.view_body
  apply body_reads_k dep f.body f.view f.hdr.length rest (f.xs.num, f.xs.gen) hhl hdropB
  intro q hq
  simp only [XrefStreamFile.body, List.mem_append, List.mem_cons] at hq
  rcases hq with hq | rfl | hq
  · exact ⟨(h.reads1 q hq).at.1, Or.inr (h.reads1 q hq)⟩
  · exact ⟨WStm.bytes_pos f.xs, Or.inl rfl⟩
  · exact ⟨(h.reads2 q hq).at.1, Or.inr (h.reads2 q hq)⟩

namespace HybridFile

structure WFall (f : HybridFile) (D : List (Bytes × Obj)) (ssubs : List (Nat × List SEnt)) (w0 w1 w2 : Nat)
    (root : ObjId) (ws : List WCont) (dep : Piece → Option (ObjId × Int)) : Prop
    extends WF0 f D ssubs w0 w1 w2 root where
  size : f.garbage.length + f.view.length ≤ 2 ^ 63
  reads1 : ∀ q ∈ f.body1, PieceOK dep q.p
  reads2 : ∀ q ∈ f.body2, PieceOK dep q.p
  holders : HoldersOK dep f.objs (f.xs.piece, f.xofs)
  idsNodup : (f.objs.map fun q => (q.1.num, q.1.gen)).Nodup
  tableObjs : ∃ perm : List (Piece × Nat), perm.Perm f.objs ∧
    filesOf (infoOf (f.ents ssubs)) = perm.map fun q => ObjInfo.inFile q.1.num q.1.gen q.2
  conts : ContsOK f.objs (f.xs.piece, f.xofs) (f.ents ssubs) ws

end HybridFile

/-- **`load_hybrid_all`**: hybrid file, objects of all kinds, hidden objects in object streams -/
theorem load_hybrid_all (f : HybridFile) (D : List (Bytes × Obj)) (ssubs : List (Nat × List SEnt)) (w0 w1 w2 : Nat)
    (root : ObjId) (ws : List WCont) (dep : Piece → Option (ObjId × Int)) (h : f.WFall D ssubs w0 w1 w2 root ws dep) :
    ∃ L : Loaded, parseData f.bytes = .ok L ∧ L.root = root ∧
      (∀ q ∈ f.objs, ObjStm.defsGet (q.1.num, q.1.gen) L.defs = some (q.1.val q.2).val) ∧
      (∀ w ∈ ws, ∀ m ∈ w.mems, ObjStm.defsGet (m.num, 0) L.defs = some m.v) ∧
      (∀ k, (∀ q ∈ f.objs, (q.1.num, q.1.gen) ≠ k) → (∀ w ∈ ws, ∀ m ∈ w.mems, (m.num, 0) ≠ k) →
        ObjStm.defsGet k L.defs = none) := by
  refine load_hybrid_core f D ssubs w0 w1 w2 root h.toWF0 (fun defs =>
    (∀ q ∈ f.objs, ObjStm.defsGet (q.1.num, q.1.gen) defs = some (q.1.val q.2).val) ∧
    (∀ w ∈ ws, ∀ m ∈ w.mems, ObjStm.defsGet (m.num, 0) defs = some m.v) ∧
    (∀ k, (∀ q ∈ f.objs, (q.1.num, q.1.gen) ≠ k) → (∀ w ∈ ws, ∀ m ∈ w.mems, (m.num, 0) ≠ k) →
      ObjStm.defsGet k defs = none))
    (stage_with_xs_all f.garbage.length f.view f.objs (f.xs.piece, f.xofs) f.xs_mem (f.ents ssubs) ws dep h.size
      ?_ h.holders h.idsNodup h.tableObjs h.conts)
  obtain ⟨hhl, rest, hdropB⟩ := f.view_body
  apply body_reads_k dep f.body f.view f.hdr.length rest (f.xs.num, f.xs.gen) hhl hdropB
  intro q hq
  simp only [HybridFile.body, List.mem_append, List.mem_cons] at hq
  rcases hq with hq | rfl | hq
  · exact ⟨(h.reads1 q hq).at.1, Or.inr (h.reads1 q hq)⟩
  · exact ⟨WStm.bytes_pos f.xs, Or.inl rfl⟩
  · exact ⟨(h.reads2 q hq).at.1, Or.inr (h.reads2 q hq)⟩

end Parsley.LoaderE2E
