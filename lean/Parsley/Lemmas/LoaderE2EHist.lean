/-
  C04 end-to-end: `parseData` on a whole history of ANY number of revisions (base revision + incremental updates),
  every cross-reference section a classic table.  Generalises Lemmas/LoaderE2EChain.lean (two revisions).

  `RevSeg`   one revision as written: objects separated by arbitrary bytes, table, `trailer`, trailer dictionary as
             spelled, then ARBITRARY bytes (its own `startxref ... %%EOF`, anything else).
  `HistFile` leading garbage, header line, the revisions OLDEST FIRST, the final `startxref ws digits ws %%EOF tail`.
             `placeRevs`/`segs` compute where each revision starts, `tableOfs` where its table starts, `objsOf` where
             its objects are: all offsets follow from the layout, none is a hypothesis.
  `HistFile.WF f Ds root`  well-formedness for the trailer dictionary values `Ds` (oldest first): per revision the
             lexical conditions (`SecOK`), no /XRefStm, each table mentions a number once; revision 0 has no /Prev
             and /Prev of revision i+1 is the table offset of revision i (`PrevOK`); the newest trailer names the
             root and the last `startxref` gives the newest table's offset; STABLE GENERATIONS across all tables;
             every object reads; each table lists exactly the objects of its revision (`TableOf`).
  `xrefLoop_secs`, `xrefinfo_secs`   the /Prev loop of `get_xref_info` over any list of classic sections at pairwise
             distinct cursors linked by /Prev (induction over the sections, accumulators generalised; the fuel
             `|file| + 1` suffices because the cursors are distinct and in range).
  `xrefinfo_hist`  ... for a `HistFile`: the first-occurrence merge of all tables, newest first; root of the newest;
             context untouched.
  `load_hist`  the end-to-end theorem: per object number the NEWEST table that mentions it decides (`Decides`).
-/
import Parsley.Lemmas.LoaderE2EChain
namespace Parsley.LoaderE2E
open Parsley Parsley.Prim Parsley.Obj Parsley.Indirect Parsley.Loader Parsley.C02 Parsley.Spelling
open Parsley.XrefSpec Parsley.C13 Parsley.LoaderChain Parsley.LoaderStage
open Parsley.C03 (Item ReadsAt)
open Parsley.C04 (StableGen)

/-! ## classic sections at cursors, linked by /Prev -/

/-- a classic section: where it starts, the table's subsections, the bytes after `trailer`, the trailer
    dictionary as spelled and as a value -/
structure Sec where
  c : Nat
  subs : List TSub
  w : Bytes
  tok : Bytes
  D : List (Bytes × Obj)

/-- the lexical well-formedness of a section -/
structure SecOK (x : Sec) : Prop where
  subsNe : x.subs ≠ []
  subsOk : ∀ t ∈ x.subs, subOk t
  /-- the table mentions every object number at most once -/
  numsNodup : ((tableEnts x.subs).map (·.obj)).Nodup
  wt : WsRun x.w
  trailer : ∃ d, Spells d (.dict x.D) x.tok ∧ d ≤ 51
  noXRefStm : ObjStm.getUsize x.D kXRefStm = none

/-- the section is written at its cursor -/
def SecAt (s : Bytes) (x : Sec) : Prop :=
  SecOK x ∧ ∃ rest, s.drop x.c = encTable x.subs ++ (kwTrailer ++ (x.w ++ (x.tok ++ rest)))

/-- sections NEWEST first: each /Prev is the cursor of the next (older) one, the last has none -/
def Linked : List Sec → Prop
  | [] => True
  | x :: t => ObjStm.getUsize x.D kPrev = (t.head?).map (·.c) ∧ Linked t

theorem Linked_cons (x : Sec) (t : List Sec) :
    Linked (x :: t) ↔ (ObjStm.getUsize x.D kPrev = (t.head?).map (·.c) ∧ Linked t) := Iff.rfl

/-- sections OLDEST first: the first has /Prev = `p`, each next one's /Prev is the cursor of the one before -/
def PrevOK : Option Nat → List Sec → Prop
  | _, [] => True
  | p, x :: t => ObjStm.getUsize x.D kPrev = p ∧ PrevOK (some x.c) t

theorem PrevOK_cons (p : Option Nat) (x : Sec) (t : List Sec) :
    PrevOK p (x :: t) ↔ (ObjStm.getUsize x.D kPrev = p ∧ PrevOK (some x.c) t) := Iff.rfl

theorem linked_reverse_aux : ∀ (l : List Sec) (p : Option Nat) (acc : List Sec),
    PrevOK p l → Linked acc → (acc.head?).map (·.c) = p → Linked (l.reverse ++ acc)
  | [], _, acc, _, ha, _ => by simpa using ha
  | x :: t, p, acc, hp, ha, hh => by
    rw [List.reverse_cons, List.append_assoc]
    have hp' := (PrevOK_cons p x t).mp hp
    exact linked_reverse_aux t (some x.c) (x :: acc) hp'.2
      ((Linked_cons x acc).mpr ⟨by rw [hh]; exact hp'.1, ha⟩) rfl

theorem linked_reverse (l : List Sec) (h : PrevOK none l) : Linked l.reverse := by
  have := linked_reverse_aux l none [] h trivial rfl
  simpa using this

/-- the entries of a list of tables, concatenated -/
def entsOf (ss : List (List TSub)) : List Xref.Ent := ss.flatMap tableEnts

def secEnts (l : List Sec) : List Xref.Ent := entsOf (l.map (·.subs))

theorem secEnts_cons (x : Sec) (l : List Sec) : secEnts (x :: l) = tableEnts x.subs ++ secEnts l := by
  simp [secEnts, entsOf]

theorem entsOf_append (a b : List (List TSub)) : entsOf (a ++ b) = entsOf a ++ entsOf b := by
  simp [entsOf]

theorem mem_entsOf (ss : List (List TSub)) (e : Xref.Ent) : e ∈ entsOf ss ↔ ∃ subs ∈ ss, e ∈ tableEnts subs := by
  simp [entsOf, List.mem_flatMap]

/-- **the loop of `get_xref_info` over any number of linked classic sections** (`x` the one at the cursor, `older`
    the rest, newest first), from any accumulators: the entries kept grow by the first-occurrence merge of the
    sections' tables, the root is the one known or the first section's, the context stays as it was -/
theorem xrefLoop_secs (s : Bytes) : ∀ (older : List Sec) (x : Sec) (f : Nat) (enc : Bool) (cs : List Nat)
    (ids : List (Nat × Nat)) (xs : List Xref.Ent) (root : Option Obj) (r : Obj),
    (∀ y ∈ x :: older, SecAt s y) → Linked (x :: older) → ((x :: older).map (·.c)).Nodup →
    (∀ y ∈ x :: older, y.c ∉ cs) → rootOf root (dictGet kRoot x.D) = some r →
    ∃ enc', xrefLoop (f + older.length + 1) ⟨Ctx.new 50, enc⟩ s x.c cs ids xs root =
      (.ok (xs ++ dedupKey (secEnts (x :: older)) ids, r), ⟨Ctx.new 50, enc'⟩)
  | [], x, f, enc, cs, ids, xs, root, r, hall, hl, _, hcs, hroot => by
    obtain ⟨hok, rest, hs⟩ := hall x List.mem_cons_self
    obtain ⟨d, hsp, hd⟩ := hok.trailer
    obtain ⟨c1, hsec⟩ := section_classic [] false enc s x.c x.subs x.w x.tok rest d x.D hs hok.subsNe hok.subsOk hok.wt
      hsp hd hok.noXRefStm
    have hprev : ObjStm.getUsize x.D kPrev = none := ((Linked_cons x []).mp hl).1
    rw [hprev] at hsec
    have hsec' : parseXrefSection ⟨Ctx.new 50, enc⟩ s x.c =
        (.ok (some (tableEnts x.subs, dictGet kRoot x.D, none)), c1, ⟨Ctx.new 50, enc || (dictGet kEncrypt x.D).isSome⟩) := hsec
    have hc : ¬ cs.contains x.c = true := by
      rw [List.contains_iff_mem]; exact hcs x List.mem_cons_self
    have hn : x.c < s.length := table_cursor_lt hs
    refine ⟨enc || (dictGet kEncrypt x.D).isSome, ?_⟩
    have hf : f + ([] : List Sec).length + 1 = f + 1 := rfl
    rw [hf, xrefLoop_succ_of ids xs root hc hn, firstInfo_of_section hsec']
    simp only [stepK, hroot]
    rw [addEnts_snd, secEnts_cons]
    simp [secEnts, entsOf]
  | y :: t, x, f, enc, cs, ids, xs, root, r, hall, hl, hnd, hcs, hroot => by
    obtain ⟨hok, rest, hs⟩ := hall x List.mem_cons_self
    obtain ⟨d, hsp, hd⟩ := hok.trailer
    obtain ⟨c1, hsec⟩ := section_classic [] false enc s x.c x.subs x.w x.tok rest d x.D hs hok.subsNe hok.subsOk hok.wt
      hsp hd hok.noXRefStm
    have hl' := (Linked_cons x (y :: t)).mp hl
    have hprev : ObjStm.getUsize x.D kPrev = some y.c := hl'.1
    rw [hprev] at hsec
    have hsec' : parseXrefSection ⟨Ctx.new 50, enc⟩ s x.c =
        (.ok (some (tableEnts x.subs, dictGet kRoot x.D, some y.c)), c1, ⟨Ctx.new 50, enc || (dictGet kEncrypt x.D).isSome⟩) := hsec
    have hc : ¬ cs.contains x.c = true := by
      rw [List.contains_iff_mem]; exact hcs x List.mem_cons_self
    have hn : x.c < s.length := table_cursor_lt hs
    have hnd' : x.c ∉ (y :: t).map (·.c) ∧ ((y :: t).map (·.c)).Nodup := by
      simpa only [List.map_cons, List.nodup_cons] using hnd
    obtain ⟨enc', ih⟩ := xrefLoop_secs s t y f (enc || (dictGet kEncrypt x.D).isSome) (x.c :: cs)
      (addEnts (tableEnts x.subs) ids xs).1 (addEnts (tableEnts x.subs) ids xs).2 (some r) r
      (fun z hz => hall z (List.mem_cons_of_mem _ hz)) hl'.2 hnd'.2
      (by
        intro z hz hm
        rcases List.mem_cons.mp hm with h | h
        · exact hnd'.1 (by rw [← h]; exact List.mem_map_of_mem hz)
        · exact hcs z (List.mem_cons_of_mem _ hz) h)
      rfl
    refine ⟨enc', ?_⟩
    have hf : f + (y :: t).length + 1 = (f + t.length + 1) + 1 := by
      simp only [List.length_cons]; omega
    rw [hf, xrefLoop_succ_of ids xs root hc hn, firstInfo_of_section hsec']
    simp only [stepK, hroot]
    rw [ih, addEnts_snd, secEnts_cons x (y :: t), dedupKey_append (tableEnts x.subs) (secEnts (y :: t)) ids xs,
      List.append_assoc]

/-- **`get_xref_info` on any number of linked classic sections**: the first-occurrence merge of all tables (newest
    first), the root of the newest trailer, the context as it was -/
theorem xrefinfo_secs (s : Bytes) (x : Sec) (older : List Sec) (r : Obj)
    (hall : ∀ y ∈ x :: older, SecAt s y) (hl : Linked (x :: older)) (hnd : ((x :: older).map (·.c)).Nodup)
    (hroot : dictGet kRoot x.D = some r) :
    ∃ enc, getXrefInfo ⟨Ctx.new 50, false⟩ s x.c =
      (.ok (dedupKey (secEnts (x :: older)) [], r), ⟨Ctx.new 50, enc⟩) := by
  have hlen : older.length + 1 ≤ s.length := by
    have := nodup_bounded_length s.length ((x :: older).map (·.c)) hnd (by
      intro c hc
      obtain ⟨y, hy, rfl⟩ := List.mem_map.mp hc
      obtain ⟨_, rest, hs⟩ := hall y hy
      exact table_cursor_lt hs)
    simpa using this
  obtain ⟨enc, h⟩ := xrefLoop_secs s older x (s.length - older.length) false [] [] [] none r hall hl hnd
    (by intro y _ hm; cases hm) (by simp [rootOf, hroot])
  refine ⟨enc, ?_⟩
  unfold getXrefInfo
  have hf : s.length + 1 = s.length - older.length + older.length + 1 := by omega
  rw [hf, h]
  simp

/-! ## the layout -/

/-- one revision as written -/
structure RevSeg where
  body : List Placed         -- the objects, each followed by arbitrary bytes
  subs : List TSub           -- the table's subsections
  wt : Bytes                 -- after the keyword `trailer`
  ttok : Bytes               -- the trailer dictionary as spelled
  gap : Bytes                -- ANYTHING up to the next revision / the final `startxref`

def RevSeg.bytes (r : RevSeg) : Bytes :=
  bodyBytes r.body ++ (encTable r.subs ++ (kwTrailer ++ (r.wt ++ (r.ttok ++ r.gap))))

def revsBytes : List RevSeg → Bytes
  | [] => []
  | r :: t => r.bytes ++ revsBytes t

/-- the revisions with the offset each one starts at, the first one at `pos` -/
def placeRevs : List RevSeg → Nat → List (RevSeg × Nat)
  | [], _ => []
  | r :: t, pos => (r, pos) :: placeRevs t (pos + r.bytes.length)

/-- offset of the table of a placed revision -/
def tableOfs (q : RevSeg × Nat) : Nat := q.2 + (bodyBytes q.1.body).length

/-- the objects of a placed revision with their offsets -/
def objsOf (q : RevSeg × Nat) : List (Piece × Nat) := place q.1.body q.2

theorem placeRevs_fst : ∀ (rs : List RevSeg) (pos : Nat), (placeRevs rs pos).map (·.1) = rs
  | [], _ => rfl
  | r :: t, pos => by simp [placeRevs, placeRevs_fst t]

theorem placeRevs_subs : ∀ (rs : List RevSeg) (pos : Nat), (placeRevs rs pos).map (·.1.subs) = rs.map (·.subs)
  | [], _ => rfl
  | r :: t, pos => by simp [placeRevs, placeRevs_subs t]

theorem placeRevs_ge : ∀ (rs : List RevSeg) (pos : Nat), ∀ q ∈ placeRevs rs pos, pos ≤ q.2
  | [], _ => by intro q hq; cases hq
  | r :: t, pos => by
    intro q hq
    simp only [placeRevs, List.mem_cons] at hq
    rcases hq with rfl | hq
    · exact Nat.le_refl _
    · have := placeRevs_ge t _ q hq
      omega

theorem revBytes_len (r : RevSeg) : (bodyBytes r.body).length < r.bytes.length := by
  have := encTable_pos r.subs
  simp only [RevSeg.bytes, List.length_append]
  omega

/-- the table offsets are strictly increasing -/
theorem placeRevs_sorted : ∀ (rs : List RevSeg) (pos : Nat), ((placeRevs rs pos).map tableOfs).Pairwise (· < ·)
  | [], _ => List.Pairwise.nil
  | r :: t, pos => by
    simp only [placeRevs, List.map_cons, List.pairwise_cons]
    refine ⟨?_, placeRevs_sorted t _⟩
    intro o ho
    obtain ⟨q, hq, rfl⟩ := List.mem_map.mp ho
    have h1 := placeRevs_ge t _ q hq
    have h2 := revBytes_len r
    simp only [tableOfs]
    omega

/-- the cursors of the layout: where each revision, and its table, starts -/
theorem revs_all (s : Bytes) : ∀ (rs : List RevSeg) (pos : Nat) (rest : Bytes), pos ≤ s.length →
    s.drop pos = revsBytes rs ++ rest →
    ∀ q ∈ placeRevs rs pos, q.2 ≤ s.length ∧ (∃ r, s.drop q.2 = bodyBytes q.1.body ++ r) ∧
      ∃ r, s.drop (tableOfs q) = encTable q.1.subs ++ (kwTrailer ++ (q.1.wt ++ (q.1.ttok ++ r)))
  | [], _, _, _, _ => by intro q hq; cases hq
  | r :: t, pos, rest, hpos, hd => by
    intro q hq
    have hd0 : s.drop pos = bodyBytes r.body ++ (encTable r.subs ++ (kwTrailer ++ (r.wt ++ (r.ttok ++
        (r.gap ++ (revsBytes t ++ rest)))))) := by
      rw [hd]; simp [revsBytes, RevSeg.bytes]
    simp only [placeRevs, List.mem_cons] at hq
    rcases hq with rfl | hq
    · exact ⟨hpos, ⟨_, hd0⟩, ⟨_, drop_next hd0⟩⟩
    · have hd1 : s.drop pos = r.bytes ++ (revsBytes t ++ rest) := by
        rw [hd]; simp [revsBytes]
      exact revs_all s t (pos + r.bytes.length) rest (drop_le hd1 hpos) (drop_next hd1) q hq

/-! ## sections of a placed history -/

def secOf (q : RevSeg × Nat) (D : List (Bytes × Obj)) : Sec := ⟨tableOfs q, q.1.subs, q.1.wt, q.1.ttok, D⟩

/-- the sections (oldest first) of placed revisions with their trailer dictionary values -/
def secsOf : List (RevSeg × Nat) → List (List (Bytes × Obj)) → List Sec
  | q :: t, D :: Ds => secOf q D :: secsOf t Ds
  | [], _ => []
  | _ :: _, [] => []

theorem secsOf_c : ∀ (segs : List (RevSeg × Nat)) (Ds : List (List (Bytes × Obj))), Ds.length = segs.length →
    (secsOf segs Ds).map (·.c) = segs.map tableOfs
  | [], _, _ => rfl
  | _ :: _, [], h => by simp at h
  | q :: t, D :: Ds, h => by
    simp only [secsOf, List.map_cons, secOf]
    rw [secsOf_c t Ds (by simpa using h)]

theorem secsOf_subs : ∀ (segs : List (RevSeg × Nat)) (Ds : List (List (Bytes × Obj))), Ds.length = segs.length →
    (secsOf segs Ds).map (·.subs) = segs.map (·.1.subs)
  | [], _, _ => rfl
  | _ :: _, [], h => by simp at h
  | q :: t, D :: Ds, h => by
    simp only [secsOf, List.map_cons, secOf]
    rw [secsOf_subs t Ds (by simpa using h)]

theorem mem_secsOf : ∀ (segs : List (RevSeg × Nat)) (Ds : List (List (Bytes × Obj))) (x : Sec),
    x ∈ secsOf segs Ds → ∃ q ∈ segs, ∃ D, x = secOf q D
  | [], _, _, h => by simp [secsOf] at h
  | _ :: _, [], _, h => by simp [secsOf] at h
  | q :: t, D :: Ds, x, h => by
    simp only [secsOf, List.mem_cons] at h
    rcases h with rfl | h
    · exact ⟨q, List.mem_cons_self, D, rfl⟩
    · obtain ⟨q', hq', D', hx⟩ := mem_secsOf t Ds x h
      exact ⟨q', List.mem_cons_of_mem _ hq', D', hx⟩

/-! ## the file -/

/-- a history: any number of revisions, every one with a classic table, as written -/
structure HistFile where
  garbage : Bytes            -- anything before the header
  hdrRest : Bytes            -- the header after `%PDF-`
  revs : List RevSeg         -- the revisions, OLDEST first
  wsx : Bytes                -- after the last `startxref`
  ds : Bytes                 -- the digits of the offset of the newest table
  e : Bytes                  -- white space before `%%EOF`
  trail : Bytes              -- after `%%EOF`

namespace HistFile

def hdr (f : HistFile) : Bytes := kwPdf ++ f.hdrRest

def mid (f : HistFile) : Bytes := revsBytes f.revs

/-- the document view: everything from the header on -/
def view (f : HistFile) : Bytes :=
  f.hdr ++ (f.mid ++ (kwStartxref ++ (f.wsx ++ (f.ds ++ (f.e ++ (kwEOF ++ f.trail))))))

def bytes (f : HistFile) : Bytes := f.garbage ++ f.view

/-- the revisions with their start offsets (relative to the header), oldest first -/
def segs (f : HistFile) : List (RevSeg × Nat) := placeRevs f.revs f.hdr.length

/-- the cross-reference sections for trailer dictionary values `Ds`, oldest first -/
def secs (f : HistFile) (Ds : List (List (Bytes × Obj))) : List Sec := secsOf f.segs Ds

/-- all tables' entries, NEWEST revision first (the order the loader reads them in) -/
def tables (f : HistFile) : List Xref.Ent := entsOf ((f.revs.map (·.subs)).reverse)

/-- the part of well-formedness that does not concern the objects -/
structure WF0 (f : HistFile) (Ds : List (List (Bytes × Obj))) (root : ObjId) : Prop where
  /-- the magic `%PDF-` does not occur before the header -/
  noMagic : ∀ k, k < f.garbage.length → kwPdf.isPrefixOf (f.bytes.drop k) = false
  /-- one trailer dictionary value per revision -/
  dsLen : Ds.length = f.revs.length
  /-- every section: table syntax, each number once, trailer spelled, no /XRefStm -/
  secsOk : ∀ x ∈ f.secs Ds, SecOK x
  /-- revision 0 has no /Prev; /Prev of revision i+1 is the offset of the table of revision i -/
  prevs : PrevOK none (f.secs Ds)
  /-- the newest revision: its trailer names the root, the last `startxref` gives the offset of its table -/
  newest : ∃ x, (f.secs Ds).getLast? = some x ∧ dictGet kRoot x.D = some (.ref root.1 root.2) ∧ digitsVal f.ds 0 = x.c
  /-- STABLE GENERATIONS: a number has the same generation wherever a table mentions it (the opposite case is the
      code's known defect #29) -/
  stableGen : StableGen f.tables
  wsx : WsRun f.wsx
  wsxNe : f.wsx ≠ []
  wsxNoS : (115 : UInt8) ∉ f.wsx
  dsNe : f.ds ≠ []
  dsDig : ∀ y ∈ f.ds, isDigit y = true
  ofsFits : digitsVal f.ds 0 ≤ i64Max
  e : ∀ y ∈ f.e, isWsEol y = true
  /-- no further `%%EOF` after the last one -/
  trail : ∀ k, 0 < k → kwEOF.isPrefixOf ((kwEOF ++ f.trail).drop k) = false

/-- well-formedness of the history -/
structure WF (f : HistFile) (Ds : List (List (Bytes × Obj))) (root : ObjId) : Prop extends WF0 f Ds root where
  /-- every object of every revision is legally written -/
  reads : ∀ r ∈ f.revs, ∀ q ∈ r.body, q.p.Reads
  /-- the in-use entries of each table are the objects of its revision, each with its number, generation, offset -/
  tableObjs : ∀ q ∈ f.segs, TableOf (tableEnts q.1.subs) (objsOf q)

theorem segs_subs (f : HistFile) : f.segs.map (·.1.subs) = f.revs.map (·.subs) := by
  exact placeRevs_subs f.revs f.hdr.length

theorem tables_eq (f : HistFile) : f.tables = entsOf ((f.segs.map (·.1.subs)).reverse) := by
  rw [segs_subs]; rfl

theorem mem_tables (f : HistFile) (e : Xref.Ent) : e ∈ f.tables ↔ ∃ q ∈ f.segs, e ∈ tableEnts q.1.subs := by
  rw [tables_eq, mem_entsOf]
  simp only [List.mem_reverse, List.mem_map]
  constructor
  · rintro ⟨subs, ⟨q, hq, rfl⟩, he⟩
    exact ⟨q, hq, he⟩
  · rintro ⟨q, hq, he⟩
    exact ⟨_, ⟨q, hq, rfl⟩, he⟩

theorem mem_segs_revs (f : HistFile) (q : RevSeg × Nat) (hq : q ∈ f.segs) : q.1 ∈ f.revs := by
  have := placeRevs_fst f.revs f.hdr.length
  rw [← this]
  exact List.mem_map_of_mem hq

/-- the cursors of the layout -/
theorem cursors (f : HistFile) : ∀ q ∈ f.segs, q.2 ≤ f.view.length ∧ (∃ r, f.view.drop q.2 = bodyBytes q.1.body ++ r) ∧
    ∃ r, f.view.drop (tableOfs q) = encTable q.1.subs ++ (kwTrailer ++ (q.1.wt ++ (q.1.ttok ++ r))) := by
  have h0 : f.hdr.length ≤ f.view.length := by simp [view]
  have hd0 : f.view.drop f.hdr.length = revsBytes f.revs ++ (kwStartxref ++ (f.wsx ++ (f.ds ++ (f.e ++ (kwEOF ++ f.trail))))) := by
    unfold view mid
    rw [List.drop_left]
  exact revs_all f.view f.revs f.hdr.length _ h0 hd0

/-- every table mentions a number once (from `secsOk`) -/
theorem nums_nodup (f : HistFile) (Ds : List (List (Bytes × Obj))) (root : ObjId) (h : f.WF0 Ds root) :
    ∀ q ∈ f.segs, ((tableEnts q.1.subs).map (·.obj)).Nodup := by
  have hlen : Ds.length = f.segs.length := by
    rw [h.dsLen, ← placeRevs_fst f.revs f.hdr.length, List.length_map]; rfl
  intro q hq
  have hm : q.1.subs ∈ (f.secs Ds).map (·.subs) := by
    unfold HistFile.secs
    rw [secsOf_subs _ _ hlen]
    exact List.mem_map_of_mem (f := fun q : RevSeg × Nat => q.1.subs) hq
  obtain ⟨x, hx, hxs⟩ := List.mem_map.mp hm
  have := (h.secsOk x hx).numsNodup
  rw [hxs] at this
  exact this

/-- **`get_xref_info` on a history**: the first-occurrence merge of all tables, newest first; the newest root;
    the context as it was -/
theorem xrefinfo_hist (f : HistFile) (Ds : List (List (Bytes × Obj))) (root : ObjId) (h : f.WF0 Ds root) :
    ∃ enc, getXrefInfo ⟨Ctx.new 50, false⟩ f.view (digitsVal f.ds 0) =
      (.ok (dedupKey f.tables [], .ref root.1 root.2), ⟨Ctx.new 50, enc⟩) := by
  obtain ⟨x, hlast, hroot, hsx⟩ := h.newest
  have hlen : Ds.length = f.segs.length := by
    rw [h.dsLen, ← placeRevs_fst f.revs f.hdr.length, List.length_map]; rfl
  cases hrev : (f.secs Ds).reverse with
  | nil =>
    rw [List.reverse_eq_nil_iff] at hrev
    rw [hrev] at hlast
    cases hlast
  | cons x' older =>
    have hx : x' = x := by
      have := List.head?_reverse (l := f.secs Ds)
      rw [hrev, hlast] at this
      simpa using this
    subst hx
    have hmem : ∀ y ∈ x' :: older, y ∈ f.secs Ds := by
      intro y hy
      rw [← hrev] at hy
      exact List.mem_reverse.mp hy
    have hall : ∀ y ∈ x' :: older, SecAt f.view y := by
      intro y hy
      refine ⟨h.secsOk y (hmem y hy), ?_⟩
      obtain ⟨q, hq, D, rfl⟩ := mem_secsOf _ _ y (hmem y hy)
      exact (f.cursors q hq).2.2
    have hl : Linked (x' :: older) := by
      rw [← hrev]; exact linked_reverse _ h.prevs
    have hnd : ((x' :: older).map (·.c)).Nodup := by
      rw [← hrev, List.map_reverse]
      show List.Pairwise (· ≠ ·) _
      rw [List.pairwise_reverse]
      unfold secs
      rw [secsOf_c _ _ hlen]
      exact (placeRevs_sorted f.revs f.hdr.length).imp (fun h => (Nat.ne_of_lt h).symm)
    obtain ⟨enc, hx⟩ := xrefinfo_secs f.view x' older (.ref root.1 root.2) hall hl hnd hroot
    have hents : secEnts (x' :: older) = f.tables := by
      rw [← hrev, tables_eq]
      unfold secEnts secs
      rw [List.map_reverse, secsOf_subs _ _ hlen]
    rw [hents, ← hsx] at hx
    exact ⟨enc, hx⟩

end HistFile

/-! ## the composition -/

/-- the composition up to the loading stage -/
theorem load_hist_core (f : HistFile) (Ds : List (List (Bytes × Obj))) (root : ObjId) (h : f.WF0 Ds root)
    (P : ObjStm.Defs → Prop)
    (hstage : ∀ enc, ∃ defs, parseObjects f.garbage.length ⟨Ctx.new 50, enc⟩ (infoOf (dedupKey f.tables [])) f.view
      = .ok defs ∧ P defs) :
    ∃ L : Loaded, parseData f.bytes = .ok L ∧ L.root = root ∧ P L.defs := by
  have hpdf : kwPdf.isPrefixOf f.hdr = true := by
    rw [List.isPrefixOf_iff_prefix]; exact List.prefix_append _ _
  have hscan := parseData_scan f.garbage f.hdr f.mid f.wsx f.ds f.e f.trail h.noMagic hpdf h.wsx h.wsxNe h.wsxNoS
    h.dsNe h.dsDig h.ofsFits h.e h.trail
  obtain ⟨enc, hx⟩ := f.xrefinfo_hist Ds root h
  have hlt : digitsVal f.ds 0 < f.view.length := by
    obtain ⟨x, hlast, _, hsx⟩ := h.newest
    have hxm : x ∈ f.secs Ds := List.mem_of_getLast? hlast
    obtain ⟨q, hq, D, rfl⟩ := mem_secsOf _ _ x hxm
    obtain ⟨_, _, r, hd⟩ := f.cursors q hq
    rw [hsx]
    exact table_cursor_lt hd
  obtain ⟨defs, hpo, hP⟩ := hstage enc
  refine ⟨⟨defs, root⟩, ?_, rfl, hP⟩
  show parseData (f.garbage ++ f.view) = _
  unfold HistFile.view
  rw [hscan]
  unfold loadRest
  have hlt' : digitsVal f.ds 0 < (f.hdr ++ (f.mid ++ (kwStartxref ++ (f.wsx ++ (f.ds ++ (f.e ++ (kwEOF ++ f.trail))))))).length := hlt
  have hx' : getXrefInfo ⟨Ctx.new 50, false⟩ (f.hdr ++ (f.mid ++ (kwStartxref ++ (f.wsx ++ (f.ds ++ (f.e ++ (kwEOF ++ f.trail))))))) (digitsVal f.ds 0) = _ := hx
  have hpo' : parseObjects f.garbage.length ⟨Ctx.new 50, enc⟩ (infoOf (dedupKey f.tables []))
    (f.hdr ++ (f.mid ++ (kwStartxref ++ (f.wsx ++ (f.ds ++ (f.e ++ (kwEOF ++ f.trail))))))) = _ := hpo
  simp only [hlt', decide_true, Bool.not_true, Bool.false_eq_true, if_false, hx', hpo']

/-- the newest entry for a number: the entry `e` of revision `q`, when no newer revision (`post`) mentions it -/
theorem HistFile.find_tables (f : HistFile) (pre : List (RevSeg × Nat)) (q : RevSeg × Nat) (post : List (RevSeg × Nat))
    (hseg : f.segs = pre ++ q :: post) (hnd : ((tableEnts q.1.subs).map (·.obj)).Nodup)
    (e : Xref.Ent) (he : e ∈ tableEnts q.1.subs)
    (hno : ∀ q' ∈ post, ∀ e' ∈ tableEnts q'.1.subs, e'.obj ≠ e.obj) :
    f.tables.find? (·.obj == e.obj) = some e := by
  have ht : f.tables = entsOf ((post.map (·.1.subs)).reverse) ++ (tableEnts q.1.subs ++ entsOf ((pre.map (·.1.subs)).reverse)) := by
    rw [f.tables_eq, hseg, List.map_append, List.map_cons, List.reverse_append, List.reverse_cons, List.append_assoc,
      entsOf_append, entsOf_append]
    simp [entsOf]
  rw [ht, List.find?_append, find_none_of _ e.obj (by
    intro e' he'
    obtain ⟨subs, hs, hes⟩ := (mem_entsOf _ e').mp he'
    obtain ⟨q', hq', rfl⟩ := List.mem_map.mp (List.mem_reverse.mp hs)
    exact hno q' hq' e' hes), List.find?_append, find_of_mem_nodup _ hnd e he]
  rfl

/-- **`load_hist` (C04, end to end, any number of revisions with classic tables)**: loading succeeds, reports the
    newest root, and for every object number the NEWEST table that mentions it decides; a number no table mentions is
    undefined.  `f.segs = pre ++ q :: post` names a revision `q` together with the newer ones `post`. -/
theorem load_hist (f : HistFile) (Ds : List (List (Bytes × Obj))) (root : ObjId) (h : f.WF Ds root) :
    ∃ L : Loaded, parseData f.bytes = .ok L ∧ L.root = root ∧
      (∀ pre q post, f.segs = pre ++ q :: post → ∀ e ∈ tableEnts q.1.subs,
        (∀ q' ∈ post, ∀ e' ∈ tableEnts q'.1.subs, e'.obj ≠ e.obj) → Decides (objsOf q) L.defs e) ∧
      (∀ n, (∀ q ∈ f.segs, ∀ e ∈ tableEnts q.1.subs, e.obj ≠ n) → ∀ g, ObjStm.defsGet (n, g) L.defs = none) := by
  refine load_hist_core f Ds root h.toWF0 (fun defs =>
    (∀ pre q post, f.segs = pre ++ q :: post → ∀ e ∈ tableEnts q.1.subs,
      (∀ q' ∈ post, ∀ e' ∈ tableEnts q'.1.subs, e'.obj ≠ e.obj) → Decides (objsOf q) defs e) ∧
    (∀ n, (∀ q ∈ f.segs, ∀ e ∈ tableEnts q.1.subs, e.obj ≠ n) → ∀ g, ObjStm.defsGet (n, g) defs = none)) ?_
  intro enc
  have hnums := f.nums_nodup Ds root h.toWF0
  let all : List (Piece × Nat) := f.segs.flatMap objsOf
  have hrall : ∀ p ∈ all, p.2 < f.view.length ∧ ReadsAt 0 50 false f.view (itemOf p) := by
    intro p hp
    obtain ⟨q, hq, hpq⟩ := List.mem_flatMap.mp hp
    obtain ⟨hle, ⟨r, hd⟩, _⟩ := f.cursors q hq
    exact reads_body q.1.body f.view q.2 r hle hd (h.reads q.1 (f.mem_segs_revs q hq)) p hpq
  have hobj : ∀ e ∈ f.tables, ∀ o, e.st = .inUse o → ∃ p ∈ all, p.1.num = e.obj ∧ p.1.gen = e.gen ∧ p.2 = o := by
    intro e he o hst
    obtain ⟨q, hq, heq⟩ := (f.mem_tables e).mp he
    obtain ⟨p, hp, hp'⟩ := (h.tableObjs q hq).obj_of_ent e heq o hst
    exact ⟨p, List.mem_flatMap.mpr ⟨q, hq, hp⟩, hp'⟩
  have hnostm : ∀ e ∈ f.tables, ∀ a b, e.st ≠ .inStream a b := by
    intro e he
    obtain ⟨q, _, heq⟩ := (f.mem_tables e).mp he
    exact tableEnts_noStm _ e heq
  obtain ⟨defs, hpo, hF, hU, hN⟩ := stage_merged f.garbage.length enc f.view f.tables (lookupVal all) hnostm h.stableGen (by
    intro e he o hst
    obtain ⟨p, hp, h1, h2, h3, hv⟩ := lookupVal_spec _ e.obj e.gen o (hobj e he o hst)
    have := hrall p hp
    rw [hv, ← h1, ← h2, ← h3]
    exact this)
  have hval : ∀ e ∈ f.tables, ∀ o, e.st = .inUse o → ∀ p ∈ all, p.2 = o → lookupVal all e.obj e.gen o = p.1.val p.2 := by
    intro e he o hst p hp h3
    obtain ⟨p', hp', _, _, h3', hv⟩ := lookupVal_spec _ e.obj e.gen o (hobj e he o hst)
    rw [hv]
    exact readsAt_val_unique (hrall p' hp').2 (hrall p hp).2 (by show p'.2 = p.2; rw [h3, h3'])
  refine ⟨defs, hpo, ?_, ?_⟩
  · intro pre q post hseg e he hno
    have hq : q ∈ f.segs := by rw [hseg]; simp
    have hfind := f.find_tables pre q post hseg (hnums q hq) e he hno
    have het : e ∈ f.tables := (f.mem_tables e).mpr ⟨q, hq, he⟩
    refine ⟨fun o hst => ⟨(h.tableObjs q hq).obj_of_ent e he o hst, ?_, (hU e.obj e o hfind hst).2⟩,
      fun nx hfree => hF e.obj e nx hfind hfree⟩
    intro p hp _ _ h3
    rw [(hU e.obj e o hfind hst).1, hval e het o hst p (List.mem_flatMap.mpr ⟨q, hq, hp⟩) h3]
  · intro n hn g
    apply hN n _ g
    apply find_none_of
    intro e he
    obtain ⟨q, hq, heq⟩ := (f.mem_tables e).mp he
    exact hn q hq e heq

/-- the same read from the objects: an object of a revision whose number no NEWER table mentions is defined with its
    value (in particular every object of the newest revision) -/
theorem load_hist_objs (f : HistFile) (Ds : List (List (Bytes × Obj))) (root : ObjId) (h : f.WF Ds root) :
    ∃ L : Loaded, parseData f.bytes = .ok L ∧ L.root = root ∧
      ∀ pre q post, f.segs = pre ++ q :: post → ∀ p ∈ objsOf q,
        (∀ q' ∈ post, ∀ e' ∈ tableEnts q'.1.subs, e'.obj ≠ p.1.num) →
        ObjStm.defsGet (p.1.num, p.1.gen) L.defs = some (p.1.val p.2).val := by
  obtain ⟨L, hL, hroot, hdec, _⟩ := load_hist f Ds root h
  refine ⟨L, hL, hroot, ?_⟩
  intro pre q post hseg p hp hno
  have hq : q ∈ f.segs := by rw [hseg]; simp
  obtain ⟨e, he, ho, hg, hst⟩ := (h.tableObjs q hq).ent_of_obj p hp
  have := ((hdec pre q post hseg e he (by rw [ho]; exact hno)).1 p.2 hst).2.1 p hp ho.symm hg.symm rfl
  rw [ho, hg] at this
  exact this

end Parsley.LoaderE2E
