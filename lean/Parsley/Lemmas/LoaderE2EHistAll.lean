/-
  C04 end-to-end, the MOST GENERAL history theorem (part 1: the ingredients that do not mention the file layout):
  revisions classic / cross-reference stream / hybrid in any mix, OBJECT STREAMS, and stream objects whose /Length is a
  FORWARD REFERENCE (read by the second pass of `parse_objects`).  Multi-revision analogue of
  `load_xrefstream_all` / `load_hybrid_all` (Lemmas/LoaderE2EFwdFile.lean); combines Lemmas/LoaderE2EHistFwd.lean
  (two-pass stage on a merged table) with Lemmas/LoaderE2EHistObjStm.lean (`stage_merged_objstm`).

    placeH_objs_sorted, hobjs_ofs_inj   geometry for `HybMixFile`: an object of the file is determined by its offset
    stage_merged_two_pass_objstm        the loading stage - BOTH passes and the object-stream pass - on the merged table of
                                        a history from any sorted context.  Hypotheses: those of `stage_merged_objstm`
                                        with "every in-use entry reads" weakened to `ReadsKd` (reads, or reads once its
                                        holder is defined) for the entries not bound in the context, plus the holder
                                        condition of `stage_merged_two_pass` (the holder resolves in the merged table to a
                                        plain in-use entry with the integer value).  Conclusions: exactly those of
                                        `stage_merged_objstm`.  A container may itself be a dependent stream.
-/
import Parsley.Lemmas.LoaderE2EHistFwd
import Parsley.Lemmas.LoaderE2EHistHybObjStm
namespace Parsley.LoaderE2E
open Parsley Parsley.Prim Parsley.Obj Parsley.Indirect Parsley.Loader Parsley.C02 Parsley.Spelling
open Parsley.XrefSpec Parsley.C13 Parsley.LoaderChain Parsley.LoaderStage Parsley.LoaderObjStm
open Parsley.C03 (Item ReadsAt)
open Parsley.C04 (StableGen)
open Parsley.LoaderTwoPass (Entry ReadsDep)

/-! ## geometry -/

theorem HRev.body_le (m : HRev) : (bodyBytes m.body).length ≤ m.bytes.length := by
  simp [HRev.bytes]

/-- the offsets of all objects of all revisions, in file order, are strictly increasing -/
theorem placeH_objs_sorted : ∀ (rs : List HRev) (pos : Nat), (∀ m ∈ rs, ∀ q ∈ m.body, 0 < q.p.bytes.length) →
    ((placeH rs pos).flatMap hobjsOf).Pairwise (fun a b => a.2 < b.2) ∧
    ∀ p ∈ (placeH rs pos).flatMap hobjsOf, pos ≤ p.2
  | [], _, _ => ⟨by simp [placeH], by intro p hp; simp [placeH] at hp⟩
  | m :: t, pos, h => by
    obtain ⟨ih1, ih2⟩ := placeH_objs_sorted t (pos + m.bytes.length) (fun m' hm' => h m' (List.mem_cons_of_mem _ hm'))
    obtain ⟨h1, h2⟩ := place_ofs m.body pos (h m List.mem_cons_self)
    have hb := m.body_le
    constructor
    · simp only [placeH, List.flatMap_cons, List.pairwise_append]
      refine ⟨h1, ih1, ?_⟩
      intro a ha b hb'
      have := (h2 a ha).2
      have := ih2 b hb'
      omega
    · intro p hp
      simp only [placeH, List.flatMap_cons, List.mem_append] at hp
      rcases hp with hp | hp
      · exact (h2 p hp).1
      · have := ih2 p hp
        omega

/-- **an object of the file is determined by its offset** -/
theorem hobjs_ofs_inj (rs : List HRev) (pos : Nat) (h : ∀ m ∈ rs, ∀ q ∈ m.body, 0 < q.p.bytes.length) :
    ∀ a ∈ (placeH rs pos).flatMap hobjsOf, ∀ b ∈ (placeH rs pos).flatMap hobjsOf, a.2 = b.2 → a = b :=
  eq_of_pairwise_lt (fun a : Piece × Nat => a.2) _ (placeH_objs_sorted rs pos h).1

/-! ## the stage: both passes and the object-stream pass on a merged table -/

/-- **the stage (both passes + object streams) on a merged table with in-stream entries, from a context `defs0`** -/
theorem stage_merged_two_pass_objstm (hofs : Nat) (s : Bytes) (defs0 : Defs) (hs0 : DefsSorted defs0)
    (L : List Xref.Ent) (val : Nat → Nat → Nat → Located Obj) (kd : Nat → Nat → Nat → Option (ObjId × Int))
    (ws : List WCont)
    (hsize : hofs + s.length ≤ 2 ^ 63)
    (hstable : StableGen L)
    (hread : ∀ e ∈ L, ∀ o, e.st = .inUse o → defsGet (e.obj, e.gen) defs0 = none →
      o < s.length ∧ ReadsKd kd s ⟨e.obj, e.gen, o, val e.obj e.gen o⟩)
    (hhold : ∀ e o, L.find? (·.obj == e.obj) = some e → e.st = .inUse o → defsGet (e.obj, e.gen) defs0 = none →
      ∀ h len, kd e.obj e.gen o = some (h, len) →
      ∃ eh oh, L.find? (·.obj == h.1) = some eh ∧ eh.gen = h.2 ∧ eh.st = .inUse oh ∧ kd h.1 h.2 oh = none ∧
        (val h.1 h.2 oh).val = .int len ∧ ∀ v0, defsGet h defs0 = some v0 → v0.val = .int len)
    (hrows : ∀ n e c i, L.find? (·.obj == n) = some e → e.st = .inStream c i → ∃ w ∈ ws, w.num = c)
    (hcont : ∀ w ∈ ws, w.OK s ∧ defsGet (w.num, 0) defs0 = none ∧
      ∃ e o, L.find? (·.obj == w.num) = some e ∧ e.gen = 0 ∧ e.st = .inUse o ∧
        (val w.num 0 o).val = .stream w.kvs w.sc)
    (hcnd : (ws.map WCont.num).Nodup)
    (hmnd : (ws.flatMap fun w => w.mems.map (·.num)).Nodup)
    (hmem : ∀ w ∈ ws, ∀ m ∈ w.mems, defsGet (m.num, 0) defs0 = none ∧
      ∃ e i, L.find? (·.obj == m.num) = some e ∧ e.st = .inStream w.num i) :
    ∃ defs, parseObjects hofs ⟨⟨defs0, 0, 50, false⟩, false⟩ (infoOf (dedupKey L [])) s = .ok defs ∧
      (∀ n e nx, L.find? (·.obj == n) = some e → e.st = .free nx →
        ∀ g, defsGet (n, g) defs0 = none → ObjStm.defsGet (n, g) defs = none) ∧
      (∀ n e o, L.find? (·.obj == n) = some e → e.st = .inUse o →
        (defsGet (n, e.gen) defs0 = none → ObjStm.defsGet (n, e.gen) defs = some (val n e.gen o).val) ∧
        ∀ g, g ≠ e.gen → defsGet (n, g) defs0 = none → ObjStm.defsGet (n, g) defs = none) ∧
      (∀ w ∈ ws, ∀ m ∈ w.mems, ObjStm.defsGet (m.num, 0) defs = some m.v) ∧
      (∀ n e c i, L.find? (·.obj == n) = some e → e.st = .inStream c i → ∀ g,
        (∀ w ∈ ws, ∀ m ∈ w.mems, (m.num, 0) ≠ (n, g)) → defsGet (n, g) defs0 = none →
        ObjStm.defsGet (n, g) defs = none) ∧
      (∀ n, L.find? (·.obj == n) = none → ∀ g, ObjStm.defsGet (n, g) defs = (defsGet (n, g) defs0).map (·.val)) ∧
      (∀ k v0, defsGet k defs0 = some v0 → ObjStm.defsGet k defs = some v0.val) := by
  have hfil : ∀ n, (dedupKey L []).filter (·.obj == n) = (L.find? (·.obj == n)).toList :=
    stable_gen_first_per_number L hstable
  have hsub : ∀ e ∈ dedupKey L [], e ∈ L := fun e he => mem_dedupKey_sub L e he
  have hnd : ((itemsOf val (dedupKey L [])).map Item.key).Nodup := itemsOf_nodup val L
  have hcur : ∀ e, e ∈ dedupKey L [] ↔ L.find? (·.obj == e.obj) = some e := mem_merged_iff L hstable
  generalize dedupKey L [] = X at hfil hsub hnd hcur
  have hmemX : ∀ n e, L.find? (·.obj == n) = some e → e ∈ X ∧ e.obj = n := by
    intro n e hf
    have heo := find_obj hf
    exact ⟨(hcur e).mpr (by rw [heo]; exact hf), heo⟩
  have hitem : ∀ it ∈ itemsOf val X, ∃ e, L.find? (·.obj == it.id) = some e ∧ e.st = .inUse it.ofs ∧ it.gen = e.gen :=
    fun it hit => items_of_number val X L it.id (hfil it.id) it hit rfl
  have hnomem : ∀ n e, L.find? (·.obj == n) = some e → (∀ c i, e.st ≠ .inStream c i) →
      ∀ g, ∀ w ∈ ws, ∀ m ∈ w.mems, (m.num, 0) ≠ (n, g) := by
    intro n e hf hno g w hw m hm hk
    obtain ⟨_, e', i, hf', hst'⟩ := hmem w hw m hm
    have hn : m.num = n := congrArg Prod.fst hk
    rw [hn, hf] at hf'
    cases hf'
    exact hno _ _ hst'
  have hinfo : ((itemsOf val X).map (entOfK kd)).map (fun e => e.item.info) = (itemsOf val X).map Item.info := by
    rw [List.map_map]
    apply List.map_congr_left
    intro it _
    simp only [Function.comp, entOfK_item]
  have hkeys : ((itemsOf val X).map (entOfK kd)).map (fun e => e.item.key) = (itemsOf val X).map Item.key := by
    rw [List.map_map]
    apply List.map_congr_left
    intro it _
    simp only [Function.comp, entOfK_item]
  have hplainMem : ∀ it, Entry.plain it ∈ (itemsOf val X).map (entOfK kd) →
      it ∈ itemsOf val X ∧ kd it.id it.gen it.ofs = none := by
    intro it hit
    obtain ⟨it', hit', heq⟩ := List.mem_map.mp hit
    unfold entOfK at heq
    cases hk : kd it'.id it'.gen it'.ofs with
    | none =>
      rw [hk] at heq
      injection heq with heq
      subst heq
      exact ⟨hit', hk⟩
    | some y => obtain ⟨h', len⟩ := y; rw [hk] at heq; cases heq
  have hdepMem : ∀ it h, Entry.dep it h ∈ (itemsOf val X).map (entOfK kd) →
      it ∈ itemsOf val X ∧ ∃ len, kd it.id it.gen it.ofs = some (h, len) := by
    intro it h hit
    obtain ⟨it', hit', heq⟩ := List.mem_map.mp hit
    unfold entOfK at heq
    cases hk : kd it'.id it'.gen it'.ofs with
    | none => rw [hk] at heq; cases heq
    | some y =>
      obtain ⟨h', len⟩ := y
      rw [hk] at heq
      injection heq with heq1 heq2
      subst heq1 heq2
      exact ⟨hit', len, hk⟩
  obtain ⟨defs, hpo, hA0, hM, hB0, hC⟩ := stage_two_pass_objstm_written hofs s defs0 hs0 (infoOf X)
    ((itemsOf val X).map (entOfK kd)) ws hsize
    (by rw [hinfo]; exact filesOf_infoOf val X)
    (by
      intro id
      rw [mem_stmsOf_infoOf id X]
      constructor
      · rintro ⟨e, heX, i, hst, h0⟩
        obtain ⟨w, hw, hwn⟩ := hrows e.obj e id.1 i ((hcur e).mp heX) hst
        exact ⟨w, hw, Prod.ext hwn.symm h0⟩
      · rintro ⟨w, hw, rfl⟩
        have hne := (hcont w hw).1.data.ne
        cases hms : w.mems with
        | nil => exact absurd hms hne
        | cons m t =>
          obtain ⟨_, e, i, hf, hst⟩ := hmem w hw m (by rw [hms]; exact List.mem_cons_self)
          exact ⟨e, (hmemX _ e hf).1, i, hst, rfl⟩)
    (by rw [hkeys]; exact hnd)
    (by
      intro it hit hn
      obtain ⟨hitX, hk⟩ := hplainMem it hit
      obtain ⟨e, heX, hst, hitq⟩ := (mem_itemsOf val it X).mp hitX
      have hn' : defsGet (e.obj, e.gen) defs0 = none := by
        have : it.key = (e.obj, e.gen) := by rw [hitq]; rfl
        rw [← this]; exact hn
      obtain ⟨hlt, hr⟩ := hread e (hsub e heX) it.ofs hst hn'
      rw [← hitq] at hr
      unfold ReadsKd at hr
      rw [hk] at hr
      exact ⟨hlt, hr⟩)
    (by
      intro it h hit hn
      obtain ⟨hitX, len, hk⟩ := hdepMem it h hit
      obtain ⟨e, heX, hst, hitq⟩ := (mem_itemsOf val it X).mp hitX
      have hid : it.id = e.obj := by rw [hitq]
      have hgen : it.gen = e.gen := by rw [hitq]
      have hn' : defsGet (e.obj, e.gen) defs0 = none := by
        have : it.key = (e.obj, e.gen) := by rw [hitq]; rfl
        rw [← this]; exact hn
      obtain ⟨hlt, hr⟩ := hread e (hsub e heX) it.ofs hst hn'
      rw [← hitq] at hr
      unfold ReadsKd at hr
      rw [hk] at hr
      refine ⟨hlt, len, hr, ?_⟩
      obtain ⟨eh, oh, hfh, hgh, hsth, hkh, hvh, hv0⟩ := hhold e it.ofs ((hcur e).mp heX) hst hn' h len
        (by rw [← hid, ← hgen]; exact hk)
      obtain ⟨hehX, heho⟩ := hmemX h.1 eh hfh
      cases hb : defsGet h defs0 with
      | some v0 => exact Or.inr ⟨v0, rfl, hv0 v0 hb⟩
      | none =>
        left
        have hkey : ((⟨eh.obj, eh.gen, oh, val eh.obj eh.gen oh⟩ : Item)).key = h := by
          show (eh.obj, eh.gen) = h
          rw [heho, hgh]
        refine ⟨⟨eh.obj, eh.gen, oh, val eh.obj eh.gen oh⟩, ?_, hkey, ?_, ?_⟩
        · have hm : (⟨eh.obj, eh.gen, oh, val eh.obj eh.gen oh⟩ : Item) ∈ itemsOf val X :=
            (mem_itemsOf val _ X).mpr ⟨eh, hehX, hsth, rfl⟩
          have := List.mem_map_of_mem (f := entOfK kd) hm
          unfold entOfK at this
          have hk0 : kd eh.obj eh.gen oh = none := by rw [heho, hgh]; exact hkh
          simp only [hk0] at this
          exact this
        · rw [hkey]; exact hb
        · show (val eh.obj eh.gen oh).val = .int len
          rw [heho, hgh]; exact hvh)
    hcnd
    (by
      intro w hw
      obtain ⟨hok, hd0, e, o, hf, hg, hst, hv⟩ := hcont w hw
      obtain ⟨heX, heo⟩ := hmemX _ e hf
      have hm : (⟨w.num, 0, o, val w.num 0 o⟩ : Item) ∈ itemsOf val X := by
        refine (mem_itemsOf val _ X).mpr ⟨e, heX, hst, ?_⟩
        rw [heo, hg]
      refine ⟨Or.inl ⟨entOfK kd ⟨w.num, 0, o, val w.num 0 o⟩, List.mem_map_of_mem hm, ?_, ?_, ?_⟩, hok⟩
      · rw [entOfK_item]; rfl
      · rw [entOfK_item]; exact hd0
      · rw [entOfK_item]; exact hv)
    hmnd
    (by
      intro w hw m hm
      obtain ⟨hd0, e, i, hf, hst⟩ := hmem w hw m hm
      refine ⟨?_, hd0⟩
      intro en hen hk
      obtain ⟨it, hit, rfl⟩ := List.mem_map.mp hen
      rw [entOfK_item] at hk
      obtain ⟨e', hf', hst', _⟩ := hitem it hit
      have hid : it.id = m.num := congrArg Prod.fst hk
      rw [hid, hf] at hf'
      cases hf'
      rw [hst] at hst'
      cases hst')
  have hA : ∀ it ∈ itemsOf val X, defsGet it.key defs0 = none → ObjStm.defsGet it.key defs = some it.v.val := by
    intro it hit hn
    have := hA0 (entOfK kd it) (List.mem_map_of_mem hit) (by rw [entOfK_item]; exact hn)
    rw [entOfK_item] at this
    exact this
  have hB : ∀ k, (∀ it ∈ itemsOf val X, it.key ≠ k) → (∀ w ∈ ws, ∀ m ∈ w.mems, (m.num, 0) ≠ k) →
      ObjStm.defsGet k defs = (defsGet k defs0).map (·.val) := by
    intro k hk hkm
    apply hB0 k ?_ hkm
    intro e he
    obtain ⟨it, hit, rfl⟩ := List.mem_map.mp he
    rw [entOfK_item]
    exact hk it hit
  refine ⟨defs, hpo, ?_, ?_, hM, ?_, ?_, hC⟩
  · intro n e nx hf hfree g hg
    rw [hB (n, g) ?_ (hnomem n e hf (by intro c i h; rw [hfree] at h; cases h) g), hg]; · rfl
    intro it hit hk
    obtain ⟨e', hf', hst', _⟩ := hitem it hit
    have hid : it.id = n := congrArg Prod.fst hk
    rw [hid, hf] at hf'; cases hf'
    rw [hfree] at hst'; cases hst'
  · intro n e o hf huse
    obtain ⟨heX, heo⟩ := hmemX n e hf
    constructor
    · intro hg
      have hit : (⟨e.obj, e.gen, o, val e.obj e.gen o⟩ : Item) ∈ itemsOf val X :=
        (mem_itemsOf val _ X).mpr ⟨e, heX, huse, rfl⟩
      have := hA _ hit (by rw [heo]; exact hg)
      rw [heo] at this
      exact this
    · intro g hne hg
      rw [hB (n, g) ?_ (hnomem n e hf (by intro c i h; rw [huse] at h; cases h) g), hg]; · rfl
      intro it hit hk
      obtain ⟨e', hf', _, hgen⟩ := hitem it hit
      have hid : it.id = n := congrArg Prod.fst hk
      rw [hid, hf] at hf'; cases hf'
      exact hne (by rw [← hgen]; exact (congrArg Prod.snd hk).symm)
  · intro n e c i hf hstm g hnm hg
    rw [hB (n, g) ?_ hnm, hg]; · rfl
    intro it hit hk
    obtain ⟨e', hf', hst', _⟩ := hitem it hit
    have hid : it.id = n := congrArg Prod.fst hk
    rw [hid, hf] at hf'; cases hf'
    rw [hstm] at hst'; cases hst'
  · intro n hf g
    apply hB (n, g)
    · intro it hit hk
      obtain ⟨e', hf', _, _⟩ := hitem it hit
      have hid : it.id = n := congrArg Prod.fst hk
      rw [hid, hf] at hf'; cases hf'
    · intro w hw m hm hk
      obtain ⟨_, e', i, hf', _⟩ := hmem w hw m hm
      have hn : m.num = n := congrArg Prod.fst hk
      rw [hn, hf] at hf'
      cases hf'

end Parsley.LoaderE2E
