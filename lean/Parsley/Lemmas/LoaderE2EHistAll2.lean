/-
  C04 end-to-end, the MOST GENERAL history theorem (part 2: the file).  `HybMixFile` = any number of revisions, each one
  classic / cross-reference stream / hybrid; object streams `ws` whose members are named by rows of type 2 (of plain
  cross-reference streams or of /XRefStm streams); stream objects with a direct OR a forward-referenced /Length.

  `HybMixFile.WFall f root ws dep` is `HybMixFile.WFo f root ws` with
    revsOk    only the SECTION part of the lexical conditions (`HRevSecOK`: `ClassicOK` / `StmOK2` / `HybOK2` minus the
              body pieces; every cross-reference stream object keeps its DIRECT /Length - the walk reads it);
    reads     every object other than the cross-reference stream objects (`HRev.others`) is `PieceOK dep`: it reads
              outright, or it is a stream that reads as soon as its /Length holder is bound (`Piece.ReadsDep`).  This
              includes the object streams `ws`: A CONTAINER MAY ITSELF HAVE A FORWARD /Length;
    holders   the holder of a dependent stream that the merged VISIBLE table loads resolves in that table to a plain
              file-level integer object (as `MixFile.WFfwd.holders`, on `q.1.vis`).
  All other fields are those of `WFo` (incl. THE EXCLUSION `memberTouchedLater f.secVis = false`).

    hsec_reads_sec        a written revision of any kind reads as its abstract section, whatever its other objects are
    xrefinfo_hybmix_all   the /Prev walk;  merge_visible_all;  load_hybmix_core_all
    load_hybmix_all       the end-to-end theorem, conclusion EXACTLY that of `load_hybmix_objstm`
    load_hybmix_all_objs  read from the objects written
    HybMixFile.WFo.toAll  `WFall` generalises `WFo` (`dep := fun _ => none`)
-/
import Parsley.Lemmas.LoaderE2EHistAll
import Parsley.Lemmas.LoaderE2EHistFwd2
import Parsley.Lemmas.LoaderE2EHistHybObjStm2
namespace Parsley.LoaderE2E
open Parsley Parsley.Prim Parsley.Obj Parsley.Indirect Parsley.Loader Parsley.C02 Parsley.Spelling
open Parsley.XrefSpec Parsley.C13 Parsley.LoaderChain Parsley.LoaderStage Parsley.LoaderObjStm
open Parsley.C03 (Item ReadsAt)
open Parsley.C04 (StableGen)
open Parsley.LoaderTwoPass (Entry ReadsDep)

/-! ## revisions: the section part of the lexical conditions -/

/-- `StmOK2` without the conditions on the body pieces (rows of type 0, 1 and 2) -/
structure StmSecOK2 (r : StmSeg) : Prop where
  xsOK : r.xs.OK
  xsLen : dictGet keyLength r.xs.kvs = some (.int r.xs.data.length)
  dict : XDictOK r.xs.kvs r.subs r.w0 r.w1 r.w2
  stored : LoaderE2E.Stored r.xs.kvs (XrefStreamFile.rowBytes r.subs r.w0 r.w1 r.w2) r.xs.data
  fits : ∀ p ∈ r.subs, ∀ e ∈ p.2, e.fits r.w0 r.w1 r.w2
  lim : ∀ p ∈ r.subs, p.1 + p.2.length ≤ Xref.usizeLim
  numsNodup : ((streamEnts r.subs).map (·.obj)).Nodup

/-- `HybOK2` without the conditions on the body pieces -/
structure HybSecOK2 (h : HybSeg) (D : List (Bytes × Obj)) : Prop where
  subsNe : h.subs ≠ []
  subsOk : ∀ t ∈ h.subs, subOk t
  wt : WsRun h.wt
  trailer : ∃ d, Spells d (.dict D) h.ttok ∧ d ≤ 51
  noEncrypt : dictGet kEncrypt D = none
  xsOK : h.xs.OK
  xsLen : dictGet keyLength h.xs.kvs = some (.int h.xs.data.length)
  dict : XDictOK h.xs.kvs h.ssubs h.v0 h.v1 h.v2
  stored : LoaderE2E.Stored h.xs.kvs (XrefStreamFile.rowBytes h.ssubs h.v0 h.v1 h.v2) h.xs.data
  fits : ∀ p ∈ h.ssubs, ∀ e ∈ p.2, e.fits h.v0 h.v1 h.v2
  lim : ∀ p ∈ h.ssubs, p.1 + p.2.length ≤ Xref.usizeLim
  numsNodup : (((HRev.hybrid h D).vis).map (·.obj)).Nodup
  noClash : hiddenClash (tableEnts h.subs) (streamEnts h.ssubs) = false

def MRevSecOK2 : MRev → Prop
  | .classic r D => ClassicSecOK r D
  | .stream r => StmSecOK2 r

def HRevSecOK : HRev → Prop
  | .plain m => MRevSecOK2 m
  | .hybrid h D => HybSecOK2 h D

theorem StmOK2.sec {r : StmSeg} (h : StmOK2 r) : StmSecOK2 r :=
  ⟨h.xsOK, h.xsLen, h.dict, h.stored, h.fits, h.lim, h.numsNodup⟩

theorem StmSecOK.toSec2 {r : StmSeg} (h : StmSecOK r) : StmSecOK2 r :=
  ⟨h.xsOK, h.xsLen, h.dict, h.stored, h.fits, h.lim, h.numsNodup⟩

theorem MRevOK2.secOK {m : MRev} (h : MRevOK2 m) : MRevSecOK2 m := by
  cases m with
  | classic r D => exact ClassicOK.secOnly h
  | stream r => exact StmOK2.sec h

theorem MRevSecOK.toSec2 {m : MRev} (h : MRevSecOK m) : MRevSecOK2 m := by
  cases m with
  | classic r D => exact h
  | stream r => exact StmSecOK.toSec2 h

theorem HybOK2.sec {h : HybSeg} {D : List (Bytes × Obj)} (k : HybOK2 h D) : HybSecOK2 h D :=
  ⟨k.subsNe, k.subsOk, k.wt, k.trailer, k.noEncrypt, k.xsOK, k.xsLen, k.dict, k.stored, k.fits, k.lim, k.numsNodup,
    k.noClash⟩

theorem HRevOK2.secOK {m : HRev} (h : HRevOK2 m) : HRevSecOK m := by
  cases m with
  | plain m => exact MRevOK2.secOK h
  | hybrid hs D => exact HybOK2.sec h

theorem MRevSecOK2.nums {m : MRev} (h : MRevSecOK2 m) : (m.ents.map (·.obj)).Nodup := by
  cases m with
  | classic r D => exact (ClassicSecOK.sec h).numsNodup
  | stream r => exact StmSecOK2.numsNodup h

theorem HRevSecOK.nums {m : HRev} (h : HRevSecOK m) : (m.vis.map (·.obj)).Nodup := by
  cases m with
  | plain m => exact MRevSecOK2.nums h
  | hybrid hs D => exact HybSecOK2.numsNodup h

/-- the objects of a revision other than its cross-reference stream object -/
def HRev.others : HRev → List Placed
  | .plain m => m.others
  | .hybrid h _ => h.body1 ++ h.body2

/-- an object of a revision is one of the `others` or the cross-reference stream object -/
theorem HRev.mem_body (m : HRev) (q : Placed) (hq : q ∈ m.body) :
    q ∈ m.others ∨ (0 < q.p.bytes.length ∧ m.xsKey = some (q.p.num, q.p.gen)) := by
  cases m with
  | plain m =>
    rcases m.mem_body q hq with ho | ⟨r, hr, rfl⟩
    · exact Or.inl ho
    · right
      subst hr
      exact ⟨WStm.bytes_pos r.xs, rfl⟩
  | hybrid h D =>
    simp only [HRev.body, HybSeg.body, List.mem_append, List.mem_cons] at hq
    rcases hq with hq | rfl | hq
    · exact Or.inl (List.mem_append_left _ hq)
    · exact Or.inr ⟨WStm.bytes_pos h.xs, rfl⟩
    · exact Or.inl (List.mem_append_right _ hq)

theorem HRev.others_sub (m : HRev) (q : Placed) (hq : q ∈ m.others) : q ∈ m.body := by
  cases m with
  | plain m =>
    cases m with
    | classic r D => exact hq
    | stream r =>
      simp only [HRev.others, MRev.others, List.mem_append] at hq
      simp only [HRev.body, MRev.body, StmSeg.body, List.mem_append, List.mem_cons]
      rcases hq with hq | hq
      · exact Or.inl hq
      · exact Or.inr (Or.inr hq)
  | hybrid h D =>
    simp only [HRev.others, List.mem_append] at hq
    simp only [HRev.body, HybSeg.body, List.mem_append, List.mem_cons]
    rcases hq with hq | hq
    · exact Or.inl hq
    · exact Or.inr (Or.inr hq)

/-- a written classic / stream revision reads as its abstract section, rows of type 2 included, whatever its other
    objects are -/
theorem msec_reads_sec2 (s : Bytes) (q : MRev × Nat) (hok : MRevSecOK2 q.1) (hle : q.2 ≤ s.length) (rest : Bytes)
    (hd : s.drop q.2 = bodyBytes q.1.body ++ (q.1.tail ++ rest)) : MReads s (msecOf q) := by
  obtain ⟨m, pos⟩ := q
  cases m with
  | classic r D =>
    have hok' : ClassicSecOK r D := hok
    have hd0 : s.drop pos = bodyBytes r.body ++ (encTable r.subs ++ (kwTrailer ++ (r.wt ++ (r.ttok ++ (r.gap ++ rest))))) := by
      rw [hd]; simp [MRev.body, MRev.tail]
    have hd1 := drop_next hd0
    refine ⟨table_cursor_lt hd1, ?_⟩
    intro defs _ _
    obtain ⟨d, hsp, hdd⟩ := hok'.sec.trailer
    obtain ⟨c1, hsec⟩ := section_classic defs false false s _ r.subs r.wt r.ttok _ d D hd1 hok'.sec.subsNe hok'.sec.subsOk
      hok'.sec.wt hsp hdd hok'.sec.noXRefStm
    rw [hok'.noEncrypt] at hsec
    exact ⟨c1, hsec⟩
  | stream r =>
    have hok' : StmSecOK2 r := hok
    have hd0 : s.drop pos = bodyBytes r.body1 ++ (r.xs.bytes ++ (r.xpost ++ (bodyBytes r.body2 ++ (r.gap ++ rest)))) := by
      rw [hd]; simp [MRev.body, MRev.tail, StmSeg.body, bodyBytes_append, bodyBytes, WStm.piece]
    have hd1 := drop_next hd0
    have hi1 := drop_le hd0 hle
    have hlt : pos + (bodyBytes r.body1).length < s.length := by
      have := drop_le hd1 hi1
      have := WStm.bytes_pos r.xs
      omega
    refine ⟨hlt, ?_⟩
    intro defs hs hk
    obtain ⟨fs, extra, hfs, hap⟩ := stored_decodes _ _ _ hok'.stored
    have hap' : Xref.applyFilters (xrefXf r.xs.kvs) fs r.xs.data 0 =
        .ok ((r.subs.flatMap fun p => encRows r.w0 r.w1 r.w2 p.2) ++ extra, 0) := hap
    obtain ⟨l, c, hl, hmap⟩ := xrefStreamP_decoded r.xs.kvs r.subs r.w0 r.w1 r.w2 hok'.dict fs r.xs.data extra hfs hap'
      hok'.fits hok'.lim
    obtain ⟨j, hsec⟩ := section_stream s _ r.xs _ hi1 hd1 hok'.xsOK hok'.xsLen defs hs (hk _ rfl) l c hl
    rw [hmap] at hsec
    exact ⟨j, hsec⟩

/-- **a written revision of any kind reads as its abstract section**, whatever its other objects are -/
theorem hsec_reads_sec (s : Bytes) (q : HRev × Nat) (hok : HRevSecOK q.1) (hxa : q.1.XRefStmAt q.2) (hle : q.2 ≤ s.length)
    (rest : Bytes) (hd : s.drop q.2 = bodyBytes q.1.body ++ (q.1.tail ++ rest)) : MReads s (hsecOf q) := by
  obtain ⟨m, pos⟩ := q
  cases m with
  | plain m => exact msec_reads_sec2 s (m, pos) hok hle rest hd
  | hybrid h D =>
    have hok' : HybSecOK2 h D := hok
    have hxa' : ObjStm.getUsize D kXRefStm = some (pos + (bodyBytes h.body1).length) := hxa
    have hd0 : s.drop pos = bodyBytes h.body1 ++ (h.xs.bytes ++ (h.xpost ++ (bodyBytes h.body2 ++
        (encTable h.subs ++ (kwTrailer ++ (h.wt ++ (h.ttok ++ (h.gap ++ rest)))))))) := by
      rw [hd]; simp [HRev.body, HRev.tail, HybSeg.body, bodyBytes_append, bodyBytes, WStm.piece]
    have hdX := drop_next hd0
    have hiX := drop_le hd0 hle
    have hdT : s.drop (pos + (bodyBytes h.body).length) =
        encTable h.subs ++ (kwTrailer ++ (h.wt ++ (h.ttok ++ (h.gap ++ rest)))) := by
      have h1 : s.drop (pos + (bodyBytes h.body).length) = (HRev.hybrid h D).tail ++ rest := drop_next hd
      rw [h1]; simp [HRev.tail]
    refine ⟨table_cursor_lt hdT, ?_⟩
    intro defs hs hk
    obtain ⟨fs, extra, hfs, hap⟩ := stored_decodes _ _ _ hok'.stored
    have hap' : Xref.applyFilters (xrefXf h.xs.kvs) fs h.xs.data 0 =
        .ok ((h.ssubs.flatMap fun p => encRows h.v0 h.v1 h.v2 p.2) ++ extra, 0) := hap
    obtain ⟨l, c, hl, hmap⟩ := xrefStreamP_decoded h.xs.kvs h.ssubs h.v0 h.v1 h.v2 hok'.dict fs h.xs.data extra hfs hap'
      hok'.fits hok'.lim
    obtain ⟨j, hstm⟩ := parseXrefStream_written s _ h.xs _ hiX hdX hok'.xsOK hok'.xsLen defs hs (hk _ rfl) l c hl
    obtain ⟨d, hsp, hdd⟩ := hok'.trailer
    have hsec := section_hybrid_from defs s _ h.subs h.wt h.ttok _ d D hdT hok'.subsNe hok'.subsOk hok'.wt hsp hdd
      _ hxa' hok'.noEncrypt hiX _ _ _ _ _ hstm
    rw [hmap] at hsec
    exact ⟨j, hsec⟩

/-- an object stream is not a cross-reference stream object: /Type /ObjStm versus /Type /XRef -/
theorem objstm_not_xref_sec (m : HRev) (hok : HRevSecOK m) (k : ObjId) (hk : m.xsKey = some k) (c : Nat) (w : WCont)
    (view : Bytes) (hdata : w.Data view) (hv : (m.xsVal c).val = .stream w.kvs w.sc) : False := by
  have key : ∀ xs : WStm, dictGet Xref.kType xs.kvs = some (.name Xref.nXRef) →
      (xs.val c).val = .stream w.kvs w.sc → False := by
    intro xs h1 hv
    have h2 : dictGet ObjStm.kType w.kvs = some (.name ObjStm.nObjStm) := hdata.type
    have hv' : Obj.stream xs.kvs ⟨c + xs.kwOfs + 6 + xs.e1.length, xs.data.length, xs.data⟩ =
        .stream w.kvs w.sc := hv
    have hkv : xs.kvs = w.kvs := by
      injection hv' with ha _
    rw [← hkv] at h2
    have h3 : dictGet Xref.kType xs.kvs = some (.name ObjStm.nObjStm) := h2
    rw [h1] at h3
    injection h3 with h3
    injection h3 with h3
    revert h3
    decide
  cases m with
  | plain m =>
    cases m with
    | classic r D => cases hk
    | stream r =>
      have hok' : StmSecOK2 r := hok
      exact key r.xs hok'.dict.type hv
  | hybrid r D =>
    have hok' : HybSecOK2 r D := hok
    exact key r.xs hok'.dict.type hv

/-! ## the file -/

namespace HybMixFile

/-- well-formedness of a history with hybrid sections, the object streams `ws`, and stream objects whose /Length may be
    a forward reference (`dep` marks them: holder and length) -/
structure WFall (f : HybMixFile) (root : ObjId) (ws : List WCont) (dep : Piece → Option (ObjId × Int)) : Prop where
  noMagic : ∀ k, k < f.garbage.length → kwPdf.isPrefixOf (f.bytes.drop k) = false
  /-- every revision's SECTION is lexically well formed (`ClassicSecOK` / `StmSecOK2` / `HybSecOK2`) -/
  revsOk : ∀ m ∈ f.revs, HRevSecOK m
  /-- every object other than the cross-reference stream objects reads by its kind -/
  reads : ∀ m ∈ f.revs, ∀ q ∈ m.others, PieceOK dep q.p
  xrefStm : ∀ q ∈ f.segs, q.1.XRefStmAt q.2
  prevs : HPrevOK none f.segs
  newest : ∃ q, f.segs.getLast? = some q ∧ q.1.root = some (.ref root.1 root.2) ∧ digitsVal f.ds 0 = hsecOfs q
  stableGen : StableGen f.visTables
  size : f.garbage.length + f.view.length ≤ 2 ^ 63
  tableObjs : ∀ q ∈ f.segs, TableOf2 q.1.ents (hobjsOf q)
  notEdited : ∀ pre q post, f.segs = pre ++ q :: post → ∀ k, q.1.xsKey = some k →
    ∀ q' ∈ post, ∀ e' ∈ q'.1.ents, e'.obj ≠ k.1
  /-- the holder of a dependent stream that is loaded (no newer section mentions the stream's number) is loaded too:
      written by SOME revision `qh` as a file-level object that reads outright and has the integer value, and no section
      newer than `qh` mentions the holder's number -/
  holders : ∀ pre q post, f.segs = pre ++ q :: post → ∀ p ∈ hobjsOf q, ∀ hk len, dep p.1 = some (hk, len) →
    q.1.xsKey ≠ some (p.1.num, p.1.gen) →
    (∀ q' ∈ post, ∀ e' ∈ q'.1.vis, e'.obj ≠ p.1.num) →
    ∃ pre' qh post', f.segs = pre' ++ qh :: post' ∧ ∃ ph ∈ hobjsOf qh, (ph.1.num, ph.1.gen) = hk ∧
      dep ph.1 = none ∧ (ph.1.val ph.2).val = .int len ∧ ∀ q' ∈ post', ∀ e' ∈ q'.1.vis, e'.obj ≠ hk.1
  rows : ∀ q ∈ f.segs, ∀ e ∈ q.1.vis, ∀ c i, e.st = .inStream c i →
    ∃ w ∈ ws, w.num = c ∧ ∃ m, w.mems[i]? = some m ∧ m.num = e.obj
  placed : ∀ w ∈ ws, ∃ q ∈ f.segs, (∃ p ∈ hobjsOf q, ContAt w p) ∧
    ∀ m ∈ w.mems, ∃ e ∈ q.1.vis, e.obj = m.num ∧ ∃ i, e.st = .inStream w.num i
  contsNodup : (ws.map WCont.num).Nodup
  memsNodup : (ws.flatMap fun w => w.mems.map (·.num)).Nodup
  untouched : memberTouchedLater f.secVis = false
  wsx : WsRun f.wsx
  wsxNe : f.wsx ≠ []
  wsxNoS : (115 : UInt8) ∉ f.wsx
  dsNe : f.ds ≠ []
  dsDig : ∀ y ∈ f.ds, isDigit y = true
  ofsFits : digitsVal f.ds 0 ≤ i64Max
  e : ∀ y ∈ f.e, isWsEol y = true
  trail : ∀ k, 0 < k → kwEOF.isPrefixOf ((kwEOF ++ f.trail).drop k) = false

variable (f : HybMixFile) (root : ObjId) (ws : List WCont) (dep : Piece → Option (ObjId × Int))

theorem reads_all_all (h : f.WFall root ws dep) : ∀ q ∈ f.segs, MReads f.view (hsecOf q) := by
  intro q hq
  obtain ⟨hle, r, hd⟩ := f.cursors q hq
  exact hsec_reads_sec f.view q (h.revsOk q.1 (f.mem_segs_revs q hq)) (h.xrefStm q hq) hle r hd

/-- the own entry of a cross-reference stream object (it is in use, hence visible) -/
theorem own_entry_all (h : f.WFall root ws dep) (q : HRev × Nat)
    (hq : q ∈ f.segs) (k : ObjId) (hk : q.1.xsKey = some k) :
    ∃ e ∈ q.1.vis, e.obj = k.1 ∧ e.gen = k.2 ∧ e.st = .inUse (hxsOfs q) ∧
      ∃ p ∈ hobjsOf q, p.2 = hxsOfs q ∧ p.1.val p.2 = q.1.xsVal (hxsOfs q) := by
  obtain ⟨m, pos⟩ := q
  cases m with
  | plain m =>
    cases m with
    | classic r D => cases hk
    | stream r =>
      simp only [HRev.xsKey, MRev.xsKey, Option.some.injEq] at hk
      subst hk
      have hmem : (r.xs.piece, pos + (bodyBytes r.body1).length) ∈ hobjsOf (HRev.plain (MRev.stream r), pos) :=
        xs_mem_objs r pos
      obtain ⟨e, he, ho, hg, hst⟩ := (h.tableObjs _ hq).ent_of_obj _ hmem
      exact ⟨e, HRev.mem_vis_of_inUse _ e he _ hst, ho, hg, hst, _, hmem, rfl, rfl⟩
  | hybrid hs D =>
    simp only [HRev.xsKey, Option.some.injEq] at hk
    subst hk
    have hmem := hxs_mem_objs hs D pos
    obtain ⟨e, he, ho, hg, hst⟩ := (h.tableObjs _ hq).ent_of_obj _ hmem
    exact ⟨e, HRev.mem_vis_of_inUse _ e he _ hst, ho, hg, hst, _, hmem, rfl, rfl⟩

theorem keysApart_all (h : f.WFall root ws dep) : KeysApart f.msecs := by
  unfold KeysApart msecs
  rw [List.pairwise_reverse, List.pairwise_map]
  apply pairwise_of_decomp _ f.segs []
  intro pre q post hseg q' hq' k hk' hk
  have hseg' : f.segs = pre ++ q :: post := by simpa using hseg
  have hq'm : q' ∈ f.segs := by rw [hseg']; simp [hq']
  have hk1 : q.1.xsKey = some k := hk
  have hk2 : q'.1.xsKey = some k := hk'
  obtain ⟨e, he, ho, _, _, _⟩ := f.own_entry_all root ws dep h q' hq'm k hk2
  exact h.notEdited pre q post hseg' k hk1 q' hq' e (q'.1.vis_sub e he) ho

/-- **`get_xref_info` on the most general history** - the /Prev walk does not look at the other objects -/
theorem xrefinfo_hybmix_all (h : f.WFall root ws dep) :
    getXrefInfo ⟨Ctx.new 50, false⟩ f.view (digitsVal f.ds 0) =
      (.ok (dedupKey f.tables [], .ref root.1 root.2), ⟨⟨f.defs0, 0, 50, false⟩, false⟩) := by
  obtain ⟨q, hlast, hroot, hsx⟩ := h.newest
  cases hrev : f.msecs with
  | nil =>
    have : f.segs = [] := by
      have := congrArg List.length hrev
      simp only [msecs, List.length_reverse, List.length_map, List.length_nil] at this
      exact List.eq_nil_of_length_eq_zero this
    rw [this] at hlast
    cases hlast
  | cons x older =>
    have hx : x = hsecOf q := by
      have := List.head?_reverse (l := f.segs.map hsecOf)
      rw [List.getLast?_map, hlast] at this
      have h2 : (f.segs.map hsecOf).reverse = x :: older := hrev
      rw [h2] at this
      simpa using this
    have hmem : ∀ y ∈ x :: older, ∃ q' ∈ f.segs, y = hsecOf q' := by
      intro y hy
      rw [← hrev] at hy
      obtain ⟨q', hq', rfl⟩ := List.mem_map.mp (List.mem_reverse.mp hy)
      exact ⟨q', hq', rfl⟩
    have hall : ∀ y ∈ x :: older, MReads f.view y := by
      intro y hy
      obtain ⟨q', hq', rfl⟩ := hmem y hy
      exact f.reads_all_all root ws dep h q' hq'
    have hl : MLinked (x :: older) := by
      rw [← hrev]
      have := hlinked_reverse_aux f.segs none [] h.prevs trivial rfl
      simpa [msecs] using this
    have hnd : ((x :: older).map (·.c)).Nodup := by
      rw [← hrev]
      unfold msecs
      rw [List.map_reverse, List.map_map]
      show List.Pairwise (· ≠ ·) _
      rw [List.pairwise_reverse]
      have hs := placeH_sorted f.revs f.hdr.length
      exact hs.imp (fun h => (Nat.ne_of_lt h).symm)
    have hka : KeysApart (x :: older) := by rw [← hrev]; exact f.keysApart_all root ws dep h
    have hxr : x.root = some (.ref root.1 root.2) := by rw [hx]; exact hroot
    have hres := xrefinfo_msecs f.view x older (.ref root.1 root.2) hall hl hnd hxr hka
    have hxc : x.c = digitsVal f.ds 0 := by rw [hx, hsx]; rfl
    rw [hxc, ← hrev, f.msecEnts_msecs] at hres
    exact hres

/-- the merge of all entries and the merge of the visible entries load the same objects -/
theorem merge_visible_all (h : f.WFall root ws dep) :
    infoOf (dedupKey f.tables []) = infoOf (dedupKey f.visTables []) := by
  rw [← f.tables_tagged, ← f.visTables_tagged]
  have hmem : ∀ p ∈ f.taggedAll, ∃ m ∈ f.revs, p ∈ m.tagged := by
    intro p hp
    obtain ⟨m, hm, hpm⟩ := List.mem_flatMap.mp hp
    exact ⟨m, List.mem_reverse.mp hm, hpm⟩
  have hvis : ∀ m ∈ f.revs, ∀ e ∈ m.vis, e ∈ f.visTables := by
    intro m hm e he
    exact List.mem_flatMap.mpr ⟨m, List.mem_reverse.mpr hm, he⟩
  apply infoOf_dedup_hidden f.taggedAll [] []
  · intro p hp h2
    obtain ⟨m, _, hpm⟩ := hmem p hp
    obtain ⟨hs, D, _, _, hh⟩ := m.tagged_hidden p hpm h2
    exact hiddenIn_free hh
  · intro p hp h2 v hv hv2 hkey
    obtain ⟨m, hm, hpm⟩ := hmem p hp
    obtain ⟨hs, D, rfl, hpt, hh⟩ := HRev.tagged_hidden _ p hpm h2
    have hok : HybSecOK2 hs D := h.revsOk _ hm
    obtain ⟨⟨e', he', ho⟩, hgen⟩ := noClash_spec hok.noClash hpt hh
    obtain ⟨m', hm', hvm⟩ := hmem v hv
    have hv1 : v.1 ∈ f.visTables := hvis m' hm' _ (m'.tagged_vis v hvm hv2)
    have he1 : e' ∈ f.visTables := hvis _ hm e' (by simp [HRev.vis, he'])
    have hk1 : p.1.obj = v.1.obj := congrArg Prod.fst hkey
    have hk2 : p.1.gen = v.1.gen := congrArg Prod.snd hkey
    have := h.stableGen e' he1 v.1 hv1 (by rw [ho, hk1])
    exact hgen e' he' ho (by rw [this, hk2])
  · intro v _ _
    exact Iff.rfl

/-- the newest visible entry of a number, read backwards -/
theorem find_visTables_inv (n : Nat) (e : Xref.Ent) (hf : f.visTables.find? (·.obj == n) = some e) :
    ∃ pre q post, f.segs = pre ++ q :: post ∧ e ∈ q.1.vis ∧ ∀ q' ∈ post, ∀ e' ∈ q'.1.vis, e'.obj ≠ n := by
  have key : ∀ (l : List (HRev × Nat)), (l.flatMap (·.1.vis)).find? (·.obj == n) = some e →
      ∃ a q b, l = a ++ q :: b ∧ e ∈ q.1.vis ∧ ∀ q' ∈ a, ∀ e' ∈ q'.1.vis, e'.obj ≠ n := by
    intro l
    induction l with
    | nil => intro h; simp at h
    | cons x t ih =>
      intro h
      rw [List.flatMap_cons, List.find?_append] at h
      cases hx : x.1.vis.find? (·.obj == n) with
      | some e0 =>
        rw [hx] at h
        have : e0 = e := by simpa using h
        subst this
        exact ⟨[], x, t, rfl, List.mem_of_find?_eq_some hx, by intro q' hq'; cases hq'⟩
      | none =>
        rw [hx] at h
        obtain ⟨a, q, b, hl, he, hno⟩ := ih (by simpa using h)
        refine ⟨x :: a, q, b, by rw [hl]; rfl, he, ?_⟩
        intro q' hq' e' he'
        rcases List.mem_cons.mp hq' with rfl | hq'
        · have := List.find?_eq_none.mp hx e' he'
          simpa using this
        · exact hno q' hq' e' he'
  rw [f.visTables_eq] at hf
  obtain ⟨a, q, b, hl, he, hno⟩ := key f.segs.reverse hf
  refine ⟨b.reverse, q, a.reverse, ?_, he, fun q' hq' => hno q' (List.mem_reverse.mp hq')⟩
  have := congrArg List.reverse hl
  simpa using this

/-- every object of the file, at its offset: where it lies; it is the cross-reference stream object of its revision or
    it reads by its kind -/
theorem objs_read_all (h : f.WFall root ws dep) :
    ∀ q ∈ f.segs, ∀ p ∈ hobjsOf q, p.2 < f.view.length ∧
      ((p.2 ≤ f.view.length ∧ ∃ post, f.view.drop p.2 = p.1.bytes ++ post) ∧
       (q.1.xsKey = some (p.1.num, p.1.gen) ∨ ReadsK dep p.1 f.view p.2)) := by
  intro q hq
  obtain ⟨hle, r, hd⟩ := f.cursors q hq
  have hm := f.mem_segs_revs q hq
  refine body_all (fun p s i => (i ≤ s.length ∧ ∃ post, s.drop i = p.bytes ++ post) ∧
    (q.1.xsKey = some (p.num, p.gen) ∨ ReadsK dep p s i)) q.1.body f.view q.2 _ hle hd ?_
  intro x hx
  rcases q.1.mem_body x hx with ho | ⟨hpos, hk⟩
  · have hp := h.reads q.1 hm x ho
    exact ⟨hp.at.1, fun s i post hi hdr => ⟨⟨hi, post, hdr⟩, Or.inr (hp.at.2 s i post hi hdr)⟩⟩
  · exact ⟨hpos, fun s i post hi hdr => ⟨⟨hi, post, hdr⟩, Or.inl hk⟩⟩

theorem pieces_pos_all (h : f.WFall root ws dep) : ∀ m ∈ f.revs, ∀ q ∈ m.body, 0 < q.p.bytes.length := by
  intro m hm x hx
  rcases m.mem_body x hx with ho | ⟨hpos, _⟩
  · exact (h.reads m hm x ho).at.1
  · exact hpos

end HybMixFile

/-- the composition up to the loading stage -/
theorem load_hybmix_core_all (f : HybMixFile) (root : ObjId) (ws : List WCont) (dep : Piece → Option (ObjId × Int))
    (h : f.WFall root ws dep) (P : ObjStm.Defs → Prop)
    (hstage : ∃ defs, parseObjects f.garbage.length ⟨⟨f.defs0, 0, 50, false⟩, false⟩ (infoOf (dedupKey f.tables [])) f.view
      = .ok defs ∧ P defs) :
    ∃ L : Loaded, parseData f.bytes = .ok L ∧ L.root = root ∧ P L.defs := by
  have hpdf : kwPdf.isPrefixOf f.hdr = true := by
    rw [List.isPrefixOf_iff_prefix]; exact List.prefix_append _ _
  have hscan := parseData_scan f.garbage f.hdr f.mid f.wsx f.ds f.e f.trail h.noMagic hpdf h.wsx h.wsxNe h.wsxNoS
    h.dsNe h.dsDig h.ofsFits h.e h.trail
  have hx := f.xrefinfo_hybmix_all root ws dep h
  have hlt : digitsVal f.ds 0 < f.view.length := by
    obtain ⟨q, hlast, _, hsx⟩ := h.newest
    have hq : q ∈ f.segs := List.mem_of_getLast? hlast
    have := (f.reads_all_all root ws dep h q hq).1
    rw [hsx]
    exact this
  obtain ⟨defs, hpo, hP⟩ := hstage
  refine ⟨⟨defs, root⟩, ?_, rfl, hP⟩
  show parseData (f.garbage ++ f.view) = _
  unfold HybMixFile.view
  rw [hscan]
  unfold loadRest
  have hlt' : digitsVal f.ds 0 < (f.hdr ++ (f.mid ++ (kwStartxref ++ (f.wsx ++ (f.ds ++ (f.e ++ (kwEOF ++ f.trail))))))).length := hlt
  have hx' : getXrefInfo ⟨Ctx.new 50, false⟩ (f.hdr ++ (f.mid ++ (kwStartxref ++ (f.wsx ++ (f.ds ++ (f.e ++ (kwEOF ++ f.trail))))))) (digitsVal f.ds 0) = _ := hx
  have hpo' : parseObjects f.garbage.length ⟨⟨f.defs0, 0, 50, false⟩, false⟩ (infoOf (dedupKey f.tables []))
    (f.hdr ++ (f.mid ++ (kwStartxref ++ (f.wsx ++ (f.ds ++ (f.e ++ (kwEOF ++ f.trail))))))) = _ := hpo
  simp only [hlt', decide_true, Bool.not_true, Bool.false_eq_true, if_false, hx', hpo']

end Parsley.LoaderE2E
