/-
  C04 end-to-end, the MOST GENERAL history theorem (part 3: the theorem).

  `load_hybmix_all`       any number of revisions, classic / cross-reference stream / hybrid in any mix, OBJECT STREAMS,
                          stream objects (the object streams included) with a direct or a FORWARD-REFERENCED /Length:
                          conclusion exactly that of `load_hybmix_objstm` - per object number the NEWEST section that
                          mentions it decides (`Decides` for in-use / free entries, `DecidesStm` for rows of type 2),
                          every member of every object stream is bound, unmentioned numbers are undefined.
  `load_hybmix_all_objs`  read from the objects written.
  `HybMixFile.WFo.toAll`  `WFall` generalises `WFo`.
  Proof: `load_hybmix_core_all` (walk + composition), `merge_visible_all`, `stage_merged_two_pass_objstm` on
  `f.visTables` with `lookupVal` / `lookupDep`; the object written at an offset is pinned down by `hobjs_ofs_inj`.
-/
import Parsley.Lemmas.LoaderE2EHistAll2
namespace Parsley.LoaderE2E
open Parsley Parsley.Prim Parsley.Obj Parsley.Indirect Parsley.Loader Parsley.C02 Parsley.Spelling
open Parsley.XrefSpec Parsley.C13 Parsley.LoaderChain Parsley.LoaderStage Parsley.LoaderObjStm
open Parsley.C03 (Item ReadsAt)
open Parsley.C04 (StableGen)
open Parsley.LoaderTwoPass (Entry ReadsDep)

/-- **`load_hybmix_all` (C04, end to end, the most general history)** -/
theorem load_hybmix_all (f : HybMixFile) (root : ObjId) (ws : List WCont) (dep : Piece → Option (ObjId × Int))
    (h : f.WFall root ws dep) :
    ∃ L : Loaded, parseData f.bytes = .ok L ∧ L.root = root ∧
      (∀ pre q post, f.segs = pre ++ q :: post → ∀ e ∈ q.1.vis,
        (∀ q' ∈ post, ∀ e' ∈ q'.1.vis, e'.obj ≠ e.obj) → Decides (hobjsOf q) L.defs e ∧ DecidesStm ws L.defs e) ∧
      (∀ w ∈ ws, ∀ m ∈ w.mems, ObjStm.defsGet (m.num, 0) L.defs = some m.v) ∧
      (∀ n, (∀ q ∈ f.segs, ∀ e ∈ q.1.vis, e.obj ≠ n) → ∀ g, ObjStm.defsGet (n, g) L.defs = none) := by
  refine load_hybmix_core_all f root ws dep h (fun defs =>
    (∀ pre q post, f.segs = pre ++ q :: post → ∀ e ∈ q.1.vis,
      (∀ q' ∈ post, ∀ e' ∈ q'.1.vis, e'.obj ≠ e.obj) → Decides (hobjsOf q) defs e ∧ DecidesStm ws defs e) ∧
    (∀ w ∈ ws, ∀ m ∈ w.mems, ObjStm.defsGet (m.num, 0) defs = some m.v) ∧
    (∀ n, (∀ q ∈ f.segs, ∀ e ∈ q.1.vis, e.obj ≠ n) → ∀ g, ObjStm.defsGet (n, g) defs = none)) ?_
  have hok : ∀ q ∈ f.segs, HRevSecOK q.1 := fun q hq => h.revsOk q.1 (f.mem_segs_revs q hq)
  -- the context left by the walk
  obtain ⟨hs0, hbound, hfree⟩ := regAll_spec f.msecs [] List.Pairwise.nil (f.keysApart_all root ws dep h)
  have hmsec : ∀ y ∈ f.msecs, ∃ q ∈ f.segs, y = hsecOf q := by
    intro y hy
    obtain ⟨q, hq, rfl⟩ := List.mem_map.mp (List.mem_reverse.mp hy)
    exact ⟨q, hq, rfl⟩
  have hxsbound : ∀ q ∈ f.segs, ∀ k, q.1.xsKey = some k → defsGet k f.defs0 = some (q.1.xsVal (hxsOfs q)) := by
    intro q hq k hk
    exact hbound (hsecOf q) (List.mem_reverse.mpr (List.mem_map_of_mem hq)) k hk
  have hd0 : ∀ k v0, defsGet k f.defs0 = some v0 → ∃ q ∈ f.segs, q.1.xsKey = some k ∧ v0 = q.1.xsVal (hxsOfs q) := by
    intro k v0 hk
    by_cases hex : ∃ y ∈ f.msecs, y.key = some k
    · obtain ⟨y, hy, hyk⟩ := hex
      obtain ⟨q, hq, rfl⟩ := hmsec y hy
      have := hbound _ hy k hyk
      have h2 : defsGet k f.defs0 = some (hsecOf q).val := this
      rw [hk] at h2
      exact ⟨q, hq, hyk, Option.some.inj h2⟩
    · have := hfree k (fun y hy hyk => hex ⟨y, hy, hyk⟩)
      have h2 : defsGet k f.defs0 = defsGet k [] := this
      rw [hk] at h2
      cases h2
  -- the newest entry of the number of a cross-reference stream object is its own entry
  have hown : ∀ q ∈ f.segs, ∀ k, q.1.xsKey = some k → ∃ e0, f.visTables.find? (·.obj == k.1) = some e0 ∧ e0.gen = k.2 ∧
      e0.st = .inUse (hxsOfs q) ∧ ∃ p ∈ hobjsOf q, p.2 = hxsOfs q ∧ p.1.val p.2 = q.1.xsVal (hxsOfs q) := by
    intro q hq k hk
    obtain ⟨e0, he0, ho, hg, hst, hp⟩ := f.own_entry_all root ws dep h q hq k hk
    obtain ⟨pre, post, hseg⟩ := List.append_of_mem hq
    have hfind := f.find_visTables pre q post hseg (hok q hq).nums e0 he0 (by
      rw [ho]
      intro q' hq' e' he'
      exact h.notEdited pre q post hseg k hk q' hq' e' (q'.1.vis_sub e' he'))
    rw [ho] at hfind
    exact ⟨e0, hfind, hg, hst, hp⟩
  have hd0use : ∀ n g v0, defsGet (n, g) f.defs0 = some v0 → ∃ e0 o, f.visTables.find? (·.obj == n) = some e0 ∧
      e0.st = .inUse o := by
    intro n g v0 hb
    obtain ⟨q0, hq0, hk0, _⟩ := hd0 _ _ hb
    obtain ⟨e0, hf0, _, hst0, _⟩ := hown q0 hq0 _ hk0
    exact ⟨e0, _, hf0, hst0⟩
  let all : List (Piece × Nat) := f.segs.flatMap hobjsOf
  have hallmem : ∀ q ∈ f.segs, ∀ p ∈ hobjsOf q, p ∈ all := fun q hq p hp => List.mem_flatMap.mpr ⟨q, hq, hp⟩
  -- an object of the file is determined by its offset
  have hinj : ∀ a ∈ all, ∀ b ∈ all, a.2 = b.2 → a = b :=
    hobjs_ofs_inj f.revs f.hdr.length (f.pieces_pos_all root ws dep h)
  have hlk : ∀ p ∈ all, lookupVal all p.1.num p.1.gen p.2 = p.1.val p.2 ∧
      lookupDep all dep p.1.num p.1.gen p.2 = dep p.1 := lookup_both all dep hinj
  have hrd := f.objs_read_all root ws dep h
  have hobj : ∀ e ∈ f.visTables, ∀ o, e.st = .inUse o → ∃ p ∈ all, p.1.num = e.obj ∧ p.1.gen = e.gen ∧ p.2 = o := by
    intro e he o hst
    obtain ⟨q, hq, heq⟩ := (f.mem_visTables e).mp he
    obtain ⟨p, hp, hp'⟩ := (h.tableObjs q hq).obj_of_ent e (q.1.vis_sub e heq) o hst
    exact ⟨p, hallmem q hq p hp, hp'⟩
  have hval : ∀ e ∈ f.visTables, ∀ o, e.st = .inUse o → ∀ p ∈ all, p.2 = o →
      lookupVal all e.obj e.gen o = p.1.val p.2 ∧ lookupDep all dep e.obj e.gen o = dep p.1 := by
    intro e he o hst p hp h3
    obtain ⟨p', hp', h1, h2, h3'⟩ := hobj e he o hst
    have : p' = p := hinj p' hp' p hp (by rw [h3, h3'])
    subst this
    rw [← h1, ← h2, ← h3]
    exact hlk p' hp
  -- the newest entry of a member's number is its row of type 2
  have hmemE : ∀ w ∈ ws, ∀ m ∈ w.mems, ∃ e i, f.visTables.find? (·.obj == m.num) = some e ∧ e.st = .inStream w.num i := by
    intro w hw m hm
    obtain ⟨q, hq, _, hall⟩ := h.placed w hw
    obtain ⟨e, he, ho, i, hst⟩ := hall m hm
    obtain ⟨pre, post, hseg⟩ := List.append_of_mem hq
    have hfind := f.find_visTables pre q post hseg (hok q hq).nums e he
      (fun q' hq' e' he' => (f.untouched_segs h.untouched pre q post hseg e he _ _ hst q' hq' e' he').1)
    rw [ho] at hfind
    exact ⟨e, i, hfind, hst⟩
  -- the newest entry of an object stream's number is the in-use entry of the stream object
  have hcontE : ∀ w ∈ ws, w.OK f.view ∧ ∃ e o, f.visTables.find? (·.obj == w.num) = some e ∧ e.gen = 0 ∧ e.st = .inUse o ∧
      (lookupVal all w.num 0 o).val = .stream w.kvs w.sc := by
    intro w hw
    obtain ⟨q, hq, ⟨p, hp, o, hpo, hnum, hgen, hkvs, hsc, hdata⟩, hall⟩ := h.placed w hw
    obtain ⟨_, ⟨hle, post0, hdrop⟩, _⟩ := hrd q hq p hp
    refine ⟨?_, ?_⟩
    · rw [hpo] at hdrop
      exact WCont.ok_of_wstm f.view p.2 o post0 w hle hdrop hsc hdata
    · obtain ⟨e, he, heo, heg, hest⟩ := (h.tableObjs q hq).ent_of_obj p hp
      have hev : e ∈ q.1.vis := q.1.mem_vis_of_inUse e he _ hest
      have hpn : p.1.num = w.num := by rw [hpo]; exact hnum
      have hpg : p.1.gen = 0 := by rw [hpo]; exact hgen
      cases hms : w.mems with
      | nil => exact absurd hms hdata.ne
      | cons m t =>
        obtain ⟨em, hem, _, i, hstm⟩ := hall m (by rw [hms]; exact List.mem_cons_self)
        obtain ⟨pre, post, hseg⟩ := List.append_of_mem hq
        have hfind := f.find_visTables pre q post hseg (hok q hq).nums e hev (by
          intro q' hq' e' he'
          rw [heo, hpn]
          exact (f.untouched_segs h.untouched pre q post hseg em hem _ _ hstm q' hq' e' he').2)
        rw [heo, hpn] at hfind
        have het : e ∈ f.visTables := (f.mem_visTables e).mpr ⟨q, hq, hev⟩
        have hlv := (hval e het p.2 hest p (hallmem q hq p hp) rfl).1
        rw [heo, heg, hpn, hpg] at hlv
        refine ⟨e, p.2, hfind, by rw [heg, hpg], hest, ?_⟩
        rw [hlv, hpo]
        exact WCont.wstm_val p.2 o w hkvs hsc
  obtain ⟨defs, hpo, hF, hU, hM, hS, hN, hK⟩ := stage_merged_two_pass_objstm f.garbage.length f.view f.defs0 hs0
    f.visTables (lookupVal all) (lookupDep all dep) ws h.size h.stableGen
    (by
      intro e he o hst hn
      obtain ⟨q, hq, heq⟩ := (f.mem_visTables e).mp he
      obtain ⟨p, hp, h1, h2, h3⟩ := (h.tableObjs q hq).obj_of_ent e (q.1.vis_sub e heq) o hst
      obtain ⟨hlt, _, hor⟩ := hrd q hq p hp
      obtain ⟨hv, hdp⟩ := hlk p (hallmem q hq p hp)
      rw [← h1, ← h2, ← h3, hv]
      refine ⟨hlt, ?_⟩
      rcases hor with hx | hr
      · have := hxsbound q hq _ hx
        rw [h1, h2, hn] at this
        cases this
      · unfold ReadsKd
        unfold ReadsK at hr
        simp only [hdp]
        cases hd : dep p.1 with
        | none => rw [hd] at hr; exact hr
        | some y => obtain ⟨hh, len⟩ := y; rw [hd] at hr; exact hr)
    (by
      intro e o hf hst hn hk len hkd
      obtain ⟨pre, q, post, hseg, heq, hno⟩ := f.find_visTables_inv e.obj e hf
      have hq : q ∈ f.segs := by rw [hseg]; simp
      obtain ⟨p, hp, h1, h2, h3⟩ := (h.tableObjs q hq).obj_of_ent e (q.1.vis_sub e heq) o hst
      obtain ⟨hv, hdp⟩ := hlk p (hallmem q hq p hp)
      rw [← h1, ← h2, ← h3, hdp] at hkd
      have hnx : q.1.xsKey ≠ some (p.1.num, p.1.gen) := by
        intro hx
        have := hxsbound q hq _ hx
        rw [h1, h2, hn] at this
        cases this
      obtain ⟨pre', qh, post', hseg', ph, hph, hkey, hdn, hvalh, hno'⟩ :=
        h.holders pre q post hseg p hp hk len hkd hnx (by rw [h1]; exact hno)
      have hqh : qh ∈ f.segs := by rw [hseg']; simp
      obtain ⟨eh, heh, heo, heg, hest⟩ := (h.tableObjs qh hqh).ent_of_obj ph hph
      have hehv : eh ∈ qh.1.vis := qh.1.mem_vis_of_inUse eh heh _ hest
      have hk1 : ph.1.num = hk.1 := congrArg Prod.fst hkey
      have hk2 : ph.1.gen = hk.2 := congrArg Prod.snd hkey
      have hfind := f.find_visTables pre' qh post' hseg' (hok qh hqh).nums eh hehv (by rw [heo, hk1]; exact hno')
      rw [heo, hk1] at hfind
      obtain ⟨hvh, hdph⟩ := hlk ph (hallmem qh hqh ph hph)
      rw [hk1, hk2] at hvh hdph
      refine ⟨eh, ph.2, hfind, by rw [heg, hk2], hest, by rw [hdph]; exact hdn, by rw [hvh]; exact hvalh, ?_⟩
      intro v0 hb
      obtain ⟨q0, hq0, hk0, hv0⟩ := hd0 _ _ hb
      obtain ⟨e0, hf0, _, hst0, p0, hp0, hp0o, hp0v⟩ := hown q0 hq0 _ hk0
      have hee : e0 = eh := by
        rw [hfind] at hf0
        exact (Option.some.inj hf0).symm
      have ho : ph.2 = p0.2 := by
        rw [hee, hest] at hst0
        injection hst0 with hst0
        rw [hp0o, hst0]
      have : ph = p0 := hinj ph (hallmem qh hqh ph hph) p0 (hallmem q0 hq0 p0 hp0) ho
      rw [hv0, ← hp0v, ← this]
      exact hvalh)
    (by
      intro n e c i hf hst
      have het : e ∈ f.visTables := List.mem_of_find?_eq_some hf
      obtain ⟨q, hq, heq⟩ := (f.mem_visTables e).mp het
      obtain ⟨w, hw, hwc, _⟩ := h.rows q hq e heq c i hst
      exact ⟨w, hw, hwc⟩)
    (by
      intro w hw
      obtain ⟨hwok, hrest⟩ := hcontE w hw
      refine ⟨hwok, ?_, hrest⟩
      cases hb : defsGet (w.num, 0) f.defs0 with
      | none => rfl
      | some v0 =>
        -- the stream object would be a cross-reference stream object, written at the same offset
        exfalso
        obtain ⟨q0, hq0, hk0, hv0⟩ := hd0 _ _ hb
        obtain ⟨e0, hf0, _, hst0, p0, hp0, hp0o, hp0v⟩ := hown q0 hq0 _ hk0
        obtain ⟨e, o, hf, heg, hst, hv⟩ := hrest
        have hf0' : f.visTables.find? (·.obj == w.num) = some e0 := hf0
        rw [hf] at hf0'
        have hee : e = e0 := Option.some.inj hf0'
        subst hee
        have ho : o = hxsOfs q0 := by
          rw [hst] at hst0
          injection hst0
        have het : e ∈ f.visTables := List.mem_of_find?_eq_some hf
        have hlv := (hval e het o hst p0 (hallmem q0 hq0 p0 hp0) (by rw [hp0o, ho])).1
        rw [find_obj hf, heg] at hlv
        rw [hlv, hp0v] at hv
        exact objstm_not_xref_sec q0.1 (hok q0 hq0) _ hk0 _ w _ hwok.data hv)
    h.contsNodup h.memsNodup
    (by
      intro w hw m hm
      obtain ⟨e, i, hf, hst⟩ := hmemE w hw m hm
      refine ⟨?_, e, i, hf, hst⟩
      cases hb : defsGet (m.num, 0) f.defs0 with
      | none => rfl
      | some v0 =>
        obtain ⟨e0, o, hf0, hst0⟩ := hd0use _ _ _ hb
        rw [hf] at hf0
        cases hf0
        rw [hst] at hst0
        cases hst0)
  rw [← f.merge_visible_all root ws dep h] at hpo
  refine ⟨defs, hpo, ?_, hM, ?_⟩
  · intro pre q post hseg e he hno
    have hq : q ∈ f.segs := by rw [hseg]; simp
    have hfind := f.find_visTables pre q post hseg (hok q hq).nums e he hno
    have het : e ∈ f.visTables := (f.mem_visTables e).mpr ⟨q, hq, he⟩
    have hbnd : ∀ g v0, defsGet (e.obj, g) f.defs0 = some v0 → g = e.gen ∧ ∃ q0 ∈ f.segs, e.st = .inUse (hxsOfs q0) ∧
        ∃ p0 ∈ hobjsOf q0, p0.2 = hxsOfs q0 ∧ p0.1.val p0.2 = v0 := by
      intro g v0 hg
      obtain ⟨q0, hq0, hk0, hv0⟩ := hd0 _ _ hg
      obtain ⟨e0, hf0, hg0, hst0, p0, hp0, hp0o, hp0v⟩ := hown q0 hq0 _ hk0
      have hee : e0 = e := by
        have : f.visTables.find? (·.obj == e.obj) = some e0 := hf0
        rw [hfind] at this
        exact (Option.some.inj this).symm
      subst hee
      exact ⟨hg0.symm, q0, hq0, hst0, p0, hp0, hp0o, by rw [hp0v, hv0]⟩
    refine ⟨⟨fun o hst => ⟨(h.tableObjs q hq).obj_of_ent e (q.1.vis_sub e he) o hst, ?_, ?_⟩, ?_⟩, ?_⟩
    · intro p hp _ _ h3
      have hpall : p ∈ all := hallmem q hq p hp
      cases hb : defsGet (e.obj, e.gen) f.defs0 with
      | none =>
        rw [((hU e.obj e o hfind hst).1 hb), (hval e het o hst p hpall h3).1]
      | some v0 =>
        obtain ⟨_, q0, hq0, hst0, p0, hp0, hp0o, hp0v⟩ := hbnd e.gen v0 hb
        rw [hK _ v0 hb, ← hp0v]
        have ho : o = hxsOfs q0 := by
          rw [hst] at hst0
          injection hst0
        have hp0all : p0 ∈ all := hallmem q0 hq0 p0 hp0
        have : p0 = p := hinj p0 hp0all p hpall (by rw [hp0o, h3, ho])
        rw [this]
    · intro g hne
      cases hb : defsGet (e.obj, g) f.defs0 with
      | none => exact (hU e.obj e o hfind hst).2 g hne hb
      | some v0 => exact absurd (hbnd g v0 hb).1 hne
    · intro nx hfree g
      cases hb : defsGet (e.obj, g) f.defs0 with
      | none => exact hF e.obj e nx hfind hfree g hb
      | some v0 =>
        obtain ⟨_, q0, _, hst0, _⟩ := hbnd g v0 hb
        rw [hfree] at hst0
        cases hst0
    · intro c i hst
      obtain ⟨w, hw, hwc, m, hmi, hmn⟩ := h.rows q hq e he c i hst
      have hmw : m ∈ w.mems := List.mem_of_getElem? hmi
      refine ⟨w, hw, hwc, m, hmi, hmn, ?_, ?_⟩
      · rw [← hmn]; exact hM w hw m hmw
      · intro g hg
        apply hS e.obj e c i hfind hst g
        · intro w' _ m' _ hk
          exact hg (congrArg Prod.snd hk).symm
        · cases hb : defsGet (e.obj, g) f.defs0 with
          | none => rfl
          | some v0 =>
            obtain ⟨_, _, _, hst0, _⟩ := hbnd g v0 hb
            rw [hst] at hst0
            cases hst0
  · intro n hn g
    have hnone : f.visTables.find? (·.obj == n) = none := by
      apply find_none_of
      intro e he
      obtain ⟨q, hq, heq⟩ := (f.mem_visTables e).mp he
      exact hn q hq e heq
    rw [hN n hnone g]
    cases hb : defsGet (n, g) f.defs0 with
    | none => rfl
    | some v0 =>
      obtain ⟨e0, _, hf0, _⟩ := hd0use _ _ _ hb
      rw [hnone] at hf0
      cases hf0

/-- the same read from the objects: an object whose number no NEWER section mentions is defined with its value (every
    object stream, every cross-reference stream object, every hidden file-level object of a hybrid section, every stream
    with a forward /Length), and every member of every object stream is defined with the value written in the stream -/
theorem load_hybmix_all_objs (f : HybMixFile) (root : ObjId) (ws : List WCont) (dep : Piece → Option (ObjId × Int))
    (h : f.WFall root ws dep) :
    ∃ L : Loaded, parseData f.bytes = .ok L ∧ L.root = root ∧
      (∀ pre q post, f.segs = pre ++ q :: post → ∀ p ∈ hobjsOf q,
        (∀ q' ∈ post, ∀ e' ∈ q'.1.ents, e'.obj ≠ p.1.num) →
        ObjStm.defsGet (p.1.num, p.1.gen) L.defs = some (p.1.val p.2).val) ∧
      (∀ w ∈ ws, ∀ m ∈ w.mems, ObjStm.defsGet (m.num, 0) L.defs = some m.v) := by
  obtain ⟨L, hL, hroot, hdec, hmem, _⟩ := load_hybmix_all f root ws dep h
  refine ⟨L, hL, hroot, ?_, hmem⟩
  intro pre q post hseg p hp hno
  have hq : q ∈ f.segs := by rw [hseg]; simp
  obtain ⟨e, he, ho, hg, hst⟩ := (h.tableObjs q hq).ent_of_obj p hp
  have hev : e ∈ q.1.vis := q.1.mem_vis_of_inUse e he _ hst
  have := (((hdec pre q post hseg e hev (by
    rw [ho]
    intro q' hq' e' he'
    exact hno q' hq' e' (q'.1.vis_sub e' he'))).1).1 p.2 hst).2.1 p hp ho.symm hg.symm rfl
  rw [ho, hg] at this
  exact this

/-- `WFall` generalises `WFo`: a history all of whose pieces read outright -/
theorem HybMixFile.WFo.toAll {f : HybMixFile} {root : ObjId} {ws : List WCont} (h : f.WFo root ws) :
    f.WFall root ws (fun _ => none) where
  noMagic := h.noMagic
  revsOk := fun m hm => (h.revsOk m hm).secOK
  reads := by
    intro m hm q hq
    have hr : ∀ q ∈ m.body, q.p.Reads := (h.revsOk m hm).reads
    exact hr q (m.others_sub q hq)
  xrefStm := h.xrefStm
  prevs := h.prevs
  newest := h.newest
  stableGen := h.stableGen
  size := h.size
  tableObjs := h.tableObjs
  notEdited := h.notEdited
  holders := by intro _ _ _ _ _ _ _ _ hd; cases hd
  rows := h.rows
  placed := h.placed
  contsNodup := h.contsNodup
  memsNodup := h.memsNodup
  untouched := h.untouched
  wsx := h.wsx
  wsxNe := h.wsxNe
  wsxNoS := h.wsxNoS
  dsNe := h.dsNe
  dsDig := h.dsDig
  ofsFits := h.ofsFits
  e := h.e
  trail := h.trail

end Parsley.LoaderE2E
