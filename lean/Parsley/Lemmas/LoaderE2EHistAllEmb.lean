/-
  C04: `MixFile.WFfwd` (Lemmas/LoaderE2EHistFwd2.lean: classic / stream revisions, forward-referenced /Length, no object
  streams) is a special case of `HybMixFile.WFall` (Lemmas/LoaderE2EHistAll2.lean).

    MixFile.toHyb          the embedding: every revision `HRev.plain`, same bytes (`toHyb_bytes`), same layout
                           (`toHyb_segs`: the placed revisions are the images of the placed revisions)
    MixFile.WFfwd.toAll    `f.WFfwd root dep` and "the file is smaller than 2^63 bytes" give
                           `f.toHyb.WFall root [] dep`
-/
import Parsley.Lemmas.LoaderE2EHistAll3
namespace Parsley.LoaderE2E
open Parsley Parsley.Prim Parsley.Obj Parsley.Indirect Parsley.Loader Parsley.C02 Parsley.Spelling
open Parsley.XrefSpec Parsley.C13 Parsley.LoaderChain Parsley.LoaderStage Parsley.LoaderObjStm
open Parsley.C04 (StableGen)

/-- a history of classic / stream revisions as a history of revisions of any kind -/
def MixFile.toHyb (f : MixFile) : HybMixFile :=
  ⟨f.garbage, f.hdrRest, f.revs.map HRev.plain, f.wsx, f.ds, f.e, f.trail⟩

/-- a placed revision, embedded -/
def liftSeg (q : MRev × Nat) : HRev × Nat := (.plain q.1, q.2)

theorem hrevsBytes_plain : ∀ rs : List MRev, hrevsBytes (rs.map HRev.plain) = mrevsBytes rs
  | [] => rfl
  | m :: t => by
    simp only [List.map_cons, hrevsBytes, mrevsBytes, hrevsBytes_plain t]
    rfl

theorem placeH_plain : ∀ (rs : List MRev) (pos : Nat), placeH (rs.map HRev.plain) pos = (placeM rs pos).map liftSeg
  | [], _ => rfl
  | m :: t, pos => by
    simp only [List.map_cons, placeH, placeM]
    have : (HRev.plain m).bytes.length = m.bytes.length := rfl
    rw [this, placeH_plain t]
    rfl

namespace MixFile

theorem toHyb_view (f : MixFile) : f.toHyb.view = f.view := by
  unfold HybMixFile.view MixFile.view HybMixFile.mid MixFile.mid
  show f.toHyb.hdr ++ (hrevsBytes (f.revs.map HRev.plain) ++ _) = _
  rw [hrevsBytes_plain]
  rfl

theorem toHyb_bytes (f : MixFile) : f.toHyb.bytes = f.bytes := by
  unfold HybMixFile.bytes MixFile.bytes
  rw [f.toHyb_view]
  rfl

theorem toHyb_segs (f : MixFile) : f.toHyb.segs = f.segs.map liftSeg :=
  placeH_plain f.revs f.hdr.length

theorem toHyb_visTables (f : MixFile) : f.toHyb.visTables = f.tables := by
  unfold HybMixFile.visTables MixFile.tables
  show (f.revs.map HRev.plain).reverse.flatMap (·.vis) = _
  rw [← List.map_reverse, List.flatMap_map]
  rfl

/-- a decomposition of the embedded layout is the image of a decomposition of the layout -/
theorem toHyb_split (f : MixFile) (pre : List (HRev × Nat)) (q : HRev × Nat) (post : List (HRev × Nat))
    (hseg : f.toHyb.segs = pre ++ q :: post) :
    ∃ pre0 q0 post0, f.segs = pre0 ++ q0 :: post0 ∧ pre = pre0.map liftSeg ∧ q = liftSeg q0 ∧
      post = post0.map liftSeg := by
  rw [f.toHyb_segs] at hseg
  obtain ⟨l1, l2, h1, h2, h3⟩ := List.map_eq_append_iff.mp hseg
  obtain ⟨q0, post0, h4, h5, h6⟩ := List.map_eq_cons_iff.mp h3
  exact ⟨l1, q0, post0, by rw [h1, h4], h2.symm, h5.symm, h6.symm⟩

theorem hprevOK_lift : ∀ (l : List (MRev × Nat)) (p : Option Nat), MPrevOK p l → HPrevOK p (l.map liftSeg)
  | [], _, _ => trivial
  | q :: t, p, h => by
    have h' := (MPrevOK_cons p q t).mp h
    exact (HPrevOK_cons p (liftSeg q) (t.map liftSeg)).mpr ⟨h'.1, hprevOK_lift t _ h'.2⟩

/-- **`MixFile.WFfwd` is a special case of `HybMixFile.WFall`** -/
theorem WFfwd.toAll {f : MixFile} {root : ObjId} {dep : Piece → Option (ObjId × Int)} (h : f.WFfwd root dep)
    (hsize : f.garbage.length + f.view.length ≤ 2 ^ 63) : f.toHyb.WFall root [] dep := by
  have hsegs := f.toHyb_segs
  have hmemS : ∀ q ∈ f.toHyb.segs, ∃ q0 ∈ f.segs, q = liftSeg q0 := by
    intro q hq
    rw [hsegs] at hq
    obtain ⟨q0, hq0, rfl⟩ := List.mem_map.mp hq
    exact ⟨q0, hq0, rfl⟩
  have hnoStm : ∀ q0 ∈ f.segs, ∀ e ∈ q0.1.ents, ∀ a b, e.st ≠ .inStream a b :=
    fun q0 hq0 => (h.revsOk q0.1 (f.mem_segs_revs q0 hq0)).noStm
  exact {
    noMagic := by
      intro k hk
      rw [f.toHyb_bytes]
      exact h.noMagic k hk
    revsOk := by
      intro m hm
      obtain ⟨m0, hm0, rfl⟩ := List.mem_map.mp hm
      exact (h.revsOk m0 hm0).toSec2
    reads := by
      intro m hm q hq
      obtain ⟨m0, hm0, rfl⟩ := List.mem_map.mp hm
      exact h.reads m0 hm0 q hq
    xrefStm := by
      intro q hq
      obtain ⟨q0, _, rfl⟩ := hmemS q hq
      trivial
    prevs := by
      rw [hsegs]
      exact hprevOK_lift f.segs none h.prevs
    newest := by
      obtain ⟨q0, hlast, hroot, hds⟩ := h.newest
      refine ⟨liftSeg q0, ?_, hroot, hds⟩
      rw [hsegs, List.getLast?_map, hlast]
      rfl
    stableGen := by
      rw [f.toHyb_visTables]
      exact h.stableGen
    size := by
      rw [f.toHyb_view]
      exact hsize
    tableObjs := by
      intro q hq
      obtain ⟨q0, hq0, rfl⟩ := hmemS q hq
      exact (h.tableObjs q0 hq0).toTableOf2 (hnoStm q0 hq0)
    notEdited := by
      intro pre q post hseg k hk q' hq' e' he'
      obtain ⟨pre0, q0, post0, hseg0, rfl, rfl, rfl⟩ := f.toHyb_split pre q post hseg
      obtain ⟨q0', hq0', rfl⟩ := List.mem_map.mp hq'
      exact h.notEdited pre0 q0 post0 hseg0 k hk q0' hq0' e' he'
    holders := by
      intro pre q post hseg p hp hk len hd hnx hno
      obtain ⟨pre0, q0, post0, hseg0, rfl, rfl, rfl⟩ := f.toHyb_split pre q post hseg
      obtain ⟨pre', qh, post', hseg', ph, hph, hkey, hdn, hval, hno'⟩ :=
        h.holders pre0 q0 post0 hseg0 p hp hk len hd hnx
          (fun q' hq' e' he' => hno (liftSeg q') (List.mem_map_of_mem hq') e' he')
      refine ⟨pre'.map liftSeg, liftSeg qh, post'.map liftSeg, ?_, ph, hph, hkey, hdn, hval, ?_⟩
      · rw [hsegs, hseg']
        simp
      · intro q' hq' e' he'
        obtain ⟨q0', hq0', rfl⟩ := List.mem_map.mp hq'
        exact hno' q0' hq0' e' he'
    rows := by
      intro q hq e he c i hst
      obtain ⟨q0, hq0, rfl⟩ := hmemS q hq
      exact absurd hst (hnoStm q0 hq0 e he c i)
    placed := by intro w hw; cases hw
    contsNodup := List.nodup_nil
    memsNodup := List.nodup_nil
    untouched := by
      have hno : ∀ E ∈ f.toHyb.secVis, guardedNums E = [] := by
        intro E hE
        obtain ⟨m, hm, rfl⟩ := List.mem_map.mp hE
        obtain ⟨m0, hm0, rfl⟩ := List.mem_map.mp hm
        exact guardedNums_nil_of_noStm _ (h.revsOk m0 hm0).noStm
      generalize f.toHyb.secVis = S at hno
      induction S with
      | nil => rfl
      | cons E t ih =>
        simp only [memberTouchedLater, hno E List.mem_cons_self, List.any_nil, Bool.false_or]
        exact ih (fun E' hE' => hno E' (List.mem_cons_of_mem _ hE'))
    wsx := h.wsx
    wsxNe := h.wsxNe
    wsxNoS := h.wsxNoS
    dsNe := h.dsNe
    dsDig := h.dsDig
    ofsFits := h.ofsFits
    e := h.e
    trail := h.trail }

end MixFile

end Parsley.LoaderE2E
