/-
  C04 end-to-end, spec side, the most general history (hybrid sections, object streams, forward-referenced /Length):
  the outcome of `load_hybmix_all` in the vocabulary of Spec/Doc.lean, exactly as `load_hybmix_objstm_spec` does for
  `load_hybmix_objstm`.  `load_hybmix_all_spec`: the loader's final definitions are exactly the bindings of
  `DocSpec.resolve (f.saidsO ws rt)` and the root is the one `resolve` reports.
-/
import Parsley.Lemmas.LoaderE2EHistAll3
import Parsley.Lemmas.LoaderE2EHistHybObjStmSpec
namespace Parsley.LoaderE2E
open Parsley Parsley.Prim Parsley.Obj Parsley.Indirect Parsley.Loader
open Parsley.XrefSpec Parsley.C13 Parsley.LoaderChain Parsley.LoaderStage Parsley.LoaderObjStm
open Parsley.DocSpec (forget applyRev insertSorted sortDefs resolve Said)

/-- **`load_hybmix_all_spec`**: the loaded document is `DocSpec.resolve` of what the revisions said, hidden objects
    and members of object streams included -/
theorem load_hybmix_all_spec (f : HybMixFile) (root : ObjId) (ws : List WCont) (dep : Piece → Option (ObjId × Int))
    (rt : HRev × Nat → ObjId) (h : f.WFall root ws dep) (hrt : ∀ q, f.segs.getLast? = some q → rt q = root) :
    ∃ L : Loaded, parseData f.bytes = .ok L ∧
      (resolve (f.saidsO ws rt)).2 = some L.root ∧
      ∀ (k : ObjId) (v : Obj), (k, v) ∈ (resolve (f.saidsO ws rt)).1 ↔ ObjStm.defsGet k L.defs = some v := by
  obtain ⟨L, hL, hroot, hdec, _, hnone⟩ := load_hybmix_all f root ws dep h
  have hok : ∀ q ∈ f.segs, HRevSecOK q.1 := fun q hq => h.revsOk q.1 (f.mem_segs_revs q hq)
  have htab : ∀ q ∈ f.segs, TableOf2 q.1.vis (hobjsOf q) := fun q hq => (h.tableObjs q hq).vis
  -- a row of type 2 stands for a member
  have hrowsM : ∀ q ∈ f.segs, ∀ e ∈ q.1.vis, ∀ c i, e.st = .inStream c i → ∃ x, memberOf ws e = some x := by
    intro q hq e he c i hst
    obtain ⟨w, hw, hwc, m, hmi, _⟩ := h.rows q hq e he c i hst
    exact ⟨_, memberOf_of ws h.contsNodup e c i hst w hw hwc m hmi⟩
  refine ⟨L, hL, ?_, ?_⟩
  · -- the root
    obtain ⟨q, hq, _, _⟩ := h.newest
    show ((f.saidsO ws rt).getLast?).map (·.root) = some L.root
    unfold HybMixFile.saidsO
    rw [List.getLast?_map, hq, hroot, ← hrt q hq]
    rfl
  · intro k v
    have hnd : ∀ q ∈ f.segs, ((HybMixFile.saidAtO ws rt q).written.map (·.1.1)).Nodup := by
      intro q hq
      exact (htab q hq).written_nodup (hok q hq).nums ws (rt q)
    have hres : (resolve (f.saidsO ws rt)).1 = sortDefs ((f.segs.map (HybMixFile.saidAtO ws rt)).foldl applyRev []) := rfl
    rw [hres, mem_sortDefs, mem_foldl_applyRev (HybMixFile.saidAtO ws rt) f.segs hnd [] (k, v)]
    have hB : ∀ q ∈ f.segs, NotMent (HybMixFile.saidAtO ws rt q) (k, v) ↔ ∀ e ∈ q.1.vis, e.obj ≠ k.1 := by
      intro q hq
      exact not_mentioned_iffO (htab q hq) ws (hrowsM q hq) (rt q) k.1
    have hA : ∀ q, (k, v) ∈ (HybMixFile.saidAtO ws rt q).written ↔
        (∃ p ∈ hobjsOf q, (p.1.num, p.1.gen) = k ∧ (p.1.val p.2).val = v) ∨
        ∃ e ∈ q.1.vis, memberOf ws e = some (k, v) := by
      intro q
      exact mem_writtenO ws (hobjsOf q) q.1.vis (rt q) k v
    constructor
    · rintro (⟨hnil, _⟩ | ⟨pre, q, post, hseg, hw, hall⟩)
      · cases hnil
      · have hq : q ∈ f.segs := by rw [hseg]; simp
        have hlater : ∀ q' ∈ post, ∀ e' ∈ q'.1.vis, e'.obj ≠ k.1 :=
          fun q' hq' => (hB q' (by rw [hseg]; simp [hq'])).mp (hall q' hq')
        rcases (hA q).mp hw with ⟨p, hp, hk, hv⟩ | ⟨e, he, hm⟩
        · obtain ⟨e, he, heo, heg, hst⟩ := (htab q hq).ent_of_obj p hp
          have hk1 : p.1.num = k.1 := congrArg Prod.fst hk
          have D := (hdec pre q post hseg e he (by rw [heo, hk1]; exact hlater)).1
          rw [← hk, ← hv]
          exact D.obj_bound p hp heo.symm heg.symm hst
        · obtain ⟨hk1, c, i, hst⟩ := memberOf_num ws e (k, v) hm
          have hk1' : k.1 = e.obj := hk1
          have D := (hdec pre q post hseg e he (by rw [← hk1']; exact hlater)).2
          obtain ⟨w, hw', hwc, m, hmi, _, hdef, _⟩ := D c i hst
          have hm' := memberOf_of ws h.contsNodup e c i hst w hw' hwc m hmi
          rw [hm] at hm'
          injection hm' with hm'
          injection hm' with hk' hv'
          rw [hk', hv']
          exact hdef
    · intro hg
      obtain ⟨n, g⟩ := k
      by_cases hm : ∃ q ∈ f.segs, ∃ e ∈ q.1.vis, e.obj = n
      · obtain ⟨pre, q, post, hseg, ⟨e, he, hen⟩, hall⟩ :=
          exists_last (fun q : HRev × Nat => ∃ e ∈ q.1.vis, e.obj = n) f.segs hm
        subst hen
        have hq : q ∈ f.segs := by rw [hseg]; simp
        have hno : ∀ q' ∈ post, ∀ e' ∈ q'.1.vis, e'.obj ≠ e.obj :=
          fun q' hq' e' he' hee => hall q' hq' ⟨e', he', hee⟩
        have hnm : ∀ q' ∈ post, NotMent (HybMixFile.saidAtO ws rt q') ((e.obj, g), v) :=
          fun q' hq' => (hB q' (by rw [hseg]; simp [hq'])).mpr (hno q' hq')
        obtain ⟨D, DS⟩ := hdec pre q post hseg e he hno
        right
        refine ⟨pre, q, post, hseg, (hA q).mpr ?_, hnm⟩
        by_cases hstm : ∃ c i, e.st = .inStream c i
        · obtain ⟨c, i, hst⟩ := hstm
          obtain ⟨w, hw', hwc, m, hmi, _, hdef, hoth⟩ := DS c i hst
          right
          refine ⟨e, he, ?_⟩
          by_cases hg0 : g = 0
          · subst hg0
            rw [hdef] at hg
            injection hg with hg
            rw [memberOf_of ws h.contsNodup e c i hst w hw' hwc m hmi, hg]
          · rw [hoth g hg0] at hg
            cases hg
        · left
          exact D.bound_inv (fun a b hst => hstm ⟨a, b, hst⟩) g v hg
      · rw [hnone n (fun q hq e he hen => hm ⟨q, hq, e, he, hen⟩) g] at hg
        cases hg

end Parsley.LoaderE2E
