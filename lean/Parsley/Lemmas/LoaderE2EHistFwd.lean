/-
  C04 end-to-end, histories whose stream objects may take their /Length from a FORWARD REFERENCE (part 1: the
  ingredients that do not mention the file layout).

  A stream object written `<< /Length n 0 R >> stream ...` whose holder `n 0 obj <int> endobj` is loaded LATER than the
  stream is left aside by the first pass of `parse_objects` (InsufficientContext) and read by the second pass, when the
  holder is defined.  Lemmas/LoaderE2EHistMix.lean proves the history theorem for bodies whose every piece reads in
  every context (`Piece.Reads`); here:

    place_ofs, placeM_objs_sorted   geometry: the offsets of all objects of all revisions are strictly increasing, so an
                          object of the file is determined by its offset (`objs_ofs_inj`).  Needed because "the value
                          written at an offset" can no longer be pinned down by `readsAt_val_unique` (a dependent
                          stream reads only relative to a context).
    lookupDep, lookup_both  the kind (`dep`) and the value of the object written as (n, g) at offset o.
    entOfK, ReadsKd       the entry of the two-pass stage for an item, by kind; what the item satisfies, by kind.
    stage_merged_two_pass the loading stage (BOTH passes) on the merged table of a history from any sorted context:
                          `stage_merged_from` with "every in-use entry reads" weakened to "reads, or reads once its
                          holder is defined", the holder being resolved IN THE MERGED TABLE: the newest entry of the
                          holder's number is in use, has the holder's generation, is a plain object with the integer
                          value (or the context binds the holder to that integer).  Conclusions as `stage_merged_from`.
-/
import Parsley.Lemmas.LoaderE2EHistMix
import Parsley.Lemmas.LoaderE2EFwdFile
namespace Parsley.LoaderE2E
open Parsley Parsley.Prim Parsley.Obj Parsley.Indirect Parsley.Loader Parsley.C02 Parsley.Spelling
open Parsley.XrefSpec Parsley.C13 Parsley.LoaderChain Parsley.LoaderStage Parsley.LoaderObjStm
open Parsley.C03 (Item ReadsAt)
open Parsley.C04 (StableGen)
open Parsley.LoaderTwoPass (Entry ReadsDep)

/-! ## geometry: an object of the file is determined by its offset -/

/-- the offsets of a written body are strictly increasing and lie inside the body -/
theorem place_ofs : ∀ (ps : List Placed) (pos : Nat), (∀ q ∈ ps, 0 < q.p.bytes.length) →
    (place ps pos).Pairwise (fun a b => a.2 < b.2) ∧
    ∀ q ∈ place ps pos, pos ≤ q.2 ∧ q.2 < pos + (bodyBytes ps).length
  | [], _, _ => ⟨List.Pairwise.nil, by intro q hq; cases hq⟩
  | p :: t, pos, h => by
    obtain ⟨ih1, ih2⟩ := place_ofs t (pos + (p.p.bytes.length + p.post.length))
      (fun q hq => h q (List.mem_cons_of_mem _ hq))
    have hp := h p List.mem_cons_self
    have hlen : (bodyBytes (p :: t)).length = p.p.bytes.length + (p.post.length + (bodyBytes t).length) := by
      simp [bodyBytes]
    constructor
    · simp only [place, List.pairwise_cons]
      refine ⟨?_, ih1⟩
      intro b hb
      have := (ih2 b hb).1
      show pos < b.2
      omega
    · intro q hq
      simp only [place, List.mem_cons] at hq
      rcases hq with rfl | hq
      · rw [hlen]
        show pos ≤ pos ∧ pos < _
        omega
      · have := ih2 q hq
        rw [hlen]
        omega

theorem MRev.body_le (m : MRev) : (bodyBytes m.body).length ≤ m.bytes.length := by
  simp [MRev.bytes]

/-- the offsets of all objects of all revisions, in file order, are strictly increasing -/
theorem placeM_objs_sorted : ∀ (rs : List MRev) (pos : Nat), (∀ m ∈ rs, ∀ q ∈ m.body, 0 < q.p.bytes.length) →
    ((placeM rs pos).flatMap mobjsOf).Pairwise (fun a b => a.2 < b.2) ∧
    ∀ p ∈ (placeM rs pos).flatMap mobjsOf, pos ≤ p.2
  | [], _, _ => ⟨by simp [placeM], by intro p hp; simp [placeM] at hp⟩
  | m :: t, pos, h => by
    obtain ⟨ih1, ih2⟩ := placeM_objs_sorted t (pos + m.bytes.length) (fun m' hm' => h m' (List.mem_cons_of_mem _ hm'))
    obtain ⟨h1, h2⟩ := place_ofs m.body pos (h m List.mem_cons_self)
    have hb := m.body_le
    constructor
    · simp only [placeM, List.flatMap_cons, List.pairwise_append]
      refine ⟨h1, ih1, ?_⟩
      intro a ha b hb'
      have := (h2 a ha).2
      have := ih2 b hb'
      omega
    · intro p hp
      simp only [placeM, List.flatMap_cons, List.mem_append] at hp
      rcases hp with hp | hp
      · exact (h2 p hp).1
      · have := ih2 p hp
        omega

theorem eq_of_pairwise_lt {α : Type} (f : α → Nat) : ∀ (l : List α), l.Pairwise (fun a b => f a < f b) →
    ∀ a ∈ l, ∀ b ∈ l, f a = f b → a = b
  | [], _, _, h, _, _, _ => by cases h
  | x :: t, hp, a, ha, b, hb, hab => by
    obtain ⟨hx, ht⟩ := List.pairwise_cons.mp hp
    rcases List.mem_cons.mp ha with rfl | ha' <;> rcases List.mem_cons.mp hb with rfl | hb'
    · rfl
    · have := hx b hb'; omega
    · have := hx a ha'; omega
    · exact eq_of_pairwise_lt f t ht a ha' b hb' hab

/-- **an object of the file is determined by its offset** -/
theorem objs_ofs_inj (rs : List MRev) (pos : Nat) (h : ∀ m ∈ rs, ∀ q ∈ m.body, 0 < q.p.bytes.length) :
    ∀ a ∈ (placeM rs pos).flatMap mobjsOf, ∀ b ∈ (placeM rs pos).flatMap mobjsOf, a.2 = b.2 → a = b :=
  eq_of_pairwise_lt (fun a : Piece × Nat => a.2) _ (placeM_objs_sorted rs pos h).1

/-! ## kind and value of the object written at an offset -/

/-- the kind of the object written as `(n, g)` at offset `o` among `all` (`lookupVal` gives its value) -/
def lookupDep (all : List (Piece × Nat)) (dep : Piece → Option (ObjId × Int)) (n g o : Nat) : Option (ObjId × Int) :=
  match all.find? (fun q => q.1.num == n && q.1.gen == g && q.2 == o) with
  | some q => dep q.1
  | none => none

/-- with offsets that determine the object, both lookups find THE object written there -/
theorem lookup_both (all : List (Piece × Nat)) (dep : Piece → Option (ObjId × Int))
    (hinj : ∀ a ∈ all, ∀ b ∈ all, a.2 = b.2 → a = b) (p : Piece × Nat) (hp : p ∈ all) :
    lookupVal all p.1.num p.1.gen p.2 = p.1.val p.2 ∧ lookupDep all dep p.1.num p.1.gen p.2 = dep p.1 := by
  unfold lookupVal lookupDep
  cases hf : all.find? (fun q => q.1.num == p.1.num && q.1.gen == p.1.gen && q.2 == p.2) with
  | none =>
    have := List.find?_eq_none.mp hf p hp
    simp at this
  | some q =>
    have hq := List.find?_some hf
    simp only [Bool.and_eq_true, beq_iff_eq] at hq
    have : q = p := hinj q (List.mem_of_find?_eq_some hf) p hp hq.2
    subst this
    exact ⟨rfl, rfl⟩

/-! ## the two-pass stage on a merged table -/

/-- the entry of the two-pass stage for an item, by the kind `kd` assigns to (number, generation, offset) -/
def entOfK (kd : Nat → Nat → Nat → Option (ObjId × Int)) (it : Item) : Entry :=
  match kd it.id it.gen it.ofs with
  | none => .plain it
  | some (h, _) => .dep it h

theorem entOfK_item (kd : Nat → Nat → Nat → Option (ObjId × Int)) (it : Item) : (entOfK kd it).item = it := by
  unfold entOfK
  split <;> rfl

/-- what an item satisfies, by kind: it reads in every context, or it reads once its holder is defined -/
def ReadsKd (kd : Nat → Nat → Nat → Option (ObjId × Int)) (s : Bytes) (it : Item) : Prop :=
  match kd it.id it.gen it.ofs with
  | none => ReadsAt 0 50 false s it
  | some (h, len) => ReadsDep s it h len

/-- **the stage (both passes) on a merged table, from a context `defs0`**: an in-use entry not bound in `defs0` reads by
    its kind; the holder `h` of a dependent stream that the merged table loads RESOLVES IN THE MERGED TABLE: the newest
    entry of the number `h.1` is in use with generation `h.2`, at an offset where a plain object with the integer value
    `len` is written (and if the context binds `h`, it binds it to that integer) -/
theorem stage_merged_two_pass (hofs : Nat) (s : Bytes) (defs0 : Defs) (hs0 : DefsSorted defs0)
    (L : List Xref.Ent) (val : Nat → Nat → Nat → Located Obj) (kd : Nat → Nat → Nat → Option (ObjId × Int))
    (hnostm : ∀ e ∈ L, ∀ a b, e.st ≠ .inStream a b)
    (hstable : StableGen L)
    (hread : ∀ e ∈ L, ∀ o, e.st = .inUse o → defsGet (e.obj, e.gen) defs0 = none →
      o < s.length ∧ ReadsKd kd s ⟨e.obj, e.gen, o, val e.obj e.gen o⟩)
    (hhold : ∀ e o, L.find? (·.obj == e.obj) = some e → e.st = .inUse o → defsGet (e.obj, e.gen) defs0 = none →
      ∀ h len, kd e.obj e.gen o = some (h, len) →
      ∃ eh oh, L.find? (·.obj == h.1) = some eh ∧ eh.gen = h.2 ∧ eh.st = .inUse oh ∧ kd h.1 h.2 oh = none ∧
        (val h.1 h.2 oh).val = .int len ∧ ∀ v0, defsGet h defs0 = some v0 → v0.val = .int len) :
    ∃ defs, parseObjects hofs ⟨⟨defs0, 0, 50, false⟩, false⟩ (infoOf (dedupKey L [])) s = .ok defs ∧
      (∀ n e nx, L.find? (·.obj == n) = some e → e.st = .free nx →
        ∀ g, defsGet (n, g) defs0 = none → ObjStm.defsGet (n, g) defs = none) ∧
      (∀ n e o, L.find? (·.obj == n) = some e → e.st = .inUse o →
        (defsGet (n, e.gen) defs0 = none → ObjStm.defsGet (n, e.gen) defs = some (val n e.gen o).val) ∧
        ∀ g, g ≠ e.gen → defsGet (n, g) defs0 = none → ObjStm.defsGet (n, g) defs = none) ∧
      (∀ n, L.find? (·.obj == n) = none → ∀ g, ObjStm.defsGet (n, g) defs = (defsGet (n, g) defs0).map (·.val)) ∧
      (∀ k v0, defsGet k defs0 = some v0 → ObjStm.defsGet k defs = some v0.val) := by
  have hfil : ∀ n, (dedupKey L []).filter (·.obj == n) = (L.find? (·.obj == n)).toList :=
    stable_gen_first_per_number L hstable
  have hsub : ∀ e ∈ dedupKey L [], e ∈ L := fun e he => mem_dedupKey_sub L e he
  have hnd : ((itemsOf val (dedupKey L [])).map Item.key).Nodup := itemsOf_nodup val L
  generalize dedupKey L [] = X at hfil hsub hnd
  -- an entry of the merged table is the newest entry of its number, and conversely
  have hnew : ∀ e ∈ X, L.find? (·.obj == e.obj) = some e := by
    intro e he
    have hm : e ∈ X.filter (·.obj == e.obj) := by simp [List.mem_filter, he]
    rw [hfil] at hm
    cases hf : L.find? (·.obj == e.obj) with
    | none => rw [hf] at hm; simp at hm
    | some e' =>
      rw [hf] at hm
      have : e = e' := by simpa using hm
      rw [this]
  have hmemX : ∀ n e, L.find? (·.obj == n) = some e → e ∈ X ∧ e.obj = n := by
    intro n e hf
    have hm : e ∈ X.filter (·.obj == n) := by rw [hfil n, hf]; simp
    obtain ⟨heX, hen⟩ := List.mem_filter.mp hm
    exact ⟨heX, by simpa using hen⟩
  have hinfo : ((itemsOf val X).map (entOfK kd)).map (fun e => e.item.info) = (itemsOf val X).map Item.info := by
    rw [List.map_map]
    apply List.map_congr_left
    intro it _
    simp only [Function.comp, entOfK_item]
  have hkeys : ((itemsOf val X).map (entOfK kd)).map (fun e => e.item.key) = (itemsOf val X).map Item.key := by
    rw [List.map_map]
    apply List.map_congr_left
    intro it _
    simp only [Function.comp, entOfK_item]
  have hplainMem : ∀ it, Entry.plain it ∈ (itemsOf val X).map (entOfK kd) →
      it ∈ itemsOf val X ∧ kd it.id it.gen it.ofs = none := by
    intro it hit
    obtain ⟨it', hit', heq⟩ := List.mem_map.mp hit
    unfold entOfK at heq
    cases hk : kd it'.id it'.gen it'.ofs with
    | none =>
      rw [hk] at heq
      injection heq with heq
      subst heq
      exact ⟨hit', hk⟩
    | some y => obtain ⟨h', len⟩ := y; rw [hk] at heq; cases heq
  have hdepMem : ∀ it h, Entry.dep it h ∈ (itemsOf val X).map (entOfK kd) →
      it ∈ itemsOf val X ∧ ∃ len, kd it.id it.gen it.ofs = some (h, len) := by
    intro it h hit
    obtain ⟨it', hit', heq⟩ := List.mem_map.mp hit
    unfold entOfK at heq
    cases hk : kd it'.id it'.gen it'.ofs with
    | none => rw [hk] at heq; cases heq
    | some y =>
      obtain ⟨h', len⟩ := y
      rw [hk] at heq
      injection heq with heq1 heq2
      subst heq1 heq2
      exact ⟨hit', len, hk⟩
  obtain ⟨defs, hpo, hA0, hB0, hC⟩ := stage_two_pass_from hofs s defs0 hs0 ((itemsOf val X).map (entOfK kd))
    (by rw [hkeys]; exact hnd)
    (by
      intro it hit hn
      obtain ⟨hitX, hk⟩ := hplainMem it hit
      obtain ⟨e, heX, hst, hitq⟩ := (mem_itemsOf val it X).mp hitX
      have hn' : defsGet (e.obj, e.gen) defs0 = none := by
        have : it.key = (e.obj, e.gen) := by rw [hitq]; rfl
        rw [← this]; exact hn
      obtain ⟨hlt, hr⟩ := hread e (hsub e heX) it.ofs hst hn'
      rw [← hitq] at hr
      unfold ReadsKd at hr
      rw [hk] at hr
      exact ⟨hlt, hr⟩)
    (by
      intro it h hit hn
      obtain ⟨hitX, len, hk⟩ := hdepMem it h hit
      obtain ⟨e, heX, hst, hitq⟩ := (mem_itemsOf val it X).mp hitX
      have hid : it.id = e.obj := by rw [hitq]
      have hgen : it.gen = e.gen := by rw [hitq]
      have hn' : defsGet (e.obj, e.gen) defs0 = none := by
        have : it.key = (e.obj, e.gen) := by rw [hitq]; rfl
        rw [← this]; exact hn
      obtain ⟨hlt, hr⟩ := hread e (hsub e heX) it.ofs hst hn'
      rw [← hitq] at hr
      unfold ReadsKd at hr
      rw [hk] at hr
      refine ⟨hlt, len, hr, ?_⟩
      obtain ⟨eh, oh, hfh, hgh, hsth, hkh, hvh, hv0⟩ := hhold e it.ofs (hnew e heX) hst hn' h len
        (by rw [← hid, ← hgen]; exact hk)
      obtain ⟨hehX, heho⟩ := hmemX h.1 eh hfh
      cases hb : defsGet h defs0 with
      | some v0 => exact Or.inr ⟨v0, rfl, hv0 v0 hb⟩
      | none =>
        left
        have hkey : ((⟨eh.obj, eh.gen, oh, val eh.obj eh.gen oh⟩ : Item)).key = h := by
          show (eh.obj, eh.gen) = h
          rw [heho, hgh]
        refine ⟨⟨eh.obj, eh.gen, oh, val eh.obj eh.gen oh⟩, ?_, hkey, ?_, ?_⟩
        · have hm : (⟨eh.obj, eh.gen, oh, val eh.obj eh.gen oh⟩ : Item) ∈ itemsOf val X :=
            (mem_itemsOf val _ X).mpr ⟨eh, hehX, hsth, rfl⟩
          have := List.mem_map_of_mem (f := entOfK kd) hm
          unfold entOfK at this
          have hk0 : kd eh.obj eh.gen oh = none := by rw [heho, hgh]; exact hkh
          simp only [hk0] at this
          exact this
        · rw [hkey]; exact hb
        · show (val eh.obj eh.gen oh).val = .int len
          rw [heho, hgh]; exact hvh)
  rw [hinfo, ← infoOf_eq_items val X (fun e he => hnostm e (hsub e he))] at hpo
  have hA : ∀ it ∈ itemsOf val X, defsGet it.key defs0 = none → ObjStm.defsGet it.key defs = some it.v.val := by
    intro it hit hn
    have := hA0 (entOfK kd it) (List.mem_map_of_mem hit) (by rw [entOfK_item]; exact hn)
    rw [entOfK_item] at this
    exact this
  have hB : ∀ k, (∀ it ∈ itemsOf val X, it.key ≠ k) → ObjStm.defsGet k defs = (defsGet k defs0).map (·.val) := by
    intro k hk
    apply hB0 k
    intro e he
    obtain ⟨it, hit, rfl⟩ := List.mem_map.mp he
    rw [entOfK_item]
    exact hk it hit
  refine ⟨defs, hpo, ?_, ?_, ?_, hC⟩
  · intro n e nx hf hfree g hg
    rw [hB (n, g), hg]; · rfl
    intro it hit hk
    have hid : it.id = n := congrArg Prod.fst hk
    obtain ⟨e', hf', hst', _⟩ := items_of_number val X L n (hfil n) it hit hid
    rw [hf] at hf'; cases hf'
    rw [hfree] at hst'; cases hst'
  · intro n e o hf huse
    obtain ⟨heX, hen⟩ := hmemX n e hf
    constructor
    · intro hg
      have hit : (⟨e.obj, e.gen, o, val e.obj e.gen o⟩ : Item) ∈ itemsOf val X :=
        (mem_itemsOf val _ X).mpr ⟨e, heX, huse, rfl⟩
      have := hA _ hit (by rw [hen]; exact hg)
      rw [hen] at this
      exact this
    · intro g hne hg
      rw [hB (n, g), hg]; · rfl
      intro it hit hk
      have hid : it.id = n := congrArg Prod.fst hk
      obtain ⟨e', hf', _, hgen⟩ := items_of_number val X L n (hfil n) it hit hid
      rw [hf] at hf'; cases hf'
      exact hne (by rw [← hgen]; exact (congrArg Prod.snd hk).symm)
  · intro n hf g
    apply hB (n, g)
    intro it hit hk
    have hid : it.id = n := congrArg Prod.fst hk
    obtain ⟨e', hf', _, _⟩ := items_of_number val X L n (hfil n) it hit hid
    rw [hf] at hf'; cases hf'

end Parsley.LoaderE2E
