/-
  C04 end-to-end, histories whose stream objects may take their /Length from a FORWARD REFERENCE (part 2: the file).

  `MixFile.WFfwd f root dep` is `MixFile.WF f root` with "every body piece reads in every context" weakened to
  "every body piece is `PieceOK dep`": it reads outright (`dep p = none`) or it is a stream whose /Length is the
  reference `h` and it reads as soon as `h` is bound to the integer `len` (`dep p = some (h, len)`), failing with
  InsufficientContext before (`Piece.ReadsDep`).  The cross-reference stream object of a stream revision still has a
  direct /Length (`StmSecOK.xsLen`: the /Prev walk reads it from the context the walk has built, long before any
  holder is loaded).  New field

    holders   a dependent stream that the merged table LOADS (no newer section mentions its number) has a holder that
              the merged table loads too: some revision - older, the same, or NEWER than the stream's - wrote an
              object `ph` with the holder's number and generation that reads outright (`dep ph = none`), has the value
              `int len`, and no section newer than THAT revision mentions the holder's number (so a later revision
              neither redefines nor frees it).  Nothing is asked of dependent streams that a newer revision has
              redefined or freed: they are never read.

  The /Prev walk is unchanged (`msec_reads_sec`: reading a section does not touch the body pieces, only the
  cross-reference stream object itself must read outright), so `xrefinfo_mix_fwd` is `xrefinfo_mix`; the loading stage
  is `stage_merged_two_pass` (both passes) instead of `stage_merged_from`.

    load_mix_fwd        the end-to-end theorem, conclusions EXACTLY those of `load_mix`
    load_mix_fwd_objs   read from the objects written
    MixFile.WF.toFwd    `WFfwd` generalises `WF` (`dep := fun _ => none`)
-/
import Parsley.Lemmas.LoaderE2EHistFwd
namespace Parsley.LoaderE2E
open Parsley Parsley.Prim Parsley.Obj Parsley.Indirect Parsley.Loader Parsley.C02 Parsley.Spelling
open Parsley.XrefSpec Parsley.C13 Parsley.LoaderChain Parsley.LoaderStage Parsley.LoaderObjStm
open Parsley.C03 (Item ReadsAt)
open Parsley.C04 (StableGen)
open Parsley.LoaderTwoPass (Entry ReadsDep)

/-! ## revisions: the section part of the lexical conditions -/

/-- `StmOK` without the conditions on the body pieces -/
structure StmSecOK (r : StmSeg) : Prop where
  /-- the cross-reference stream object is legally written, with a DIRECT /Length -/
  xsOK : r.xs.OK
  xsLen : dictGet keyLength r.xs.kvs = some (.int r.xs.data.length)
  dict : XDictOK r.xs.kvs r.subs r.w0 r.w1 r.w2
  stored : Stored r.xs.kvs (XrefStreamFile.rowBytes r.subs r.w0 r.w1 r.w2) r.xs.data
  fits : ∀ p ∈ r.subs, ∀ e ∈ p.2, e.fits r.w0 r.w1 r.w2
  lim : ∀ p ∈ r.subs, p.1 + p.2.length ≤ Xref.usizeLim
  noInStm : ∀ p ∈ r.subs, ∀ e ∈ p.2, e.typ ≤ 1
  numsNodup : ((streamEnts r.subs).map (·.obj)).Nodup

/-- `ClassicOK` without the condition on the body pieces -/
structure ClassicSecOK (r : RevSeg) (D : List (Bytes × Obj)) : Prop where
  sec : SecOK ⟨0, r.subs, r.wt, r.ttok, D⟩
  noEncrypt : dictGet kEncrypt D = none

def MRevSecOK : MRev → Prop
  | .classic r D => ClassicSecOK r D
  | .stream r => StmSecOK r

theorem StmOK.sec {r : StmSeg} (h : StmOK r) : StmSecOK r :=
  ⟨h.xsOK, h.xsLen, h.dict, h.stored, h.fits, h.lim, h.noInStm, h.numsNodup⟩

theorem ClassicOK.secOnly {r : RevSeg} {D : List (Bytes × Obj)} (h : ClassicOK r D) : ClassicSecOK r D :=
  ⟨h.sec, h.noEncrypt⟩

theorem MRevOK.secOK {m : MRev} (h : MRevOK m) : MRevSecOK m := by
  cases m with
  | classic r D => exact ClassicOK.secOnly h
  | stream r => exact StmOK.sec h

/-- the objects of a revision other than its cross-reference stream object -/
def MRev.others : MRev → List Placed
  | .classic r _ => r.body
  | .stream r => r.body1 ++ r.body2

theorem MRev.mem_body (m : MRev) (q : Placed) (hq : q ∈ m.body) :
    q ∈ m.others ∨ ∃ r, m = .stream r ∧ q = ⟨r.xs.piece, r.xpost⟩ := by
  cases m with
  | classic r D => exact Or.inl hq
  | stream r =>
    simp only [MRev.body, StmSeg.body, List.mem_append, List.mem_cons] at hq
    rcases hq with hq | rfl | hq
    · exact Or.inl (List.mem_append_left _ hq)
    · exact Or.inr ⟨r, rfl, rfl⟩
    · exact Or.inl (List.mem_append_right _ hq)

theorem MRevSecOK.noStm {m : MRev} (h : MRevSecOK m) : ∀ e ∈ m.ents, ∀ a b, e.st ≠ .inStream a b := by
  cases m with
  | classic r D => exact tableEnts_noStm r.subs
  | stream r => exact streamEnts_noStm r.subs (StmSecOK.noInStm h)

theorem MRevSecOK.nums {m : MRev} (h : MRevSecOK m) : (m.ents.map (·.obj)).Nodup := by
  cases m with
  | classic r D => exact (ClassicSecOK.sec h).numsNodup
  | stream r => exact StmSecOK.numsNodup h

/-- **a written revision of either kind reads as its abstract section** - whatever its other objects are -/
theorem msec_reads_sec (s : Bytes) (q : MRev × Nat) (hok : MRevSecOK q.1) (hle : q.2 ≤ s.length) (rest : Bytes)
    (hd : s.drop q.2 = bodyBytes q.1.body ++ (q.1.tail ++ rest)) : MReads s (msecOf q) := by
  obtain ⟨m, pos⟩ := q
  cases m with
  | classic r D =>
    have hok' : ClassicSecOK r D := hok
    have hd0 : s.drop pos = bodyBytes r.body ++ (encTable r.subs ++ (kwTrailer ++ (r.wt ++ (r.ttok ++ (r.gap ++ rest))))) := by
      rw [hd]; simp [MRev.body, MRev.tail]
    have hd1 := drop_next hd0
    refine ⟨table_cursor_lt hd1, ?_⟩
    intro defs _ _
    obtain ⟨d, hsp, hdd⟩ := hok'.sec.trailer
    obtain ⟨c1, hsec⟩ := section_classic defs false false s _ r.subs r.wt r.ttok _ d D hd1 hok'.sec.subsNe hok'.sec.subsOk
      hok'.sec.wt hsp hdd hok'.sec.noXRefStm
    rw [hok'.noEncrypt] at hsec
    exact ⟨c1, hsec⟩
  | stream r =>
    have hok' : StmSecOK r := hok
    have hd0 : s.drop pos = bodyBytes r.body1 ++ (r.xs.bytes ++ (r.xpost ++ (bodyBytes r.body2 ++ (r.gap ++ rest)))) := by
      rw [hd]; simp [MRev.body, MRev.tail, StmSeg.body, bodyBytes_append, bodyBytes, WStm.piece]
    have hd1 := drop_next hd0
    have hi1 := drop_le hd0 hle
    have hlt : pos + (bodyBytes r.body1).length < s.length := by
      have := drop_le hd1 hi1
      have := WStm.bytes_pos r.xs
      omega
    refine ⟨hlt, ?_⟩
    intro defs hs hk
    obtain ⟨fs, extra, hfs, hap⟩ := stored_decodes _ _ _ hok'.stored
    have hap' : Xref.applyFilters (xrefXf r.xs.kvs) fs r.xs.data 0 =
        .ok ((r.subs.flatMap fun p => encRows r.w0 r.w1 r.w2 p.2) ++ extra, 0) := hap
    obtain ⟨l, c, hl, hmap⟩ := xrefStreamP_decoded r.xs.kvs r.subs r.w0 r.w1 r.w2 hok'.dict fs r.xs.data extra hfs hap'
      hok'.fits hok'.lim
    obtain ⟨j, hsec⟩ := section_stream s _ r.xs _ hi1 hd1 hok'.xsOK hok'.xsLen defs hs (hk _ rfl) l c hl
    rw [hmap] at hsec
    exact ⟨j, hsec⟩

/-! ## the file -/

namespace MixFile

/-- well-formedness of a mixed history whose stream objects may take their /Length from a reference to an integer
    object loaded before OR AFTER them (`dep` marks them: holder and length) -/
structure WFfwd (f : MixFile) (root : ObjId) (dep : Piece → Option (ObjId × Int)) : Prop where
  noMagic : ∀ k, k < f.garbage.length → kwPdf.isPrefixOf (f.bytes.drop k) = false
  /-- every revision's SECTION is lexically well formed (`ClassicSecOK` / `StmSecOK`) -/
  revsOk : ∀ m ∈ f.revs, MRevSecOK m
  /-- every object other than the cross-reference stream objects reads by its kind -/
  reads : ∀ m ∈ f.revs, ∀ q ∈ m.others, PieceOK dep q.p
  prevs : MPrevOK none f.segs
  newest : ∃ q, f.segs.getLast? = some q ∧ q.1.root = some (.ref root.1 root.2) ∧ digitsVal f.ds 0 = secOfs q
  stableGen : StableGen f.tables
  tableObjs : ∀ q ∈ f.segs, TableOf q.1.ents (mobjsOf q)
  notEdited : ∀ pre q post, f.segs = pre ++ q :: post → ∀ k, q.1.xsKey = some k →
    ∀ q' ∈ post, ∀ e' ∈ q'.1.ents, e'.obj ≠ k.1
  /-- the holder of a dependent stream that is loaded (no newer section mentions the stream's number) is loaded too:
      written by SOME revision `qh` as an object that reads outright and has the integer value, and no section newer
      than `qh` mentions the holder's number -/
  holders : ∀ pre q post, f.segs = pre ++ q :: post → ∀ p ∈ mobjsOf q, ∀ hk len, dep p.1 = some (hk, len) →
    q.1.xsKey ≠ some (p.1.num, p.1.gen) →
    (∀ q' ∈ post, ∀ e' ∈ q'.1.ents, e'.obj ≠ p.1.num) →
    ∃ pre' qh post', f.segs = pre' ++ qh :: post' ∧ ∃ ph ∈ mobjsOf qh, (ph.1.num, ph.1.gen) = hk ∧
      dep ph.1 = none ∧ (ph.1.val ph.2).val = .int len ∧ ∀ q' ∈ post', ∀ e' ∈ q'.1.ents, e'.obj ≠ hk.1
  wsx : WsRun f.wsx
  wsxNe : f.wsx ≠ []
  wsxNoS : (115 : UInt8) ∉ f.wsx
  dsNe : f.ds ≠ []
  dsDig : ∀ y ∈ f.ds, isDigit y = true
  ofsFits : digitsVal f.ds 0 ≤ i64Max
  e : ∀ y ∈ f.e, isWsEol y = true
  trail : ∀ k, 0 < k → kwEOF.isPrefixOf ((kwEOF ++ f.trail).drop k) = false

theorem reads_all_fwd (f : MixFile) (root : ObjId) (dep : Piece → Option (ObjId × Int)) (h : f.WFfwd root dep) :
    ∀ q ∈ f.segs, MReads f.view (msecOf q) := by
  intro q hq
  obtain ⟨hle, r, hd⟩ := f.cursors q hq
  exact msec_reads_sec f.view q (h.revsOk q.1 (f.mem_segs_revs q hq)) hle r hd

/-- the own entry of a cross-reference stream object -/
theorem own_entry_fwd (f : MixFile) (root : ObjId) (dep : Piece → Option (ObjId × Int)) (h : f.WFfwd root dep)
    (q : MRev × Nat) (hq : q ∈ f.segs) (k : ObjId) (hk : q.1.xsKey = some k) :
    ∃ e ∈ q.1.ents, e.obj = k.1 ∧ e.gen = k.2 ∧ e.st = .inUse (secOfs q) ∧
      ∃ p ∈ mobjsOf q, p.2 = secOfs q ∧ p.1.val p.2 = q.1.xsVal (secOfs q) := by
  obtain ⟨m, pos⟩ := q
  cases m with
  | classic r D => cases hk
  | stream r =>
    simp only [MRev.xsKey, Option.some.injEq] at hk
    subst hk
    have hmem := xs_mem_objs r pos
    obtain ⟨e, he, ho, hg, hst⟩ := (h.tableObjs _ hq).ent_of_obj _ hmem
    exact ⟨e, he, ho, hg, hst, _, hmem, rfl, rfl⟩

theorem keysApart_fwd (f : MixFile) (root : ObjId) (dep : Piece → Option (ObjId × Int)) (h : f.WFfwd root dep) :
    KeysApart f.msecs := by
  unfold KeysApart msecs
  rw [List.pairwise_reverse, List.pairwise_map]
  apply pairwise_of_decomp _ f.segs []
  intro pre q post hseg q' hq' k hk' hk
  have hseg' : f.segs = pre ++ q :: post := by simpa using hseg
  have hq'm : q' ∈ f.segs := by rw [hseg']; simp [hq']
  have hk1 : q.1.xsKey = some k := hk
  have hk2 : q'.1.xsKey = some k := hk'
  obtain ⟨e, he, ho, _, _, _⟩ := f.own_entry_fwd root dep h q' hq'm k hk2
  exact h.notEdited pre q post hseg' k hk1 q' hq' e he ho

/-- **`get_xref_info` on a mixed history** - the /Prev walk does not look at the other objects -/
theorem xrefinfo_mix_fwd (f : MixFile) (root : ObjId) (dep : Piece → Option (ObjId × Int)) (h : f.WFfwd root dep) :
    getXrefInfo ⟨Ctx.new 50, false⟩ f.view (digitsVal f.ds 0) =
      (.ok (dedupKey f.tables [], .ref root.1 root.2), ⟨⟨f.defs0, 0, 50, false⟩, false⟩) := by
  obtain ⟨q, hlast, hroot, hsx⟩ := h.newest
  cases hrev : f.msecs with
  | nil =>
    have : f.segs = [] := by
      have := congrArg List.length hrev
      simp only [msecs, List.length_reverse, List.length_map, List.length_nil] at this
      exact List.eq_nil_of_length_eq_zero this
    rw [this] at hlast
    cases hlast
  | cons x older =>
    have hx : x = msecOf q := by
      have := List.head?_reverse (l := f.segs.map msecOf)
      rw [List.getLast?_map, hlast] at this
      have h2 : (f.segs.map msecOf).reverse = x :: older := hrev
      rw [h2] at this
      simpa using this
    have hmem : ∀ y ∈ x :: older, ∃ q' ∈ f.segs, y = msecOf q' := by
      intro y hy
      rw [← hrev] at hy
      obtain ⟨q', hq', rfl⟩ := List.mem_map.mp (List.mem_reverse.mp hy)
      exact ⟨q', hq', rfl⟩
    have hall : ∀ y ∈ x :: older, MReads f.view y := by
      intro y hy
      obtain ⟨q', hq', rfl⟩ := hmem y hy
      exact f.reads_all_fwd root dep h q' hq'
    have hl : MLinked (x :: older) := by
      rw [← hrev]
      have := mlinked_reverse_aux f.segs none [] h.prevs trivial rfl
      simpa [msecs] using this
    have hnd : ((x :: older).map (·.c)).Nodup := by
      rw [← hrev]
      unfold msecs
      rw [List.map_reverse, List.map_map]
      show List.Pairwise (· ≠ ·) _
      rw [List.pairwise_reverse]
      have hs := placeM_sorted f.revs f.hdr.length
      exact hs.imp (fun h => (Nat.ne_of_lt h).symm)
    have hka : KeysApart (x :: older) := by rw [← hrev]; exact f.keysApart_fwd root dep h
    have hxr : x.root = some (.ref root.1 root.2) := by rw [hx]; exact hroot
    have hres := xrefinfo_msecs f.view x older (.ref root.1 root.2) hall hl hnd hxr hka
    have hxc : x.c = digitsVal f.ds 0 := by rw [hx, hsx]; rfl
    rw [hxc, ← hrev, f.msecEnts_msecs] at hres
    exact hres

/-- the newest entry of a number, read backwards: the revision that wrote it and the newer ones, which do not
    mention the number -/
theorem find_tables_inv (f : MixFile) (n : Nat) (e : Xref.Ent) (hf : f.tables.find? (·.obj == n) = some e) :
    ∃ pre q post, f.segs = pre ++ q :: post ∧ e ∈ q.1.ents ∧ ∀ q' ∈ post, ∀ e' ∈ q'.1.ents, e'.obj ≠ n := by
  have key : ∀ (l : List (MRev × Nat)), (l.flatMap (·.1.ents)).find? (·.obj == n) = some e →
      ∃ a q b, l = a ++ q :: b ∧ e ∈ q.1.ents ∧ ∀ q' ∈ a, ∀ e' ∈ q'.1.ents, e'.obj ≠ n := by
    intro l
    induction l with
    | nil => intro h; simp at h
    | cons x t ih =>
      intro h
      rw [List.flatMap_cons, List.find?_append] at h
      cases hx : x.1.ents.find? (·.obj == n) with
      | some e0 =>
        rw [hx] at h
        have : e0 = e := by simpa using h
        subst this
        exact ⟨[], x, t, rfl, List.mem_of_find?_eq_some hx, by intro q' hq'; cases hq'⟩
      | none =>
        rw [hx] at h
        obtain ⟨a, q, b, hl, he, hno⟩ := ih (by simpa using h)
        refine ⟨x :: a, q, b, by rw [hl]; rfl, he, ?_⟩
        intro q' hq' e' he'
        rcases List.mem_cons.mp hq' with rfl | hq'
        · have := List.find?_eq_none.mp hx e' he'
          simpa using this
        · exact hno q' hq' e' he'
  rw [f.tables_eq] at hf
  obtain ⟨a, q, b, hl, he, hno⟩ := key f.segs.reverse hf
  refine ⟨b.reverse, q, a.reverse, ?_, he, fun q' hq' => hno q' (List.mem_reverse.mp hq')⟩
  have := congrArg List.reverse hl
  simpa using this

end MixFile

/-- the composition up to the loading stage -/
theorem load_mix_core_fwd (f : MixFile) (root : ObjId) (dep : Piece → Option (ObjId × Int)) (h : f.WFfwd root dep)
    (P : ObjStm.Defs → Prop)
    (hstage : ∃ defs, parseObjects f.garbage.length ⟨⟨f.defs0, 0, 50, false⟩, false⟩ (infoOf (dedupKey f.tables [])) f.view
      = .ok defs ∧ P defs) :
    ∃ L : Loaded, parseData f.bytes = .ok L ∧ L.root = root ∧ P L.defs := by
  have hpdf : kwPdf.isPrefixOf f.hdr = true := by
    rw [List.isPrefixOf_iff_prefix]; exact List.prefix_append _ _
  have hscan := parseData_scan f.garbage f.hdr f.mid f.wsx f.ds f.e f.trail h.noMagic hpdf h.wsx h.wsxNe h.wsxNoS
    h.dsNe h.dsDig h.ofsFits h.e h.trail
  have hx := f.xrefinfo_mix_fwd root dep h
  have hlt : digitsVal f.ds 0 < f.view.length := by
    obtain ⟨q, hlast, _, hsx⟩ := h.newest
    have hq : q ∈ f.segs := List.mem_of_getLast? hlast
    have := (f.reads_all_fwd root dep h q hq).1
    rw [hsx]
    exact this
  obtain ⟨defs, hpo, hP⟩ := hstage
  refine ⟨⟨defs, root⟩, ?_, rfl, hP⟩
  show parseData (f.garbage ++ f.view) = _
  unfold MixFile.view
  rw [hscan]
  unfold loadRest
  have hlt' : digitsVal f.ds 0 < (f.hdr ++ (f.mid ++ (kwStartxref ++ (f.wsx ++ (f.ds ++ (f.e ++ (kwEOF ++ f.trail))))))).length := hlt
  have hx' : getXrefInfo ⟨Ctx.new 50, false⟩ (f.hdr ++ (f.mid ++ (kwStartxref ++ (f.wsx ++ (f.ds ++ (f.e ++ (kwEOF ++ f.trail))))))) (digitsVal f.ds 0) = _ := hx
  have hpo' : parseObjects f.garbage.length ⟨⟨f.defs0, 0, 50, false⟩, false⟩ (infoOf (dedupKey f.tables []))
    (f.hdr ++ (f.mid ++ (kwStartxref ++ (f.wsx ++ (f.ds ++ (f.e ++ (kwEOF ++ f.trail))))))) = _ := hpo
  simp only [hlt', decide_true, Bool.not_true, Bool.false_eq_true, if_false, hx', hpo']

/-- every object of the file, at its offset: it lies in the view; it is the cross-reference stream object of its
    revision or it reads by its kind -/
theorem MixFile.objs_read (f : MixFile) (root : ObjId) (dep : Piece → Option (ObjId × Int)) (h : f.WFfwd root dep) :
    ∀ q ∈ f.segs, ∀ p ∈ mobjsOf q, p.2 < f.view.length ∧
      (q.1.xsKey = some (p.1.num, p.1.gen) ∨ ReadsK dep p.1 f.view p.2) := by
  intro q hq
  obtain ⟨hle, r, hd⟩ := f.cursors q hq
  have hm := f.mem_segs_revs q hq
  refine body_all (fun p s i => q.1.xsKey = some (p.num, p.gen) ∨ ReadsK dep p s i) q.1.body f.view q.2 _ hle hd ?_
  intro x hx
  rcases q.1.mem_body x hx with ho | ⟨r, hr, rfl⟩
  · have hp := h.reads q.1 hm x ho
    exact ⟨hp.at.1, fun s i post hi hdr => Or.inr (hp.at.2 s i post hi hdr)⟩
  · refine ⟨WStm.bytes_pos r.xs, fun s i post hi hdr => Or.inl ?_⟩
    rw [hr]
    rfl

/-- every object written has at least one byte -/
theorem MixFile.pieces_pos (f : MixFile) (root : ObjId) (dep : Piece → Option (ObjId × Int)) (h : f.WFfwd root dep) :
    ∀ m ∈ f.revs, ∀ q ∈ m.body, 0 < q.p.bytes.length := by
  intro m hm x hx
  rcases m.mem_body x hx with ho | ⟨r, _, rfl⟩
  · exact (h.reads m hm x ho).at.1
  · exact WStm.bytes_pos r.xs

/-- **`load_mix_fwd` (C04, end to end, any number of revisions, classic tables and cross-reference streams in any mix,
    stream objects with a direct OR a forward-referenced /Length)** -/
theorem load_mix_fwd (f : MixFile) (root : ObjId) (dep : Piece → Option (ObjId × Int)) (h : f.WFfwd root dep) :
    ∃ L : Loaded, parseData f.bytes = .ok L ∧ L.root = root ∧
      (∀ pre q post, f.segs = pre ++ q :: post → ∀ e ∈ q.1.ents,
        (∀ q' ∈ post, ∀ e' ∈ q'.1.ents, e'.obj ≠ e.obj) → Decides (mobjsOf q) L.defs e) ∧
      (∀ n, (∀ q ∈ f.segs, ∀ e ∈ q.1.ents, e.obj ≠ n) → ∀ g, ObjStm.defsGet (n, g) L.defs = none) := by
  refine load_mix_core_fwd f root dep h (fun defs =>
    (∀ pre q post, f.segs = pre ++ q :: post → ∀ e ∈ q.1.ents,
      (∀ q' ∈ post, ∀ e' ∈ q'.1.ents, e'.obj ≠ e.obj) → Decides (mobjsOf q) defs e) ∧
    (∀ n, (∀ q ∈ f.segs, ∀ e ∈ q.1.ents, e.obj ≠ n) → ∀ g, ObjStm.defsGet (n, g) defs = none)) ?_
  have hok : ∀ q ∈ f.segs, MRevSecOK q.1 := fun q hq => h.revsOk q.1 (f.mem_segs_revs q hq)
  -- the context left by the walk
  obtain ⟨hs0, hbound, hfree⟩ := regAll_spec f.msecs [] List.Pairwise.nil (f.keysApart_fwd root dep h)
  have hmsec : ∀ y ∈ f.msecs, ∃ q ∈ f.segs, y = msecOf q := by
    intro y hy
    obtain ⟨q, hq, rfl⟩ := List.mem_map.mp (List.mem_reverse.mp hy)
    exact ⟨q, hq, rfl⟩
  have hxsbound : ∀ q ∈ f.segs, ∀ k, q.1.xsKey = some k → defsGet k f.defs0 = some (q.1.xsVal (secOfs q)) := by
    intro q hq k hk
    exact hbound (msecOf q) (List.mem_reverse.mpr (List.mem_map_of_mem hq)) k hk
  -- a binding of the context belongs to the cross-reference stream object of some stream revision
  have hd0 : ∀ k v0, defsGet k f.defs0 = some v0 → ∃ q ∈ f.segs, q.1.xsKey = some k ∧ v0 = q.1.xsVal (secOfs q) := by
    intro k v0 hk
    by_cases hex : ∃ y ∈ f.msecs, y.key = some k
    · obtain ⟨y, hy, hyk⟩ := hex
      obtain ⟨q, hq, rfl⟩ := hmsec y hy
      have := hbound _ hy k hyk
      have h2 : defsGet k f.defs0 = some (msecOf q).val := this
      rw [hk] at h2
      exact ⟨q, hq, hyk, Option.some.inj h2⟩
    · have := hfree k (fun y hy hyk => hex ⟨y, hy, hyk⟩)
      have h2 : defsGet k f.defs0 = defsGet k [] := this
      rw [hk] at h2
      cases h2
  -- the newest entry of the number of a cross-reference stream object is its own entry
  have hown : ∀ q ∈ f.segs, ∀ k, q.1.xsKey = some k → ∃ e0, f.tables.find? (·.obj == k.1) = some e0 ∧ e0.gen = k.2 ∧
      e0.st = .inUse (secOfs q) ∧ ∃ p ∈ mobjsOf q, p.2 = secOfs q ∧ p.1.val p.2 = q.1.xsVal (secOfs q) := by
    intro q hq k hk
    obtain ⟨e0, he0, ho, hg, hst, hp⟩ := f.own_entry_fwd root dep h q hq k hk
    obtain ⟨pre, post, hseg⟩ := List.append_of_mem hq
    have hfind := f.find_tables pre q post hseg (hok q hq).nums e0 he0 (by
      rw [ho]; exact h.notEdited pre q post hseg k hk)
    rw [ho] at hfind
    exact ⟨e0, hfind, hg, hst, hp⟩
  let all : List (Piece × Nat) := f.segs.flatMap mobjsOf
  have hallmem : ∀ q ∈ f.segs, ∀ p ∈ mobjsOf q, p ∈ all := fun q hq p hp => List.mem_flatMap.mpr ⟨q, hq, hp⟩
  -- an object of the file is determined by its offset
  have hinj : ∀ a ∈ all, ∀ b ∈ all, a.2 = b.2 → a = b :=
    objs_ofs_inj f.revs f.hdr.length (f.pieces_pos root dep h)
  have hlk : ∀ p ∈ all, lookupVal all p.1.num p.1.gen p.2 = p.1.val p.2 ∧
      lookupDep all dep p.1.num p.1.gen p.2 = dep p.1 := lookup_both all dep hinj
  have hrd := f.objs_read root dep h
  have hobj : ∀ e ∈ f.tables, ∀ o, e.st = .inUse o → ∃ p ∈ all, p.1.num = e.obj ∧ p.1.gen = e.gen ∧ p.2 = o := by
    intro e he o hst
    obtain ⟨q, hq, heq⟩ := (f.mem_tables e).mp he
    obtain ⟨p, hp, hp'⟩ := (h.tableObjs q hq).obj_of_ent e heq o hst
    exact ⟨p, hallmem q hq p hp, hp'⟩
  have hnostm : ∀ e ∈ f.tables, ∀ a b, e.st ≠ .inStream a b := by
    intro e he
    obtain ⟨q, hq, heq⟩ := (f.mem_tables e).mp he
    exact (hok q hq).noStm e heq
  obtain ⟨defs, hpo, hF, hU, hN, hK⟩ := stage_merged_two_pass f.garbage.length f.view f.defs0 hs0 f.tables
    (lookupVal all) (lookupDep all dep) hnostm h.stableGen
    (by
      intro e he o hst hn
      obtain ⟨q, hq, heq⟩ := (f.mem_tables e).mp he
      obtain ⟨p, hp, h1, h2, h3⟩ := (h.tableObjs q hq).obj_of_ent e heq o hst
      obtain ⟨hlt, hor⟩ := hrd q hq p hp
      obtain ⟨hv, hdp⟩ := hlk p (hallmem q hq p hp)
      rw [← h1, ← h2, ← h3, hv]
      refine ⟨hlt, ?_⟩
      rcases hor with hx | hr
      · have := hxsbound q hq _ hx
        rw [h1, h2, hn] at this
        cases this
      · unfold ReadsKd
        unfold ReadsK at hr
        simp only [hdp]
        cases hd : dep p.1 with
        | none => rw [hd] at hr; exact hr
        | some y => obtain ⟨hh, len⟩ := y; rw [hd] at hr; exact hr)
    (by
      intro e o hf hst hn hk len hkd
      obtain ⟨pre, q, post, hseg, heq, hno⟩ := f.find_tables_inv e.obj e hf
      have hq : q ∈ f.segs := by rw [hseg]; simp
      obtain ⟨p, hp, h1, h2, h3⟩ := (h.tableObjs q hq).obj_of_ent e heq o hst
      obtain ⟨hv, hdp⟩ := hlk p (hallmem q hq p hp)
      rw [← h1, ← h2, ← h3, hdp] at hkd
      have hnx : q.1.xsKey ≠ some (p.1.num, p.1.gen) := by
        intro hx
        have := hxsbound q hq _ hx
        rw [h1, h2, hn] at this
        cases this
      obtain ⟨pre', qh, post', hseg', ph, hph, hkey, hdn, hval, hno'⟩ :=
        h.holders pre q post hseg p hp hk len hkd hnx (by rw [h1]; exact hno)
      have hqh : qh ∈ f.segs := by rw [hseg']; simp
      obtain ⟨eh, heh, heo, heg, hest⟩ := (h.tableObjs qh hqh).ent_of_obj ph hph
      have hk1 : ph.1.num = hk.1 := congrArg Prod.fst hkey
      have hk2 : ph.1.gen = hk.2 := congrArg Prod.snd hkey
      have hfind := f.find_tables pre' qh post' hseg' (hok qh hqh).nums eh heh (by rw [heo, hk1]; exact hno')
      rw [heo, hk1] at hfind
      obtain ⟨hvh, hdph⟩ := hlk ph (hallmem qh hqh ph hph)
      rw [hk1, hk2] at hvh hdph
      refine ⟨eh, ph.2, hfind, by rw [heg, hk2], hest, by rw [hdph]; exact hdn, by rw [hvh]; exact hval, ?_⟩
      intro v0 hb
      obtain ⟨q0, hq0, hk0, hv0⟩ := hd0 _ _ hb
      obtain ⟨e0, hf0, _, hst0, p0, hp0, hp0o, hp0v⟩ := hown q0 hq0 _ hk0
      have hee : e0 = eh := by
        rw [hfind] at hf0
        exact (Option.some.inj hf0).symm
      have ho : ph.2 = p0.2 := by
        rw [hee, hest] at hst0
        injection hst0 with hst0
        rw [hp0o, hst0]
      have : ph = p0 := hinj ph (hallmem qh hqh ph hph) p0 (hallmem q0 hq0 p0 hp0) ho
      rw [hv0, ← hp0v, ← this]
      exact hval)
  have hval : ∀ e ∈ f.tables, ∀ o, e.st = .inUse o → ∀ p ∈ all, p.1.num = e.obj → p.1.gen = e.gen → p.2 = o →
      lookupVal all e.obj e.gen o = p.1.val p.2 := by
    intro e he o hst p hp h1 h2 h3
    rw [← h1, ← h2, ← h3]
    exact (hlk p hp).1
  refine ⟨defs, hpo, ?_, ?_⟩
  · intro pre q post hseg e he hno
    have hq : q ∈ f.segs := by rw [hseg]; simp
    have hfind := f.find_tables pre q post hseg (hok q hq).nums e he hno
    have het : e ∈ f.tables := (f.mem_tables e).mpr ⟨q, hq, he⟩
    -- if the context binds a generation of e.obj, then e is the own entry of that cross-reference stream object
    have hbnd : ∀ g v0, defsGet (e.obj, g) f.defs0 = some v0 → g = e.gen ∧ ∃ q0 ∈ f.segs, e.st = .inUse (secOfs q0) ∧
        ∃ p0 ∈ mobjsOf q0, p0.2 = secOfs q0 ∧ p0.1.val p0.2 = v0 := by
      intro g v0 hg
      obtain ⟨q0, hq0, hk0, hv0⟩ := hd0 _ _ hg
      obtain ⟨e0, hf0, hg0, hst0, p0, hp0, hp0o, hp0v⟩ := hown q0 hq0 _ hk0
      have hee : e0 = e := by
        have : f.tables.find? (·.obj == e.obj) = some e0 := hf0
        rw [hfind] at this
        exact (Option.some.inj this).symm
      subst hee
      exact ⟨hg0.symm, q0, hq0, hst0, p0, hp0, hp0o, by rw [hp0v, hv0]⟩
    refine ⟨fun o hst => ⟨(h.tableObjs q hq).obj_of_ent e he o hst, ?_, ?_⟩, ?_⟩
    · intro p hp h1 h2 h3
      have hpall : p ∈ all := hallmem q hq p hp
      cases hb : defsGet (e.obj, e.gen) f.defs0 with
      | none =>
        rw [((hU e.obj e o hfind hst).1 hb), hval e het o hst p hpall h1 h2 h3]
      | some v0 =>
        obtain ⟨_, q0, hq0, hst0, p0, hp0, hp0o, hp0v⟩ := hbnd e.gen v0 hb
        rw [hK _ v0 hb, ← hp0v]
        have ho : o = secOfs q0 := by
          rw [hst] at hst0
          injection hst0
        have hp0all : p0 ∈ all := hallmem q0 hq0 p0 hp0
        have : p0 = p := hinj p0 hp0all p hpall (by rw [hp0o, h3, ho])
        rw [this]
    · intro g hne
      cases hb : defsGet (e.obj, g) f.defs0 with
      | none => exact (hU e.obj e o hfind hst).2 g hne hb
      | some v0 => exact absurd (hbnd g v0 hb).1 hne
    · intro nx hfree g
      cases hb : defsGet (e.obj, g) f.defs0 with
      | none => exact hF e.obj e nx hfind hfree g hb
      | some v0 =>
        obtain ⟨_, q0, _, hst0, _⟩ := hbnd g v0 hb
        rw [hfree] at hst0
        cases hst0
  · intro n hn g
    have hnone : f.tables.find? (·.obj == n) = none := by
      apply find_none_of
      intro e he
      obtain ⟨q, hq, heq⟩ := (f.mem_tables e).mp he
      exact hn q hq e heq
    rw [hN n hnone g]
    cases hb : defsGet (n, g) f.defs0 with
    | none => rfl
    | some v0 =>
      obtain ⟨q0, hq0, hk0, _⟩ := hd0 _ _ hb
      obtain ⟨e0, hf0, _⟩ := hown q0 hq0 _ hk0
      have : f.tables.find? (·.obj == n) = some e0 := hf0
      rw [hnone] at this
      cases this

/-- the same read from the objects: an object whose number no NEWER section mentions is defined with its value - in
    particular every stream with a forward /Length that no newer revision touches -/
theorem load_mix_fwd_objs (f : MixFile) (root : ObjId) (dep : Piece → Option (ObjId × Int)) (h : f.WFfwd root dep) :
    ∃ L : Loaded, parseData f.bytes = .ok L ∧ L.root = root ∧
      ∀ pre q post, f.segs = pre ++ q :: post → ∀ p ∈ mobjsOf q,
        (∀ q' ∈ post, ∀ e' ∈ q'.1.ents, e'.obj ≠ p.1.num) →
        ObjStm.defsGet (p.1.num, p.1.gen) L.defs = some (p.1.val p.2).val := by
  obtain ⟨L, hL, hroot, hdec, _⟩ := load_mix_fwd f root dep h
  refine ⟨L, hL, hroot, ?_⟩
  intro pre q post hseg p hp hno
  have hq : q ∈ f.segs := by rw [hseg]; simp
  obtain ⟨e, he, ho, hg, hst⟩ := (h.tableObjs q hq).ent_of_obj p hp
  have := ((hdec pre q post hseg e he (by rw [ho]; exact hno)).1 p.2 hst).2.1 p hp ho.symm hg.symm rfl
  rw [ho, hg] at this
  exact this

/-- `WFfwd` generalises `WF`: a history all of whose pieces read outright -/
theorem MixFile.WF.toFwd {f : MixFile} {root : ObjId} (h : f.WF root) : f.WFfwd root (fun _ => none) where
  noMagic := h.noMagic
  revsOk := fun m hm => (h.revsOk m hm).secOK
  reads := by
    intro m hm q hq
    have hr : ∀ q ∈ m.body, q.p.Reads := (h.revsOk m hm).reads
    have hb : q ∈ m.body := by
      cases m with
      | classic r D => exact hq
      | stream r =>
        simp only [MRev.others, List.mem_append] at hq
        simp only [MRev.body, StmSeg.body, List.mem_append, List.mem_cons]
        rcases hq with hq | hq
        · exact Or.inl hq
        · exact Or.inr (Or.inr hq)
    exact hr q hb
  prevs := h.prevs
  newest := h.newest
  stableGen := h.stableGen
  tableObjs := h.tableObjs
  notEdited := h.notEdited
  holders := by intro _ _ _ _ _ _ _ _ hd; cases hd
  wsx := h.wsx
  wsxNe := h.wsxNe
  wsxNoS := h.wsxNoS
  dsNe := h.dsNe
  dsDig := h.dsDig
  ofsFits := h.ofsFits
  e := h.e
  trail := h.trail

end Parsley.LoaderE2E
