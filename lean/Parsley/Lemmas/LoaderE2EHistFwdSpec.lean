/-
  C04 end-to-end, spec side, histories with forward-referenced /Length: the outcome of `load_mix_fwd` in the vocabulary
  of Spec/Doc.lean (as Lemmas/LoaderE2EHistMixSpec.lean does for `load_mix`).  `f.saids rt` is what the revisions SAID,
  oldest first.  `load_mix_fwd_spec`: the loader's final definitions are exactly the bindings of
  `DocSpec.resolve (f.saids rt)` and the root is the one `resolve` reports.
-/
import Parsley.Lemmas.LoaderE2EHistFwd2
import Parsley.Lemmas.LoaderE2EHistMixSpec
namespace Parsley.LoaderE2E
open Parsley Parsley.Prim Parsley.Obj Parsley.Indirect Parsley.Loader
open Parsley.XrefSpec Parsley.C13 Parsley.LoaderChain Parsley.LoaderStage
open Parsley.DocSpec (forget applyRev insertSorted sortDefs resolve Said)

/-- **`load_mix_fwd_spec`**: the loaded document is `DocSpec.resolve` of what the revisions said -/
theorem load_mix_fwd_spec (f : MixFile) (root : ObjId) (dep : Piece → Option (ObjId × Int)) (rt : MRev × Nat → ObjId)
    (h : f.WFfwd root dep) (hrt : ∀ q, f.segs.getLast? = some q → rt q = root) :
    ∃ L : Loaded, parseData f.bytes = .ok L ∧
      (resolve (f.saids rt)).2 = some L.root ∧
      ∀ (k : ObjId) (v : Obj), (k, v) ∈ (resolve (f.saids rt)).1 ↔ ObjStm.defsGet k L.defs = some v := by
  obtain ⟨L, hL, hroot, hdec, hnone⟩ := load_mix_fwd f root dep h
  have hok : ∀ q ∈ f.segs, MRevSecOK q.1 := fun q hq => h.revsOk q.1 (f.mem_segs_revs q hq)
  refine ⟨L, hL, ?_, ?_⟩
  · -- the root
    obtain ⟨q, hq, _, _⟩ := h.newest
    show ((f.saids rt).getLast?).map (·.root) = some L.root
    unfold MixFile.saids
    rw [List.getLast?_map, hq, hroot, ← hrt q hq]
    rfl
  · intro k v
    have hnd : ∀ q ∈ f.segs, ((MixFile.saidAt rt q).written.map (·.1.1)).Nodup := by
      intro q hq
      unfold MixFile.saidAt
      rw [written_nums]
      exact (h.tableObjs q hq).nums_nodup (hok q hq).noStm (hok q hq).nums
    have hres : (resolve (f.saids rt)).1 = sortDefs ((f.segs.map (MixFile.saidAt rt)).foldl applyRev []) := rfl
    rw [hres, mem_sortDefs, mem_foldl_applyRev (MixFile.saidAt rt) f.segs hnd [] (k, v)]
    -- both sides: some revision wrote the binding and no newer table mentions the number
    have hB : ∀ q ∈ f.segs, NotMent (MixFile.saidAt rt q) (k, v) ↔ ∀ e ∈ q.1.ents, e.obj ≠ k.1 := by
      intro q hq
      exact not_mentioned_iff (h.tableObjs q hq) (hok q hq).noStm (rt q) k.1
    have hA : ∀ q, (k, v) ∈ (MixFile.saidAt rt q).written ↔
        ∃ p ∈ mobjsOf q, (p.1.num, p.1.gen) = k ∧ (p.1.val p.2).val = v := by
      intro q
      exact mem_written (mobjsOf q) q.1.ents (rt q) k v
    constructor
    · rintro (⟨hnil, _⟩ | ⟨pre, q, post, hseg, hw, hall⟩)
      · cases hnil
      · have hq : q ∈ f.segs := by rw [hseg]; simp
        obtain ⟨p, hp, hk, hv⟩ := (hA q).mp hw
        obtain ⟨e, he, heo, heg, hst⟩ := (h.tableObjs q hq).ent_of_obj p hp
        have hk1 : p.1.num = k.1 := congrArg Prod.fst hk
        have D := hdec pre q post hseg e he (by
          intro q' hq' e' he'
          rw [heo, hk1]
          exact (hB q' (by rw [hseg]; simp [hq'])).mp (hall q' hq') e' he')
        rw [← hk, ← hv]
        exact D.obj_bound p hp heo.symm heg.symm hst
    · intro hg
      obtain ⟨n, g⟩ := k
      by_cases hm : ∃ q ∈ f.segs, ∃ e ∈ q.1.ents, e.obj = n
      · obtain ⟨pre, q, post, hseg, ⟨e, he, hen⟩, hall⟩ :=
          exists_last (fun q : MRev × Nat => ∃ e ∈ q.1.ents, e.obj = n) f.segs hm
        subst hen
        have hno : ∀ q' ∈ post, ∀ e' ∈ q'.1.ents, e'.obj ≠ e.obj :=
          fun q' hq' e' he' hee => hall q' hq' ⟨e', he', hee⟩
        obtain ⟨p, hp, hk, hv⟩ := (hdec pre q post hseg e he hno).bound_inv ((hok q (by rw [hseg]; simp)).noStm e he) g v hg
        right
        refine ⟨pre, q, post, hseg, (hA q).mpr ⟨p, hp, hk, hv⟩, ?_⟩
        intro q' hq'
        exact (hB q' (by rw [hseg]; simp [hq'])).mpr (hno q' hq')
      · rw [hnone n (fun q hq e he hen => hm ⟨q, hq, e, he, hen⟩) g] at hg
        cases hg

end Parsley.LoaderE2E
