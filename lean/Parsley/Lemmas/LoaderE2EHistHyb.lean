/-
  C04 end-to-end: HYBRID sections (classic table whose trailer has /XRefStm pointing at a cross-reference stream object
  written in the revision's body) inside a history.  Part 1: the section, the merge with hidden entries, the revision.

  `section_hybrid_from`  `parse_xref_section` on table + trailer with /XRefStm from EVERY context (generalises
                         `section_hybrid`, which starts from the empty one).
  `hiddenIn`, `visTable`, `hiddenClash`   a table entry of a hybrid section is HIDDEN when it is free and the section's
                         stream lists its number too (the usual way to hide an object from old readers); the visible
                         entries; the decidable exclusion predicate of known finding C03-hybrid-hidden-gen0.
  `infoOf_dedup_hidden`  the key lemma: hidden entries whose (number, generation) differs from that of every visible
                         entry do not change what the merge hands to the loading stage.
  `HybSeg`, `HRev`, `HybOK`, `HRevOK`, `hsec_reads`   a hybrid revision as written, a revision of any of the three kinds,
                         well-formedness, and `MReads` for it (so the generic /Prev walk `xrefinfo_msecs` applies).
-/
import Parsley.Lemmas.LoaderE2EHistMix
import Parsley.Lemmas.LoaderE2EHybrid
import Parsley.Lemmas.LoaderE2EChainSpec
namespace Parsley.LoaderE2E
open Parsley Parsley.Prim Parsley.Obj Parsley.Indirect Parsley.Loader Parsley.C02 Parsley.Spelling
open Parsley.XrefSpec Parsley.C13 Parsley.LoaderChain Parsley.LoaderStage
open Parsley.C03 (Item ReadsAt)
open Parsley.C04 (StableGen)

/-- **`parse_xref_section` on a hybrid section, from any context** -/
theorem section_hybrid_from (defs : Defs) (s : Bytes) (c : Nat) (subs : List TSub)
    (w tok rest : Bytes) (d : Nat) (D : List (Bytes × Obj))
    (hs : s.drop c = encTable subs ++ (kwTrailer ++ (w ++ (tok ++ rest))))
    (hne : subs ≠ []) (hok : ∀ t ∈ subs, subOk t)
    (hw : WsRun w) (hsp : Spells d (.dict D) tok) (hdep : d ≤ 51)
    (x : Nat) (hxs : ObjStm.getUsize D kXRefStm = some x) (henc : dictGet kEncrypt D = none) (hx : x ≤ s.length)
    (ents : List Xref.Ent) (rt : Option Obj) (pv : Option Nat) (j : Nat) (st2 : St)
    (hstm : parseXrefStream ⟨⟨defs, 0, 50, false⟩, false⟩ s x = (.ok (some (ents, rt, pv)), j, st2)) :
    parseXrefSection ⟨⟨defs, 0, 50, false⟩, false⟩ s c =
      (.ok (some (tableEnts subs ++ ents, dictGet kRoot D, ObjStm.getUsize D kPrev)), j, st2) := by
  obtain ⟨l, hxp, hents, -⟩ := table_roundtrip_at s c subs _ hs hne hok (stops_trailer _)
  have hc : c ≤ s.length := Nat.le_of_lt (table_cursor_lt hs)
  have hd1 := drop_next hs
  have hi1 := drop_le hs hc
  have hscan : scanFwd kwTrailer (s.drop (c + (encTable subs).length)) = some 0 := by
    rw [hd1]
    apply scanFwd_head
    · simp [kwTrailer]
    · rw [List.isPrefixOf_iff_prefix]; exact List.prefix_append _ _
  have htr := trailer_spelled defs false s _ w tok rest d D hi1 hd1 hw hsp hdep
  unfold parseXrefSection
  rw [hxp]
  simp only [hscan, Nat.add_zero, htr, hxs, hents, henc, Option.isSome_none, Bool.or_false, hx, decide_true, Bool.not_true,
    Bool.false_eq_true, if_false, hstm]

/-! ## hidden entries and the merge -/

theorem infoOf_cons_free (e : Xref.Ent) (t : List Xref.Ent) (h : isFreeEnt e = true) : infoOf (e :: t) = infoOf t := by
  unfold isFreeEnt at h
  cases hst : e.st with
  | free nx => simp [infoOf, hst]
  | inUse o => simp [hst] at h
  | inStream a b => simp [hst] at h

theorem infoOf_cons_congr (e : Xref.Ent) (a b : List Xref.Ent) (h : infoOf a = infoOf b) :
    infoOf (e :: a) = infoOf (e :: b) := by
  cases hst : e.st <;> simp [infoOf, hst, h]

/-- the visible entries of a tagged list (tag `true` = hidden) -/
def visOf (T : List (Xref.Ent × Bool)) : List Xref.Ent := (T.filter fun p => !p.2).map (·.1)

/-- **the merge ignores hidden entries.**  `T` = the entries in reading order, tagged hidden (`true`) / visible; hidden
    entries are free and none of them carries the (number, generation) of a visible entry.  Then the object infos of
    the first-occurrence merge of ALL entries are those of the merge of the visible entries alone: a hidden entry can
    only shadow other hidden entries, and `infoOf` drops free entries anyway. -/
theorem infoOf_dedup_hidden : ∀ (T : List (Xref.Ent × Bool)) (ids ids' : List (Nat × Nat)),
    (∀ p ∈ T, p.2 = true → isFreeEnt p.1 = true) →
    (∀ p ∈ T, p.2 = true → ∀ v ∈ T, v.2 = false → keyOf p.1 ≠ keyOf v.1) →
    (∀ v ∈ T, v.2 = false → (keyOf v.1 ∈ ids ↔ keyOf v.1 ∈ ids')) →
    infoOf (dedupKey (T.map (·.1)) ids) = infoOf (dedupKey (visOf T) ids')
  | [], _, _, _, _, _ => rfl
  | (e, true) :: t, ids, ids', hfree, hsep, hids => by
    have hfree' : ∀ p ∈ t, p.2 = true → isFreeEnt p.1 = true := fun p hp => hfree p (List.mem_cons_of_mem _ hp)
    have hsep' : ∀ p ∈ t, p.2 = true → ∀ v ∈ t, v.2 = false → keyOf p.1 ≠ keyOf v.1 :=
      fun p hp h1 v hv => hsep p (List.mem_cons_of_mem _ hp) h1 v (List.mem_cons_of_mem _ hv)
    have hvis : visOf ((e, true) :: t) = visOf t := by simp [visOf]
    rw [hvis, List.map_cons, dedupKey]
    split
    · exact infoOf_dedup_hidden t ids ids' hfree' hsep' (fun v hv => hids v (List.mem_cons_of_mem _ hv))
    · rw [infoOf_cons_free _ _ (hfree _ List.mem_cons_self rfl)]
      apply infoOf_dedup_hidden t _ ids' hfree' hsep'
      intro v hv hv2
      have hne : keyOf e ≠ keyOf v.1 := hsep (e, true) List.mem_cons_self rfl v (List.mem_cons_of_mem _ hv) hv2
      rw [List.mem_cons, ← hids v (List.mem_cons_of_mem _ hv) hv2]
      constructor
      · rintro (h | h)
        · exact absurd h.symm hne
        · exact h
      · exact Or.inr
  | (e, false) :: t, ids, ids', hfree, hsep, hids => by
    have hfree' : ∀ p ∈ t, p.2 = true → isFreeEnt p.1 = true := fun p hp => hfree p (List.mem_cons_of_mem _ hp)
    have hsep' : ∀ p ∈ t, p.2 = true → ∀ v ∈ t, v.2 = false → keyOf p.1 ≠ keyOf v.1 :=
      fun p hp h1 v hv => hsep p (List.mem_cons_of_mem _ hp) h1 v (List.mem_cons_of_mem _ hv)
    have hvis : visOf ((e, false) :: t) = e :: visOf t := by simp [visOf]
    have hids' : ∀ v ∈ t, v.2 = false → (keyOf v.1 ∈ ids ↔ keyOf v.1 ∈ ids') :=
      fun v hv => hids v (List.mem_cons_of_mem _ hv)
    have he := hids (e, false) List.mem_cons_self rfl
    rw [hvis, List.map_cons, dedupKey, dedupKey]
    by_cases hc : ids.contains (keyOf e) = true
    · have hc' : ids'.contains (keyOf e) = true := by
        rw [List.contains_iff_mem] at hc ⊢; exact he.mp hc
      rw [if_pos hc, if_pos hc']
      exact infoOf_dedup_hidden t ids ids' hfree' hsep' hids'
    · have hc' : ¬ ids'.contains (keyOf e) = true := by
        rw [List.contains_iff_mem] at hc ⊢; exact fun h => hc (he.mpr h)
      rw [if_neg hc, if_neg hc']
      apply infoOf_cons_congr
      apply infoOf_dedup_hidden t _ _ hfree' hsep'
      intro v hv hv2
      rw [List.mem_cons, List.mem_cons, hids' v hv hv2]

/-! ## hybrid revisions -/

/-- a table entry of a hybrid section is HIDDEN when it is free and the section's stream lists its number too -/
def hiddenIn (stm : List Xref.Ent) (e : Xref.Ent) : Bool := isFreeEnt e && stm.any fun e' => e'.obj == e.obj

/-- the table's entries that are not hidden -/
def visTable (tbl stm : List Xref.Ent) : List Xref.Ent := tbl.filter fun e => !hiddenIn stm e

/-- **the exclusion predicate** (known finding C03-hybrid-hidden-gen0): some hidden table entry carries the very
    (number, generation) of an entry of the stream, which it therefore shadows in the merge -/
def hiddenClash (tbl stm : List Xref.Ent) : Bool :=
  tbl.any fun e => hiddenIn stm e && stm.any fun e' => e'.obj == e.obj && e'.gen == e.gen

/-- a hybrid revision as written, with what its /XRefStm stream says -/
structure HybSeg where
  body1 : List Placed        -- the objects written before the cross-reference stream object
  xs : WStm                  -- the cross-reference stream object /XRefStm points at
  xpost : Bytes              -- arbitrary bytes after it
  body2 : List Placed        -- objects written after it
  subs : List TSub           -- the table
  wt : Bytes                 -- after the keyword `trailer`
  ttok : Bytes               -- the trailer dictionary as spelled
  gap : Bytes                -- ANYTHING up to the next revision / the final `startxref`
  ssubs : List (Nat × List SEnt)   -- the stream's /Index subsections with their rows
  v0 : Nat                   -- the /W widths
  v1 : Nat
  v2 : Nat

/-- all objects of a hybrid revision in file order, the cross-reference stream object included -/
def HybSeg.body (h : HybSeg) : List Placed := h.body1 ++ ⟨h.xs.piece, h.xpost⟩ :: h.body2

/-- a revision: classic / stream (`MRev`) or hybrid (with the value `D` of its trailer dictionary) -/
inductive HRev where
  | plain (m : MRev)
  | hybrid (h : HybSeg) (D : List (Bytes × Obj))

namespace HRev

def body : HRev → List Placed
  | .plain m => m.body
  | .hybrid h _ => h.body

def tail : HRev → Bytes
  | .plain m => m.tail
  | .hybrid h _ => encTable h.subs ++ (kwTrailer ++ (h.wt ++ (h.ttok ++ h.gap)))

def bytes (m : HRev) : Bytes := bodyBytes m.body ++ m.tail

/-- offset of the cross-reference section relative to the start of the revision (hybrid: of the TABLE) -/
def secRel : HRev → Nat
  | .plain m => m.secRel
  | .hybrid h _ => (bodyBytes h.body).length

/-- offset of the cross-reference stream object relative to the start of the revision -/
def xsRel : HRev → Nat
  | .plain m => m.secRel
  | .hybrid h _ => (bodyBytes h.body1).length

/-- the entries the section yields: for a hybrid section the table's, then the stream's -/
def ents : HRev → List Xref.Ent
  | .plain m => m.ents
  | .hybrid h _ => tableEnts h.subs ++ streamEnts h.ssubs

/-- the VISIBLE entries: a hybrid section's hidden table entries left out -/
def vis : HRev → List Xref.Ent
  | .plain m => m.ents
  | .hybrid h _ => visTable (tableEnts h.subs) (streamEnts h.ssubs) ++ streamEnts h.ssubs

/-- the entries tagged hidden / visible -/
def tagged : HRev → List (Xref.Ent × Bool)
  | .plain m => m.ents.map fun e => (e, false)
  | .hybrid h _ => ((tableEnts h.subs).map fun e => (e, hiddenIn (streamEnts h.ssubs) e)) ++
      (streamEnts h.ssubs).map fun e => (e, false)

def prev : HRev → Option Nat
  | .plain m => m.prev
  | .hybrid _ D => ObjStm.getUsize D kPrev

def root : HRev → Option Obj
  | .plain m => m.root
  | .hybrid _ D => dictGet kRoot D

def xsKey : HRev → Option ObjId
  | .plain m => m.xsKey
  | .hybrid h _ => some (h.xs.num, h.xs.gen)

def xsVal : HRev → Nat → Located Obj
  | .plain m, c => m.xsVal c
  | .hybrid h _, c => h.xs.val c

/-- /XRefStm of a hybrid revision written at `pos` gives the offset of its cross-reference stream object -/
def XRefStmAt : HRev → Nat → Prop
  | .plain _, _ => True
  | .hybrid h D, pos => ObjStm.getUsize D kXRefStm = some (pos + (bodyBytes h.body1).length)

end HRev

/-- lexical well-formedness of a hybrid revision -/
structure HybOK (h : HybSeg) (D : List (Bytes × Obj)) : Prop where
  subsNe : h.subs ≠ []
  subsOk : ∀ t ∈ h.subs, subOk t
  wt : WsRun h.wt
  trailer : ∃ d, Spells d (.dict D) h.ttok ∧ d ≤ 51
  noEncrypt : dictGet kEncrypt D = none
  xsOK : h.xs.OK
  xsLen : dictGet keyLength h.xs.kvs = some (.int h.xs.data.length)
  dict : XDictOK h.xs.kvs h.ssubs h.v0 h.v1 h.v2
  stored : Stored h.xs.kvs (XrefStreamFile.rowBytes h.ssubs h.v0 h.v1 h.v2) h.xs.data
  fits : ∀ p ∈ h.ssubs, ∀ e ∈ p.2, e.fits h.v0 h.v1 h.v2
  lim : ∀ p ∈ h.ssubs, p.1 + p.2.length ≤ Xref.usizeLim
  /-- rows of type 0 and 1 only (object streams in histories are a separate work item) -/
  noInStm : ∀ p ∈ h.ssubs, ∀ e ∈ p.2, e.typ ≤ 1
  /-- every number once among the VISIBLE entries (a hidden object is listed twice: free in the table, real entry in
      the stream) -/
  numsNodup : (((HRev.hybrid h D).vis).map (·.obj)).Nodup
  /-- outside the known finding: no hidden table entry carries the (number, generation) of a stream entry -/
  noClash : hiddenClash (tableEnts h.subs) (streamEnts h.ssubs) = false
  reads1 : ∀ q ∈ h.body1, q.p.Reads
  reads2 : ∀ q ∈ h.body2, q.p.Reads

def HRevOK : HRev → Prop
  | .plain m => MRevOK m
  | .hybrid h D => HybOK h D

theorem HRev.ents_tagged (m : HRev) : m.tagged.map (·.1) = m.ents := by
  cases m with
  | plain m => simp [HRev.tagged, HRev.ents, List.map_map, Function.comp_def]
  | hybrid h D => simp [HRev.tagged, HRev.ents, List.map_map, Function.comp_def]

theorem HRev.vis_tagged (m : HRev) : visOf m.tagged = m.vis := by
  cases m with
  | plain m => simp [HRev.tagged, HRev.vis, visOf, List.filter_map, Function.comp_def]
  | hybrid h D =>
    simp [HRev.tagged, HRev.vis, visOf, visTable, List.filter_map, List.filter_append, Function.comp_def, List.map_map]

theorem mem_visTable {tbl stm : List Xref.Ent} {e : Xref.Ent} (h : e ∈ visTable tbl stm) : e ∈ tbl :=
  (List.mem_filter.mp h).1

theorem HRev.vis_sub (m : HRev) : ∀ e ∈ m.vis, e ∈ m.ents := by
  cases m with
  | plain m => exact fun e he => he
  | hybrid h D =>
    intro e he
    simp only [HRev.vis, HRev.ents, List.mem_append] at he ⊢
    exact he.imp mem_visTable id

/-- the visible entries mention the same numbers -/
theorem HRev.vis_nums (m : HRev) (e : Xref.Ent) (he : e ∈ m.ents) : ∃ e' ∈ m.vis, e'.obj = e.obj := by
  cases m with
  | plain m => exact ⟨e, he, rfl⟩
  | hybrid h D =>
    simp only [HRev.ents, List.mem_append] at he
    rcases he with he | he
    · by_cases hh : hiddenIn (streamEnts h.ssubs) e = true
      · simp only [hiddenIn, Bool.and_eq_true, List.any_eq_true, beq_iff_eq] at hh
        obtain ⟨_, e', he', ho⟩ := hh
        exact ⟨e', by simp [HRev.vis, he'], ho⟩
      · exact ⟨e, by simp [HRev.vis, visTable, he, hh], rfl⟩
    · exact ⟨e, by simp [HRev.vis, he], rfl⟩

theorem HRevOK.noStm {m : HRev} (h : HRevOK m) : ∀ e ∈ m.ents, ∀ a b, e.st ≠ .inStream a b := by
  cases m with
  | plain m => exact MRevOK.noStm h
  | hybrid hs D =>
    intro e he
    simp only [HRev.ents, List.mem_append] at he
    rcases he with he | he
    · exact tableEnts_noStm hs.subs e he
    · exact streamEnts_noStm hs.ssubs (HybOK.noInStm h) e he

theorem HRevOK.nums {m : HRev} (h : HRevOK m) : (m.vis.map (·.obj)).Nodup := by
  cases m with
  | plain m => exact MRevOK.nums h
  | hybrid hs D => exact HybOK.numsNodup h

theorem HRevOK.reads {m : HRev} (h : HRevOK m) : ∀ q ∈ m.body, q.p.Reads := by
  cases m with
  | plain m => exact MRevOK.reads h
  | hybrid hs D =>
    intro q hq
    simp only [HRev.body, HybSeg.body, List.mem_append, List.mem_cons] at hq
    rcases hq with hq | rfl | hq
    · exact HybOK.reads1 h q hq
    · exact hs.xs.piece_reads (HybOK.xsOK h) (HybOK.xsLen h)
    · exact HybOK.reads2 h q hq

theorem HRev.secRel_lt (m : HRev) : m.secRel < m.bytes.length := by
  cases m with
  | plain m => exact m.secRel_lt
  | hybrid h D =>
    have := encTable_pos h.subs
    simp only [HRev.secRel, HRev.bytes, HRev.body, HRev.tail, List.length_append]
    omega

/-- the infos of the visible entries are those of all entries (hidden entries are free) -/
theorem infoOf_append (a b : List Xref.Ent) : infoOf (a ++ b) = infoOf a ++ infoOf b := by
  induction a with
  | nil => rfl
  | cons e t ih => cases hst : e.st <;> simp [infoOf, hst, ih]

theorem infoOf_visTable (tbl stm : List Xref.Ent) : infoOf (visTable tbl stm) = infoOf tbl := by
  induction tbl with
  | nil => rfl
  | cons e t ih =>
    unfold visTable at ih ⊢
    by_cases hh : hiddenIn stm e = true
    · have hf : isFreeEnt e = true := by
        simp only [hiddenIn, Bool.and_eq_true] at hh; exact hh.1
      rw [List.filter_cons_of_neg (by simp [hh]), ih]
      unfold isFreeEnt at hf
      cases hst : e.st with
      | free nx => simp [infoOf, hst]
      | inUse o => simp [hst] at hf
      | inStream a b => simp [hst] at hf
    · rw [List.filter_cons_of_pos (by simp [hh])]
      cases hst : e.st <;> simp [infoOf, hst, ih]

theorem HRev.infoOf_vis (m : HRev) : infoOf m.vis = infoOf m.ents := by
  cases m with
  | plain m => rfl
  | hybrid h D => simp only [HRev.vis, HRev.ents, infoOf_append, infoOf_visTable]

/-! ## the layout -/

def hrevsBytes : List HRev → Bytes
  | [] => []
  | m :: t => m.bytes ++ hrevsBytes t

/-- the revisions with the offset each one starts at -/
def placeH : List HRev → Nat → List (HRev × Nat)
  | [], _ => []
  | m :: t, pos => (m, pos) :: placeH t (pos + m.bytes.length)

/-- offset of the cross-reference section of a placed revision -/
def hsecOfs (q : HRev × Nat) : Nat := q.2 + q.1.secRel

/-- offset of the cross-reference stream object of a placed revision -/
def hxsOfs (q : HRev × Nat) : Nat := q.2 + q.1.xsRel

/-- the objects of a placed revision with their offsets -/
def hobjsOf (q : HRev × Nat) : List (Piece × Nat) := place q.1.body q.2

/-- the section of a placed revision, abstractly -/
def hsecOf (q : HRev × Nat) : MSec := ⟨hsecOfs q, q.1.ents, q.1.root, q.1.prev, q.1.xsKey, q.1.xsVal (hxsOfs q)⟩

theorem placeH_fst : ∀ (rs : List HRev) (pos : Nat), (placeH rs pos).map (·.1) = rs
  | [], _ => rfl
  | r :: t, pos => by simp [placeH, placeH_fst t]

theorem placeH_ge : ∀ (rs : List HRev) (pos : Nat), ∀ q ∈ placeH rs pos, pos ≤ q.2
  | [], _ => by intro q hq; cases hq
  | r :: t, pos => by
    intro q hq
    simp only [placeH, List.mem_cons] at hq
    rcases hq with rfl | hq
    · exact Nat.le_refl _
    · have := placeH_ge t _ q hq
      omega

theorem placeH_sorted : ∀ (rs : List HRev) (pos : Nat), ((placeH rs pos).map hsecOfs).Pairwise (· < ·)
  | [], _ => List.Pairwise.nil
  | r :: t, pos => by
    simp only [placeH, List.map_cons, List.pairwise_cons]
    refine ⟨?_, placeH_sorted t _⟩
    intro o ho
    obtain ⟨q, hq, rfl⟩ := List.mem_map.mp ho
    have h1 := placeH_ge t _ q hq
    have h2 := r.secRel_lt
    simp only [hsecOfs]
    omega

theorem hrevs_all (s : Bytes) : ∀ (rs : List HRev) (pos : Nat) (rest : Bytes), pos ≤ s.length →
    s.drop pos = hrevsBytes rs ++ rest →
    ∀ q ∈ placeH rs pos, q.2 ≤ s.length ∧ ∃ r, s.drop q.2 = bodyBytes q.1.body ++ (q.1.tail ++ r)
  | [], _, _, _, _ => by intro q hq; cases hq
  | m :: t, pos, rest, hpos, hd => by
    intro q hq
    have hd1 : s.drop pos = m.bytes ++ (hrevsBytes t ++ rest) := by
      rw [hd]; simp [hrevsBytes]
    simp only [placeH, List.mem_cons] at hq
    rcases hq with rfl | hq
    · refine ⟨hpos, hrevsBytes t ++ rest, ?_⟩
      rw [hd1]; simp [HRev.bytes]
    · exact hrevs_all s t (pos + m.bytes.length) rest (drop_le hd1 hpos) (drop_next hd1) q hq

/-- **a written revision of any kind reads as its abstract section** -/
theorem hsec_reads (s : Bytes) (q : HRev × Nat) (hok : HRevOK q.1) (hxa : q.1.XRefStmAt q.2) (hle : q.2 ≤ s.length)
    (rest : Bytes) (hd : s.drop q.2 = bodyBytes q.1.body ++ (q.1.tail ++ rest)) : MReads s (hsecOf q) := by
  obtain ⟨m, pos⟩ := q
  cases m with
  | plain m => exact msec_reads s (m, pos) hok hle rest hd
  | hybrid h D =>
    have hok' : HybOK h D := hok
    have hxa' : ObjStm.getUsize D kXRefStm = some (pos + (bodyBytes h.body1).length) := hxa
    have hd0 : s.drop pos = bodyBytes h.body1 ++ (h.xs.bytes ++ (h.xpost ++ (bodyBytes h.body2 ++
        (encTable h.subs ++ (kwTrailer ++ (h.wt ++ (h.ttok ++ (h.gap ++ rest)))))))) := by
      rw [hd]; simp [HRev.body, HRev.tail, HybSeg.body, bodyBytes_append, bodyBytes, WStm.piece]
    have hdX := drop_next hd0
    have hiX := drop_le hd0 hle
    have hdT : s.drop (pos + (bodyBytes h.body).length) =
        encTable h.subs ++ (kwTrailer ++ (h.wt ++ (h.ttok ++ (h.gap ++ rest)))) := by
      have h1 : s.drop (pos + (bodyBytes h.body).length) = (HRev.hybrid h D).tail ++ rest := drop_next hd
      rw [h1]; simp [HRev.tail]
    refine ⟨table_cursor_lt hdT, ?_⟩
    intro defs hs hk
    obtain ⟨fs, extra, hfs, hap⟩ := stored_decodes _ _ _ hok'.stored
    have hap' : Xref.applyFilters (xrefXf h.xs.kvs) fs h.xs.data 0 =
        .ok ((h.ssubs.flatMap fun p => encRows h.v0 h.v1 h.v2 p.2) ++ extra, 0) := hap
    obtain ⟨l, c, hl, hmap⟩ := xrefStreamP_decoded h.xs.kvs h.ssubs h.v0 h.v1 h.v2 hok'.dict fs h.xs.data extra hfs hap'
      hok'.fits hok'.lim
    obtain ⟨j, hstm⟩ := parseXrefStream_written s _ h.xs _ hiX hdX hok'.xsOK hok'.xsLen defs hs (hk _ rfl) l c hl
    obtain ⟨d, hsp, hdd⟩ := hok'.trailer
    have hsec := section_hybrid_from defs s _ h.subs h.wt h.ttok _ d D hdT hok'.subsNe hok'.subsOk hok'.wt hsp hdd
      _ hxa' hok'.noEncrypt hiX _ _ _ _ _ hstm
    rw [hmap] at hsec
    exact ⟨j, hsec⟩

/-- the cross-reference stream object of a hybrid revision is one of its objects -/
theorem hxs_mem_objs (h : HybSeg) (D : List (Bytes × Obj)) (pos : Nat) :
    (h.xs.piece, pos + (bodyBytes h.body1).length) ∈ hobjsOf (HRev.hybrid h D, pos) := by
  simp [hobjsOf, HRev.body, HybSeg.body, bodyBytes_length_place, place]

end Parsley.LoaderE2E
