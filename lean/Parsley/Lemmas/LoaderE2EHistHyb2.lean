/-
  C04 end-to-end: HYBRID sections inside a history.  Part 2: the file and the end-to-end theorem.

  `HybMixFile`       leading garbage, header, ANY number of revisions oldest first, each one classic / stream (`MRev`)
                     or hybrid (`HRev.hybrid`), final `startxref`.  All offsets are computed from the layout.
  `HybMixFile.WF`    its well-formedness: as `MixFile.WF`, plus /XRefStm of every hybrid revision = the offset of its
                     cross-reference stream object; STABLE GENERATIONS and "every number once per section" are asked of
                     the VISIBLE entries only (a hidden object is listed twice in its hybrid section), and `HybOK.noClash`
                     excludes known finding C03-hybrid-hidden-gen0.
  `merge_visible`    under `WF` the merge of all entries and the merge of the visible entries hand the same object infos
                     to the loading stage (`infoOf_dedup_hidden`).
  `load_hybmix`      the end-to-end theorem: per object number the NEWEST section that mentions it decides, where a
                     number listed in both parts of a hybrid section is decided by its STREAM entry.
-/
import Parsley.Lemmas.LoaderE2EHistHyb
namespace Parsley.LoaderE2E
open Parsley Parsley.Prim Parsley.Obj Parsley.Indirect Parsley.Loader Parsley.C02 Parsley.Spelling
open Parsley.XrefSpec Parsley.C13 Parsley.LoaderChain Parsley.LoaderStage
open Parsley.C03 (Item ReadsAt)
open Parsley.C04 (StableGen)

/-! ## hidden and visible entries of a revision -/

theorem HRev.tagged_hidden (m : HRev) (p : Xref.Ent × Bool) (hp : p ∈ m.tagged) (h2 : p.2 = true) :
    ∃ h D, m = .hybrid h D ∧ p.1 ∈ tableEnts h.subs ∧ hiddenIn (streamEnts h.ssubs) p.1 = true := by
  cases m with
  | plain m =>
    simp only [HRev.tagged, List.mem_map] at hp
    obtain ⟨e, _, rfl⟩ := hp
    cases h2
  | hybrid h D =>
    simp only [HRev.tagged, List.mem_append, List.mem_map] at hp
    rcases hp with ⟨e, he, rfl⟩ | ⟨e, _, rfl⟩
    · exact ⟨h, D, rfl, he, h2⟩
    · cases h2

theorem mem_visOf (T : List (Xref.Ent × Bool)) (p : Xref.Ent × Bool) (hp : p ∈ T) (h2 : p.2 = false) : p.1 ∈ visOf T := by
  unfold visOf
  exact List.mem_map.mpr ⟨p, List.mem_filter.mpr ⟨hp, by simp [h2]⟩, rfl⟩

theorem HRev.tagged_vis (m : HRev) (p : Xref.Ent × Bool) (hp : p ∈ m.tagged) (h2 : p.2 = false) : p.1 ∈ m.vis := by
  rw [← m.vis_tagged]
  exact mem_visOf _ p hp h2

theorem hiddenIn_free {stm : List Xref.Ent} {e : Xref.Ent} (h : hiddenIn stm e = true) : isFreeEnt e = true := by
  simp only [hiddenIn, Bool.and_eq_true] at h
  exact h.1

/-- outside the known finding: the stream lists the number of a hidden entry, under another generation -/
theorem noClash_spec {tbl stm : List Xref.Ent} (hc : hiddenClash tbl stm = false) {e : Xref.Ent} (he : e ∈ tbl)
    (hh : hiddenIn stm e = true) :
    (∃ e' ∈ stm, e'.obj = e.obj) ∧ ∀ e' ∈ stm, e'.obj = e.obj → e'.gen ≠ e.gen := by
  constructor
  · simp only [hiddenIn, Bool.and_eq_true, List.any_eq_true, beq_iff_eq] at hh
    exact hh.2
  · intro e' he' ho hg
    have : hiddenClash tbl stm = true := by
      simp only [hiddenClash, List.any_eq_true, Bool.and_eq_true, beq_iff_eq]
      exact ⟨e, he, hh, e', he', ho, hg⟩
    rw [hc] at this
    cases this

theorem HRev.mem_vis_of_inUse (m : HRev) (e : Xref.Ent) (he : e ∈ m.ents) (o : Nat) (hst : e.st = .inUse o) : e ∈ m.vis := by
  cases m with
  | plain m => exact he
  | hybrid h D =>
    simp only [HRev.ents, HRev.vis, List.mem_append] at he ⊢
    rcases he with he | he
    · left
      refine List.mem_filter.mpr ⟨he, ?_⟩
      simp [hiddenIn, isFreeEnt, hst]
    · exact Or.inr he

theorem visOf_append (a b : List (Xref.Ent × Bool)) : visOf (a ++ b) = visOf a ++ visOf b := by
  simp [visOf]

theorem visOf_flatMap {α : Type} (g : α → List (Xref.Ent × Bool)) : ∀ (l : List α),
    visOf (l.flatMap g) = l.flatMap fun a => visOf (g a)
  | [] => rfl
  | a :: t => by
    rw [List.flatMap_cons, visOf_append, visOf_flatMap g t, List.flatMap_cons]

/-! ## the file -/

/-- sections OLDEST first: the first has /Prev = `p`, each next one's /Prev is the offset of the section before -/
def HPrevOK : Option Nat → List (HRev × Nat) → Prop
  | _, [] => True
  | p, q :: t => q.1.prev = p ∧ HPrevOK (some (hsecOfs q)) t

theorem HPrevOK_cons (p : Option Nat) (q : HRev × Nat) (t : List (HRev × Nat)) :
    HPrevOK p (q :: t) ↔ (q.1.prev = p ∧ HPrevOK (some (hsecOfs q)) t) := Iff.rfl

theorem hlinked_reverse_aux : ∀ (l : List (HRev × Nat)) (p : Option Nat) (acc : List MSec),
    HPrevOK p l → MLinked acc → (acc.head?).map (·.c) = p → MLinked ((l.map hsecOf).reverse ++ acc)
  | [], _, acc, _, ha, _ => by simpa using ha
  | q :: t, p, acc, hp, ha, hh => by
    rw [List.map_cons, List.reverse_cons, List.append_assoc]
    have hp' := (HPrevOK_cons p q t).mp hp
    exact hlinked_reverse_aux t (some (hsecOfs q)) (hsecOf q :: acc) hp'.2
      ((MLinked_cons (hsecOf q) acc).mpr ⟨by rw [hh]; exact hp'.1, ha⟩) rfl

/-- a history whose revisions have cross-reference sections of any of the three kinds, as written -/
structure HybMixFile where
  garbage : Bytes            -- anything before the header
  hdrRest : Bytes            -- the header after `%PDF-`
  revs : List HRev           -- the revisions, OLDEST first
  wsx : Bytes                -- after the last `startxref`
  ds : Bytes                 -- the digits of the offset of the newest section
  e : Bytes                  -- white space before `%%EOF`
  trail : Bytes              -- after `%%EOF`

namespace HybMixFile

def hdr (f : HybMixFile) : Bytes := kwPdf ++ f.hdrRest

def mid (f : HybMixFile) : Bytes := hrevsBytes f.revs

/-- the document view: everything from the header on -/
def view (f : HybMixFile) : Bytes :=
  f.hdr ++ (f.mid ++ (kwStartxref ++ (f.wsx ++ (f.ds ++ (f.e ++ (kwEOF ++ f.trail))))))

def bytes (f : HybMixFile) : Bytes := f.garbage ++ f.view

/-- the revisions with their start offsets (relative to the header), oldest first -/
def segs (f : HybMixFile) : List (HRev × Nat) := placeH f.revs f.hdr.length

/-- all sections' entries, NEWEST revision first (the order the loader reads them in) -/
def tables (f : HybMixFile) : List Xref.Ent := f.revs.reverse.flatMap (·.ents)

/-- the VISIBLE entries of all sections, newest revision first -/
def visTables (f : HybMixFile) : List Xref.Ent := f.revs.reverse.flatMap (·.vis)

/-- all entries tagged hidden / visible -/
def taggedAll (f : HybMixFile) : List (Xref.Ent × Bool) := f.revs.reverse.flatMap (·.tagged)

/-- well-formedness of the history for root identifier `root` -/
structure WF (f : HybMixFile) (root : ObjId) : Prop where
  /-- the magic `%PDF-` does not occur before the header -/
  noMagic : ∀ k, k < f.garbage.length → kwPdf.isPrefixOf (f.bytes.drop k) = false
  /-- every revision is lexically well formed (`ClassicOK` / `StmOK` / `HybOK`), its objects read; a hybrid section
      lists every number once among its VISIBLE entries and is outside known finding C03-hybrid-hidden-gen0 -/
  revsOk : ∀ m ∈ f.revs, HRevOK m
  /-- /XRefStm of a hybrid revision is the offset of its cross-reference stream object -/
  xrefStm : ∀ q ∈ f.segs, q.1.XRefStmAt q.2
  /-- revision 0 has no /Prev; /Prev of revision i+1 is the offset of the section of revision i -/
  prevs : HPrevOK none f.segs
  /-- the newest revision names the root, the last `startxref` gives the offset of its section -/
  newest : ∃ q, f.segs.getLast? = some q ∧ q.1.root = some (.ref root.1 root.2) ∧ digitsVal f.ds 0 = hsecOfs q
  /-- STABLE GENERATIONS across the visible entries of all sections (the opposite case is the code's known defect #29) -/
  stableGen : StableGen f.visTables
  /-- the in-use entries of each section are the objects of its revision (the cross-reference stream object of a
      stream / hybrid revision included), each with its number, generation, offset -/
  tableObjs : ∀ q ∈ f.segs, TableOf q.1.ents (hobjsOf q)
  /-- infrastructure objects are not edited: no NEWER section mentions the number of a cross-reference stream object -/
  notEdited : ∀ pre q post, f.segs = pre ++ q :: post → ∀ k, q.1.xsKey = some k →
    ∀ q' ∈ post, ∀ e' ∈ q'.1.ents, e'.obj ≠ k.1
  wsx : WsRun f.wsx
  wsxNe : f.wsx ≠ []
  wsxNoS : (115 : UInt8) ∉ f.wsx
  dsNe : f.ds ≠ []
  dsDig : ∀ y ∈ f.ds, isDigit y = true
  ofsFits : digitsVal f.ds 0 ≤ i64Max
  e : ∀ y ∈ f.e, isWsEol y = true
  /-- no further `%%EOF` after the last one -/
  trail : ∀ k, 0 < k → kwEOF.isPrefixOf ((kwEOF ++ f.trail).drop k) = false

/-- the sections, newest first -/
def msecs (f : HybMixFile) : List MSec := (f.segs.map hsecOf).reverse

/-- the context the walk leaves behind: the cross-reference stream objects of the stream and hybrid revisions -/
def defs0 (f : HybMixFile) : Defs := regAll f.msecs []

theorem revs_eq (f : HybMixFile) : f.revs = f.segs.map (·.1) := (placeH_fst f.revs f.hdr.length).symm

theorem flat_eq {β : Type} (f : HybMixFile) (g : HRev → List β) :
    f.revs.reverse.flatMap g = f.segs.reverse.flatMap fun q => g q.1 := by
  conv => lhs; rw [f.revs_eq]
  rw [← List.map_reverse, List.flatMap_map]

theorem tables_eq (f : HybMixFile) : f.tables = f.segs.reverse.flatMap (·.1.ents) := f.flat_eq _

theorem visTables_eq (f : HybMixFile) : f.visTables = f.segs.reverse.flatMap (·.1.vis) := f.flat_eq _

theorem mem_tables (f : HybMixFile) (e : Xref.Ent) : e ∈ f.tables ↔ ∃ q ∈ f.segs, e ∈ q.1.ents := by
  rw [tables_eq]
  simp only [List.mem_flatMap, List.mem_reverse]

theorem mem_visTables (f : HybMixFile) (e : Xref.Ent) : e ∈ f.visTables ↔ ∃ q ∈ f.segs, e ∈ q.1.vis := by
  rw [visTables_eq]
  simp only [List.mem_flatMap, List.mem_reverse]

theorem tables_tagged (f : HybMixFile) : f.taggedAll.map (·.1) = f.tables := by
  unfold taggedAll tables
  rw [List.map_flatMap]
  congr 1
  funext m
  exact m.ents_tagged

theorem visTables_tagged (f : HybMixFile) : visOf f.taggedAll = f.visTables := by
  unfold taggedAll visTables
  rw [visOf_flatMap]
  congr 1
  funext m
  exact m.vis_tagged

theorem msecEnts_msecs (f : HybMixFile) : msecEnts f.msecs = f.tables := by
  rw [tables_eq]
  unfold msecEnts msecs
  rw [← List.map_reverse, List.flatMap_map]
  rfl

theorem mem_segs_revs (f : HybMixFile) (q : HRev × Nat) (hq : q ∈ f.segs) : q.1 ∈ f.revs := by
  rw [f.revs_eq]
  exact List.mem_map_of_mem hq

/-- the cursors of the layout -/
theorem cursors (f : HybMixFile) : ∀ q ∈ f.segs, q.2 ≤ f.view.length ∧
    ∃ r, f.view.drop q.2 = bodyBytes q.1.body ++ (q.1.tail ++ r) := by
  have h0 : f.hdr.length ≤ f.view.length := by simp [view]
  have hd0 : f.view.drop f.hdr.length = hrevsBytes f.revs ++ (kwStartxref ++ (f.wsx ++ (f.ds ++ (f.e ++ (kwEOF ++ f.trail))))) := by
    unfold view mid
    rw [List.drop_left]
  exact hrevs_all f.view f.revs f.hdr.length _ h0 hd0

theorem reads_all (f : HybMixFile) (root : ObjId) (h : f.WF root) : ∀ q ∈ f.segs, MReads f.view (hsecOf q) := by
  intro q hq
  obtain ⟨hle, r, hd⟩ := f.cursors q hq
  exact hsec_reads f.view q (h.revsOk q.1 (f.mem_segs_revs q hq)) (h.xrefStm q hq) hle r hd

/-- the own entry of a cross-reference stream object (it is in use, hence visible) -/
theorem own_entry (f : HybMixFile) (root : ObjId) (h : f.WF root) (q : HRev × Nat) (hq : q ∈ f.segs) (k : ObjId)
    (hk : q.1.xsKey = some k) :
    ∃ e ∈ q.1.vis, e.obj = k.1 ∧ e.gen = k.2 ∧ e.st = .inUse (hxsOfs q) ∧
      ∃ p ∈ hobjsOf q, p.2 = hxsOfs q ∧ p.1.val p.2 = q.1.xsVal (hxsOfs q) := by
  obtain ⟨m, pos⟩ := q
  cases m with
  | plain m =>
    cases m with
    | classic r D => cases hk
    | stream r =>
      simp only [HRev.xsKey, MRev.xsKey, Option.some.injEq] at hk
      subst hk
      have hmem : (r.xs.piece, pos + (bodyBytes r.body1).length) ∈ hobjsOf (HRev.plain (MRev.stream r), pos) :=
        xs_mem_objs r pos
      obtain ⟨e, he, ho, hg, hst⟩ := (h.tableObjs _ hq).ent_of_obj _ hmem
      exact ⟨e, HRev.mem_vis_of_inUse _ e he _ hst, ho, hg, hst, _, hmem, rfl, rfl⟩
  | hybrid hs D =>
    simp only [HRev.xsKey, Option.some.injEq] at hk
    subst hk
    have hmem := hxs_mem_objs hs D pos
    obtain ⟨e, he, ho, hg, hst⟩ := (h.tableObjs _ hq).ent_of_obj _ hmem
    exact ⟨e, HRev.mem_vis_of_inUse _ e he _ hst, ho, hg, hst, _, hmem, rfl, rfl⟩

/-- the identifiers of the cross-reference stream objects are pairwise distinct -/
theorem keysApart (f : HybMixFile) (root : ObjId) (h : f.WF root) : KeysApart f.msecs := by
  unfold KeysApart msecs
  rw [List.pairwise_reverse, List.pairwise_map]
  apply pairwise_of_decomp _ f.segs []
  intro pre q post hseg q' hq' k hk' hk
  have hseg' : f.segs = pre ++ q :: post := by simpa using hseg
  have hq'm : q' ∈ f.segs := by rw [hseg']; simp [hq']
  have hk1 : q.1.xsKey = some k := hk
  have hk2 : q'.1.xsKey = some k := hk'
  obtain ⟨e, he, ho, _, _, _⟩ := f.own_entry root h q' hq'm k hk2
  exact h.notEdited pre q post hseg' k hk1 q' hq' e (q'.1.vis_sub e he) ho

/-- **`get_xref_info` on a history with hybrid sections**: the first-occurrence merge of all sections' entries, newest
    first; the newest root; the context holds the cross-reference stream objects -/
theorem xrefinfo_hybmix (f : HybMixFile) (root : ObjId) (h : f.WF root) :
    getXrefInfo ⟨Ctx.new 50, false⟩ f.view (digitsVal f.ds 0) =
      (.ok (dedupKey f.tables [], .ref root.1 root.2), ⟨⟨f.defs0, 0, 50, false⟩, false⟩) := by
  obtain ⟨q, hlast, hroot, hsx⟩ := h.newest
  cases hrev : f.msecs with
  | nil =>
    have : f.segs = [] := by
      have := congrArg List.length hrev
      simp only [msecs, List.length_reverse, List.length_map, List.length_nil] at this
      exact List.eq_nil_of_length_eq_zero this
    rw [this] at hlast
    cases hlast
  | cons x older =>
    have hx : x = hsecOf q := by
      have := List.head?_reverse (l := f.segs.map hsecOf)
      rw [List.getLast?_map, hlast] at this
      have h2 : (f.segs.map hsecOf).reverse = x :: older := hrev
      rw [h2] at this
      simpa using this
    have hmem : ∀ y ∈ x :: older, ∃ q' ∈ f.segs, y = hsecOf q' := by
      intro y hy
      rw [← hrev] at hy
      obtain ⟨q', hq', rfl⟩ := List.mem_map.mp (List.mem_reverse.mp hy)
      exact ⟨q', hq', rfl⟩
    have hall : ∀ y ∈ x :: older, MReads f.view y := by
      intro y hy
      obtain ⟨q', hq', rfl⟩ := hmem y hy
      exact f.reads_all root h q' hq'
    have hl : MLinked (x :: older) := by
      rw [← hrev]
      have := hlinked_reverse_aux f.segs none [] h.prevs trivial rfl
      simpa [msecs] using this
    have hnd : ((x :: older).map (·.c)).Nodup := by
      rw [← hrev]
      unfold msecs
      rw [List.map_reverse, List.map_map]
      show List.Pairwise (· ≠ ·) _
      rw [List.pairwise_reverse]
      have hs := placeH_sorted f.revs f.hdr.length
      exact hs.imp (fun h => (Nat.ne_of_lt h).symm)
    have hka : KeysApart (x :: older) := by rw [← hrev]; exact f.keysApart root h
    have hxr : x.root = some (.ref root.1 root.2) := by rw [hx]; exact hroot
    have hres := xrefinfo_msecs f.view x older (.ref root.1 root.2) hall hl hnd hxr hka
    have hxc : x.c = digitsVal f.ds 0 := by rw [hx, hsx]; rfl
    rw [hxc, ← hrev, f.msecEnts_msecs] at hres
    exact hres

/-- **the merge of all entries and the merge of the visible entries load the same objects** -/
theorem merge_visible (f : HybMixFile) (root : ObjId) (h : f.WF root) :
    infoOf (dedupKey f.tables []) = infoOf (dedupKey f.visTables []) := by
  rw [← f.tables_tagged, ← f.visTables_tagged]
  have hmem : ∀ p ∈ f.taggedAll, ∃ m ∈ f.revs, p ∈ m.tagged := by
    intro p hp
    obtain ⟨m, hm, hpm⟩ := List.mem_flatMap.mp hp
    exact ⟨m, List.mem_reverse.mp hm, hpm⟩
  have hvis : ∀ m ∈ f.revs, ∀ e ∈ m.vis, e ∈ f.visTables := by
    intro m hm e he
    exact List.mem_flatMap.mpr ⟨m, List.mem_reverse.mpr hm, he⟩
  apply infoOf_dedup_hidden f.taggedAll [] []
  · intro p hp h2
    obtain ⟨m, _, hpm⟩ := hmem p hp
    obtain ⟨hs, D, _, _, hh⟩ := m.tagged_hidden p hpm h2
    exact hiddenIn_free hh
  · intro p hp h2 v hv hv2 hkey
    obtain ⟨m, hm, hpm⟩ := hmem p hp
    obtain ⟨hs, D, rfl, hpt, hh⟩ := HRev.tagged_hidden _ p hpm h2
    have hok : HybOK hs D := h.revsOk _ hm
    obtain ⟨⟨e', he', ho⟩, hgen⟩ := noClash_spec hok.noClash hpt hh
    obtain ⟨m', hm', hvm⟩ := hmem v hv
    have hv1 : v.1 ∈ f.visTables := hvis m' hm' _ (m'.tagged_vis v hvm hv2)
    have he1 : e' ∈ f.visTables := hvis _ hm e' (by simp [HRev.vis, he'])
    have hk1 : p.1.obj = v.1.obj := congrArg Prod.fst hkey
    have hk2 : p.1.gen = v.1.gen := congrArg Prod.snd hkey
    have := h.stableGen e' he1 v.1 hv1 (by rw [ho, hk1])
    exact hgen e' he' ho (by rw [this, hk2])
  · intro v _ _
    exact Iff.rfl

end HybMixFile

/-! ## the composition -/

/-- the composition up to the loading stage -/
theorem load_hybmix_core (f : HybMixFile) (root : ObjId) (h : f.WF root) (P : ObjStm.Defs → Prop)
    (hstage : ∃ defs, parseObjects f.garbage.length ⟨⟨f.defs0, 0, 50, false⟩, false⟩ (infoOf (dedupKey f.tables [])) f.view
      = .ok defs ∧ P defs) :
    ∃ L : Loaded, parseData f.bytes = .ok L ∧ L.root = root ∧ P L.defs := by
  have hpdf : kwPdf.isPrefixOf f.hdr = true := by
    rw [List.isPrefixOf_iff_prefix]; exact List.prefix_append _ _
  have hscan := parseData_scan f.garbage f.hdr f.mid f.wsx f.ds f.e f.trail h.noMagic hpdf h.wsx h.wsxNe h.wsxNoS
    h.dsNe h.dsDig h.ofsFits h.e h.trail
  have hx := f.xrefinfo_hybmix root h
  have hlt : digitsVal f.ds 0 < f.view.length := by
    obtain ⟨q, hlast, _, hsx⟩ := h.newest
    have hq : q ∈ f.segs := List.mem_of_getLast? hlast
    have := (f.reads_all root h q hq).1
    rw [hsx]
    exact this
  obtain ⟨defs, hpo, hP⟩ := hstage
  refine ⟨⟨defs, root⟩, ?_, rfl, hP⟩
  show parseData (f.garbage ++ f.view) = _
  unfold HybMixFile.view
  rw [hscan]
  unfold loadRest
  have hlt' : digitsVal f.ds 0 < (f.hdr ++ (f.mid ++ (kwStartxref ++ (f.wsx ++ (f.ds ++ (f.e ++ (kwEOF ++ f.trail))))))).length := hlt
  have hx' : getXrefInfo ⟨Ctx.new 50, false⟩ (f.hdr ++ (f.mid ++ (kwStartxref ++ (f.wsx ++ (f.ds ++ (f.e ++ (kwEOF ++ f.trail))))))) (digitsVal f.ds 0) = _ := hx
  have hpo' : parseObjects f.garbage.length ⟨⟨f.defs0, 0, 50, false⟩, false⟩ (infoOf (dedupKey f.tables []))
    (f.hdr ++ (f.mid ++ (kwStartxref ++ (f.wsx ++ (f.ds ++ (f.e ++ (kwEOF ++ f.trail))))))) = _ := hpo
  simp only [hlt', decide_true, Bool.not_true, Bool.false_eq_true, if_false, hx', hpo']

/-- the newest VISIBLE entry for a number: the entry `e` of revision `q`, when no newer revision mentions it -/
theorem HybMixFile.find_visTables (f : HybMixFile) (pre : List (HRev × Nat)) (q : HRev × Nat) (post : List (HRev × Nat))
    (hseg : f.segs = pre ++ q :: post) (hnd : (q.1.vis.map (·.obj)).Nodup)
    (e : Xref.Ent) (he : e ∈ q.1.vis)
    (hno : ∀ q' ∈ post, ∀ e' ∈ q'.1.vis, e'.obj ≠ e.obj) :
    f.visTables.find? (·.obj == e.obj) = some e := by
  have ht : f.visTables = post.reverse.flatMap (·.1.vis) ++ (q.1.vis ++ pre.reverse.flatMap (·.1.vis)) := by
    rw [f.visTables_eq, hseg]
    simp [List.reverse_append, List.flatMap_append]
  rw [ht, List.find?_append, find_none_of _ e.obj (by
    intro e' he'
    obtain ⟨q', hq', hes⟩ := List.mem_flatMap.mp he'
    exact hno q' (List.mem_reverse.mp hq') e' hes), List.find?_append, find_of_mem_nodup _ hnd e he]
  rfl

/-- **`load_hybmix` (C04, end to end, any number of revisions; classic tables, cross-reference streams and HYBRID
    sections in any mix)**: `q.1.vis` are the visible entries of the section of revision `q` - for a hybrid section a
    number listed in both parts (hidden object) is represented by its STREAM entry only. -/
theorem load_hybmix (f : HybMixFile) (root : ObjId) (h : f.WF root) :
    ∃ L : Loaded, parseData f.bytes = .ok L ∧ L.root = root ∧
      (∀ pre q post, f.segs = pre ++ q :: post → ∀ e ∈ q.1.vis,
        (∀ q' ∈ post, ∀ e' ∈ q'.1.vis, e'.obj ≠ e.obj) → Decides (hobjsOf q) L.defs e) ∧
      (∀ n, (∀ q ∈ f.segs, ∀ e ∈ q.1.vis, e.obj ≠ n) → ∀ g, ObjStm.defsGet (n, g) L.defs = none) := by
  refine load_hybmix_core f root h (fun defs =>
    (∀ pre q post, f.segs = pre ++ q :: post → ∀ e ∈ q.1.vis,
      (∀ q' ∈ post, ∀ e' ∈ q'.1.vis, e'.obj ≠ e.obj) → Decides (hobjsOf q) defs e) ∧
    (∀ n, (∀ q ∈ f.segs, ∀ e ∈ q.1.vis, e.obj ≠ n) → ∀ g, ObjStm.defsGet (n, g) defs = none)) ?_
  have hok : ∀ q ∈ f.segs, HRevOK q.1 := fun q hq => h.revsOk q.1 (f.mem_segs_revs q hq)
  -- the context left by the walk
  obtain ⟨hs0, hbound, hfree⟩ := regAll_spec f.msecs [] List.Pairwise.nil (f.keysApart root h)
  have hmsec : ∀ y ∈ f.msecs, ∃ q ∈ f.segs, y = hsecOf q := by
    intro y hy
    obtain ⟨q, hq, rfl⟩ := List.mem_map.mp (List.mem_reverse.mp hy)
    exact ⟨q, hq, rfl⟩
  -- a binding of the context belongs to the cross-reference stream object of some stream / hybrid revision
  have hd0 : ∀ k v0, defsGet k f.defs0 = some v0 → ∃ q ∈ f.segs, q.1.xsKey = some k ∧ v0 = q.1.xsVal (hxsOfs q) := by
    intro k v0 hk
    by_cases hex : ∃ y ∈ f.msecs, y.key = some k
    · obtain ⟨y, hy, hyk⟩ := hex
      obtain ⟨q, hq, rfl⟩ := hmsec y hy
      have := hbound _ hy k hyk
      have h2 : defsGet k f.defs0 = some (hsecOf q).val := this
      rw [hk] at h2
      exact ⟨q, hq, hyk, Option.some.inj h2⟩
    · have := hfree k (fun y hy hyk => hex ⟨y, hy, hyk⟩)
      have h2 : defsGet k f.defs0 = defsGet k [] := this
      rw [hk] at h2
      cases h2
  -- the newest entry of the number of a cross-reference stream object is its own entry
  have hown : ∀ q ∈ f.segs, ∀ k, q.1.xsKey = some k → ∃ e0, f.visTables.find? (·.obj == k.1) = some e0 ∧ e0.gen = k.2 ∧
      e0.st = .inUse (hxsOfs q) ∧ ∃ p ∈ hobjsOf q, p.2 = hxsOfs q ∧ p.1.val p.2 = q.1.xsVal (hxsOfs q) := by
    intro q hq k hk
    obtain ⟨e0, he0, ho, hg, hst, hp⟩ := f.own_entry root h q hq k hk
    obtain ⟨pre, post, hseg⟩ := List.append_of_mem hq
    have hfind := f.find_visTables pre q post hseg (hok q hq).nums e0 he0 (by
      rw [ho]
      intro q' hq' e' he'
      exact h.notEdited pre q post hseg k hk q' hq' e' (q'.1.vis_sub e' he'))
    rw [ho] at hfind
    exact ⟨e0, hfind, hg, hst, hp⟩
  let all : List (Piece × Nat) := f.segs.flatMap hobjsOf
  have hrall : ∀ p ∈ all, p.2 < f.view.length ∧ ReadsAt 0 50 false f.view (itemOf p) := by
    intro p hp
    obtain ⟨q, hq, hpq⟩ := List.mem_flatMap.mp hp
    obtain ⟨hle, r, hd⟩ := f.cursors q hq
    exact reads_body q.1.body f.view q.2 _ hle hd (hok q hq).reads p hpq
  have hobj : ∀ e ∈ f.visTables, ∀ o, e.st = .inUse o → ∃ p ∈ all, p.1.num = e.obj ∧ p.1.gen = e.gen ∧ p.2 = o := by
    intro e he o hst
    obtain ⟨q, hq, heq⟩ := (f.mem_visTables e).mp he
    obtain ⟨p, hp, hp'⟩ := (h.tableObjs q hq).obj_of_ent e (q.1.vis_sub e heq) o hst
    exact ⟨p, List.mem_flatMap.mpr ⟨q, hq, hp⟩, hp'⟩
  have hnostm : ∀ e ∈ f.visTables, ∀ a b, e.st ≠ .inStream a b := by
    intro e he
    obtain ⟨q, hq, heq⟩ := (f.mem_visTables e).mp he
    exact (hok q hq).noStm e (q.1.vis_sub e heq)
  obtain ⟨defs, hpo, hF, hU, hN, hK⟩ := stage_merged_from f.garbage.length false f.view f.defs0 hs0 f.visTables
    (lookupVal all) hnostm h.stableGen (by
      intro e he o hst
      obtain ⟨p, hp, h1, h2, h3, hv⟩ := lookupVal_spec _ e.obj e.gen o (hobj e he o hst)
      have := hrall p hp
      rw [hv, ← h1, ← h2, ← h3]
      exact this)
  rw [← f.merge_visible root h] at hpo
  have hval : ∀ e ∈ f.visTables, ∀ o, e.st = .inUse o → ∀ p ∈ all, p.2 = o → lookupVal all e.obj e.gen o = p.1.val p.2 := by
    intro e he o hst p hp h3
    obtain ⟨p', hp', _, _, h3', hv⟩ := lookupVal_spec _ e.obj e.gen o (hobj e he o hst)
    rw [hv]
    exact readsAt_val_unique (hrall p' hp').2 (hrall p hp).2 (by show p'.2 = p.2; rw [h3, h3'])
  refine ⟨defs, hpo, ?_, ?_⟩
  · intro pre q post hseg e he hno
    have hq : q ∈ f.segs := by rw [hseg]; simp
    have hfind := f.find_visTables pre q post hseg (hok q hq).nums e he hno
    have het : e ∈ f.visTables := (f.mem_visTables e).mpr ⟨q, hq, he⟩
    -- if the context binds a generation of e.obj, then e is the own entry of that cross-reference stream object
    have hbnd : ∀ g v0, defsGet (e.obj, g) f.defs0 = some v0 → g = e.gen ∧ ∃ q0 ∈ f.segs, e.st = .inUse (hxsOfs q0) ∧
        ∃ p0 ∈ hobjsOf q0, p0.2 = hxsOfs q0 ∧ p0.1.val p0.2 = v0 := by
      intro g v0 hg
      obtain ⟨q0, hq0, hk0, hv0⟩ := hd0 _ _ hg
      obtain ⟨e0, hf0, hg0, hst0, p0, hp0, hp0o, hp0v⟩ := hown q0 hq0 _ hk0
      have hee : e0 = e := by
        have : f.visTables.find? (·.obj == e.obj) = some e0 := hf0
        rw [hfind] at this
        exact (Option.some.inj this).symm
      subst hee
      exact ⟨hg0.symm, q0, hq0, hst0, p0, hp0, hp0o, by rw [hp0v, hv0]⟩
    refine ⟨fun o hst => ⟨(h.tableObjs q hq).obj_of_ent e (q.1.vis_sub e he) o hst, ?_, ?_⟩, ?_⟩
    · intro p hp _ _ h3
      have hpall : p ∈ all := List.mem_flatMap.mpr ⟨q, hq, hp⟩
      cases hb : defsGet (e.obj, e.gen) f.defs0 with
      | none =>
        rw [((hU e.obj e o hfind hst).1 hb), hval e het o hst p hpall h3]
      | some v0 =>
        obtain ⟨_, q0, hq0, hst0, p0, hp0, hp0o, hp0v⟩ := hbnd e.gen v0 hb
        rw [hK _ v0 hb, ← hp0v]
        have ho : o = hxsOfs q0 := by
          rw [hst] at hst0
          injection hst0
        have hp0all : p0 ∈ all := List.mem_flatMap.mpr ⟨q0, hq0, hp0⟩
        have hpv : p0.1.val p0.2 = p.1.val p.2 :=
          readsAt_val_unique (hrall p0 hp0all).2 (hrall p hpall).2 (by show p0.2 = p.2; rw [hp0o, h3, ho])
        rw [hpv]
    · intro g hne
      cases hb : defsGet (e.obj, g) f.defs0 with
      | none => exact (hU e.obj e o hfind hst).2 g hne hb
      | some v0 => exact absurd (hbnd g v0 hb).1 hne
    · intro nx hfree g
      cases hb : defsGet (e.obj, g) f.defs0 with
      | none => exact hF e.obj e nx hfind hfree g hb
      | some v0 =>
        obtain ⟨_, q0, _, hst0, _⟩ := hbnd g v0 hb
        rw [hfree] at hst0
        cases hst0
  · intro n hn g
    have hnone : f.visTables.find? (·.obj == n) = none := by
      apply find_none_of
      intro e he
      obtain ⟨q, hq, heq⟩ := (f.mem_visTables e).mp he
      exact hn q hq e heq
    rw [hN n hnone g]
    cases hb : defsGet (n, g) f.defs0 with
    | none => rfl
    | some v0 =>
      obtain ⟨q0, hq0, hk0, _⟩ := hd0 _ _ hb
      obtain ⟨e0, hf0, _⟩ := hown q0 hq0 _ hk0
      have : f.visTables.find? (·.obj == n) = some e0 := hf0
      rw [hnone] at this
      cases this

/-- the same read from the objects: an object whose number no NEWER section mentions is defined with its value (in
    particular every cross-reference stream object, and every hidden object of a hybrid section) -/
theorem load_hybmix_objs (f : HybMixFile) (root : ObjId) (h : f.WF root) :
    ∃ L : Loaded, parseData f.bytes = .ok L ∧ L.root = root ∧
      ∀ pre q post, f.segs = pre ++ q :: post → ∀ p ∈ hobjsOf q,
        (∀ q' ∈ post, ∀ e' ∈ q'.1.ents, e'.obj ≠ p.1.num) →
        ObjStm.defsGet (p.1.num, p.1.gen) L.defs = some (p.1.val p.2).val := by
  obtain ⟨L, hL, hroot, hdec, _⟩ := load_hybmix f root h
  refine ⟨L, hL, hroot, ?_⟩
  intro pre q post hseg p hp hno
  have hq : q ∈ f.segs := by rw [hseg]; simp
  obtain ⟨e, he, ho, hg, hst⟩ := (h.tableObjs q hq).ent_of_obj p hp
  have hev : e ∈ q.1.vis := q.1.mem_vis_of_inUse e he _ hst
  have := ((hdec pre q post hseg e hev (by
    rw [ho]
    intro q' hq' e' he'
    exact hno q' hq' e' (q'.1.vis_sub e' he'))).1 p.2 hst).2.1 p hp ho.symm hg.symm rfl
  rw [ho, hg] at this
  exact this

end Parsley.LoaderE2E
