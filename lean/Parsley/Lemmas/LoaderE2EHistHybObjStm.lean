/-
  C04 end-to-end: HYBRID sections whose /XRefStm stream has rows of type 2 (OBJECT-STREAM MEMBERS: the hidden objects
  of a hybrid file usually live inside object streams) inside a history.  Combination of
    Lemmas/LoaderE2EHistHyb.lean, LoaderE2EHistHyb2.lean   (hybrid sections in a history, rows of type 0 / 1 only) and
    Lemmas/LoaderE2EHistObjStm.lean, LoaderE2EHistObjStm2.lean (object streams in a history of classic / stream sections).
  Part 1: the revision, the file, the walk, the merge.  Part 2 (LoaderE2EHistHybObjStm2.lean): the end-to-end theorem.

  `HybOK2`, `HRevOK2`       lexical well-formedness of a hybrid revision / a revision of any of the three kinds WITHOUT
                            the restriction of the stream rows to type 0 / 1 (`HybOK.noInStm`, `StmOK.noInStm` dropped)
  `hsec_reads2`             a written revision of any kind reads as its abstract section, rows of type 2 included
  `HybMixFile.WFo f root ws`  well-formedness of a history with hybrid sections and the object streams `ws`:
                            `HybMixFile.WF` without the type-0/1 restriction, plus the container conditions of
                            `MixFile.WFo`, all stated on the VISIBLE entries `HRev.vis` of the sections (a row of type 2
                            is never hidden: hidden entries are free table entries), under THE EXCLUSION
                            `memberTouchedLater f.secVis = false`
  `memberTouchedLater_vis`  the exclusion may equally be evaluated on ALL entries (`HRev.ents`): same Boolean
  `xrefinfo_hybmix2`        the /Prev walk
  `merge_visible2`          the merge of all entries and the merge of the visible entries load the same objects
  `load_hybmix_core2`       the composition up to the loading stage
-/
import Parsley.Lemmas.LoaderE2EHistHyb2
import Parsley.Lemmas.LoaderE2EHistObjStm2
namespace Parsley.LoaderE2E
open Parsley Parsley.Prim Parsley.Obj Parsley.Indirect Parsley.Loader Parsley.C02 Parsley.Spelling
open Parsley.XrefSpec Parsley.C13 Parsley.LoaderChain Parsley.LoaderStage Parsley.LoaderObjStm
open Parsley.C03 (Item ReadsAt)
open Parsley.C04 (StableGen)

/-! ## revisions whose cross-reference stream may have rows of type 2 -/

/-- lexical well-formedness of a hybrid revision; the /XRefStm stream may have rows of type 0, 1 AND 2 (`HybOK`
    without `noInStm`) -/
structure HybOK2 (h : HybSeg) (D : List (Bytes × Obj)) : Prop where
  subsNe : h.subs ≠ []
  subsOk : ∀ t ∈ h.subs, subOk t
  wt : WsRun h.wt
  trailer : ∃ d, Spells d (.dict D) h.ttok ∧ d ≤ 51
  noEncrypt : dictGet kEncrypt D = none
  xsOK : h.xs.OK
  xsLen : dictGet keyLength h.xs.kvs = some (.int h.xs.data.length)
  dict : XDictOK h.xs.kvs h.ssubs h.v0 h.v1 h.v2
  stored : LoaderE2E.Stored h.xs.kvs (XrefStreamFile.rowBytes h.ssubs h.v0 h.v1 h.v2) h.xs.data
  fits : ∀ p ∈ h.ssubs, ∀ e ∈ p.2, e.fits h.v0 h.v1 h.v2
  lim : ∀ p ∈ h.ssubs, p.1 + p.2.length ≤ Xref.usizeLim
  /-- every number once among the VISIBLE entries (a hidden object is listed twice: free in the table, real entry -
      now possibly of type 2 - in the stream) -/
  numsNodup : (((HRev.hybrid h D).vis).map (·.obj)).Nodup
  /-- outside known finding C03-hybrid-hidden-gen0: no hidden table entry carries the (number, generation) of a stream
      entry; a row of type 2 has generation 0, so the free table entry of a hidden member has another generation -/
  noClash : hiddenClash (tableEnts h.subs) (streamEnts h.ssubs) = false
  reads1 : ∀ q ∈ h.body1, q.p.Reads
  reads2 : ∀ q ∈ h.body2, q.p.Reads

def HRevOK2 : HRev → Prop
  | .plain m => MRevOK2 m
  | .hybrid h D => HybOK2 h D

theorem HybOK.toOK2 {h : HybSeg} {D : List (Bytes × Obj)} (k : HybOK h D) : HybOK2 h D :=
  ⟨k.subsNe, k.subsOk, k.wt, k.trailer, k.noEncrypt, k.xsOK, k.xsLen, k.dict, k.stored, k.fits, k.lim, k.numsNodup,
    k.noClash, k.reads1, k.reads2⟩

theorem HRevOK.toOK2 {m : HRev} (h : HRevOK m) : HRevOK2 m := by
  cases m with
  | plain m => exact MRevOK.toOK2 h
  | hybrid hs D => exact HybOK.toOK2 h

theorem HRevOK2.nums {m : HRev} (h : HRevOK2 m) : (m.vis.map (·.obj)).Nodup := by
  cases m with
  | plain m => exact MRevOK2.nums h
  | hybrid hs D => exact HybOK2.numsNodup h

theorem HRevOK2.reads {m : HRev} (h : HRevOK2 m) : ∀ q ∈ m.body, q.p.Reads := by
  cases m with
  | plain m => exact MRevOK2.reads h
  | hybrid hs D =>
    intro q hq
    simp only [HRev.body, HybSeg.body, List.mem_append, List.mem_cons] at hq
    rcases hq with hq | rfl | hq
    · exact HybOK2.reads1 h q hq
    · exact hs.xs.piece_reads (HybOK2.xsOK h) (HybOK2.xsLen h)
    · exact HybOK2.reads2 h q hq

/-- a row of type 2 is never hidden -/
theorem HRev.mem_vis_of_inStream (m : HRev) (e : Xref.Ent) (he : e ∈ m.ents) (c i : Nat) (hst : e.st = .inStream c i) :
    e ∈ m.vis := by
  cases m with
  | plain m => exact he
  | hybrid h D =>
    simp only [HRev.ents, HRev.vis, List.mem_append] at he ⊢
    rcases he with he | he
    · left
      refine List.mem_filter.mpr ⟨he, ?_⟩
      simp [hiddenIn, isFreeEnt, hst]
    · exact Or.inr he

/-- an in-stream entry of a section has generation 0 -/
theorem HRev.stm_gen (m : HRev) : ∀ e ∈ m.ents, ∀ a b, e.st = .inStream a b → e.gen = 0 := by
  cases m with
  | plain m => exact m.stm_gen
  | hybrid h D =>
    intro e he a b hst
    simp only [HRev.ents, List.mem_append] at he
    rcases he with he | he
    · exact absurd hst (tableEnts_noStm h.subs e he a b)
    · simp only [streamEnts, List.mem_flatMap] at he
      obtain ⟨p, _, he⟩ := he
      exact numberS_stm_gen p.2 p.1 e he a b hst

/-- **a written revision of any kind reads as its abstract section**, rows of type 2 included -/
theorem hsec_reads2 (s : Bytes) (q : HRev × Nat) (hok : HRevOK2 q.1) (hxa : q.1.XRefStmAt q.2) (hle : q.2 ≤ s.length)
    (rest : Bytes) (hd : s.drop q.2 = bodyBytes q.1.body ++ (q.1.tail ++ rest)) : MReads s (hsecOf q) := by
  obtain ⟨m, pos⟩ := q
  cases m with
  | plain m => exact msec_reads2 s (m, pos) hok hle rest hd
  | hybrid h D =>
    have hok' : HybOK2 h D := hok
    have hxa' : ObjStm.getUsize D kXRefStm = some (pos + (bodyBytes h.body1).length) := hxa
    have hd0 : s.drop pos = bodyBytes h.body1 ++ (h.xs.bytes ++ (h.xpost ++ (bodyBytes h.body2 ++
        (encTable h.subs ++ (kwTrailer ++ (h.wt ++ (h.ttok ++ (h.gap ++ rest)))))))) := by
      rw [hd]; simp [HRev.body, HRev.tail, HybSeg.body, bodyBytes_append, bodyBytes, WStm.piece]
    have hdX := drop_next hd0
    have hiX := drop_le hd0 hle
    have hdT : s.drop (pos + (bodyBytes h.body).length) =
        encTable h.subs ++ (kwTrailer ++ (h.wt ++ (h.ttok ++ (h.gap ++ rest)))) := by
      have h1 : s.drop (pos + (bodyBytes h.body).length) = (HRev.hybrid h D).tail ++ rest := drop_next hd
      rw [h1]; simp [HRev.tail]
    refine ⟨table_cursor_lt hdT, ?_⟩
    intro defs hs hk
    obtain ⟨fs, extra, hfs, hap⟩ := stored_decodes _ _ _ hok'.stored
    have hap' : Xref.applyFilters (xrefXf h.xs.kvs) fs h.xs.data 0 =
        .ok ((h.ssubs.flatMap fun p => encRows h.v0 h.v1 h.v2 p.2) ++ extra, 0) := hap
    obtain ⟨l, c, hl, hmap⟩ := xrefStreamP_decoded h.xs.kvs h.ssubs h.v0 h.v1 h.v2 hok'.dict fs h.xs.data extra hfs hap'
      hok'.fits hok'.lim
    obtain ⟨j, hstm⟩ := parseXrefStream_written s _ h.xs _ hiX hdX hok'.xsOK hok'.xsLen defs hs (hk _ rfl) l c hl
    obtain ⟨d, hsp, hdd⟩ := hok'.trailer
    have hsec := section_hybrid_from defs s _ h.subs h.wt h.ttok _ d D hdT hok'.subsNe hok'.subsOk hok'.wt hsp hdd
      _ hxa' hok'.noEncrypt hiX _ _ _ _ _ hstm
    rw [hmap] at hsec
    exact ⟨j, hsec⟩

/-- an object stream is not a cross-reference stream object (of a stream or a hybrid revision): /Type /ObjStm versus
    /Type /XRef -/
theorem objstm_not_xref_h (m : HRev) (hok : HRevOK2 m) (k : ObjId) (hk : m.xsKey = some k) (c : Nat) (w : WCont)
    (view : Bytes) (hdata : w.Data view) (hv : (m.xsVal c).val = .stream w.kvs w.sc) : False := by
  cases m with
  | plain m => exact objstm_not_xref m hok k hk c w view hdata hv
  | hybrid r D =>
    have hok' : HybOK2 r D := hok
    have h1 : dictGet Xref.kType r.xs.kvs = some (.name Xref.nXRef) := hok'.dict.type
    have h2 : dictGet ObjStm.kType w.kvs = some (.name ObjStm.nObjStm) := hdata.type
    have hv' : Obj.stream r.xs.kvs ⟨c + r.xs.kwOfs + 6 + r.xs.e1.length, r.xs.data.length, r.xs.data⟩ =
        .stream w.kvs w.sc := hv
    have hkv : r.xs.kvs = w.kvs := by
      injection hv' with ha _
    rw [← hkv] at h2
    have h3 : dictGet Xref.kType r.xs.kvs = some (.name ObjStm.nObjStm) := h2
    rw [h1] at h3
    injection h3 with h3
    injection h3 with h3
    revert h3
    decide

/-! ## the exclusion on all entries and on the visible entries -/

theorem guardedNums_append (a b : List Xref.Ent) : guardedNums (a ++ b) = guardedNums a ++ guardedNums b := by
  simp [guardedNums]

theorem guardedNums_nil_of_noStm (E : List Xref.Ent) (h : ∀ e ∈ E, ∀ a b, e.st ≠ .inStream a b) : guardedNums E = [] := by
  unfold guardedNums
  rw [List.flatMap_eq_nil_iff]
  intro e he
  cases hst : e.st with
  | free n => rfl
  | inUse o => rfl
  | inStream a b => exact absurd hst (h e he a b)

/-- the rows of type 2 of a section are among its visible entries: same guarded numbers -/
theorem HRev.guardedNums_vis (m : HRev) : guardedNums m.vis = guardedNums m.ents := by
  cases m with
  | plain m => rfl
  | hybrid h D =>
    simp only [HRev.vis, HRev.ents, guardedNums_append]
    rw [guardedNums_nil_of_noStm _ (tableEnts_noStm h.subs),
      guardedNums_nil_of_noStm _ (fun e he => tableEnts_noStm h.subs e (mem_visTable he))]

/-- the visible entries of a section mention the same numbers as all its entries -/
theorem HRev.mentions_vis (m : HRev) (n : Nat) : mentions m.vis n = mentions m.ents n := by
  unfold mentions
  rw [Bool.eq_iff_iff, List.any_eq_true, List.any_eq_true]
  constructor
  · rintro ⟨e, he, hn⟩
    exact ⟨e, m.vis_sub e he, hn⟩
  · rintro ⟨e, he, hn⟩
    obtain ⟨e', he', ho⟩ := m.vis_nums e he
    refine ⟨e', he', ?_⟩
    rw [beq_iff_eq] at hn ⊢
    rw [ho, hn]

theorem any_mentions_vis (t : List HRev) (n : Nat) :
    (t.map (·.vis)).any (mentions · n) = (t.map (·.ents)).any (mentions · n) := by
  induction t with
  | nil => rfl
  | cons a t ih => simp only [List.map_cons, List.any_cons, ih, a.mentions_vis]

/-- **the exclusion may be evaluated on all entries or on the visible entries alike** -/
theorem memberTouchedLater_vis : ∀ rs : List HRev,
    memberTouchedLater (rs.map (·.vis)) = memberTouchedLater (rs.map (·.ents))
  | [] => rfl
  | m :: t => by
    simp only [List.map_cons, memberTouchedLater, memberTouchedLater_vis t, m.guardedNums_vis, any_mentions_vis]

/-! ## the file -/

namespace HybMixFile

/-- the sections' VISIBLE entry lists, OLDEST first: the argument of `memberTouchedLater` -/
def secVis (f : HybMixFile) : List (List Xref.Ent) := f.revs.map (·.vis)

/-- well-formedness of a history with hybrid sections and the object streams `ws`, for root identifier `root` -/
structure WFo (f : HybMixFile) (root : ObjId) (ws : List WCont) : Prop where
  /-- the magic `%PDF-` does not occur before the header -/
  noMagic : ∀ k, k < f.garbage.length → kwPdf.isPrefixOf (f.bytes.drop k) = false
  /-- every revision is lexically well formed (`ClassicOK` / `StmOK2` / `HybOK2`: rows of type 0, 1 and 2 in plain
      cross-reference streams AND in the /XRefStm streams of hybrid sections), its objects read; a hybrid section lists
      every number once among its VISIBLE entries and is outside known finding C03-hybrid-hidden-gen0 -/
  revsOk : ∀ m ∈ f.revs, HRevOK2 m
  /-- /XRefStm of a hybrid revision is the offset of its cross-reference stream object -/
  xrefStm : ∀ q ∈ f.segs, q.1.XRefStmAt q.2
  /-- revision 0 has no /Prev; /Prev of revision i+1 is the offset of the section of revision i -/
  prevs : HPrevOK none f.segs
  /-- the newest revision names the root, the last `startxref` gives the offset of its section -/
  newest : ∃ q, f.segs.getLast? = some q ∧ q.1.root = some (.ref root.1 root.2) ∧ digitsVal f.ds 0 = hsecOfs q
  /-- STABLE GENERATIONS across the visible entries of all sections (the opposite case is the code's known defect #29);
      an in-stream entry has generation 0 -/
  stableGen : StableGen f.visTables
  /-- the file is smaller than 2^63 bytes -/
  size : f.garbage.length + f.view.length ≤ 2 ^ 63
  /-- the in-use entries of each section are the objects of its revision (cross-reference stream object and object
      streams included), each with its number, generation, offset -/
  tableObjs : ∀ q ∈ f.segs, TableOf2 q.1.ents (hobjsOf q)
  /-- infrastructure objects are not edited: no NEWER section mentions the number of a cross-reference stream object -/
  notEdited : ∀ pre q post, f.segs = pre ++ q :: post → ∀ k, q.1.xsKey = some k →
    ∀ q' ∈ post, ∀ e' ∈ q'.1.ents, e'.obj ≠ k.1
  /-- a row of type 2 `(n, inStream c i)` names one of the object streams; `n` is the number of its `i`-th member -/
  rows : ∀ q ∈ f.segs, ∀ e ∈ q.1.vis, ∀ c i, e.st = .inStream c i →
    ∃ w ∈ ws, w.num = c ∧ ∃ m, w.mems[i]? = some m ∧ m.num = e.obj
  /-- every object stream is an object (generation 0) of some revision whose section has a row of type 2 for EVERY
      member (no orphan members); for a hybrid revision the object stream is listed in use (table or stream part) and
      the rows of type 2 are in the /XRefStm stream -/
  placed : ∀ w ∈ ws, ∃ q ∈ f.segs, (∃ p ∈ hobjsOf q, ContAt w p) ∧
    ∀ m ∈ w.mems, ∃ e ∈ q.1.vis, e.obj = m.num ∧ ∃ i, e.st = .inStream w.num i
  /-- the object streams have pairwise distinct numbers -/
  contsNodup : (ws.map WCont.num).Nodup
  /-- member numbers are pairwise distinct over all object streams -/
  memsNodup : (ws.flatMap fun w => w.mems.map (·.num)).Nodup
  /-- THE EXCLUSION (known finding C04-objstm-member-touched-later): no later section mentions the number of a member
      or of an object stream of an earlier section (`memberTouchedLater_vis`: the same on all entries) -/
  untouched : memberTouchedLater f.secVis = false
  wsx : WsRun f.wsx
  wsxNe : f.wsx ≠ []
  wsxNoS : (115 : UInt8) ∉ f.wsx
  dsNe : f.ds ≠ []
  dsDig : ∀ y ∈ f.ds, isDigit y = true
  ofsFits : digitsVal f.ds 0 ≤ i64Max
  e : ∀ y ∈ f.e, isWsEol y = true
  /-- no further `%%EOF` after the last one -/
  trail : ∀ k, 0 < k → kwEOF.isPrefixOf ((kwEOF ++ f.trail).drop k) = false

theorem secVis_eq (f : HybMixFile) : f.secVis = f.segs.map (·.1.vis) := by
  unfold secVis
  conv => lhs; rw [f.revs_eq]
  rw [List.map_map]
  rfl

theorem secVis_split (f : HybMixFile) (pre : List (HRev × Nat)) (q : HRev × Nat) (post : List (HRev × Nat))
    (hseg : f.segs = pre ++ q :: post) :
    f.secVis = pre.map (·.1.vis) ++ q.1.vis :: post.map (·.1.vis) := by
  rw [f.secVis_eq, hseg]
  simp

/-- the exclusion, on the sections: the number of a member and of its object stream are mentioned by no later section -/
theorem untouched_segs (f : HybMixFile) (hun : memberTouchedLater f.secVis = false)
    (pre : List (HRev × Nat)) (q : HRev × Nat) (post : List (HRev × Nat)) (hseg : f.segs = pre ++ q :: post)
    (e : Xref.Ent) (he : e ∈ q.1.vis) (c i : Nat) (hst : e.st = .inStream c i) :
    ∀ q' ∈ post, ∀ e' ∈ q'.1.vis, e'.obj ≠ e.obj ∧ e'.obj ≠ c := by
  intro q' hq' e' he'
  exact untouched_spec f.secVis hun _ _ _ (f.secVis_split pre q post hseg) e he c i hst q'.1.vis
    (List.mem_map_of_mem hq') e' he'

/-- a history without rows of type 2 (`HybMixFile.WF`) is the special case `ws = []` -/
theorem WF.toWFo {f : HybMixFile} {root : ObjId} (h : f.WF root) (hsize : f.garbage.length + f.view.length ≤ 2 ^ 63) :
    f.WFo root [] where
  noMagic := h.noMagic
  revsOk := fun m hm => (h.revsOk m hm).toOK2
  xrefStm := h.xrefStm
  prevs := h.prevs
  newest := h.newest
  stableGen := h.stableGen
  size := hsize
  tableObjs := fun q hq => (h.tableObjs q hq).toTableOf2 (h.revsOk q.1 (f.mem_segs_revs q hq)).noStm
  notEdited := h.notEdited
  rows := by
    intro q hq e he c i hst
    exact absurd hst ((h.revsOk q.1 (f.mem_segs_revs q hq)).noStm e (q.1.vis_sub e he) c i)
  placed := by intro w hw; cases hw
  contsNodup := List.nodup_nil
  memsNodup := List.nodup_nil
  untouched := by
    have hno : ∀ E ∈ f.secVis, guardedNums E = [] := by
      intro E hE
      obtain ⟨m, hm, rfl⟩ := List.mem_map.mp hE
      exact guardedNums_nil_of_noStm _ (fun e he => (h.revsOk m hm).noStm e (m.vis_sub e he))
    generalize f.secVis = S at hno
    induction S with
    | nil => rfl
    | cons E t ih =>
      simp only [memberTouchedLater, hno E List.mem_cons_self, List.any_nil, Bool.false_or]
      exact ih (fun E' hE' => hno E' (List.mem_cons_of_mem _ hE'))
  wsx := h.wsx
  wsxNe := h.wsxNe
  wsxNoS := h.wsxNoS
  dsNe := h.dsNe
  dsDig := h.dsDig
  ofsFits := h.ofsFits
  e := h.e
  trail := h.trail

theorem reads_all2 (f : HybMixFile) (root : ObjId) (ws : List WCont) (h : f.WFo root ws) :
    ∀ q ∈ f.segs, MReads f.view (hsecOf q) := by
  intro q hq
  obtain ⟨hle, r, hd⟩ := f.cursors q hq
  exact hsec_reads2 f.view q (h.revsOk q.1 (f.mem_segs_revs q hq)) (h.xrefStm q hq) hle r hd

/-- the own entry of a cross-reference stream object (it is in use, hence visible) -/
theorem own_entry2 (f : HybMixFile) (root : ObjId) (ws : List WCont) (h : f.WFo root ws) (q : HRev × Nat)
    (hq : q ∈ f.segs) (k : ObjId) (hk : q.1.xsKey = some k) :
    ∃ e ∈ q.1.vis, e.obj = k.1 ∧ e.gen = k.2 ∧ e.st = .inUse (hxsOfs q) ∧
      ∃ p ∈ hobjsOf q, p.2 = hxsOfs q ∧ p.1.val p.2 = q.1.xsVal (hxsOfs q) := by
  obtain ⟨m, pos⟩ := q
  cases m with
  | plain m =>
    cases m with
    | classic r D => cases hk
    | stream r =>
      simp only [HRev.xsKey, MRev.xsKey, Option.some.injEq] at hk
      subst hk
      have hmem : (r.xs.piece, pos + (bodyBytes r.body1).length) ∈ hobjsOf (HRev.plain (MRev.stream r), pos) :=
        xs_mem_objs r pos
      obtain ⟨e, he, ho, hg, hst⟩ := (h.tableObjs _ hq).ent_of_obj _ hmem
      exact ⟨e, HRev.mem_vis_of_inUse _ e he _ hst, ho, hg, hst, _, hmem, rfl, rfl⟩
  | hybrid hs D =>
    simp only [HRev.xsKey, Option.some.injEq] at hk
    subst hk
    have hmem := hxs_mem_objs hs D pos
    obtain ⟨e, he, ho, hg, hst⟩ := (h.tableObjs _ hq).ent_of_obj _ hmem
    exact ⟨e, HRev.mem_vis_of_inUse _ e he _ hst, ho, hg, hst, _, hmem, rfl, rfl⟩

/-- the identifiers of the cross-reference stream objects are pairwise distinct -/
theorem keysApart2 (f : HybMixFile) (root : ObjId) (ws : List WCont) (h : f.WFo root ws) : KeysApart f.msecs := by
  unfold KeysApart msecs
  rw [List.pairwise_reverse, List.pairwise_map]
  apply pairwise_of_decomp _ f.segs []
  intro pre q post hseg q' hq' k hk' hk
  have hseg' : f.segs = pre ++ q :: post := by simpa using hseg
  have hq'm : q' ∈ f.segs := by rw [hseg']; simp [hq']
  have hk1 : q.1.xsKey = some k := hk
  have hk2 : q'.1.xsKey = some k := hk'
  obtain ⟨e, he, ho, _, _, _⟩ := f.own_entry2 root ws h q' hq'm k hk2
  exact h.notEdited pre q post hseg' k hk1 q' hq' e (q'.1.vis_sub e he) ho

/-- **`get_xref_info` on a history with hybrid sections whose streams may have rows of type 2** -/
theorem xrefinfo_hybmix2 (f : HybMixFile) (root : ObjId) (ws : List WCont) (h : f.WFo root ws) :
    getXrefInfo ⟨Ctx.new 50, false⟩ f.view (digitsVal f.ds 0) =
      (.ok (dedupKey f.tables [], .ref root.1 root.2), ⟨⟨f.defs0, 0, 50, false⟩, false⟩) := by
  obtain ⟨q, hlast, hroot, hsx⟩ := h.newest
  cases hrev : f.msecs with
  | nil =>
    have : f.segs = [] := by
      have := congrArg List.length hrev
      simp only [msecs, List.length_reverse, List.length_map, List.length_nil] at this
      exact List.eq_nil_of_length_eq_zero this
    rw [this] at hlast
    cases hlast
  | cons x older =>
    have hx : x = hsecOf q := by
      have := List.head?_reverse (l := f.segs.map hsecOf)
      rw [List.getLast?_map, hlast] at this
      have h2 : (f.segs.map hsecOf).reverse = x :: older := hrev
      rw [h2] at this
      simpa using this
    have hmem : ∀ y ∈ x :: older, ∃ q' ∈ f.segs, y = hsecOf q' := by
      intro y hy
      rw [← hrev] at hy
      obtain ⟨q', hq', rfl⟩ := List.mem_map.mp (List.mem_reverse.mp hy)
      exact ⟨q', hq', rfl⟩
    have hall : ∀ y ∈ x :: older, MReads f.view y := by
      intro y hy
      obtain ⟨q', hq', rfl⟩ := hmem y hy
      exact f.reads_all2 root ws h q' hq'
    have hl : MLinked (x :: older) := by
      rw [← hrev]
      have := hlinked_reverse_aux f.segs none [] h.prevs trivial rfl
      simpa [msecs] using this
    have hnd : ((x :: older).map (·.c)).Nodup := by
      rw [← hrev]
      unfold msecs
      rw [List.map_reverse, List.map_map]
      show List.Pairwise (· ≠ ·) _
      rw [List.pairwise_reverse]
      have hs := placeH_sorted f.revs f.hdr.length
      exact hs.imp (fun h => (Nat.ne_of_lt h).symm)
    have hka : KeysApart (x :: older) := by rw [← hrev]; exact f.keysApart2 root ws h
    have hxr : x.root = some (.ref root.1 root.2) := by rw [hx]; exact hroot
    have hres := xrefinfo_msecs f.view x older (.ref root.1 root.2) hall hl hnd hxr hka
    have hxc : x.c = digitsVal f.ds 0 := by rw [hx, hsx]; rfl
    rw [hxc, ← hrev, f.msecEnts_msecs] at hres
    exact hres

/-- **the merge of all entries and the merge of the visible entries load the same objects** (rows of type 2 are
    visible; the hidden entries are free table entries) -/
theorem merge_visible2 (f : HybMixFile) (root : ObjId) (ws : List WCont) (h : f.WFo root ws) :
    infoOf (dedupKey f.tables []) = infoOf (dedupKey f.visTables []) := by
  rw [← f.tables_tagged, ← f.visTables_tagged]
  have hmem : ∀ p ∈ f.taggedAll, ∃ m ∈ f.revs, p ∈ m.tagged := by
    intro p hp
    obtain ⟨m, hm, hpm⟩ := List.mem_flatMap.mp hp
    exact ⟨m, List.mem_reverse.mp hm, hpm⟩
  have hvis : ∀ m ∈ f.revs, ∀ e ∈ m.vis, e ∈ f.visTables := by
    intro m hm e he
    exact List.mem_flatMap.mpr ⟨m, List.mem_reverse.mpr hm, he⟩
  apply infoOf_dedup_hidden f.taggedAll [] []
  · intro p hp h2
    obtain ⟨m, _, hpm⟩ := hmem p hp
    obtain ⟨hs, D, _, _, hh⟩ := m.tagged_hidden p hpm h2
    exact hiddenIn_free hh
  · intro p hp h2 v hv hv2 hkey
    obtain ⟨m, hm, hpm⟩ := hmem p hp
    obtain ⟨hs, D, rfl, hpt, hh⟩ := HRev.tagged_hidden _ p hpm h2
    have hok : HybOK2 hs D := h.revsOk _ hm
    obtain ⟨⟨e', he', ho⟩, hgen⟩ := noClash_spec hok.noClash hpt hh
    obtain ⟨m', hm', hvm⟩ := hmem v hv
    have hv1 : v.1 ∈ f.visTables := hvis m' hm' _ (m'.tagged_vis v hvm hv2)
    have he1 : e' ∈ f.visTables := hvis _ hm e' (by simp [HRev.vis, he'])
    have hk1 : p.1.obj = v.1.obj := congrArg Prod.fst hkey
    have hk2 : p.1.gen = v.1.gen := congrArg Prod.snd hkey
    have := h.stableGen e' he1 v.1 hv1 (by rw [ho, hk1])
    exact hgen e' he' ho (by rw [this, hk2])
  · intro v _ _
    exact Iff.rfl

end HybMixFile

/-! ## the composition -/

/-- the composition up to the loading stage -/
theorem load_hybmix_core2 (f : HybMixFile) (root : ObjId) (ws : List WCont) (h : f.WFo root ws) (P : ObjStm.Defs → Prop)
    (hstage : ∃ defs, parseObjects f.garbage.length ⟨⟨f.defs0, 0, 50, false⟩, false⟩ (infoOf (dedupKey f.tables [])) f.view
      = .ok defs ∧ P defs) :
    ∃ L : Loaded, parseData f.bytes = .ok L ∧ L.root = root ∧ P L.defs := by
  have hpdf : kwPdf.isPrefixOf f.hdr = true := by
    rw [List.isPrefixOf_iff_prefix]; exact List.prefix_append _ _
  have hscan := parseData_scan f.garbage f.hdr f.mid f.wsx f.ds f.e f.trail h.noMagic hpdf h.wsx h.wsxNe h.wsxNoS
    h.dsNe h.dsDig h.ofsFits h.e h.trail
  have hx := f.xrefinfo_hybmix2 root ws h
  have hlt : digitsVal f.ds 0 < f.view.length := by
    obtain ⟨q, hlast, _, hsx⟩ := h.newest
    have hq : q ∈ f.segs := List.mem_of_getLast? hlast
    have := (f.reads_all2 root ws h q hq).1
    rw [hsx]
    exact this
  obtain ⟨defs, hpo, hP⟩ := hstage
  refine ⟨⟨defs, root⟩, ?_, rfl, hP⟩
  show parseData (f.garbage ++ f.view) = _
  unfold HybMixFile.view
  rw [hscan]
  unfold loadRest
  have hlt' : digitsVal f.ds 0 < (f.hdr ++ (f.mid ++ (kwStartxref ++ (f.wsx ++ (f.ds ++ (f.e ++ (kwEOF ++ f.trail))))))).length := hlt
  have hx' : getXrefInfo ⟨Ctx.new 50, false⟩ (f.hdr ++ (f.mid ++ (kwStartxref ++ (f.wsx ++ (f.ds ++ (f.e ++ (kwEOF ++ f.trail))))))) (digitsVal f.ds 0) = _ := hx
  have hpo' : parseObjects f.garbage.length ⟨⟨f.defs0, 0, 50, false⟩, false⟩ (infoOf (dedupKey f.tables []))
    (f.hdr ++ (f.mid ++ (kwStartxref ++ (f.wsx ++ (f.ds ++ (f.e ++ (kwEOF ++ f.trail))))))) = _ := hpo
  simp only [hlt', decide_true, Bool.not_true, Bool.false_eq_true, if_false, hx', hpo']

end Parsley.LoaderE2E
