/-
  C04 end-to-end: HYBRID sections whose /XRefStm stream has rows of type 2 (object-stream members) inside a history.
  Part 2: the end-to-end theorem (FULL: members may be named by plain cross-reference streams and by the stream part of
  hybrid sections, in any revision of the history).

  `load_hybmix_objstm`       per object number the NEWEST section that mentions it decides - `Decides` for in-use / free
                             entries (a number listed in both parts of a hybrid section is decided by its STREAM entry),
                             `DecidesStm` for rows of type 2 -, every member of every object stream is bound to the value
                             written in the stream, numbers mentioned by no section are undefined
  `load_hybmix_objstm_objs`  read from the objects written
  Proof: `load_hybmix_core2` (walk + composition), `merge_visible2` (the merged table hands the loading stage the
  object infos of the merge of the VISIBLE entries), `stage_merged_objstm` on `f.visTables`.
-/
import Parsley.Lemmas.LoaderE2EHistHybObjStm
namespace Parsley.LoaderE2E
open Parsley Parsley.Prim Parsley.Obj Parsley.Indirect Parsley.Loader Parsley.C02 Parsley.Spelling
open Parsley.XrefSpec Parsley.C13 Parsley.LoaderChain Parsley.LoaderStage Parsley.LoaderObjStm
open Parsley.C03 (Item ReadsAt)
open Parsley.C04 (StableGen)

/-- **`load_hybmix_objstm` (C04, end to end, any number of revisions; classic tables, cross-reference streams and
    HYBRID sections in any mix; OBJECT STREAMS whose members are named by rows of type 2 of plain cross-reference
    streams or of the /XRefStm streams of hybrid sections, and whose members and containers no later revision
    touches)**: `q.1.vis` are the visible entries of the section of revision `q`. -/
theorem load_hybmix_objstm (f : HybMixFile) (root : ObjId) (ws : List WCont) (h : f.WFo root ws) :
    ∃ L : Loaded, parseData f.bytes = .ok L ∧ L.root = root ∧
      (∀ pre q post, f.segs = pre ++ q :: post → ∀ e ∈ q.1.vis,
        (∀ q' ∈ post, ∀ e' ∈ q'.1.vis, e'.obj ≠ e.obj) → Decides (hobjsOf q) L.defs e ∧ DecidesStm ws L.defs e) ∧
      (∀ w ∈ ws, ∀ m ∈ w.mems, ObjStm.defsGet (m.num, 0) L.defs = some m.v) ∧
      (∀ n, (∀ q ∈ f.segs, ∀ e ∈ q.1.vis, e.obj ≠ n) → ∀ g, ObjStm.defsGet (n, g) L.defs = none) := by
  refine load_hybmix_core2 f root ws h (fun defs =>
    (∀ pre q post, f.segs = pre ++ q :: post → ∀ e ∈ q.1.vis,
      (∀ q' ∈ post, ∀ e' ∈ q'.1.vis, e'.obj ≠ e.obj) → Decides (hobjsOf q) defs e ∧ DecidesStm ws defs e) ∧
    (∀ w ∈ ws, ∀ m ∈ w.mems, ObjStm.defsGet (m.num, 0) defs = some m.v) ∧
    (∀ n, (∀ q ∈ f.segs, ∀ e ∈ q.1.vis, e.obj ≠ n) → ∀ g, ObjStm.defsGet (n, g) defs = none)) ?_
  have hok : ∀ q ∈ f.segs, HRevOK2 q.1 := fun q hq => h.revsOk q.1 (f.mem_segs_revs q hq)
  -- the context left by the walk
  obtain ⟨hs0, hbound, hfree⟩ := regAll_spec f.msecs [] List.Pairwise.nil (f.keysApart2 root ws h)
  have hmsec : ∀ y ∈ f.msecs, ∃ q ∈ f.segs, y = hsecOf q := by
    intro y hy
    obtain ⟨q, hq, rfl⟩ := List.mem_map.mp (List.mem_reverse.mp hy)
    exact ⟨q, hq, rfl⟩
  -- a binding of the context belongs to the cross-reference stream object of some stream / hybrid revision
  have hd0 : ∀ k v0, defsGet k f.defs0 = some v0 → ∃ q ∈ f.segs, q.1.xsKey = some k ∧ v0 = q.1.xsVal (hxsOfs q) := by
    intro k v0 hk
    by_cases hex : ∃ y ∈ f.msecs, y.key = some k
    · obtain ⟨y, hy, hyk⟩ := hex
      obtain ⟨q, hq, rfl⟩ := hmsec y hy
      have := hbound _ hy k hyk
      have h2 : defsGet k f.defs0 = some (hsecOf q).val := this
      rw [hk] at h2
      exact ⟨q, hq, hyk, Option.some.inj h2⟩
    · have := hfree k (fun y hy hyk => hex ⟨y, hy, hyk⟩)
      have h2 : defsGet k f.defs0 = defsGet k [] := this
      rw [hk] at h2
      cases h2
  -- the newest entry of the number of a cross-reference stream object is its own entry
  have hown : ∀ q ∈ f.segs, ∀ k, q.1.xsKey = some k → ∃ e0, f.visTables.find? (·.obj == k.1) = some e0 ∧ e0.gen = k.2 ∧
      e0.st = .inUse (hxsOfs q) ∧ ∃ p ∈ hobjsOf q, p.2 = hxsOfs q ∧ p.1.val p.2 = q.1.xsVal (hxsOfs q) := by
    intro q hq k hk
    obtain ⟨e0, he0, ho, hg, hst, hp⟩ := f.own_entry2 root ws h q hq k hk
    obtain ⟨pre, post, hseg⟩ := List.append_of_mem hq
    have hfind := f.find_visTables pre q post hseg (hok q hq).nums e0 he0 (by
      rw [ho]
      intro q' hq' e' he'
      exact h.notEdited pre q post hseg k hk q' hq' e' (q'.1.vis_sub e' he'))
    rw [ho] at hfind
    exact ⟨e0, hfind, hg, hst, hp⟩
  -- a number bound by the context (under any generation): its newest entry is in use
  have hd0use : ∀ n g v0, defsGet (n, g) f.defs0 = some v0 → ∃ e0 o, f.visTables.find? (·.obj == n) = some e0 ∧
      e0.st = .inUse o := by
    intro n g v0 hb
    obtain ⟨q0, hq0, hk0, _⟩ := hd0 _ _ hb
    obtain ⟨e0, hf0, _, hst0, _⟩ := hown q0 hq0 _ hk0
    exact ⟨e0, _, hf0, hst0⟩
  let all : List (Piece × Nat) := f.segs.flatMap hobjsOf
  have hrall : ∀ p ∈ all, p.2 < f.view.length ∧ ReadsAt 0 50 false f.view (itemOf p) := by
    intro p hp
    obtain ⟨q, hq, hpq⟩ := List.mem_flatMap.mp hp
    obtain ⟨hle, r, hd⟩ := f.cursors q hq
    exact reads_body q.1.body f.view q.2 _ hle hd (hok q hq).reads p hpq
  have hcurs : ∀ q ∈ f.segs, ∀ p ∈ hobjsOf q, p.2 ≤ f.view.length ∧ ∃ post, f.view.drop p.2 = p.1.bytes ++ post := by
    intro q hq p hp
    obtain ⟨hle, r, hd⟩ := f.cursors q hq
    exact body_cursors q.1.body f.view q.2 _ hle hd (hok q hq).reads p hp
  have hobj : ∀ e ∈ f.visTables, ∀ o, e.st = .inUse o → ∃ p ∈ all, p.1.num = e.obj ∧ p.1.gen = e.gen ∧ p.2 = o := by
    intro e he o hst
    obtain ⟨q, hq, heq⟩ := (f.mem_visTables e).mp he
    obtain ⟨p, hp, hp'⟩ := (h.tableObjs q hq).obj_of_ent e (q.1.vis_sub e heq) o hst
    exact ⟨p, List.mem_flatMap.mpr ⟨q, hq, hp⟩, hp'⟩
  have hval : ∀ e ∈ f.visTables, ∀ o, e.st = .inUse o → ∀ p ∈ all, p.2 = o → lookupVal all e.obj e.gen o = p.1.val p.2 := by
    intro e he o hst p hp h3
    obtain ⟨p', hp', _, _, h3', hv⟩ := lookupVal_spec _ e.obj e.gen o (hobj e he o hst)
    rw [hv]
    exact readsAt_val_unique (hrall p' hp').2 (hrall p hp).2 (by show p'.2 = p.2; rw [h3, h3'])
  -- the newest entry of a member's number is its row of type 2
  have hmemE : ∀ w ∈ ws, ∀ m ∈ w.mems, ∃ e i, f.visTables.find? (·.obj == m.num) = some e ∧ e.st = .inStream w.num i := by
    intro w hw m hm
    obtain ⟨q, hq, _, hall⟩ := h.placed w hw
    obtain ⟨e, he, ho, i, hst⟩ := hall m hm
    obtain ⟨pre, post, hseg⟩ := List.append_of_mem hq
    have hfind := f.find_visTables pre q post hseg (hok q hq).nums e he
      (fun q' hq' e' he' => (f.untouched_segs h.untouched pre q post hseg e he _ _ hst q' hq' e' he').1)
    rw [ho] at hfind
    exact ⟨e, i, hfind, hst⟩
  -- the newest entry of an object stream's number is the in-use entry of the stream object
  have hcontE : ∀ w ∈ ws, w.OK f.view ∧ ∃ e o, f.visTables.find? (·.obj == w.num) = some e ∧ e.gen = 0 ∧ e.st = .inUse o ∧
      (lookupVal all w.num 0 o).val = .stream w.kvs w.sc := by
    intro w hw
    obtain ⟨q, hq, ⟨p, hp, o, hpo, hnum, hgen, hkvs, hsc, hdata⟩, hall⟩ := h.placed w hw
    obtain ⟨hle, post0, hdrop⟩ := hcurs q hq p hp
    refine ⟨?_, ?_⟩
    · rw [hpo] at hdrop
      exact WCont.ok_of_wstm f.view p.2 o post0 w hle hdrop hsc hdata
    · obtain ⟨e, he, heo, heg, hest⟩ := (h.tableObjs q hq).ent_of_obj p hp
      have hev : e ∈ q.1.vis := q.1.mem_vis_of_inUse e he _ hest
      have hpn : p.1.num = w.num := by rw [hpo]; exact hnum
      have hpg : p.1.gen = 0 := by rw [hpo]; exact hgen
      -- some member's row names the container: later sections do not mention its number
      cases hms : w.mems with
      | nil => exact absurd hms hdata.ne
      | cons m t =>
        obtain ⟨em, hem, _, i, hstm⟩ := hall m (by rw [hms]; exact List.mem_cons_self)
        obtain ⟨pre, post, hseg⟩ := List.append_of_mem hq
        have hfind := f.find_visTables pre q post hseg (hok q hq).nums e hev (by
          intro q' hq' e' he'
          rw [heo, hpn]
          exact (f.untouched_segs h.untouched pre q post hseg em hem _ _ hstm q' hq' e' he').2)
        rw [heo, hpn] at hfind
        have het : e ∈ f.visTables := (f.mem_visTables e).mpr ⟨q, hq, hev⟩
        have hlv := hval e het p.2 hest p (List.mem_flatMap.mpr ⟨q, hq, hp⟩) rfl
        rw [heo, heg, hpn, hpg] at hlv
        refine ⟨e, p.2, hfind, by rw [heg, hpg], hest, ?_⟩
        rw [hlv, hpo]
        exact WCont.wstm_val p.2 o w hkvs hsc
  obtain ⟨defs, hpo, hF, hU, hM, hS, hN, hK⟩ := stage_merged_objstm f.garbage.length f.view f.defs0 hs0 f.visTables
    (lookupVal all) ws h.size h.stableGen
    (by
      intro e he o hst
      obtain ⟨p, hp, h1, h2, h3, hv⟩ := lookupVal_spec _ e.obj e.gen o (hobj e he o hst)
      have := hrall p hp
      rw [hv, ← h1, ← h2, ← h3]
      exact this)
    (by
      intro n e c i hf hst
      have het : e ∈ f.visTables := List.mem_of_find?_eq_some hf
      obtain ⟨q, hq, heq⟩ := (f.mem_visTables e).mp het
      obtain ⟨w, hw, hwc, _⟩ := h.rows q hq e heq c i hst
      exact ⟨w, hw, hwc⟩)
    (by
      intro w hw
      obtain ⟨hwok, hrest⟩ := hcontE w hw
      refine ⟨hwok, ?_, hrest⟩
      cases hb : defsGet (w.num, 0) f.defs0 with
      | none => rfl
      | some v0 =>
        -- the stream object would be a cross-reference stream object, read at the same offset
        exfalso
        obtain ⟨q0, hq0, hk0, hv0⟩ := hd0 _ _ hb
        obtain ⟨e0, hf0, _, hst0, p0, hp0, hp0o, hp0v⟩ := hown q0 hq0 _ hk0
        obtain ⟨e, o, hf, heg, hst, hv⟩ := hrest
        have hf0' : f.visTables.find? (·.obj == w.num) = some e0 := hf0
        rw [hf] at hf0'
        have hee : e = e0 := Option.some.inj hf0'
        subst hee
        have ho : o = hxsOfs q0 := by
          rw [hst] at hst0
          injection hst0
        have het : e ∈ f.visTables := List.mem_of_find?_eq_some hf
        have hlv := hval e het o hst p0 (List.mem_flatMap.mpr ⟨q0, hq0, hp0⟩) (by rw [hp0o, ho])
        rw [find_obj hf, heg] at hlv
        rw [hlv, hp0v] at hv
        exact objstm_not_xref_h q0.1 (hok q0 hq0) _ hk0 _ w _ hwok.data hv)
    h.contsNodup h.memsNodup
    (by
      intro w hw m hm
      obtain ⟨e, i, hf, hst⟩ := hmemE w hw m hm
      refine ⟨?_, e, i, hf, hst⟩
      cases hb : defsGet (m.num, 0) f.defs0 with
      | none => rfl
      | some v0 =>
        obtain ⟨e0, o, hf0, hst0⟩ := hd0use _ _ _ hb
        rw [hf] at hf0
        cases hf0
        rw [hst] at hst0
        cases hst0)
  rw [← f.merge_visible2 root ws h] at hpo
  refine ⟨defs, hpo, ?_, hM, ?_⟩
  · intro pre q post hseg e he hno
    have hq : q ∈ f.segs := by rw [hseg]; simp
    have hfind := f.find_visTables pre q post hseg (hok q hq).nums e he hno
    have het : e ∈ f.visTables := (f.mem_visTables e).mpr ⟨q, hq, he⟩
    -- if the context binds a generation of e.obj, then e is the own entry of that cross-reference stream object
    have hbnd : ∀ g v0, defsGet (e.obj, g) f.defs0 = some v0 → g = e.gen ∧ ∃ q0 ∈ f.segs, e.st = .inUse (hxsOfs q0) ∧
        ∃ p0 ∈ hobjsOf q0, p0.2 = hxsOfs q0 ∧ p0.1.val p0.2 = v0 := by
      intro g v0 hg
      obtain ⟨q0, hq0, hk0, hv0⟩ := hd0 _ _ hg
      obtain ⟨e0, hf0, hg0, hst0, p0, hp0, hp0o, hp0v⟩ := hown q0 hq0 _ hk0
      have hee : e0 = e := by
        have : f.visTables.find? (·.obj == e.obj) = some e0 := hf0
        rw [hfind] at this
        exact (Option.some.inj this).symm
      subst hee
      exact ⟨hg0.symm, q0, hq0, hst0, p0, hp0, hp0o, by rw [hp0v, hv0]⟩
    refine ⟨⟨fun o hst => ⟨(h.tableObjs q hq).obj_of_ent e (q.1.vis_sub e he) o hst, ?_, ?_⟩, ?_⟩, ?_⟩
    · intro p hp _ _ h3
      have hpall : p ∈ all := List.mem_flatMap.mpr ⟨q, hq, hp⟩
      cases hb : defsGet (e.obj, e.gen) f.defs0 with
      | none =>
        rw [((hU e.obj e o hfind hst).1 hb), hval e het o hst p hpall h3]
      | some v0 =>
        obtain ⟨_, q0, hq0, hst0, p0, hp0, hp0o, hp0v⟩ := hbnd e.gen v0 hb
        rw [hK _ v0 hb, ← hp0v]
        have ho : o = hxsOfs q0 := by
          rw [hst] at hst0
          injection hst0
        have hp0all : p0 ∈ all := List.mem_flatMap.mpr ⟨q0, hq0, hp0⟩
        have hpv : p0.1.val p0.2 = p.1.val p.2 :=
          readsAt_val_unique (hrall p0 hp0all).2 (hrall p hpall).2 (by show p0.2 = p.2; rw [hp0o, h3, ho])
        rw [hpv]
    · intro g hne
      cases hb : defsGet (e.obj, g) f.defs0 with
      | none => exact (hU e.obj e o hfind hst).2 g hne hb
      | some v0 => exact absurd (hbnd g v0 hb).1 hne
    · intro nx hfree g
      cases hb : defsGet (e.obj, g) f.defs0 with
      | none => exact hF e.obj e nx hfind hfree g hb
      | some v0 =>
        obtain ⟨_, q0, _, hst0, _⟩ := hbnd g v0 hb
        rw [hfree] at hst0
        cases hst0
    · intro c i hst
      obtain ⟨w, hw, hwc, m, hmi, hmn⟩ := h.rows q hq e he c i hst
      have hmw : m ∈ w.mems := List.mem_of_getElem? hmi
      refine ⟨w, hw, hwc, m, hmi, hmn, ?_, ?_⟩
      · rw [← hmn]; exact hM w hw m hmw
      · intro g hg
        apply hS e.obj e c i hfind hst g
        · intro w' _ m' _ hk
          exact hg (congrArg Prod.snd hk).symm
        · cases hb : defsGet (e.obj, g) f.defs0 with
          | none => rfl
          | some v0 =>
            obtain ⟨_, _, _, hst0, _⟩ := hbnd g v0 hb
            rw [hst] at hst0
            cases hst0
  · intro n hn g
    have hnone : f.visTables.find? (·.obj == n) = none := by
      apply find_none_of
      intro e he
      obtain ⟨q, hq, heq⟩ := (f.mem_visTables e).mp he
      exact hn q hq e heq
    rw [hN n hnone g]
    cases hb : defsGet (n, g) f.defs0 with
    | none => rfl
    | some v0 =>
      obtain ⟨e0, _, hf0, _⟩ := hd0use _ _ _ hb
      rw [hnone] at hf0
      cases hf0

/-- the same read from the objects: an object whose number no NEWER section mentions is defined with its value (every
    object stream, every cross-reference stream object, every hidden file-level object of a hybrid section), and every
    member of every object stream is defined with the value written in the stream -/
theorem load_hybmix_objstm_objs (f : HybMixFile) (root : ObjId) (ws : List WCont) (h : f.WFo root ws) :
    ∃ L : Loaded, parseData f.bytes = .ok L ∧ L.root = root ∧
      (∀ pre q post, f.segs = pre ++ q :: post → ∀ p ∈ hobjsOf q,
        (∀ q' ∈ post, ∀ e' ∈ q'.1.ents, e'.obj ≠ p.1.num) →
        ObjStm.defsGet (p.1.num, p.1.gen) L.defs = some (p.1.val p.2).val) ∧
      (∀ w ∈ ws, ∀ m ∈ w.mems, ObjStm.defsGet (m.num, 0) L.defs = some m.v) := by
  obtain ⟨L, hL, hroot, hdec, hmem, _⟩ := load_hybmix_objstm f root ws h
  refine ⟨L, hL, hroot, ?_, hmem⟩
  intro pre q post hseg p hp hno
  have hq : q ∈ f.segs := by rw [hseg]; simp
  obtain ⟨e, he, ho, hg, hst⟩ := (h.tableObjs q hq).ent_of_obj p hp
  have hev : e ∈ q.1.vis := q.1.mem_vis_of_inUse e he _ hst
  have := (((hdec pre q post hseg e hev (by
    rw [ho]
    intro q' hq' e' he'
    exact hno q' hq' e' (q'.1.vis_sub e' he'))).1).1 p.2 hst).2.1 p hp ho.symm hg.symm rfl
  rw [ho, hg] at this
  exact this

end Parsley.LoaderE2E
