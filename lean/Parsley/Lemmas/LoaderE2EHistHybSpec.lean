/-
  C04 end-to-end, spec side, histories with hybrid sections: the outcome of `load_hybmix` in the vocabulary of
  Spec/Doc.lean.  `f.saids rt` is what the revisions SAID, oldest first (`saidOf`: the objects written - the
  cross-reference stream object of a stream / hybrid revision included -, the numbers of the free VISIBLE entries of the
  revision's section - the hidden free entry of a hidden object is not a statement "freed" -, a root).
  `load_hybmix_spec`: the loader's final definitions are exactly the bindings of `DocSpec.resolve (f.saids rt)` and the
  root is the one `resolve` reports.
-/
import Parsley.Lemmas.LoaderE2EHistHyb2
import Parsley.Lemmas.LoaderE2EHistSpec
namespace Parsley.LoaderE2E
open Parsley Parsley.Prim Parsley.Obj Parsley.Indirect Parsley.Loader
open Parsley.XrefSpec Parsley.C13 Parsley.LoaderChain Parsley.LoaderStage
open Parsley.DocSpec (forget applyRev insertSorted sortDefs resolve Said)

/-- the visible entries list the same objects -/
theorem TableOf.vis {m : HRev} {objs : List (Piece × Nat)} (h : TableOf m.ents objs) : TableOf m.vis objs := by
  obtain ⟨perm, hperm, htab⟩ := h
  exact ⟨perm, hperm, by rw [m.infoOf_vis]; exact htab⟩

namespace HybMixFile

/-- what a placed revision said; `rt` supplies the root it named (only the newest matters) -/
def saidAt (rt : HRev × Nat → DocSpec.ObjId) (q : HRev × Nat) : Said :=
  saidOf (hobjsOf q) q.1.vis (rt q)

/-- what the revisions said, oldest first -/
def saids (f : HybMixFile) (rt : HRev × Nat → DocSpec.ObjId) : List Said := f.segs.map (saidAt rt)

end HybMixFile

/-- **`load_hybmix_spec`**: the loaded document is `DocSpec.resolve` of what the revisions said -/
theorem load_hybmix_spec (f : HybMixFile) (root : ObjId) (rt : HRev × Nat → ObjId)
    (h : f.WF root) (hrt : ∀ q, f.segs.getLast? = some q → rt q = root) :
    ∃ L : Loaded, parseData f.bytes = .ok L ∧
      (resolve (f.saids rt)).2 = some L.root ∧
      ∀ (k : ObjId) (v : Obj), (k, v) ∈ (resolve (f.saids rt)).1 ↔ ObjStm.defsGet k L.defs = some v := by
  obtain ⟨L, hL, hroot, hdec, hnone⟩ := load_hybmix f root h
  have hok : ∀ q ∈ f.segs, HRevOK q.1 := fun q hq => h.revsOk q.1 (f.mem_segs_revs q hq)
  have hnostm : ∀ q ∈ f.segs, ∀ e ∈ q.1.vis, ∀ a b, e.st ≠ .inStream a b :=
    fun q hq e he => (hok q hq).noStm e (q.1.vis_sub e he)
  have htab : ∀ q ∈ f.segs, TableOf q.1.vis (hobjsOf q) := fun q hq => (h.tableObjs q hq).vis
  refine ⟨L, hL, ?_, ?_⟩
  · -- the root
    obtain ⟨q, hq, _, _⟩ := h.newest
    show ((f.saids rt).getLast?).map (·.root) = some L.root
    unfold HybMixFile.saids
    rw [List.getLast?_map, hq, hroot, ← hrt q hq]
    rfl
  · intro k v
    have hnd : ∀ q ∈ f.segs, ((HybMixFile.saidAt rt q).written.map (·.1.1)).Nodup := by
      intro q hq
      unfold HybMixFile.saidAt
      rw [written_nums]
      exact (htab q hq).nums_nodup (hnostm q hq) (hok q hq).nums
    have hres : (resolve (f.saids rt)).1 = sortDefs ((f.segs.map (HybMixFile.saidAt rt)).foldl applyRev []) := rfl
    rw [hres, mem_sortDefs, mem_foldl_applyRev (HybMixFile.saidAt rt) f.segs hnd [] (k, v)]
    have hB : ∀ q ∈ f.segs, NotMent (HybMixFile.saidAt rt q) (k, v) ↔ ∀ e ∈ q.1.vis, e.obj ≠ k.1 := by
      intro q hq
      exact not_mentioned_iff (htab q hq) (hnostm q hq) (rt q) k.1
    have hA : ∀ q, (k, v) ∈ (HybMixFile.saidAt rt q).written ↔
        ∃ p ∈ hobjsOf q, (p.1.num, p.1.gen) = k ∧ (p.1.val p.2).val = v := by
      intro q
      exact mem_written (hobjsOf q) q.1.vis (rt q) k v
    constructor
    · rintro (⟨hnil, _⟩ | ⟨pre, q, post, hseg, hw, hall⟩)
      · cases hnil
      · have hq : q ∈ f.segs := by rw [hseg]; simp
        obtain ⟨p, hp, hk, hv⟩ := (hA q).mp hw
        obtain ⟨e, he, heo, heg, hst⟩ := (htab q hq).ent_of_obj p hp
        have hk1 : p.1.num = k.1 := congrArg Prod.fst hk
        have D := hdec pre q post hseg e he (by
          intro q' hq' e' he'
          rw [heo, hk1]
          exact (hB q' (by rw [hseg]; simp [hq'])).mp (hall q' hq') e' he')
        rw [← hk, ← hv]
        exact D.obj_bound p hp heo.symm heg.symm hst
    · intro hg
      obtain ⟨n, g⟩ := k
      by_cases hm : ∃ q ∈ f.segs, ∃ e ∈ q.1.vis, e.obj = n
      · obtain ⟨pre, q, post, hseg, ⟨e, he, hen⟩, hall⟩ :=
          exists_last (fun q : HRev × Nat => ∃ e ∈ q.1.vis, e.obj = n) f.segs hm
        subst hen
        have hno : ∀ q' ∈ post, ∀ e' ∈ q'.1.vis, e'.obj ≠ e.obj :=
          fun q' hq' e' he' hee => hall q' hq' ⟨e', he', hee⟩
        obtain ⟨p, hp, hk, hv⟩ := (hdec pre q post hseg e he hno).bound_inv (hnostm q (by rw [hseg]; simp) e he) g v hg
        right
        refine ⟨pre, q, post, hseg, (hA q).mpr ⟨p, hp, hk, hv⟩, ?_⟩
        intro q' hq'
        exact (hB q' (by rw [hseg]; simp [hq'])).mpr (hno q' hq')
      · rw [hnone n (fun q hq e he hen => hm ⟨q, hq, e, he, hen⟩) g] at hg
        cases hg

end Parsley.LoaderE2E
