/-
  C04 end-to-end: `parseData` on a whole history of ANY number of revisions whose cross-reference sections are
  classic tables or cross-reference STREAMS, in any mix.  Generalises Lemmas/LoaderE2EHist.lean.

  `MSec`, `MReads`   an abstract section: cursor, the entries / root / prev it yields, and (for a stream section) the
                     identifier and value `parse_xref_stream` registers.  `MReads s y`: from every sorted context
                     that does not bind that identifier, `parse_xref_section` at the cursor yields exactly this and
                     leaves the context extended by that binding, `encrypted` still false.
  `xrefLoop_msecs`, `xrefinfo_msecs`   the /Prev loop over any list of such sections (distinct cursors, linked by
                     /Prev, registered identifiers pairwise distinct): the first-occurrence merge of all entries,
                     the newest root, and the context `regAll secs []` (`regAll_spec`: sorted; binds exactly the
                     cross-reference stream objects of the stream sections, each to its value).
  `stage_merged_from` the loading stage on a merged table from ANY sorted context (after `LoaderStage.stage_from`).
  `StmSeg`, `MRev`   a stream revision (objects, ONE of them the cross-reference stream object `xs`, then arbitrary
                     bytes) / a revision of either kind; `MixFile` the layout; `MixFile.WF` its well-formedness;
                     `msec_reads` discharges `MReads` for both kinds (`section_classic`, `section_stream` +
                     `xrefStreamP_decoded` + `stored_decodes`).
  `load_mix`         the end-to-end theorem: per object number the NEWEST section that mentions it decides.
-/
import Parsley.Lemmas.LoaderE2EHist
import Parsley.Lemmas.LoaderE2EXrefLoad
namespace Parsley.LoaderE2E
open Parsley Parsley.Prim Parsley.Obj Parsley.Indirect Parsley.Loader Parsley.C02 Parsley.Spelling
open Parsley.XrefSpec Parsley.C13 Parsley.LoaderChain Parsley.LoaderStage
open Parsley.C03 (Item ReadsAt)
open Parsley.C04 (StableGen)

/-! ## abstract sections -/

/-- a cross-reference section as the walk sees it -/
structure MSec where
  c : Nat                      -- where it starts
  ents : List Xref.Ent         -- the entries it yields
  root : Option Obj
  prev : Option Nat
  key : Option ObjId           -- stream section: the identifier of the cross-reference stream object
  val : Located Obj            -- ... and the value registered for it

/-- what reading the section does to the context's definitions -/
def MSec.reg (y : MSec) (defs : Defs) : Defs :=
  match y.key with
  | some k => (defsInsert k y.val defs).2
  | none => defs

/-- the section reads as described from every sorted context that does not bind its identifier yet; the
    `encrypted` flag stays false -/
def MReads (s : Bytes) (y : MSec) : Prop :=
  y.c < s.length ∧ ∀ defs, DefsSorted defs → (∀ k, y.key = some k → defsGet k defs = none) →
    ∃ c1, parseXrefSection ⟨⟨defs, 0, 50, false⟩, false⟩ s y.c =
      (.ok (some (y.ents, y.root, y.prev)), c1, ⟨⟨y.reg defs, 0, 50, false⟩, false⟩)

/-- sections NEWEST first: each /Prev is the cursor of the next (older) one, the last has none -/
def MLinked : List MSec → Prop
  | [] => True
  | x :: t => x.prev = (t.head?).map (·.c) ∧ MLinked t

theorem MLinked_cons (x : MSec) (t : List MSec) : MLinked (x :: t) ↔ (x.prev = (t.head?).map (·.c) ∧ MLinked t) := Iff.rfl

/-- the context after reading the sections in order -/
def regAll : List MSec → Defs → Defs
  | [], d => d
  | y :: t, d => regAll t (y.reg d)

/-- the registered identifiers are pairwise distinct -/
def KeysApart (l : List MSec) : Prop := l.Pairwise fun a b => ∀ k, a.key = some k → b.key ≠ some k

def msecEnts (l : List MSec) : List Xref.Ent := l.flatMap (·.ents)

theorem msecEnts_cons (x : MSec) (l : List MSec) : msecEnts (x :: l) = x.ents ++ msecEnts l := by
  simp [msecEnts]

theorem MSec.reg_sorted (y : MSec) (defs : Defs) (hs : DefsSorted defs) : DefsSorted (y.reg defs) := by
  unfold MSec.reg
  split
  · exact defsInsert_sorted _ _ _ hs
  · exact hs

theorem MSec.reg_get_other (y : MSec) (defs : Defs) (k : ObjId) (h : y.key ≠ some k) :
    defsGet k (y.reg defs) = defsGet k defs := by
  unfold MSec.reg
  split
  · rename_i k' hk'
    exact defsGet_insert_other k' k y.val defs (fun hh => h (by rw [hk', hh]))
  · rfl

theorem MSec.reg_get_same (y : MSec) (defs : Defs) (k : ObjId) (h : y.key = some k) :
    defsGet k (y.reg defs) = some y.val := by
  unfold MSec.reg
  rw [h]
  exact defsGet_insert_same k y.val defs

/-- the context after the walk: sorted; every stream section's identifier bound to its value; nothing else new -/
theorem regAll_spec : ∀ (l : List MSec) (defs : Defs), DefsSorted defs → KeysApart l →
    DefsSorted (regAll l defs) ∧
    (∀ y ∈ l, ∀ k, y.key = some k → defsGet k (regAll l defs) = some y.val) ∧
    (∀ k, (∀ y ∈ l, y.key ≠ some k) → defsGet k (regAll l defs) = defsGet k defs)
  | [], defs, hs, _ => by
    refine ⟨hs, ?_, fun _ _ => rfl⟩
    intro y hy
    cases hy
  | x :: t, defs, hs, hka => by
    obtain ⟨hx, ht⟩ := List.pairwise_cons.mp hka
    obtain ⟨h1, h2, h3⟩ := regAll_spec t (x.reg defs) (x.reg_sorted defs hs) ht
    refine ⟨h1, ?_, ?_⟩
    · intro y hy k hk
      rcases List.mem_cons.mp hy with rfl | hy
      · show defsGet k (regAll t (y.reg defs)) = some y.val
        rw [h3 k (fun z hz => hx z hz k hk), y.reg_get_same defs k hk]
      · exact h2 y hy k hk
    · intro k hk
      show defsGet k (regAll t (x.reg defs)) = defsGet k defs
      rw [h3 k (fun z hz => hk z (List.mem_cons_of_mem _ hz)), x.reg_get_other defs k (hk x List.mem_cons_self)]

/-- **the loop of `get_xref_info` over any number of linked sections of either kind** -/
theorem xrefLoop_msecs (s : Bytes) : ∀ (older : List MSec) (x : MSec) (f : Nat) (defs : Defs) (cs : List Nat)
    (ids : List (Nat × Nat)) (xs : List Xref.Ent) (root : Option Obj) (r : Obj),
    (∀ y ∈ x :: older, MReads s y) → MLinked (x :: older) → ((x :: older).map (·.c)).Nodup →
    (∀ y ∈ x :: older, y.c ∉ cs) → rootOf root x.root = some r →
    DefsSorted defs → KeysApart (x :: older) → (∀ y ∈ x :: older, ∀ k, y.key = some k → defsGet k defs = none) →
    xrefLoop (f + older.length + 1) ⟨⟨defs, 0, 50, false⟩, false⟩ s x.c cs ids xs root =
      (.ok (xs ++ dedupKey (msecEnts (x :: older)) ids, r), ⟨⟨regAll (x :: older) defs, 0, 50, false⟩, false⟩)
  | [], x, f, defs, cs, ids, xs, root, r, hall, hl, _, hcs, hroot, hs, _, hkeys => by
    obtain ⟨hn, hrd⟩ := hall x List.mem_cons_self
    obtain ⟨c1, hsec⟩ := hrd defs hs (hkeys x List.mem_cons_self)
    have hprev : x.prev = none := ((MLinked_cons x []).mp hl).1
    rw [hprev] at hsec
    have hc : ¬ cs.contains x.c = true := by
      rw [List.contains_iff_mem]; exact hcs x List.mem_cons_self
    have hf : f + ([] : List MSec).length + 1 = f + 1 := rfl
    rw [hf, xrefLoop_succ_of ids xs root hc hn, firstInfo_of_section hsec]
    simp only [stepK, hroot]
    rw [addEnts_snd, msecEnts_cons]
    simp [msecEnts, regAll]
  | y :: t, x, f, defs, cs, ids, xs, root, r, hall, hl, hnd, hcs, hroot, hs, hka, hkeys => by
    obtain ⟨hn, hrd⟩ := hall x List.mem_cons_self
    obtain ⟨c1, hsec⟩ := hrd defs hs (hkeys x List.mem_cons_self)
    have hl' := (MLinked_cons x (y :: t)).mp hl
    have hprev : x.prev = some y.c := hl'.1
    rw [hprev] at hsec
    have hc : ¬ cs.contains x.c = true := by
      rw [List.contains_iff_mem]; exact hcs x List.mem_cons_self
    have hnd' : x.c ∉ (y :: t).map (·.c) ∧ ((y :: t).map (·.c)).Nodup := by
      simpa only [List.map_cons, List.nodup_cons] using hnd
    obtain ⟨hkx, hkt⟩ := List.pairwise_cons.mp hka
    have ih := xrefLoop_msecs s t y f (x.reg defs) (x.c :: cs)
      (addEnts x.ents ids xs).1 (addEnts x.ents ids xs).2 (some r) r
      (fun z hz => hall z (List.mem_cons_of_mem _ hz)) hl'.2 hnd'.2
      (by
        intro z hz hm
        rcases List.mem_cons.mp hm with h | h
        · exact hnd'.1 (by rw [← h]; exact List.mem_map_of_mem hz)
        · exact hcs z (List.mem_cons_of_mem _ hz) h)
      rfl (x.reg_sorted defs hs) hkt
      (by
        intro z hz k hk
        rw [x.reg_get_other defs k (fun hxk => hkx z hz k hxk hk)]
        exact hkeys z (List.mem_cons_of_mem _ hz) k hk)
    have hf : f + (y :: t).length + 1 = (f + t.length + 1) + 1 := by
      simp only [List.length_cons]; omega
    rw [hf, xrefLoop_succ_of ids xs root hc hn, firstInfo_of_section hsec]
    simp only [stepK, hroot]
    rw [ih, addEnts_snd, msecEnts_cons x (y :: t), dedupKey_append x.ents (msecEnts (y :: t)) ids xs,
      List.append_assoc]
    rfl

/-- **`get_xref_info` on any number of linked sections of either kind** -/
theorem xrefinfo_msecs (s : Bytes) (x : MSec) (older : List MSec) (r : Obj)
    (hall : ∀ y ∈ x :: older, MReads s y) (hl : MLinked (x :: older)) (hnd : ((x :: older).map (·.c)).Nodup)
    (hroot : x.root = some r) (hka : KeysApart (x :: older)) :
    getXrefInfo ⟨Ctx.new 50, false⟩ s x.c =
      (.ok (dedupKey (msecEnts (x :: older)) [], r), ⟨⟨regAll (x :: older) [], 0, 50, false⟩, false⟩) := by
  have hlen : older.length + 1 ≤ s.length := by
    have := nodup_bounded_length s.length ((x :: older).map (·.c)) hnd (by
      intro c hc
      obtain ⟨y, hy, rfl⟩ := List.mem_map.mp hc
      exact (hall y hy).1)
    simpa using this
  have h := xrefLoop_msecs s older x (s.length - older.length) [] [] [] [] none r hall hl hnd
    (by intro y _ hm; cases hm) (by simp [rootOf, hroot]) List.Pairwise.nil hka (fun _ _ _ _ => rfl)
  unfold getXrefInfo
  have hf : s.length + 1 = s.length - older.length + older.length + 1 := by omega
  have h' : xrefLoop (s.length - older.length + older.length + 1) ⟨Ctx.new 50, false⟩ s x.c [] [] [] none = _ := h
  rw [hf, h']
  simp

/-! ## the loading stage on a merged table from any sorted context -/

/-- **the stage on a merged table, from a context `defs0`** (the cross-reference stream objects registered by the
    walk): entries already bound are skipped and keep their binding -/
theorem stage_merged_from (hofs : Nat) (enc : Bool) (s : Bytes) (defs0 : Defs) (hs0 : DefsSorted defs0)
    (L : List Xref.Ent) (val : Nat → Nat → Nat → Located Obj)
    (hnostm : ∀ e ∈ L, ∀ a b, e.st ≠ .inStream a b)
    (hstable : StableGen L)
    (hread : ∀ e ∈ L, ∀ o, e.st = .inUse o →
      o < s.length ∧ ReadsAt 0 50 false s ⟨e.obj, e.gen, o, val e.obj e.gen o⟩) :
    ∃ defs, parseObjects hofs ⟨⟨defs0, 0, 50, false⟩, enc⟩ (infoOf (dedupKey L [])) s = .ok defs ∧
      (∀ n e nx, L.find? (·.obj == n) = some e → e.st = .free nx →
        ∀ g, defsGet (n, g) defs0 = none → ObjStm.defsGet (n, g) defs = none) ∧
      (∀ n e o, L.find? (·.obj == n) = some e → e.st = .inUse o →
        (defsGet (n, e.gen) defs0 = none → ObjStm.defsGet (n, e.gen) defs = some (val n e.gen o).val) ∧
        ∀ g, g ≠ e.gen → defsGet (n, g) defs0 = none → ObjStm.defsGet (n, g) defs = none) ∧
      (∀ n, L.find? (·.obj == n) = none → ∀ g, ObjStm.defsGet (n, g) defs = (defsGet (n, g) defs0).map (·.val)) ∧
      (∀ k v0, defsGet k defs0 = some v0 → ObjStm.defsGet k defs = some v0.val) := by
  have hfil : ∀ n, (dedupKey L []).filter (·.obj == n) = (L.find? (·.obj == n)).toList :=
    stable_gen_first_per_number L hstable
  have hsub : ∀ e ∈ dedupKey L [], e ∈ L := fun e he => mem_dedupKey_sub L e he
  have hnd : ((itemsOf val (dedupKey L [])).map Item.key).Nodup := itemsOf_nodup val L
  generalize dedupKey L [] = X at hfil hsub hnd
  obtain ⟨defs, hpo, hA, hB, hC⟩ := stage_from hofs enc s defs0 hs0 (itemsOf val X) hnd (by
    intro it hit _
    obtain ⟨e, heX, hst, hitq⟩ := (mem_itemsOf val it X).mp hit
    have := hread e (hsub e heX) it.ofs hst
    rw [hitq]; exact this)
  rw [← infoOf_eq_items val X (fun e he => hnostm e (hsub e he))] at hpo
  refine ⟨defs, hpo, ?_, ?_, ?_, hC⟩
  · intro n e nx hf hfree g hg
    rw [hB (n, g), hg]; · rfl
    intro it hit hk
    have hid : it.id = n := congrArg Prod.fst hk
    obtain ⟨e', hf', hst', _⟩ := items_of_number val X L n (hfil n) it hit hid
    rw [hf] at hf'; cases hf'
    rw [hfree] at hst'; cases hst'
  · intro n e o hf huse
    have hm : e ∈ X.filter (·.obj == n) := by rw [hfil n, hf]; simp
    obtain ⟨heX, hen⟩ := List.mem_filter.mp hm
    have hen : e.obj = n := by simpa using hen
    constructor
    · intro hg
      have hit : (⟨e.obj, e.gen, o, val e.obj e.gen o⟩ : Item) ∈ itemsOf val X :=
        (mem_itemsOf val _ X).mpr ⟨e, heX, huse, rfl⟩
      have := hA _ hit (by rw [hen]; exact hg)
      rw [hen] at this
      exact this
    · intro g hne hg
      rw [hB (n, g), hg]; · rfl
      intro it hit hk
      have hid : it.id = n := congrArg Prod.fst hk
      obtain ⟨e', hf', _, hgen⟩ := items_of_number val X L n (hfil n) it hit hid
      rw [hf] at hf'; cases hf'
      exact hne (by rw [← hgen]; exact (congrArg Prod.snd hk).symm)
  · intro n hf g
    apply hB (n, g)
    intro it hit hk
    have hid : it.id = n := congrArg Prod.fst hk
    obtain ⟨e', hf', _, _⟩ := items_of_number val X L n (hfil n) it hit hid
    rw [hf] at hf'; cases hf'

/-! ## revisions of either kind -/

/-- a revision whose cross-reference section is a cross-reference stream, as written, together with what the stream
    says (`subs`: the /Index subsections with their rows, `w0 w1 w2`: the /W widths; `StmOK` ties them to `xs`) -/
structure StmSeg where
  body1 : List Placed        -- the objects written before the cross-reference stream object
  xs : WStm                  -- the cross-reference stream object
  xpost : Bytes              -- arbitrary bytes after it
  body2 : List Placed        -- objects written after it (usually none)
  gap : Bytes                -- ANYTHING up to the next revision / the final `startxref`
  subs : List (Nat × List SEnt)
  w0 : Nat
  w1 : Nat
  w2 : Nat

/-- all objects of a stream revision in file order, the cross-reference stream object included -/
def StmSeg.body (r : StmSeg) : List Placed := r.body1 ++ ⟨r.xs.piece, r.xpost⟩ :: r.body2

/-- a revision: classic table + trailer (with the value `D` of its trailer dictionary), or cross-reference stream -/
inductive MRev where
  | classic (r : RevSeg) (D : List (Bytes × Obj))
  | stream (r : StmSeg)

namespace MRev

def body : MRev → List Placed
  | .classic r _ => r.body
  | .stream r => r.body

/-- what follows the objects -/
def tail : MRev → Bytes
  | .classic r _ => encTable r.subs ++ (kwTrailer ++ (r.wt ++ (r.ttok ++ r.gap)))
  | .stream r => r.gap

def bytes (m : MRev) : Bytes := bodyBytes m.body ++ m.tail

/-- offset of the cross-reference section relative to the start of the revision -/
def secRel : MRev → Nat
  | .classic r _ => (bodyBytes r.body).length
  | .stream r => (bodyBytes r.body1).length

/-- the entries the section yields -/
def ents : MRev → List Xref.Ent
  | .classic r _ => tableEnts r.subs
  | .stream r => streamEnts r.subs

def prev : MRev → Option Nat
  | .classic _ D => ObjStm.getUsize D kPrev
  | .stream r => ObjStm.getUsize r.xs.kvs kPrev

def root : MRev → Option Obj
  | .classic _ D => dictGet kRoot D
  | .stream r => dictGet kRoot r.xs.kvs

/-- the identifier of the cross-reference stream object, if the revision has one -/
def xsKey : MRev → Option ObjId
  | .classic _ _ => none
  | .stream r => some (r.xs.num, r.xs.gen)

def xsVal : MRev → Nat → Located Obj
  | .classic _ _, _ => ⟨.null, 0, 0⟩
  | .stream r, c => r.xs.val c

end MRev

/-- lexical well-formedness of a stream revision -/
structure StmOK (r : StmSeg) : Prop where
  /-- the cross-reference stream object is legally written, with a direct /Length -/
  xsOK : r.xs.OK
  xsLen : dictGet keyLength r.xs.kvs = some (.int r.xs.data.length)
  /-- /Type /XRef, /Size, /W, /Index -/
  dict : XDictOK r.xs.kvs r.subs r.w0 r.w1 r.w2
  /-- the rows are stored as the dictionary says (plain / Flate / Flate + predictor) -/
  stored : Stored r.xs.kvs (XrefStreamFile.rowBytes r.subs r.w0 r.w1 r.w2) r.xs.data
  fits : ∀ p ∈ r.subs, ∀ e ∈ p.2, e.fits r.w0 r.w1 r.w2
  lim : ∀ p ∈ r.subs, p.1 + p.2.length ≤ Xref.usizeLim
  /-- rows of type 0 and 1 only (object streams in histories: known finding #30) -/
  noInStm : ∀ p ∈ r.subs, ∀ e ∈ p.2, e.typ ≤ 1
  numsNodup : ((streamEnts r.subs).map (·.obj)).Nodup
  reads1 : ∀ q ∈ r.body1, q.p.Reads
  reads2 : ∀ q ∈ r.body2, q.p.Reads

/-- lexical well-formedness of a classic revision; no /Encrypt (a later-read stream section would be rejected) -/
structure ClassicOK (r : RevSeg) (D : List (Bytes × Obj)) : Prop where
  sec : SecOK ⟨0, r.subs, r.wt, r.ttok, D⟩
  noEncrypt : dictGet kEncrypt D = none
  reads : ∀ q ∈ r.body, q.p.Reads

def MRevOK : MRev → Prop
  | .classic r D => ClassicOK r D
  | .stream r => StmOK r

theorem numberS_noStm : ∀ (l : List SEnt) (start : Nat), (∀ e ∈ l, e.typ ≤ 1) →
    ∀ x ∈ numberS start l, ∀ a b, x.st ≠ .inStream a b
  | [], _, _ => by intro x hx; cases hx
  | e :: t, start, h => by
    intro x hx a b
    simp only [numberS, List.mem_cons] at hx
    rcases hx with rfl | hx
    · have := h e List.mem_cons_self
      have h01 : e.typ = 0 ∨ e.typ = 1 := by omega
      rcases h01 with h0 | h1
      · simp [sEnt, h0]
      · simp [sEnt, h1]
    · exact numberS_noStm t (start + 1) (fun e' he' => h e' (List.mem_cons_of_mem _ he')) x hx a b

theorem streamEnts_noStm (subs : List (Nat × List SEnt)) (h : ∀ p ∈ subs, ∀ e ∈ p.2, e.typ ≤ 1) :
    ∀ x ∈ streamEnts subs, ∀ a b, x.st ≠ .inStream a b := by
  intro x hx
  simp only [streamEnts, List.mem_flatMap] at hx
  obtain ⟨p, hp, hx⟩ := hx
  exact numberS_noStm p.2 p.1 (h p hp) x hx

theorem MRevOK.noStm {m : MRev} (h : MRevOK m) : ∀ e ∈ m.ents, ∀ a b, e.st ≠ .inStream a b := by
  cases m with
  | classic r D => exact tableEnts_noStm r.subs
  | stream r => exact streamEnts_noStm r.subs (StmOK.noInStm h)

theorem MRevOK.nums {m : MRev} (h : MRevOK m) : (m.ents.map (·.obj)).Nodup := by
  cases m with
  | classic r D => exact (ClassicOK.sec h).numsNodup
  | stream r => exact StmOK.numsNodup h

theorem MRevOK.reads {m : MRev} (h : MRevOK m) : ∀ q ∈ m.body, q.p.Reads := by
  cases m with
  | classic r D => exact ClassicOK.reads h
  | stream r =>
    intro q hq
    simp only [MRev.body, StmSeg.body, List.mem_append, List.mem_cons] at hq
    rcases hq with hq | rfl | hq
    · exact StmOK.reads1 h q hq
    · exact r.xs.piece_reads (StmOK.xsOK h) (StmOK.xsLen h)
    · exact StmOK.reads2 h q hq

theorem MRev.secRel_lt (m : MRev) : m.secRel < m.bytes.length := by
  cases m with
  | classic r D =>
    have := encTable_pos r.subs
    simp only [MRev.secRel, MRev.bytes, MRev.body, MRev.tail, List.length_append]
    omega
  | stream r =>
    have := WStm.bytes_pos r.xs
    simp only [MRev.secRel, MRev.bytes, MRev.body, StmSeg.body, MRev.tail, bodyBytes_append, bodyBytes, WStm.piece,
      List.length_append]
    omega

/-! ## the layout -/

def mrevsBytes : List MRev → Bytes
  | [] => []
  | m :: t => m.bytes ++ mrevsBytes t

/-- the revisions with the offset each one starts at -/
def placeM : List MRev → Nat → List (MRev × Nat)
  | [], _ => []
  | m :: t, pos => (m, pos) :: placeM t (pos + m.bytes.length)

/-- offset of the cross-reference section of a placed revision -/
def secOfs (q : MRev × Nat) : Nat := q.2 + q.1.secRel

/-- the objects of a placed revision with their offsets -/
def mobjsOf (q : MRev × Nat) : List (Piece × Nat) := place q.1.body q.2

/-- the section of a placed revision, abstractly -/
def msecOf (q : MRev × Nat) : MSec := ⟨secOfs q, q.1.ents, q.1.root, q.1.prev, q.1.xsKey, q.1.xsVal (secOfs q)⟩

theorem placeM_fst : ∀ (rs : List MRev) (pos : Nat), (placeM rs pos).map (·.1) = rs
  | [], _ => rfl
  | r :: t, pos => by simp [placeM, placeM_fst t]

theorem placeM_ge : ∀ (rs : List MRev) (pos : Nat), ∀ q ∈ placeM rs pos, pos ≤ q.2
  | [], _ => by intro q hq; cases hq
  | r :: t, pos => by
    intro q hq
    simp only [placeM, List.mem_cons] at hq
    rcases hq with rfl | hq
    · exact Nat.le_refl _
    · have := placeM_ge t _ q hq
      omega

/-- the section offsets are strictly increasing -/
theorem placeM_sorted : ∀ (rs : List MRev) (pos : Nat), ((placeM rs pos).map secOfs).Pairwise (· < ·)
  | [], _ => List.Pairwise.nil
  | r :: t, pos => by
    simp only [placeM, List.map_cons, List.pairwise_cons]
    refine ⟨?_, placeM_sorted t _⟩
    intro o ho
    obtain ⟨q, hq, rfl⟩ := List.mem_map.mp ho
    have h1 := placeM_ge t _ q hq
    have h2 := r.secRel_lt
    simp only [secOfs]
    omega

/-- the cursors of the layout: where each revision starts -/
theorem mrevs_all (s : Bytes) : ∀ (rs : List MRev) (pos : Nat) (rest : Bytes), pos ≤ s.length →
    s.drop pos = mrevsBytes rs ++ rest →
    ∀ q ∈ placeM rs pos, q.2 ≤ s.length ∧ ∃ r, s.drop q.2 = bodyBytes q.1.body ++ (q.1.tail ++ r)
  | [], _, _, _, _ => by intro q hq; cases hq
  | m :: t, pos, rest, hpos, hd => by
    intro q hq
    have hd1 : s.drop pos = m.bytes ++ (mrevsBytes t ++ rest) := by
      rw [hd]; simp [mrevsBytes]
    simp only [placeM, List.mem_cons] at hq
    rcases hq with rfl | hq
    · refine ⟨hpos, mrevsBytes t ++ rest, ?_⟩
      rw [hd1]; simp [MRev.bytes]
    · exact mrevs_all s t (pos + m.bytes.length) rest (drop_le hd1 hpos) (drop_next hd1) q hq

/-- **a written revision of either kind reads as its abstract section** -/
theorem msec_reads (s : Bytes) (q : MRev × Nat) (hok : MRevOK q.1) (hle : q.2 ≤ s.length) (rest : Bytes)
    (hd : s.drop q.2 = bodyBytes q.1.body ++ (q.1.tail ++ rest)) : MReads s (msecOf q) := by
  obtain ⟨m, pos⟩ := q
  cases m with
  | classic r D =>
    have hok' : ClassicOK r D := hok
    have hd0 : s.drop pos = bodyBytes r.body ++ (encTable r.subs ++ (kwTrailer ++ (r.wt ++ (r.ttok ++ (r.gap ++ rest))))) := by
      rw [hd]; simp [MRev.body, MRev.tail]
    have hd1 := drop_next hd0
    refine ⟨table_cursor_lt hd1, ?_⟩
    intro defs _ _
    obtain ⟨d, hsp, hdd⟩ := hok'.sec.trailer
    obtain ⟨c1, hsec⟩ := section_classic defs false false s _ r.subs r.wt r.ttok _ d D hd1 hok'.sec.subsNe hok'.sec.subsOk
      hok'.sec.wt hsp hdd hok'.sec.noXRefStm
    rw [hok'.noEncrypt] at hsec
    exact ⟨c1, hsec⟩
  | stream r =>
    have hok' : StmOK r := hok
    have hd0 : s.drop pos = bodyBytes r.body1 ++ (r.xs.bytes ++ (r.xpost ++ (bodyBytes r.body2 ++ (r.gap ++ rest)))) := by
      rw [hd]; simp [MRev.body, MRev.tail, StmSeg.body, bodyBytes_append, bodyBytes, WStm.piece]
    have hd1 := drop_next hd0
    have hi1 := drop_le hd0 hle
    have hlt : pos + (bodyBytes r.body1).length < s.length := by
      have := drop_le hd1 hi1
      have := WStm.bytes_pos r.xs
      omega
    refine ⟨hlt, ?_⟩
    intro defs hs hk
    obtain ⟨fs, extra, hfs, hap⟩ := stored_decodes _ _ _ hok'.stored
    have hap' : Xref.applyFilters (xrefXf r.xs.kvs) fs r.xs.data 0 =
        .ok ((r.subs.flatMap fun p => encRows r.w0 r.w1 r.w2 p.2) ++ extra, 0) := hap
    obtain ⟨l, c, hl, hmap⟩ := xrefStreamP_decoded r.xs.kvs r.subs r.w0 r.w1 r.w2 hok'.dict fs r.xs.data extra hfs hap'
      hok'.fits hok'.lim
    obtain ⟨j, hsec⟩ := section_stream s _ r.xs _ hi1 hd1 hok'.xsOK hok'.xsLen defs hs (hk _ rfl) l c hl
    rw [hmap] at hsec
    exact ⟨j, hsec⟩

/-- the cross-reference stream object of a stream revision is one of its objects, at the section's offset -/
theorem xs_mem_objs (r : StmSeg) (pos : Nat) :
    (r.xs.piece, pos + (bodyBytes r.body1).length) ∈ mobjsOf (MRev.stream r, pos) := by
  simp [mobjsOf, MRev.body, StmSeg.body, bodyBytes_length_place, place]

/-! ## the file -/

/-- sections OLDEST first: the first has /Prev = `p`, each next one's /Prev is the offset of the section before -/
def MPrevOK : Option Nat → List (MRev × Nat) → Prop
  | _, [] => True
  | p, q :: t => q.1.prev = p ∧ MPrevOK (some (secOfs q)) t

theorem MPrevOK_cons (p : Option Nat) (q : MRev × Nat) (t : List (MRev × Nat)) :
    MPrevOK p (q :: t) ↔ (q.1.prev = p ∧ MPrevOK (some (secOfs q)) t) := Iff.rfl

theorem mlinked_reverse_aux : ∀ (l : List (MRev × Nat)) (p : Option Nat) (acc : List MSec),
    MPrevOK p l → MLinked acc → (acc.head?).map (·.c) = p → MLinked ((l.map msecOf).reverse ++ acc)
  | [], _, acc, _, ha, _ => by simpa using ha
  | q :: t, p, acc, hp, ha, hh => by
    rw [List.map_cons, List.reverse_cons, List.append_assoc]
    have hp' := (MPrevOK_cons p q t).mp hp
    exact mlinked_reverse_aux t (some (secOfs q)) (msecOf q :: acc) hp'.2
      ((MLinked_cons (msecOf q) acc).mpr ⟨by rw [hh]; exact hp'.1, ha⟩) rfl

theorem pairwise_of_decomp {α : Type} (R : α → α → Prop) : ∀ (l pre : List α),
    (∀ pre' q post, pre ++ l = pre' ++ q :: post → ∀ q' ∈ post, R q q') → l.Pairwise R
  | [], _, _ => List.Pairwise.nil
  | a :: t, pre, h => by
    rw [List.pairwise_cons]
    refine ⟨fun b hb => h pre a t rfl b hb, pairwise_of_decomp R t (pre ++ [a]) ?_⟩
    intro pre' q post heq
    exact h pre' q post (by rw [← heq]; simp)

/-- a history whose revisions have cross-reference sections of either kind, as written -/
structure MixFile where
  garbage : Bytes            -- anything before the header
  hdrRest : Bytes            -- the header after `%PDF-`
  revs : List MRev           -- the revisions, OLDEST first
  wsx : Bytes                -- after the last `startxref`
  ds : Bytes                 -- the digits of the offset of the newest section
  e : Bytes                  -- white space before `%%EOF`
  trail : Bytes              -- after `%%EOF`

namespace MixFile

def hdr (f : MixFile) : Bytes := kwPdf ++ f.hdrRest

def mid (f : MixFile) : Bytes := mrevsBytes f.revs

/-- the document view: everything from the header on -/
def view (f : MixFile) : Bytes :=
  f.hdr ++ (f.mid ++ (kwStartxref ++ (f.wsx ++ (f.ds ++ (f.e ++ (kwEOF ++ f.trail))))))

def bytes (f : MixFile) : Bytes := f.garbage ++ f.view

/-- the revisions with their start offsets (relative to the header), oldest first -/
def segs (f : MixFile) : List (MRev × Nat) := placeM f.revs f.hdr.length

/-- all sections' entries, NEWEST revision first (the order the loader reads them in) -/
def tables (f : MixFile) : List Xref.Ent := f.revs.reverse.flatMap (·.ents)

/-- well-formedness of the mixed history for root identifier `root` -/
structure WF (f : MixFile) (root : ObjId) : Prop where
  /-- the magic `%PDF-` does not occur before the header -/
  noMagic : ∀ k, k < f.garbage.length → kwPdf.isPrefixOf (f.bytes.drop k) = false
  /-- every revision is lexically well formed (`ClassicOK` / `StmOK`), its objects read -/
  revsOk : ∀ m ∈ f.revs, MRevOK m
  /-- revision 0 has no /Prev; /Prev of revision i+1 is the offset of the section of revision i -/
  prevs : MPrevOK none f.segs
  /-- the newest revision names the root, the last `startxref` gives the offset of its section -/
  newest : ∃ q, f.segs.getLast? = some q ∧ q.1.root = some (.ref root.1 root.2) ∧ digitsVal f.ds 0 = secOfs q
  /-- STABLE GENERATIONS across all sections (the opposite case is the code's known defect #29) -/
  stableGen : StableGen f.tables
  /-- the in-use entries of each section are the objects of its revision (for a stream revision the
      cross-reference stream object included), each with its number, generation, offset -/
  tableObjs : ∀ q ∈ f.segs, TableOf q.1.ents (mobjsOf q)
  /-- infrastructure objects are not edited: no NEWER section mentions the number of a cross-reference stream object
      (it is already bound when `parse_objects` starts, so a newer entry for it would be ignored) -/
  notEdited : ∀ pre q post, f.segs = pre ++ q :: post → ∀ k, q.1.xsKey = some k →
    ∀ q' ∈ post, ∀ e' ∈ q'.1.ents, e'.obj ≠ k.1
  wsx : WsRun f.wsx
  wsxNe : f.wsx ≠ []
  wsxNoS : (115 : UInt8) ∉ f.wsx
  dsNe : f.ds ≠ []
  dsDig : ∀ y ∈ f.ds, isDigit y = true
  ofsFits : digitsVal f.ds 0 ≤ i64Max
  e : ∀ y ∈ f.e, isWsEol y = true
  /-- no further `%%EOF` after the last one -/
  trail : ∀ k, 0 < k → kwEOF.isPrefixOf ((kwEOF ++ f.trail).drop k) = false

/-- the sections, newest first -/
def msecs (f : MixFile) : List MSec := (f.segs.map msecOf).reverse

/-- the context the walk leaves behind: the cross-reference stream objects of the stream revisions -/
def defs0 (f : MixFile) : Defs := regAll f.msecs []

theorem tables_eq (f : MixFile) : f.tables = f.segs.reverse.flatMap (·.1.ents) := by
  have := placeM_fst f.revs f.hdr.length
  unfold tables segs
  conv => lhs; rw [← this]
  rw [← List.map_reverse, List.flatMap_map]

theorem mem_tables (f : MixFile) (e : Xref.Ent) : e ∈ f.tables ↔ ∃ q ∈ f.segs, e ∈ q.1.ents := by
  rw [tables_eq]
  simp only [List.mem_flatMap, List.mem_reverse]

theorem msecEnts_msecs (f : MixFile) : msecEnts f.msecs = f.tables := by
  rw [tables_eq]
  unfold msecEnts msecs
  rw [← List.map_reverse, List.flatMap_map]
  rfl

theorem mem_segs_revs (f : MixFile) (q : MRev × Nat) (hq : q ∈ f.segs) : q.1 ∈ f.revs := by
  have := placeM_fst f.revs f.hdr.length
  rw [← this]
  exact List.mem_map_of_mem hq

/-- the cursors of the layout -/
theorem cursors (f : MixFile) : ∀ q ∈ f.segs, q.2 ≤ f.view.length ∧
    ∃ r, f.view.drop q.2 = bodyBytes q.1.body ++ (q.1.tail ++ r) := by
  have h0 : f.hdr.length ≤ f.view.length := by simp [view]
  have hd0 : f.view.drop f.hdr.length = mrevsBytes f.revs ++ (kwStartxref ++ (f.wsx ++ (f.ds ++ (f.e ++ (kwEOF ++ f.trail))))) := by
    unfold view mid
    rw [List.drop_left]
  exact mrevs_all f.view f.revs f.hdr.length _ h0 hd0

theorem reads_all (f : MixFile) (root : ObjId) (h : f.WF root) : ∀ q ∈ f.segs, MReads f.view (msecOf q) := by
  intro q hq
  obtain ⟨hle, r, hd⟩ := f.cursors q hq
  exact msec_reads f.view q (h.revsOk q.1 (f.mem_segs_revs q hq)) hle r hd

/-- the own entry of a cross-reference stream object -/
theorem own_entry (f : MixFile) (root : ObjId) (h : f.WF root) (q : MRev × Nat) (hq : q ∈ f.segs) (k : ObjId)
    (hk : q.1.xsKey = some k) :
    ∃ e ∈ q.1.ents, e.obj = k.1 ∧ e.gen = k.2 ∧ e.st = .inUse (secOfs q) ∧
      ∃ p ∈ mobjsOf q, p.2 = secOfs q ∧ p.1.val p.2 = q.1.xsVal (secOfs q) := by
  obtain ⟨m, pos⟩ := q
  cases m with
  | classic r D => cases hk
  | stream r =>
    simp only [MRev.xsKey, Option.some.injEq] at hk
    subst hk
    have hmem := xs_mem_objs r pos
    obtain ⟨e, he, ho, hg, hst⟩ := (h.tableObjs _ hq).ent_of_obj _ hmem
    exact ⟨e, he, ho, hg, hst, _, hmem, rfl, rfl⟩

/-- the identifiers of the cross-reference stream objects are pairwise distinct -/
theorem keysApart (f : MixFile) (root : ObjId) (h : f.WF root) : KeysApart f.msecs := by
  unfold KeysApart msecs
  rw [List.pairwise_reverse, List.pairwise_map]
  apply pairwise_of_decomp _ f.segs []
  intro pre q post hseg q' hq' k hk' hk
  -- q' is newer than q and both carry the identifier k: q' mentions its own number
  have hseg' : f.segs = pre ++ q :: post := by simpa using hseg
  have hq'm : q' ∈ f.segs := by rw [hseg']; simp [hq']
  have hk1 : q.1.xsKey = some k := hk
  have hk2 : q'.1.xsKey = some k := hk'
  obtain ⟨e, he, ho, _, _, _⟩ := f.own_entry root h q' hq'm k hk2
  exact h.notEdited pre q post hseg' k hk1 q' hq' e he ho

/-- **`get_xref_info` on a mixed history**: the first-occurrence merge of all sections' entries, newest first; the
    newest root; the context holds the cross-reference stream objects -/
theorem xrefinfo_mix (f : MixFile) (root : ObjId) (h : f.WF root) :
    getXrefInfo ⟨Ctx.new 50, false⟩ f.view (digitsVal f.ds 0) =
      (.ok (dedupKey f.tables [], .ref root.1 root.2), ⟨⟨f.defs0, 0, 50, false⟩, false⟩) := by
  obtain ⟨q, hlast, hroot, hsx⟩ := h.newest
  cases hrev : f.msecs with
  | nil =>
    have : f.segs = [] := by
      have := congrArg List.length hrev
      simp only [msecs, List.length_reverse, List.length_map, List.length_nil] at this
      exact List.eq_nil_of_length_eq_zero this
    rw [this] at hlast
    cases hlast
  | cons x older =>
    have hx : x = msecOf q := by
      have := List.head?_reverse (l := f.segs.map msecOf)
      rw [List.getLast?_map, hlast] at this
      have h2 : (f.segs.map msecOf).reverse = x :: older := hrev
      rw [h2] at this
      simpa using this
    have hmem : ∀ y ∈ x :: older, ∃ q' ∈ f.segs, y = msecOf q' := by
      intro y hy
      rw [← hrev] at hy
      obtain ⟨q', hq', rfl⟩ := List.mem_map.mp (List.mem_reverse.mp hy)
      exact ⟨q', hq', rfl⟩
    have hall : ∀ y ∈ x :: older, MReads f.view y := by
      intro y hy
      obtain ⟨q', hq', rfl⟩ := hmem y hy
      exact f.reads_all root h q' hq'
    have hl : MLinked (x :: older) := by
      rw [← hrev]
      have := mlinked_reverse_aux f.segs none [] h.prevs trivial rfl
      simpa [msecs] using this
    have hnd : ((x :: older).map (·.c)).Nodup := by
      rw [← hrev]
      unfold msecs
      rw [List.map_reverse, List.map_map]
      show List.Pairwise (· ≠ ·) _
      rw [List.pairwise_reverse]
      have hs := placeM_sorted f.revs f.hdr.length
      exact hs.imp (fun h => (Nat.ne_of_lt h).symm)
    have hka : KeysApart (x :: older) := by rw [← hrev]; exact f.keysApart root h
    have hxr : x.root = some (.ref root.1 root.2) := by rw [hx]; exact hroot
    have hres := xrefinfo_msecs f.view x older (.ref root.1 root.2) hall hl hnd hxr hka
    have hxc : x.c = digitsVal f.ds 0 := by rw [hx, hsx]; rfl
    rw [hxc, ← hrev, f.msecEnts_msecs] at hres
    exact hres

end MixFile

/-! ## the composition -/

/-- the composition up to the loading stage -/
theorem load_mix_core (f : MixFile) (root : ObjId) (h : f.WF root) (P : ObjStm.Defs → Prop)
    (hstage : ∃ defs, parseObjects f.garbage.length ⟨⟨f.defs0, 0, 50, false⟩, false⟩ (infoOf (dedupKey f.tables [])) f.view
      = .ok defs ∧ P defs) :
    ∃ L : Loaded, parseData f.bytes = .ok L ∧ L.root = root ∧ P L.defs := by
  have hpdf : kwPdf.isPrefixOf f.hdr = true := by
    rw [List.isPrefixOf_iff_prefix]; exact List.prefix_append _ _
  have hscan := parseData_scan f.garbage f.hdr f.mid f.wsx f.ds f.e f.trail h.noMagic hpdf h.wsx h.wsxNe h.wsxNoS
    h.dsNe h.dsDig h.ofsFits h.e h.trail
  have hx := f.xrefinfo_mix root h
  have hlt : digitsVal f.ds 0 < f.view.length := by
    obtain ⟨q, hlast, _, hsx⟩ := h.newest
    have hq : q ∈ f.segs := List.mem_of_getLast? hlast
    have := (f.reads_all root h q hq).1
    rw [hsx]
    exact this
  obtain ⟨defs, hpo, hP⟩ := hstage
  refine ⟨⟨defs, root⟩, ?_, rfl, hP⟩
  show parseData (f.garbage ++ f.view) = _
  unfold MixFile.view
  rw [hscan]
  unfold loadRest
  have hlt' : digitsVal f.ds 0 < (f.hdr ++ (f.mid ++ (kwStartxref ++ (f.wsx ++ (f.ds ++ (f.e ++ (kwEOF ++ f.trail))))))).length := hlt
  have hx' : getXrefInfo ⟨Ctx.new 50, false⟩ (f.hdr ++ (f.mid ++ (kwStartxref ++ (f.wsx ++ (f.ds ++ (f.e ++ (kwEOF ++ f.trail))))))) (digitsVal f.ds 0) = _ := hx
  have hpo' : parseObjects f.garbage.length ⟨⟨f.defs0, 0, 50, false⟩, false⟩ (infoOf (dedupKey f.tables []))
    (f.hdr ++ (f.mid ++ (kwStartxref ++ (f.wsx ++ (f.ds ++ (f.e ++ (kwEOF ++ f.trail))))))) = _ := hpo
  simp only [hlt', decide_true, Bool.not_true, Bool.false_eq_true, if_false, hx', hpo']

/-- the newest entry for a number: the entry `e` of revision `q`, when no newer revision (`post`) mentions it -/
theorem MixFile.find_tables (f : MixFile) (pre : List (MRev × Nat)) (q : MRev × Nat) (post : List (MRev × Nat))
    (hseg : f.segs = pre ++ q :: post) (hnd : (q.1.ents.map (·.obj)).Nodup)
    (e : Xref.Ent) (he : e ∈ q.1.ents)
    (hno : ∀ q' ∈ post, ∀ e' ∈ q'.1.ents, e'.obj ≠ e.obj) :
    f.tables.find? (·.obj == e.obj) = some e := by
  have ht : f.tables = post.reverse.flatMap (·.1.ents) ++ (q.1.ents ++ pre.reverse.flatMap (·.1.ents)) := by
    rw [f.tables_eq, hseg]
    simp [List.reverse_append, List.flatMap_append]
  rw [ht, List.find?_append, find_none_of _ e.obj (by
    intro e' he'
    obtain ⟨q', hq', hes⟩ := List.mem_flatMap.mp he'
    exact hno q' (List.mem_reverse.mp hq') e' hes), List.find?_append, find_of_mem_nodup _ hnd e he]
  rfl

/-- **`load_mix` (C04, end to end, any number of revisions, classic tables and cross-reference streams in any mix)** -/
theorem load_mix (f : MixFile) (root : ObjId) (h : f.WF root) :
    ∃ L : Loaded, parseData f.bytes = .ok L ∧ L.root = root ∧
      (∀ pre q post, f.segs = pre ++ q :: post → ∀ e ∈ q.1.ents,
        (∀ q' ∈ post, ∀ e' ∈ q'.1.ents, e'.obj ≠ e.obj) → Decides (mobjsOf q) L.defs e) ∧
      (∀ n, (∀ q ∈ f.segs, ∀ e ∈ q.1.ents, e.obj ≠ n) → ∀ g, ObjStm.defsGet (n, g) L.defs = none) := by
  refine load_mix_core f root h (fun defs =>
    (∀ pre q post, f.segs = pre ++ q :: post → ∀ e ∈ q.1.ents,
      (∀ q' ∈ post, ∀ e' ∈ q'.1.ents, e'.obj ≠ e.obj) → Decides (mobjsOf q) defs e) ∧
    (∀ n, (∀ q ∈ f.segs, ∀ e ∈ q.1.ents, e.obj ≠ n) → ∀ g, ObjStm.defsGet (n, g) defs = none)) ?_
  have hok : ∀ q ∈ f.segs, MRevOK q.1 := fun q hq => h.revsOk q.1 (f.mem_segs_revs q hq)
  -- the context left by the walk
  obtain ⟨hs0, hbound, hfree⟩ := regAll_spec f.msecs [] List.Pairwise.nil (f.keysApart root h)
  have hmsec : ∀ y ∈ f.msecs, ∃ q ∈ f.segs, y = msecOf q := by
    intro y hy
    obtain ⟨q, hq, rfl⟩ := List.mem_map.mp (List.mem_reverse.mp hy)
    exact ⟨q, hq, rfl⟩
  -- a binding of the context belongs to the cross-reference stream object of some stream revision
  have hd0 : ∀ k v0, defsGet k f.defs0 = some v0 → ∃ q ∈ f.segs, q.1.xsKey = some k ∧ v0 = q.1.xsVal (secOfs q) := by
    intro k v0 hk
    by_cases hex : ∃ y ∈ f.msecs, y.key = some k
    · obtain ⟨y, hy, hyk⟩ := hex
      obtain ⟨q, hq, rfl⟩ := hmsec y hy
      have := hbound _ hy k hyk
      have h2 : defsGet k f.defs0 = some (msecOf q).val := this
      rw [hk] at h2
      exact ⟨q, hq, hyk, Option.some.inj h2⟩
    · have := hfree k (fun y hy hyk => hex ⟨y, hy, hyk⟩)
      have h2 : defsGet k f.defs0 = defsGet k [] := this
      rw [hk] at h2
      cases h2
  -- the newest entry of the number of a cross-reference stream object is its own entry
  have hown : ∀ q ∈ f.segs, ∀ k, q.1.xsKey = some k → ∃ e0, f.tables.find? (·.obj == k.1) = some e0 ∧ e0.gen = k.2 ∧
      e0.st = .inUse (secOfs q) ∧ ∃ p ∈ mobjsOf q, p.2 = secOfs q ∧ p.1.val p.2 = q.1.xsVal (secOfs q) := by
    intro q hq k hk
    obtain ⟨e0, he0, ho, hg, hst, hp⟩ := f.own_entry root h q hq k hk
    obtain ⟨pre, post, hseg⟩ := List.append_of_mem hq
    have hfind := f.find_tables pre q post hseg (hok q hq).nums e0 he0 (by
      rw [ho]; exact h.notEdited pre q post hseg k hk)
    rw [ho] at hfind
    exact ⟨e0, hfind, hg, hst, hp⟩
  let all : List (Piece × Nat) := f.segs.flatMap mobjsOf
  have hrall : ∀ p ∈ all, p.2 < f.view.length ∧ ReadsAt 0 50 false f.view (itemOf p) := by
    intro p hp
    obtain ⟨q, hq, hpq⟩ := List.mem_flatMap.mp hp
    obtain ⟨hle, r, hd⟩ := f.cursors q hq
    exact reads_body q.1.body f.view q.2 _ hle hd (hok q hq).reads p hpq
  have hobj : ∀ e ∈ f.tables, ∀ o, e.st = .inUse o → ∃ p ∈ all, p.1.num = e.obj ∧ p.1.gen = e.gen ∧ p.2 = o := by
    intro e he o hst
    obtain ⟨q, hq, heq⟩ := (f.mem_tables e).mp he
    obtain ⟨p, hp, hp'⟩ := (h.tableObjs q hq).obj_of_ent e heq o hst
    exact ⟨p, List.mem_flatMap.mpr ⟨q, hq, hp⟩, hp'⟩
  have hnostm : ∀ e ∈ f.tables, ∀ a b, e.st ≠ .inStream a b := by
    intro e he
    obtain ⟨q, hq, heq⟩ := (f.mem_tables e).mp he
    exact (hok q hq).noStm e heq
  obtain ⟨defs, hpo, hF, hU, hN, hK⟩ := stage_merged_from f.garbage.length false f.view f.defs0 hs0 f.tables
    (lookupVal all) hnostm h.stableGen (by
      intro e he o hst
      obtain ⟨p, hp, h1, h2, h3, hv⟩ := lookupVal_spec _ e.obj e.gen o (hobj e he o hst)
      have := hrall p hp
      rw [hv, ← h1, ← h2, ← h3]
      exact this)
  have hval : ∀ e ∈ f.tables, ∀ o, e.st = .inUse o → ∀ p ∈ all, p.2 = o → lookupVal all e.obj e.gen o = p.1.val p.2 := by
    intro e he o hst p hp h3
    obtain ⟨p', hp', _, _, h3', hv⟩ := lookupVal_spec _ e.obj e.gen o (hobj e he o hst)
    rw [hv]
    exact readsAt_val_unique (hrall p' hp').2 (hrall p hp).2 (by show p'.2 = p.2; rw [h3, h3'])
  refine ⟨defs, hpo, ?_, ?_⟩
  · intro pre q post hseg e he hno
    have hq : q ∈ f.segs := by rw [hseg]; simp
    have hfind := f.find_tables pre q post hseg (hok q hq).nums e he hno
    have het : e ∈ f.tables := (f.mem_tables e).mpr ⟨q, hq, he⟩
    -- if the context binds a generation of e.obj, then e is the own entry of that cross-reference stream object
    have hbnd : ∀ g v0, defsGet (e.obj, g) f.defs0 = some v0 → g = e.gen ∧ ∃ q0 ∈ f.segs, e.st = .inUse (secOfs q0) ∧
        ∃ p0 ∈ mobjsOf q0, p0.2 = secOfs q0 ∧ p0.1.val p0.2 = v0 := by
      intro g v0 hg
      obtain ⟨q0, hq0, hk0, hv0⟩ := hd0 _ _ hg
      obtain ⟨e0, hf0, hg0, hst0, p0, hp0, hp0o, hp0v⟩ := hown q0 hq0 _ hk0
      have hee : e0 = e := by
        have : f.tables.find? (·.obj == e.obj) = some e0 := hf0
        rw [hfind] at this
        exact (Option.some.inj this).symm
      subst hee
      exact ⟨hg0.symm, q0, hq0, hst0, p0, hp0, hp0o, by rw [hp0v, hv0]⟩
    refine ⟨fun o hst => ⟨(h.tableObjs q hq).obj_of_ent e he o hst, ?_, ?_⟩, ?_⟩
    · intro p hp _ _ h3
      have hpall : p ∈ all := List.mem_flatMap.mpr ⟨q, hq, hp⟩
      cases hb : defsGet (e.obj, e.gen) f.defs0 with
      | none =>
        rw [((hU e.obj e o hfind hst).1 hb), hval e het o hst p hpall h3]
      | some v0 =>
        obtain ⟨_, q0, hq0, hst0, p0, hp0, hp0o, hp0v⟩ := hbnd e.gen v0 hb
        rw [hK _ v0 hb, ← hp0v]
        have ho : o = secOfs q0 := by
          rw [hst] at hst0
          injection hst0
        have hp0all : p0 ∈ all := List.mem_flatMap.mpr ⟨q0, hq0, hp0⟩
        have hpv : p0.1.val p0.2 = p.1.val p.2 :=
          readsAt_val_unique (hrall p0 hp0all).2 (hrall p hpall).2 (by show p0.2 = p.2; rw [hp0o, h3, ho])
        rw [hpv]
    · intro g hne
      cases hb : defsGet (e.obj, g) f.defs0 with
      | none => exact (hU e.obj e o hfind hst).2 g hne hb
      | some v0 => exact absurd (hbnd g v0 hb).1 hne
    · intro nx hfree g
      cases hb : defsGet (e.obj, g) f.defs0 with
      | none => exact hF e.obj e nx hfind hfree g hb
      | some v0 =>
        obtain ⟨_, q0, _, hst0, _⟩ := hbnd g v0 hb
        rw [hfree] at hst0
        cases hst0
  · intro n hn g
    have hnone : f.tables.find? (·.obj == n) = none := by
      apply find_none_of
      intro e he
      obtain ⟨q, hq, heq⟩ := (f.mem_tables e).mp he
      exact hn q hq e heq
    rw [hN n hnone g]
    cases hb : defsGet (n, g) f.defs0 with
    | none => rfl
    | some v0 =>
      obtain ⟨q0, hq0, hk0, _⟩ := hd0 _ _ hb
      obtain ⟨e0, hf0, _⟩ := hown q0 hq0 _ hk0
      have : f.tables.find? (·.obj == n) = some e0 := hf0
      rw [hnone] at this
      cases this

/-- the same read from the objects: an object whose number no NEWER section mentions is defined with its value (in
    particular every cross-reference stream object) -/
theorem load_mix_objs (f : MixFile) (root : ObjId) (h : f.WF root) :
    ∃ L : Loaded, parseData f.bytes = .ok L ∧ L.root = root ∧
      ∀ pre q post, f.segs = pre ++ q :: post → ∀ p ∈ mobjsOf q,
        (∀ q' ∈ post, ∀ e' ∈ q'.1.ents, e'.obj ≠ p.1.num) →
        ObjStm.defsGet (p.1.num, p.1.gen) L.defs = some (p.1.val p.2).val := by
  obtain ⟨L, hL, hroot, hdec, _⟩ := load_mix f root h
  refine ⟨L, hL, hroot, ?_⟩
  intro pre q post hseg p hp hno
  have hq : q ∈ f.segs := by rw [hseg]; simp
  obtain ⟨e, he, ho, hg, hst⟩ := (h.tableObjs q hq).ent_of_obj p hp
  have := ((hdec pre q post hseg e he (by rw [ho]; exact hno)).1 p.2 hst).2.1 p hp ho.symm hg.symm rfl
  rw [ho, hg] at this
  exact this

end Parsley.LoaderE2E
