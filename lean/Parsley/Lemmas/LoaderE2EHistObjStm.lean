/-
  C04 end-to-end with OBJECT STREAMS inside a history (part 1: the tools).  Follow-up of Lemmas/LoaderE2EHistMix.lean,
  whose `StmOK.noInStm` restricts stream revisions to rows of type 0 and 1.  Here rows of type 2 are allowed.

  `StmOK2`, `MRevOK2`      lexical well-formedness of a revision WITHOUT the restriction to rows of type 0 / 1
  `msec_reads2`            the walk does not care: a written revision reads as its abstract section (`MReads`), its
                           entries being `streamEnts subs`, in-stream entries included
  `memberTouchedLater`     THE EXCLUSION (known finding C04-objstm-member-touched-later), a decidable predicate on the
                           sections' entry lists, oldest first: some section has an in-stream entry `(n, inStream c i)`
                           and a LATER section mentions `n` or `c`;  `untouched_spec` is what its negation gives
  `TableOf2`               the in-use entries of a section are the objects of its revision (in-stream entries ignored)
  `filesOf_infoOf`, `mem_stmsOf_infoOf`   `info_from_xref_entries` on a table with in-stream entries
  `stage_merged_objstm`    the loading stage on the MERGED table of a history, from any sorted context, with
                           in-stream entries: by `LoaderObjStm.stage_from_objstm_written`
-/
import Parsley.Lemmas.LoaderE2EHistMix
import Parsley.Lemmas.LoaderE2EObjStmFile
namespace Parsley.LoaderE2E
open Parsley Parsley.Prim Parsley.Obj Parsley.Indirect Parsley.Loader Parsley.C02 Parsley.Spelling
open Parsley.XrefSpec Parsley.C13 Parsley.LoaderChain Parsley.LoaderStage Parsley.LoaderObjStm
open Parsley.C03 (Item ReadsAt)
open Parsley.C04 (StableGen)

/-! ## revisions whose cross-reference stream may have rows of type 2 -/

/-- lexical well-formedness of a stream revision; rows of type 0, 1 AND 2 (`StmOK` without `noInStm`) -/
structure StmOK2 (r : StmSeg) : Prop where
  /-- the cross-reference stream object is legally written, with a direct /Length -/
  xsOK : r.xs.OK
  xsLen : dictGet keyLength r.xs.kvs = some (.int r.xs.data.length)
  /-- /Type /XRef, /Size, /W, /Index -/
  dict : XDictOK r.xs.kvs r.subs r.w0 r.w1 r.w2
  /-- the rows are stored as the dictionary says (plain / Flate / Flate + predictor) -/
  stored : LoaderE2E.Stored r.xs.kvs (XrefStreamFile.rowBytes r.subs r.w0 r.w1 r.w2) r.xs.data
  fits : ∀ p ∈ r.subs, ∀ e ∈ p.2, e.fits r.w0 r.w1 r.w2
  lim : ∀ p ∈ r.subs, p.1 + p.2.length ≤ Xref.usizeLim
  numsNodup : ((streamEnts r.subs).map (·.obj)).Nodup
  reads1 : ∀ q ∈ r.body1, q.p.Reads
  reads2 : ∀ q ∈ r.body2, q.p.Reads

def MRevOK2 : MRev → Prop
  | .classic r D => ClassicOK r D
  | .stream r => StmOK2 r

theorem StmOK.toOK2 {r : StmSeg} (h : StmOK r) : StmOK2 r :=
  ⟨h.xsOK, h.xsLen, h.dict, h.stored, h.fits, h.lim, h.numsNodup, h.reads1, h.reads2⟩

theorem MRevOK.toOK2 {m : MRev} (h : MRevOK m) : MRevOK2 m := by
  cases m with
  | classic r D => exact h
  | stream r => exact StmOK.toOK2 h

theorem MRevOK2.nums {m : MRev} (h : MRevOK2 m) : (m.ents.map (·.obj)).Nodup := by
  cases m with
  | classic r D => exact (ClassicOK.sec h).numsNodup
  | stream r => exact StmOK2.numsNodup h

theorem MRevOK2.reads {m : MRev} (h : MRevOK2 m) : ∀ q ∈ m.body, q.p.Reads := by
  cases m with
  | classic r D => exact ClassicOK.reads h
  | stream r =>
    intro q hq
    simp only [MRev.body, StmSeg.body, List.mem_append, List.mem_cons] at hq
    rcases hq with hq | rfl | hq
    · exact StmOK2.reads1 h q hq
    · exact r.xs.piece_reads (StmOK2.xsOK h) (StmOK2.xsLen h)
    · exact StmOK2.reads2 h q hq

/-- an in-stream entry has generation 0 -/
theorem numberS_stm_gen : ∀ (l : List SEnt) (start : Nat), ∀ x ∈ numberS start l, ∀ a b, x.st = .inStream a b → x.gen = 0
  | [], _ => by intro x hx; cases hx
  | e :: t, start => by
    intro x hx a b hst
    simp only [numberS, List.mem_cons] at hx
    rcases hx with rfl | hx
    · unfold sEnt at hst ⊢
      split at hst
      · cases hst
      · cases hst
      · rfl
    · exact numberS_stm_gen t (start + 1) x hx a b hst

/-- an in-stream entry of a section has generation 0 (a classic table has none) -/
theorem MRev.stm_gen (m : MRev) : ∀ e ∈ m.ents, ∀ a b, e.st = .inStream a b → e.gen = 0 := by
  cases m with
  | classic r D =>
    intro e he a b hst
    exact absurd hst (tableEnts_noStm r.subs e he a b)
  | stream r =>
    intro e he a b hst
    simp only [MRev.ents, streamEnts, List.mem_flatMap] at he
    obtain ⟨p, _, he⟩ := he
    exact numberS_stm_gen p.2 p.1 e he a b hst

/-- **a written revision of either kind reads as its abstract section**, rows of type 2 included -/
theorem msec_reads2 (s : Bytes) (q : MRev × Nat) (hok : MRevOK2 q.1) (hle : q.2 ≤ s.length) (rest : Bytes)
    (hd : s.drop q.2 = bodyBytes q.1.body ++ (q.1.tail ++ rest)) : MReads s (msecOf q) := by
  obtain ⟨m, pos⟩ := q
  cases m with
  | classic r D =>
    have hok' : ClassicOK r D := hok
    have hd0 : s.drop pos = bodyBytes r.body ++ (encTable r.subs ++ (kwTrailer ++ (r.wt ++ (r.ttok ++ (r.gap ++ rest))))) := by
      rw [hd]; simp [MRev.body, MRev.tail]
    have hd1 := drop_next hd0
    refine ⟨table_cursor_lt hd1, ?_⟩
    intro defs _ _
    obtain ⟨d, hsp, hdd⟩ := hok'.sec.trailer
    obtain ⟨c1, hsec⟩ := section_classic defs false false s _ r.subs r.wt r.ttok _ d D hd1 hok'.sec.subsNe hok'.sec.subsOk
      hok'.sec.wt hsp hdd hok'.sec.noXRefStm
    rw [hok'.noEncrypt] at hsec
    exact ⟨c1, hsec⟩
  | stream r =>
    have hok' : StmOK2 r := hok
    have hd0 : s.drop pos = bodyBytes r.body1 ++ (r.xs.bytes ++ (r.xpost ++ (bodyBytes r.body2 ++ (r.gap ++ rest)))) := by
      rw [hd]; simp [MRev.body, MRev.tail, StmSeg.body, bodyBytes_append, bodyBytes, WStm.piece]
    have hd1 := drop_next hd0
    have hi1 := drop_le hd0 hle
    have hlt : pos + (bodyBytes r.body1).length < s.length := by
      have := drop_le hd1 hi1
      have := WStm.bytes_pos r.xs
      omega
    refine ⟨hlt, ?_⟩
    intro defs hs hk
    obtain ⟨fs, extra, hfs, hap⟩ := stored_decodes _ _ _ hok'.stored
    have hap' : Xref.applyFilters (xrefXf r.xs.kvs) fs r.xs.data 0 =
        .ok ((r.subs.flatMap fun p => encRows r.w0 r.w1 r.w2 p.2) ++ extra, 0) := hap
    obtain ⟨l, c, hl, hmap⟩ := xrefStreamP_decoded r.xs.kvs r.subs r.w0 r.w1 r.w2 hok'.dict fs r.xs.data extra hfs hap'
      hok'.fits hok'.lim
    obtain ⟨j, hsec⟩ := section_stream s _ r.xs _ hi1 hd1 hok'.xsOK hok'.xsLen defs hs (hk _ rfl) l c hl
    rw [hmap] at hsec
    exact ⟨j, hsec⟩

/-! ## the exclusion: no member, no container is mentioned by a later section -/

/-- the numbers the in-stream entries of a section talk about: the member's number and the container's number -/
def guardedNums (E : List Xref.Ent) : List Nat :=
  E.flatMap fun e => match e.st with
    | .inStream c _ => [e.obj, c]
    | _ => []

/-- the section mentions object number `n` (with an entry of any type) -/
def mentions (E : List Xref.Ent) (n : Nat) : Bool := E.any (·.obj == n)

/-- **the excluded histories** (known finding C04-objstm-member-touched-later).  `secs`: the entry lists of the
    sections, OLDEST first.  True iff some section has an in-stream entry `(n, inStream c i)` and a LATER (newer)
    section mentions the member's number `n` or the container's number `c`. -/
def memberTouchedLater : List (List Xref.Ent) → Bool
  | [] => false
  | E :: later => (guardedNums E).any (fun n => later.any (mentions · n)) || memberTouchedLater later

theorem mem_guardedNums (E : List Xref.Ent) (e : Xref.Ent) (he : e ∈ E) (c i : Nat) (hst : e.st = .inStream c i) :
    e.obj ∈ guardedNums E ∧ c ∈ guardedNums E := by
  unfold guardedNums
  constructor
  · exact List.mem_flatMap.mpr ⟨e, he, by rw [hst]; simp⟩
  · exact List.mem_flatMap.mpr ⟨e, he, by rw [hst]; simp⟩

/-- what the negation gives: a member's number and its container's number are mentioned by no later section -/
theorem untouched_spec : ∀ (secs : List (List Xref.Ent)), memberTouchedLater secs = false →
    ∀ (pre : List (List Xref.Ent)) (E : List Xref.Ent) (post : List (List Xref.Ent)), secs = pre ++ E :: post →
    ∀ e ∈ E, ∀ c i, e.st = .inStream c i → ∀ E' ∈ post, ∀ e' ∈ E', e'.obj ≠ e.obj ∧ e'.obj ≠ c
  | [], _, pre, E, post, hs => by
    intro e _
    have := congrArg List.length hs
    simp at this
  | S :: later, h, pre, E, post, hs => by
    intro e he c i hst E' hE' e' he'
    simp only [memberTouchedLater, Bool.or_eq_false_iff] at h
    cases pre with
    | nil =>
      simp only [List.nil_append, List.cons.injEq] at hs
      obtain ⟨rfl, rfl⟩ := hs
      obtain ⟨h1, h2⟩ := mem_guardedNums S e he c i hst
      have hany := h.1
      rw [List.any_eq_false] at hany
      have key : ∀ n ∈ guardedNums S, e'.obj ≠ n := by
        intro n hn heq
        have h3 := hany n hn
        simp only [Bool.not_eq_true, List.any_eq_false] at h3
        have h4 := h3 E' hE'
        simp only [mentions, Bool.not_eq_true, List.any_eq_false] at h4
        have h5 := h4 e' he'
        simp [heq] at h5
      exact ⟨key _ h1, key _ h2⟩
    | cons P pre' =>
      simp only [List.cons_append, List.cons.injEq] at hs
      exact untouched_spec later h.2 pre' E post hs.2 e he c i hst E' hE' e' he'

/-! ## `info_from_xref_entries` on a table with in-stream entries -/

/-- the in-file infos of a table are the infos of its in-use entries -/
theorem filesOf_infoOf (val : Nat → Nat → Nat → Located Obj) : ∀ X : List Xref.Ent,
    filesOf (infoOf X) = (itemsOf val X).map Item.info
  | [] => rfl
  | e :: t => by
    have ih := filesOf_infoOf val t
    unfold infoOf itemsOf
    cases hst : e.st with
    | free n => simpa using ih
    | inUse o => simp [filesOf, ih, Item.info]
    | inStream a b => simpa [filesOf] using ih

/-- the container identifiers a table names -/
theorem mem_stmsOf_infoOf (id : ObjId) : ∀ X : List Xref.Ent,
    id ∈ stmsOf (infoOf X) ↔ ∃ e ∈ X, ∃ i, e.st = .inStream id.1 i ∧ id.2 = 0
  | [] => by simp [infoOf, stmsOf]
  | e :: t => by
    have ih := mem_stmsOf_infoOf id t
    unfold infoOf
    cases hst : e.st with
    | free n =>
      simp only [ih, List.mem_cons, exists_eq_or_imp, hst]
      simp
    | inUse o =>
      simp only [stmsOf, ih, List.mem_cons, exists_eq_or_imp, hst]
      simp
    | inStream a b =>
      simp only [stmsOf, ih, List.mem_cons, exists_eq_or_imp, hst, Xref.Status.inStream.injEq]
      constructor
      · rintro (h | h)
        · left
          exact ⟨b, ⟨by rw [h], rfl⟩, by rw [h]⟩
        · right; exact h
      · rintro (⟨i, ⟨h1, _⟩, h2⟩ | h)
        · left
          exact Prod.ext h1.symm h2
        · right; exact h

theorem mem_filesOf (a b c : Nat) : ∀ l : List ObjInfo, ObjInfo.inFile a b c ∈ filesOf l ↔ ObjInfo.inFile a b c ∈ l
  | [] => by simp [filesOf]
  | .inFile x y z :: t => by
    simp only [filesOf, List.mem_cons, mem_filesOf a b c t]
  | .inStm x y :: t => by
    simp only [filesOf, List.mem_cons, mem_filesOf a b c t]
    simp

/-- the section's in-use entries are the objects `objs` at their offsets (in some order); in-stream entries are not
    constrained here -/
def TableOf2 (E : List Xref.Ent) (objs : List (Piece × Nat)) : Prop :=
  ∃ perm : List (Piece × Nat), perm.Perm objs ∧
    filesOf (infoOf E) = perm.map fun q => ObjInfo.inFile q.1.num q.1.gen q.2

theorem TableOf.toTableOf2 {E : List Xref.Ent} {objs : List (Piece × Nat)} (h : TableOf E objs)
    (hno : ∀ e ∈ E, ∀ a b, e.st ≠ .inStream a b) : TableOf2 E objs := by
  obtain ⟨perm, hperm, htab⟩ := h
  refine ⟨perm, hperm, ?_⟩
  rw [filesOf_infoOf (fun _ _ _ => ⟨.null, 0, 0⟩), ← infoOf_eq_items _ E hno]
  exact htab

theorem TableOf2.obj_of_ent {E : List Xref.Ent} {objs : List (Piece × Nat)} (h : TableOf2 E objs)
    (e : Xref.Ent) (he : e ∈ E) (o : Nat) (hst : e.st = .inUse o) :
    ∃ q ∈ objs, q.1.num = e.obj ∧ q.1.gen = e.gen ∧ q.2 = o := by
  obtain ⟨perm, hperm, htab⟩ := h
  have hm : ObjInfo.inFile e.obj e.gen o ∈ filesOf (infoOf E) :=
    (mem_filesOf _ _ _ _).mpr ((C04.infoOf_inFile E e.obj e.gen o).mpr ⟨e, he, rfl, rfl, hst⟩)
  rw [htab] at hm
  obtain ⟨q, hq, heq⟩ := List.mem_map.mp hm
  injection heq with h1 h2 h3
  exact ⟨q, hperm.mem_iff.mp hq, h1, h2, h3⟩

theorem TableOf2.ent_of_obj {E : List Xref.Ent} {objs : List (Piece × Nat)} (h : TableOf2 E objs)
    (q : Piece × Nat) (hq : q ∈ objs) : ∃ e ∈ E, e.obj = q.1.num ∧ e.gen = q.1.gen ∧ e.st = .inUse q.2 := by
  obtain ⟨perm, hperm, htab⟩ := h
  have hm : ObjInfo.inFile q.1.num q.1.gen q.2 ∈ filesOf (infoOf E) := by
    rw [htab]
    exact List.mem_map.mpr ⟨q, hperm.mem_iff.mpr hq, rfl⟩
  exact (C04.infoOf_inFile E _ _ _).mp ((mem_filesOf _ _ _ _).mp hm)

/-! ## the loading stage on a merged table with in-stream entries -/

/-- with stable generations an entry is in the merged table iff it is the newest entry of its number -/
theorem mem_merged_iff (L : List Xref.Ent) (hstable : StableGen L) (e : Xref.Ent) :
    e ∈ dedupKey L [] ↔ L.find? (·.obj == e.obj) = some e := by
  have hfil := stable_gen_first_per_number L hstable e.obj
  constructor
  · intro he
    have hm : e ∈ (dedupKey L []).filter (·.obj == e.obj) := by simp [List.mem_filter, he]
    rw [hfil] at hm
    cases hf : L.find? (·.obj == e.obj) with
    | none => rw [hf] at hm; simp at hm
    | some e' =>
      rw [hf] at hm
      have : e = e' := by simpa using hm
      rw [this]
  · intro hf
    have hm : e ∈ (dedupKey L []).filter (·.obj == e.obj) := by rw [hfil, hf]; simp
    exact (List.mem_filter.mp hm).1

theorem find_obj {L : List Xref.Ent} {n : Nat} {e : Xref.Ent} (h : L.find? (·.obj == n) = some e) : e.obj = n := by
  simpa using List.find?_some h

/-- **the stage on a merged table with in-stream entries, from a context `defs0`**.  `L`: all sections' entries,
    newest first, stable generations; `ws`: the object streams.  Hypotheses, all about the NEWEST entry per number
    (`L.find?`): an in-stream one names a container of `ws`; the newest entry of a container's number is in use,
    generation 0, and holds the container, which is unbound in `defs0` and an object stream as written (`WCont.OK`);
    the newest entry of a member's number is an in-stream entry naming its container.  Then `parse_objects`
    succeeds and: free => undefined; in use => bound to the value at the offset; every member bound to the value
    written in the stream; unmentioned => as `defs0` says; `defs0` survives. -/
theorem stage_merged_objstm (hofs : Nat) (s : Bytes) (defs0 : Defs) (hs0 : DefsSorted defs0)
    (L : List Xref.Ent) (val : Nat → Nat → Nat → Located Obj) (ws : List WCont)
    (hsize : hofs + s.length ≤ 2 ^ 63)
    (hstable : StableGen L)
    (hread : ∀ e ∈ L, ∀ o, e.st = .inUse o →
      o < s.length ∧ ReadsAt 0 50 false s ⟨e.obj, e.gen, o, val e.obj e.gen o⟩)
    (hrows : ∀ n e c i, L.find? (·.obj == n) = some e → e.st = .inStream c i → ∃ w ∈ ws, w.num = c)
    (hcont : ∀ w ∈ ws, w.OK s ∧ defsGet (w.num, 0) defs0 = none ∧
      ∃ e o, L.find? (·.obj == w.num) = some e ∧ e.gen = 0 ∧ e.st = .inUse o ∧
        (val w.num 0 o).val = .stream w.kvs w.sc)
    (hcnd : (ws.map WCont.num).Nodup)
    (hmnd : (ws.flatMap fun w => w.mems.map (·.num)).Nodup)
    (hmem : ∀ w ∈ ws, ∀ m ∈ w.mems, defsGet (m.num, 0) defs0 = none ∧
      ∃ e i, L.find? (·.obj == m.num) = some e ∧ e.st = .inStream w.num i) :
    ∃ defs, parseObjects hofs ⟨⟨defs0, 0, 50, false⟩, false⟩ (infoOf (dedupKey L [])) s = .ok defs ∧
      (∀ n e nx, L.find? (·.obj == n) = some e → e.st = .free nx →
        ∀ g, defsGet (n, g) defs0 = none → ObjStm.defsGet (n, g) defs = none) ∧
      (∀ n e o, L.find? (·.obj == n) = some e → e.st = .inUse o →
        (defsGet (n, e.gen) defs0 = none → ObjStm.defsGet (n, e.gen) defs = some (val n e.gen o).val) ∧
        ∀ g, g ≠ e.gen → defsGet (n, g) defs0 = none → ObjStm.defsGet (n, g) defs = none) ∧
      (∀ w ∈ ws, ∀ m ∈ w.mems, ObjStm.defsGet (m.num, 0) defs = some m.v) ∧
      (∀ n e c i, L.find? (·.obj == n) = some e → e.st = .inStream c i → ∀ g,
        (∀ w ∈ ws, ∀ m ∈ w.mems, (m.num, 0) ≠ (n, g)) → defsGet (n, g) defs0 = none →
        ObjStm.defsGet (n, g) defs = none) ∧
      (∀ n, L.find? (·.obj == n) = none → ∀ g, ObjStm.defsGet (n, g) defs = (defsGet (n, g) defs0).map (·.val)) ∧
      (∀ k v0, defsGet k defs0 = some v0 → ObjStm.defsGet k defs = some v0.val) := by
  have hfil : ∀ n, (dedupKey L []).filter (·.obj == n) = (L.find? (·.obj == n)).toList :=
    stable_gen_first_per_number L hstable
  have hsub : ∀ e ∈ dedupKey L [], e ∈ L := fun e he => mem_dedupKey_sub L e he
  have hnd : ((itemsOf val (dedupKey L [])).map Item.key).Nodup := itemsOf_nodup val L
  have hcur : ∀ e, e ∈ dedupKey L [] ↔ L.find? (·.obj == e.obj) = some e := mem_merged_iff L hstable
  generalize dedupKey L [] = X at hfil hsub hnd hcur
  -- an item of number n comes from the newest entry of n, which is in use
  have hitem : ∀ it ∈ itemsOf val X, ∃ e, L.find? (·.obj == it.id) = some e ∧ e.st = .inUse it.ofs ∧ it.gen = e.gen :=
    fun it hit => items_of_number val X L it.id (hfil it.id) it hit rfl
  -- a member's number: the newest entry is an in-stream one
  have hnomem : ∀ n e, L.find? (·.obj == n) = some e → (∀ c i, e.st ≠ .inStream c i) →
      ∀ g, ∀ w ∈ ws, ∀ m ∈ w.mems, (m.num, 0) ≠ (n, g) := by
    intro n e hf hno g w hw m hm hk
    obtain ⟨_, e', i, hf', hst'⟩ := hmem w hw m hm
    have hn : m.num = n := congrArg Prod.fst hk
    rw [hn, hf] at hf'
    cases hf'
    exact hno _ _ hst'
  obtain ⟨defs, hpo, hA, hM, hB, hC⟩ := stage_from_objstm_written hofs s defs0 hs0 (infoOf X) (itemsOf val X) ws hsize
    (filesOf_infoOf val X)
    (by
      intro id
      rw [mem_stmsOf_infoOf id X]
      constructor
      · rintro ⟨e, heX, i, hst, h0⟩
        obtain ⟨w, hw, hwn⟩ := hrows e.obj e id.1 i ((hcur e).mp heX) hst
        exact ⟨w, hw, Prod.ext hwn.symm h0⟩
      · rintro ⟨w, hw, rfl⟩
        have hne := (hcont w hw).1.data.ne
        cases hms : w.mems with
        | nil => exact absurd hms hne
        | cons m t =>
          obtain ⟨_, e, i, hf, hst⟩ := hmem w hw m (by rw [hms]; exact List.mem_cons_self)
          have heo := find_obj hf
          refine ⟨e, (hcur e).mpr (by rw [heo]; exact hf), i, hst, rfl⟩)
    hnd
    (by
      intro it hit _
      obtain ⟨e, heX, hst, hitq⟩ := (mem_itemsOf val it X).mp hit
      have := hread e (hsub e heX) it.ofs hst
      rw [hitq]; exact this)
    hcnd
    (by
      intro w hw
      obtain ⟨hok, hd0, e, o, hf, hg, hst, hv⟩ := hcont w hw
      have heo := find_obj hf
      refine ⟨Or.inl ⟨⟨w.num, 0, o, val w.num 0 o⟩, ?_, rfl, hd0, hv⟩, hok⟩
      refine (mem_itemsOf val _ X).mpr ⟨e, (hcur e).mpr (by rw [heo]; exact hf), hst, ?_⟩
      rw [heo, hg])
    hmnd
    (by
      intro w hw m hm
      obtain ⟨hd0, e, i, hf, hst⟩ := hmem w hw m hm
      refine ⟨?_, hd0⟩
      intro it hit hk
      obtain ⟨e', hf', hst', _⟩ := hitem it hit
      have hid : it.id = m.num := congrArg Prod.fst hk
      rw [hid, hf] at hf'
      cases hf'
      rw [hst] at hst'
      cases hst')
  refine ⟨defs, hpo, ?_, ?_, hM, ?_, ?_, hC⟩
  · intro n e nx hf hfree g hg
    rw [hB (n, g) ?_ (hnomem n e hf (by intro c i h; rw [hfree] at h; cases h) g), hg]; · rfl
    intro it hit hk
    obtain ⟨e', hf', hst', _⟩ := hitem it hit
    have hid : it.id = n := congrArg Prod.fst hk
    rw [hid, hf] at hf'; cases hf'
    rw [hfree] at hst'; cases hst'
  · intro n e o hf huse
    have heo := find_obj hf
    constructor
    · intro hg
      have hit : (⟨e.obj, e.gen, o, val e.obj e.gen o⟩ : Item) ∈ itemsOf val X :=
        (mem_itemsOf val _ X).mpr ⟨e, (hcur e).mpr (by rw [heo]; exact hf), huse, rfl⟩
      have := hA _ hit (by rw [heo]; exact hg)
      rw [heo] at this
      exact this
    · intro g hne hg
      rw [hB (n, g) ?_ (hnomem n e hf (by intro c i h; rw [huse] at h; cases h) g), hg]; · rfl
      intro it hit hk
      obtain ⟨e', hf', _, hgen⟩ := hitem it hit
      have hid : it.id = n := congrArg Prod.fst hk
      rw [hid, hf] at hf'; cases hf'
      exact hne (by rw [← hgen]; exact (congrArg Prod.snd hk).symm)
  · intro n e c i hf hstm g hnm hg
    rw [hB (n, g) ?_ hnm, hg]; · rfl
    intro it hit hk
    obtain ⟨e', hf', hst', _⟩ := hitem it hit
    have hid : it.id = n := congrArg Prod.fst hk
    rw [hid, hf] at hf'; cases hf'
    rw [hstm] at hst'; cases hst'
  · intro n hf g
    apply hB (n, g)
    · intro it hit hk
      obtain ⟨e', hf', _, _⟩ := hitem it hit
      have hid : it.id = n := congrArg Prod.fst hk
      rw [hid, hf] at hf'; cases hf'
    · intro w hw m hm hk
      obtain ⟨_, e', i, hf', _⟩ := hmem w hw m hm
      have hn : m.num = n := congrArg Prod.fst hk
      rw [hn, hf] at hf'
      cases hf'

end Parsley.LoaderE2E
